//! C02 — index along a direction (Fresnel wave-normal solution), crystal frame, walk-off
use crate::common::*;
use nalgebra::{Rotation3, Unit, Vector3};
use spdcalc::crystal::{CrystalSetup, OpticAxisType};
use spdcalc::dim::ucum::{M, RAD};
use spdcalc::math::derivative_at;
use spdcalc::beam::{IdlerBeam, PumpBeam, SignalBeam};
use spdcalc::prelude::*;
use spdcalc::utils::from_celsius_to_kelvin;
use std::f64::consts::{FRAC_PI_2, PI};

pub const CRYSTALS: [CrystalType; 11] = [
  CrystalType::BBO_1,
  CrystalType::KTP,
  CrystalType::BiBO_1,
  CrystalType::LiNbO3_1,
  CrystalType::LiNb_MgO,
  CrystalType::KDP_1,
  CrystalType::AgGaSe2_1,
  CrystalType::AgGaSe2_2,
  CrystalType::LiIO3_2,
  CrystalType::LiIO3_1,
  CrystalType::AgGaS2_1,
];

/// a positive-uniaxial expression crystal (rutile-like TiO2, n_e > n_o): the 'Ordinary' (slow) wave is the
/// direction-dependent one, unlike in every built-in uniaxial crystal
pub fn rutile_expr() -> CrystalType {
  CrystalType::from_string(
    r#"{ "no": "sqrt(5.913+0.2441/(l^2-0.0803))", "ne": "sqrt(7.197+0.3322/(l^2-0.0843))" }"#,
  )
  .expect("expression crystal")
}

/// the 11 built-in crystals plus the expression crystal
pub fn all_crystals() -> Vec<CrystalType> {
  let mut v: Vec<CrystalType> = CRYSTALS.to_vec();
  v.push(rutile_expr());
  v
}

/// rounding allowance for the clauses of the statement that carry no tolerance of their own
/// (bounds, uniaxial law, mirror images): the coincident root of the Fresnel quadratic is only
/// √ε ≈ 1.5e-8 conditioned, so values are compared to a few times that.
pub const REL_SLACK: f64 = 1e-7;
const WALKOFF_TOL: f64 = 1e-6;

pub fn pol_tok(p: PolarizationType) -> &'static str {
  match p {
    PolarizationType::Ordinary => "o",
    PolarizationType::Extraordinary => "e",
  }
}

/// transmission window in metres (LiNbO3_1's declared window is a nm/µm slip — defect D1 of C01 —
/// wavelengths are generated from the intended 400–3400 nm)
pub fn window(c: &CrystalType) -> (f64, f64) {
  match c.get_meta().transmission_range {
    Some(r) if r.1 < 100e-9 => (r.0 * 1e3, r.1 * 1e3),
    Some(r) => (r.0, r.1),
    None => (400e-9, 2000e-9),
  }
}

pub fn is_uniaxial(c: &CrystalType) -> bool {
  matches!(
    c.get_meta().axis_type,
    OpticAxisType::PositiveUniaxial | OpticAxisType::NegativeUniaxial
  )
}

pub fn setup(c: &CrystalType, theta: f64, phi: f64, t_c: f64) -> CrystalSetup {
  CrystalSetup {
    crystal: c.clone(),
    pm_type: PMType::Type2_e_eo,
    phi: phi * RAD,
    theta: theta * RAD,
    length: 2e-3 * M,
    temperature: from_celsius_to_kelvin(t_c),
    counter_propagation: false,
  }
}

pub fn gen_lambda(r: &mut Rng, c: &CrystalType) -> f64 {
  let (lo, hi) = window(c);
  match r.below(8) {
    0 => lo,
    1 => hi,
    _ => r.log_range(lo, hi),
  }
}

pub fn gen_temp(r: &mut Rng) -> f64 {
  match r.below(5) {
    0 => 20.0,
    1 => *r.pick(&[-50.0, 24.5, 200.0]),
    _ => r.range(-50.0, 200.0),
  }
}

pub fn gen_crystal_angle(r: &mut Rng) -> f64 {
  match r.below(10) {
    0 => 0.0,
    1 => FRAC_PI_2,
    2 => *r.pick(&[PI, -FRAC_PI_2, 0.1, -0.05, PI / 6.0, PI / 4.0]),
    3 => r.range(-PI, PI),
    _ => r.range(0.0, FRAC_PI_2),
  }
}

fn uniform_sphere(r: &mut Rng) -> Vector3<f64> {
  let z = r.range(-1.0, 1.0);
  let a = r.range(0.0, 2.0 * PI);
  let s = (1.0 - z * z).max(0.0).sqrt();
  Vector3::new(s * a.cos(), s * a.sin(), z)
}

/// unit vector at angle `rad` from the unit vector `a`, azimuth `az` around it
fn ring_point(a: &Vector3<f64>, rad: f64, az: f64) -> Vector3<f64> {
  // orthonormal pair perpendicular to a
  let helper = if a.x.abs() < 0.9 { Vector3::x() } else { Vector3::y() };
  let e1 = a.cross(&helper).normalize();
  let e2 = a.cross(&e1).normalize();
  (a * rad.cos() + (e1 * az.cos() + e2 * az.sin()) * rad.sin()).normalize()
}

/// the optic axes in the crystal frame, from the principal indices of the real code
pub fn optic_axes(n: &Vector3<f64>) -> Vec<Vector3<f64>> {
  let b = [1.0 / (n.x * n.x), 1.0 / (n.y * n.y), 1.0 / (n.z * n.z)];
  let mut idx = [0usize, 1, 2];
  idx.sort_by(|i, j| b[*j].partial_cmp(&b[*i]).unwrap()); // b1 >= b2 >= b3
  let (i1, i2, i3) = (idx[0], idx[1], idx[2]);
  let unit = |i: usize| {
    let mut v = Vector3::zeros();
    v[i] = 1.0;
    v
  };
  if b[i1] == b[i2] {
    return vec![unit(i3)];
  }
  if b[i2] == b[i3] {
    return vec![unit(i1)];
  }
  // angle V from axis 3 (largest index) towards axis 1 : tan²V = (b1-b2)/(b2-b3)
  let v = ((b[i1] - b[i2]) / (b[i2] - b[i3])).sqrt().atan();
  vec![
    unit(i3) * v.cos() + unit(i1) * v.sin(),
    unit(i3) * v.cos() - unit(i1) * v.sin(),
  ]
}

thread_local! {
  /// sample of index_along calls (setup, λ, direction, polarisation, result) for the history-independence replay
  static REC_INDEX: std::cell::RefCell<Vec<(CrystalSetup, f64, Vector3<f64>, PolarizationType, Option<f64>)>> = std::cell::RefCell::new(Vec::new());
  /// sample of walkoff_angle calls (crystal, θc, φc, φb, θb, pol, λ, T, result)
  static REC_WALK: std::cell::RefCell<Vec<(CrystalType, f64, f64, f64, f64, PolarizationType, f64, f64, Option<f64>)>> = std::cell::RefCell::new(Vec::new());
  static CALLS: std::cell::Cell<usize> = std::cell::Cell::new(0);
  static SPDC0: SPDC = SPDC::default();
}

const RADII: [f64; 10] = [1e-2, 1e-3, 1e-4, 1e-5, 1e-6, 1e-7, 1e-8, 1e-9, 0.0, 3e-4];

struct Case<'a> {
  c: &'a CrystalType,
  cs: CrystalSetup,
  theta: f64,
  phi: f64,
  lambda: f64,
  t_c: f64,
  n: Vector3<f64>,
}

fn make_case<'a>(r: &mut Rng, c: &'a CrystalType, aligned: bool) -> Case<'a> {
  let (theta, phi) = if aligned {
    (0.0, 0.0)
  } else {
    (gen_crystal_angle(r), gen_crystal_angle(r))
  };
  let lambda = gen_lambda(r, c);
  let t_c = gen_temp(r);
  let cs = setup(c, theta, phi, t_c);
  let n = *cs.crystal.get_indices(lambda * M, cs.temperature);
  Case { c, cs, theta, phi, lambda, t_c, n }
}

fn index(cs: &CrystalSetup, lambda: f64, d: &Vector3<f64>, p: PolarizationType) -> Option<f64> {
  let r = guard(|| *cs.index_along(lambda * M, Unit::new_unchecked(*d), p));
  let k = CALLS.with(|c| {
    c.set(c.get() + 1);
    c.get()
  });
  if k % 23 == 0 {
    REC_INDEX.with(|v| v.borrow_mut().push((cs.clone(), lambda, *d, p, r)));
  }
  r
}

fn same_bits(a: Option<f64>, b: Option<f64>) -> bool {
  match (a, b) {
    (Some(x), Some(y)) => x.to_bits() == y.to_bits() || (x.is_nan() && y.is_nan()),
    (None, None) => true,
    _ => false,
  }
}

/// the same walk-off / index through every API route: plain Beam, the three wrappers, an SPDC object
fn walkoff_routes(route: usize, beam: &Beam, cs: &CrystalSetup) -> (&'static str, Option<f64>, Option<f64>) {
  match route % 5 {
    0 => ("beam", guard(|| *(beam.walkoff_angle(cs) / RAD)), guard(|| *beam.refractive_index(beam.frequency(), cs))),
    1 => {
      let b = SignalBeam::new(beam.clone());
      ("signal", guard(|| *(b.walkoff_angle(cs) / RAD)), guard(|| *b.refractive_index(b.frequency(), cs)))
    }
    2 => {
      let b = IdlerBeam::new(beam.clone());
      ("idler", guard(|| *(b.walkoff_angle(cs) / RAD)), guard(|| *b.refractive_index(b.frequency(), cs)))
    }
    3 => {
      let b = PumpBeam::new(beam.clone());
      ("pump", guard(|| *(b.walkoff_angle(cs) / RAD)), guard(|| *b.refractive_index(b.frequency(), cs)))
    }
    _ => {
      let mut spdc = SPDC0.with(|s| s.clone());
      spdc.crystal_setup = cs.clone();
      spdc.pump = PumpBeam::new(beam.clone());
      spdc.signal = SignalBeam::new(beam.clone());
      let rho = guard(|| *(spdc.pump.walkoff_angle(&spdc.crystal_setup) / RAD));
      let nb = guard(|| *spdc.signal.refractive_index(spdc.signal.frequency(), &spdc.crystal_setup));
      ("spdc", rho, nb)
    }
  }
}

fn outf(x: Option<f64>) -> String {
  x.map(fl).unwrap_or_else(|| "PANIC".into())
}

fn detail(k: &Case, d: &Vector3<f64>, region: &str, extra: &str) -> String {
  format!(
    "crystal={} ctheta={:e} cphi={:e} lambda={:e} T={} dx={:e} dy={:e} dz={:e} region={} nx={} ny={} nz={} {}",
    k.c, k.theta, k.phi, k.lambda, k.t_c, d.x, d.y, d.z, region, k.n.x, k.n.y, k.n.z, extra
  )
}

/// one direction: correspondence lines for both polarisations + the statement's predicates
fn direction_case(ctx: &mut Ctx, k: &Case, d: &Vector3<f64>, region: &str) {
  ctx.count(&format!("index_along/region={}", region));
  ctx.count(&format!("index_along/crystal={}", k.c));
  let nmin = k.n.x.min(k.n.y).min(k.n.z);
  let nmax = k.n.x.max(k.n.y).max(k.n.z);
  let mut vals = [f64::NAN; 2];
  for (i, p) in [PolarizationType::Ordinary, PolarizationType::Extraordinary].iter().enumerate() {
    let v = index(&k.cs, k.lambda, d, *p);
    ctx.k(
      "index_along",
      &format!(
        "{} {} {} {} {} {} {} {} {}",
        fl(k.n.x), fl(k.n.y), fl(k.n.z), fl(k.theta), fl(k.phi), fl(d.x), fl(d.y), fl(d.z), pol_tok(*p)
      ),
      &outf(v),
    );
    let det = detail(k, d, region, &format!("pol={} n={:?}", pol_tok(*p), v));
    match v {
      None => ctx.s("C02.value", false, "index_along/panic", &det),
      Some(x) if x == 0.0 => ctx.s("C02.value", false, "index_along/zero", &det),
      Some(x) if !x.is_finite() => ctx.s("C02.value", false, "index_along/nonfinite", &det),
      Some(x) if x < 0.0 => ctx.s("C02.value", false, "index_along/negative", &det),
      Some(x) if x < nmin * (1.0 - REL_SLACK) || x > nmax * (1.0 + REL_SLACK) => {
        ctx.s("C02.value", false, "index_along/out-of-bounds", &det)
      }
      Some(_) => ctx.s("C02.value", true, "index_along/value", &det),
    }
    vals[i] = v.unwrap_or(f64::NAN);
    // reversal of the direction
    let rv = index(&k.cs, k.lambda, &(-d), *p);
    let same = match (v, rv) {
      (Some(a), Some(b)) => a == b || (a.is_nan() && b.is_nan()),
      (None, None) => true,
      _ => false,
    };
    ctx.s("C02.reverse", same, "index_along/reverse", &format!("{} reversed={:?}", det, rv));
  }
  let (no_, ne_) = (vals[0], vals[1]);
  let det = detail(k, d, region, &format!("ordinary={:?} extraordinary={:?}", no_, ne_));
  // slow ≥ fast.  (NaN / zero values are already reported by C02.value)
  if no_.is_finite() && ne_.is_finite() && no_ > 0.0 && ne_ > 0.0 {
    ctx.s("C02.order", no_ >= ne_, "index_along/order", &det);
    // the two values are the two solutions of Fresnel's equation (x = 1/n²: x² − Bx + C = 0 with
    // B = Σ sᵢ²(b_j+b_k), C = Σ sᵢ² b_j b_k for the direction rotated into the crystal frame): Vieta
    {
      let s = k.cs.to_crystal_frame(Unit::new_unchecked(*d));
      let b = Vector3::new(1.0 / (k.n.x * k.n.x), 1.0 / (k.n.y * k.n.y), 1.0 / (k.n.z * k.n.z));
      let (u, v, w) = (s.x * s.x, s.y * s.y, s.z * s.z);
      let bb = u * (b.y + b.z) + v * (b.x + b.z) + w * (b.x + b.y);
      let cc = u * b.y * b.z + v * b.x * b.z + w * b.x * b.y;
      let (xo, xe) = (1.0 / (no_ * no_), 1.0 / (ne_ * ne_));
      let ok = (xo + xe - bb).abs() <= REL_SLACK * bb && (xo * xe - cc).abs() <= REL_SLACK * cc;
      ctx.s("C02.fresnel", ok, "index_along/fresnel-solutions", &det);
    }
    // uniaxial law
    if is_uniaxial(k.c) {
      let s = k.cs.to_crystal_frame(Unit::new_unchecked(*d));
      let (n_o, n_e) = (k.n.x, k.n.z);
      let (c2, s2) = (s.z * s.z, s.x * s.x + s.y * s.y);
      let n_th = 1.0 / (c2 / (n_o * n_o) + s2 / (n_e * n_e)).sqrt();
      let (hi, lo) = if n_th > n_o { (n_th, n_o) } else { (n_o, n_th) };
      let ok = (no_ - hi).abs() <= REL_SLACK * hi && (ne_ - lo).abs() <= REL_SLACK * lo;
      ctx.s(
        "C02.uniaxial",
        ok,
        "index_along/uniaxial-law",
        &format!("{} n_o={:?} n_theta={:?}", det, n_o, n_th),
      );
    }
  }
}

/// mirror images in the principal planes (crystal frame), for an arbitrary orientation
fn mirror_case(ctx: &mut Ctx, k: &Case, d: &Vector3<f64>, region: &str) {
  let rot = Rotation3::from_euler_angles(0., k.theta, k.phi);
  let s = rot * d;
  for axis in 0..3 {
    let mut sm = s;
    sm[axis] = -sm[axis];
    let dm = (rot.inverse() * sm).normalize();
    for p in [PolarizationType::Ordinary, PolarizationType::Extraordinary] {
      let a = index(&k.cs, k.lambda, d, p);
      let b = index(&k.cs, k.lambda, &dm, p);
      let ok = match (a, b) {
        (Some(a), Some(b)) => a.is_finite() && b.is_finite() && (a - b).abs() <= REL_SLACK * a.abs().max(b.abs()),
        _ => false,
      };
      // a zero / non-finite value is the business of C02.value; only compare proper values
      let proper = matches!((a, b), (Some(a), Some(b)) if a.is_finite() && b.is_finite() && a > 0.0 && b > 0.0);
      if proper {
        ctx.s(
          "C02.mirror",
          ok,
          "index_along/mirror",
          &detail(k, d, region, &format!("pol={} axis={} n={:?} mirrored={:?}", pol_tok(p), axis, a, b)),
        );
      }
    }
  }
}

fn lab_from_crystal(k: &Case, s: &Vector3<f64>) -> Vector3<f64> {
  if k.theta == 0.0 && k.phi == 0.0 {
    *s
  } else {
    let rot = Rotation3::from_euler_angles(0., k.theta, k.phi);
    (rot.inverse() * s).normalize()
  }
}

fn frame_case(ctx: &mut Ctx, theta: f64, phi: f64, v: Vector3<f64>) {
  let cs = setup(&CrystalType::BBO_1, theta, phi, 20.0);
  let out = guard(|| cs.to_crystal_frame(Unit::new_unchecked(v)).into_inner());
  let outs = out.map(|o| fls(&[o.x, o.y, o.z])).unwrap_or_else(|| "PANIC".into());
  ctx.k(
    "to_crystal_frame",
    &format!("{} {} {} {} {}", fl(theta), fl(phi), fl(v.x), fl(v.y), fl(v.z)),
    &outs,
  );
}

fn quad_case(ctx: &mut Ctx, a2: f64, a1: f64, a0: f64) {
  let r = roots::find_roots_quadratic(a2, a1, a0);
  let (s, key) = match r {
    roots::Roots::No(_) => ("No".to_string(), "no"),
    roots::Roots::One([x]) => (format!("One {}", fl(x)), "one"),
    roots::Roots::Two([x, y]) => (format!("Two {} {}", fl(x), fl(y)), "two"),
    _ => ("Other".to_string(), "other"),
  };
  ctx.count(&format!("quad_roots/{}", key));
  ctx.k("quad_roots", &format!("{} {} {}", fl(a2), fl(a1), fl(a0)), &s);
}

fn gen_coeff(r: &mut Rng) -> f64 {
  match r.below(9) {
    0 => 0.0,
    1 => 1.0,
    2 => *r.pick(&[-1.0, 2.0, -2.0, 4.0, 0.5, -0.0]),
    3 => r.range(-1.0, 1.0),
    4 => r.range(-10.0, 10.0),
    5 => r.log_range(1e-12, 1e12),
    6 => -r.log_range(1e-12, 1e12),
    7 => (r.below(9) as f64) - 4.0,
    _ => r.log_range(1e-3, 1e3) * if r.coin() { 1.0 } else { -1.0 },
  }
}

fn walkoff_case(ctx: &mut Ctx, c: &CrystalType, theta: f64, phi: f64, bphi: f64, btheta: f64, p: PolarizationType, lambda: f64, t_c: f64, region: &str) {
  let cs = setup(c, theta, phi, t_c);
  let beam = Beam::new(p, bphi * RAD, btheta * RAD, lambda * M, 100e-6 * M);
  let n = *cs.crystal.get_indices(beam.vacuum_wavelength(), cs.temperature);
  let d = beam.direction().into_inner();
  let route = CALLS.with(|c| {
    c.set(c.get() + 1);
    c.get()
  });
  let (route_name, rho, nb) = walkoff_routes(route, &beam, &cs);
  if route % 3 == 0 {
    REC_WALK.with(|v| v.borrow_mut().push((c.clone(), theta, phi, bphi, btheta, p, lambda, t_c, rho)));
  }
  ctx.count(&format!("walkoff/route={}", route_name));
  ctx.count(&format!("walkoff/region={}", region));
  ctx.k(
    "walkoff",
    &format!(
      "{} {} {} {} {} {} {} {} {}",
      fl(n.x), fl(n.y), fl(n.z), fl(theta), fl(phi), fl(d.x), fl(d.y), fl(d.z), pol_tok(p)
    ),
    &outf(rho),
  );
  let det = format!(
    "crystal={} ctheta={:e} cphi={:e} bphi={:e} btheta={:e} lambda={:e} T={} pol={} region={} route={} nx={} ny={} nz={} rho={:?}",
    c, theta, phi, bphi, btheta, lambda, t_c, pol_tok(p), region, route_name, n.x, n.y, n.z, rho
  );
  // Beam::refractive_index = index_along at the beam's own direction and wavelength (same K op)
  ctx.k(
    "index_along",
    &format!(
      "{} {} {} {} {} {} {} {} {}",
      fl(n.x), fl(n.y), fl(n.z), fl(theta), fl(phi), fl(d.x), fl(d.y), fl(d.z), pol_tok(p)
    ),
    &outf(nb),
  );
  // "finite for every orientation"
  match rho {
    None => ctx.s("C02.walkoff_finite", false, "walkoff/panic", &det),
    Some(x) if !x.is_finite() => ctx.s("C02.walkoff_finite", false, "walkoff/nonfinite", &det),
    Some(_) => ctx.s("C02.walkoff_finite", true, "walkoff/finite", &det),
  }
  // the general sentence of the statement, for EVERY crystal (biaxial included) and both polarisations:
  // walk-off = atan(−n′/n), n′ = ∂(index along the beam)/∂(crystal angle).  n′ is obtained here independently,
  // by a 5-point central difference (h = 1e-3 rad: truncation ~1e-12, rounding ~1e-12) of the real index_along
  // over the crystal angle.  Only where the index is differentiable and well conditioned: beam at least 12°
  // from every optic axis (the statement's own exclusion zone), crystal angle not tiny (the coded step is ε^⅓·|θ|).
  if let Some(rho) = rho {
    let s_cf = cs.to_crystal_frame(Unit::new_unchecked(d)).into_inner();
    let away = optic_axes(&n).iter().all(|a| s_cf.dot(a).abs().min(1.0).acos() >= 12.0 * PI / 180.0 + 4e-3);
    // (the coded relative step ε^⅓·|θ_c| amplifies the ~1e-13 rounding noise of the nearly cancelling Fresnel
    // discriminant of weakly birefringent crystals by 1/(6e-6·|θ_c|): measured 6.6e-8 rad at θ_c = 14°; crystal
    // angles below the statement's own 12° are therefore left to the finiteness clause)
    if away && rho.is_finite() && (theta == 0.0 || theta.abs() >= 12.0 * PI / 180.0) {
      let lam = beam.vacuum_wavelength();
      let f = |t: f64| {
        let mut s2 = cs.clone();
        s2.theta = t * RAD;
        *s2.index_along(lam, Unit::new_unchecked(d), p)
      };
      let h = 1e-3;
      let dn = (-f(theta + 2.0 * h) + 8.0 * f(theta + h) - 8.0 * f(theta - h) + f(theta - 2.0 * h)) / (12.0 * h);
      let expect = (-dn / f(theta)).atan();
      let psi_axis = optic_axes(&n).iter().map(|a| s_cf.dot(a).abs().min(1.0).acos()).fold(f64::INFINITY, f64::min);
      ctx.s(
        "C02.walkoff_derivative",
        (rho - expect).abs() <= WALKOFF_TOL,
        "walkoff/derivative",
        &format!("{} psi={:e} expect={:?} dn_dtheta={:e}", det, psi_axis, expect, dn),
      );
    }
  }
  // uniaxial closed form: the beam lies in the plane swept by the optic axis when the crystal
  // angle varies (beam azimuth 0 or π, or the beam along z), so the angle ψ between beam and optic
  // axis moves one-to-one with the crystal angle; clause restricted to 12° ≤ ψ ≤ 90°
  if is_uniaxial(c) {
    // the closed form depends only on the angle between optic axis and beam DIRECTION: a beam along z
    // (θb = 0) has the same direction whatever azimuth it stores; bphi = 0: direction (sin θb, 0, cos θb),
    // crystal-frame z = cos(θ+θb); bphi = π: direction (−sin θb, 0, cos θb), crystal-frame z = cos(θ−θb)
    let in_plane = btheta == 0.0 || bphi == 0.0 || bphi == PI;
    let psi = if btheta == 0.0 { theta } else if bphi == PI { theta - btheta } else { theta + btheta };
    if in_plane && psi >= 12.0 * PI / 180.0 && psi <= FRAC_PI_2 {
      if let Some(rho) = rho {
        let (n_o, n_e) = (n.x, n.z);
        let dependent = if n_e > n_o { PolarizationType::Ordinary } else { PolarizationType::Extraordinary };
        if p == dependent {
          let nn = *beam.refractive_index(beam.frequency(), &cs);
          let expect = (0.5 * nn * nn * (1.0 / (n_e * n_e) - 1.0 / (n_o * n_o)) * (2.0 * psi).sin()).atan();
          let ok = (rho - expect).abs() <= WALKOFF_TOL;
          ctx.s("C02.walkoff", ok, "walkoff/uniaxial-law", &format!("{} psi={:e} expect={:?}", det, psi, expect));
          // sign of the birefringence term 1/n_e² − 1/n_o² of the statement's formula on (12°, 90°)
          if psi < FRAC_PI_2 - 1e-3 {
            let sign_ok = (rho > 0.0) == (n_e < n_o) || rho.abs() <= WALKOFF_TOL;
            ctx.s("C02.walkoff", sign_ok, "walkoff/sign", &format!("{} psi={:e}", det, psi));
          }
        } else {
          ctx.s("C02.walkoff", rho.abs() <= WALKOFF_TOL, "walkoff/independent", &format!("{} psi={:e}", det, psi));
        }
      }
    }
  }
}

pub fn run(ctx: &mut Ctx) {
  let both = [PolarizationType::Ordinary, PolarizationType::Extraordinary];

  // ---------------------------------------------------------------- rotation into the crystal frame
  let special = [0.0, -0.0, FRAC_PI_2, PI, -FRAC_PI_2, 0.1, -3.0 * PI / 180.0, 2.0 * PI, 1e-9];
  let axes = [Vector3::x(), Vector3::y(), Vector3::z(), -Vector3::z()];
  for th in special.iter() {
    for ph in special.iter() {
      for v in axes.iter() {
        frame_case(ctx, *th, *ph, *v);
      }
      // S: a pump along lab z gets crystal-frame polar angles exactly (θ, φ)
      let cs = setup(&CrystalType::BBO_1, *th, *ph, 20.0);
      let s = cs.to_crystal_frame(Unit::new_unchecked(Vector3::z())).into_inner();
      let e = Vector3::new(th.sin() * ph.cos(), th.sin() * ph.sin(), th.cos());
      ctx.s(
        "C02.frame_z",
        (s - e).amax() <= 4.0 * f64::EPSILON,
        "to_crystal_frame/z",
        &format!("ctheta={:e} cphi={:e} got=({:e},{:e},{:e})", th, ph, s.x, s.y, s.z),
      );
    }
  }
  for _ in 0..ctx.n / 2 {
    let th = gen_crystal_angle(&mut ctx.rng);
    let ph = gen_crystal_angle(&mut ctx.rng);
    let v = uniform_sphere(&mut ctx.rng);
    frame_case(ctx, th, ph, v);
    let cs = setup(&CrystalType::BBO_1, th, ph, 20.0);
    let s = cs.to_crystal_frame(Unit::new_unchecked(Vector3::z())).into_inner();
    let e = Vector3::new(th.sin() * ph.cos(), th.sin() * ph.sin(), th.cos());
    let rv = cs.to_crystal_frame(Unit::new_unchecked(v)).into_inner();
    ctx.s(
      "C02.frame_z",
      (s - e).amax() <= 4.0 * f64::EPSILON && (rv.norm() - v.norm()).abs() <= 8.0 * f64::EPSILON,
      "to_crystal_frame/z",
      &format!("ctheta={:e} cphi={:e} got=({:e},{:e},{:e})", th, ph, s.x, s.y, s.z),
    );
  }

  // ---------------------------------------------------------------- the quadratic solver
  for (a2, a1, a0) in [
    (0.0, 0.0, 0.0), (0.0, 0.0, 1.0), (0.0, 2.0, 1.0), (1.0, 0.0, 1.0), (1.0, 0.0, 0.0), (1.0, 0.0, -1.0),
    (1.0, 2.0, 1.0), (1.0, -2.0, 1.0), (1e-20, -1.0, -1e-30), (-1e-20, 1.0, 1e-30), (1.0, 1e10, 1.0),
    (1.0, -1e10, 1.0), (1e-10, 1.0, 1e-10), (4.0, -4.0, 1.0),
  ] {
    quad_case(ctx, a2, a1, a0);
  }
  for _ in 0..ctx.n {
    let (a2, a1, a0) = (gen_coeff(&mut ctx.rng), gen_coeff(&mut ctx.rng), gen_coeff(&mut ctx.rng));
    quad_case(ctx, a2, a1, a0);
    // nearly degenerate: (x - r)(x - r(1+δ))
    let r = ctx.rng.range(-2.0, 2.0);
    let dl = *ctx.rng.pick(&[0.0, 1e-16, 1e-12, 1e-8, 1e-4]);
    quad_case(ctx, 1.0, -(r + r * (1.0 + dl)), r * r * (1.0 + dl));
  }

  // ---------------------------------------------------------------- pinned inputs of defect D2 (regression)
  {
    // BBO, crystal θ = φ = 0, 800 nm, directions 1e-4 rad off ẑ
    let c = &CRYSTALS[0];
    let cs = setup(c, 0.0, 0.0, 20.0);
    let n = *cs.crystal.get_indices(800e-9 * M, cs.temperature);
    let k = Case { c, cs, theta: 0.0, phi: 0.0, lambda: 800e-9, t_c: 20.0, n };
    for rad in [1e-4, 2e-4, 5e-5, 1e-5] {
      for j in 0..64 {
        let az = 2.0 * PI * (j as f64) / 64.0;
        // both an exactly normalised and a plain (sin r cos a, sin r sin a, cos r) direction
        let d = ring_point(&Vector3::z(), rad, az);
        direction_case(ctx, &k, &d, "d2-bbo");
        let d2 = Vector3::new(rad.sin() * az.cos(), rad.sin() * az.sin(), rad.cos());
        direction_case(ctx, &k, &d2, "d2-bbo");
      }
    }
    // biaxial crystals exactly on their optic axes
    for ci in [1usize, 2] {
      let c = &CRYSTALS[ci];
      for lambda in [800e-9, 1064e-9, 1550e-9] {
        let cs = setup(c, 0.0, 0.0, 20.0);
        let n = *cs.crystal.get_indices(lambda * M, cs.temperature);
        let k = Case { c, cs, theta: 0.0, phi: 0.0, lambda, t_c: 20.0, n };
        for ax in optic_axes(&n) {
          direction_case(ctx, &k, &ax, "d2-biaxial-on-axis");
          direction_case(ctx, &k, &(-ax), "d2-biaxial-on-axis");
        }
      }
    }
  }

  // ---------------------------------------------------------------- index along a direction
  let per = (ctx.n / 40).max(2); // directions per (crystal, orientation) on the sphere
  let n_orient = if ctx.thorough { 6 } else { 3 };
  let crystals_all = all_crystals();
  for c in crystals_all.iter() {
    for o in 0..n_orient {
      let k = make_case(&mut ctx.rng, c, o == 0);
      ctx.count(&format!("index_along/orientation={}", if o == 0 { "aligned" } else { "generic" }));
      // (a) uniform on the sphere
      for _ in 0..per {
        let d = uniform_sphere(&mut ctx.rng);
        direction_case(ctx, &k, &d, "sphere");
      }
      for _ in 0..(per / 4).max(1) {
        let d = uniform_sphere(&mut ctx.rng);
        mirror_case(ctx, &k, &d, "sphere");
      }
      // (b) rings around each optic axis
      let n_az = if ctx.thorough { 32 } else { 8 };
      for ax in optic_axes(&k.n) {
        for rad in RADII.iter() {
          for j in 0..n_az {
            let az = if *rad == 0.0 && j > 0 { break } else { ctx.rng.range(0.0, 2.0 * PI) };
            let s = ring_point(&ax, *rad, az);
            let d = lab_from_crystal(&k, &s);
            direction_case(ctx, &k, &d, &format!("axis-ring-{:e}", rad));
            if j == 0 {
              mirror_case(ctx, &k, &d, &format!("axis-ring-{:e}", rad));
            }
          }
        }
      }
      // (c) neighbourhoods of the principal planes and principal axes
      for rad in RADII.iter() {
        for plane in 0..3usize {
          let mut s = uniform_sphere(&mut ctx.rng);
          s[plane] = 0.0;
          if s.norm() == 0.0 {
            continue;
          }
          let mut s = s.normalize();
          s[plane] = rad.sin() * if ctx.rng.coin() { 1.0 } else { -1.0 };
          let s = s.normalize();
          let d = lab_from_crystal(&k, &s);
          direction_case(ctx, &k, &d, &format!("plane-ring-{:e}", rad));
          // principal axis
          let mut a = Vector3::zeros();
          a[plane] = 1.0;
          let s = ring_point(&a, *rad, ctx.rng.range(0.0, 2.0 * PI));
          let d = lab_from_crystal(&k, &s);
          direction_case(ctx, &k, &d, &format!("paxis-ring-{:e}", rad));
        }
      }
    }
  }

  // ---------------------------------------------------------------- ONE setup object, exactly one parameter changed per step
  {
    let steps = if ctx.thorough { 40 } else { 6 };
    let mut c = CRYSTALS[0].clone();
    let (mut theta, mut phi, mut t_c, mut lambda) = (0.6, 0.3, 20.0, 1200e-9);
    let mut d = uniform_sphere(&mut ctx.rng);
    let mut cs = setup(&c, theta, phi, t_c);
    for kind in 0..6usize {
      for _ in 0..steps {
        match kind {
          0 => {
            c = ctx.rng.pick(&CRYSTALS).clone();
            cs.crystal = c.clone();
          }
          1 => {
            t_c = gen_temp(&mut ctx.rng);
            cs.temperature = from_celsius_to_kelvin(t_c);
          }
          2 => lambda = ctx.rng.range(1000e-9, 1500e-9), // inside every crystal's window
          3 => {
            theta = gen_crystal_angle(&mut ctx.rng);
            cs.theta = theta * RAD;
          }
          4 => {
            phi = gen_crystal_angle(&mut ctx.rng);
            cs.phi = phi * RAD;
          }
          _ => d = uniform_sphere(&mut ctx.rng),
        }
        let n = *cs.crystal.get_indices(lambda * M, cs.temperature);
        let k = Case { c: &c, cs: cs.clone(), theta, phi, lambda, t_c, n };
        // evaluate on the long-lived object itself first (its result must equal the fresh clone's)
        let on_lived = index(&cs, lambda, &d, PolarizationType::Ordinary);
        let on_clone = index(&k.cs, lambda, &d, PolarizationType::Ordinary);
        ctx.s(
          "C02.history_independent",
          same_bits(on_lived, on_clone),
          "index_along/history-dependent",
          &detail(&k, &d, &format!("scan-{}", kind), &format!("pol=o lived={:?} fresh={:?}", on_lived, on_clone)),
        );
        direction_case(ctx, &k, &d, &format!("scan-{}", kind));
      }
    }
    // different crystals interleaved at bit-identical arguments
    for _round in 0..(if ctx.thorough { 6 } else { 2 }) {
      for c in CRYSTALS.iter() {
        let cs = setup(c, theta, phi, t_c);
        let n = *cs.crystal.get_indices(lambda * M, cs.temperature);
        let k = Case { c, cs, theta, phi, lambda, t_c, n };
        direction_case(ctx, &k, &d, "interleaved");
      }
    }
  }

  // ---------------------------------------------------------------- exact boundary angles (0, −0, ±90°, ±180°, 360°)
  {
    let b_angles = [0.0, -0.0, FRAC_PI_2, -FRAC_PI_2, PI, -PI, 2.0 * PI];
    let n_c = if ctx.thorough { CRYSTALS.len() } else { 3 };
    for c in CRYSTALS.iter().take(n_c) {
      let lambda = gen_lambda(&mut ctx.rng, c);
      for th in b_angles.iter() {
        for ph in b_angles.iter() {
          let cs = setup(c, *th, *ph, 20.0);
          let n = *cs.crystal.get_indices(lambda * M, cs.temperature);
          let k = Case { c, cs, theta: *th, phi: *ph, lambda, t_c: 20.0, n };
          for (bp, bt) in [(0.0, 0.0), (0.0, FRAC_PI_2), (FRAC_PI_2, FRAC_PI_2), (PI, FRAC_PI_2), (0.0, PI), (PI, 0.0), (-0.0, -FRAC_PI_2), (3.0 * FRAC_PI_2, 0.3)] {
            let d = spdcalc::beam::direction_from_polar(bp * RAD, bt * RAD).into_inner();
            direction_case(ctx, &k, &d, "boundary");
          }
        }
      }
    }
  }

  // ---------------------------------------------------------------- derivative_at on test functions
  for (name, f) in [
    ("sin", (|x: f64| x.sin()) as fn(f64) -> f64),
    ("sq", |x: f64| x * x),
    ("exp", |x: f64| x.exp()),
    ("recip", |x: f64| 1.0 / x),
    ("cube", |x: f64| x * x * x),
  ] {
    for x in [0.0, -0.0, 1.0, -1.0, 0.4, 1e-8, 1e8, 700.0, 1e160, -1e305, 1e-300] {
      let r = guard(|| derivative_at(f, x));
      ctx.k("deriv_at", &format!("{} {}", name, fl(x)), &outf(r));
    }
    for _ in 0..ctx.n / 20 {
      let x = gen_endpoint(&mut ctx.rng);
      let r = guard(|| derivative_at(f, x));
      ctx.k("deriv_at", &format!("{} {}", name, fl(x)), &outf(r));
    }
  }

  // ---------------------------------------------------------------- pinned inputs of finding D60
  // AgGaS2_1 at the 500 nm edge of its window is almost isotropic (n_o − n_e = 4.4e-3): the rounding noise of the
  // nearly cancelling Fresnel discriminant (~3e-13 in n), divided by the coded step ε^⅓·θ ≈ 1.3e-6, exceeds 1e-6 rad
  for i in [6481usize, 6713, 12010] {
    let theta = 12.0 * PI / 180.0 + (i as f64) * 5e-7;
    walkoff_case(ctx, &CrystalType::AgGaS2_1, theta, 0.0, 0.0, 0.0, PolarizationType::Extraordinary, 500e-9, 20.0, "d60-pinned");
  }

  // ---------------------------------------------------------------- walk-off
  let n_w = if ctx.thorough { 60 } else { 8 };
  for c in crystals_all.iter() {
    for p in both.iter() {
      // pump along z, crystal angle over the statement's range 12°…90° (uniaxial closed form) and beyond
      for j in 0..n_w {
        let theta = match j {
          0 => 12.0 * PI / 180.0,
          1 => FRAC_PI_2,
          2 => 31.603728550521122 * PI / 180.0,
          _ => ctx.rng.range(12.0 * PI / 180.0, FRAC_PI_2),
        };
        let phi = if j % 2 == 0 { 0.0 } else { gen_crystal_angle(&mut ctx.rng) };
        let lambda = gen_lambda(&mut ctx.rng, c);
        let t_c = gen_temp(&mut ctx.rng);
        walkoff_case(ctx, c, theta, phi, 0.0, 0.0, *p, lambda, t_c, "pump-12-90");
        // same direction (along z), other stored azimuths: e.g. the collinear optimum idler has φ = φ_s + 180°
        let bphi = match j % 6 {
          0 => PI,
          1 => FRAC_PI_2,
          2 => 3.0 * FRAC_PI_2,
          3 => 37.0 * PI / 180.0,
          _ => ctx.rng.range(0.0, 2.0 * PI),
        };
        walkoff_case(ctx, c, theta, phi, bphi, 0.0, *p, lambda, t_c, "along-z-azimuth");
      }
      // beams in the plane of rotation
      for _ in 0..n_w / 2 {
        let btheta = ctx.rng.range(0.0, 0.2);
        let theta = ctx.rng.range(12.0 * PI / 180.0, FRAC_PI_2 - 0.2);
        let lambda = gen_lambda(&mut ctx.rng, c);
        let phi = gen_crystal_angle(&mut ctx.rng);
        walkoff_case(ctx, c, theta, phi, 0.0, btheta, *p, lambda, 20.0, "in-plane");
        // tilted to the other side of z in the same plane (azimuth 180°): ψ = θc − θb
        let theta2 = ctx.rng.range(12.0 * PI / 180.0 + 0.2, FRAC_PI_2);
        walkoff_case(ctx, c, theta2, phi, PI, btheta, *p, lambda, 20.0, "in-plane-180");
      }
      // every orientation: finite (crystal angle 0, tiny, negative, beyond 90°; generic beams)
      for j in 0..n_w {
        let theta = match j {
          0 => 0.0,
          1 => 1e-4,
          2 => -0.3,
          3 => PI,
          4 => 1e-9,
          _ => gen_crystal_angle(&mut ctx.rng),
        };
        let phi = gen_crystal_angle(&mut ctx.rng);
        let (bphi, btheta) = if j % 3 == 0 {
          (0.0, 0.0)
        } else {
          (ctx.rng.range(0.0, 2.0 * PI), ctx.rng.range(-0.3, 0.3))
        };
        let lambda = gen_lambda(&mut ctx.rng, c);
        let t_c = gen_temp(&mut ctx.rng);
        walkoff_case(ctx, c, theta, phi, bphi, btheta, *p, lambda, t_c, "any");
      }
      // tilted cuts with the beam along z: crystal φ ∈ {0, 90°, 45°, random}, θ over the whole quadrant
      for j in 0..n_w {
        let theta = ctx.rng.range(0.05, FRAC_PI_2);
        let phi = match j % 4 {
          0 => FRAC_PI_2,
          1 => 0.0,
          2 => PI / 4.0,
          _ => ctx.rng.range(0.0, 2.0 * PI),
        };
        let lambda = gen_lambda(&mut ctx.rng, c);
        walkoff_case(ctx, c, theta, phi, 0.0, 0.0, *p, lambda, 20.0, "tilted-cut");
      }
      // exact boundary angles of crystal and beam
      let lambda = gen_lambda(&mut ctx.rng, c);
      for th in [0.0, -0.0, FRAC_PI_2, -FRAC_PI_2, PI, -PI] {
        for ph in [0.0, FRAC_PI_2, PI, -PI] {
          for (bp, bt) in [(0.0, 0.0), (PI, 0.0), (FRAC_PI_2, 0.0), (0.0, -0.0), (PI, 0.1), (0.0, FRAC_PI_2), (PI, PI)] {
            walkoff_case(ctx, c, th, ph, bp, bt, *p, lambda, 20.0, "boundary");
          }
        }
      }
    }
  }

  // ---------------------------------------------------------------- history independence: replay a sample backwards
  let rec = REC_INDEX.with(|v| std::mem::take(&mut *v.borrow_mut()));
  for (cs, lambda, d, p, r0) in rec.into_iter().rev() {
    let fresh = cs.clone();
    let r1 = guard(|| *fresh.index_along(lambda * M, Unit::new_unchecked(d), p));
    ctx.s(
      "C02.history_independent",
      same_bits(r0, r1),
      "index_along/history-dependent",
      &format!(
        "crystal={} ctheta={:e} cphi={:e} T_K={:e} lambda={:e} dx={:e} dy={:e} dz={:e} pol={} first={:?} replay={:?}",
        cs.crystal, *(cs.theta / RAD), *(cs.phi / RAD), *(cs.temperature / spdcalc::dim::ucum::K), lambda, d.x, d.y, d.z, pol_tok(p), r0, r1
      ),
    );
  }
  let rec = REC_WALK.with(|v| std::mem::take(&mut *v.borrow_mut()));
  for (c, theta, phi, bphi, btheta, p, lambda, t_c, r0) in rec.into_iter().rev() {
    let cs = setup(&c, theta, phi, t_c);
    let beam = Beam::new(p, bphi * RAD, btheta * RAD, lambda * M, 100e-6 * M);
    let r1 = guard(|| *(beam.walkoff_angle(&cs) / RAD));
    ctx.s(
      "C02.history_independent",
      same_bits(r0, r1),
      "walkoff/history-dependent",
      &format!(
        "crystal={} ctheta={:e} cphi={:e} bphi={:e} btheta={:e} lambda={:e} T={} pol={} first={:?} replay={:?}",
        c, theta, phi, bphi, btheta, lambda, t_c, pol_tok(p), r0, r1
      ),
    );
  }
}
