//! C16 (string forms) — PMType / PolarizationType / crystal ids: parse, print, tables
use crate::common::*;
use spdcalc::{CrystalType, PMType, PolarizationType};
use std::str::FromStr;

/// a string as one wire token: `s:` + hex code points joined by `.`
pub fn enc(s: &str) -> String {
  let v: Vec<String> = s.chars().map(|c| format!("{:x}", c as u32)).collect();
  format!("s:{}", v.join("."))
}

const ALL: [PMType; 5] = [
  PMType::Type0_o_oo,
  PMType::Type0_e_ee,
  PMType::Type1_e_oo,
  PMType::Type2_e_eo,
  PMType::Type2_e_oe,
];

pub fn pm_index(t: PMType) -> usize {
  ALL.iter().position(|x| *x == t).unwrap()
}

fn pol_tok(p: PolarizationType) -> &'static str {
  match p {
    PolarizationType::Ordinary => "o",
    PolarizationType::Extraordinary => "e",
  }
}

fn parse_case(ctx: &mut Ctx, s: &str) {
  let r = guard(|| PMType::from_str(s));
  let out = match &r {
    None => "PANIC".to_string(),
    Some(Ok(t)) => pm_index(*t).to_string(),
    Some(Err(_)) => "ERR".to_string(),
  };
  ctx.count(&format!("pm_parse/{}", if out == "ERR" { "err" } else { "ok" }));
  ctx.k("pm_parse", &enc(s), &out);
}

fn pol_case(ctx: &mut Ctx, s: &str) {
  let r = guard(|| PolarizationType::from_str(s));
  let out = match &r {
    None => "PANIC".to_string(),
    Some(Ok(p)) => pol_tok(*p).to_string(),
    Some(Err(_)) => "ERR".to_string(),
  };
  ctx.k("pol_parse", &enc(s), &out);
}

pub fn run(ctx: &mut Ctx) {
  // ---------------------------------------------------------------- tables (K) and the statement (S)
  for (i, t) in ALL.iter().enumerate() {
    let printed = t.to_string();
    ctx.k(
      "pm_table",
      &i.to_string(),
      &format!(
        "{} {} {} {} {}",
        enc(&printed),
        pol_tok(t.pump_polarization()),
        pol_tok(t.signal_polarization()),
        pol_tok(t.idler_polarization()),
        pm_index(t.inverse())
      ),
    );
    // print -> parse identity (Display and to_str)
    let back = guard(|| PMType::from_str(&printed));
    ctx.s(
      "C16.names",
      matches!(back, Some(Ok(b)) if b == *t) && t.to_str() == printed,
      "pm/print-parse",
      &format!("type={} printed={:?}", i, printed),
    );
    // the name states the polarizations: Type<D>_<p>_<s><i>
    let ch: Vec<char> = printed.chars().collect();
    let named = ch.len() == 10
      && PolarizationType::from_str(&ch[6].to_string()).ok() == Some(t.pump_polarization())
      && PolarizationType::from_str(&ch[8].to_string()).ok() == Some(t.signal_polarization())
      && PolarizationType::from_str(&ch[9].to_string()).ok() == Some(t.idler_polarization());
    ctx.s("C16.names", named, "pm/polarizations", &format!("type={} printed={:?}", i, printed));
    // inverse exchanges signal and idler, keeps the pump, is an involution
    let inv = t.inverse();
    let ok = inv.signal_polarization() == t.idler_polarization()
      && inv.idler_polarization() == t.signal_polarization()
      && inv.pump_polarization() == t.pump_polarization()
      && inv.inverse() == *t;
    ctx.s("C16.names", ok, "pm/inverse", &format!("type={}", i));
    // serde form used in configs (DisplayFromStr) round-trips
    parse_case(ctx, &printed);
  }
  // documented spellings (doc comments, doctests, unit tests, README)
  let documented: [(&str, PMType); 8] = [
    ("ooo", PMType::Type0_o_oo),
    ("o-oo", PMType::Type0_o_oo),
    ("Type2 e eo", PMType::Type2_e_eo),
    ("type 2 e->eo", PMType::Type2_e_eo),
    ("Type_2_e_eo", PMType::Type2_e_eo),
    ("e->eo", PMType::Type2_e_eo),
    ("e oo", PMType::Type1_e_oo),
    ("Type2_e_eo", PMType::Type2_e_eo),
  ];
  for (s, t) in documented.iter() {
    let r = guard(|| PMType::from_str(s));
    ctx.s(
      "C16.names",
      matches!(r, Some(Ok(b)) if b == *t),
      "pm/documented",
      &format!("spelling={:?} want={}", s, pm_index(*t)),
    );
    parse_case(ctx, s);
  }
  // polarization: documented spellings in any case and the printed form
  for (w, p) in [
    ("o", PolarizationType::Ordinary),
    ("ordinary", PolarizationType::Ordinary),
    ("e", PolarizationType::Extraordinary),
    ("extraordinary", PolarizationType::Extraordinary),
  ] {
    let n = w.chars().count();
    let masks: Vec<u32> = if n <= 8 { (0..(1u32 << n)).collect() } else { (0..64).map(|_| ctx.rng.next() as u32).chain([0, u32::MAX]).collect() };
    for m in masks {
      let s: String = w
        .chars()
        .enumerate()
        .map(|(i, c)| if (m >> (i % 32)) & 1 == 1 { c.to_ascii_uppercase() } else { c })
        .collect();
      let r = guard(|| PolarizationType::from_str(&s));
      ctx.s("C16.names", matches!(r, Some(Ok(q)) if q == p), "pol/documented", &format!("spelling={:?}", s));
      pol_case(ctx, &s);
    }
    let printed = p.to_string();
    let r = guard(|| PolarizationType::from_str(&printed));
    ctx.s("C16.names", matches!(r, Some(Ok(q)) if q == p), "pol/print-parse", &format!("printed={:?}", printed));
    pol_case(ctx, &printed);
  }
  // crystal identifiers: every id of the meta table parses to a crystal that prints the same id
  for meta in CrystalType::get_all_meta() {
    let id = meta.id;
    let r = guard(|| CrystalType::from_string(id).map(|c| (c.to_string(), c.clone(), CrystalType::from_str(&c.to_string()))));
    let ok = match r {
      Some(Ok((printed, c, Ok(back)))) => printed == id && back == c && !matches!(c, CrystalType::Expr(_)),
      _ => false,
    };
    ctx.s("C16.names", ok, "crystal/print-parse", &format!("id={}", id));
    // serde form used in JSON configs
    let r = guard(|| {
      let c = CrystalType::from_string(id).ok()?;
      let js = serde_json::to_string(&c).ok()?;
      let back: CrystalType = serde_json::from_str(&js).ok()?;
      Some(back == c && js == format!("\"{}\"", id))
    });
    ctx.s("C16.names", r == Some(Some(true)), "crystal/json", &format!("id={}", id));
  }

  // ---------------------------------------------------------------- structured templates (K, exact)
  let prefixes: &[&str] = if ctx.thorough { &["", "type", "Type", "TYPE", "tYpE", "typ", "types", "ttype"] } else { &["", "type", "Type", "tYPE", "typ"] };
  let sep1: &[&str] = if ctx.thorough { &["", " ", "  ", "_", "__", " _", "_ ", "\t", "\u{a0}", "-"] } else { &["", " ", "  ", "_", "__", " _", "_ "] };
  let digits: &[&str] = &["", "0", "1", "2", "3"];
  let sep2: &[&str] = if ctx.thorough { &["", " ", "_", " _ ", "-", "\n"] } else { &["", " ", "_", "-"] };
  let letters_p: &[&str] = &["o", "e", "O", "E", "x"];
  let mids: &[&str] = if ctx.thorough { &["", " ", "_", "-", "->", " ->", "-> ", "\n", "-->", "é>", "o", "e"] } else { &["", " ", "-", "->", "\n", "-->", "e"] };
  let letters_s: &[&str] = &["o", "e", "O", "E"];
  let letters_i: &[&str] = &["o", "e", "E", "x"];
  let suffix: &[&str] = if ctx.thorough { &["", " ", "\n"] } else { &["", "\n"] };
  let total = prefixes.len() * sep1.len() * digits.len() * sep2.len() * letters_p.len() * mids.len() * letters_s.len() * letters_i.len() * suffix.len();
  // quick: a seeded sample of the template space; thorough: all of it
  let budget = if ctx.thorough { total } else { (ctx.n * 20).min(total) };
  let stride_all = budget == total;
  let mut k = 0usize;
  while k < budget {
    let mut idx = if stride_all { k } else { ctx.rng.below(total) };
    let mut pick = |xs: &[&'static str]| {
      let v = xs[idx % xs.len()];
      idx /= xs.len();
      v
    };
    let s = [
      pick(prefixes),
      pick(sep1),
      pick(digits),
      pick(sep2),
      pick(letters_p),
      pick(mids),
      pick(letters_s),
      pick(letters_i),
      pick(suffix),
    ]
    .concat();
    parse_case(ctx, &s);
    k += 1;
  }

  // ---------------------------------------------------------------- random strings over a small alphabet
  let alphabet: Vec<char> = "typeoTEO012 _->x\n\t\u{a0}\u{17f}\u{212a}\u{e9}\u{2003}YP".chars().collect();
  let nrand = if ctx.thorough { ctx.n * 50 } else { ctx.n * 20 };
  for _ in 0..nrand {
    let len = ctx.rng.below(13);
    let s: String = (0..len).map(|_| *ctx.rng.pick(&alphabet)).collect();
    parse_case(ctx, &s);
    if len <= 2 || ctx.rng.below(8) == 0 {
      pol_case(ctx, &s);
    }
  }
  // mutate valid spellings by one edit
  let seeds = ["Type2_e_eo", "type 0 ooo", "e->eo", "Type_1_e_oo", "type2eoe", "e oo", "ooo"];
  for _ in 0..nrand / 4 {
    let base: Vec<char> = ctx.rng.pick(&seeds).chars().collect();
    let mut v = base.clone();
    match ctx.rng.below(3) {
      0 if !v.is_empty() => {
        let i = ctx.rng.below(v.len());
        v[i] = *ctx.rng.pick(&alphabet);
      }
      1 => {
        let i = ctx.rng.below(v.len() + 1);
        v.insert(i, *ctx.rng.pick(&alphabet));
      }
      _ if !v.is_empty() => {
        let i = ctx.rng.below(v.len());
        v.remove(i);
      }
      _ => {}
    }
    let s: String = v.into_iter().collect();
    parse_case(ctx, &s);
  }
  for w in ["ordinary", "extraordinary", "Ordinary ", " o", "ord", "é", "", "E", "O"] {
    pol_case(ctx, w);
  }
}
