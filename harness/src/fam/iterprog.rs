//! C14 / C15 — iterator PROGRAMS.  The statements say that the ranges yield exactly the documented
//! points "from either end"; a user reaches those points through every method of std's `Iterator`,
//! `DoubleEndedIterator` and `ExactSizeIterator` (`nth`, `nth_back`, `skip`, `step_by`, `take`, `rev`,
//! `last`, `count`, `len`, `size_hint`, `fold`, `zip`, `chain`, `peekable`, `enumerate`, mixed
//! front/back consumption …), each of which the crate's iterators may override.  A random program of
//! such calls (≤ 12 ops, ≤ 2 nested consuming adaptors) is run on the crate's iterator and on
//! `Vec::into_iter()` over the documented points, which has the std semantics by definition.  Every
//! yielded value / `None` / length must agree (values bit for bit, or within 1e-14 of the axis' scale).
//! Plain `map` / `Box<dyn Iterator>` would hide the crate's `nth`, `count`, `last`, `fold` … (they do not
//! forward them), so every source is erased into ONE iterator type `Dyn` whose trait object forwards
//! EVERY overridable method to the wrapped iterator's own method; std's adaptors and the interpreter are
//! instantiated on `Dyn` only (an interpreter generic over the concrete adaptor types cost ≈ 400
//! instantiations and two minutes of compile time).
//!
//! Sources: `Steps(..).into_iter()`, `Steps2D(..).into_iter()`, `Iterator2D::new`, the five
//! `into_signal_idler_iterator()` routes (forward-only: `impl Iterator`), `a.chain(b)` / `a.zip(b)` of two
//! partially consumed crate iterators  → predicate `C14.iterprog`;
//! `Iterator2D::new_partition(g, lo, hi)`, `Producer::into_iter` of split pieces of both rayon producers
//! → predicate `C15.iterprog`.
//! K ops `steps_prog` / `steps2d_prog` (C14) and `part2_prog` (C15): programs of the primitive calls
//! (`next`, `next_back`, `nth`, `nth_back`, `len`) against the Lean state machine.
use crate::common::*;
use rayon::iter::plumbing::Producer;
use rayon::iter::IntoParallelIterator;
use spdcalc::dim::ucum::{M, RAD, S};
use spdcalc::jsa::WavelengthSpace;
use spdcalc::prelude::*;
use spdcalc::utils::Iterator2D;
use spdcalc::{Frequency, Wavelength};

// ------------------------------------------------------------------------------------------------
// values on the wire of a program run

pub trait Keyed {
  fn key(&self) -> String;
}
impl Keyed for f64 {
  fn key(&self) -> String {
    // shortest round-trip form: distinguishes every pair of different floats (and -0 from 0)
    format!("{:e}", self)
  }
}
impl Keyed for usize {
  fn key(&self) -> String {
    self.to_string()
  }
}
impl<A: Keyed, B: Keyed> Keyed for (A, B) {
  fn key(&self) -> String {
    format!("({};{})", self.0.key(), self.1.key())
  }
}
impl Keyed for Frequency {
  fn key(&self) -> String {
    (*(*self / (RAD / S))).key()
  }
}

fn opt<T: Keyed>(x: Option<T>) -> String {
  match x {
    Some(v) => v.key(),
    None => "None".into(),
  }
}
fn list<T: Keyed>(v: &[T]) -> String {
  format!("[{}]", v.iter().map(|x| x.key()).collect::<Vec<_>>().join(","))
}
fn hint(h: (usize, Option<usize>)) -> String {
  format!("hint({};{})", h.0, h.1.map(|x| x.to_string()).unwrap_or_else(|| "-".into()))
}
/// the predicate of `find` / `position` …: true from the (m+1)-th call on — independent of the values
fn after(c: &mut usize, m: usize) -> bool {
  *c += 1;
  *c > m
}
/// a size_hint no honest iterator of this family reports (collecting would try to reserve it)
const TOO_BIG: usize = 1 << 24;

// ------------------------------------------------------------------------------------------------
// a transparent, type-erasing guard around the iterators

/// the uniform item of the erased layer: the printable, bit-faithful key of the real item
pub type Val = String;
impl Keyed for String {
  fn key(&self) -> String {
    self.clone()
  }
}

/// Object-safe mirror of every OVERRIDABLE method of `Iterator` / `DoubleEndedIterator` /
/// `ExactSizeIterator`.  It is implemented once, generically, by forwarding each method to the wrapped
/// iterator's OWN method (so the crate's `nth`, `nth_back`, `count`, `last`, `fold`, `len` … are what
/// runs), and `Dyn` below forwards each method of its own `Iterator` impl to the trait object: std's
/// adaptors (`skip`, `step_by`, `take`, `rev`, `peekable`, `chain`, `zip` …) and the interpreter are then
/// instantiated on the ONE type `Dyn` only, whatever the crate type underneath.
/// The wrappers also count the delivered items: no program over a range of n points can be handed more
/// than n of them, so an iterator that keeps delivering (a cursor that stopped moving) ends in a panic —
/// the outcome of the op in progress — instead of an unbounded `collect`.
pub trait DynIt {
  fn d_next(&mut self) -> Option<Val>;
  fn d_next_back(&mut self) -> Option<Val>;
  fn d_nth(&mut self, n: usize) -> Option<Val>;
  fn d_nth_back(&mut self, n: usize) -> Option<Val>;
  fn d_size_hint(&self) -> (usize, Option<usize>);
  fn d_len(&self) -> usize;
  fn d_count(self: Box<Self>) -> usize;
  fn d_last(self: Box<Self>) -> Option<Val>;
  fn d_fold(self: Box<Self>, f: &mut dyn FnMut(Val));
  fn d_rfold(self: Box<Self>, f: &mut dyn FnMut(Val));
  fn d_for_each(self: Box<Self>, f: &mut dyn FnMut(Val));
  fn d_find(&mut self, p: &mut dyn FnMut(&Val) -> bool) -> Option<Val>;
  fn d_rfind(&mut self, p: &mut dyn FnMut(&Val) -> bool) -> Option<Val>;
  fn d_position(&mut self, p: &mut dyn FnMut(Val) -> bool) -> Option<usize>;
  fn d_any(&mut self, p: &mut dyn FnMut(Val) -> bool) -> bool;
  fn d_max_by(self: Box<Self>, f: &mut dyn FnMut(&Val, &Val) -> std::cmp::Ordering) -> Option<Val>;
  fn d_min_by(self: Box<Self>, f: &mut dyn FnMut(&Val, &Val) -> std::cmp::Ordering) -> Option<Val>;
}

fn tick(left: &std::cell::Cell<usize>) {
  let l = left.get();
  if l == 0 {
    panic!("the iterator delivered more items than the range has points");
  }
  left.set(l - 1);
}
fn told<T: Keyed>(left: &std::cell::Cell<usize>, v: Option<T>) -> Option<Val> {
  v.map(|x| {
    tick(left);
    x.key()
  })
}

macro_rules! gate {
  (yes, $a:block, $b:block) => {
    $a
  };
  (no, $a:block, $b:block) => {
    $b
  };
}

/// the three capability levels of a source: double-ended + exact-size (the grid iterators), double-ended
/// only (`chain`), forward only (`impl Iterator` of the signal/idler routes).  A method the source does
/// not have falls back to its forward counterpart (the interpreter does not call it: see `Cap`).
macro_rules! wrapper {
  ($name:ident, ($($bound:tt)+), dei = $dei:tt, esi = $esi:tt) => {
    pub struct $name<I> {
      it: I,
      left: std::cell::Cell<usize>,
    }
    impl<I> DynIt for $name<I>
    where
      I: $($bound)+,
      I::Item: Keyed,
    {
      fn d_next(&mut self) -> Option<Val> {
        let v = self.it.next();
        told(&self.left, v)
      }
      fn d_next_back(&mut self) -> Option<Val> {
        let v = gate!($dei, { self.it.next_back() }, { self.it.next() });
        told(&self.left, v)
      }
      fn d_nth(&mut self, n: usize) -> Option<Val> {
        let v = self.it.nth(n);
        told(&self.left, v)
      }
      fn d_nth_back(&mut self, n: usize) -> Option<Val> {
        let v = gate!($dei, { self.it.nth_back(n) }, { self.it.nth(n) });
        told(&self.left, v)
      }
      fn d_size_hint(&self) -> (usize, Option<usize>) {
        self.it.size_hint()
      }
      fn d_len(&self) -> usize {
        gate!($esi, { self.it.len() }, { self.it.size_hint().0 })
      }
      fn d_count(self: Box<Self>) -> usize {
        self.it.count()
      }
      fn d_last(self: Box<Self>) -> Option<Val> {
        self.it.last().map(|x| x.key())
      }
      fn d_fold(self: Box<Self>, f: &mut dyn FnMut(Val)) {
        let me = *self;
        let left = me.left;
        me.it.fold((), |(), x| {
          tick(&left);
          f(x.key())
        })
      }
      fn d_rfold(self: Box<Self>, f: &mut dyn FnMut(Val)) {
        let me = *self;
        let left = me.left;
        gate!(
          $dei,
          {
            me.it.rfold((), |(), x| {
              tick(&left);
              f(x.key())
            })
          },
          {
            me.it.fold((), |(), x| {
              tick(&left);
              f(x.key())
            })
          }
        )
      }
      fn d_for_each(self: Box<Self>, f: &mut dyn FnMut(Val)) {
        let me = *self;
        let left = me.left;
        me.it.for_each(|x| {
          tick(&left);
          f(x.key())
        })
      }
      fn d_find(&mut self, p: &mut dyn FnMut(&Val) -> bool) -> Option<Val> {
        let left = &self.left;
        self
          .it
          .find(|x| {
            tick(left);
            p(&x.key())
          })
          .map(|x| x.key())
      }
      fn d_rfind(&mut self, p: &mut dyn FnMut(&Val) -> bool) -> Option<Val> {
        let left = &self.left;
        let mut q = |x: &I::Item| {
          tick(left);
          p(&x.key())
        };
        gate!($dei, { self.it.rfind(&mut q) }, { self.it.find(&mut q) }).map(|x| x.key())
      }
      fn d_position(&mut self, p: &mut dyn FnMut(Val) -> bool) -> Option<usize> {
        let left = &self.left;
        self.it.position(|x| {
          tick(left);
          p(x.key())
        })
      }
      fn d_any(&mut self, p: &mut dyn FnMut(Val) -> bool) -> bool {
        let left = &self.left;
        self.it.any(|x| {
          tick(left);
          p(x.key())
        })
      }
      fn d_max_by(self: Box<Self>, f: &mut dyn FnMut(&Val, &Val) -> std::cmp::Ordering) -> Option<Val> {
        let me = *self;
        let left = me.left;
        me.it
          .max_by(|a, b| {
            tick(&left);
            f(&a.key(), &b.key())
          })
          .map(|x| x.key())
      }
      fn d_min_by(self: Box<Self>, f: &mut dyn FnMut(&Val, &Val) -> std::cmp::Ordering) -> Option<Val> {
        let me = *self;
        let left = me.left;
        me.it
          .min_by(|a, b| {
            tick(&left);
            f(&a.key(), &b.key())
          })
          .map(|x| x.key())
      }
    }
  };
}
wrapper!(Full, (DoubleEndedIterator + ExactSizeIterator), dei = yes, esi = yes);
wrapper!(DeiOnly, (DoubleEndedIterator), dei = yes, esi = no);
wrapper!(FwdOnly, (Iterator), dei = no, esi = no);

/// no bound on the delivered items (the reference; adaptors over an already guarded `Dyn`)
const UNMETERED: usize = usize::MAX / 2;

/// THE iterator type of the interpreter
pub struct Dyn(Box<dyn DynIt>);
impl Dyn {
  /// a source with `points` points (guarded: at most points + 16 items are accepted from it)
  pub fn full<I>(it: I, points: usize) -> Dyn
  where
    I: DoubleEndedIterator + ExactSizeIterator + 'static,
    I::Item: Keyed,
  {
    Dyn(Box::new(Full { it, left: std::cell::Cell::new(points.saturating_add(16)) }))
  }
  pub fn dei<I>(it: I, points: usize) -> Dyn
  where
    I: DoubleEndedIterator + 'static,
    I::Item: Keyed,
  {
    Dyn(Box::new(DeiOnly { it, left: std::cell::Cell::new(points.saturating_add(16)) }))
  }
  pub fn fwd<I>(it: I, points: usize) -> Dyn
  where
    I: Iterator + 'static,
    I::Item: Keyed,
  {
    Dyn(Box::new(FwdOnly { it, left: std::cell::Cell::new(points.saturating_add(16)) }))
  }
}
impl Iterator for Dyn {
  type Item = Val;
  fn next(&mut self) -> Option<Val> {
    self.0.d_next()
  }
  fn size_hint(&self) -> (usize, Option<usize>) {
    self.0.d_size_hint()
  }
  fn count(self) -> usize {
    self.0.d_count()
  }
  fn last(self) -> Option<Val> {
    self.0.d_last()
  }
  fn nth(&mut self, n: usize) -> Option<Val> {
    self.0.d_nth(n)
  }
  fn fold<B, F: FnMut(B, Val) -> B>(self, init: B, mut f: F) -> B {
    let mut acc = Some(init);
    self.0.d_fold(&mut |x| {
      let a = acc.take().expect("accumulator");
      acc = Some(f(a, x));
    });
    acc.expect("accumulator")
  }
  fn for_each<F: FnMut(Val)>(self, mut f: F) {
    self.0.d_for_each(&mut f)
  }
  fn find<P: FnMut(&Val) -> bool>(&mut self, mut p: P) -> Option<Val> {
    self.0.d_find(&mut p)
  }
  fn position<P: FnMut(Val) -> bool>(&mut self, mut p: P) -> Option<usize> {
    self.0.d_position(&mut p)
  }
  fn any<P: FnMut(Val) -> bool>(&mut self, mut p: P) -> bool {
    self.0.d_any(&mut p)
  }
  fn max_by<F: FnMut(&Val, &Val) -> std::cmp::Ordering>(self, mut f: F) -> Option<Val> {
    self.0.d_max_by(&mut f)
  }
  fn min_by<F: FnMut(&Val, &Val) -> std::cmp::Ordering>(self, mut f: F) -> Option<Val> {
    self.0.d_min_by(&mut f)
  }
}
impl DoubleEndedIterator for Dyn {
  fn next_back(&mut self) -> Option<Val> {
    self.0.d_next_back()
  }
  fn nth_back(&mut self, n: usize) -> Option<Val> {
    self.0.d_nth_back(n)
  }
  fn rfold<B, F: FnMut(B, Val) -> B>(self, init: B, mut f: F) -> B {
    let mut acc = Some(init);
    self.0.d_rfold(&mut |x| {
      let a = acc.take().expect("accumulator");
      acc = Some(f(a, x));
    });
    acc.expect("accumulator")
  }
  fn rfind<P: FnMut(&Val) -> bool>(&mut self, mut p: P) -> Option<Val> {
    self.0.d_rfind(&mut p)
  }
}
impl ExactSizeIterator for Dyn {
  fn len(&self) -> usize {
    self.0.d_len()
  }
}

/// `count()` / `last()` of an iterator that never ends cannot be interrupted from inside: a watchdog
/// reports the case in progress as the failing input and ends the run.
static IN_PROGRESS: std::sync::Mutex<Option<(std::time::Instant, String)>> = std::sync::Mutex::new(None);
const HANG_SECONDS: u64 = 120;
fn start_watchdog() {
  std::thread::spawn(|| loop {
    std::thread::sleep(std::time::Duration::from_millis(500));
    let hung = match IN_PROGRESS.lock() {
      Ok(g) => g.as_ref().filter(|(t, _)| t.elapsed().as_secs() >= HANG_SECONDS).map(|(_, what)| what.clone()),
      Err(_) => None,
    };
    if let Some(what) = hung {
      use std::io::Write;
      let so = std::io::stdout();
      let mut h = so.lock();
      let _ = writeln!(h, "\n{} call does not return after {} s", what, HANG_SECONDS);
      let _ = h.flush();
      std::process::exit(0);
    }
  });
}
fn in_progress(what: Option<String>) {
  if let Ok(mut g) = IN_PROGRESS.lock() {
    *g = what.map(|w| (std::time::Instant::now(), w));
  }
}

// ------------------------------------------------------------------------------------------------
// programs

#[derive(Clone, Copy, Debug, PartialEq)]
pub enum Op {
  // primitive calls on the iterator itself
  Next,
  NextBack,
  Nth(usize),
  NthBack(usize),
  Len,
  Hint,
  // short-lived adaptors on `by_ref()` (the iterator lives on afterwards)
  RefTake(usize),            // by_ref().take(k).collect()
  RefTakeRev(usize),         // by_ref().take(k).rev().collect()          Take::next_back = len + nth_back
  RefSkipNext(usize),        // by_ref().skip(k).next()                   Skip::next = nth
  RefSkipBack(usize),        // by_ref().skip(k).next_back()              Skip::next_back = len
  RefStep(usize, usize),     // by_ref().step_by(s).take(m).collect()     StepBy::next = nth(s-1)
  RefStepBack(usize, usize), // by_ref().step_by(s).rev().take(m).collect()  StepBy::next_back = len, nth_back
  RefRevNth(usize),          // by_ref().rev().nth(k)                     Rev::nth = nth_back
  RefRevSkip(usize),         // by_ref().rev().skip(k).next()
  RefEnumBack,               // by_ref().enumerate().next_back()          Enumerate::next_back = len
  RefZipBack(usize),         // by_ref().zip(0..m).next_back()            Zip::next_back = len of both
  RefPeek,                   // { let mut p = by_ref().peekable(); (p.peek(), p.next_back(), p.nth(0)) }
  Find(usize),
  RFind(usize),
  Position(usize),
  RPosition(usize),
  Any(usize),
  // consuming adaptors: the rest of the program runs on the adapted (concrete) type
  Skip(usize),
  StepBy(usize),
  Take(usize),
  Rev,
  Peekable,
  Enumerate,
  Zip(usize),
  Fuse,
  // terminal calls
  Count,
  Last,
  Collect,
  RevCollect,
  Fold,
  RFold,
  ForEach,
  MaxBy,
  MinBy,
}

impl Op {
  fn show(&self) -> String {
    format!("{:?}", self).replace(' ', "")
  }
  fn kind(&self) -> String {
    let s = format!("{:?}", self);
    s.split('(').next().unwrap_or("op").to_lowercase()
  }
  fn is_primitive(&self) -> bool {
    matches!(self, Op::Next | Op::NextBack | Op::Nth(_) | Op::NthBack(_) | Op::Len)
  }
}

pub fn show_prog(p: &[Op]) -> String {
  p.iter().map(|o| o.show()).collect::<Vec<_>>().join(",")
}

/// what the source under the erased layer can do; an op beyond it runs as its forward counterpart —
/// identically for the crate's iterator and for the reference
#[derive(Clone, Copy, PartialEq, Debug)]
pub enum Cap {
  Full,
  Dei,
  Fwd,
}

/// THE interpreter (one instantiation: every iterator is a `Dyn`; after a consuming adaptor the adapted
/// iterator — a std adaptor over `Dyn`, whose calls `Dyn` forwards to the crate's own methods — is erased
/// again)
pub fn exec(mut it: Dyn, mut cap: Cap, prog: &[Op], out: &mut Vec<String>) {
  for op in prog.iter() {
    let dei = cap != Cap::Fwd;
    let esi = cap == Cap::Full;
    // capability after an adaptor whose back end needs `len` (skip, step_by, take, enumerate, zip)
    let sized = if cap == Cap::Full { Cap::Full } else { Cap::Fwd };
    match *op {
      Op::Next => out.push(opt(it.next())),
      Op::NextBack => out.push(opt(if dei { it.next_back() } else { it.next() })),
      Op::Nth(k) => out.push(opt(it.nth(k))),
      Op::NthBack(k) => out.push(opt(if dei { it.nth_back(k) } else { it.nth(k) })),
      Op::Len => out.push(if esi { format!("len={}", it.len()) } else { hint(it.size_hint()) }),
      Op::Hint => out.push(hint(it.size_hint())),
      Op::RefTake(k) => {
        let v: Vec<Val> = it.by_ref().take(k).collect();
        out.push(list(&v));
      }
      Op::RefTakeRev(k) => {
        let v: Vec<Val> = if esi { it.by_ref().take(k).rev().collect() } else { it.by_ref().take(k).collect() };
        out.push(list(&v));
      }
      Op::RefSkipNext(k) => out.push(opt(it.by_ref().skip(k).next())),
      Op::RefSkipBack(k) => out.push(opt(if esi { it.by_ref().skip(k).next_back() } else { it.by_ref().skip(k).next() })),
      Op::RefStep(s, m) => {
        let v: Vec<Val> = it.by_ref().step_by(s.max(1)).take(m).collect();
        out.push(list(&v));
      }
      Op::RefStepBack(s, m) => {
        let v: Vec<Val> = if esi { it.by_ref().step_by(s.max(1)).rev().take(m).collect() } else { it.by_ref().step_by(s.max(1)).take(m).collect() };
        out.push(list(&v));
      }
      Op::RefRevNth(k) => out.push(opt(if dei { it.by_ref().rev().nth(k) } else { it.by_ref().nth(k) })),
      Op::RefRevSkip(k) => out.push(opt(if esi { it.by_ref().rev().skip(k).next() } else { it.by_ref().skip(k).next() })),
      Op::RefEnumBack => out.push(opt(if esi { it.by_ref().enumerate().next_back() } else { it.by_ref().enumerate().next() })),
      Op::RefZipBack(m) => out.push(opt(if esi { it.by_ref().zip(0..m).next_back() } else { it.by_ref().zip(0..m).next() })),
      Op::RefPeek => {
        let mut p = it.by_ref().peekable();
        let a = match p.peek() {
          Some(x) => x.key(),
          None => "None".into(),
        };
        let b = opt(if dei { p.next_back() } else { p.next() });
        let c = opt(p.nth(0));
        out.push(format!("peek({};{};{})", a, b, c));
      }
      Op::Find(m) => {
        let mut c = 0usize;
        out.push(opt(it.find(|_| after(&mut c, m))));
      }
      Op::RFind(m) => {
        let mut c = 0usize;
        out.push(opt(if dei { it.rfind(|_| after(&mut c, m)) } else { it.find(|_| after(&mut c, m)) }));
      }
      Op::Position(m) => {
        let mut c = 0usize;
        out.push(opt(it.position(|_| after(&mut c, m))));
      }
      Op::RPosition(m) => {
        let mut c = 0usize;
        out.push(opt(if esi { it.rposition(|_| after(&mut c, m)) } else { it.position(|_| after(&mut c, m)) }));
      }
      Op::Any(m) => {
        let mut c = 0usize;
        out.push(format!("any={}", it.any(|_| after(&mut c, m))));
      }
      // ---- consuming adaptors: a std adaptor over `Dyn`, erased again
      Op::Skip(k) => {
        out.push("~".into());
        it = Dyn::full(it.skip(k), UNMETERED);
        cap = sized;
      }
      Op::StepBy(s) => {
        out.push("~".into());
        it = Dyn::full(it.step_by(s.max(1)), UNMETERED);
        cap = sized;
      }
      Op::Take(k) => {
        out.push("~".into());
        it = Dyn::full(it.take(k), UNMETERED);
        cap = sized;
      }
      Op::Enumerate => {
        out.push("~".into());
        it = Dyn::full(it.enumerate(), UNMETERED);
        cap = sized;
      }
      Op::Zip(m) => {
        out.push("~".into());
        it = Dyn::full(it.zip(0..m), UNMETERED);
        cap = sized;
      }
      Op::Peekable => {
        let mut p = it.peekable();
        out.push(match p.peek() {
          Some(x) => x.key(),
          None => "None".into(),
        });
        it = Dyn::full(p, UNMETERED);
      }
      Op::Fuse => {
        out.push("~".into());
        it = Dyn::full(it.fuse(), UNMETERED);
      }
      Op::Rev => {
        out.push("~".into());
        if dei {
          it = Dyn::full(it.rev(), UNMETERED);
        }
      }
      // ---- terminal calls
      Op::Count => {
        out.push(format!("count={}", it.count()));
        return;
      }
      Op::Last => {
        out.push(opt(it.last()));
        return;
      }
      Op::Collect | Op::RevCollect => {
        let h = it.size_hint();
        if h.0 > TOO_BIG {
          out.push(format!("size_hint-too-big:{}", hint(h)));
        } else {
          let v: Vec<Val> = if dei && *op == Op::RevCollect { it.rev().collect() } else { it.collect() };
          out.push(list(&v));
        }
        return;
      }
      Op::Fold => {
        let v = it.fold(Vec::new(), |mut v: Vec<String>, x| {
          v.push(x);
          v
        });
        out.push(format!("fold[{}]", v.join(",")));
        return;
      }
      Op::RFold => {
        let push = |mut v: Vec<String>, x: Val| {
          v.push(x);
          v
        };
        let v = if dei { it.rfold(Vec::new(), push) } else { it.fold(Vec::new(), push) };
        out.push(format!("rfold[{}]", v.join(",")));
        return;
      }
      Op::ForEach => {
        let mut v: Vec<String> = Vec::new();
        it.for_each(|x| v.push(x));
        out.push(format!("for_each[{}]", v.join(",")));
        return;
      }
      Op::MaxBy => {
        // a constant comparison: the result depends on the order of delivery only (the last element)
        out.push(opt(it.max_by(|_, _| std::cmp::Ordering::Less)));
        return;
      }
      Op::MinBy => {
        out.push(opt(it.min_by(|_, _| std::cmp::Ordering::Less)));
        return;
      }
    }
  }
}

// ------------------------------------------------------------------------------------------------
// program generation

/// an argument for nth / skip / take …: small, around the length, now and then huge
fn gen_k(r: &mut Rng, n: usize) -> usize {
  match r.below(16) {
    0 => 0,
    1 => 1,
    2 => 2,
    3 => n.saturating_sub(1),
    4 => n,
    5 => n + 1,
    6 => n.saturating_sub(2),
    7 => n / 2,
    8 => {
      // never reached by any honest position arithmetic
      match r.below(3) {
        0 => usize::MAX,
        1 => usize::MAX - r.below(4),
        _ => usize::MAX / 2 + r.below(3),
      }
    }
    _ => r.below(n + 2),
  }
}
fn gen_small(r: &mut Rng, n: usize) -> usize {
  match r.below(4) {
    0 => r.below(3),
    _ => r.below(n + 2),
  }
}
/// a step: divisors of n-1 and n are where strided walks end exactly on the last point
fn gen_step(r: &mut Rng, n: usize) -> usize {
  match r.below(7) {
    0 => 1,
    1 => 2,
    2 => n.max(1),
    3 => n.saturating_sub(1).max(1),
    4 => n + 1,
    5 => {
      let m = n.saturating_sub(1).max(1);
      let d: Vec<usize> = (1..=m).filter(|s| m % s == 0).collect();
      *r.pick(&d)
    }
    // (no huge steps: std's StepBy::nth needs ~min(step, n) iterations when both are near usize::MAX)
    _ => 1 + r.below(n + 2),
  }
}

fn gen_plain_op(r: &mut Rng, n: usize) -> Op {
  match r.below(40) {
    0..=5 => Op::Next,
    6..=11 => Op::NextBack,
    12..=16 => Op::Nth(gen_k(r, n)),
    17..=20 => Op::NthBack(gen_k(r, n)),
    21..=22 => Op::Len,
    23 => Op::Hint,
    24 => Op::RefTake(gen_small(r, n)),
    25 => Op::RefTakeRev(gen_small(r, n)),
    26 => Op::RefSkipNext(gen_k(r, n)),
    27 => Op::RefSkipBack(gen_k(r, n)),
    28 => Op::RefStep(gen_step(r, n), 1 + r.below(3)),
    29 => Op::RefStepBack(gen_step(r, n), 1 + r.below(3)),
    30 => Op::RefRevNth(gen_k(r, n)),
    31 => Op::RefRevSkip(gen_k(r, n)),
    32 => Op::RefEnumBack,
    33 => Op::RefZipBack(gen_small(r, n)),
    34 => Op::RefPeek,
    35 => Op::Find(r.below(6)),
    36 => Op::RFind(r.below(6)),
    37 => Op::Position(r.below(6)),
    38 => Op::RPosition(r.below(6)),
    _ => Op::Any(r.below(6)),
  }
}
fn gen_adaptor(r: &mut Rng, n: usize) -> Op {
  match r.below(12) {
    0..=2 => Op::Skip(gen_k(r, n)),
    3..=5 => Op::StepBy(gen_step(r, n)),
    6 => Op::Take(gen_k(r, n)),
    7..=8 => Op::Rev,
    9 => Op::Peekable,
    10 => {
      if r.coin() {
        Op::Enumerate
      } else {
        Op::Zip(gen_small(r, n))
      }
    }
    _ => Op::Fuse,
  }
}
fn gen_terminal(r: &mut Rng) -> Op {
  *r.pick(&[Op::Count, Op::Last, Op::Collect, Op::Collect, Op::RevCollect, Op::Fold, Op::RFold, Op::ForEach, Op::MaxBy, Op::MinBy])
}

/// a program of up to 12 ops with at most two consuming adaptors, usually ending in a terminal call
pub fn gen_prog(r: &mut Rng, n: usize) -> Vec<Op> {
  let len = 1 + r.below(12);
  let mut p = Vec::new();
  let mut adaptors = 0;
  let p_adapt = *r.pick(&[0.0, 0.1, 0.25]);
  while p.len() < len {
    if adaptors < 2 && r.unit() < p_adapt {
      p.push(gen_adaptor(r, n));
      adaptors += 1;
    } else {
      p.push(gen_plain_op(r, n));
    }
  }
  if r.below(4) != 0 {
    p.push(gen_terminal(r));
  }
  p
}
/// primitive calls only (the ops the Lean state machine has)
pub fn gen_prim_prog(r: &mut Rng, n: usize) -> Vec<Op> {
  let len = 1 + r.below(12);
  (0..len)
    .map(|_| match r.below(12) {
      0..=2 => Op::Next,
      3..=5 => Op::NextBack,
      6..=8 => Op::Nth(r.below(n + 2)),
      9..=10 => Op::NthBack(r.below(n + 2)),
      _ => Op::Len,
    })
    .collect()
}

/// the boundary programs of a range of `n` points: positional access from a partly consumed iterator,
/// strided and skipped walks, from both ends — every (back, k) / (front, k) / stride for small n
pub fn boundary_progs(n: usize) -> Vec<Vec<Op>> {
  let mut v: Vec<Vec<Op>> = Vec::new();
  for taken in 0..=n.min(4) {
    for k in 0..=n + 1 {
      // taken from the back, then a forward jump (and what is left afterwards)
      let mut p = vec![Op::NextBack; taken];
      p.extend([Op::Nth(k), Op::Len, Op::Next, Op::NextBack]);
      v.push(p);
      // taken from the front, then a backward jump
      let mut p = vec![Op::Next; taken];
      p.extend([Op::NthBack(k), Op::Len, Op::NextBack, Op::Next]);
      v.push(p);
      let mut p = vec![Op::NextBack; taken];
      p.extend([Op::Skip(k), Op::Collect]);
      v.push(p);
      let mut p = vec![Op::Next; taken];
      p.extend([Op::Rev, Op::Skip(k), Op::Collect]);
      v.push(p);
    }
    for s in 1..=n + 1 {
      let mut p = vec![Op::NextBack; taken];
      p.extend([Op::StepBy(s), Op::Collect]);
      v.push(p);
      let mut p = vec![Op::Next; taken];
      p.extend([Op::StepBy(s), Op::RevCollect]);
      v.push(p);
      let mut p = vec![Op::Next; taken];
      p.extend([Op::Rev, Op::StepBy(s), Op::Collect]);
      v.push(p);
    }
  }
  for t in [Op::Count, Op::Last, Op::Fold, Op::RFold, Op::ForEach, Op::RevCollect] {
    v.push(vec![t]);
    v.push(vec![Op::Next, Op::NextBack, t]);
  }
  v
}

// ------------------------------------------------------------------------------------------------
// running a program on the real iterator and on the reference

/// run on the crate's iterator (a panic becomes the outcome of the op in progress)
fn run_real(what: String, f: impl FnOnce(&mut Vec<String>)) -> Vec<String> {
  let mut out: Vec<String> = Vec::new();
  in_progress(Some(what));
  let r = guard(|| f(&mut out));
  in_progress(None);
  if r.is_none() {
    out.push("PANIC".into());
  }
  out
}

/// the line the watchdog prints if the crate-side run of this program never returns
fn hang(pred: &str, src: &str, head: &str, prog: &[Op]) -> String {
  format!("S {} FAIL iterprog/{}/hang | src={} {} prog={}", pred, src, src, head, show_prog(prog))
}

struct Verdict {
  ok: bool,
  sig: String,
  why: String,
  within_tolerance: bool,
}

fn tokens(s: &str) -> Vec<&str> {
  s.split(|c| "[](),;=".contains(c)).filter(|t| !t.is_empty()).collect()
}
fn float_like(t: &str) -> bool {
  // `{:e}` of a float: always an exponent, or inf / NaN; counts, indices and words never look like that
  let body = t.strip_prefix('-').unwrap_or(t);
  body == "inf" || body == "NaN" || (body.contains('e') && body.parse::<f64>().is_ok())
}
/// the outcomes of one op agree: the same shape (Some/None, lengths, counts, positions) and every value
/// equal to the documented point — bit for bit, or within 1e-14 of the scale of its axis (the tolerance
/// the statement's "starting at … ending at …" is checked with); `scales[p % scales.len()]` is the scale
/// of the p-th float of an outcome (items are emitted component by component)
fn same_outcome(g: &str, w: &str, scales: &[f64]) -> bool {
  let (tg, tw) = (tokens(g), tokens(w));
  if tg.len() != tw.len() {
    return false;
  }
  let mut p = 0usize;
  for (a, b) in tg.iter().zip(tw.iter()) {
    if float_like(a) && float_like(b) {
      let (x, y): (f64, f64) = (a.parse().unwrap_or(f64::NAN), b.parse().unwrap_or(f64::NAN));
      let scale = scales[p % scales.len()].max(f64::MIN_POSITIVE);
      p += 1;
      let ok = x.to_bits() == y.to_bits() || x == y || (x.is_nan() && y.is_nan()) || (x - y).abs() <= 1e-14 * scale;
      if !ok {
        return false;
      }
    } else if a != b {
      return false;
    }
  }
  true
}

fn compare(prog: &[Op], got: &[String], want: &[String], scales: &[f64]) -> Verdict {
  let cut = |s: &str| if s.len() > 160 { format!("{}…", s.chars().take(160).collect::<String>()) } else { s.to_string() };
  let mut within = false;
  for i in 0..got.len().max(want.len()) {
    let g = got.get(i).map(|s| s.as_str()).unwrap_or("<nothing>");
    let w = want.get(i).map(|s| s.as_str()).unwrap_or("<nothing>");
    if g != w {
      if same_outcome(g, w, scales) {
        within = true;
        continue;
      }
      let op = prog.get(i).copied();
      let kind = op.map(|o| o.kind()).unwrap_or_else(|| "end".into());
      let shown = op.map(|o| o.show()).unwrap_or_else(|| "-".into());
      let tag = if g == "PANIC" { format!("{}/panic", kind) } else { kind };
      return Verdict { ok: false, sig: tag, why: format!("step={} op={} got={} want={}", i, shown, cut(g), cut(w)), within_tolerance: within };
    }
  }
  Verdict { ok: true, sig: "ok".into(), why: String::new(), within_tolerance: within }
}

fn emit(ctx: &mut Ctx, pred: &str, src: &str, head: &str, prog: &[Op], got: &[String], want: &[String], scales: &[f64]) {
  let v = compare(prog, got, want, scales);
  ctx.s(pred, v.ok, &format!("iterprog/{}/{}", src, v.sig), &format!("src={} {} prog={} {}", src, head, show_prog(prog), v.why));
  ctx.count(&format!("iterprog/{}", src));
  if v.within_tolerance {
    ctx.count("iterprog/value-within-tolerance-not-bitwise");
  }
  for o in prog {
    if !o.is_primitive() {
      ctx.count(&format!("iterprog/op/{}", o.kind()));
    }
  }
}

/// wire form of a primitive program for the model driver: F B N<k> M<k> L
fn wire_prog(p: &[Op]) -> String {
  p.iter()
    .map(|o| match *o {
      Op::Next => "F".to_string(),
      Op::NextBack => "B".to_string(),
      Op::Nth(k) => format!("N{}", k),
      Op::NthBack(k) => format!("M{}", k),
      _ => "L".to_string(),
    })
    .collect::<Vec<_>>()
    .join(",")
}

fn progs_for(ctx: &mut Ctx, n: usize, random: usize, boundary: bool) -> Vec<Vec<Op>> {
  let mut v = if boundary { boundary_progs(n) } else { Vec::new() };
  for _ in 0..random {
    v.push(gen_prog(&mut ctx.rng, n));
  }
  v
}

// ---- 1-D

fn steps_case(ctx: &mut Ctx, a: f64, b: f64, n: usize, random: usize, boundary: bool) {
  let s = Steps(a, b, n);
  // the documented points a + (b-a) i/(n-1), as `Steps::value` computes them (tied to the statement by
  // the K op `steps` and the predicate steps/enumerate of family grid)
  let pts: Vec<f64> = (0..n).map(|i| s.value(i)).collect();
  let head = format!("a={:e} b={:e} n={}", a, b, n);
  for prog in progs_for(ctx, n, random, boundary) {
    let got = run_real(hang("C14.iterprog", "steps", &head, &prog), |o| exec(Dyn::full(Steps(a, b, n).into_iter(), n), Cap::Full, &prog, o));
    let mut want = Vec::new();
    exec(Dyn::full(pts.clone().into_iter(), UNMETERED), Cap::Full, &prog, &mut want);
    emit(ctx, "C14.iterprog", "steps", &head, &prog, &got, &want, &[a.abs().max(b.abs())]);
  }
  // primitive programs against the Lean state machine
  for _ in 0..(random / 4).max(1) {
    let prog = gen_prim_prog(&mut ctx.rng, n);
    let vals = guard(|| {
      let mut it = Steps(a, b, n).into_iter();
      prog
        .iter()
        .map(|o| match *o {
          Op::Next => it.next().map(fl).unwrap_or_else(|| "-".into()),
          Op::NextBack => it.next_back().map(fl).unwrap_or_else(|| "-".into()),
          Op::Nth(k) => it.nth(k).map(fl).unwrap_or_else(|| "-".into()),
          Op::NthBack(k) => it.nth_back(k).map(fl).unwrap_or_else(|| "-".into()),
          _ => it.len().to_string(),
        })
        .collect::<Vec<_>>()
    });
    ctx.k("steps_prog", &format!("{} {} {} {}", fl(a), fl(b), n, wire_prog(&prog)), &vals.map(|v| v.join(" ")).unwrap_or_else(|| "PANIC".into()));
  }
}

/// one 1-D split piece of the rayon producer, following a path of (k, take-right) splits
fn piece1(s: Steps<f64>, path: &[(usize, bool)]) -> spdcalc::utils::ParIterator1D<f64> {
  let mut p = s.into_par_iter();
  for &(k, right) in path {
    let (l, r) = p.split_at(k);
    p = if right { r } else { l };
  }
  p
}

fn gen_path(r: &mut Rng, mut len: usize) -> (Vec<(usize, bool)>, usize, usize) {
  // returns the path and the [lo, hi) of the piece in the parent's numbering
  let mut lo = 0;
  let mut path = Vec::new();
  for _ in 0..r.below(4) {
    let k = match r.below(5) {
      0 => 0,
      1 => len,
      _ => r.below(len + 1),
    };
    let right = r.coin();
    path.push((k, right));
    if right {
      lo += k;
      len -= k;
    } else {
      len = k;
    }
  }
  (path, lo, lo + len)
}

fn piece1_case(ctx: &mut Ctx, a: f64, b: f64, n: usize, random: usize) {
  let (path, lo, hi) = gen_path(&mut ctx.rng, n);
  let m = hi - lo;
  // the piece's own forward traversal (tied to the parent's points at 1e-14 by family par); the program
  // must behave on the piece as on a Vec of that traversal
  let twin: Option<Vec<f64>> = guard(|| {
    let mut it = Producer::into_iter(piece1(Steps(a, b, n), &path));
    let mut v = Vec::new();
    while let Some(x) = it.next() {
      v.push(x);
      if v.len() > m + 8 {
        break;
      }
    }
    v
  });
  let head = format!("a={:e} b={:e} n={} path={} piece=[{};{})", a, b, n, path.iter().map(|p| format!("{}{}", p.0, if p.1 { 'R' } else { 'L' })).collect::<Vec<_>>().join("/"), lo, hi);
  let pts = match twin {
    Some(v) if v.len() == m => v,
    other => {
      ctx.s("C15.iterprog", false, "iterprog/producer1/forward-traversal", &format!("src=producer1 {} delivered={} expected={}", head, other.map(|v| v.len() as i64).unwrap_or(-1), m));
      return;
    }
  };
  for prog in progs_for(ctx, m, random, m <= 3) {
    let got = run_real(hang("C15.iterprog", "producer1", &head, &prog), |o| exec(Dyn::full(Producer::into_iter(piece1(Steps(a, b, n), &path)), m), Cap::Full, &prog, o));
    let mut want = Vec::new();
    exec(Dyn::full(pts.clone().into_iter(), UNMETERED), Cap::Full, &prog, &mut want);
    emit(ctx, "C15.iterprog", "producer1", &head, &prog, &got, &want, &[a.abs().max(b.abs())]);
  }
}

// ---- 2-D

type G = ((f64, f64, usize), (f64, f64, usize));

fn ghead(g: &G) -> String {
  format!("x=({:e},{:e},{}) y=({:e},{:e},{})", g.0 .0, g.0 .1, g.0 .2, g.1 .0, g.1 .1, g.1 .2)
}
fn gscales(g: &G) -> [f64; 2] {
  [g.0 .0.abs().max(g.0 .1.abs()), g.1 .0.abs().max(g.1 .1.abs())]
}
fn gargs(g: &G) -> String {
  format!("{} {} {} {} {} {}", fl(g.0 .0), fl(g.0 .1), g.0 .2, fl(g.1 .0), fl(g.1 .1), g.1 .2)
}

fn prim2(it: &mut Iterator2D<f64>, prog: &[Op]) -> Vec<String> {
  let p2 = |p: Option<(f64, f64)>| p.map(|q| format!("{} {}", fl(q.0), fl(q.1))).unwrap_or_else(|| "-".into());
  prog
    .iter()
    .map(|o| match *o {
      Op::Next => p2(it.next()),
      Op::NextBack => p2(it.next_back()),
      Op::Nth(k) => p2(it.nth(k)),
      Op::NthBack(k) => p2(it.nth_back(k)),
      _ => it.len().to_string(),
    })
    .collect()
}

fn steps2d_case(ctx: &mut Ctx, g: G, random: usize, boundary: bool) {
  let s = Steps2D(g.0, g.1);
  let n = g.0 .2 * g.1 .2;
  // the documented points: flat index k ↦ (column k % nx, row k / nx) of the two axes
  let pts: Vec<(f64, f64)> = (0..n).map(|i| s.value(i)).collect();
  let head = ghead(&g);
  for (j, prog) in progs_for(ctx, n, random, boundary).into_iter().enumerate() {
    let got = if j % 2 == 0 {
      run_real(hang("C14.iterprog", "steps2d", &head, &prog), |o| exec(Dyn::full(Steps2D(g.0, g.1).into_iter(), n), Cap::Full, &prog, o))
    } else {
      run_real(hang("C14.iterprog", "steps2d", &head, &prog), |o| exec(Dyn::full(Iterator2D::new(Steps2D::new(g.0, g.1)), n), Cap::Full, &prog, o))
    };
    let mut want = Vec::new();
    exec(Dyn::full(pts.clone().into_iter(), UNMETERED), Cap::Full, &prog, &mut want);
    emit(ctx, "C14.iterprog", "steps2d", &head, &prog, &got, &want, &gscales(&g));
  }
  // Iterator2D is Clone: cycle() restarts from a clone of the (partly consumed) iterator
  {
    let f = ctx.rng.below(n + 1).min(3);
    let bk = ctx.rng.below(n + 1).min(2);
    let m = ctx.rng.below(2 * n + 3);
    let got = run_real(hang("C14.iterprog", "steps2d-cycle", &head, &[Op::Collect]), |o| {
      let mut it = Steps2D(g.0, g.1).into_iter();
      for _ in 0..f {
        it.next();
      }
      for _ in 0..bk {
        it.next_back();
      }
      let v: Vec<(f64, f64)> = it.cycle().take(m).collect();
      o.push(list(&v));
    });
    let mut it = pts.clone().into_iter();
    for _ in 0..f {
      it.next();
    }
    for _ in 0..bk {
      it.next_back();
    }
    let rest: Vec<(f64, f64)> = it.collect();
    let v: Vec<(f64, f64)> = rest.iter().copied().cycle().take(m).collect();
    let prog = [Op::Collect];
    emit(ctx, "C14.iterprog", "steps2d-cycle", &format!("{} front={} back={} take={}", head, f, bk, m), &prog, &got, &[list(&v)], &gscales(&g));
  }
  for _ in 0..(random / 4).max(1) {
    let prog = gen_prim_prog(&mut ctx.rng, n);
    let vals = guard(|| prim2(&mut Steps2D(g.0, g.1).into_iter(), &prog));
    ctx.k("steps2d_prog", &format!("{} {}", gargs(&g), wire_prog(&prog)), &vals.map(|v| v.join(" ")).unwrap_or_else(|| "PANIC".into()));
  }
}

fn partition_case(ctx: &mut Ctx, g: G, random: usize, boundary: bool) {
  let s = Steps2D(g.0, g.1);
  let n = g.0 .2 * g.1 .2;
  let lo = match ctx.rng.below(4) {
    0 => 0,
    _ => ctx.rng.below(n + 1),
  };
  let hi = match ctx.rng.below(4) {
    0 => n,
    1 => lo,
    _ => lo + ctx.rng.below(n - lo + 1),
  };
  let m = hi - lo;
  let pts: Vec<(f64, f64)> = (lo..hi).map(|i| s.value(i)).collect();
  let head = format!("{} lo={} hi={}", ghead(&g), lo, hi);
  for prog in progs_for(ctx, m, random, boundary && m <= 4) {
    let got = run_real(hang("C15.iterprog", "partition", &head, &prog), |o| exec(Dyn::full(Iterator2D::new_partition(Steps2D(g.0, g.1), lo, hi), m), Cap::Full, &prog, o));
    let mut want = Vec::new();
    exec(Dyn::full(pts.clone().into_iter(), UNMETERED), Cap::Full, &prog, &mut want);
    emit(ctx, "C15.iterprog", "partition", &head, &prog, &got, &want, &gscales(&g));
  }
  for _ in 0..(random / 4).max(1) {
    let prog = gen_prim_prog(&mut ctx.rng, m);
    let vals = guard(|| prim2(&mut Iterator2D::new_partition(Steps2D(g.0, g.1), lo, hi), &prog));
    ctx.k("part2_prog", &format!("{} {} {} {}", gargs(&g), lo, hi, wire_prog(&prog)), &vals.map(|v| v.join(" ")).unwrap_or_else(|| "PANIC".into()));
  }
  // the same region reached through the rayon producer's splits
  let (path, plo, phi) = gen_path(&mut ctx.rng, n);
  let ppts: Vec<(f64, f64)> = (plo..phi).map(|i| s.value(i)).collect();
  let phead = format!("{} path={} piece=[{};{})", ghead(&g), path.iter().map(|p| format!("{}{}", p.0, if p.1 { 'R' } else { 'L' })).collect::<Vec<_>>().join("/"), plo, phi);
  let piece = |path: &[(usize, bool)]| {
    let mut p = Steps2D(g.0, g.1).into_par_iter();
    for &(k, right) in path {
      let (l, r) = p.split_at(k);
      p = if right { r } else { l };
    }
    Producer::into_iter(p)
  };
  for prog in progs_for(ctx, phi - plo, random, false) {
    let got = run_real(hang("C15.iterprog", "producer2", &phead, &prog), |o| exec(Dyn::full(piece(&path), phi - plo), Cap::Full, &prog, o));
    let mut want = Vec::new();
    exec(Dyn::full(ppts.clone().into_iter(), UNMETERED), Cap::Full, &prog, &mut want);
    emit(ctx, "C15.iterprog", "producer2", &phead, &prog, &got, &want, &gscales(&g));
  }
}

// ---- two crate iterators combined: chain (DoubleEnded only) and zip (len of both)

fn combo_case(ctx: &mut Ctx, random: usize) {
  let (a, b, n) = (gen_endpoint(&mut ctx.rng), gen_endpoint(&mut ctx.rng), ctx.rng.below(7));
  let (c, d, m) = (gen_endpoint(&mut ctx.rng), gen_endpoint(&mut ctx.rng), ctx.rng.below(7));
  let pa: Vec<f64> = (0..n).map(|i| Steps(a, b, n).value(i)).collect();
  let pb: Vec<f64> = (0..m).map(|i| Steps(c, d, m).value(i)).collect();
  let (sab, scd) = (a.abs().max(b.abs()), c.abs().max(d.abs()));
  // both partly consumed before they are combined
  let pre: [usize; 4] = [ctx.rng.below(3).min(n), ctx.rng.below(3), ctx.rng.below(3).min(m), ctx.rng.below(3)];
  fn eat<I: DoubleEndedIterator>(mut it: I, f: usize, b: usize) -> I {
    for _ in 0..f {
      it.next();
    }
    for _ in 0..b {
      it.next_back();
    }
    it
  }
  let head = format!("a={:e} b={:e} n={} c={:e} d={:e} m={} pre={}/{}/{}/{}", a, b, n, c, d, m, pre[0], pre[1], pre[2], pre[3]);
  for _ in 0..random {
    let prog = gen_prog(&mut ctx.rng, n + m);
    let got = run_real(hang("C14.iterprog", "chain", &head, &prog), |o| exec(Dyn::dei(eat(Dyn::full(Steps(a, b, n).into_iter(), n), pre[0], pre[1]).chain(eat(Dyn::full(Steps(c, d, m).into_iter(), m), pre[2], pre[3])), UNMETERED), Cap::Dei, &prog, o));
    let mut want = Vec::new();
    exec(Dyn::dei(eat(Dyn::full(pa.clone().into_iter(), UNMETERED), pre[0], pre[1]).chain(eat(Dyn::full(pb.clone().into_iter(), UNMETERED), pre[2], pre[3])), UNMETERED), Cap::Dei, &prog, &mut want);
    emit(ctx, "C14.iterprog", "chain", &head, &prog, &got, &want, &[sab.max(scd)]);

    let prog = gen_prog(&mut ctx.rng, n.min(m));
    let got = run_real(hang("C14.iterprog", "zip", &head, &prog), |o| exec(Dyn::full(eat(Dyn::full(Steps(a, b, n).into_iter(), n), pre[0], pre[1]).zip(eat(Dyn::full(Steps(c, d, m).into_iter(), m), pre[2], pre[3])), UNMETERED), Cap::Full, &prog, o));
    let mut want = Vec::new();
    exec(Dyn::full(eat(Dyn::full(pa.clone().into_iter(), UNMETERED), pre[0], pre[1]).zip(eat(Dyn::full(pb.clone().into_iter(), UNMETERED), pre[2], pre[3])), UNMETERED), Cap::Full, &prog, &mut want);
    emit(ctx, "C14.iterprog", "zip", &head, &prog, &got, &want, &[sab, scd]);
  }
  // a 1-D range zipped with a 2-D range (a row of the grid against its abscissae)
  let g: G = ((a, b, n.max(1)), (c, d, m.min(3)));
  let p2: Vec<(f64, f64)> = (0..g.0 .2 * g.1 .2).map(|i| Steps2D(g.0, g.1).value(i)).collect();
  let p1: Vec<f64> = (0..n.max(1)).map(|i| Steps(a, b, n.max(1)).value(i)).collect();
  for _ in 0..random {
    let prog = gen_prog(&mut ctx.rng, n.max(1));
    let got = run_real(hang("C14.iterprog", "zip2d", &ghead(&g), &prog), |o| exec(Dyn::full(Dyn::full(Steps2D(g.0, g.1).into_iter(), p2.len()).zip(Dyn::full(Steps(a, b, n.max(1)).into_iter(), n.max(1))), UNMETERED), Cap::Full, &prog, o));
    let mut want = Vec::new();
    exec(Dyn::full(Dyn::full(p2.clone().into_iter(), UNMETERED).zip(Dyn::full(p1.clone().into_iter(), UNMETERED)), UNMETERED), Cap::Full, &prog, &mut want);
    emit(ctx, "C14.iterprog", "zip2d", &format!("{} with a={:e} b={:e} n={}", ghead(&g), a, b, n.max(1)), &prog, &got, &want, &[sab, scd, sab]);
  }
}

// ---- the (signal, idler) iterators of the range representations: `impl Iterator`, forward only

fn si_case(ctx: &mut Ctx, random: usize) {
  let nx = ctx.rng.below(6);
  let ny = ctx.rng.below(6);
  let l0 = ctx.rng.range(1500e-9, 1540e-9);
  let l1 = ctx.rng.range(1560e-9, 1600e-9);
  let (y0, y1) = if ctx.rng.coin() { (l0, l1) } else { (l1, l0) };
  let ws = WavelengthSpace::new((l0 * M, l1 * M, nx), (y0 * M, y1 * M, ny));
  let fs = ws.as_frequency_space();
  let sd = ws.as_sum_diff_space();
  let n = nx * ny;
  // the documented points of each representation, from `Steps2D::value`
  let e_ws: Vec<(Frequency, Frequency)> = (0..n).map(|i| ws.as_steps().value(i)).map(|(a, b)| (spdcalc::utils::vacuum_wavelength_to_frequency(a), spdcalc::utils::vacuum_wavelength_to_frequency(b))).collect();
  let e_fs: Vec<(Frequency, Frequency)> = (0..n).map(|i| fs.as_steps().value(i)).collect();
  let e_sd: Vec<(Frequency, Frequency)> = (0..n).map(|i| sd.as_steps().value(i)).map(|(s, d)| (s - d, s + d)).collect();
  let wl_flat: Vec<Wavelength> = (0..n).map(|i| ws.as_steps().value(i)).flat_map(|(s, i)| [s, i]).collect();
  let fr_flat: Vec<Frequency> = e_fs.iter().flat_map(|(s, i)| [*s, *i]).collect();
  let head = format!("nx={} ny={} l0={:e} l1={:e} y=({:e},{:e})", nx, ny, l0, l1, y0, y1);
  let mut progs = progs_for(ctx, n, random, false);
  if n <= 9 {
    for k in 0..=n + 1 {
      progs.push(vec![Op::Nth(k), Op::Next]);
      progs.push(vec![Op::Skip(k), Op::Collect]);
      progs.push(vec![Op::StepBy(k.max(1)), Op::Collect]);
    }
    progs.extend([vec![Op::Count], vec![Op::Last], vec![Op::Fold], vec![Op::Hint, Op::Next, Op::Hint]]);
  }
  for (j, prog) in progs.iter().enumerate() {
    let (src, got, pts) = match j % 5 {
      0 => ("si-frequency", run_real(hang("C14.iterprog", "si-frequency", &head, prog), |o| exec(Dyn::fwd(fs.into_signal_idler_iterator(), n), Cap::Fwd, prog, o)), &e_fs),
      1 => ("si-wavelength", run_real(hang("C14.iterprog", "si-wavelength", &head, prog), |o| exec(Dyn::fwd(ws.into_signal_idler_iterator(), n), Cap::Fwd, prog, o)), &e_ws),
      2 => ("si-sumdiff", run_real(hang("C14.iterprog", "si-sumdiff", &head, prog), |o| exec(Dyn::fwd(sd.into_signal_idler_iterator(), n), Cap::Fwd, prog, o)), &e_sd),
      3 => ("si-flat-wavelength", run_real(hang("C14.iterprog", "si-flat-wavelength", &head, prog), |o| exec(Dyn::fwd(SignalIdlerWavelengthArray(wl_flat.clone()).into_signal_idler_iterator(), n), Cap::Fwd, prog, o)), &e_ws),
      _ => ("si-flat-frequency", run_real(hang("C14.iterprog", "si-flat-frequency", &head, prog), |o| exec(Dyn::fwd(SignalIdlerFrequencyArray(fr_flat.clone()).into_signal_idler_iterator(), n), Cap::Fwd, prog, o)), &e_fs),
    };
    let mut want = Vec::new();
    exec(Dyn::fwd(pts.clone().into_iter(), UNMETERED), Cap::Fwd, prog, &mut want);
    let sc = |f: &dyn Fn(&(Frequency, Frequency)) -> Frequency| pts.iter().map(|p| (*(f(p) / (RAD / S))).abs()).fold(0.0f64, f64::max);
    emit(ctx, "C14.iterprog", src, &head, prog, &got, &want, &[sc(&|p| p.0), sc(&|p| p.1)]);
  }
}

fn gen_grid(r: &mut Rng, max: usize) -> G {
  let nx = r.below(max + 1);
  let ny = r.below(max + 1);
  ((gen_endpoint(r), gen_endpoint(r), nx), (gen_endpoint(r), gen_endpoint(r), ny))
}

pub fn run(ctx: &mut Ctx) {
  start_watchdog();
  let quick = !ctx.thorough;
  // ---- every boundary program of the small ranges
  let nmax = if quick { 6 } else { 9 };
  for n in 0..=nmax {
    steps_case(ctx, 0.0, 9.0, n, 4, true);
    steps_case(ctx, 1.0, -1.0, n, 0, true);
  }
  let gmax = if quick { 3 } else { 4 };
  for nx in 0..=gmax {
    for ny in 0..=gmax {
      let g: G = ((0.0, 1.0, nx), (10.0, -3.0, ny));
      steps2d_case(ctx, g, 4, true);
      partition_case(ctx, g, 3, true);
    }
  }
  // ---- random ranges, random programs
  for _ in 0..ctx.n {
    let (a, b) = (gen_endpoint(&mut ctx.rng), gen_endpoint(&mut ctx.rng));
    let n = match ctx.rng.below(4) {
      0 => ctx.rng.below(4),
      1 => ctx.rng.below(40),
      _ => ctx.rng.below(13),
    };
    steps_case(ctx, a, b, n, 6, false);
    piece1_case(ctx, a, b, n, 4);
    let g = gen_grid(&mut ctx.rng, 5);
    steps2d_case(ctx, g, 6, false);
    let g = gen_grid(&mut ctx.rng, 5);
    partition_case(ctx, g, 4, false);
    combo_case(ctx, 2);
  }
  for _ in 0..(ctx.n / 4).max(4) {
    si_case(ctx, 10);
  }
}
