//! C14 — grids, index maps, representation conversions, transpose
use crate::common::*;
use spdcalc::dim::ucum::{M, RAD, S};
use spdcalc::jsa::{FrequencySpace, SumDiffFrequencySpace, WavelengthSpace};
use spdcalc::prelude::*;
use spdcalc::{Frequency, Wavelength};
use spdcalc::utils::{get_1d_index, get_2d_indices, transpose_vec};

fn script(r: &mut Rng, len: usize) -> String {
  (0..len).map(|_| if r.coin() { 'F' } else { 'B' }).collect()
}

pub fn gen_count(r: &mut Rng, max: usize) -> usize {
  match r.below(6) {
    0 => r.below(4),
    1 => r.below(13),
    _ => r.below(max + 1),
  }
}

fn rel_close(a: f64, b: f64, tol: f64, scale: f64) -> bool {
  if a == b {
    return true;
  }
  (a - b).abs() <= tol * scale.max(f64::MIN_POSITIVE)
}

fn fmt_space(s: &Steps2D<f64>) -> String {
  format!("{} {} {} {} {} {}", fl(s.0 .0), fl(s.0 .1), s.0 .2, fl(s.1 .0), fl(s.1 .1), s.1 .2)
}

fn raw_f(s: &Steps2D<Frequency>) -> Steps2D<f64> {
  Steps2D(
    (*(s.0 .0 / (RAD / S)), *(s.0 .1 / (RAD / S)), s.0 .2),
    (*(s.1 .0 / (RAD / S)), *(s.1 .1 / (RAD / S)), s.1 .2),
  )
}
fn raw_l(s: &Steps2D<Wavelength>) -> Steps2D<f64> {
  Steps2D(
    (*(s.0 .0 / M), *(s.0 .1 / M), s.0 .2),
    (*(s.1 .0 / M), *(s.1 .1 / M), s.1 .2),
  )
}

pub fn run(ctx: &mut Ctx) {
  let maxn = if ctx.thorough { 300 } else { 40 };
  let two_pi_c = spdcalc::TWO_PI * 299_792_458.0;

  // ---- exhaustive small counts with a few fixed endpoint pairs
  let fixed = [(0.0, 1.0), (3.3, 4.0), (1.0, -1.0), (2.5, 2.5), (-0.0, 0.9), (1400e-9, 1600e-9)];
  for n in 0..=12usize {
    for (a, b) in fixed.iter() {
      steps_case(ctx, *a, *b, n);
    }
  }
  for nx in 0..=6usize {
    for ny in 0..=6usize {
      steps2d_case(ctx, 0.0, 1.0, nx, 10.0, -3.0, ny);
    }
  }
  // index maps, exhaustive small
  for cols in 0..=12usize {
    for i in 0..=40usize {
      idx2_case(ctx, i, cols);
    }
    for col in 0..=13usize {
      for row in 0..=4usize {
        idx1_case(ctx, col, row, cols);
      }
    }
  }
  // transpose: all shapes ≤ 12×12 (and cols = 0, ragged lengths)
  let tmax = if ctx.thorough { 12 } else { 7 };
  for rows in 0..=tmax {
    for cols in 0..=tmax {
      transpose_case(ctx, rows * cols, cols, Some((rows, cols)));
    }
  }
  for len in 0..=10usize {
    for cols in 0..=5usize {
      transpose_case(ctx, len, cols, None);
    }
  }

  // ---- random
  for _ in 0..ctx.n {
    let a = gen_endpoint(&mut ctx.rng);
    let b = gen_endpoint(&mut ctx.rng);
    let n = gen_count(&mut ctx.rng, maxn);
    steps_case(ctx, a, b, n);
  }
  for _ in 0..ctx.n / 4 {
    let (ax, bx, ay, by) = (
      gen_endpoint(&mut ctx.rng),
      gen_endpoint(&mut ctx.rng),
      gen_endpoint(&mut ctx.rng),
      gen_endpoint(&mut ctx.rng),
    );
    let nx = gen_count(&mut ctx.rng, maxn / 4);
    let ny = gen_count(&mut ctx.rng, maxn / 4);
    steps2d_case(ctx, ax, bx, nx, ay, by, ny);
  }
  for _ in 0..ctx.n {
    let i = ctx.rng.below(100_000);
    let cols = ctx.rng.below(400);
    idx2_case(ctx, i, cols);
    let col = ctx.rng.below(400);
    let row = ctx.rng.below(400);
    idx1_case(ctx, col, row, cols);
  }

  // ---- representation conversions
  for _ in 0..ctx.n / 2 {
    conv_case(ctx, two_pi_c);
  }

  // ---- conversions on ANY finite endpoints (negative, zero-crossing, mixed sign, hand-built sum/diff grids)
  for _ in 0..ctx.n / 2 {
    conv_any_case(ctx, two_pi_c);
  }

  // ---- every API route to the same conversion / grid description
  for _ in 0..(ctx.n / 8).max(20) {
    routes_case(ctx);
  }

  // ---- range evaluation = point by point (implementation against itself)
  range_eval(ctx);

  // ---- the same clause on setups other than the default one: copied signal/idler blocks with distinct waist
  // positions, explicit idlers, degenerate references (zero / NaN centre amplitude), grids that leave the valid box
  range_setups(ctx);

  // ---- history independence: a sample of the traversals above, re-evaluated in reverse order at
  // the end of the run, must be bit-identical (no state kept between calls)
  history_replay(ctx);
}

type Key = (u64, u64);
type DynIt = Box<dyn DoubleEndedIterator<Item = Key>>;

/// The statement's "exactly n values … from either end" on ONE real iterator instance consumed from
/// both ends: the front-pulled points in forward order followed by the back-pulled points reversed
/// must be the sequential traversal (each point exactly once — theorem `steps_drain_partition`),
/// and every pull after the n-th must return `None`, and keep returning `None`.
/// Returns the first violated mode with a description.
fn double_ended_modes(make: &dyn Fn() -> DynIt, seq: &[Key], r: &mut Rng) -> Result<(), (String, String)> {
  let n = seq.len();
  let check = |mode: &str, info: String, front: Vec<Key>, mut back: Vec<Key>, late_some: bool| -> Result<(), (String, String)> {
    back.reverse();
    let total = front.len() + back.len();
    let mut all = front.clone();
    all.extend(back.iter().copied());
    if late_some {
      return Err((mode.to_string(), format!("{} a pull after the last point returned Some (delivered={} n={})", info, total, n)));
    }
    if total != n {
      return Err((mode.to_string(), format!("{} delivered={} n={}", info, total, n)));
    }
    if all != seq {
      return Err((mode.to_string(), format!("{} delivered points are not the sequence, each exactly once (front={} back={})", info, front.len(), back.len())));
    }
    Ok(())
  };
  // 1. random interleavings of next / next_back, three different biases
  for bias in [0.5, 0.15, 0.85] {
    let mut it = make();
    let script: String = (0..n + 4).map(|_| if r.unit() < bias { 'F' } else { 'B' }).collect();
    let (mut front, mut back) = (Vec::new(), Vec::new());
    let mut late_some = false;
    let mut early_none = false;
    for c in script.chars() {
      let before = front.len() + back.len();
      let v = if c == 'F' { it.next() } else { it.next_back() };
      match v {
        Some(x) => {
          if before >= n {
            late_some = true;
          }
          if c == 'F' { front.push(x) } else { back.push(x) }
        }
        None => {
          if before < n {
            early_none = true;
          }
        }
      }
    }
    let shown = if script.len() > 40 { format!("{}…", &script[..40]) } else { script.clone() };
    if early_none {
      return Err(("interleaved".into(), format!("script={} a pull returned None before n points were delivered", shown)));
    }
    check("interleaved", format!("script={}", shown), front, back, late_some)?;
  }
  // 2. k × next, then rev() drains the rest; afterwards both ends stay None
  for k in [0usize, 1, n / 2, n.saturating_sub(1), n, n + 1] {
    let mut it = make();
    let front: Vec<Key> = (0..k).filter_map(|_| it.next()).collect();
    let mut rv = it.rev();
    let back: Vec<Key> = rv.by_ref().collect();
    let late = rv.next().is_some() || rv.next_back().is_some() || rv.next().is_some();
    check("next-then-rev", format!("k={}", k), front, back, late)?;
  }
  // 3. rev() first: j pulls from the reversed iterator (= next_back), then its next_back (= next) to the end
  for j in [0usize, 1, n / 3, n, n + 2] {
    let mut rv = make().rev();
    let back: Vec<Key> = (0..j).filter_map(|_| rv.next()).collect();
    let mut front = Vec::new();
    let mut guard_count = 0;
    while let Some(x) = rv.next_back() {
      front.push(x);
      guard_count += 1;
      if guard_count > 2 * n + 4 {
        break;
      }
    }
    let late = rv.next().is_some() || rv.next_back().is_some();
    check("rev-then-next_back", format!("j={}", j), front, back, late)?;
  }
  // 4. by_ref().take(k), then rev() of the same instance
  for k in [1usize, n / 2 + 1, n + 1] {
    let mut it = make();
    let front: Vec<Key> = it.by_ref().take(k).collect();
    let back: Vec<Key> = it.rev().collect();
    check("take-then-rev", format!("k={}", k), front, back, false)?;
  }
  // 5. strictly alternating ends (the smallest failing case of a shared-pool bug: n = 1)
  {
    let mut it = make();
    let (mut front, mut back) = (Vec::new(), Vec::new());
    let mut late_some = false;
    for i in 0..n + 3 {
      let before = front.len() + back.len();
      let v = if i % 2 == 0 { it.next() } else { it.next_back() };
      if let Some(x) = v {
        if before >= n {
          late_some = true;
        }
        if i % 2 == 0 { front.push(x) } else { back.push(x) }
      }
    }
    check("alternating", String::new(), front, back, late_some)?;
  }
  Ok(())
}

fn steps_case(ctx: &mut Ctx, a: f64, b: f64, n: usize) {
  ctx.count(&format!("steps/n={}", if n <= 2 { n.to_string() } else { "3+".into() }));
  let s = Steps(a, b, n);
  let v: Vec<f64> = s.into_iter().collect();
  ctx.k("steps", &format!("{} {} {}", fl(a), fl(b), n), &fls(&v));
  record_history(Hist::Line(a, b, n, fnv(v.iter().map(|x| x.to_bits()))));
  // drain script
  let sc = script(&mut ctx.rng, n + 2);
  let mut it = s.into_iter();
  let outs: Vec<String> = sc
    .chars()
    .map(|c| {
      let v = if c == 'F' { it.next() } else { it.next_back() };
      v.map(fl).unwrap_or_else(|| "-".into())
    })
    .collect();
  ctx.k("steps_drain", &format!("{} {} {} {}", fl(a), fl(b), n, sc), &outs.join(" "));
  if n >= 1 {
    ctx.k("steps_width", &format!("{} {} {}", fl(a), fl(b), n), &fl(s.division_width()));
  }

  // S: exactly n values from either end, on one instance consumed from both ends
  {
    let seq: Vec<Key> = v.iter().map(|x| (x.to_bits(), 0)).collect();
    let make = move || -> DynIt { Box::new(Steps(a, b, n).into_iter().map(|x| (x.to_bits(), 0u64))) };
    let r = double_ended_modes(&make, &seq, &mut ctx.rng);
    let (ok, sig, why) = match r {
      Ok(()) => (true, "steps/double-ended/ok".to_string(), String::new()),
      Err((mode, why)) => (false, format!("steps/double-ended/{}", mode), why),
    };
    ctx.s("C14.steps", ok, &sig, &format!("a={:e} b={:e} n={} {}", a, b, n, why));
  }

  // S: the statement (restricted to magnitudes where no overflow can occur)
  if a.abs() < 1e150 && b.abs() < 1e150 {
    let scale = a.abs().max(b.abs());
    let mut ok = v.len() == n;
    let mut why = String::new();
    if n >= 1 && ok {
      if !rel_close(v[0], a, 1e-14, scale) {
        ok = false;
        why = format!("first {} != start", v[0]);
      }
      if n >= 2 && !rel_close(v[n - 1], b, 1e-14, scale) {
        ok = false;
        why = format!("last {} != end", v[n - 1]);
      }
      if n >= 3 {
        let h = (b - a) / (n as f64 - 1.0);
        for i in 0..n - 1 {
          if !rel_close(v[i + 1] - v[i], h, 1e-12, scale) {
            ok = false;
            why = format!("spacing at {}", i);
          }
        }
      }
      let rev: Vec<f64> = s.into_iter().rev().collect();
      let mut fw = v.clone();
      fw.reverse();
      if rev != fw {
        ok = false;
        why = "reverse traversal differs".into();
      }
    }
    if n >= 1 {
      ctx.s("C14.steps", ok, "steps/enumerate", &format!("a={:e} b={:e} n={} {}", a, b, n, why));
    } else {
      ctx.s("C14.steps", v.is_empty(), "steps/empty", "n=0");
    }
  }
}

fn steps2d_case(ctx: &mut Ctx, ax: f64, bx: f64, nx: usize, ay: f64, by: f64, ny: usize) {
  ctx.count(&format!("steps2d/{}", if nx * ny == 0 { "empty" } else if nx == 1 || ny == 1 { "line" } else { "grid" }));
  let s = Steps2D((ax, bx, nx), (ay, by, ny));
  let v: Vec<(f64, f64)> = s.into_iter().collect();
  let flat: Vec<f64> = v.iter().flat_map(|p| [p.0, p.1]).collect();
  let args = format!("{} {} {} {} {} {}", fl(ax), fl(bx), nx, fl(ay), fl(by), ny);
  ctx.k("steps2d", &args, &fls(&flat));
  record_history(Hist::Plane((ax, bx, nx), (ay, by, ny), fnv(flat.iter().map(|x| x.to_bits()))));
  let sc = script(&mut ctx.rng, (nx * ny).min(12) + 2);
  let mut it = s.into_iter();
  let outs: Vec<String> = sc
    .chars()
    .map(|c| {
      let v = if c == 'F' { it.next() } else { it.next_back() };
      v.map(|p| format!("{} {}", fl(p.0), fl(p.1))).unwrap_or_else(|| "-".into())
    })
    .collect();
  ctx.k("steps2d_drain", &format!("{} {}", args, sc), &outs.join(" "));

  {
    let seq: Vec<Key> = v.iter().map(|p| (p.0.to_bits(), p.1.to_bits())).collect();
    let make = move || -> DynIt { Box::new(Steps2D((ax, bx, nx), (ay, by, ny)).into_iter().map(|p| (p.0.to_bits(), p.1.to_bits()))) };
    let r = double_ended_modes(&make, &seq, &mut ctx.rng);
    let (ok, sig, why) = match r {
      Ok(()) => (true, "steps2d/double-ended/ok".to_string(), String::new()),
      Err((mode, why)) => (false, format!("steps2d/double-ended/{}", mode), why),
    };
    ctx.s("C14.steps2d", ok, &sig, &format!("x=({:e},{:e},{}) y=({:e},{:e},{}) {}", ax, bx, nx, ay, by, ny, why));
  }

  if [ax, bx, ay, by].iter().all(|x| x.abs() < 1e150) {
    let xs: Vec<f64> = Steps(ax, bx, nx).into_iter().collect();
    let ys: Vec<f64> = Steps(ay, by, ny).into_iter().collect();
    let mut ok = v.len() == nx * ny;
    let mut why = String::new();
    if ok {
      let sx = ax.abs().max(bx.abs());
      let sy = ay.abs().max(by.abs());
      for k in 0..v.len() {
        let (i, j) = (k % nx, k / nx);
        if !rel_close(v[k].0, xs[i], 1e-14, sx) || !rel_close(v[k].1, ys[j], 1e-14, sy) {
          ok = false;
          why = format!("point {} is not (x[{}], y[{}])", k, i, j);
          break;
        }
      }
    }
    ctx.s("C14.steps2d", ok, "steps2d/row-major", &format!("x=({:e},{:e},{}) y=({:e},{:e},{}) {}", ax, bx, nx, ay, by, ny, why));
  }
}

fn idx2_case(ctx: &mut Ctx, i: usize, cols: usize) {
  let r = guard(|| get_2d_indices(i, cols));
  let out = r.map(|p| format!("{} {}", p.0, p.1)).unwrap_or("PANIC".into());
  ctx.k("idx2", &format!("{} {}", i, cols), &out);
  if let Some((c, rw)) = r {
    let back = guard(|| get_1d_index(c, rw, cols));
    ctx.s("C14.index", back == Some(i), "index/inverse-1", &format!("i={} cols={}", i, cols));
  }
}

fn idx1_case(ctx: &mut Ctx, col: usize, row: usize, cols: usize) {
  let r = guard(|| get_1d_index(col, row, cols));
  ctx.k("idx1", &format!("{} {} {}", col, row, cols), &r.map(|n| n.to_string()).unwrap_or("PANIC".into()));
  if col < cols {
    let ok = match r {
      Some(k) => get_2d_indices(k, cols) == (col, row),
      None => false,
    };
    ctx.s("C14.index", ok, "index/inverse-2", &format!("col={} row={} cols={}", col, row, cols));
  }
}

fn transpose_case(ctx: &mut Ctx, len: usize, cols: usize, shape: Option<(usize, usize)>) {
  let v: Vec<usize> = (1..=len).collect();
  let vv = v.clone();
  let r = guard(move || transpose_vec(vv, cols));
  let args = format!("{} {}", cols, v.iter().map(|x| x.to_string()).collect::<Vec<_>>().join(" "));
  let out = match &r {
    Some(t) => t.iter().map(|x| x.to_string()).collect::<Vec<_>>().join(" "),
    None => "PANIC".into(),
  };
  ctx.k("transpose", args.trim_end(), &out);
  if let Some((rows, cols)) = shape {
    if rows >= 1 && cols >= 1 {
      // the statement: matrix transpose of a rows×cols row-major matrix
      let mut expect = vec![0usize; len];
      for rr in 0..rows {
        for cc in 0..cols {
          expect[cc * rows + rr] = v[rr * cols + cc];
        }
      }
      let ok = r.as_ref() == Some(&expect);
      let kind = if rows == cols { "square" } else if r.is_none() { "nonsquare/panic" } else { "nonsquare/wrong" };
      ctx.count(&format!("transpose/{}", if rows == cols { "square" } else { "nonsquare" }));
      ctx.s(
        "C14.transpose",
        ok,
        &format!("transpose/{}", if ok { "ok" } else { kind }),
        &format!("rows={} cols={} got={}", rows, cols, out),
      );
    }
  }
}

fn gen_band(r: &mut Rng) -> (f64, f64) {
  // ascending positive pair (wavelength-like or frequency-like), sometimes descending
  let lo = r.log_range(200e-9, 5e-6);
  let hi = lo * r.range(1.0001, 2.0);
  match r.below(10) {
    0 => (hi, lo), // descending
    1 => (lo, lo), // a single-valued axis (equal endpoints)
    _ => (lo, hi),
  }
}

fn conv_case(ctx: &mut Ctx, two_pi_c: f64) {
  let (a, b) = gen_band(&mut ctx.rng);
  let (c, d) = gen_band(&mut ctx.rng);
  let nx = ctx.rng.between(0, 30);
  let ny = ctx.rng.between(0, 30);
  let ws = WavelengthSpace::new((a * M, b * M, nx), (c * M, d * M, ny));
  let fs = FrequencySpace::from_wavelength_space(ws);
  let f = raw_f(fs.steps());
  let w = raw_l(ws.steps());
  ctx.k("conv_recip", &format!("{} {}", fl(two_pi_c), fmt_space(&w)), &fmt_space(&f));
  let back = raw_l(fs.as_wavelength_space().steps());
  ctx.k("conv_recip", &format!("{} {}", fl(two_pi_c), fmt_space(&f)), &fmt_space(&back));
  let sd = SumDiffFrequencySpace::from_frequency_space(fs);
  let sdr = raw_f(sd.steps());
  ctx.k("to_sumdiff", &fmt_space(&f), &fmt_space(&sdr));
  let fs2 = sd.as_frequency_space();
  let f2 = raw_f(fs2.steps());
  ctx.k("from_sumdiff", &fmt_space(&sdr), &fmt_space(&f2));
  if nx * ny <= 64 {
    let pts: Vec<f64> = sd
      .into_signal_idler_iterator()
      .flat_map(|(s, i)| [*(s / (RAD / S)), *(i / (RAD / S))])
      .collect();
    ctx.k("sd_points", &fmt_space(&sdr), &fls(&pts));
  }

  // S: the statement
  let asc = a <= b && c <= d;
  ctx.count(if asc { "conv/ascending" } else { "conv/descending" });
  let rc = |x: f64| two_pi_c / x;
  // endpoints ↦ endpoints (min wavelength ↦ max frequency), counts kept
  let ok_end = rel_close(f.0 .0, rc(b), 1e-14, rc(b).abs())
    && rel_close(f.0 .1, rc(a), 1e-14, rc(a).abs())
    && rel_close(f.1 .0, rc(d), 1e-14, rc(d).abs())
    && rel_close(f.1 .1, rc(c), 1e-14, rc(c).abs())
    && f.0 .2 == nx
    && f.1 .2 == ny;
  let ok_sorted = !asc || (f.0 .0 <= f.0 .1 && f.1 .0 <= f.1 .1);
  ctx.s("C14.conv", ok_end && ok_sorted, "conv/wl-freq-endpoints", &format!("ws=({:e},{:e},{})x({:e},{:e},{})", a, b, nx, c, d, ny));
  let ok_rt = rel_close(back.0 .0, a, 1e-12, a.abs())
    && rel_close(back.0 .1, b, 1e-12, b.abs())
    && rel_close(back.1 .0, c, 1e-12, c.abs())
    && rel_close(back.1 .1, d, 1e-12, d.abs())
    && back.0 .2 == nx
    && back.1 .2 == ny;
  ctx.s("C14.conv", ok_rt, "conv/wl-freq-roundtrip", &format!("ws=({:e},{:e},{})x({:e},{:e},{})", a, b, nx, c, d, ny));
  // sum/diff: centre and counts preserved
  let cx = 0.5 * (f.0 .0 + f.0 .1);
  let cy = 0.5 * (f.1 .0 + f.1 .1);
  let sc = 0.5 * (sdr.0 .0 + sdr.0 .1);
  let dc = 0.5 * (sdr.1 .0 + sdr.1 .1);
  let scale = cx.abs().max(cy.abs());
  let ok_c = rel_close(sc - dc, cx, 1e-12, scale) && rel_close(sc + dc, cy, 1e-12, scale) && sdr.0 .2 == nx && sdr.1 .2 == ny;
  ctx.s("C14.conv", ok_c, "conv/sumdiff-centre", &format!("fs=({:e},{:e},{})x({:e},{:e},{})", f.0 .0, f.0 .1, nx, f.1 .0, f.1 .1, ny));
  // equal spans ⇒ round trip: build an equal-span frequency grid
  let span = f.0 .1 - f.0 .0;
  let fe = FrequencySpace::new(
    (f.0 .0 * RAD / S, f.0 .1 * RAD / S, nx),
    (f.1 .0 * RAD / S, (f.1 .0 + span) * RAD / S, ny),
  );
  let fer = raw_f(fe.steps());
  let rt = raw_f(fe.as_sum_diff_space().as_frequency_space().steps());
  let ok_sd = rel_close(rt.0 .0, fer.0 .0, 1e-12, scale)
    && rel_close(rt.0 .1, fer.0 .1, 1e-12, scale)
    && rel_close(rt.1 .0, fer.1 .0, 1e-12, scale)
    && rel_close(rt.1 .1, fer.1 .1, 1e-12, scale)
    && rt.0 .2 == nx
    && rt.1 .2 == ny;
  ctx.s("C14.conv", ok_sd, "conv/sumdiff-roundtrip-equal-span", &format!("fs=({:e},{:e})x({:e},+span)", fer.0 .0, fer.0 .1, fer.1 .0));
}

// ------------------------------------------------------------------------------------------------
// history independence

#[derive(Clone, Copy)]
enum Hist {
  Line(f64, f64, usize, u64),
  Plane((f64, f64, usize), (f64, f64, usize), u64),
}
static HISTORY: std::sync::Mutex<Vec<Hist>> = std::sync::Mutex::new(Vec::new());

fn fnv(bits: impl Iterator<Item = u64>) -> u64 {
  let mut h: u64 = 0xcbf29ce484222325;
  for b in bits {
    h = (h ^ b).wrapping_mul(0x100000001b3);
    h ^= h >> 29;
  }
  h
}

static SEEN: std::sync::atomic::AtomicUsize = std::sync::atomic::AtomicUsize::new(0);

fn record_history(h: Hist) {
  // the first 400 cases (the exhaustive small counts), then every 7th, at most 4000
  let k = SEEN.fetch_add(1, std::sync::atomic::Ordering::Relaxed);
  let mut g = HISTORY.lock().unwrap();
  if g.len() < 4000 && (k < 400 || k % 7 == 0) {
    g.push(h);
  }
}

fn history_replay(ctx: &mut Ctx) {
  let items: Vec<Hist> = HISTORY.lock().unwrap().clone();
  let mut bad: Option<String> = None;
  let mut count = 0;
  // reversed order, 1-D and 2-D interleaved as they were recorded
  for h in items.iter().rev() {
    count += 1;
    match *h {
      Hist::Line(a, b, n, want) => {
        let got = fnv(Steps(a, b, n).into_iter().map(|x| x.to_bits()));
        let got_rev = {
          let mut v: Vec<u64> = Steps(a, b, n).into_iter().rev().map(|x| x.to_bits()).collect();
          v.reverse();
          fnv(v.into_iter())
        };
        if (got != want || got_rev != want) && bad.is_none() {
          bad = Some(format!("a={:e} b={:e} n={}", a, b, n));
        }
      }
      Hist::Plane(x, y, want) => {
        let got = fnv(Steps2D(x, y).into_iter().flat_map(|p| [p.0.to_bits(), p.1.to_bits()]));
        if got != want && bad.is_none() {
          bad = Some(format!("x=({:e},{:e},{}) y=({:e},{:e},{})", x.0, x.1, x.2, y.0, y.1, y.2));
        }
      }
    }
  }
  ctx.count("history/replayed");
  ctx.s("C14.steps", bad.is_none(), if bad.is_none() { "history/ok" } else { "history/differs" }, &format!("replayed={} first_difference={}", count, bad.unwrap_or_else(|| "-".into())));
}

// ------------------------------------------------------------------------------------------------
// API routes

fn space_close(a: &Steps2D<f64>, b: &Steps2D<f64>) -> bool {
  let c = |x: f64, y: f64| x.to_bits() == y.to_bits() || x == y || (x - y).abs() <= 1e-12 * x.abs().max(y.abs());
  a.0 .2 == b.0 .2 && a.1 .2 == b.1 .2 && c(a.0 .0, b.0 .0) && c(a.0 .1, b.0 .1) && c(a.1 .0, b.1 .0) && c(a.1 .1, b.1 .1)
}

fn routes_case(ctx: &mut Ctx) {
  let (a, b) = gen_band(&mut ctx.rng);
  let (c, d) = gen_band(&mut ctx.rng);
  let nx = ctx.rng.between(0, 30);
  let ny = ctx.rng.between(0, 30);
  let ws = WavelengthSpace::new((a * M, b * M, nx), (c * M, d * M, ny));
  let detail = format!("ws=({:e},{:e},{})x({:e},{:e},{})", a, b, nx, c, d, ny);
  let r = guard(|| {
    let mut bad: Vec<&'static str> = Vec::new();
    // wavelength → frequency
    let fs = ws.as_frequency_space();
    let f0 = raw_f(fs.steps());
    let fs_b: FrequencySpace = ws.into();
    for (name, x) in [("FrequencySpace::from(ws)", FrequencySpace::from(ws)), ("FrequencySpace::from_wavelength_space", FrequencySpace::from_wavelength_space(ws)), ("ws.into()", fs_b)] {
      if !space_close(&raw_f(x.steps()), &f0) {
        bad.push(name);
      }
    }
    // frequency → wavelength
    let w0 = raw_l(fs.as_wavelength_space().steps());
    for (name, x) in [("WavelengthSpace::from(fs)", WavelengthSpace::from(fs)), ("WavelengthSpace::from_frequency_space", WavelengthSpace::from_frequency_space(fs))] {
      if !space_close(&raw_l(x.steps()), &w0) {
        bad.push(name);
      }
    }
    // → sum/diff
    let sd = SumDiffFrequencySpace::from_frequency_space(fs);
    let s0 = raw_f(sd.steps());
    for (name, x) in [
      ("SumDiff::from(fs)", SumDiffFrequencySpace::from(fs)),
      ("fs.as_sum_diff_space", fs.as_sum_diff_space()),
      ("SumDiff::from(ws)", SumDiffFrequencySpace::from(ws)),
      ("SumDiff::from_wavelength_space", SumDiffFrequencySpace::from_wavelength_space(ws)),
      ("ws.as_sum_diff_space", ws.as_sum_diff_space()),
    ] {
      if !space_close(&raw_f(x.steps()), &s0) {
        bad.push(name);
      }
    }
    // sum/diff →
    let f1 = raw_f(sd.as_frequency_space().steps());
    for (name, x) in [("FrequencySpace::from(sd)", FrequencySpace::from(sd)), ("FrequencySpace::from_sum_diff_space", FrequencySpace::from_sum_diff_space(sd))] {
      if !space_close(&raw_f(x.steps()), &f1) {
        bad.push(name);
      }
    }
    let w1 = raw_l(sd.as_frequency_space().as_wavelength_space().steps());
    for (name, x) in [("WavelengthSpace::from(sd)", WavelengthSpace::from(sd)), ("WavelengthSpace::from_sum_diff_space", WavelengthSpace::from_sum_diff_space(sd)), ("sd.as_wavelength_space", sd.as_wavelength_space())] {
      if !space_close(&raw_l(x.steps()), &w1) {
        bad.push(name);
      }
    }
    // From<Steps2D>, steps()/as_steps(), resolution setters keep the endpoints and set both counts
    let st = *fs.steps();
    if !space_close(&raw_f(FrequencySpace::from(st).steps()), &f0) || !space_close(&raw_f(&fs.as_steps()), &f0) {
      bad.push("From<Steps2D>/as_steps");
    }
    let res = nx + 3;
    let mut fs_m = fs;
    fs_m.set_resolution(res);
    let with = |x: &Steps2D<f64>, base: &Steps2D<f64>| x.0 .2 == res && x.1 .2 == res && x.0 .0.to_bits() == base.0 .0.to_bits() && x.0 .1.to_bits() == base.0 .1.to_bits() && x.1 .0.to_bits() == base.1 .0.to_bits() && x.1 .1.to_bits() == base.1 .1.to_bits();
    if !with(&raw_f(fs.with_resolution(res).steps()), &f0) || !with(&raw_f(fs_m.steps()), &f0) {
      bad.push("FrequencySpace resolution");
    }
    let mut ws_m = ws;
    ws_m.set_resolution(res);
    let w_base = raw_l(ws.steps());
    if !with(&raw_l(ws.with_resolution(res).steps()), &w_base) || !with(&raw_l(ws_m.steps()), &w_base) {
      bad.push("WavelengthSpace resolution");
    }
    let mut sd_m = sd;
    sd_m.set_resolution(res);
    if !with(&raw_f(sd.with_resolution(res).steps()), &s0) || !with(&raw_f(sd_m.steps()), &s0) {
      bad.push("SumDiffFrequencySpace resolution");
    }
    bad
  });
  match r {
    None => ctx.s("C14.conv", false, "conv/routes/panic", &detail),
    Some(bad) => ctx.s("C14.conv", bad.is_empty(), if bad.is_empty() { "conv/routes/ok" } else { "conv/routes/differs" }, &format!("{} routes={}", detail, bad.join(";").replace(' ', "_"))),
  }
  ctx.count("conv/routes");

  // the grid descriptions themselves: accessors, constructors, iterator constructors
  let (a, b) = (gen_endpoint(&mut ctx.rng), gen_endpoint(&mut ctx.rng));
  let n = gen_count(&mut ctx.rng, 20);
  let (ay, by, ny) = (gen_endpoint(&mut ctx.rng), gen_endpoint(&mut ctx.rng), gen_count(&mut ctx.rng, 12));
  let r = guard(|| {
    let s = Steps(a, b, n);
    let v: Vec<u64> = s.into_iter().map(|x| x.to_bits()).collect();
    let mut ok = s.start().to_bits() == a.to_bits() && s.end().to_bits() == b.to_bits() && s.steps() == n && s.len() == n && s.is_empty() == (n == 0);
    ok = ok && s.range().0.to_bits() == a.to_bits() && s.range().1.to_bits() == b.to_bits();
    ok = ok && (n == 0 || s.divisions() == n - 1);
    ok = ok && Steps::from((a, b, n)).into_iter().map(|x| x.to_bits()).collect::<Vec<_>>() == v;
    ok = ok && (0..n).all(|i| s.value(i).to_bits() == v[i]);
    let g = Steps2D::new((a, b, n), (ay, by, ny));
    let pts: Vec<(u64, u64)> = g.into_iter().map(|p| (p.0.to_bits(), p.1.to_bits())).collect();
    ok = ok && Steps2D((a, b, n), (ay, by, ny)).into_iter().map(|p| (p.0.to_bits(), p.1.to_bits())).collect::<Vec<_>>() == pts;
    ok = ok && g.len() == n * ny && g.is_empty() == (n * ny == 0) && g.is_square() == (n == ny);
    ok = ok && g.ranges().0 .0.to_bits() == a.to_bits() && g.ranges().1 .1.to_bits() == by.to_bits();
    let it = spdcalc::utils::Iterator2D::new(g);
    ok = ok && it.map(|p| (p.0.to_bits(), p.1.to_bits())).collect::<Vec<_>>() == pts;
    ok = ok && (0..pts.len()).all(|i| { let p = it.get_xy(i); let q = g.value(i); (p.0.to_bits(), p.1.to_bits()) == pts[i] && (q.0.to_bits(), q.1.to_bits()) == pts[i] });
    // swapping the axes twice is the identity; the swapped grid is the grid built from (y, x)
    ok = ok && g.swapped().swapped().into_iter().map(|p| (p.0.to_bits(), p.1.to_bits())).collect::<Vec<_>>() == pts;
    ok = ok && g.swapped().into_iter().map(|p| (p.0.to_bits(), p.1.to_bits())).collect::<Vec<_>>() == Steps2D((ay, by, ny), (a, b, n)).into_iter().map(|p| (p.0.to_bits(), p.1.to_bits())).collect::<Vec<_>>();
    if n >= 1 && ny >= 1 {
      ok = ok && g.divisions() == (n - 1, ny - 1);
      let w = g.division_widths();
      ok = ok && w.0.to_bits() == Steps(a, b, n).division_width().to_bits() && w.1.to_bits() == Steps(ay, by, ny).division_width().to_bits();
      ok = ok && it.get_dx().to_bits() == w.0.to_bits() && it.get_dy().to_bits() == w.1.to_bits();
    }
    ok
  });
  ctx.s("C14.steps", r == Some(true), if r == Some(true) { "steps/api-routes/ok" } else if r.is_none() { "steps/api-routes/panic" } else { "steps/api-routes/differs" }, &format!("x=({:e},{:e},{}) y=({:e},{:e},{})", a, b, n, ay, by, ny));
}

/// element-wise comparison of two arrays of range values: bit-identical when every point is evaluated
/// sequentially, 1e-12 relative (floored at 1e-3 of the array's peak) when each point is itself a
/// parallel quadrature sum whose rounding depends on scheduling
fn same_values(a: &[f64], b: &[f64], exact: bool) -> bool {
  if a.len() != b.len() {
    return false;
  }
  let peak = a.iter().fold(0.0f64, |m, v| m.max(v.abs()));
  a.iter().zip(b).all(|(x, y)| {
    // identical includes the non-finite values: NaN where the point-by-point value is NaN (any payload), ±inf where it is ±inf
    if x.to_bits() == y.to_bits() || x == y || (x.is_nan() && y.is_nan()) {
      return true;
    }
    if x.is_nan() != y.is_nan() {
      return false;
    }
    !exact && (x - y).abs() <= 1e-12 * x.abs().max(y.abs()).max(1e-3 * peak)
  })
}

fn cflat(v: &[Complex<f64>]) -> Vec<f64> {
  v.iter().flat_map(|z| [z.re, z.im]).collect()
}
fn jflat(v: &[spdcalc::JSIUnits<f64>]) -> Vec<f64> {
  v.iter().map(|x| *(*x / spdcalc::JSIUnits::new(1.))).collect()
}

/// the eight `*_range` functions on one range: (name, values, per-point evaluation uses 2-D quadrature)
fn all_ranges<T: IntoSignalIdlerIterator + Clone>(sp: &spdcalc::jsa::JointSpectrum, r: T, singles: bool) -> Vec<(&'static str, Vec<f64>, bool)> {
  let mut out = vec![
    ("jsa_range", cflat(&sp.jsa_range(r.clone())), false),
    ("jsa_normalized_range", cflat(&sp.jsa_normalized_range(r.clone())), false),
    ("jsi_range", jflat(&sp.jsi_range(r.clone())), false),
    ("jsi_normalized_range", sp.jsi_normalized_range(r.clone()), false),
  ];
  if singles {
    out.push(("jsi_singles_range", jflat(&sp.jsi_singles_range(r.clone())), true));
    out.push(("jsi_singles_normalized_range", sp.jsi_singles_normalized_range(r.clone()), true));
    out.push(("jsi_singles_idler_range", jflat(&sp.jsi_singles_idler_range(r.clone())), true));
    out.push(("jsi_singles_idler_normalized_range", sp.jsi_singles_idler_normalized_range(r), true));
  }
  out
}

/// point-by-point evaluation: the six functions that have a point-wise form on `sp` itself and — when the spectrum `ex`
/// of the EXCHANGED setup (`SPDC::with_swapped_signal_idler`) is given — the two idler-singles functions, whose
/// point-wise form is the exchanged setup's `jsi_singles(wi, ws)` / `jsi_singles_normalized(wi, ws)`
fn all_pointwise(sp: &spdcalc::jsa::JointSpectrum, ex: Option<&spdcalc::jsa::JointSpectrum>, pts: &[(Frequency, Frequency)], singles: bool) -> Vec<(&'static str, Vec<f64>, bool)> {
  let mut out = vec![
    ("jsa_range", cflat(&pts.iter().map(|p| sp.jsa(p.0, p.1)).collect::<Vec<_>>()), false),
    ("jsa_normalized_range", cflat(&pts.iter().map(|p| sp.jsa_normalized(p.0, p.1)).collect::<Vec<_>>()), false),
    ("jsi_range", jflat(&pts.iter().map(|p| sp.jsi(p.0, p.1)).collect::<Vec<_>>()), false),
    ("jsi_normalized_range", pts.iter().map(|p| sp.jsi_normalized(p.0, p.1)).collect(), false),
  ];
  if singles {
    out.push(("jsi_singles_range", jflat(&pts.iter().map(|p| sp.jsi_singles(p.0, p.1)).collect::<Vec<_>>()), true));
    out.push(("jsi_singles_normalized_range", pts.iter().map(|p| sp.jsi_singles_normalized(p.0, p.1)).collect(), true));
    if let Some(ex) = ex {
      out.push(("jsi_singles_idler_range", jflat(&pts.iter().map(|p| ex.jsi_singles(p.1, p.0)).collect::<Vec<_>>()), true));
      out.push(("jsi_singles_idler_normalized_range", pts.iter().map(|p| ex.jsi_singles_normalized(p.1, p.0)).collect(), true));
    }
  }
  out
}

fn fbits(p: &[(Frequency, Frequency)]) -> Vec<(u64, u64)> {
  p.iter().map(|q| ((*(q.0 / (RAD / S))).to_bits(), (*(q.1 / (RAD / S))).to_bits())).collect()
}

/// a finite endpoint of either sign: zeros, small integers, frequency-like, wavelength-like, wide log range
fn gen_signed(r: &mut Rng) -> f64 {
  let sign = if r.coin() { 1.0 } else { -1.0 };
  match r.below(8) {
    0 => 0.0,
    1 => -0.0,
    2 => (r.below(21) as f64) - 10.0,
    3 => sign * r.range(0.0, 10.0),
    4 => sign * r.log_range(1e14, 1e16),
    5 => sign * r.log_range(1e-9, 1e-5),
    _ => sign * r.log_range(1e-6, 1e18),
  }
}

/// The conversion clauses of the statement on grids that are not physical positive bands: "all endpoints
/// (finite floats …)". Frequency ↔ sum/diff keeps centre and counts in both directions, the equal-span
/// round trip is the identity; wavelength ↔ frequency maps endpoints to endpoints and round-trips for
/// non-zero endpoints of either sign.
fn conv_any_case(ctx: &mut Ctx, two_pi_c: f64) {
  let nx = ctx.rng.between(0, 30);
  let ny = ctx.rng.between(0, 30);
  let close = |x: f64, y: f64, scale: f64| rel_close(x, y, 1e-12, scale);
  let maxabs = |g: &Steps2D<f64>| g.0 .0.abs().max(g.0 .1.abs()).max(g.1 .0.abs()).max(g.1 .1.abs());
  let show = |g: &Steps2D<f64>| format!("({:e},{:e},{})x({:e},{:e},{})", g.0 .0, g.0 .1, g.0 .2, g.1 .0, g.1 .1, g.1 .2);

  // ---- (1) frequency grid with arbitrary endpoints → sum/diff: centre and counts
  let mode = ctx.rng.below(4);
  let (a, b, c, d) = match mode {
    // zero-crossing / negative small grids such as (−2,6)×(1,9)
    0 => {
      let a = (ctx.rng.below(21) as f64) - 10.0;
      let c = (ctx.rng.below(21) as f64) - 10.0;
      let span = 1.0 + ctx.rng.below(12) as f64;
      (a, a + span, c, c + span)
    }
    // equal spans, any sign and magnitude
    1 => {
      let a = gen_signed(&mut ctx.rng);
      let c = gen_signed(&mut ctx.rng);
      let span = gen_signed(&mut ctx.rng);
      (a, a + span, c, c + span)
    }
    _ => (gen_signed(&mut ctx.rng), gen_signed(&mut ctx.rng), gen_signed(&mut ctx.rng), gen_signed(&mut ctx.rng)),
  };
  ctx.count(&format!("conv-any/{}", if a < 0.0 || c < 0.0 { "negative-lower-bound" } else { "non-negative" }));
  let fs = FrequencySpace::new((a * RAD / S, b * RAD / S, nx), (c * RAD / S, d * RAD / S, ny));
  let f = raw_f(fs.steps());
  let sd = fs.as_sum_diff_space();
  let sdr = raw_f(sd.steps());
  ctx.k("to_sumdiff", &fmt_space(&f), &fmt_space(&sdr));
  let back = raw_f(sd.as_frequency_space().steps());
  ctx.k("from_sumdiff", &fmt_space(&sdr), &fmt_space(&back));
  let scale = maxabs(&f);
  let (cx, cy) = (0.5 * (a + b), 0.5 * (c + d));
  let (sc, dc) = (0.5 * (sdr.0 .0 + sdr.0 .1), 0.5 * (sdr.1 .0 + sdr.1 .1));
  let ok_c = close(sc - dc, cx, scale) && close(sc + dc, cy, scale) && sdr.0 .2 == nx && sdr.1 .2 == ny;
  ctx.s("C14.conv", ok_c, "conv/sumdiff-centre", &format!("fs={} sd={}", show(&f), show(&sdr)));
  // the way back keeps counts and the centre of each axis, whatever the spans
  let ok_b = close(0.5 * (back.0 .0 + back.0 .1), cx, scale) && close(0.5 * (back.1 .0 + back.1 .1), cy, scale) && back.0 .2 == nx && back.1 .2 == ny;
  ctx.s("C14.conv", ok_b, "conv/sumdiff-centre-back", &format!("fs={} back={}", show(&f), show(&back)));
  // equal spans ⇒ identity (the spans as the floats have them)
  if (b - a) == (d - c) {
    let ok_rt = close(back.0 .0, a, scale) && close(back.0 .1, b, scale) && close(back.1 .0, c, scale) && close(back.1 .1, d, scale);
    ctx.s("C14.conv", ok_rt, "conv/sumdiff-roundtrip-equal-span", &format!("fs={} back={}", show(&f), show(&back)));
  }

  // ---- (2) hand-built sum/diff grid, difference axis possibly much wider than the sum axis
  let s0 = gen_signed(&mut ctx.rng);
  let s1 = if ctx.rng.coin() { s0 * ctx.rng.range(1.0, 1.5) } else { gen_signed(&mut ctx.rng) };
  let wide = s0.abs().max(s1.abs()).max(1.0) * ctx.rng.log_range(0.01, 100.0);
  let (d0, d1) = match ctx.rng.below(3) {
    0 => (-wide, wide),
    1 => (-wide * ctx.rng.unit(), wide),
    _ => (gen_signed(&mut ctx.rng), gen_signed(&mut ctx.rng)),
  };
  let sdh = SumDiffFrequencySpace::new((s0 * RAD / S, s1 * RAD / S, nx), (d0 * RAD / S, d1 * RAD / S, ny));
  let sh = raw_f(sdh.steps());
  let fh = raw_f(sdh.as_frequency_space().steps());
  ctx.k("from_sumdiff", &fmt_space(&sh), &fmt_space(&fh));
  let scale = maxabs(&sh);
  let (sc, dc) = (0.5 * (s0 + s1), 0.5 * (d0 + d1));
  let ok_h = close(0.5 * (fh.0 .0 + fh.0 .1), sc - dc, scale) && close(0.5 * (fh.1 .0 + fh.1 .1), sc + dc, scale) && fh.0 .2 == nx && fh.1 .2 == ny;
  ctx.count(&format!("conv-any/handbuilt/{}", if fh.0 .0 < 0.0 || fh.1 .0 < 0.0 || sc - dc - 0.5 * (s1 - s0).abs() - 0.5 * (d1 - d0).abs() < 0.0 { "reaches-negative" } else { "positive" }));
  ctx.s("C14.conv", ok_h, "conv/sumdiff-centre-handbuilt", &format!("sd={} fs={}", show(&sh), show(&fh)));

  // ---- (3) wavelength ↔ frequency for non-zero endpoints of either sign
  let mut e = [gen_signed(&mut ctx.rng), gen_signed(&mut ctx.rng), gen_signed(&mut ctx.rng), gen_signed(&mut ctx.rng)];
  for x in e.iter_mut() {
    if *x == 0.0 {
      *x = -3.0;
    }
  }
  let ws = WavelengthSpace::new((e[0] * M, e[1] * M, nx), (e[2] * M, e[3] * M, ny));
  let w = raw_l(ws.steps());
  let fw = raw_f(ws.as_frequency_space().steps());
  ctx.k("conv_recip", &format!("{} {}", fl(two_pi_c), fmt_space(&w)), &fmt_space(&fw));
  let rc = |x: f64| two_pi_c / x;
  let ok_e = rel_close(fw.0 .0, rc(e[1]), 1e-14, rc(e[1]).abs()) && rel_close(fw.0 .1, rc(e[0]), 1e-14, rc(e[0]).abs())
    && rel_close(fw.1 .0, rc(e[3]), 1e-14, rc(e[3]).abs()) && rel_close(fw.1 .1, rc(e[2]), 1e-14, rc(e[2]).abs())
    && fw.0 .2 == nx && fw.1 .2 == ny;
  ctx.s("C14.conv", ok_e, "conv/wl-freq-endpoints", &format!("ws={} fs={}", show(&w), show(&fw)));
  let wb = raw_l(ws.as_frequency_space().as_wavelength_space().steps());
  let ok_r = rel_close(wb.0 .0, e[0], 1e-12, e[0].abs()) && rel_close(wb.0 .1, e[1], 1e-12, e[1].abs())
    && rel_close(wb.1 .0, e[2], 1e-12, e[2].abs()) && rel_close(wb.1 .1, e[3], 1e-12, e[3].abs()) && wb.0 .2 == nx && wb.1 .2 == ny;
  ctx.s("C14.conv", ok_r, "conv/wl-freq-roundtrip", &format!("ws={} back={}", show(&w), show(&wb)));
}

fn range_eval(ctx: &mut Ctx) {
  // `*_range` == point-by-point == flat SI arrays, for every range function, every kind of range,
  // every integrator; the (signal, idler) points of every kind of range, sequential == parallel iterator
  use rayon::iter::ParallelIterator;
  let spdc = SPDC::default();
  // (name, integrator, 1-D quadrature per point is a parallel sum, 2-D quadrature per point is a parallel sum, use for singles)
  let mut integrators: Vec<(&str, Integrator, bool, bool, bool)> = vec![
    ("simpson50", Integrator::default(), false, true, true),
    ("gauss-legendre6", Integrator::GaussLegendre { degree: 6 }, false, false, true),
    ("simpson130", Integrator::Simpson { divs: 130 }, true, true, false),
    ("adaptive-simpson", Integrator::AdaptiveSimpson { tolerance: 1e-6, max_depth: 8 }, false, false, false),
  ];
  if ctx.thorough {
    integrators.extend([
      ("simpson9-odd", Integrator::Simpson { divs: 9 }, false, true, true),
      ("simpson201-odd", Integrator::Simpson { divs: 201 }, true, true, false),
      ("gauss-legendre2", Integrator::GaussLegendre { degree: 2 }, false, false, true),
      ("gauss-legendre15", Integrator::GaussLegendre { degree: 15 }, false, false, false),
      ("adaptive-simpson-2d", Integrator::AdaptiveSimpson { tolerance: 1e-5, max_depth: 6 }, false, false, true),
      ("clenshaw-curtis", Integrator::ClenshawCurtis { tolerance: 1e-6 }, false, false, false),
    ]);
  }
  let shapes: &[(usize, usize)] = if ctx.thorough { &[(0, 3), (3, 0), (1, 1), (1, 2), (2, 1), (2, 2), (2, 3), (5, 4), (3, 9)] } else { &[(0, 3), (1, 1), (1, 2), (2, 3), (4, 3)] };
  for (si, &(nx, ny)) in shapes.iter().enumerate() {
    let l0 = ctx.rng.range(1500e-9, 1540e-9);
    let l1 = ctx.rng.range(1560e-9, 1600e-9);
    // ascending, and (every other shape) descending idler axis
    let (y0, y1) = if si % 2 == 0 { (l0, l1) } else { (l1, l0) };
    let ws = WavelengthSpace::new((l0 * M, l1 * M, nx), (y0 * M, y1 * M, ny));
    let fs = ws.as_frequency_space();
    let sd = ws.as_sum_diff_space();
    let wl_flat: Vec<Wavelength> = ws.as_steps().into_iter().flat_map(|(s, i)| [s, i]).collect();
    let fr_flat: Vec<Frequency> = fs.as_steps().into_iter().flat_map(|(s, i)| [s, i]).collect();
    let tag = format!("nx={} ny={} l0={:e} l1={:e} y=({:e},{:e})", nx, ny, l0, l1, y0, y1);

    // ---- the (signal, idler) points of each kind of range
    let p_ws: Vec<(Frequency, Frequency)> = ws.into_signal_idler_iterator().collect();
    let p_fs: Vec<(Frequency, Frequency)> = fs.into_signal_idler_iterator().collect();
    let p_sd: Vec<(Frequency, Frequency)> = sd.into_signal_idler_iterator().collect();
    let p_wf: Vec<(Frequency, Frequency)> = SignalIdlerWavelengthArray(wl_flat.clone()).into_signal_idler_iterator().collect();
    let p_ff: Vec<(Frequency, Frequency)> = SignalIdlerFrequencyArray(fr_flat.clone()).into_signal_idler_iterator().collect();
    let e_ws: Vec<(Frequency, Frequency)> = ws.as_steps().into_iter().map(|(a, b)| (spdcalc::utils::vacuum_wavelength_to_frequency(a), spdcalc::utils::vacuum_wavelength_to_frequency(b))).collect();
    let e_fs: Vec<(Frequency, Frequency)> = fs.as_steps().into_iter().collect();
    let e_sd: Vec<(Frequency, Frequency)> = sd.as_steps().into_iter().map(|(s, d)| (s - d, s + d)).collect();
    let ok_pts = fbits(&p_ws) == fbits(&e_ws) && fbits(&p_fs) == fbits(&e_fs) && fbits(&p_sd) == fbits(&e_sd) && fbits(&p_wf) == fbits(&e_ws) && fbits(&p_ff) == fbits(&e_fs) && p_ws.len() == nx * ny;
    ctx.s("C14.range", ok_pts, "range/space-points", &tag);
    let q_ws: Vec<(Frequency, Frequency)> = ws.into_signal_idler_par_iterator().collect();
    let q_fs: Vec<(Frequency, Frequency)> = fs.into_signal_idler_par_iterator().collect();
    let q_sd: Vec<(Frequency, Frequency)> = sd.into_signal_idler_par_iterator().collect();
    let q_wf: Vec<(Frequency, Frequency)> = SignalIdlerWavelengthArray(wl_flat.clone()).into_signal_idler_par_iterator().collect();
    let q_ff: Vec<(Frequency, Frequency)> = SignalIdlerFrequencyArray(fr_flat.clone()).into_signal_idler_par_iterator().collect();
    let ok_par = fbits(&q_ws) == fbits(&p_ws) && fbits(&q_fs) == fbits(&p_fs) && fbits(&q_sd) == fbits(&p_sd) && fbits(&q_wf) == fbits(&p_wf) && fbits(&q_ff) == fbits(&p_ff);
    ctx.s("C14.range", ok_par, "range/par-vs-seq-iterator", &tag);

    // ---- every range function × every kind of range × integrators
    for &(iname, integ, par1d, par2d, use2d) in integrators.iter() {
      let singles = use2d && nx * ny <= 12;
      let r = guard(|| {
        let sp = spdc.joint_spectrum(integ);
        let ex = if singles { Some(spdc.clone().with_swapped_signal_idler().joint_spectrum(integ)) } else { None };
        let exact_of = |two_d: bool| if two_d { !par2d } else { !par1d };
        let mut bad: Vec<String> = Vec::new();
        let kinds: [(&str, Vec<(&'static str, Vec<f64>, bool)>, &Vec<(Frequency, Frequency)>); 5] = [
          ("wavelength", all_ranges(&sp, ws, singles), &p_ws),
          ("frequency", all_ranges(&sp, fs, singles), &p_fs),
          ("sumdiff", all_ranges(&sp, sd, singles), &p_sd),
          ("flat-wavelength", all_ranges(&sp, SignalIdlerWavelengthArray(wl_flat.clone()), singles), &p_wf),
          ("flat-frequency", all_ranges(&sp, SignalIdlerFrequencyArray(fr_flat.clone()), singles), &p_ff),
        ];
        // one value per grid point, identical to point-by-point evaluation
        for (kname, vals, pts) in kinds.iter() {
          let pw = all_pointwise(&sp, ex.as_ref(), pts, singles);
          for (fname, v, two_d) in vals.iter() {
            let per = if fname.starts_with("jsa") { 2 } else { 1 };
            if v.len() != per * nx * ny {
              bad.push(format!("pointwise:{}:{}:length", kname, fname));
            }
            if let Some((_, e, _)) = pw.iter().find(|p| p.0 == *fname) {
              if !same_values(e, v, exact_of(*two_d)) {
                bad.push(format!("pointwise:{}:{}", kname, fname));
              }
            }
          }
        }
        // a flat list of pairs gives the same values as the equivalent grid
        for (flat_i, grid_i, label) in [(3usize, 0usize, "flat-wavelength-array"), (4, 1, "flat-frequency-array")] {
          for ((fname, v, two_d), (_, g, _)) in kinds[flat_i].1.iter().zip(kinds[grid_i].1.iter()) {
            if !same_values(g, v, exact_of(*two_d)) {
              bad.push(format!("{}:{}", label, fname));
            }
          }
        }
        bad
      });
      let detail = |what: &str| format!("{} integrator={} singles={} {}", tag, iname, singles, what);
      match r {
        None => ctx.s("C14.range", false, "range/panic", &detail("")),
        Some(bad) => {
          let pw: Vec<&String> = bad.iter().filter(|b| b.starts_with("pointwise")).collect();
          ctx.s("C14.range", pw.is_empty(), "range/pointwise", &detail(&pw.iter().take(4).map(|x| x.as_str()).collect::<Vec<_>>().join(",")));
          for label in ["flat-wavelength-array", "flat-frequency-array"] {
            let b: Vec<&String> = bad.iter().filter(|b| b.starts_with(label)).collect();
            ctx.s("C14.range", b.is_empty(), &format!("range/{}", label), &detail(&b.iter().take(4).map(|x| x.as_str()).collect::<Vec<_>>().join(",")));
          }
        }
      }
      ctx.count(&format!("range/integrator/{}", iname));
    }
    ctx.count("range/shapes");
  }
}

/// JSON configuration of one setup of the named kind (random parameters); `None` when the kind index is past the end
fn range_setup_json(r: &mut Rng, kind: usize) -> Option<(&'static str, serde_json::Value)> {
  use serde_json::json;
  let length = r.range(2000.0, 12000.0).round();
  // two DIFFERENT explicit waist positions inside the crystal (µm, negative = inside)
  let zs = -(r.range(0.02, 0.45) * length).round();
  let zi = -(r.range(0.55, 0.98) * length).round();
  let waist = r.range(35.0, 110.0).round();
  let pump = |wl: f64, bw: f64, power: f64| json!({"wavelength_nm": wl, "waist_um": r_waist(waist), "bandwidth_nm": bw, "average_power_mw": power});
  fn r_waist(w: f64) -> f64 {
    2.0 * w
  }
  let ktp = |pm: &str| json!({"kind": "KTP", "pm_type": pm, "phi_deg": 0, "theta_deg": 90, "length_um": length, "temperature_c": 20});
  let beam = |wl: f64, phi: f64, theta: f64, w: f64, z: serde_json::Value| json!({"wavelength_nm": wl, "phi_deg": phi, "theta_deg": theta, "waist_um": w, "waist_position_um": z});
  let auto_pp = json!({"poling_period_um": "auto"});
  let copied = |theta: f64, zs: serde_json::Value, zi: serde_json::Value, deff: f64, power: f64, bw: f64| {
    json!({"crystal": ktp("e->ee"), "pump": pump(775.0, bw, power), "signal": beam(1550.0, 0.0, theta, waist, zs), "idler": beam(1550.0, 0.0, theta, waist, zi),
           "periodic_poling": auto_pp.clone(), "deff_pm_per_volt": deff})
  };
  Some(match kind {
    // idler block = COPY of the signal block (the two Beams compare equal), two different collection foci
    0 => ("copied-blocks/type0-collinear", copied(0.0, json!(zs), json!(zi), 7.6, 10.0, 2.0)),
    1 => ("copied-blocks/type0-noncollinear", copied(r.range(0.2, 1.5), json!(zs), json!(zi), 7.6, 10.0, 2.0)),
    2 => ("copied-blocks/one-auto-waist-position", copied(0.0, json!("auto"), json!(zi), 7.6, 10.0, 2.0)),
    3 => ("copied-blocks/type1-bbo-unpoled", json!({
      "crystal": {"kind": "BBO_1", "pm_type": "e->oo", "phi_deg": 0, "theta_deg": "auto", "length_um": (length / 4.0).round(), "temperature_c": 20},
      "pump": pump(405.0, 0.5, 10.0), "signal": beam(810.0, 0.0, 0.0, waist, json!((zs / 4.0).round())), "idler": beam(810.0, 0.0, 0.0, waist, json!((zi / 4.0).round())),
      "deff_pm_per_volt": 2.0})),
    // explicit idler that is NOT a copy: other polarization, azimuth, waist, focus
    4 => ("explicit-idler/type2", json!({"crystal": ktp("e->eo"), "pump": pump(775.0, 1.0, 10.0), "signal": beam(1550.0, 0.0, 0.0, waist, json!(zs)),
      "idler": beam(1550.0, 180.0, 0.0, (waist * 1.4).round(), json!(zi)), "periodic_poling": auto_pp, "deff_pm_per_volt": 7.6})),
    5 => ("explicit-idler/type0-same-beam-but-azimuth", json!({"crystal": ktp("e->ee"), "pump": pump(775.0, 2.0, 10.0), "signal": beam(1550.0, 0.0, 0.0, waist, json!(zs)),
      "idler": beam(1550.0, 180.0, 0.0, waist, json!(zi)), "periodic_poling": auto_pp, "deff_pm_per_volt": 7.6})),
    6 => ("auto-idler/type2-nondegenerate", json!({"crystal": ktp("e->eo"), "pump": pump(775.0, 1.0, 10.0), "signal": beam(r.range(1480.0, 1540.0).round(), 0.0, 0.0, waist, json!("auto")),
      "idler": "auto", "periodic_poling": auto_pp, "deff_pm_per_volt": 7.6})),
    // degenerate references: the centre amplitude (normalisation of every *_normalized value) is exactly zero
    7 => ("zero-centre/outside-0.75wp-box", json!({
      "crystal": {"kind": "LiNbO3_1", "pm_type": "e->ee", "phi_deg": 0, "theta_deg": 90, "length_um": length, "temperature_c": 20},
      "pump": pump(532.0, 1.0, 10.0), "signal": beam(r.range(590.0, 605.0).round(), 0.0, 0.0, waist, json!("auto")), "idler": "auto",
      "periodic_poling": auto_pp, "deff_pm_per_volt": 20.0})),
    8 => ("zero-centre/deff-zero", copied(0.0, json!(zs), json!(zi), 0.0, 10.0, 2.0)),
    9 => ("zero-centre/power-zero", copied(0.0, json!(zs), json!(zi), 7.6, 0.0, 2.0)),
    10 => ("zero-centre/type2-deff-zero", json!({"crystal": ktp("e->eo"), "pump": pump(775.0, 1.0, 10.0), "signal": beam(1550.0, 0.0, 0.0, waist, json!("auto")),
      "idler": "auto", "periodic_poling": auto_pp, "deff_pm_per_volt": 0.0})),
    // NaN reference: a monochromatic pump (zero bandwidth) makes the pump envelope 0/0 at the centre
    11 => ("nan-centre/bandwidth-zero", copied(0.0, json!(zs), json!(zi), 7.6, 10.0, 0.0)),
    _ => return None,
  })
}

/// "Range-evaluating spectrum functions return one value per grid point in that order, identical to evaluating point by
/// point, and a flat list of (signal, idler) pairs gives the same values as the equivalent grid" — on setups other than
/// `SPDC::default()`: every `*_range` function (the idler-singles ones against the EXCHANGED setup evaluated point by
/// point) × the five kinds of range × a grid around the centre and a grid that leaves the valid frequency box,
/// non-finite values included (NaN where the point value is NaN).
fn range_setups(ctx: &mut Ctx) {
  let reps = if ctx.thorough { 5 } else { 1 };
  let integrators: Vec<(&str, Integrator, bool)> = if ctx.thorough {
    vec![("gauss-legendre4", Integrator::GaussLegendre { degree: 4 }, false), ("simpson10", Integrator::Simpson { divs: 10 }, true), ("simpson50", Integrator::default(), true)]
  } else {
    vec![("gauss-legendre4", Integrator::GaussLegendre { degree: 4 }, false), ("simpson10", Integrator::Simpson { divs: 10 }, true)]
  };
  for rep in 0..reps {
    let mut kind = 0;
    while let Some((sname, js)) = range_setup_json(&mut ctx.rng, kind) {
      kind += 1;
      let text = js.to_string();
      let spdc: Option<SPDC> = guard(|| serde_json::from_value::<SPDCConfig>(js).ok().and_then(|c| c.try_as_spdc().ok())).flatten();
      let spdc = match spdc {
        Some(s) => s,
        None => {
          // the generator is expected to produce valid configurations only
          ctx.count(&format!("range-setup/{}/not-constructible", sname));
          continue;
        }
      };
      ctx.count(&format!("range-setup/{}", sname));
      if *spdc.signal == *spdc.idler && spdc.signal_waist_position != spdc.idler_waist_position {
        ctx.count("range-setup/equal-beams-distinct-waist-positions");
      }
      let (w_s, w_i, w_p) = (*(spdc.signal.frequency() / (RAD / S)), *(spdc.idler.frequency() / (RAD / S)), *(spdc.pump.frequency() / (RAD / S)));
      let d = ctx.rng.log_range(1e12, 1.5e13);
      // (name, signal axis, idler axis): around the centre (non-square, skewed); leaving the valid box on every side
      let grids: [(&str, (f64, f64, usize), (f64, f64, usize)); 2] = [
        ("centre", (w_s - d, w_s + d, 4), (w_i - 0.5 * d, w_i + d, 3)),
        ("beyond-valid-box", (0.04 * w_p, 1.1 * w_p, 3), (0.9 * w_p, 0.03 * w_p, 3)),
      ];
      for (gi, (gname, gx, gy)) in grids.iter().enumerate() {
        // the wide grid only every other repetition in the thorough tier (it is mostly zeros)
        if gi == 1 && rep % 2 == 1 {
          continue;
        }
        let fs = FrequencySpace::new((gx.0 * RAD / S, gx.1 * RAD / S, gx.2), (gy.0 * RAD / S, gy.1 * RAD / S, gy.2));
        let ws = fs.as_wavelength_space();
        let sd = fs.as_sum_diff_space();
        let wl_flat: Vec<Wavelength> = ws.as_steps().into_iter().flat_map(|(s, i)| [s, i]).collect();
        let fr_flat: Vec<Frequency> = fs.as_steps().into_iter().flat_map(|(s, i)| [s, i]).collect();
        let p_ws: Vec<(Frequency, Frequency)> = ws.into_signal_idler_iterator().collect();
        let p_fs: Vec<(Frequency, Frequency)> = fs.into_signal_idler_iterator().collect();
        let p_sd: Vec<(Frequency, Frequency)> = sd.into_signal_idler_iterator().collect();
        let p_wf: Vec<(Frequency, Frequency)> = SignalIdlerWavelengthArray(wl_flat.clone()).into_signal_idler_iterator().collect();
        let p_ff: Vec<(Frequency, Frequency)> = SignalIdlerFrequencyArray(fr_flat.clone()).into_signal_idler_iterator().collect();
        let npts = gx.2 * gy.2;
        for &(iname, integ, par2d) in integrators.iter() {
          let r = guard(|| {
            let sp = spdc.joint_spectrum(integ);
            let ex = spdc.clone().with_swapped_signal_idler().joint_spectrum(integ);
            let exact_of = |two_d: bool| !(two_d && par2d);
            let mut bad: Vec<String> = Vec::new();
            let mut stats = (0usize, 0usize, 0usize); // values: finite non-zero, zero, non-finite
            let kinds: [(&str, Vec<(&'static str, Vec<f64>, bool)>, &Vec<(Frequency, Frequency)>); 5] = [
              ("wavelength", all_ranges(&sp, ws, true), &p_ws),
              ("frequency", all_ranges(&sp, fs, true), &p_fs),
              ("sumdiff", all_ranges(&sp, sd, true), &p_sd),
              ("flat-wavelength", all_ranges(&sp, SignalIdlerWavelengthArray(wl_flat.clone()), true), &p_wf),
              ("flat-frequency", all_ranges(&sp, SignalIdlerFrequencyArray(fr_flat.clone()), true), &p_ff),
            ];
            for (kname, vals, pts) in kinds.iter() {
              let pw = all_pointwise(&sp, Some(&ex), pts, true);
              for (fname, v, two_d) in vals.iter() {
                let per = if fname.starts_with("jsa") { 2 } else { 1 };
                if v.len() != per * npts {
                  bad.push(format!("pointwise:{}:{}:length", kname, fname));
                  continue;
                }
                for x in v.iter() {
                  if !x.is_finite() {
                    stats.2 += 1;
                  } else if *x == 0.0 {
                    stats.1 += 1;
                  } else {
                    stats.0 += 1;
                  }
                }
                match pw.iter().find(|p| p.0 == *fname) {
                  Some((_, e, _)) => {
                    if !same_values(e, v, exact_of(*two_d)) {
                      let k = e.iter().zip(v.iter()).position(|(a, b)| !same_values(&[*a], &[*b], exact_of(*two_d))).unwrap_or(0);
                      bad.push(format!("pointwise:{}:{}:k={}:range={:e}:point={:e}", kname, fname, k / per, v[k], e[k]));
                    }
                  }
                  None => bad.push(format!("pointwise:{}:{}:no-pointwise-form", kname, fname)),
                }
              }
            }
            for (flat_i, grid_i, label) in [(3usize, 0usize, "flat-wavelength-array"), (4, 1, "flat-frequency-array")] {
              for ((fname, v, two_d), (_, g, _)) in kinds[flat_i].1.iter().zip(kinds[grid_i].1.iter()) {
                if !same_values(g, v, exact_of(*two_d)) {
                  bad.push(format!("{}:{}", label, fname));
                }
              }
            }
            (bad, stats)
          });
          let detail = |what: &str| format!("setup={} grid={} fs=({:e},{:e},{})x({:e},{:e},{}) integrator={} {} config={}", sname, gname, gx.0, gx.1, gx.2, gy.0, gy.1, gy.2, iname, what, text.replace(' ', ""));
          match r {
            None => ctx.s("C14.range", false, "range/setups/panic", &detail("")),
            Some((bad, stats)) => {
              let pw: Vec<&String> = bad.iter().filter(|b| b.starts_with("pointwise")).collect();
              // signature names the first differing function (stable per defect)
              let sig = match pw.first() {
                None => "range/setups/pointwise".to_string(),
                Some(b) => format!("range/setups/pointwise/{}", b.split(':').nth(2).unwrap_or("?")),
              };
              ctx.s("C14.range", pw.is_empty(), &sig, &detail(&format!("first={}", pw.iter().take(3).map(|x| x.as_str()).collect::<Vec<_>>().join(","))));
              for label in ["flat-wavelength-array", "flat-frequency-array"] {
                let b: Vec<&String> = bad.iter().filter(|b| b.starts_with(label)).collect();
                ctx.s("C14.range", b.is_empty(), &format!("range/setups/{}", label), &detail(&format!("first={}", b.iter().take(3).map(|x| x.as_str()).collect::<Vec<_>>().join(","))));
              }
              if stats.0 > 0 {
                ctx.count(&format!("range-setup/{}/{}/has-finite-nonzero-values", sname, gname));
              }
              if stats.2 > 0 {
                ctx.count(&format!("range-setup/{}/{}/has-non-finite-values", sname, gname));
              }
            }
          }
        }
      }
    }
  }
}
