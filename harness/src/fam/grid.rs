//! C14 — grids, index maps, representation conversions, transpose
use crate::common::*;
use spdcalc::dim::ucum::{M, RAD, S};
use spdcalc::jsa::{FrequencySpace, SumDiffFrequencySpace, WavelengthSpace};
use spdcalc::prelude::*;
use spdcalc::{Frequency, Wavelength};
use spdcalc::utils::{get_1d_index, get_2d_indices, transpose_vec};

fn script(r: &mut Rng, len: usize) -> String {
  (0..len).map(|_| if r.coin() { 'F' } else { 'B' }).collect()
}

pub fn gen_count(r: &mut Rng, max: usize) -> usize {
  match r.below(6) {
    0 => r.below(4),
    1 => r.below(13),
    _ => r.below(max + 1),
  }
}

fn rel_close(a: f64, b: f64, tol: f64, scale: f64) -> bool {
  if a == b {
    return true;
  }
  (a - b).abs() <= tol * scale.max(f64::MIN_POSITIVE)
}

fn fmt_space(s: &Steps2D<f64>) -> String {
  format!("{} {} {} {} {} {}", fl(s.0 .0), fl(s.0 .1), s.0 .2, fl(s.1 .0), fl(s.1 .1), s.1 .2)
}

fn raw_f(s: &Steps2D<Frequency>) -> Steps2D<f64> {
  Steps2D(
    (*(s.0 .0 / (RAD / S)), *(s.0 .1 / (RAD / S)), s.0 .2),
    (*(s.1 .0 / (RAD / S)), *(s.1 .1 / (RAD / S)), s.1 .2),
  )
}
fn raw_l(s: &Steps2D<Wavelength>) -> Steps2D<f64> {
  Steps2D(
    (*(s.0 .0 / M), *(s.0 .1 / M), s.0 .2),
    (*(s.1 .0 / M), *(s.1 .1 / M), s.1 .2),
  )
}

pub fn run(ctx: &mut Ctx) {
  let maxn = if ctx.thorough { 300 } else { 40 };
  let two_pi_c = spdcalc::TWO_PI * 299_792_458.0;

  // ---- exhaustive small counts with a few fixed endpoint pairs
  let fixed = [(0.0, 1.0), (3.3, 4.0), (1.0, -1.0), (2.5, 2.5), (-0.0, 0.9), (1400e-9, 1600e-9)];
  for n in 0..=12usize {
    for (a, b) in fixed.iter() {
      steps_case(ctx, *a, *b, n);
    }
  }
  for nx in 0..=6usize {
    for ny in 0..=6usize {
      steps2d_case(ctx, 0.0, 1.0, nx, 10.0, -3.0, ny);
    }
  }
  // index maps, exhaustive small
  for cols in 0..=12usize {
    for i in 0..=40usize {
      idx2_case(ctx, i, cols);
    }
    for col in 0..=13usize {
      for row in 0..=4usize {
        idx1_case(ctx, col, row, cols);
      }
    }
  }
  // transpose: all shapes ≤ 12×12 (and cols = 0, ragged lengths)
  let tmax = if ctx.thorough { 12 } else { 7 };
  for rows in 0..=tmax {
    for cols in 0..=tmax {
      transpose_case(ctx, rows * cols, cols, Some((rows, cols)));
    }
  }
  for len in 0..=10usize {
    for cols in 0..=5usize {
      transpose_case(ctx, len, cols, None);
    }
  }

  // ---- random
  for _ in 0..ctx.n {
    let a = gen_endpoint(&mut ctx.rng);
    let b = gen_endpoint(&mut ctx.rng);
    let n = gen_count(&mut ctx.rng, maxn);
    steps_case(ctx, a, b, n);
  }
  for _ in 0..ctx.n / 4 {
    let (ax, bx, ay, by) = (
      gen_endpoint(&mut ctx.rng),
      gen_endpoint(&mut ctx.rng),
      gen_endpoint(&mut ctx.rng),
      gen_endpoint(&mut ctx.rng),
    );
    let nx = gen_count(&mut ctx.rng, maxn / 4);
    let ny = gen_count(&mut ctx.rng, maxn / 4);
    steps2d_case(ctx, ax, bx, nx, ay, by, ny);
  }
  for _ in 0..ctx.n {
    let i = ctx.rng.below(100_000);
    let cols = ctx.rng.below(400);
    idx2_case(ctx, i, cols);
    let col = ctx.rng.below(400);
    let row = ctx.rng.below(400);
    idx1_case(ctx, col, row, cols);
  }

  // ---- representation conversions
  for _ in 0..ctx.n / 2 {
    conv_case(ctx, two_pi_c);
  }

  // ---- range evaluation = point by point (implementation against itself)
  range_eval(ctx);
}

type Key = (u64, u64);
type DynIt = Box<dyn DoubleEndedIterator<Item = Key>>;

/// The statement's "exactly n values … from either end" on ONE real iterator instance consumed from
/// both ends: the front-pulled points in forward order followed by the back-pulled points reversed
/// must be the sequential traversal (each point exactly once — theorem `steps_drain_partition`),
/// and every pull after the n-th must return `None`, and keep returning `None`.
/// Returns the first violated mode with a description.
fn double_ended_modes(make: &dyn Fn() -> DynIt, seq: &[Key], r: &mut Rng) -> Result<(), (String, String)> {
  let n = seq.len();
  let check = |mode: &str, info: String, front: Vec<Key>, mut back: Vec<Key>, late_some: bool| -> Result<(), (String, String)> {
    back.reverse();
    let total = front.len() + back.len();
    let mut all = front.clone();
    all.extend(back.iter().copied());
    if late_some {
      return Err((mode.to_string(), format!("{} a pull after the last point returned Some (delivered={} n={})", info, total, n)));
    }
    if total != n {
      return Err((mode.to_string(), format!("{} delivered={} n={}", info, total, n)));
    }
    if all != seq {
      return Err((mode.to_string(), format!("{} delivered points are not the sequence, each exactly once (front={} back={})", info, front.len(), back.len())));
    }
    Ok(())
  };
  // 1. random interleavings of next / next_back, three different biases
  for bias in [0.5, 0.15, 0.85] {
    let mut it = make();
    let script: String = (0..n + 4).map(|_| if r.unit() < bias { 'F' } else { 'B' }).collect();
    let (mut front, mut back) = (Vec::new(), Vec::new());
    let mut late_some = false;
    let mut early_none = false;
    for c in script.chars() {
      let before = front.len() + back.len();
      let v = if c == 'F' { it.next() } else { it.next_back() };
      match v {
        Some(x) => {
          if before >= n {
            late_some = true;
          }
          if c == 'F' { front.push(x) } else { back.push(x) }
        }
        None => {
          if before < n {
            early_none = true;
          }
        }
      }
    }
    let shown = if script.len() > 40 { format!("{}…", &script[..40]) } else { script.clone() };
    if early_none {
      return Err(("interleaved".into(), format!("script={} a pull returned None before n points were delivered", shown)));
    }
    check("interleaved", format!("script={}", shown), front, back, late_some)?;
  }
  // 2. k × next, then rev() drains the rest; afterwards both ends stay None
  for k in [0usize, 1, n / 2, n.saturating_sub(1), n, n + 1] {
    let mut it = make();
    let front: Vec<Key> = (0..k).filter_map(|_| it.next()).collect();
    let mut rv = it.rev();
    let back: Vec<Key> = rv.by_ref().collect();
    let late = rv.next().is_some() || rv.next_back().is_some() || rv.next().is_some();
    check("next-then-rev", format!("k={}", k), front, back, late)?;
  }
  // 3. rev() first: j pulls from the reversed iterator (= next_back), then its next_back (= next) to the end
  for j in [0usize, 1, n / 3, n, n + 2] {
    let mut rv = make().rev();
    let back: Vec<Key> = (0..j).filter_map(|_| rv.next()).collect();
    let mut front = Vec::new();
    let mut guard_count = 0;
    while let Some(x) = rv.next_back() {
      front.push(x);
      guard_count += 1;
      if guard_count > 2 * n + 4 {
        break;
      }
    }
    let late = rv.next().is_some() || rv.next_back().is_some();
    check("rev-then-next_back", format!("j={}", j), front, back, late)?;
  }
  // 4. by_ref().take(k), then rev() of the same instance
  for k in [1usize, n / 2 + 1, n + 1] {
    let mut it = make();
    let front: Vec<Key> = it.by_ref().take(k).collect();
    let back: Vec<Key> = it.rev().collect();
    check("take-then-rev", format!("k={}", k), front, back, false)?;
  }
  // 5. strictly alternating ends (the smallest failing case of a shared-pool bug: n = 1)
  {
    let mut it = make();
    let (mut front, mut back) = (Vec::new(), Vec::new());
    let mut late_some = false;
    for i in 0..n + 3 {
      let before = front.len() + back.len();
      let v = if i % 2 == 0 { it.next() } else { it.next_back() };
      if let Some(x) = v {
        if before >= n {
          late_some = true;
        }
        if i % 2 == 0 { front.push(x) } else { back.push(x) }
      }
    }
    check("alternating", String::new(), front, back, late_some)?;
  }
  Ok(())
}

fn steps_case(ctx: &mut Ctx, a: f64, b: f64, n: usize) {
  ctx.count(&format!("steps/n={}", if n <= 2 { n.to_string() } else { "3+".into() }));
  let s = Steps(a, b, n);
  let v: Vec<f64> = s.into_iter().collect();
  ctx.k("steps", &format!("{} {} {}", fl(a), fl(b), n), &fls(&v));
  // drain script
  let sc = script(&mut ctx.rng, n + 2);
  let mut it = s.into_iter();
  let outs: Vec<String> = sc
    .chars()
    .map(|c| {
      let v = if c == 'F' { it.next() } else { it.next_back() };
      v.map(fl).unwrap_or_else(|| "-".into())
    })
    .collect();
  ctx.k("steps_drain", &format!("{} {} {} {}", fl(a), fl(b), n, sc), &outs.join(" "));
  if n >= 1 {
    ctx.k("steps_width", &format!("{} {} {}", fl(a), fl(b), n), &fl(s.division_width()));
  }

  // S: exactly n values from either end, on one instance consumed from both ends
  {
    let seq: Vec<Key> = v.iter().map(|x| (x.to_bits(), 0)).collect();
    let make = move || -> DynIt { Box::new(Steps(a, b, n).into_iter().map(|x| (x.to_bits(), 0u64))) };
    let r = double_ended_modes(&make, &seq, &mut ctx.rng);
    let (ok, sig, why) = match r {
      Ok(()) => (true, "steps/double-ended/ok".to_string(), String::new()),
      Err((mode, why)) => (false, format!("steps/double-ended/{}", mode), why),
    };
    ctx.s("C14.steps", ok, &sig, &format!("a={:e} b={:e} n={} {}", a, b, n, why));
  }

  // S: the statement (restricted to magnitudes where no overflow can occur)
  if a.abs() < 1e150 && b.abs() < 1e150 {
    let scale = a.abs().max(b.abs());
    let mut ok = v.len() == n;
    let mut why = String::new();
    if n >= 1 && ok {
      if !rel_close(v[0], a, 1e-14, scale) {
        ok = false;
        why = format!("first {} != start", v[0]);
      }
      if n >= 2 && !rel_close(v[n - 1], b, 1e-14, scale) {
        ok = false;
        why = format!("last {} != end", v[n - 1]);
      }
      if n >= 3 {
        let h = (b - a) / (n as f64 - 1.0);
        for i in 0..n - 1 {
          if !rel_close(v[i + 1] - v[i], h, 1e-12, scale) {
            ok = false;
            why = format!("spacing at {}", i);
          }
        }
      }
      let rev: Vec<f64> = s.into_iter().rev().collect();
      let mut fw = v.clone();
      fw.reverse();
      if rev != fw {
        ok = false;
        why = "reverse traversal differs".into();
      }
    }
    if n >= 1 {
      ctx.s("C14.steps", ok, "steps/enumerate", &format!("a={:e} b={:e} n={} {}", a, b, n, why));
    } else {
      ctx.s("C14.steps", v.is_empty(), "steps/empty", "n=0");
    }
  }
}

fn steps2d_case(ctx: &mut Ctx, ax: f64, bx: f64, nx: usize, ay: f64, by: f64, ny: usize) {
  ctx.count(&format!("steps2d/{}", if nx * ny == 0 { "empty" } else if nx == 1 || ny == 1 { "line" } else { "grid" }));
  let s = Steps2D((ax, bx, nx), (ay, by, ny));
  let v: Vec<(f64, f64)> = s.into_iter().collect();
  let flat: Vec<f64> = v.iter().flat_map(|p| [p.0, p.1]).collect();
  let args = format!("{} {} {} {} {} {}", fl(ax), fl(bx), nx, fl(ay), fl(by), ny);
  ctx.k("steps2d", &args, &fls(&flat));
  let sc = script(&mut ctx.rng, (nx * ny).min(12) + 2);
  let mut it = s.into_iter();
  let outs: Vec<String> = sc
    .chars()
    .map(|c| {
      let v = if c == 'F' { it.next() } else { it.next_back() };
      v.map(|p| format!("{} {}", fl(p.0), fl(p.1))).unwrap_or_else(|| "-".into())
    })
    .collect();
  ctx.k("steps2d_drain", &format!("{} {}", args, sc), &outs.join(" "));

  {
    let seq: Vec<Key> = v.iter().map(|p| (p.0.to_bits(), p.1.to_bits())).collect();
    let make = move || -> DynIt { Box::new(Steps2D((ax, bx, nx), (ay, by, ny)).into_iter().map(|p| (p.0.to_bits(), p.1.to_bits()))) };
    let r = double_ended_modes(&make, &seq, &mut ctx.rng);
    let (ok, sig, why) = match r {
      Ok(()) => (true, "steps2d/double-ended/ok".to_string(), String::new()),
      Err((mode, why)) => (false, format!("steps2d/double-ended/{}", mode), why),
    };
    ctx.s("C14.steps2d", ok, &sig, &format!("x=({:e},{:e},{}) y=({:e},{:e},{}) {}", ax, bx, nx, ay, by, ny, why));
  }

  if [ax, bx, ay, by].iter().all(|x| x.abs() < 1e150) {
    let xs: Vec<f64> = Steps(ax, bx, nx).into_iter().collect();
    let ys: Vec<f64> = Steps(ay, by, ny).into_iter().collect();
    let mut ok = v.len() == nx * ny;
    let mut why = String::new();
    if ok {
      let sx = ax.abs().max(bx.abs());
      let sy = ay.abs().max(by.abs());
      for k in 0..v.len() {
        let (i, j) = (k % nx, k / nx);
        if !rel_close(v[k].0, xs[i], 1e-14, sx) || !rel_close(v[k].1, ys[j], 1e-14, sy) {
          ok = false;
          why = format!("point {} is not (x[{}], y[{}])", k, i, j);
          break;
        }
      }
    }
    ctx.s("C14.steps2d", ok, "steps2d/row-major", &format!("x=({:e},{:e},{}) y=({:e},{:e},{}) {}", ax, bx, nx, ay, by, ny, why));
  }
}

fn idx2_case(ctx: &mut Ctx, i: usize, cols: usize) {
  let r = guard(|| get_2d_indices(i, cols));
  let out = r.map(|p| format!("{} {}", p.0, p.1)).unwrap_or("PANIC".into());
  ctx.k("idx2", &format!("{} {}", i, cols), &out);
  if let Some((c, rw)) = r {
    let back = guard(|| get_1d_index(c, rw, cols));
    ctx.s("C14.index", back == Some(i), "index/inverse-1", &format!("i={} cols={}", i, cols));
  }
}

fn idx1_case(ctx: &mut Ctx, col: usize, row: usize, cols: usize) {
  let r = guard(|| get_1d_index(col, row, cols));
  ctx.k("idx1", &format!("{} {} {}", col, row, cols), &r.map(|n| n.to_string()).unwrap_or("PANIC".into()));
  if col < cols {
    let ok = match r {
      Some(k) => get_2d_indices(k, cols) == (col, row),
      None => false,
    };
    ctx.s("C14.index", ok, "index/inverse-2", &format!("col={} row={} cols={}", col, row, cols));
  }
}

fn transpose_case(ctx: &mut Ctx, len: usize, cols: usize, shape: Option<(usize, usize)>) {
  let v: Vec<usize> = (1..=len).collect();
  let vv = v.clone();
  let r = guard(move || transpose_vec(vv, cols));
  let args = format!("{} {}", cols, v.iter().map(|x| x.to_string()).collect::<Vec<_>>().join(" "));
  let out = match &r {
    Some(t) => t.iter().map(|x| x.to_string()).collect::<Vec<_>>().join(" "),
    None => "PANIC".into(),
  };
  ctx.k("transpose", args.trim_end(), &out);
  if let Some((rows, cols)) = shape {
    if rows >= 1 && cols >= 1 {
      // the statement: matrix transpose of a rows×cols row-major matrix
      let mut expect = vec![0usize; len];
      for rr in 0..rows {
        for cc in 0..cols {
          expect[cc * rows + rr] = v[rr * cols + cc];
        }
      }
      let ok = r.as_ref() == Some(&expect);
      let kind = if rows == cols { "square" } else if r.is_none() { "nonsquare/panic" } else { "nonsquare/wrong" };
      ctx.count(&format!("transpose/{}", if rows == cols { "square" } else { "nonsquare" }));
      ctx.s(
        "C14.transpose",
        ok,
        &format!("transpose/{}", if ok { "ok" } else { kind }),
        &format!("rows={} cols={} got={}", rows, cols, out),
      );
    }
  }
}

fn gen_band(r: &mut Rng) -> (f64, f64) {
  // ascending positive pair (wavelength-like or frequency-like), sometimes descending
  let lo = r.log_range(200e-9, 5e-6);
  let hi = lo * r.range(1.0001, 2.0);
  if r.below(8) == 0 { (hi, lo) } else { (lo, hi) }
}

fn conv_case(ctx: &mut Ctx, two_pi_c: f64) {
  let (a, b) = gen_band(&mut ctx.rng);
  let (c, d) = gen_band(&mut ctx.rng);
  let nx = ctx.rng.between(0, 30);
  let ny = ctx.rng.between(0, 30);
  let ws = WavelengthSpace::new((a * M, b * M, nx), (c * M, d * M, ny));
  let fs = FrequencySpace::from_wavelength_space(ws);
  let f = raw_f(fs.steps());
  let w = raw_l(ws.steps());
  ctx.k("conv_recip", &format!("{} {}", fl(two_pi_c), fmt_space(&w)), &fmt_space(&f));
  let back = raw_l(fs.as_wavelength_space().steps());
  ctx.k("conv_recip", &format!("{} {}", fl(two_pi_c), fmt_space(&f)), &fmt_space(&back));
  let sd = SumDiffFrequencySpace::from_frequency_space(fs);
  let sdr = raw_f(sd.steps());
  ctx.k("to_sumdiff", &fmt_space(&f), &fmt_space(&sdr));
  let fs2 = sd.as_frequency_space();
  let f2 = raw_f(fs2.steps());
  ctx.k("from_sumdiff", &fmt_space(&sdr), &fmt_space(&f2));
  if nx * ny <= 64 {
    let pts: Vec<f64> = sd
      .into_signal_idler_iterator()
      .flat_map(|(s, i)| [*(s / (RAD / S)), *(i / (RAD / S))])
      .collect();
    ctx.k("sd_points", &fmt_space(&sdr), &fls(&pts));
  }

  // S: the statement
  let asc = a <= b && c <= d;
  ctx.count(if asc { "conv/ascending" } else { "conv/descending" });
  let rc = |x: f64| two_pi_c / x;
  // endpoints ↦ endpoints (min wavelength ↦ max frequency), counts kept
  let ok_end = rel_close(f.0 .0, rc(b), 1e-14, rc(b).abs())
    && rel_close(f.0 .1, rc(a), 1e-14, rc(a).abs())
    && rel_close(f.1 .0, rc(d), 1e-14, rc(d).abs())
    && rel_close(f.1 .1, rc(c), 1e-14, rc(c).abs())
    && f.0 .2 == nx
    && f.1 .2 == ny;
  let ok_sorted = !asc || (f.0 .0 <= f.0 .1 && f.1 .0 <= f.1 .1);
  ctx.s("C14.conv", ok_end && ok_sorted, "conv/wl-freq-endpoints", &format!("ws=({:e},{:e},{})x({:e},{:e},{})", a, b, nx, c, d, ny));
  let ok_rt = rel_close(back.0 .0, a, 1e-12, a.abs())
    && rel_close(back.0 .1, b, 1e-12, b.abs())
    && rel_close(back.1 .0, c, 1e-12, c.abs())
    && rel_close(back.1 .1, d, 1e-12, d.abs())
    && back.0 .2 == nx
    && back.1 .2 == ny;
  ctx.s("C14.conv", ok_rt, "conv/wl-freq-roundtrip", &format!("ws=({:e},{:e},{})x({:e},{:e},{})", a, b, nx, c, d, ny));
  // sum/diff: centre and counts preserved
  let cx = 0.5 * (f.0 .0 + f.0 .1);
  let cy = 0.5 * (f.1 .0 + f.1 .1);
  let sc = 0.5 * (sdr.0 .0 + sdr.0 .1);
  let dc = 0.5 * (sdr.1 .0 + sdr.1 .1);
  let scale = cx.abs().max(cy.abs());
  let ok_c = rel_close(sc - dc, cx, 1e-12, scale) && rel_close(sc + dc, cy, 1e-12, scale) && sdr.0 .2 == nx && sdr.1 .2 == ny;
  ctx.s("C14.conv", ok_c, "conv/sumdiff-centre", &format!("fs=({:e},{:e},{})x({:e},{:e},{})", f.0 .0, f.0 .1, nx, f.1 .0, f.1 .1, ny));
  // equal spans ⇒ round trip: build an equal-span frequency grid
  let span = f.0 .1 - f.0 .0;
  let fe = FrequencySpace::new(
    (f.0 .0 * RAD / S, f.0 .1 * RAD / S, nx),
    (f.1 .0 * RAD / S, (f.1 .0 + span) * RAD / S, ny),
  );
  let fer = raw_f(fe.steps());
  let rt = raw_f(fe.as_sum_diff_space().as_frequency_space().steps());
  let ok_sd = rel_close(rt.0 .0, fer.0 .0, 1e-12, scale)
    && rel_close(rt.0 .1, fer.0 .1, 1e-12, scale)
    && rel_close(rt.1 .0, fer.1 .0, 1e-12, scale)
    && rel_close(rt.1 .1, fer.1 .1, 1e-12, scale)
    && rt.0 .2 == nx
    && rt.1 .2 == ny;
  ctx.s("C14.conv", ok_sd, "conv/sumdiff-roundtrip-equal-span", &format!("fs=({:e},{:e})x({:e},+span)", fer.0 .0, fer.0 .1, fer.1 .0));
}

fn range_eval(ctx: &mut Ctx) {
  // implementation against itself: `*_range` == point-by-point == flat SI arrays
  let spdc = SPDC::default();
  let spectrum = spdc.joint_spectrum(Integrator::default());
  let shapes: &[(usize, usize)] = if ctx.thorough { &[(1, 1), (2, 3), (5, 4), (7, 7), (3, 9)] } else { &[(1, 1), (2, 3), (4, 3)] };
  for &(nx, ny) in shapes {
    let l0 = ctx.rng.range(1500e-9, 1540e-9);
    let l1 = ctx.rng.range(1560e-9, 1600e-9);
    let range = WavelengthSpace::new((l0 * M, l1 * M, nx), (l0 * M, l1 * M, ny));
    let jsi = spectrum.jsi_range(range);
    let jsa = spectrum.jsa_range(range);
    let sing = spectrum.jsi_singles_range(range);
    let pts: Vec<(Wavelength, Wavelength)> = range.as_steps().into_iter().collect();
    let mut ok = jsi.len() == nx * ny && jsa.len() == nx * ny && sing.len() == nx * ny;
    if ok {
      for (k, (ls, li)) in pts.iter().enumerate() {
        let ws = spdcalc::utils::vacuum_wavelength_to_frequency(*ls);
        let wi = spdcalc::utils::vacuum_wavelength_to_frequency(*li);
        if spectrum.jsi(ws, wi) != jsi[k] || spectrum.jsa(ws, wi) != jsa[k] || spectrum.jsi_singles(ws, wi) != sing[k] {
          ok = false;
        }
      }
    }
    ctx.s("C14.range", ok, "range/pointwise", &format!("nx={} ny={} l0={:e} l1={:e}", nx, ny, l0, l1));
    let flat: Vec<Wavelength> = pts.iter().flat_map(|(s, i)| [*s, *i]).collect();
    let jsi2 = spectrum.jsi_range(SignalIdlerWavelengthArray(flat));
    ctx.s("C14.range", jsi2 == jsi, "range/flat-wavelength-array", &format!("nx={} ny={}", nx, ny));
    let fflat: Vec<Frequency> = range
      .as_frequency_space()
      .as_steps()
      .into_iter()
      .flat_map(|(s, i)| [s, i])
      .collect();
    let jsi3 = spectrum.jsi_range(SignalIdlerFrequencyArray(fflat));
    let jsi4 = spectrum.jsi_range(range.as_frequency_space());
    ctx.s("C14.range", jsi3 == jsi4, "range/flat-frequency-array", &format!("nx={} ny={}", nx, ny));
    ctx.count("range/shapes");
  }
}
