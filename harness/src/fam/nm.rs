//! C04 (also C13, C20) — the bounded 1-D Nelder–Mead `spdcalc::math::nelder_mead_1d` on a family of
//! cost closures that the model driver implements identically (`lean/Spdc/Driver/NM.lean: costFam`)
use crate::common::*;
use spdcalc::math::nelder_mead_1d;
use std::cell::RefCell;

pub fn cost_fn(fam: &str, p1: f64, p2: f64, p3: f64) -> Box<dyn Fn(f64) -> f64> {
  match fam {
    "abs" => Box::new(move |x: f64| (x - p1).abs()),
    "sq" => Box::new(move |x: f64| (x - p1) * (x - p1)),
    "quart" => Box::new(move |x: f64| {
      let u = (x - p1) * (x - p1) - p2;
      u * u + p3 * x
    }),
    "stair" => Box::new(move |x: f64| ((x - p1) / p2).floor().abs() * p3),
    "recip" => Box::new(move |x: f64| (p1 - p2 / x).abs()),
    "const" => Box::new(move |_x: f64| p1),
    "nanabove" => Box::new(move |x: f64| if x > p1 { f64::NAN } else { (x - p2).abs() }),
    "infabove" => Box::new(move |x: f64| if x > p1 { f64::INFINITY } else { (x - p2) * (x - p2) }),
    _ => panic!("unknown cost family"),
  }
}

/// run the real optimiser with a logging closure; returns (result or None on panic, #calls, xor of the bits of the arguments)
pub fn run_logged(
  f: &dyn Fn(f64) -> f64,
  g: (f64, f64),
  max_iter: u64,
  lo: f64,
  hi: f64,
  tol: f64,
) -> (Option<f64>, usize, u64, Vec<(f64, f64)>) {
  let log: RefCell<Vec<(f64, f64)>> = RefCell::new(Vec::new());
  let r = guard(|| {
    nelder_mead_1d(
      |x| {
        let y = f(x);
        log.borrow_mut().push((x, y));
        y
      },
      g,
      max_iter,
      lo,
      hi,
      tol,
    )
  });
  let v = log.into_inner();
  let mut h = 0u64;
  for (x, _) in v.iter() {
    if !x.is_nan() {
      h ^= x.to_bits();
    }
  }
  (r, v.len(), h, v)
}

pub fn show(r: Option<f64>, n: usize, h: u64) -> String {
  match r {
    Some(x) => format!("{} {} h{:016x}", fl(x), n, h),
    None => "PANIC".into(),
  }
}

fn nm_case(ctx: &mut Ctx, fam: &str, p: (f64, f64, f64), g: (f64, f64), mi: u64, lo: f64, hi: f64, tol: f64) {
  let f = cost_fn(fam, p.0, p.1, p.2);
  let (r, n, h, log) = run_logged(&*f, g, mi, lo, hi, tol);
  let args = format!(
    "{} {} {} {} {} {} {} {} {} {}",
    fam,
    fl(p.0),
    fl(p.1),
    fl(p.2),
    fl(g.0),
    fl(g.1),
    mi,
    fl(lo),
    fl(hi),
    fl(tol)
  );
  ctx.k("nm1d", &args, &show(r, n, h));
  ctx.count(&format!("nm1d/{}", fam));
  ctx.count(&format!(
    "nm1d/outcome/{}",
    match r {
      None => "panic",
      Some(x) if x > hi || x < lo => "outside-bounds",
      Some(_) => "inside-bounds",
    }
  ));
  let seed_in = |x: f64| !(x > hi || x < lo);
  ctx.count(&format!(
    "nm1d/seeds/{}",
    match (seed_in(g.0), seed_in(g.1)) {
      (true, true) => "both-in",
      (false, false) => "both-out",
      _ => "one-in",
    }
  ));
  // the same case through the table interface (the cost is passed as recorded values)
  if log.len() <= 400 && log.iter().all(|(x, _)| !x.is_nan()) {
    let tbl: Vec<String> = log.iter().map(|(x, y)| format!("{} {}", fl(*x), fl(*y))).collect();
    ctx.k(
      "nm1d_tab",
      &format!("{} {} {} {} {} {} {}", fl(g.0), fl(g.1), mi, fl(lo), fl(hi), fl(tol), tbl.join(" ")),
      &show(r, n, h),
    );
  }

}

fn gen_seed(r: &mut Rng, lo: f64, hi: f64) -> f64 {
  match r.below(10) {
    0 => lo,
    1 => hi,
    2 => hi + (hi - lo) * r.range(0.0, 2.0) + 1e-9,
    3 => lo - (hi - lo) * r.range(0.0, 2.0) - 1e-9,
    _ => r.range(lo, hi),
  }
}

pub fn run(ctx: &mut Ctx) {
  let fams = ["abs", "sq", "quart", "stair", "recip", "const", "infabove", "nanabove"];
  let tols = [0.0, 1e-12, 1e-6, 1e-3, 0.5];
  let iters = [0u64, 1, 2, 3, 10, 100, 1000];

  // the shapes used by the crate itself
  let z = 123456.789;
  let g = std::f64::consts::TAU / z;
  nm_case(ctx, "recip", (z, std::f64::consts::TAU, 0.0), (g, g + 1e-6), 1000, f64::MIN_POSITIVE, 0.01, 1e-12);
  nm_case(ctx, "recip", (z, std::f64::consts::TAU, 0.0), (g, g + 1e-6), 1000, f64::MIN_POSITIVE, g * 0.5, 1e-12);
  nm_case(ctx, "abs", (0.7, 0.0, 0.0), (std::f64::consts::PI / 6., std::f64::consts::PI / 6. + 1.), 1000, 0., std::f64::consts::FRAC_PI_2, 1e-6);
  nm_case(ctx, "abs", (0.0, 0.0, 0.0), (0., 1.), 100, 0., std::f64::consts::FRAC_PI_2, 1e-12);
  // degenerate seeds
  nm_case(ctx, "sq", (0.3, 0.0, 0.0), (0.5, 0.5), 50, 0., 1., 1e-9);
  nm_case(ctx, "const", (1.0, 0.0, 0.0), (0.2, 0.4), 50, 0., 1., 1e-9);
  nm_case(ctx, "abs", (0.3, 0.0, 0.0), (f64::NAN, 0.5), 5, 0., 1., 1e-9);
  nm_case(ctx, "abs", (0.3, 0.0, 0.0), (2.0, 3.0), 50, 0., 1., 1e-9);

  for _ in 0..ctx.n {
    let fam = *ctx.rng.pick(&fams);
    let (lo, hi) = match ctx.rng.below(4) {
      0 => (0.0, std::f64::consts::FRAC_PI_2),
      1 => (f64::MIN_POSITIVE, ctx.rng.log_range(1e-4, 3e-2)),
      2 => {
        let a = ctx.rng.range(-5.0, 5.0);
        (a, a + ctx.rng.log_range(1e-3, 10.0))
      }
      _ => (0.0, ctx.rng.log_range(1e9, 1e14)),
    };
    let w = hi - lo;
    let p1 = match ctx.rng.below(5) {
      0 => lo,
      1 => hi,
      2 => hi + w * ctx.rng.range(0.0, 1.0),
      _ => ctx.rng.range(lo, hi),
    };
    let (p2, p3) = match fam {
      "quart" => (sq(w * ctx.rng.range(0.05, 0.4)), ctx.rng.range(-1.0, 1.0) * w * w * w * 0.05),
      "stair" => (w * ctx.rng.range(0.01, 0.3), ctx.rng.range(0.1, 10.0)),
      "recip" => (ctx.rng.log_range(1e-3, 1e3), 0.0),
      "nanabove" | "infabove" => (ctx.rng.range(lo, hi), 0.0),
      _ => (0.0, 0.0),
    };
    let g0 = gen_seed(&mut ctx.rng, lo, hi);
    let g1 = match ctx.rng.below(4) {
      0 => g0 + 1e-6,
      1 => g0 + 1.0,
      2 => g0 + w * ctx.rng.range(-0.5, 0.5),
      _ => gen_seed(&mut ctx.rng, lo, hi),
    };
    let mi = *ctx.rng.pick(&iters);
    let tol = *ctx.rng.pick(&tols);
    nm_case(ctx, fam, (p1, p2, p3), (g0, g1), mi, lo, hi, tol);
  }
}

fn sq(x: f64) -> f64 {
  x * x
}
