//! C16 / C17 — configuration ⇄ setup: descriptor protocol, round trip, auto = explicit, error classes
//! extra arg: `valid` (C16 stream, default) | `malformed` (C17 stream)
use crate::common::*;
use crate::fam::pmtype::pm_index;
use serde_json::{json, Map, Value};
use spdcalc::beam::Beam;
use spdcalc::dim::ucum::{DEG, M, RAD, S};
use spdcalc::prelude::*;
use spdcalc::{
  optimum_poling_period, Apodization, ApodizationConfig, AutoCalcParam, CrystalSetup, PeriodicPoling,
  PeriodicPolingConfig, Sign,
};

// ------------------------------------------------------------------------------------------------
// wire forms shared with the sweep family

pub const CRYSTAL_IDS: [&str; 11] = [
  "BBO_1", "KTP", "BiBO_1", "LiNbO3_1", "LiNb_MgO", "KDP_1", "AgGaSe2_1", "AgGaSe2_2", "LiIO3_2", "LiIO3_1", "AgGaS2_1",
];
/// transmission windows in nm (the crate's META table; LiNbO3_1 as documented, 400–3400 nm)
pub const WINDOWS_NM: [(f64, f64); 11] = [
  (189., 3500.),
  (350., 3500.),
  (286., 2500.),
  (400., 3400.),
  (440., 4000.),
  (200., 1500.),
  (1000., 13500.),
  (1000., 13500.),
  (300., 5000.),
  (300., 5000.),
  (500., 13000.),
];

pub fn crystal_index(c: &CrystalType) -> usize {
  let id = c.get_meta().id;
  CRYSTAL_IDS.iter().position(|x| *x == id).unwrap_or(99)
}

pub fn pol_tok(p: PolarizationType) -> &'static str {
  match p {
    PolarizationType::Ordinary => "o",
    PolarizationType::Extraordinary => "e",
  }
}

pub fn beam_tokens(b: &Beam) -> String {
  format!(
    "{} {} {} {} {} {}",
    pol_tok(b.polarization()),
    fl(b.phi().value_unsafe),
    fl(b.theta_internal().value_unsafe),
    fl(b.frequency().value_unsafe),
    fl(b.waist().x.value_unsafe),
    fl(b.waist().y.value_unsafe)
  )
}

fn apod_tokens_raw(kind: &str, params: &[f64], list: bool) -> String {
  if list {
    format!("{} {} {}", kind, params.len(), fls(params)).trim_end().to_string()
  } else if params.is_empty() {
    kind.to_string()
  } else {
    format!("{} {}", kind, fls(params))
  }
}

pub fn apod_tokens(a: &Apodization) -> String {
  match a {
    Apodization::Off => apod_tokens_raw("off", &[], false),
    Apodization::Gaussian { fwhm } => apod_tokens_raw("gaussian", &[fwhm.value_unsafe], false),
    Apodization::Bartlett(x) => apod_tokens_raw("bartlett", &[*x], false),
    Apodization::Blackman(x) => apod_tokens_raw("blackman", &[*x], false),
    Apodization::Connes(x) => apod_tokens_raw("connes", &[*x], false),
    Apodization::Cosine(x) => apod_tokens_raw("cosine", &[*x], false),
    Apodization::Hamming(x) => apod_tokens_raw("hamming", &[*x], false),
    Apodization::Welch(x) => apod_tokens_raw("welch", &[*x], false),
    Apodization::Interpolate(v) => apod_tokens_raw("interpolate", v, true),
  }
}

pub fn apod_cfg_tokens(a: &ApodizationConfig) -> String {
  match a {
    ApodizationConfig::Off => apod_tokens_raw("off", &[], false),
    ApodizationConfig::Gaussian { fwhm_um } => apod_tokens_raw("gaussian", &[*fwhm_um], false),
    ApodizationConfig::Bartlett(x) => apod_tokens_raw("bartlett", &[*x], false),
    ApodizationConfig::Blackman(x) => apod_tokens_raw("blackman", &[*x], false),
    ApodizationConfig::Connes(x) => apod_tokens_raw("connes", &[*x], false),
    ApodizationConfig::Cosine(x) => apod_tokens_raw("cosine", &[*x], false),
    ApodizationConfig::Hamming(x) => apod_tokens_raw("hamming", &[*x], false),
    ApodizationConfig::Welch(x) => apod_tokens_raw("welch", &[*x], false),
    ApodizationConfig::Interpolate(v) => apod_tokens_raw("interpolate", v, true),
  }
}

pub fn poling_tokens(pp: &PeriodicPoling) -> String {
  match pp {
    PeriodicPoling::Off => "O".to_string(),
    PeriodicPoling::On { period, sign, apodization } => format!(
      "P {} {} {}",
      fl(period.value_unsafe),
      if *sign == Sign::NEGATIVE { 1 } else { 0 },
      apod_tokens(apodization)
    ),
  }
}

/// raw values of an `SPDC` (metres, radians, rad/s, kelvin, mW, m/mV)
pub fn setup_tokens(s: &SPDC) -> String {
  let c = &s.crystal_setup;
  format!(
    "{} {} {} {} {} {} {} {} {} {} {} {} {} {} {} {} {}",
    crystal_index(&c.crystal),
    pm_index(c.pm_type),
    fl(c.phi.value_unsafe),
    fl(c.theta.value_unsafe),
    fl(c.length.value_unsafe),
    fl(c.temperature.value_unsafe),
    c.counter_propagation as u8,
    beam_tokens(&s.signal),
    beam_tokens(&s.idler),
    beam_tokens(&s.pump),
    fl(s.pump_bandwidth.value_unsafe),
    fl(s.pump_average_power.value_unsafe),
    fl(s.pump_spectrum_threshold),
    fl(s.signal_waist_position.value_unsafe),
    fl(s.idler_waist_position.value_unsafe),
    fl(s.deff.value_unsafe),
    poling_tokens(&s.pp)
  )
}

fn auto_tok(a: &AutoCalcParam<f64>) -> String {
  match a {
    AutoCalcParam::Auto(_) => "A".into(),
    AutoCalcParam::Param(x) => fl(*x),
  }
}
fn opt_tok(a: &Option<f64>) -> String {
  match a {
    None => "-".into(),
    Some(x) => fl(*x),
  }
}

/// Token of a ROUNDED configuration field next to the unrounded physical value it was rounded from.
/// Normally the rounded value itself (compared exactly / to a few ulp).  When the unrounded value
/// sits on a rounding tie (x.xxxx5) to within 1e-11 relative, a last-ulp difference between the
/// implementation's and the model's unrounded value legitimately flips the 4th decimal: the token then
/// names the tie point (`tie:<2k+1>` in units of half a 4th decimal), so both sides must agree on the
/// unrounded value to ~1e-11 and either neighbour is an acceptable rounding.  A rounded value that is
/// neither neighbour is printed as it is (and will disagree).
pub fn rtok(rounded: f64, unrounded: f64, wraps: bool) -> String {
  let y = unrounded * 1e4;
  let f = y.floor();
  let d = (y - f - 0.5).abs();
  if d <= 1e-11 * y.abs().max(1.0) {
    let r = (rounded * 1e4).round();
    if r == f || r == f + 1.0 || (wraps && f + 1.0 == 3_600_000.0 && r == 0.0) {
      return format!("tie:{}", fl(2.0 * f + 1.0));
    }
  }
  fl(rounded)
}

/// the numeric fields of an `SPDCConfig` in its own units; `s` = the setup it is the configuration of
pub fn config_tokens(c: &SPDCConfig, s: &SPDC) -> String {
  let deg = DEG.value_unsafe;
  let cs = &s.crystal_setup;
  let auto_r = |a: &AutoCalcParam<f64>, u: f64| match a {
    AutoCalcParam::Auto(_) => "A".to_string(),
    AutoCalcParam::Param(x) => rtok(*x, u, false),
  };
  let opt_r = |a: &Option<f64>, u: f64| match a {
    None => "-".to_string(),
    Some(x) => rtok(*x, u, false),
  };
  let idler = match &c.idler {
    AutoCalcParam::Auto(_) => "A".to_string(),
    AutoCalcParam::Param(i) => format!(
      "I {} {} {} {} {} {}",
      rtok(i.wavelength_nm, s.idler.vacuum_wavelength().value_unsafe / 1e-9, false),
      rtok(i.phi_deg, s.idler.phi().value_unsafe / deg, true),
      opt_r(&i.theta_deg, s.idler.theta_internal().value_unsafe / deg),
      opt_tok(&i.theta_external_deg),
      rtok(i.waist_um, s.idler.waist().x.value_unsafe / 1e-6, false),
      auto_r(&i.waist_position_um, s.idler_waist_position.value_unsafe / 1e-6)
    ),
  };
  let poling = match (&c.periodic_poling, &s.pp) {
    (PeriodicPolingConfig::Off, _) => "O".to_string(),
    (PeriodicPolingConfig::Config { poling_period_um, apodization }, PeriodicPoling::On { period, apodization: sa, .. }) => {
      let ap = match (apodization, sa) {
        (ApodizationConfig::Gaussian { fwhm_um }, Apodization::Gaussian { fwhm }) => {
          format!("gaussian {}", rtok(*fwhm_um, fwhm.value_unsafe / 1e-6, false))
        }
        _ => apod_cfg_tokens(apodization),
      };
      format!("P {} {}", auto_r(poling_period_um, period.value_unsafe / 1e-6), ap)
    }
    (PeriodicPolingConfig::Config { poling_period_um, apodization }, _) => {
      format!("P {} {}", auto_tok(poling_period_um), apod_cfg_tokens(apodization))
    }
  };
  format!(
    "{} {} {} {} {} {} {} {} {} {} {} {} {} {} {} {} {} {} {} {} {}",
    crystal_index(&c.crystal.kind),
    pm_index(c.crystal.pm_type),
    rtok(c.crystal.phi_deg, cs.phi.value_unsafe / deg, false),
    auto_r(&c.crystal.theta_deg, cs.theta.value_unsafe / deg),
    rtok(c.crystal.length_um, cs.length.value_unsafe / 1e-6, false),
    rtok(c.crystal.temperature_c, cs.temperature.value_unsafe - 273.15, false),
    c.crystal.counter_propagation as u8,
    rtok(c.pump.wavelength_nm, s.pump.vacuum_wavelength().value_unsafe / 1e-9, false),
    rtok(c.pump.waist_um, s.pump.waist().x.value_unsafe / 1e-6, false),
    rtok(c.pump.bandwidth_nm, s.pump_bandwidth.value_unsafe / 1e-9, false),
    rtok(c.pump.average_power_mw, s.pump_average_power.value_unsafe / 1.0, false),
    opt_tok(&c.pump.spectrum_threshold),
    rtok(c.signal.wavelength_nm, s.signal.vacuum_wavelength().value_unsafe / 1e-9, false),
    rtok(c.signal.phi_deg, s.signal.phi().value_unsafe / deg, true),
    opt_r(&c.signal.theta_deg, s.signal.theta_internal().value_unsafe / deg),
    opt_tok(&c.signal.theta_external_deg),
    rtok(c.signal.waist_um, s.signal.waist().x.value_unsafe / 1e-6, false),
    auto_r(&c.signal.waist_position_um, s.signal_waist_position.value_unsafe / 1e-6),
    rtok(c.deff_pm_per_volt, s.deff.value_unsafe / (1e-12 / 1000.0), false),
    idler,
    poling
  )
}

/// flat map  json-path → value  of a config (for "differs only in the named field")
pub fn flatten(prefix: &str, v: &Value, out: &mut Vec<(String, Value)>) {
  match v {
    Value::Object(m) => {
      for (k, x) in m {
        let p = if prefix.is_empty() { k.clone() } else { format!("{}.{}", prefix, k) };
        flatten(&p, x, out);
      }
    }
    _ => out.push((prefix.to_string(), v.clone())),
  }
}

// ------------------------------------------------------------------------------------------------
// panic sites: the family records where the last panic happened (file:line of the panic location)

static LAST_PANIC: std::sync::Mutex<String> = std::sync::Mutex::new(String::new());

pub fn record_panic_sites() {
  let verbose = std::env::var("VERIF_PANIC_LOG").is_ok();
  let _ = std::panic::take_hook();
  std::panic::set_hook(Box::new(move |info| {
    let loc = info.location().map(|l| format!("{}:{}", l.file(), l.line())).unwrap_or_default();
    if verbose {
      eprintln!("panic: {}", info.to_string().lines().take(3).collect::<Vec<_>>().join(" / "));
    }
    if let Ok(mut g) = LAST_PANIC.lock() {
      *g = loc;
    }
  }));
}

pub fn clear_panic_site() {
  if let Ok(mut g) = LAST_PANIC.lock() {
    g.clear();
  }
}

/// true when the last recorded panic was the `unwrap()` of argmin's error in `nelder_mead_1d`
/// (NaN / infinite costs at every vertex: "Reached unreachable point")
pub fn last_panic_in_nelder_mead() -> bool {
  LAST_PANIC.lock().map(|g| g.contains("math/nelder_mead.rs")).unwrap_or(false)
}

// ------------------------------------------------------------------------------------------------
// descriptors

#[derive(Clone, Debug)]
pub enum AutoV {
  Absent,
  Auto,
  Val(f64),
}

#[derive(Clone, Debug)]
pub enum ApodD {
  Off,
  Gaussian(f64),
  Named(&'static str, f64),
  Interpolate(Vec<f64>),
}

#[derive(Clone, Debug)]
pub enum PolingD {
  Absent,
  Off,
  Cfg { period: AutoV, apod: Option<ApodD> },
}

#[derive(Clone, Debug)]
pub struct BeamD {
  pub wl: f64,
  pub phi: Option<f64>,
  pub theta: Option<f64>,
  pub theta_e: Option<f64>,
  pub waist: f64,
  pub wpos: AutoV,
}

#[derive(Clone, Debug)]
pub enum IdlerD {
  Absent,
  Auto,
  Cfg(BeamD),
}

/// how each string-valued "auto" field is spelled in the JSON (the canonical spelling is "auto"; the
/// deserialiser takes ANY string in these places as an auto request: `AutoCalcParam::Auto(String)`)
#[derive(Clone, Debug)]
pub struct AutoSp {
  pub theta: String,
  pub s_wpos: String,
  pub idler: String,
  pub i_wpos: String,
  pub period: String,
}
impl Default for AutoSp {
  fn default() -> Self {
    AutoSp { theta: "auto".into(), s_wpos: "auto".into(), idler: "auto".into(), i_wpos: "auto".into(), period: "auto".into() }
  }
}
impl AutoSp {
  pub fn all(sp: &str) -> Self {
    AutoSp { theta: sp.into(), s_wpos: sp.into(), idler: sp.into(), i_wpos: sp.into(), period: sp.into() }
  }
}

/// spellings of an auto request other than the canonical one: capitalisations, the empty string, arbitrary
/// words, strings that look like other JSON values
pub const AUTO_SPELLINGS: [&str; 12] = ["auto", "Auto", "AUTO", "automatic", "", " auto", "a", "null", "0", "12.5", "off", "Param"];

#[derive(Clone, Debug)]
pub struct Desc {
  pub auto_sp: AutoSp,
  pub kind: usize,
  pub pm: usize,
  pub pm_spelling: String,
  pub c_phi: Option<f64>,
  pub c_theta: AutoV,
  pub length: f64,
  pub temp: f64,
  pub cp: Option<bool>,
  pub p_wl: f64,
  pub p_waist: f64,
  pub p_bw: f64,
  pub p_power: f64,
  pub p_thr: Option<f64>,
  pub signal: BeamD,
  pub idler: IdlerD,
  pub poling: PolingD,
  pub deff: f64,
}

fn num(x: f64) -> Value {
  // integral values are written as JSON integers now and then (as in the crate's own examples)
  if x.fract() == 0.0 && x.abs() < 1e15 && (x.to_bits() >> 3) & 1 == 0 && !(x == 0.0 && x.is_sign_negative()) {
    json!(x as i64)
  } else {
    json!(x)
  }
}

fn auto_json(m: &mut Map<String, Value>, key: &str, a: &AutoV, sp: &str) {
  match a {
    AutoV::Absent => {}
    AutoV::Auto => {
      m.insert(key.into(), json!(sp));
    }
    AutoV::Val(x) => {
      m.insert(key.into(), num(*x));
    }
  }
}
fn opt_json(m: &mut Map<String, Value>, key: &str, a: &Option<f64>) {
  if let Some(x) = a {
    m.insert(key.into(), num(*x));
  }
}

fn beam_json(b: &BeamD, sp: &str) -> Value {
  let mut m = Map::new();
  m.insert("wavelength_nm".into(), num(b.wl));
  opt_json(&mut m, "phi_deg", &b.phi);
  opt_json(&mut m, "theta_deg", &b.theta);
  opt_json(&mut m, "theta_external_deg", &b.theta_e);
  m.insert("waist_um".into(), num(b.waist));
  auto_json(&mut m, "waist_position_um", &b.wpos, sp);
  Value::Object(m)
}

fn apod_json(a: &ApodD) -> Value {
  match a {
    ApodD::Off => json!({"kind": "off"}),
    ApodD::Gaussian(f) => json!({"kind": "Gaussian", "parameter": {"fwhm_um": num(*f)}}),
    ApodD::Named(k, x) => json!({"kind": k, "parameter": num(*x)}),
    ApodD::Interpolate(v) => json!({"kind": "Interpolate", "parameter": v}),
  }
}

impl Desc {
  pub fn json(&self) -> Value {
    let mut c = Map::new();
    c.insert("kind".into(), json!(CRYSTAL_IDS[self.kind]));
    c.insert("pm_type".into(), json!(self.pm_spelling));
    opt_json(&mut c, "phi_deg", &self.c_phi);
    auto_json(&mut c, "theta_deg", &self.c_theta, &self.auto_sp.theta);
    c.insert("length_um".into(), num(self.length));
    c.insert("temperature_c".into(), num(self.temp));
    if let Some(b) = self.cp {
      c.insert("counter_propagation".into(), json!(b));
    }
    let mut p = Map::new();
    p.insert("wavelength_nm".into(), num(self.p_wl));
    p.insert("waist_um".into(), num(self.p_waist));
    p.insert("bandwidth_nm".into(), num(self.p_bw));
    p.insert("average_power_mw".into(), num(self.p_power));
    opt_json(&mut p, "spectrum_threshold", &self.p_thr);
    let mut top = Map::new();
    top.insert("crystal".into(), Value::Object(c));
    top.insert("pump".into(), Value::Object(p));
    top.insert("signal".into(), beam_json(&self.signal, &self.auto_sp.s_wpos));
    match &self.idler {
      IdlerD::Absent => {}
      IdlerD::Auto => {
        top.insert("idler".into(), json!(self.auto_sp.idler));
      }
      IdlerD::Cfg(b) => {
        top.insert("idler".into(), beam_json(b, &self.auto_sp.i_wpos));
      }
    }
    match &self.poling {
      PolingD::Absent => {}
      PolingD::Off => {
        top.insert("periodic_poling".into(), Value::Null);
      }
      PolingD::Cfg { period, apod } => {
        let mut m = Map::new();
        auto_json(&mut m, "poling_period_um", period, &self.auto_sp.period);
        if let Some(a) = apod {
          m.insert("apodization".into(), apod_json(a));
        }
        top.insert("periodic_poling".into(), Value::Object(m));
      }
    }
    top.insert("deff_pm_per_volt".into(), num(self.deff));
    Value::Object(top)
  }

  /// key=value tokens for the model driver (absent fields are omitted)
  pub fn tokens(&self) -> String {
    let t: std::cell::RefCell<Vec<String>> = std::cell::RefCell::new(vec![]);
    let kv = |k: &str, v: String| t.borrow_mut().push(format!("{}={}", k, v));
    let auto = |a: &AutoV| match a {
      AutoV::Absent => None,
      AutoV::Auto => Some("A".to_string()),
      AutoV::Val(x) => Some(fl(*x)),
    };
    kv("c.kind", self.kind.to_string());
    kv("c.pm", self.pm.to_string());
    if let Some(x) = self.c_phi {
      kv("c.phi", fl(x));
    }
    if let Some(x) = auto(&self.c_theta) {
      kv("c.theta", x);
    }
    kv("c.len", fl(self.length));
    kv("c.temp", fl(self.temp));
    if let Some(b) = self.cp {
      kv("c.cp", (b as u8).to_string());
    }
    kv("p.wl", fl(self.p_wl));
    kv("p.waist", fl(self.p_waist));
    kv("p.bw", fl(self.p_bw));
    kv("p.power", fl(self.p_power));
    if let Some(x) = self.p_thr {
      kv("p.thr", fl(x));
    }
    let beam = |pre: &str, b: &BeamD| {
      kv(&format!("{}.wl", pre), fl(b.wl));
      if let Some(x) = b.phi {
        kv(&format!("{}.phi", pre), fl(x));
      }
      if let Some(x) = b.theta {
        kv(&format!("{}.theta", pre), fl(x));
      }
      if let Some(x) = b.theta_e {
        kv(&format!("{}.thetae", pre), fl(x));
      }
      kv(&format!("{}.waist", pre), fl(b.waist));
      if let Some(x) = auto(&b.wpos) {
        kv(&format!("{}.wpos", pre), x);
      }
    };
    beam("s", &self.signal);
    match &self.idler {
      IdlerD::Absent => {}
      IdlerD::Auto => kv("idler", "A".into()),
      IdlerD::Cfg(b) => {
        kv("idler", "I".into());
        beam("i", b);
      }
    }
    match &self.poling {
      PolingD::Absent => {}
      PolingD::Off => kv("pp", "O".into()),
      PolingD::Cfg { period, apod } => {
        kv("pp", "P".into());
        if let Some(x) = auto(period) {
          kv("pp.period", x);
        }
        if let Some(a) = apod {
          let s = match a {
            ApodD::Off => "off".to_string(),
            ApodD::Gaussian(f) => format!("gaussian,{}", fl(*f)),
            ApodD::Named(k, x) => format!("{},{}", k.to_lowercase(), fl(*x)),
            ApodD::Interpolate(v) => {
              let mut s = format!("interpolate,{}", v.len());
              for x in v {
                s.push(',');
                s.push_str(&fl(*x));
              }
              s
            }
          };
          kv("pp.apod", s);
        }
      }
    }
    kv("deff", fl(self.deff));
    let out = t.borrow().join(" ");
    out
  }
}

// ------------------------------------------------------------------------------------------------
// generators

const SPELLINGS: [&[&str]; 5] = [
  &["Type0_o_oo", "ooo", "o-oo", "type 0 o->oo", "Type_0_o_oo", "O OO"],
  &["Type0_e_ee", "eee", "e-ee", "type0 e ee", "e->ee"],
  &["Type1_e_oo", "e oo", "eoo", "type 1 e->oo", "Type_1_e_oo"],
  &["Type2_e_eo", "e->eo", "Type2 e eo", "type 2 e->eo", "Type_2_e_eo", "eeo"],
  &["Type2_e_oe", "e->oe", "type2_e_oe", "Type 2 e oe", "eoe"],
];
const APOD_NAMES: [&str; 6] = ["Bartlett", "Blackman", "Connes", "Cosine", "Hamming", "Welch"];

/// a value with at most `d` decimals (so that JSON text and 4-decimal rounding are exact)
fn dec(r: &mut Rng, lo: f64, hi: f64, d: i32) -> f64 {
  let s = 10f64.powi(d);
  (r.range(lo, hi) * s).round() / s
}

fn gen_apod(r: &mut Rng) -> Option<ApodD> {
  match r.below(8) {
    0 => None,
    1 => Some(ApodD::Off),
    2 | 3 => Some(ApodD::Gaussian(dec(r, 200., 5000., 2))),
    4 | 5 | 6 => Some(ApodD::Named(APOD_NAMES[r.below(6)], dec(r, 0.5, 3.0, 3))),
    _ => {
      let n = r.between(0, 6);
      Some(ApodD::Interpolate((0..n).map(|_| dec(r, 0.0, 1.0, 3)).collect()))
    }
  }
}

/// hand-made interpolation tables: the shapes real profiles have — runs of bit-equal neighbours
/// (zero padding, flat tops, steps, staircases), constant / single-sample / empty tables, long
/// sampled profiles, signed zeros — next to ramps and random tables without equal neighbours
pub fn gen_interp_table(r: &mut Rng) -> (Vec<f64>, &'static str) {
  let shape = r.below(14);
  interp_table_of_shape(r, shape)
}

pub const INTERP_SHAPES: usize = 14;

pub fn interp_table_of_shape(r: &mut Rng, shape: usize) -> (Vec<f64>, &'static str) {
  match shape {
    0 => (vec![], "empty"),
    1 => (vec![dec(r, 0.0, 1.0, 3)], "single"),
    2 => {
      let n = r.between(2, 40);
      (vec![*r.pick(&[0.0, 1.0, 0.5, 0.731]); n], "constant")
    }
    3 => {
      // zero padding, ramp, flat top, ramp, zero padding
      let (pad, top, ramp) = (r.between(1, 6), r.between(2, 12), r.between(0, 4));
      let mut v = vec![0.0; pad];
      for k in 0..ramp {
        v.push(((k + 1) as f64 / (ramp + 1) as f64 * 1e3).round() / 1e3);
      }
      v.extend(vec![1.0; top]);
      for k in (0..ramp).rev() {
        v.push(((k + 1) as f64 / (ramp + 1) as f64 * 1e3).round() / 1e3);
      }
      v.extend(vec![0.0; pad]);
      (v, "padded-flat-top")
    }
    4 => {
      let (a, b) = (r.between(1, 8), r.between(1, 8));
      let (lo, hi) = if r.coin() { (0.0, 1.0) } else { (1.0, 0.0) };
      let mut v = vec![lo; a];
      v.extend(vec![hi; b]);
      (v, "step")
    }
    5 => {
      let n = r.between(1, 5);
      let mut v = vec![];
      for _ in 0..n {
        let x = dec(r, 0.0, 1.0, 3);
        v.push(x);
        v.push(x);
      }
      (v, "repeated-pairs")
    }
    6 => {
      let n = r.between(2, 6);
      let mut v = vec![];
      for _ in 0..n {
        let x = dec(r, 0.0, 1.0, 2);
        for _ in 0..r.between(1, 4) {
          v.push(x);
        }
      }
      (v, "staircase")
    }
    7 => {
      let n = r.between(2, 30);
      ((0..n).map(|k| (k as f64 / (n - 1) as f64 * 1e4).round() / 1e4).collect(), "ramp")
    }
    8 => {
      // random, one neighbouring pair forced equal
      let n = r.between(3, 12);
      let mut v: Vec<f64> = (0..n).map(|_| dec(r, 0.0, 1.0, 3)).collect();
      let k = r.below(n - 1);
      v[k + 1] = v[k];
      (v, "random-one-equal-pair")
    }
    9 => {
      // a sampled bell, clipped: long runs of zeros at both ends and of ones in the middle
      let n = *r.pick(&[33usize, 64, 101, 256, 257]);
      let w = r.range(0.15, 0.6);
      let v = (0..n)
        .map(|k| {
          let z = -1.0 + 2.0 * k as f64 / (n - 1) as f64;
          ((1.3 * (-0.5 * (z / w).powi(2)).exp() - 0.05).clamp(0.0, 1.0) * 1e2).round() / 1e2
        })
        .collect();
      (v, "sampled-bell-clipped")
    }
    10 => (vec![0.0, -0.0, 0.0, 0.5, 1.0, 1.0, 0.5, -0.0, 0.0], "signed-zeros"),
    11 => {
      // palindrome with an equal centre pair
      let n = r.between(1, 6);
      let h: Vec<f64> = (0..n).map(|_| dec(r, 0.0, 1.0, 3)).collect();
      let mut v = h.clone();
      v.extend(h.iter().rev());
      (v, "palindrome")
    }
    12 => {
      // equal values that are NOT neighbours (and an alternating pattern)
      let (a, b) = (dec(r, 0.0, 1.0, 3), dec(r, 0.0, 1.0, 3));
      let n = r.between(3, 9);
      ((0..n).map(|k| if k % 2 == 0 { a } else { b }).collect(), "alternating")
    }
    _ => {
      let n = r.between(2, 12);
      ((0..n).map(|_| dec(r, 0.0, 1.0, 3)).collect(), "random")
    }
  }
}

/// replace the apodization of a poled descriptor by a hand-made interpolation table
pub fn structure_apod(r: &mut Rng, d: &mut Desc) -> Option<&'static str> {
  if let PolingD::Cfg { apod, .. } = &mut d.poling {
    let (v, shape) = gen_interp_table(r);
    *apod = Some(ApodD::Interpolate(v));
    Some(shape)
  } else {
    None
  }
}

/// a mostly valid configuration: wavelengths inside the crystal's window, λs > λp
pub fn gen_valid(r: &mut Rng) -> Desc {
  let kind = if r.below(3) == 0 { r.below(2) } else { r.below(11) };
  let (wlo, whi) = WINDOWS_NM[kind];
  let pm = r.below(5);
  let pm_spelling = SPELLINGS[pm][r.below(SPELLINGS[pm].len())].to_string();
  // degenerate-ish down conversion inside the window: λs, λi ≥ wlo and ≤ whi
  let mut p_wl;
  let mut s_wl;
  let mut tries = 0;
  loop {
    p_wl = dec(r, wlo.max(200.), (whi / 2.0).min(1600.), 1);
    let degenerate = 2.0 * p_wl;
    s_wl = if r.below(3) == 0 { degenerate } else { dec(r, degenerate * 0.8, degenerate * 1.25, 2) };
    let i_wl = s_wl * p_wl / (s_wl - p_wl);
    tries += 1;
    if (s_wl > p_wl && s_wl >= wlo && s_wl <= whi && i_wl >= wlo && i_wl <= whi && p_wl >= wlo) || tries > 50 {
      break;
    }
  }
  let poling = match r.below(6) {
    0 => PolingD::Absent,
    1 => PolingD::Off,
    2 | 3 => PolingD::Cfg { period: AutoV::Auto, apod: gen_apod(r) },
    _ => PolingD::Cfg { period: AutoV::Val(dec(r, 2., 200., 3) * if r.below(5) == 0 { -1.0 } else { 1.0 }), apod: gen_apod(r) },
  };
  let poling_on = matches!(poling, PolingD::Cfg { .. });
  let c_theta = if poling_on {
    AutoV::Val(*r.pick(&[0., 90., 45., 30.5, 12.3456, 62.25]))
  } else {
    match r.below(4) {
      0 => AutoV::Absent,
      1 => AutoV::Auto,
      _ => AutoV::Val(dec(r, 0., 90., 4)),
    }
  };
  let theta_small = |r: &mut Rng| match r.below(4) {
    0 => 0.0,
    1 => dec(r, 0., 1., 4),
    _ => dec(r, 0., 6., 3),
  };
  let (s_theta, s_theta_e) = if r.coin() { (Some(theta_small(r)), None) } else { (None, Some(theta_small(r))) };
  let signal = BeamD {
    wl: s_wl,
    phi: if r.below(3) == 0 { None } else { Some(if r.coin() { 0.0 } else { dec(r, 0., 359.9, 2) }) },
    theta: s_theta,
    theta_e: s_theta_e,
    waist: dec(r, 20., 400., 2),
    wpos: match r.below(3) {
      0 => AutoV::Absent,
      1 => AutoV::Auto,
      _ => AutoV::Val(dec(r, -2000., 2000., 2)),
    },
  };
  let idler = match r.below(5) {
    0 => IdlerD::Absent,
    1 | 2 => IdlerD::Auto,
    _ => {
      let i_wl = s_wl * p_wl / (s_wl - p_wl);
      let (t, te) = if r.coin() { (Some(theta_small(r)), None) } else { (None, Some(theta_small(r))) };
      IdlerD::Cfg(BeamD {
        wl: (i_wl * 100.).round() / 100.,
        phi: if r.below(3) == 0 { None } else { Some(dec(r, 0., 359.9, 2)) },
        theta: t,
        theta_e: te,
        waist: dec(r, 20., 400., 2),
        wpos: match r.below(3) {
          0 => AutoV::Absent,
          1 => AutoV::Auto,
          _ => AutoV::Val(dec(r, -2000., 2000., 2)),
        },
      })
    }
  };
  Desc {
    auto_sp: AutoSp::default(),
    kind,
    pm,
    pm_spelling,
    c_phi: if r.below(3) == 0 { None } else { Some(if r.coin() { 0.0 } else { dec(r, 0., 90., 3) }) },
    c_theta,
    length: dec(r, 100., 30000., 1),
    temp: dec(r, 0., 150., 2),
    cp: match r.below(6) {
      0 => Some(true),
      1 => Some(false),
      _ => None,
    },
    p_wl,
    p_waist: dec(r, 20., 500., 2),
    p_bw: dec(r, 0.01, 20., 3),
    p_power: dec(r, 0.1, 500., 2),
    p_thr: match r.below(4) {
      0 => None,
      1 => Some(1e-2),
      _ => Some(*r.pick(&[1e-3, 0.05, 0.2, 2.5e-2, 0.013579, 1e-4])),
    },
    signal,
    idler,
    poling,
    deff: dec(r, 0.1, 20., 3),
  }
}

/// spread the magnitudes of a valid descriptor over each field's whole range (many decades)
pub fn widen(r: &mut Rng, d: &mut Desc) {
  let lg = |r: &mut Rng, lo: f64, hi: f64| {
    let v = r.log_range(lo, hi);
    if r.coin() {
      (v * 1e4).round() / 1e4
    } else {
      v
    }
  };
  for k in 0..10 {
    if r.below(3) != 0 {
      continue;
    }
    match k {
      0 => d.p_power = lg(r, 1e-6, 1e6),
      1 => d.length = lg(r, 1.0, 1e6),
      2 => d.p_waist = lg(r, 1.0, 1e6),
      3 => d.signal.waist = lg(r, 1.0, 1e6),
      4 => d.signal.wpos = AutoV::Val(lg(r, 1e-3, 1e6) * if r.coin() { -1.0 } else { 1.0 }),
      5 => d.p_bw = lg(r, 1e-4, 1e3),
      6 => d.deff = lg(r, 1e-4, 1e4),
      7 => {
        if let PolingD::Cfg { period: AutoV::Val(p), .. } = &mut d.poling {
          *p = lg(r, 1e-2, 1e6);
        }
      }
      8 => d.temp = *r.pick(&[-200.0, -0.00004, 0.00005, 999.99995, 1500.0]),
      _ => {
        if let IdlerD::Cfg(b) = &mut d.idler {
          b.waist = lg(r, 1.0, 1e6);
          b.wpos = AutoV::Val(-lg(r, 1e-3, 1e6));
        }
      }
    }
  }
}

/// the malformed stream of C17: a valid descriptor with one to three boundary / invalid edits
pub fn gen_malformed(r: &mut Rng) -> (Desc, String) {
  let mut d = gen_valid(r);
  let mut tags: Vec<&'static str> = vec![];
  let nedits = r.between(1, 3);
  for _ in 0..nedits {
    match r.below(16) {
      0 => {
        d.signal.theta = Some(1.0);
        d.signal.theta_e = Some(1.0);
        tags.push("both-angles");
      }
      1 => {
        d.signal.theta = None;
        d.signal.theta_e = None;
        tags.push("no-angle");
      }
      2 => {
        d.c_theta = if r.coin() { AutoV::Auto } else { AutoV::Absent };
        if !matches!(d.poling, PolingD::Cfg { .. }) {
          d.poling = PolingD::Cfg { period: if r.coin() { AutoV::Auto } else { AutoV::Val(20.) }, apod: None };
        }
        tags.push("autotheta+pp");
      }
      3 => {
        // λs ≤ λp inside the window
        let (wlo, whi) = WINDOWS_NM[d.kind];
        let a = dec(r, wlo, whi, 1);
        let b = if r.below(4) == 0 { a } else { dec(r, wlo, whi, 1) };
        d.p_wl = a.max(b);
        d.signal.wl = a.min(b);
        tags.push("ls<=lp");
      }
      4 => {
        d.poling = PolingD::Cfg { period: AutoV::Auto, apod: None };
        if matches!(d.c_theta, AutoV::Auto | AutoV::Absent) {
          d.c_theta = AutoV::Val(90.);
        }
        d.length = *r.pick(&[0.5, 1.0, 2.0, 5.0, 10.0]);
        tags.push("short-crystal-autopp");
      }
      5 => {
        let a = *r.pick(&[-400., -360., -180., -90., 90., 180., 270., 360., 400., 89.9999, 90.0001]);
        if d.signal.theta.is_some() {
          d.signal.theta = Some(a);
        } else {
          d.signal.theta_e = Some(a);
        }
        tags.push("big-signal-angle");
      }
      6 => {
        d.c_theta = AutoV::Val(0.);
        let a = *r.pick(&[1e-9, 1e-6, 1e-3, 0.1]);
        d.signal.theta = Some(a);
        d.signal.theta_e = None;
        tags.push("theta0-noncollinear");
      }
      7 => {
        d.length = *r.pick(&[0., -1., -2000., 1e-9]);
        tags.push("bad-length");
      }
      8 => {
        let w = *r.pick(&[0., -100., 1e-9]);
        match r.below(3) {
          0 => d.p_waist = w,
          1 => d.signal.waist = w,
          _ => {
            if let IdlerD::Cfg(b) = &mut d.idler {
              b.waist = w
            } else {
              d.signal.waist = w
            }
          }
        }
        tags.push("bad-waist");
      }
      9 => {
        d.p_bw = *r.pick(&[0., -1., 1e-12]);
        tags.push("bad-bandwidth");
      }
      10 => {
        d.p_power = *r.pick(&[0., -5.]);
        tags.push("bad-power");
      }
      11 => {
        d.c_theta = match d.c_theta {
          AutoV::Val(_) => AutoV::Val(*r.pick(&[-400., -90., 0., 180., 400., 90.])),
          ref o => o.clone(),
        };
        d.c_phi = Some(*r.pick(&[-400., -90., 360., 400., 45.]));
        tags.push("big-crystal-angle");
      }
      12 => {
        if let PolingD::Cfg { period, .. } = &mut d.poling {
          *period = AutoV::Val(*r.pick(&[0., -0.0, 1e-9, -30., 1e9]));
        } else {
          d.poling = PolingD::Cfg { period: AutoV::Val(0.), apod: None };
          if matches!(d.c_theta, AutoV::Auto | AutoV::Absent) {
            d.c_theta = AutoV::Val(90.);
          }
        }
        tags.push("odd-period");
      }
      13 => {
        d.signal.phi = Some(*r.pick(&[-400., -0.0, 360., 720., 400.]));
        tags.push("big-phi");
      }
      14 => {
        d.temp = *r.pick(&[-273.15, -300., 1000., 0.]);
        tags.push("odd-temperature");
      }
      _ => {
        d.deff = *r.pick(&[0., -1.]);
        tags.push("odd-deff");
      }
    }
  }
  tags.sort();
  tags.dedup();
  (d, tags.join("+"))
}

const ODD_SCALARS: [f64; 20] = [
  -1e300, -1e6, -100.0, -1.0, -0.02, -1e-9, -0.0, 0.0, 1e-300, 1e-9, 1e-3, 0.5, 0.999, 1.0, 1.03, 2.0, 100.0, 1e6, 1e300, f64::MAX,
];
const APOD_NAMES_LOWER: [&str; 6] = ["bartlett", "blackman", "connes", "cosine", "hamming", "welch"];

/// an apodization section (all nine kinds, both spellings) whose numbers lie OUTSIDE the usual range:
/// negative, zero, above 1, in percent, huge, tiny; tables empty / single / long / un-normalised
pub fn gen_odd_apod(r: &mut Rng) -> (ApodD, String) {
  match r.below(12) {
    0 => (ApodD::Off, "off".into()),
    1 | 2 => {
      let f = *r.pick(&ODD_SCALARS);
      (ApodD::Gaussian(f), format!("gaussian/{:e}", f))
    }
    3 | 4 | 5 => {
      let k = r.below(6);
      let name = if r.coin() { APOD_NAMES[k] } else { APOD_NAMES_LOWER[k] };
      let x = *r.pick(&ODD_SCALARS);
      (ApodD::Named(name, x), format!("{}/{:e}", APOD_NAMES_LOWER[k], x))
    }
    _ => {
      let (v, name): (Vec<f64>, &str) = match r.below(16) {
        0 => ((0..=10).map(|k| 10.0 * k as f64).collect(), "percent-ramp"),
        1 => (vec![0., 25., 50., 100., 100., 50., 25., 0.], "percent-bell"),
        2 => (vec![0., 0.5, 1.03, 1.0, 0.5, 0.], "overshoot"),
        3 => (vec![-0.02, 0., 0.5, 1., 0.5, 0., -0.02], "negative-side-lobes"),
        4 => (vec![0., 0., 0.], "all-zero"),
        5 => (vec![-1., -0.5, -1.], "all-negative"),
        6 => (vec![-1., 1.], "net-zero"),
        7 => (vec![1e300, 1e300], "huge"),
        8 => (vec![1e308, -1e308, f64::MAX], "huge-mixed-signs"),
        9 => (vec![1e-300, 5e-324, 1e-300], "tiny"),
        10 => (vec![*r.pick(&ODD_SCALARS)], "single"),
        11 => (vec![], "empty"),
        12 => ((0..1000).map(|_| (r.range(-0.1, 1.1) * 1e3).round() / 1e3).collect(), "long-unnormalised"),
        13 => (vec![1.0000000000000002, 1., 0.9999999999999999], "one-ulp-above-1"),
        14 => (vec![-5e-324, 0., 1.], "one-ulp-below-0"),
        _ => {
          let n = r.between(1, 8);
          ((0..n).map(|_| *r.pick(&ODD_SCALARS)).collect(), "random-odd")
        }
      };
      (ApodD::Interpolate(v), format!("interpolate/{}", name))
    }
  }
}

/// one numeric leaf of a nested section set to a value outside its usual range (negative, zero, above 1,
/// huge, tiny); returns `section.leaf=value`
pub fn odd_leaf(r: &mut Rng, d: &mut Desc) -> String {
  let generic = |r: &mut Rng| *r.pick(&ODD_SCALARS);
  let which = r.below(26);
  let (name, v): (&str, f64) = match which {
    0 => ("pump.spectrum_threshold", *r.pick(&[-1.0, -0.0, 0.0, 1e-300, 1e-9, 0.5, 0.999, 1.0, 1.03, 100.0, 1e300])),
    1 | 2 => ("signal.waist_position_um", *r.pick(&[-1e300, -1e9, -1e6, -1e-9, -0.0, 0.0, 1e-300, 1.03, 1e6, 1e9, 1e300])),
    3 | 4 => ("idler.waist_position_um", *r.pick(&[-1e300, -1e9, -1e6, -1e-9, -0.0, 0.0, 1e-300, 1.03, 1e6, 1e9, 1e300])),
    5 => ("crystal.phi_deg", *r.pick(&[1e-300, -1e-9, -0.0, 359.99999999, 360.0000001, 1.03])),
    6 => ("signal.phi_deg", *r.pick(&[1e-300, -1e-9, -0.0, 359.99999999, 360.0000001, 1.03])),
    7 => ("idler.phi_deg", *r.pick(&[1e-300, -1e-9, -0.0, 359.99999999, 360.0000001, 1.03, -400.0, 400.0])),
    8 => ("idler.waist_um", *r.pick(&[0.0, -100.0, 1e-9, 1.0, 1e6, 1e300])),
    9 => ("idler.wavelength_nm", *r.pick(&[0.0, -1550.0, 1e-9, 1e9])),
    10 => ("idler.theta_deg", *r.pick(&[-400.0, -90.0, -0.0, 1e-300, 1e-9, 89.9999, 90.0, 400.0])),
    11 => ("crystal.temperature_c", *r.pick(&[1e-300, -1e-9, 499.9999, 500.0, 1e6, -273.15, -273.16, 1e300])),
    12 => ("deff_pm_per_volt", *r.pick(&[-1e300, -1e4, -1e-6, 1e-300, 1e-9, 1e4, 1e300])),
    13 => ("crystal.length_um", *r.pick(&[1e-300, 1.0, 1e9, 1e300, f64::MAX])),
    14 => ("pump.waist_um", *r.pick(&[1e-300, 1.0, 1e9, 1e300, f64::MAX])),
    15 => ("signal.waist_um", *r.pick(&[1e-300, 1.0, 1e9, 1e300, f64::MAX])),
    16 => ("pump.bandwidth_nm", *r.pick(&[1e-300, 1e-3, 1e3, 1e9, 1e300])),
    17 => ("pump.average_power_mw", *r.pick(&[1e-300, 1e-6, 1e9, 1e300])),
    18 => ("periodic_poling.poling_period_um", *r.pick(&[1e-300, -1e300, 1e300, 1e-3, -1e-3, 1e6, -1e6])),
    19 => ("pump.wavelength_nm", *r.pick(&[0.0, -775.0, 1e-9, 1e-300, 1e9, 1e300])),
    20 => ("signal.wavelength_nm", *r.pick(&[0.0, -1550.0, 1e-9, 1e-300, 1e9, 1e300])),
    _ => ("periodic_poling.apodization", generic(r)),
  };
  let explicit_idler = |r: &mut Rng, d: &mut Desc| {
    if !matches!(d.idler, IdlerD::Cfg(_)) {
      let mut i_wl = d.signal.wl * d.p_wl / (d.signal.wl - d.p_wl);
      if !(i_wl.is_finite() && i_wl > 0.0) {
        i_wl = 2.0 * d.p_wl; // (λs ≤ λp edits: any finite number — JSON cannot carry inf)
      }
      d.idler = IdlerD::Cfg(BeamD { wl: (i_wl * 100.).round() / 100., phi: Some(0.), theta: Some(dec(r, 0., 2., 3)), theta_e: None, waist: 100., wpos: AutoV::Auto });
    }
  };
  let poled = |d: &mut Desc| {
    if !matches!(d.poling, PolingD::Cfg { .. }) {
      d.poling = PolingD::Cfg { period: AutoV::Val(20.), apod: None };
    }
    if matches!(d.c_theta, AutoV::Auto | AutoV::Absent) {
      d.c_theta = AutoV::Val(90.);
    }
  };
  match name {
    "pump.spectrum_threshold" => d.p_thr = Some(v),
    "signal.waist_position_um" => d.signal.wpos = AutoV::Val(v),
    "idler.waist_position_um" => {
      explicit_idler(r, d);
      if let IdlerD::Cfg(b) = &mut d.idler {
        b.wpos = AutoV::Val(v)
      }
    }
    "crystal.phi_deg" => d.c_phi = Some(v),
    "signal.phi_deg" => d.signal.phi = Some(v),
    "idler.phi_deg" | "idler.waist_um" | "idler.wavelength_nm" | "idler.theta_deg" => {
      explicit_idler(r, d);
      if let IdlerD::Cfg(b) = &mut d.idler {
        match name {
          "idler.phi_deg" => b.phi = Some(v),
          "idler.waist_um" => b.waist = v,
          "idler.wavelength_nm" => b.wl = v,
          _ => {
            b.theta = Some(v);
            b.theta_e = None;
          }
        }
      }
    }
    "crystal.temperature_c" => d.temp = v,
    "deff_pm_per_volt" => d.deff = v,
    "crystal.length_um" => d.length = v,
    "pump.waist_um" => d.p_waist = v,
    "signal.waist_um" => d.signal.waist = v,
    "pump.bandwidth_nm" => d.p_bw = v,
    "pump.average_power_mw" => d.p_power = v,
    "periodic_poling.poling_period_um" => {
      poled(d);
      if let PolingD::Cfg { period, .. } = &mut d.poling {
        *period = AutoV::Val(v)
      }
    }
    "pump.wavelength_nm" => d.p_wl = v,
    "signal.wavelength_nm" => d.signal.wl = v,
    _ => {
      poled(d);
      let (a, tag) = gen_odd_apod(r);
      if let PolingD::Cfg { apod, .. } = &mut d.poling {
        *apod = Some(a);
      }
      return format!("periodic_poling.apodization={}", tag);
    }
  }
  format!("{}={:e}", name, v)
}

// ------------------------------------------------------------------------------------------------
// running one descriptor through the real code

fn err_class(msg: &str) -> &'static str {
  if msg.contains("Must specify one of theta_deg or theta_external_deg") {
    "angles"
  } else if msg.contains("Can not autocalc theta when periodic poling is enabled") {
    "autotheta+pp"
  } else if msg.contains("Signal wavelength must be greater than Pump wavelength") {
    "ls<=lp"
  } else if msg.contains("Could not determine poling period") {
    "period"
  } else {
    "other"
  }
}

pub struct Run {
  pub cfg: Option<SPDCConfig>,
  pub outcome: Option<Result<SPDC, String>>, // None = panic
  pub ext: String,
  pub auto_ok: Option<(bool, String)>,
}

fn new_beam(pol: PolarizationType, b_phi: f64, wl: f64, waist: f64) -> Beam {
  Beam::new(pol, b_phi * DEG, 0. * RAD, wl * NANO * M, waist * MICRO * M)
}

/// parse the JSON, run `try_as_spdc`, and obtain the numeric sub-results by explicit public calls on
/// the setup as assembled so far (crystal → pump → signal → poling → θ → idler → waist positions)
pub fn run_desc(d: &Desc) -> Run {
  let js = d.json().to_string();
  let cfg: Option<SPDCConfig> = guard(|| serde_json::from_str::<SPDCConfig>(&js).ok()).flatten();
  let cfg = match cfg {
    Some(c) => c,
    None => return Run { cfg: None, outcome: Some(Err("serde".into())), ext: String::new(), auto_ok: None },
  };
  let outcome = guard(|| cfg.clone().try_as_spdc().map_err(|e| e.0));
  let mut ext: Vec<String> = vec![];
  let mut auto_detail = String::new();
  let mut auto_ok = true;
  let mut auto_checked = false;
  let okspdc: Option<&SPDC> = match &outcome {
    Some(Ok(s)) => Some(s),
    _ => None,
  };

  let c0: CrystalSetup = cfg.crystal.clone().into();
  let pump = cfg.pump.clone().as_beam(&c0);
  // signal
  let signal = match (cfg.signal.theta_deg, cfg.signal.theta_external_deg) {
    (None, Some(te)) => {
      let b0 = new_beam(c0.pm_type.signal_polarization(), cfg.signal.phi_deg, cfg.signal.wavelength_nm, cfg.signal.waist_um);
      let r = guard(|| Beam::calc_internal_theta_from_external(&b0, (te * DEG).value_unsafe.abs() * RAD, &c0));
      ext.push(match r {
        Some(a) => format!("snell_s={}", fl(a.value_unsafe)),
        None => "snell_s=PANIC".into(),
      });
      guard(|| cfg.signal.clone().try_as_beam(&c0).ok()).flatten()
    }
    (Some(_), None) => guard(|| cfg.signal.clone().try_as_beam(&c0).ok()).flatten(),
    _ => None,
  };
  if let Some(signal) = signal {
    // sign, period
    let poling_cfg = matches!(cfg.periodic_poling, PeriodicPolingConfig::Config { .. });
    if poling_cfg {
      let r = guard(|| PeriodicPoling::compute_sign(&signal, &pump, &c0));
      ext.push(match r {
        Some(s) => format!("sign={}", if s == Sign::NEGATIVE { 1 } else { 0 }),
        None => "sign=PANIC".into(),
      });
      let r = guard(|| optimum_poling_period(&signal, &pump, &c0));
      ext.push(match &r {
        Some(Ok(p)) => format!("period={}", fl(p.value_unsafe)),
        Some(Err(_)) => "period=ERR".into(),
        None => "period=PANIC".into(),
      });
      // "auto" poling period = the explicit optimum call
      if let (Some(s), PeriodicPolingConfig::Config { poling_period_um: AutoCalcParam::Auto(_), .. }) = (okspdc, &cfg.periodic_poling) {
        auto_checked = true;
        let want = r.and_then(|x| x.ok()).map(|p| p.value_unsafe);
        let got = match &s.pp {
          PeriodicPoling::On { period, sign, .. } => Some(if *sign == Sign::NEGATIVE { -period.value_unsafe } else { period.value_unsafe }),
          PeriodicPoling::Off => None,
        };
        if want != got {
          auto_ok = false;
          auto_detail.push_str(&format!("field=poling_period got={:?} explicit={:?} ", got, want));
        }
        // the whole poling (period, sign AND the configured apodization) = the explicit optimum
        // poling for that apodization on the same signal / pump / crystal
        if let PeriodicPolingConfig::Config { apodization, .. } = &cfg.periodic_poling {
          let ap: Apodization = apodization.clone().into();
          let explicit = guard(|| PeriodicPoling::try_new_optimum(&signal, &pump, &c0, ap.clone()).ok()).flatten();
          if explicit.as_ref() != Some(&s.pp) {
            auto_ok = false;
            auto_detail.push_str(&format!(
              "field=periodic_poling got_apodization={} explicit_apodization={} ",
              apod_tokens(s.pp.apodization()).replace(' ', ","),
              explicit.as_ref().map(|p| apod_tokens(p.apodization()).replace(' ', ",")).unwrap_or("none".into())
            ));
          }
          // and the setup's own optimum-poling helpers agree with it
          let own = guard(|| s.optimum_periodic_poling().ok()).flatten();
          let with = guard(|| s.clone().with_optimum_periodic_poling().ok().map(|x| x.pp)).flatten();
          if own.as_ref() != explicit.as_ref() || with.as_ref() != explicit.as_ref() {
            auto_ok = false;
            auto_detail.push_str("field=periodic_poling optimum_periodic_poling()/with_optimum_periodic_poling() differ from the explicit optimum ");
          }
        }
      }
    }
    let pp = guard(|| cfg.periodic_poling.clone().try_as_periodic_poling(&signal, &pump, &c0).ok()).flatten();
    let mut c1 = c0.clone();
    let mut c1_ok = true;
    if cfg.crystal.theta_deg.is_auto() {
      let r = guard(|| c0.optimum_theta(&signal, &pump));
      ext.push(match r {
        Some(a) => format!("theta={}", fl(a.value_unsafe)),
        None => "theta=PANIC".into(),
      });
      match r {
        Some(a) => c1.theta = a,
        None => c1_ok = false,
      }
      if let Some(s) = okspdc {
        auto_checked = true;
        if r.map(|a| a.value_unsafe) != Some(s.crystal_setup.theta.value_unsafe) {
          auto_ok = false;
          auto_detail.push_str(&format!("field=crystal_theta got={:e} explicit={:?} ", s.crystal_setup.theta.value_unsafe, r.map(|a| a.value_unsafe)));
        }
      }
      if pp != Some(PeriodicPoling::Off) {
        c1_ok = false; // the code errors out here
      }
    }
    if let (Some(pp), true) = (pp, c1_ok) {
      // idler
      let idler: Option<spdcalc::beam::IdlerBeam> = match &cfg.idler {
        AutoCalcParam::Auto(_) => {
          let r = guard(|| spdcalc::beam::IdlerBeam::try_new_optimum(&signal, &pump, &c1, &pp));
          ext.push(match &r {
            Some(Ok(b)) => format!("idler={}", beam_tokens(b).replace(' ', ",")),
            Some(Err(_)) => "idler=ERR".into(),
            None => "idler=PANIC".into(),
          });
          let b = r.and_then(|x| x.ok());
          if let Some(s) = okspdc {
            auto_checked = true;
            if b.as_ref() != Some(&s.idler) {
              auto_ok = false;
              auto_detail.push_str("field=idler differs-from-explicit-call ");
            }
          }
          b
        }
        AutoCalcParam::Param(ic) => {
          if let (None, Some(te)) = (ic.theta_deg, ic.theta_external_deg) {
            let b0 = new_beam(c1.pm_type.idler_polarization(), ic.phi_deg, ic.wavelength_nm, ic.waist_um);
            let r = guard(|| Beam::calc_internal_theta_from_external(&b0, (te * DEG).value_unsafe.abs() * RAD, &c1));
            ext.push(match r {
              Some(a) => format!("snell_i={}", fl(a.value_unsafe)),
              None => "snell_i=PANIC".into(),
            });
          }
          guard(|| ic.clone().try_as_beam(&c1).ok()).flatten()
        }
      };
      // waist positions
      let r = guard(|| c1.optimal_waist_position(signal.vacuum_wavelength(), signal.polarization()));
      ext.push(match r {
        Some(z) => format!("wps={}", fl(z.value_unsafe)),
        None => "wps=PANIC".into(),
      });
      if let (Some(s), true) = (okspdc, cfg.signal.waist_position_um.is_auto()) {
        auto_checked = true;
        if r.map(|z| z.value_unsafe) != Some(s.signal_waist_position.value_unsafe) {
          auto_ok = false;
          auto_detail.push_str("field=signal_waist_position differs-from-explicit-call ");
        }
      }
      if let Some(idler) = idler {
        let r = guard(|| c1.optimal_waist_position(idler.vacuum_wavelength(), idler.polarization()));
        ext.push(match r {
          Some(z) => format!("wpi={}", fl(z.value_unsafe)),
          None => "wpi=PANIC".into(),
        });
        let idler_pos_auto = match &cfg.idler {
          AutoCalcParam::Auto(_) => true,
          AutoCalcParam::Param(ic) => ic.waist_position_um.is_auto(),
        };
        if let (Some(s), true) = (okspdc, idler_pos_auto) {
          auto_checked = true;
          if r.map(|z| z.value_unsafe) != Some(s.idler_waist_position.value_unsafe) {
            auto_ok = false;
            auto_detail.push_str("field=idler_waist_position differs-from-explicit-call ");
          }
        }
      }
    }
  }
  Run {
    cfg: Some(cfg),
    outcome,
    ext: ext.join(" "),
    auto_ok: if auto_checked { Some((auto_ok, auto_detail)) } else { None },
  }
}

pub fn outcome_tokens(o: &Option<Result<SPDC, String>>) -> String {
  match o {
    None => "PANIC".into(),
    Some(Err(m)) => format!("ERR:{}", err_class(m)),
    Some(Ok(s)) => format!("OK {}", setup_tokens(s)),
  }
}

fn setup_finite(s: &SPDC) -> Result<(), String> {
  let c = &s.crystal_setup;
  let mut bad = vec![];
  let mut chk = |name: &str, x: f64| {
    if !x.is_finite() {
      bad.push(format!("{}={:e}", name, x));
    }
  };
  chk("crystal_theta", c.theta.value_unsafe);
  chk("crystal_phi", c.phi.value_unsafe);
  for (n, b) in [("signal", &*s.signal), ("idler", &*s.idler), ("pump", &*s.pump)] {
    chk(&format!("{}_theta", n), b.theta_internal().value_unsafe);
    chk(&format!("{}_phi", n), b.phi().value_unsafe);
    chk(&format!("{}_frequency", n), b.frequency().value_unsafe);
    chk(&format!("{}_wavelength", n), b.vacuum_wavelength().value_unsafe);
    chk(&format!("{}_index", n), *b.refractive_index(b.frequency(), c));
  }
  chk("signal_waist_position", s.signal_waist_position.value_unsafe);
  chk("idler_waist_position", s.idler_waist_position.value_unsafe);
  let per = s.pp.signed_period().value_unsafe;
  match &s.pp {
    PeriodicPoling::Off => {
      if !(per.is_infinite()) {
        bad.push("period-finite-when-off".into());
      }
    }
    PeriodicPoling::On { period, .. } => {
      chk("poling_period", per);
      if !(period.value_unsafe > 0.0) {
        bad.push(format!("poling_period_not_positive={:e}", period.value_unsafe));
      }
    }
  }
  if bad.is_empty() {
    Ok(())
  } else {
    Err(bad.join(","))
  }
}

/// lengths, waists, bandwidths, powers, periods and temperatures inside their physical ranges (the
/// statement's quantifier); the angles are free (±400°)
fn physical(d: &Desc) -> bool {
  // at least a micron of crystal and of beam waist, a picometre of bandwidth, a nanowatt of power
  let len = |x: f64| x >= 1.0 && x.is_finite();
  // (a vanishing effective nonlinearity is no down-conversion at all: every normalised spectrum is 0/0)
  let mut ok = len(d.length) && len(d.p_waist) && d.p_bw >= 1e-3 && d.p_power >= 1e-6 && len(d.signal.waist) && d.temp > -273.15 && d.temp <= 500.0 && d.deff.abs() >= 1e-6;
  if let IdlerD::Cfg(b) = &d.idler {
    ok = ok && len(b.waist);
  }
  if let PolingD::Cfg { period: AutoV::Val(p), .. } = &d.poling {
    ok = ok && p.abs() >= 1e-3 && p.abs() <= 1e6;
  }
  ok
}

/// The spectrum / rate / HOM clause asks for finite VALUES, so the parameters the values are proportional to
/// (or divided by) have to be inside their physical ranges as well: a poling profile that is bounded and does
/// not vanish or cancel along the crystal (like `deff = 0`, a net-zero profile is no down-conversion at all:
/// every normalised value is 0/0), a window at least a thousandth of the crystal wide, a non-zero Gaussian
/// width, a pump-spectrum cut below the peak, waist positions and a nonlinearity of bounded magnitude.
/// Construction (no panic, finite setup, listed errors) is checked for every value.
fn spectra_domain(d: &Desc) -> bool {
  let mut ok = d.deff.abs() <= 1e4 && d.p_thr.map(|t| t < 1.0).unwrap_or(true);
  // (upper ends of the physical ranges: a metre of crystal and of beam waist, 100 nm of bandwidth and a quarter of
  // the pump wavelength, a kilowatt)
  ok = ok && d.length <= 1e6 && d.p_waist <= 1e6 && d.signal.waist <= 1e6 && d.p_bw <= 100.0 && d.p_bw <= 0.25 * d.p_wl && d.p_power <= 1e6;
  if let IdlerD::Cfg(b) = &d.idler {
    ok = ok && b.waist <= 1e6;
  }
  let pos = |a: &AutoV| match a {
    AutoV::Val(x) => x.abs() <= 1e6,
    _ => true,
  };
  ok = ok && pos(&d.signal.wpos);
  if let IdlerD::Cfg(b) = &d.idler {
    ok = ok && pos(&b.wpos);
  }
  if let PolingD::Cfg { apod: Some(a), .. } = &d.poling {
    ok = ok
      && match a {
        ApodD::Off => true,
        ApodD::Gaussian(f) => f.abs() >= 1e-3 * d.length && f.is_finite(),
        ApodD::Named(_, x) => x.abs() >= 1e-3 && x.is_finite() && !window_integral_vanishes(a),
        ApodD::Interpolate(v) => {
          let n = v.len();
          if n == 0 {
            true
          } else {
            let mx = v.iter().fold(0.0f64, |m, x| m.max(x.abs()));
            // trapezoid mean of the piecewise-linear profile
            let mean = if n == 1 { v[0] } else { (v.iter().sum::<f64>() - 0.5 * (v[0] + v[n - 1])) / (n - 1) as f64 };
            mx <= 1e3 && mx >= 1e-3 && mean.abs() >= 0.05 * mx
          }
        }
      };
  }
  ok
}

/// the window's mean over the crystal (Simpson, 200 panels) is below 1 % of its largest magnitude
fn window_integral_vanishes(a: &ApodD) -> bool {
  let f = |z: f64| match a {
    ApodD::Named(k, x) => {
      use std::f64::consts::PI;
      match k.to_lowercase().as_str() {
        "bartlett" => 1. - z.abs() / x,
        "blackman" => 21. / 50. + 0.5 * (PI * z / x).cos() + (2. / 25.) * (2. * PI * z / x).cos(),
        "connes" => (1. - (z / x).powi(2)).powi(2),
        "cosine" => (0.5 * PI * z / x).cos(),
        "hamming" => (27. + 23. * (PI * z / x).cos()) / 50.,
        _ => 1. - (z / x).powi(2),
      }
    }
    _ => 1.0,
  };
  let n = 400;
  let (mut sum, mut mx) = (0.0, 0.0f64);
  for k in 0..=n {
    let z = -1.0 + 2.0 * k as f64 / n as f64;
    let w = if k == 0 || k == n { 1.0 } else if k % 2 == 1 { 4.0 } else { 2.0 };
    let y = f(z);
    sum += w * y;
    mx = mx.max(y.abs());
  }
  !(sum.abs() / (3.0 * n as f64) >= 0.01 * mx)
}

fn in_window(d: &Desc, need_idler: bool) -> bool {
  let (lo, hi) = WINDOWS_NM[d.kind];
  let inside = |x: f64| x >= lo && x <= hi;
  if !inside(d.p_wl) || !inside(d.signal.wl) {
    return false;
  }
  match &d.idler {
    IdlerD::Cfg(b) => inside(b.wl),
    _ => {
      if d.signal.wl <= d.p_wl {
        !need_idler
      } else {
        inside(d.signal.wl * d.p_wl / (d.signal.wl - d.p_wl))
      }
    }
  }
}

fn rel_eq(a: f64, b: f64, eps: f64) -> bool {
  a == b || (a - b).abs() <= eps * a.abs().max(b.abs())
}

/// numeric leaves of two configs agree to `eps` relative, everything else exactly
pub fn config_close(a: &SPDCConfig, b: &SPDCConfig, eps: f64) -> Result<(), String> {
  let (mut fa, mut fb) = (vec![], vec![]);
  flatten("", &serde_json::to_value(a).unwrap(), &mut fa);
  flatten("", &serde_json::to_value(b).unwrap(), &mut fb);
  if fa.len() != fb.len() {
    return Err("shape".into());
  }
  for ((ka, va), (kb, vb)) in fa.iter().zip(fb.iter()) {
    if ka != kb {
      return Err(format!("shape:{}!={}", ka, kb));
    }
    match (va.as_f64(), vb.as_f64()) {
      (Some(x), Some(y)) => {
        if !rel_eq(x, y, eps) {
          return Err(format!("field={} first={:e} second={:e}", ka, x, y));
        }
      }
      _ => {
        if va != vb {
          return Err(format!("field={} first={} second={}", ka, va, vb));
        }
      }
    }
  }
  Ok(())
}

/// the statement's first clause: each numeric field = physical value rounded to 4 decimals in the
/// configuration's unit
fn fields_rounded(s: &SPDC, c: &SPDCConfig) -> Result<(), String> {
  let bad: std::cell::RefCell<Vec<String>> = std::cell::RefCell::new(vec![]);
  let chk = |name: &str, got: f64, phys: f64| {
    // the rounded value itself; next to a rounding boundary (x.xxxx5) either neighbour is accepted
    let want = (phys * 1e4).round() / 1e4;
    let frac = (phys * 1e4 - (phys * 1e4).floor() - 0.5).abs();
    let near_tie = frac < 1e-6 && ((got * 1e4).round() / 1e4 == got) && (got - phys).abs() <= 0.5e-4 * (1.0 + 1e-6);
    if !(got == want || near_tie) {
      bad.borrow_mut().push(format!("field={} got={:?} physical={:?}", name, got, phys));
    }
  };
  let cs = &s.crystal_setup;
  let deg = DEG.value_unsafe;
  let p = |a: &AutoCalcParam<f64>| match a {
    AutoCalcParam::Param(x) => *x,
    _ => f64::NAN,
  };
  chk("crystal.theta_deg", p(&c.crystal.theta_deg), cs.theta.value_unsafe / deg);
  chk("crystal.phi_deg", c.crystal.phi_deg, cs.phi.value_unsafe / deg);
  chk("crystal.length_um", c.crystal.length_um, cs.length.value_unsafe / 1e-6);
  chk("crystal.temperature_c", c.crystal.temperature_c, cs.temperature.value_unsafe - 273.15);
  chk("pump.wavelength_nm", c.pump.wavelength_nm, s.pump.vacuum_wavelength().value_unsafe / 1e-9);
  chk("pump.bandwidth_nm", c.pump.bandwidth_nm, s.pump_bandwidth.value_unsafe / 1e-9);
  chk("pump.waist_um", c.pump.waist_um, s.pump.waist().x.value_unsafe / 1e-6);
  chk("pump.average_power_mw", c.pump.average_power_mw, s.pump_average_power.value_unsafe);
  chk("signal.wavelength_nm", c.signal.wavelength_nm, s.signal.vacuum_wavelength().value_unsafe / 1e-9);
  chk("signal.theta_deg", c.signal.theta_deg.unwrap_or(f64::NAN), s.signal.theta_internal().value_unsafe / deg);
  // an azimuth that rounds up to 360.0000 is written as 0
  let wrap = |x: f64| if (x * 1e4).round() / 1e4 >= 360.0 { x - 360.0 } else { x };
  chk("signal.phi_deg", c.signal.phi_deg, wrap(s.signal.phi().value_unsafe / deg));
  chk("signal.waist_um", c.signal.waist_um, s.signal.waist().x.value_unsafe / 1e-6);
  chk("signal.waist_position_um", p(&c.signal.waist_position_um), s.signal_waist_position.value_unsafe / 1e-6);
  match &c.idler {
    AutoCalcParam::Param(i) => {
      chk("idler.wavelength_nm", i.wavelength_nm, s.idler.vacuum_wavelength().value_unsafe / 1e-9);
      chk("idler.theta_deg", i.theta_deg.unwrap_or(f64::NAN), s.idler.theta_internal().value_unsafe / deg);
      chk("idler.phi_deg", i.phi_deg, wrap(s.idler.phi().value_unsafe / deg));
      chk("idler.waist_um", i.waist_um, s.idler.waist().x.value_unsafe / 1e-6);
      chk("idler.waist_position_um", p(&i.waist_position_um), s.idler_waist_position.value_unsafe / 1e-6);
      if i.theta_external_deg.is_some() {
        bad.borrow_mut().push("field=idler.theta_external_deg not-made-explicit-as-internal".into());
      }
    }
    AutoCalcParam::Auto(_) => bad.borrow_mut().push("field=idler not-made-explicit".into()),
  }
  if c.signal.theta_external_deg.is_some() {
    bad.borrow_mut().push("field=signal.theta_external_deg not-made-explicit-as-internal".into());
  }
  match (&s.pp, &c.periodic_poling) {
    (PeriodicPoling::Off, PeriodicPolingConfig::Off) => {}
    (PeriodicPoling::On { period, apodization, .. }, PeriodicPolingConfig::Config { poling_period_um, apodization: ac }) => {
      chk("periodic_poling.poling_period_um", p(poling_period_um), period.value_unsafe / 1e-6);
      match (apodization, ac) {
        (Apodization::Gaussian { fwhm }, ApodizationConfig::Gaussian { fwhm_um }) => {
          chk("periodic_poling.apodization.fwhm_um", *fwhm_um, fwhm.value_unsafe / 1e-6)
        }
        (a, b) => {
          // dimensionless window parameters are carried over as they are
          if apod_tokens(a) != apod_cfg_tokens(b) {
            bad.borrow_mut().push("field=periodic_poling.apodization differs".into());
          }
        }
      }
    }
    _ => bad.borrow_mut().push("field=periodic_poling on/off-mismatch".into()),
  }
  chk("deff_pm_per_volt", c.deff_pm_per_volt, s.deff.value_unsafe / (1e-12 / 1000.0));
  // fields that are carried over as they are
  let carried = |name: &str, ok: bool, got: String, want: String| {
    if !ok {
      bad.borrow_mut().push(format!("field={} got={} setup_holds={}", name, got, want));
    }
  };
  carried(
    "pump.spectrum_threshold",
    c.pump.spectrum_threshold == Some(s.pump_spectrum_threshold),
    format!("{:?}", c.pump.spectrum_threshold),
    format!("{:?}", s.pump_spectrum_threshold),
  );
  carried(
    "crystal.counter_propagation",
    c.crystal.counter_propagation == cs.counter_propagation,
    format!("{}", c.crystal.counter_propagation),
    format!("{}", cs.counter_propagation),
  );
  carried("crystal.kind", c.crystal.kind == cs.crystal, format!("{}", c.crystal.kind), format!("{}", cs.crystal));
  carried("crystal.pm_type", c.crystal.pm_type == cs.pm_type, format!("{}", c.crystal.pm_type), format!("{}", cs.pm_type));
  let bad = bad.into_inner();
  if bad.is_empty() {
    Ok(())
  } else {
    Err(bad.join(" ; "))
  }
}

fn fields_sig(why: &str) -> &'static str {
  let one = why.matches("field=").count() == 1;
  if one && why.contains("field=periodic_poling.apodization.fwhm_um") {
    "as_config/gaussian-fwhm-unrounded"
  } else if one && why.contains("field=pump.spectrum_threshold") {
    "as_config/spectrum-threshold"
  } else {
    "as_config/fields"
  }
}

fn spectra_finite(s: &SPDC) -> Result<(), String> {
  use spdcalc::math::Integrator;
  let integ = Integrator::Simpson { divs: 10 };
  let ls = s.signal.vacuum_wavelength().value_unsafe;
  let li = s.idler.vacuum_wavelength().value_unsafe;
  let range: WavelengthSpace = Steps2D((ls * 0.998 * M, ls * 1.002 * M, 3), (li * 0.998 * M, li * 1.002 * M, 3)).into();
  let sp = s.joint_spectrum(integ);
  let mut bad = vec![];
  let jsa = sp.jsa_range(range);
  // the HOM rate is normalised by Σ|jsa|² over the grid
  // (the HOM calls evaluate the spectrum on the grid converted to frequency space — not the same points)
  let fgrid: spdcalc::jsa::FrequencySpace = range.into();
  let all_zero = spdcalc::jsi_norm(&jsa) == 0. || spdcalc::jsi_norm(&sp.jsa_range(fgrid)) == 0.;
  if jsa.iter().any(|z| !z.re.is_finite() || !z.im.is_finite()) {
    bad.push("jsa");
  }
  if sp.jsi_range(range).iter().any(|z| !z.value_unsafe.is_finite()) {
    bad.push("jsi");
  }
  if sp.jsi_singles_range(range).iter().any(|z| !z.value_unsafe.is_finite()) {
    bad.push("jsi_singles");
  }
  if !s.counts_coincidences(range, integ).value_unsafe.is_finite() {
    bad.push("counts_coincidences");
  }
  if !s.counts_singles_signal(range, integ).value_unsafe.is_finite() {
    bad.push("counts_singles_signal");
  }
  // the accessors normalised to the optimum setup's centre
  if sp.jsi_normalized_range(range).iter().any(|x| !x.is_finite()) {
    bad.push("jsi_normalized");
  }
  if sp.jsi_singles_normalized_range(range).iter().any(|x| !x.is_finite()) {
    bad.push("jsi_singles_normalized");
  }
  let delays: Vec<spdcalc::Time> = vec![-1e-13 * S, 0. * S, 1e-13 * S];
  if s.hom_rate_series(delays, range, integ).iter().any(|x| !x.is_finite()) {
    bad.push(if all_zero { "hom_rate_series(zero-spectrum)" } else { "hom_rate_series" });
  }
  let (dt, vis) = s.hom_visibility(range, integ);
  if !dt.value_unsafe.is_finite() || !vis.is_finite() {
    bad.push(if all_zero { "hom_visibility(zero-spectrum)" } else { "hom_visibility" });
  }
  // the optimum version of a down-conversion inside the frequency cut-off (|ωs − ωi| ≤ ¾ ωp) is
  // phase-matched at its centre: a centre JSI of exactly 0 means the rates are silently 0
  let (ws, wi, wp) = (s.signal.frequency().value_unsafe, s.idler.frequency().value_unsafe, s.pump.frequency().value_unsafe);
  if (ws - wi).abs() <= 0.74 * wp && ((ws + wi) - wp).abs() <= 1e-6 * wp {
    if let Ok(o) = s.clone().try_as_optimum() {
      let c = spdcalc::jsa_raw(o.signal.frequency(), o.idler.frequency(), &o, integ).norm_sqr();
      if c == 0. {
        bad.push("optimum-centre-dark");
      }
    }
  }
  if bad.is_empty() {
    Ok(())
  } else {
    Err(bad.join(","))
  }
}

fn detail(d: &Desc) -> String {
  format!("json={}", d.json())
}

fn k_try(ctx: &mut Ctx, d: &Desc, run: &Run) {
  ctx.k("try_as_spdc", &format!("{} ext {}", d.tokens(), run.ext), &outcome_tokens(&run.outcome));
}

fn k_as_config(ctx: &mut Ctx, s: &SPDC) {
  if let Some(c) = guard(|| s.clone().as_config()) {
    ctx.k("as_config", &setup_tokens(s), &config_tokens(&c, s));
  } else {
    ctx.k("as_config", &setup_tokens(s), "PANIC");
  }
}

/// `math::sigfigs(x, 4)` over many decades, at the i32 / u32 grid limits, on ties, negative, tiny, huge
fn sigfigs_cases(ctx: &mut Ctx) {
  let mut xs: Vec<f64> = vec![
    0.0, -0.0, 0.00005, -0.00005, 0.00004999, 0.00015, 1.00005, -1.00005, 2.5, 1234.56785, 1234.56775,
    214748.3647, 214748.36475, 214748.3648, 214748.3649, -214748.3648, -214748.3649, 429496.7295, 429496.7296, 429496.73,
    1e6, 1e9, 123456789.12345678, 9.007199254740993e11, 1e15, 1e300, -1e300, 1e-300, f64::MAX, f64::MIN_POSITIVE,
    f64::INFINITY, f64::NEG_INFINITY, f64::NAN,
  ];
  let n = if ctx.thorough { 20000 } else { 2000 };
  for _ in 0..n {
    let v = ctx.rng.log_range(1e-8, 1e12) * if ctx.rng.coin() { -1.0 } else { 1.0 };
    xs.push(match ctx.rng.below(3) {
      0 => v,
      1 => ((v * 1e4).floor() + 0.5) / 1e4, // a tie (or next to one)
      _ => (v * 1e5).round() / 1e5,
    });
  }
  for x in xs {
    let got = guard(|| spdcalc::math::sigfigs(x, 4));
    ctx.k("sigfigs", &fl(x), &got.map(fl).unwrap_or("PANIC".into()));
    if x.is_finite() && x.abs() < 1e11 {
      let ok = match got {
        Some(g) => (g - x).abs() <= 0.5e-4 * (1.0 + 1e-9) + 2.0 * f64::EPSILON * x.abs() && ((g * 1e4).round() / 1e4 == g),
        None => false,
      };
      ctx.s("C16.fields", ok, "sigfigs/rounds-to-4-decimals", &format!("x={:e} got={:?}", x, got));
    }
  }
}

/// every public conversion route setup -> configuration gives the same parts as `as_config()`
fn part_conversions(s: &SPDC, c1: &SPDCConfig) -> Result<(), String> {
  use spdcalc::{CrystalConfig, IdlerConfig, PumpConfig, SignalConfig};
  let mut bad = vec![];
  if SPDCConfig::from(s.clone()) != *c1 {
    bad.push("route=SPDCConfig::from".to_string());
  }
  if CrystalConfig::from(s.crystal_setup.clone()) != c1.crystal {
    bad.push("route=CrystalConfig::from(CrystalSetup)".to_string());
  }
  let p = PumpConfig::from(s.clone());
  if p != c1.pump {
    bad.push(format!("route=PumpConfig::from(SPDC) got={} as_config={}", serde_json::to_string(&p).unwrap_or_default(), serde_json::to_string(&c1.pump).unwrap_or_default()));
  }
  let g = SignalConfig::from(s.clone());
  if g != c1.signal {
    bad.push(format!("route=SignalConfig::from(SPDC) got={} as_config={}", serde_json::to_string(&g).unwrap_or_default(), serde_json::to_string(&c1.signal).unwrap_or_default()));
  }
  let i = IdlerConfig::from(s.clone());
  if AutoCalcParam::Param(i.clone()) != c1.idler {
    bad.push(format!("route=IdlerConfig::from(SPDC) got={} as_config={}", serde_json::to_string(&i).unwrap_or_default(), serde_json::to_string(&c1.idler).unwrap_or_default()));
  }
  if PeriodicPolingConfig::from(s.pp.clone()) != c1.periodic_poling {
    bad.push("route=PeriodicPolingConfig::from(PeriodicPoling)".to_string());
  }
  if let PeriodicPolingConfig::Config { apodization, .. } = &c1.periodic_poling {
    if ApodizationConfig::from(s.pp.apodization().clone()) != *apodization {
      bad.push("route=ApodizationConfig::from(Apodization)".to_string());
    }
  }
  // serde of the setup goes through its configuration
  match serde_json::to_value(s).ok().zip(serde_json::to_value(c1).ok()) {
    Some((a, b)) if a == b => {}
    _ => bad.push("route=serde(SPDC)".to_string()),
  }
  if bad.is_empty() {
    Ok(())
  } else {
    Err(bad.join(" ; "))
  }
}

/// setup -> configuration on apodizations (and polings, setups) that were built DIRECTLY, not from a
/// configuration: every kind, every table shape; each public route must carry the setup's values
fn apod_direct_cases(ctx: &mut Ctx) {
  let mut list: Vec<(Apodization, String)> = vec![
    (Apodization::Off, "off".into()),
    (Apodization::Gaussian { fwhm: 1234.5678 * MICRO * M }, "gaussian".into()),
    (Apodization::Gaussian { fwhm: 1004.07 * MICRO * M }, "gaussian".into()),
    (Apodization::Gaussian { fwhm: 0.123456789e-3 * M }, "gaussian-unrounded".into()),
    (Apodization::Bartlett(1.25), "bartlett".into()),
    (Apodization::Blackman(0.875), "blackman".into()),
    (Apodization::Connes(1.5), "connes".into()),
    (Apodization::Cosine(2.0), "cosine".into()),
    (Apodization::Hamming(0.7), "hamming".into()),
    (Apodization::Welch(1.125), "welch".into()),
    // window parameters are carried over unrounded
    (Apodization::Bartlett(1.234567890123), "bartlett-unrounded".into()),
    (Apodization::Welch(0.1 + 0.2), "welch-unrounded".into()),
    // the crate's own tables
    (Apodization::Interpolate(vec![0., 0., 0., 0., 0., 0., 1., 1., 1., 1., 1., 1.]), "interpolate/crate-step".into()),
    (Apodization::Interpolate(vec![0., 0., 0.5, 1., 1., 1., 1., 0.5, 0., 0.]), "interpolate/padded-flat-top".into()),
    // unrounded samples are carried over as they are
    (Apodization::Interpolate(vec![0.1 + 0.2, 1.0 / 3.0, 1.0 / 3.0, 0.123456789012345]), "interpolate/unrounded".into()),
  ];
  let reps = if ctx.thorough { 40 } else { 4 };
  for _ in 0..reps {
    for shape in 0..INTERP_SHAPES {
      let (v, name) = interp_table_of_shape(&mut ctx.rng, shape);
      list.push((Apodization::Interpolate(v), format!("interpolate/{}", name)));
    }
  }
  let round4 = |x: f64| (x * 1e4).round() / 1e4;
  // what the configuration must hold for a setup's apodization
  let carried = |a: &Apodization, c: &ApodizationConfig| -> bool {
    match (a, c) {
      (Apodization::Gaussian { fwhm }, ApodizationConfig::Gaussian { fwhm_um }) => {
        let phys = fwhm.value_unsafe / 1e-6;
        *fwhm_um == round4(phys) || ((fwhm_um - phys).abs() <= 0.5e-4 * (1.0 + 1e-6) && round4(*fwhm_um) == *fwhm_um)
      }
      (Apodization::Gaussian { .. }, _) | (_, ApodizationConfig::Gaussian { .. }) => false,
      (a, c) => apod_tokens(a) == apod_cfg_tokens(c),
    }
  };
  let base = SPDC::default();
  for (a, name) in list.iter() {
    ctx.count(&format!("config/direct-apodization={}", name));
    let det = format!("shape={} setup_apodization={}", name, apod_tokens(a).replace(' ', ","));
    let mut bad: Vec<String> = vec![];
    let c = guard(|| ApodizationConfig::from(a.clone()));
    match &c {
      Some(c) if carried(a, c) => {}
      Some(c) => bad.push(format!("route=ApodizationConfig::from(Apodization) got={}", apod_cfg_tokens(c).replace(' ', ","))),
      None => bad.push("route=ApodizationConfig::from(Apodization) panic".into()),
    }
    for (period_um, sign) in [(46.52, Sign::POSITIVE), (9.25, Sign::NEGATIVE)] {
      let pp = PeriodicPoling::On { period: period_um * MICRO * M, sign, apodization: a.clone() };
      match guard(|| PeriodicPolingConfig::from(pp.clone())) {
        Some(PeriodicPolingConfig::Config { poling_period_um: AutoCalcParam::Param(p), apodization }) if p == period_um && carried(a, &apodization) => {}
        Some(other) => bad.push(format!("route=PeriodicPolingConfig::from(PeriodicPoling) got={}", serde_json::to_string(&other).unwrap_or_default().replace(' ', ""))),
        None => bad.push("route=PeriodicPolingConfig::from(PeriodicPoling) panic".into()),
      }
      // a whole setup that holds this poling
      let mut s = base.clone();
      s.pp = pp.clone();
      k_as_config(ctx, &s);
      match guard(|| (s.clone().as_config(), SPDCConfig::from(s.clone()), serde_json::to_value(&s).ok())) {
        Some((c1, c2, js)) => {
          for (route, cfg) in [("SPDC::as_config", &c1), ("SPDCConfig::from(SPDC)", &c2)] {
            match &cfg.periodic_poling {
              PeriodicPolingConfig::Config { apodization, .. } if carried(a, apodization) => {}
              other => bad.push(format!("route={} got={}", route, serde_json::to_string(other).unwrap_or_default().replace(' ', ""))),
            }
          }
          if js != serde_json::to_value(&c1).ok() {
            bad.push("route=serde(SPDC) differs-from-as_config".into());
          }
          // and back: the setup rebuilt from that configuration holds the same apodization
          match guard(|| c1.clone().try_as_spdc().ok()).flatten() {
            Some(s2) => {
              let same = match (a, s2.pp.apodization()) {
                (Apodization::Gaussian { fwhm: x }, Apodization::Gaussian { fwhm: y }) => (x.value_unsafe - y.value_unsafe).abs() <= 0.5e-10 * (1.0 + 1e-6),
                (x, y) => apod_tokens(x) == apod_tokens(y),
              };
              if !same {
                bad.push(format!("route=as_config->try_as_spdc rebuilt={}", apod_tokens(s2.pp.apodization()).replace(' ', ",")));
              }
            }
            None => bad.push("route=as_config->try_as_spdc failed".into()),
          }
        }
        None => bad.push("route=SPDC::as_config panic".into()),
      }
    }
    // serde of the apodization itself goes through its configuration, both ways
    match guard(|| serde_json::to_value(a).ok()).flatten() {
      Some(js) => {
        if Some(&js) != c.as_ref().and_then(|c| serde_json::to_value(c).ok()).as_ref() {
          bad.push(format!("route=serde(Apodization) text={}", js.to_string().replace(' ', "")));
        }
        match guard(|| serde_json::from_value::<Apodization>(js.clone()).ok()).flatten() {
          Some(back) => {
            let same = match (a, &back) {
              (Apodization::Gaussian { fwhm: x }, Apodization::Gaussian { fwhm: y }) => (x.value_unsafe - y.value_unsafe).abs() <= 0.5e-10 * (1.0 + 1e-6),
              (x, y) => x == y,
            };
            if !same {
              bad.push(format!("route=serde(Apodization)->Apodization back={}", apod_tokens(&back).replace(' ', ",")));
            }
          }
          None => bad.push("route=serde(Apodization)->Apodization failed".into()),
        }
      }
      None => bad.push("route=serde(Apodization) failed".into()),
    }
    // configuration -> setup carries the values too (both `From` impls are each other's inverse on windows and tables)
    if let Some(c) = &c {
      if !matches!(a, Apodization::Gaussian { .. }) {
        if guard(|| Apodization::from(c.clone())).as_ref() != Some(a) {
          bad.push("route=Apodization::from(ApodizationConfig)".into());
        }
      }
    }
    ctx.s("C16.fields", bad.is_empty(), "as_config/apodization-direct", &format!("{} {}", bad.iter().map(|b| b.replace(' ', "_")).collect::<Vec<_>>().join(" ; "), det));
  }
}

/// C16 on one valid descriptor
fn c16_case(ctx: &mut Ctx, d: &Desc) {
  let run = run_desc(d);
  k_try(ctx, d, &run);
  let det = detail(d);
  let class = match &run.outcome {
    None => "panic",
    Some(Err(_)) => "err",
    Some(Ok(_)) => "ok",
  };
  ctx.count(&format!("config/outcome={}", class));
  ctx.count(&format!("config/crystal={}", CRYSTAL_IDS[d.kind]));
  ctx.count(&format!("config/pm={}", d.pm));
  let s = match &run.outcome {
    Some(Ok(s)) => s.clone(),
    _ => return,
  };
  k_as_config(ctx, &s);
  // auto = explicit
  if let Some((ok, why)) = &run.auto_ok {
    ctx.s("C16.auto", *ok, "auto/explicit-call", &format!("{} {}", why, det));
  }
  // an explicitly configured poling period: magnitude |P|, sign derived (never the configured sign)
  if let PolingD::Cfg { period: AutoV::Val(p_um), .. } = &d.poling {
    let signed = |x: &SPDC| match &x.pp {
      PeriodicPoling::On { period, sign, .. } => Some(if *sign == Sign::NEGATIVE { -period.value_unsafe } else { period.value_unsafe }),
      PeriodicPoling::Off => None,
    };
    let got = signed(&s);
    let derived = guard(|| PeriodicPoling::compute_sign(&s.signal, &s.pump, &s.crystal_setup));
    let want = derived.map(|sg| if sg == Sign::NEGATIVE { -(p_um.abs() * 1e-6) } else { p_um.abs() * 1e-6 });
    let ok = match (got, want) {
      (Some(g), Some(w)) => g.signum() == w.signum() && (g - w).abs() <= 1e-12 * w.abs(),
      _ => false,
    };
    ctx.s(
      "C16.auto",
      ok,
      "poling/explicit-period-sign-derived",
      &format!("configured_um={:?} constructed_signed_m={:?} derived_signed_m={:?} {}", p_um, got, want, det),
    );
    // the same through the setup's own helper
    let via = guard(|| signed(&s.clone().with_poling_period(p_um.abs() * MICRO * M))).flatten();
    ctx.s(
      "C16.auto",
      via.is_some() && via.map(|v| v.signum()) == got.map(|g| g.signum()) && via.zip(got).map(|(a, b)| (a - b).abs() <= 1e-12 * b.abs()).unwrap_or(false),
      "poling/explicit-period=with_poling_period",
      &format!("constructed_signed_m={:?} with_poling_period_m={:?} {}", got, via, det),
    );
    // +P and -P describe the same setup
    let mut e = d.clone();
    if let PolingD::Cfg { period, .. } = &mut e.poling {
      *period = AutoV::Val(-*p_um);
    }
    let other = guard(|| SPDC::from_json(e.json().to_string()).ok()).flatten();
    ctx.s(
      "C16.auto",
      other.as_ref() == Some(&s),
      "poling/plus-minus-period-same-setup",
      &format!("configured_um={:?} other_signed_m={:?} this_signed_m={:?} {}", p_um, other.as_ref().and_then(|o| signed(o)), got, det),
    );
    // the back-converted period is |P| rounded, and the second conversion keeps the signed period
    if let Some(c) = guard(|| s.clone().as_config()) {
      let back = match &c.periodic_poling {
        PeriodicPolingConfig::Config { poling_period_um: AutoCalcParam::Param(x), .. } => Some(*x),
        _ => None,
      };
      let want_um = (p_um.abs() * 1e4).round() / 1e4;
      ctx.s(
        "C16.fields",
        back == Some(want_um) || back.map(|b| (b - p_um.abs()).abs() <= 0.5e-4 * (1.0 + 1e-6) && (b * 1e4).round() / 1e4 == b).unwrap_or(false),
        "as_config/poling-period-magnitude",
        &format!("configured_um={:?} back_um={:?} {}", p_um, back, det),
      );
      let s2 = guard(|| c.clone().try_as_spdc().ok()).flatten();
      let g2 = s2.as_ref().and_then(|x| signed(x));
      let ok2 = match (got, g2) {
        (Some(a), Some(b)) => a.signum() == b.signum() && (a - b).abs() <= 1e-4 * 1e-6 + 1e-9 * a.abs(),
        _ => false,
      };
      ctx.s("C16.fixpoint", ok2, "roundtrip/signed-period", &format!("first_signed_m={:?} second_signed_m={:?} {}", got, g2, det));
    }
  }
  // fields rounded to 4 decimals in config units
  let c1 = match guard(|| s.clone().as_config()) {
    Some(c) => c,
    None => {
      ctx.s("C16.fields", false, "as_config/panic", &det);
      return;
    }
  };
  match fields_rounded(&s, &c1) {
    Ok(()) => ctx.s("C16.fields", true, "as_config/fields", &det),
    Err(why) => {
      ctx.s("C16.fields", false, fields_sig(&why), &format!("{} {}", why, det));
    }
  }
  // the configured apodization survives: kind, and parameter (the Gaussian width rounded to 4 decimals)
  if let (Some(cfg), true) = (&run.cfg, true) {
    if let PeriodicPolingConfig::Config { apodization: want, .. } = &cfg.periodic_poling {
      let got = match &c1.periodic_poling {
        PeriodicPolingConfig::Config { apodization, .. } => Some(apodization.clone()),
        PeriodicPolingConfig::Off => None,
      };
      let ok = match (&got, want) {
        (Some(ApodizationConfig::Gaussian { fwhm_um: g }), ApodizationConfig::Gaussian { fwhm_um: w }) => {
          *g == (w * 1e4).round() / 1e4 || (*g - *w).abs() <= 0.5e-4 * (1.0 + 1e-6) && ((g * 1e4).round() / 1e4 == *g)
        }
        (Some(g), w) => g == w,
        (None, _) => false,
      };
      ctx.s(
        "C16.fields",
        ok,
        "as_config/apodization-kept",
        &format!(
          "configured={} got={} {}",
          apod_cfg_tokens(want).replace(' ', ","),
          got.as_ref().map(|g| apod_cfg_tokens(g).replace(' ', ",")).unwrap_or("off".into()),
          det
        ),
      );
    }
  }
  // second conversion reproduces the configuration
  match guard(|| c1.clone().try_as_spdc().map(|s2| s2.as_config())) {
    Some(Ok(c2)) => match config_close(&c1, &c2, 1e-9) {
      Ok(()) => ctx.s("C16.fixpoint", true, "roundtrip/fixpoint", &det),
      Err(why) => {
        // an azimuth within half a unit of the 4th decimal below 360° is emitted as 360.0, which the
        // constructor wraps to 0
        let sig = if why.contains("phi_deg first=3.6e2 second=0e0") { "roundtrip/fixpoint/phi-rounds-to-360" } else { "roundtrip/fixpoint" };
        ctx.s("C16.fixpoint", false, sig, &format!("{} {}", why, det));
      }
    },
    Some(Err(e)) => ctx.s("C16.fixpoint", false, "roundtrip/second-conversion-err", &format!("err={:?} {}", e.0, det)),
    None => ctx.s("C16.fixpoint", false, "roundtrip/second-conversion-panic", &det),
  }
  // the setup rebuilt from the configuration has the same poling profile along the crystal: windows and
  // tables are carried verbatim, so every sample position (and the nodes of a table of any length) agrees
  if let PeriodicPoling::On { apodization, .. } = &s.pp {
    if !matches!(apodization, Apodization::Gaussian { .. }) {
      let r = guard(|| {
        let s2 = c1.clone().try_as_spdc().ok()?;
        let n = match apodization {
          Apodization::Interpolate(v) => v.len(),
          _ => 0,
        };
        let mut zs: Vec<f64> = (0..=16).map(|k| -1.0 + k as f64 / 8.0).collect();
        if n > 1 {
          zs.extend((0..n).map(|k| (-1.0 + 2.0 * k as f64 / (n - 1) as f64).clamp(-1.0, 1.0)));
        }
        for z in zs {
          let a = s.pp.integration_constant(z, s.crystal_setup.length);
          let b = s2.pp.integration_constant(z, s2.crystal_setup.length);
          if !(a == b || (a - b).abs() <= 1e-12 * a.abs().max(b.abs())) {
            return Some(Err(format!("z={:?} first={:?} second={:?} first_table_len={} second={}", z, a, b, n, apod_tokens(s2.pp.apodization()).replace(' ', ","))));
          }
        }
        Some(Ok(()))
      });
      match r {
        Some(Some(Ok(()))) => ctx.s("C16.fixpoint", true, "roundtrip/apodization-profile", &det),
        Some(Some(Err(why))) => ctx.s("C16.fixpoint", false, "roundtrip/apodization-profile", &format!("{} {}", why, det)),
        // second conversion failing is reported by roundtrip/second-conversion-*; a panic in the profile is not
        Some(None) => {}
        None => ctx.s("C16.fixpoint", false, "roundtrip/apodization-profile-panic", &det),
      }
    }
  }
  match guard(|| part_conversions(&s, &c1)) {
    Some(Ok(())) => ctx.s("C16.fields", true, "as_config/part-conversions", &det),
    Some(Err(why)) => ctx.s("C16.fields", false, "as_config/part-conversions", &format!("{} {}", why.replace(' ', "_").replace("_;_", " ; "), det)),
    None => ctx.s("C16.fields", false, "as_config/part-conversions-panic", &det),
  }
  // JSON is loss-free
  let js = guard(|| {
    let txt = serde_json::to_string(&c1).ok()?;
    let back: SPDCConfig = serde_json::from_str(&txt).ok()?;
    Some((back == c1, txt))
  })
  .flatten();
  match js {
    Some((true, _)) => ctx.s("C16.json", true, "json/roundtrip", &det),
    Some((false, txt)) => ctx.s("C16.json", false, "json/roundtrip", &format!("text={} {}", txt.replace(' ', ""), det)),
    None => ctx.s("C16.json", false, "json/serde-failed", &det),
  }
  // the SPDC itself (de)serialises through its config
  let js2 = guard(|| {
    let txt = serde_json::to_string(&s).ok()?;
    let back = SPDC::from_json(&txt).ok()?;
    let mut lost = vec![];
    if back.pump_spectrum_threshold != s.pump_spectrum_threshold {
      lost.push(format!("field=pump.spectrum_threshold first={:?} second={:?}", s.pump_spectrum_threshold, back.pump_spectrum_threshold));
    }
    if back.crystal_setup.counter_propagation != s.crystal_setup.counter_propagation {
      lost.push("field=crystal.counter_propagation".to_string());
    }
    if back.crystal_setup.crystal != s.crystal_setup.crystal || back.crystal_setup.pm_type != s.crystal_setup.pm_type {
      lost.push("field=crystal.kind/pm_type".to_string());
    }
    if !lost.is_empty() {
      return Some(Err(lost.join(" ; ")));
    }
    let c = back.as_config();
    Some(config_close(&c1, &c, 1e-9))
  })
  .flatten();
  match js2 {
    Some(Ok(())) => ctx.s("C16.json", true, "json/spdc-via-config", &det),
    Some(Err(why)) => {
      let sig = if why.contains("phi_deg first=3.6e2 second=0e0") { "json/spdc-via-config/phi-rounds-to-360" } else { "json/spdc-via-config" };
      ctx.s("C16.json", false, sig, &format!("{} {}", why, det));
    }
    None => ctx.s("C16.json", false, "json/spdc-via-config", &det),
  }
}

/// omitted optional fields = documented defaults
fn defaults_case(ctx: &mut Ctx, d: &Desc) {
  let mut e = d.clone();
  if e.c_phi.is_none() {
    e.c_phi = Some(0.);
  }
  if matches!(e.c_theta, AutoV::Absent) {
    e.c_theta = AutoV::Auto;
  }
  if e.cp.is_none() {
    e.cp = Some(false);
  }
  if e.p_thr.is_none() {
    e.p_thr = Some(1e-2);
  }
  if e.signal.phi.is_none() {
    e.signal.phi = Some(0.);
  }
  if matches!(e.signal.wpos, AutoV::Absent) {
    e.signal.wpos = AutoV::Auto;
  }
  match &mut e.idler {
    IdlerD::Absent => e.idler = IdlerD::Auto,
    IdlerD::Cfg(b) => {
      if b.phi.is_none() {
        b.phi = Some(0.);
      }
      if matches!(b.wpos, AutoV::Absent) {
        b.wpos = AutoV::Auto;
      }
    }
    _ => {}
  }
  match &mut e.poling {
    PolingD::Absent => e.poling = PolingD::Off,
    PolingD::Cfg { apod, .. } => {
      if apod.is_none() {
        *apod = Some(ApodD::Off);
      }
    }
    _ => {}
  }
  let a = guard(|| SPDC::from_json(d.json().to_string()).map_err(|e| e.to_string()));
  let b = guard(|| SPDC::from_json(e.json().to_string()).map_err(|e| e.to_string()));
  let ok = match (&a, &b) {
    (Some(Ok(x)), Some(Ok(y))) => x == y,
    (Some(Err(x)), Some(Err(y))) => x == y,
    _ => false,
  };
  ctx.s("C16.defaults", ok, "defaults/omitted=documented", &format!("{} explicit={}", detail(d), e.json().to_string().replace(' ', "")));
}

/// The configured beam directions are unphysical: the signal (or an explicit idler) cannot be built,
/// has no external angle (total internal reflection / beyond 90°), or the unpoled optimum idler
/// for it has no finite angle.  Evaluated with public calls on the pieces of the real code.
fn unphysical_beam(d: &Desc) -> bool {
  let js = d.json().to_string();
  let cfg: SPDCConfig = match guard(|| serde_json::from_str::<SPDCConfig>(&js).ok()).flatten() {
    Some(c) => c,
    None => return false,
  };
  let c0: CrystalSetup = cfg.crystal.clone().into();
  let pump = cfg.pump.clone().as_beam(&c0);
  if cfg.signal.theta_deg.is_some() == cfg.signal.theta_external_deg.is_some() {
    return false;
  }
  let grazing = |te: Option<f64>| te.map(|x| x.abs() >= 89.0).unwrap_or(false);
  let steep = |t: Option<f64>| t.map(|x| (x.rem_euclid(360.0) - 180.0).abs() <= 91.0).unwrap_or(false); // |θ| ≥ 89° after wrapping
  if grazing(cfg.signal.theta_external_deg) || steep(cfg.signal.theta_deg) {
    return true;
  }
  let sig = match guard(|| cfg.signal.clone().try_as_beam(&c0).ok()).flatten() {
    Some(b) => b,
    None => return true,
  };
  if !guard(|| sig.theta_external(&c0).value_unsafe).map(|x| x.is_finite()).unwrap_or(false) {
    return true;
  }
  if sig.vacuum_wavelength() > pump.vacuum_wavelength() {
    match guard(|| spdcalc::beam::IdlerBeam::try_new_optimum(&sig, &pump, &c0, PeriodicPoling::Off)) {
      Some(Ok(i)) => {
        if !i.theta_internal().value_unsafe.is_finite() {
          return true;
        }
      }
      _ => return true,
    }
  }
  if let AutoCalcParam::Param(ic) = &cfg.idler {
    if ic.theta_deg.is_some() != ic.theta_external_deg.is_some() {
      if grazing(ic.theta_external_deg) || steep(ic.theta_deg) {
        return true;
      }
      match guard(|| ic.clone().try_as_beam(&c0).ok()).flatten() {
        Some(b) => {
          if !guard(|| b.theta_external(&c0).value_unsafe).map(|x| x.is_finite()).unwrap_or(false) {
            return true;
          }
        }
        None => return true,
      }
    }
  }
  false
}

/// C17 on one descriptor of the malformed stream
fn c17_case(ctx: &mut Ctx, d: &Desc, tag: &str, spectra: bool) {
  if std::env::var("VERIF_PANIC_LOG").is_ok() {
    eprintln!("case: {}", d.json());
  }
  clear_panic_site();
  let outcome_first = guard(|| SPDC::from_json(d.json().to_string()).is_ok());
  let construct_nm = outcome_first.is_none() && last_panic_in_nelder_mead();
  let run = run_desc(d);
  k_try(ctx, d, &run);
  let det = format!("edits={} {}", tag, detail(d));
  let class = match &run.outcome {
    None => "panic",
    Some(Err(_)) => "err",
    Some(Ok(_)) => "ok",
  };
  ctx.count(&format!("malformed/outcome={}", class));
  ctx.count(&format!("malformed/edit={}", tag.split(':').next().unwrap_or("")));
  // from_json must give the same class as try_as_spdc
  let fj = guard(|| SPDC::from_json(d.json().to_string()).is_ok());
  let same = match (&run.outcome, fj) {
    (None, None) => true,
    (Some(Ok(_)), Some(true)) => true,
    (Some(Err(_)), Some(false)) => true,
    _ => false,
  };
  let guarded = in_window(d, false) && physical(d);
  ctx.count(&format!("malformed/in-domain={}", guarded));
  if !guarded {
    return;
  }
  let ls_le_lp = d.signal.wl <= d.p_wl;
  let unphys = unphysical_beam(d);
  ctx.count(&format!("malformed/beam-angle-unphysical={}", unphys));
  let cls = |base: &str| if unphys { format!("{}/beam-angle-unphysical", base) } else { base.to_string() };
  // a construction panic is identified by its site first
  let cls_panic = |base: &str| {
    if construct_nm {
      format!("{}/nelder-mead-nan-cost", base)
    } else if unphys {
      format!("{}/beam-angle-unphysical", base)
    } else {
      base.to_string()
    }
  };
  match &run.outcome {
    None => {
      let sig = if ls_le_lp { "construct/panic/ls<=lp".to_string() } else { cls_panic("construct/panic") };
      ctx.s("C17.no_panic", false, &sig, &det);
    }
    Some(Err(_)) => ctx.s("C17.no_panic", same, "construct/err", &det),
    Some(Ok(s)) => {
      ctx.s("C17.no_panic", same, "construct/ok", &det);
      // the constructed signal or (derived) idler has no external angle: it cannot leave the crystal
      let no_exit = |b: &Beam| !guard(|| b.theta_external(&s.crystal_setup).value_unsafe).map(|x| x.is_finite()).unwrap_or(false);
      let unphys = unphys || no_exit(&s.signal) || no_exit(&s.idler);
      let cls = |base: &str| if unphys { format!("{}/beam-angle-unphysical", base) } else { base.to_string() };
      if in_window(d, true) {
        match guard(|| setup_finite(s)) {
          Some(Ok(())) => ctx.s("C17.finite", true, "setup/finite", &det),
          Some(Err(why)) => ctx.s("C17.finite", false, &cls("setup/non-finite"), &format!("bad={} {}", why, det)),
          None => ctx.s("C17.finite", false, &cls("setup/getter-panic"), &det),
        }
        ctx.count(&format!("malformed/spectra-domain={}", spectra_domain(d)));
        if spectra && spectra_domain(d) {
          clear_panic_site();
          match guard(|| spectra_finite(s)) {
            Some(Ok(())) => ctx.s("C17.spectra", true, "spectra/finite", &det),
            Some(Err(why)) => {
              let sig = if why.split(',').all(|w| w.ends_with("(zero-spectrum)")) { "spectra/non-finite/hom-zero-spectrum".to_string() } else { cls("spectra/non-finite") };
              ctx.s("C17.spectra", false, &sig, &format!("bad={} {}", why, det));
            }
            None => {
              let nm = last_panic_in_nelder_mead();
              let site_js = LAST_PANIC.lock().map(|g| g.contains("jsa/joint_spectrum.rs")).unwrap_or(false);
              // JointSpectrum::new unwraps try_as_optimum (checked again by the public call)
              let no_opt = guard(|| s.clone().try_as_optimum().is_err()).unwrap_or(true);
              let sig = if nm {
                "spectra/panic/nelder-mead-nan-cost".to_string()
              } else if site_js && no_opt {
                "spectra/panic/no-optimum-setup".to_string()
              } else {
                cls("spectra/panic")
              };
              let site = LAST_PANIC.lock().map(|g| g.clone()).unwrap_or_default();
              ctx.s("C17.spectra", false, &sig, &format!("panic_site={} {}", site.replace(' ', "_"), det));
            }
          }
        }
      }
    }
  }
  // an automatically determined period phase-matches within the crystal length, else it is an error
  if let (Some(Ok(s)), PolingD::Cfg { period: AutoV::Auto, .. }) = (&run.outcome, &d.poling) {
    let period = s.pp.signed_period().value_unsafe.abs();
    let len = s.crystal_setup.length.value_unsafe;
    ctx.s("C17.listed", period.is_finite() && period <= len, "listed/period-within-length", &format!("period={:e} length={:e} {}", period, len, det));
  }
  // the listed errors
  let is_err = matches!(run.outcome, Some(Err(_)));
  let sig_angles_bad = d.signal.theta.is_some() == d.signal.theta_e.is_some();
  if sig_angles_bad {
    ctx.s("C17.listed", is_err, "listed/signal-angles", &det);
  }
  let auto_theta = matches!(d.c_theta, AutoV::Auto | AutoV::Absent);
  if auto_theta && matches!(d.poling, PolingD::Cfg { .. }) {
    let sig = if ls_le_lp { "listed/autotheta+pp/ls<=lp".to_string() } else if run.outcome.is_none() { cls_panic("listed/autotheta+pp") } else { "listed/autotheta+pp".to_string() };
    ctx.s("C17.listed", is_err, &sig, &det);
  }
  if ls_le_lp {
    ctx.s("C17.listed", is_err, "listed/ls<=lp", &det);
  }
}

/// a poling period that cannot phase-match within the crystal length must be an error
fn period_range_case(ctx: &mut Ctx, d: &Desc) {
  // explicit optimum call on the assembled pieces
  let run = run_desc(d);
  let det = detail(d);
  if !in_window(d, true) {
    return;
  }
  let per = run.ext.split(' ').find(|t| t.starts_with("period=")).map(|t| t[7..].to_string());
  if let (Some(p), PolingD::Cfg { period: AutoV::Auto, .. }) = (per, &d.poling) {
    if p == "ERR" {
      ctx.s("C17.listed", matches!(run.outcome, Some(Err(_))), "listed/period-out-of-range", &det);
      ctx.count("malformed/period-err");
    } else if let (Some(Ok(s)), true) = (&run.outcome, p.starts_with('x')) {
      // on Ok the period must lie within the crystal length
      let period = s.pp.signed_period().value_unsafe.abs();
      let len = s.crystal_setup.length.value_unsafe;
      ctx.s("C17.listed", period <= len || period.is_infinite(), "listed/period-within-length", &format!("period={:e} length={:e} {}", period, len, det));
    }
  }
}

/// `vh config 1 1 quick json <file>` : run one JSON configuration by hand, with panic messages
fn debug_json(path: &str) {
  let _ = std::panic::take_hook();
  std::panic::set_hook(Box::new(|info| eprintln!("panic: {}", info)));
  let txt = std::fs::read_to_string(path).expect("json file");
  let r = guard(|| SPDC::from_json(&txt));
  match &r {
    None => println!("construct: PANIC"),
    Some(Err(e)) => println!("construct: Err({})", e),
    Some(Ok(s)) => {
      println!("construct: Ok");
      println!("config: {}", serde_json::to_string(&s.clone().as_config()).unwrap());
      let c1 = s.clone().as_config();
      let txt = serde_json::to_string(&c1).unwrap();
      let back: Result<SPDCConfig, _> = serde_json::from_str(&txt);
      match back {
        Ok(b) => println!("json-roundtrip-equal: {} back={}", b == c1, serde_json::to_string(&b).unwrap()),
        Err(e) => println!("json-roundtrip-err: {}", e),
      }
      println!(
        "external angles (deg): signal {:?} idler {:?}; internal: signal {:?} idler {:?}",
        guard(|| s.signal.theta_external(&s.crystal_setup).value_unsafe / DEG.value_unsafe),
        guard(|| s.idler.theta_external(&s.crystal_setup).value_unsafe / DEG.value_unsafe),
        s.signal.theta_internal().value_unsafe / DEG.value_unsafe,
        s.idler.theta_internal().value_unsafe / DEG.value_unsafe
      );
      println!("finite: {:?}", guard(|| setup_finite(s)));
      println!("spectra: {:?}", guard(|| spectra_finite(s)));
    }
  }
}

/// every auto-capable field of `d` requested as automatic (crystal angle, signal / idler waist position,
/// idler unless it is configured); poling removed (an auto crystal angle with poling is an error)
fn all_auto(d: &mut Desc) {
  d.c_theta = AutoV::Auto;
  d.poling = PolingD::Absent;
  d.signal.wpos = AutoV::Auto;
  match &mut d.idler {
    IdlerD::Cfg(b) => b.wpos = AutoV::Auto,
    other => *other = IdlerD::Auto,
  }
}

/// the Rust struct route: the configuration deserialised from the canonically spelled JSON, every auto
/// field then overwritten with `AutoCalcParam::Auto(<the descriptor's spelling>)`;
/// None = the canonical JSON does not deserialise, Some(None) = panic
fn struct_route(d: &Desc) -> Option<Option<Result<SPDC, String>>> {
  let mut canon = d.clone();
  canon.auto_sp = AutoSp::default();
  let mut cfg: SPDCConfig = guard(|| serde_json::from_str::<SPDCConfig>(&canon.json().to_string()).ok()).flatten()?;
  let sp = &d.auto_sp;
  if cfg.crystal.theta_deg.is_auto() {
    cfg.crystal.theta_deg = AutoCalcParam::Auto(sp.theta.clone());
  }
  if cfg.signal.waist_position_um.is_auto() {
    cfg.signal.waist_position_um = AutoCalcParam::Auto(sp.s_wpos.clone());
  }
  match &mut cfg.idler {
    AutoCalcParam::Param(i) => {
      if i.waist_position_um.is_auto() {
        i.waist_position_um = AutoCalcParam::Auto(sp.i_wpos.clone());
      }
    }
    other => *other = AutoCalcParam::Auto(sp.idler.clone()),
  }
  if let PeriodicPolingConfig::Config { poling_period_um, .. } = &mut cfg.periodic_poling {
    if poling_period_um.is_auto() {
      *poling_period_um = AutoCalcParam::Auto(sp.period.clone());
    }
  }
  Some(guard(|| cfg.try_as_spdc().map_err(|e| e.0)))
}

/// the listed errors through the struct route, and the same outcome as the JSON route
fn c17_struct_case(ctx: &mut Ctx, d: &Desc, tag: &str) {
  if !(in_window(d, false) && physical(d)) {
    return;
  }
  let out = match struct_route(d) {
    Some(o) => o,
    None => {
      ctx.count("spelling/struct-route-not-deserialisable");
      return;
    }
  };
  let json_out = run_desc(d).outcome;
  let det = format!("edits={} route=struct auto_spellings={:?} {}", tag, d.auto_sp, detail(d)).replace("\n", " ");
  let same = match (&out, &json_out) {
    (None, None) => true,
    (Some(Err(_)), Some(Err(_))) => true,
    (Some(Ok(a)), Some(Ok(b))) => a == b,
    _ => false,
  };
  ctx.s("C17.no_panic", same, "construct/struct-route-same-outcome", &det);
  ctx.count(&format!("spelling/struct-route-outcome={}", match &out { None => "panic", Some(Ok(_)) => "ok", Some(Err(_)) => "err" }));
  if out.is_none() {
    return; // (a panic is classified on the JSON route, which gives the same outcome)
  }
  let is_err = matches!(out, Some(Err(_)));
  if d.signal.theta.is_some() == d.signal.theta_e.is_some() {
    ctx.s("C17.listed", is_err, "listed/signal-angles/struct-route", &det);
  }
  if matches!(d.c_theta, AutoV::Auto | AutoV::Absent) && matches!(d.poling, PolingD::Cfg { .. }) {
    ctx.s("C17.listed", is_err, "listed/autotheta+pp/struct-route", &det);
  }
  if d.signal.wl <= d.p_wl {
    ctx.s("C17.listed", is_err, "listed/ls<=lp/struct-route", &det);
  }
}

/// Every spelling of an auto request the deserialiser accepts, in each of the four listed error rules and
/// in plain valid configurations, through JSON and through the struct route.
fn spelling_cases_c17(ctx: &mut Ctx) {
  let nrep = if ctx.thorough { 10 } else { 2 };
  for rep in 0..nrep {
    for (i, sp) in AUTO_SPELLINGS.iter().enumerate() {
      let base = gen_valid(&mut ctx.rng);
      // which fields the deserialiser takes as an auto request in this spelling (statistics)
      let mut probe = base.clone();
      all_auto(&mut probe);
      probe.auto_sp = AutoSp::all(sp);
      let accepted = guard(|| serde_json::from_str::<SPDCConfig>(&probe.json().to_string()).ok()).flatten().map(|c| c.crystal.theta_deg.is_auto() && c.signal.waist_position_um.is_auto());
      ctx.count(&format!("spelling/{:?}/accepted-as-auto={:?}", sp, accepted));
      let mut both = |ctx: &mut Ctx, e: &Desc, tag: &str| {
        c17_case(ctx, e, tag, false);
        c17_struct_case(ctx, e, tag);
      };
      // (1) auto crystal angle together with poling: auto period, explicit period, explicit + apodization
      for variant in 0..3 {
        let mut e = base.clone();
        e.auto_sp = AutoSp::all(sp);
        e.c_theta = AutoV::Auto;
        let per = AutoV::Val(((5.0 + 75.0 * ctx.rng.unit()) * 100.0).round() / 100.0);
        e.poling = match variant {
          0 => PolingD::Cfg { period: AutoV::Auto, apod: None },
          1 => PolingD::Cfg { period: per, apod: None },
          _ => PolingD::Cfg { period: per, apod: Some(ApodD::Gaussian(1500.0)) },
        };
        if (rep + i + variant) % 5 == 0 {
          // only the crystal angle in the odd spelling
          e.auto_sp = AutoSp { theta: sp.to_string(), ..AutoSp::default() };
        }
        both(ctx, &e, "spelling:autotheta+pp");
      }
      // (2) both / neither signal angle, every auto field in this spelling
      let mut e = base.clone();
      all_auto(&mut e);
      e.auto_sp = AutoSp::all(sp);
      if (rep + i) % 2 == 0 {
        e.signal.theta = Some(0.5);
        e.signal.theta_e = Some(1.0);
      } else {
        e.signal.theta = None;
        e.signal.theta_e = None;
      }
      both(ctx, &e, "spelling:signal-angles");
      // (3) signal wavelength not longer than the pump's, whatever else is auto
      let mut e = base.clone();
      all_auto(&mut e);
      e.auto_sp = AutoSp::all(sp);
      e.idler = IdlerD::Auto;
      e.signal.wl = if (rep + i) % 3 == 0 { (e.p_wl * 0.97 * 10.0).round() / 10.0 } else { e.p_wl };
      both(ctx, &e, "spelling:ls<=lp");
      // (4) a period that cannot phase-match within the crystal: short crystal, auto period in this spelling
      let mut e = base.clone();
      e.auto_sp = AutoSp::all(sp);
      e.poling = PolingD::Cfg { period: AutoV::Auto, apod: None };
      if matches!(e.c_theta, AutoV::Auto | AutoV::Absent) {
        e.c_theta = AutoV::Val(90.);
      }
      e.length = *ctx.rng.pick(&[0.5, 1.0, 2.0, 3.0, 5.0, 8.0, 12.0, 20.0, 50.0]);
      period_range_case(ctx, &e);
      both(ctx, &e, "spelling:short-crystal-auto-period");
      // (5) valid: every auto field in this spelling, no poling / poling with an explicit crystal angle
      let mut e = base.clone();
      if (rep + i) % 2 == 0 {
        all_auto(&mut e);
      } else {
        e.poling = PolingD::Cfg { period: AutoV::Auto, apod: None };
        if matches!(e.c_theta, AutoV::Auto | AutoV::Absent) {
          e.c_theta = AutoV::Val(90.);
        }
        e.signal.wpos = AutoV::Auto;
      }
      e.auto_sp = AutoSp::all(sp);
      both(ctx, &e, "spelling:valid");
    }
  }
}

/// C16: fields given as an auto request in any accepted spelling produce what the explicit call returns
fn spelling_cases_c16(ctx: &mut Ctx) {
  let nrep = if ctx.thorough { 6 } else { 1 };
  for rep in 0..nrep {
    for (i, sp) in AUTO_SPELLINGS.iter().enumerate() {
      let mut d = gen_valid(&mut ctx.rng);
      if (rep + i) % 2 == 0 {
        all_auto(&mut d);
      } else {
        d.poling = PolingD::Cfg { period: AutoV::Auto, apod: None };
        if matches!(d.c_theta, AutoV::Auto | AutoV::Absent) {
          d.c_theta = AutoV::Val(90.);
        }
        d.signal.wpos = AutoV::Auto;
        d.idler = IdlerD::Auto;
      }
      d.auto_sp = AutoSp::all(sp);
      ctx.count(&format!("config/auto-spelling={:?}", sp));
      c16_case(ctx, &d);
    }
  }
}

pub fn run(ctx: &mut Ctx) {
  if ctx.extra.first().map(|s| s.as_str()) == Some("json") {
    debug_json(&ctx.extra[1]);
    return;
  }
  record_panic_sites();
  let malformed = ctx.extra.iter().any(|a| a == "malformed");
  if !malformed {
    // the crate's own default and documented configurations first
    let default_cfg = SPDCConfig::default();
    if let Some(Ok(s)) = guard(|| default_cfg.clone().try_as_spdc()) {
      k_as_config(ctx, &s);
      let c1 = s.clone().as_config();
      match fields_rounded(&s, &c1) {
        Ok(()) => ctx.s("C16.fields", true, "as_config/fields", "setup=SPDC::default()"),
        Err(why) => {
          ctx.s("C16.fields", false, fields_sig(&why), &format!("{} setup=SPDC::default()", why));
        }
      }
    }
    // every apodization kind together with an "auto" (and an explicit) poling period
    let kinds: Vec<Option<ApodD>> = vec![
      None,
      Some(ApodD::Off),
      Some(ApodD::Gaussian(1234.5678)),
      Some(ApodD::Gaussian(1004.07)),
      Some(ApodD::Named("Bartlett", 1.25)),
      Some(ApodD::Named("Blackman", 0.875)),
      Some(ApodD::Named("Connes", 1.5)),
      Some(ApodD::Named("Cosine", 2.0)),
      Some(ApodD::Named("Hamming", 0.7)),
      Some(ApodD::Named("Welch", 1.125)),
      Some(ApodD::Interpolate(vec![0.1, 0.5, 1.0, 0.5, 0.1])),
      Some(ApodD::Interpolate(vec![])),
    ];
    for a in kinds.iter() {
      for auto in [true, false] {
        let mut d = gen_valid(&mut ctx.rng);
        d.kind = 1;
        d.pm = 3;
        d.pm_spelling = "e->eo".into();
        d.c_phi = Some(0.);
        d.c_theta = AutoV::Val(90.);
        d.length = 14000.;
        d.cp = None;
        d.p_wl = 775.;
        d.signal.wl = 1550.;
        d.signal.theta = None;
        d.signal.theta_e = Some(0.);
        d.idler = IdlerD::Auto;
        d.poling = PolingD::Cfg { period: if auto { AutoV::Auto } else { AutoV::Val(46.5) }, apod: a.clone() };
        c16_case(ctx, &d);
      }
    }
    // every interpolation-table shape (hand-made profiles: padding, flat tops, steps, constant, single, empty,
    // long) with an "auto" and an explicit period on the documented KTP setup
    for rep in 0..(if ctx.thorough { 6 } else { 2 }) {
      for shape in 0..INTERP_SHAPES {
        let (v, name) = interp_table_of_shape(&mut ctx.rng, shape);
        ctx.count(&format!("config/interpolate-shape={}", name));
        let mut d = gen_valid(&mut ctx.rng);
        d.kind = 1;
        d.pm = 3;
        d.pm_spelling = "e->eo".into();
        d.c_phi = Some(0.);
        d.c_theta = AutoV::Val(90.);
        d.length = 14000.;
        d.cp = None;
        d.p_wl = 775.;
        d.signal.wl = 1550.;
        d.signal.theta = None;
        d.signal.theta_e = Some(0.);
        d.idler = IdlerD::Auto;
        d.poling = PolingD::Cfg { period: if rep % 2 == 0 { AutoV::Auto } else { AutoV::Val(46.52) }, apod: Some(ApodD::Interpolate(v)) };
        c16_case(ctx, &d);
      }
    }
    apod_direct_cases(ctx);
    // explicit periods of both signs on setups whose phase mismatch asks for either sign:
    // types 0/1/2, 0° and 90° cuts, counter-propagation on/off
    let setups: [(usize, usize, &str, f64, f64); 8] = [
      (1, 1, "e->ee", 775., 1550.),        // KTP type 0
      (1, 0, "o->oo", 775., 1550.),        // KTP type 0
      (3, 1, "Type0_e_ee", 532., 1064.),   // LiNbO3 type 0
      (1, 3, "e->eo", 775., 1550.),        // KTP type 2
      (1, 4, "e->oe", 775., 1550.),        // KTP type 2
      (0, 3, "e->eo", 405., 810.),         // BBO type 2
      (0, 2, "e->oo", 405., 810.),         // BBO type 1
      (4, 2, "Type1_e_oo", 532., 1064.),   // LiNb:MgO type 1
    ];
    for (kind, pm, spelling, lp, ls) in setups.iter() {
      for theta in [0.0, 90.0, 30.5] {
        for cp in [None, Some(true)] {
          for period in [9.25, -9.25, 46.5, -46.5] {
            let mut d = gen_valid(&mut ctx.rng);
            d.kind = *kind;
            d.pm = *pm;
            d.pm_spelling = spelling.to_string();
            d.c_phi = Some(0.);
            d.c_theta = AutoV::Val(theta);
            d.cp = cp;
            d.length = 10000.;
            d.p_wl = *lp;
            d.signal.wl = *ls;
            d.signal.theta = Some(0.);
            d.signal.theta_e = None;
            d.idler = IdlerD::Auto;
            d.poling = PolingD::Cfg { period: AutoV::Val(period), apod: None };
            c16_case(ctx, &d);
          }
        }
      }
    }
    // boundary: azimuths that round up to 360.0000
    for phi in [359.99996, 359.99995, 359.9999, 359.99994] {
      let mut d = gen_valid(&mut ctx.rng);
      d.signal.phi = Some(phi);
      d.signal.theta = Some(0.5);
      d.signal.theta_e = None;
      c16_case(ctx, &d);
    }
    sigfigs_cases(ctx);
    for k in 0..ctx.n {
      let mut d = gen_valid(&mut ctx.rng);
      if k % 4 == 3 {
        widen(&mut ctx.rng, &mut d);
        ctx.count("config/widened");
      }
      if k % 4 == 1 {
        if let Some(shape) = structure_apod(&mut ctx.rng, &mut d) {
          ctx.count(&format!("config/interpolate-shape={}", shape));
        }
      }
      c16_case(ctx, &d);
      if ctx.rng.below(4) == 0 {
        defaults_case(ctx, &d);
      }
    }
    spelling_cases_c16(ctx);
  } else {
    let nspec = if ctx.thorough { ctx.n / 4 } else { ctx.n / 8 };
    for k in 0..ctx.n {
      let (d, tag) = gen_malformed(&mut ctx.rng);
      c17_case(ctx, &d, &tag, k < nspec);
    }
    // valid stream too: construction of valid configurations must not panic either
    for k in 0..ctx.n / 2 {
      let d = gen_valid(&mut ctx.rng);
      c17_case(ctx, &d, "none", k < nspec / 2);
    }
    // strongly non-degenerate down-conversion inside the window: ½ < |ωs − ωi| / ωp < ¾ either way round
    let nnd = if ctx.thorough { 120 } else { 16 };
    let mut made = 0;
    let mut tries = 0;
    while made < nnd && tries < 50 * nnd {
      tries += 1;
      let mut d = gen_valid(&mut ctx.rng);
      d.kind = *ctx.rng.pick(&[0usize, 1, 1, 8, 9, 10]);
      let (wlo, whi) = WINDOWS_NM[d.kind];
      let q = if ctx.rng.coin() { ctx.rng.range(1.15, 1.33) } else { ctx.rng.range(4.05, 7.4) };
      d.p_wl = (ctx.rng.range(wlo.max(380.), 600.0_f64.max(wlo + 50.)) * 10.).round() / 10.;
      d.signal.wl = (d.p_wl * q * 100.).round() / 100.;
      let i_wl = d.signal.wl * d.p_wl / (d.signal.wl - d.p_wl);
      if !(d.signal.wl >= wlo && d.signal.wl <= whi && i_wl >= wlo && i_wl <= whi) {
        continue;
      }
      d.idler = IdlerD::Auto;
      d.signal.theta = Some(0.);
      d.signal.theta_e = None;
      made += 1;
      c17_case(ctx, &d, "nondegenerate", true);
    }
    ctx.count(&format!("malformed/nondegenerate-made={}", made));
    // both signal angles given, on boundary VALUES of either angle (and neither), x auto/explicit
    // crystal angle x poling; the same pairs on an explicit idler
    let internals = [0.0, -0.0, 1e-300, 1e-9, -1e-9, 1.0, -5.0, 90.0, 400.0, -400.0];
    let externals = [0.0, -0.0, 1e-9, 3.0, -3.0, 89.9999, 400.0, -400.0];
    let npairs = if ctx.thorough { 4 } else { 1 };
    for _ in 0..npairs {
      for ti in internals.iter() {
        for te in externals.iter() {
          let mut d = gen_valid(&mut ctx.rng);
          d.signal.theta = Some(*ti);
          d.signal.theta_e = Some(*te);
          match ctx.rng.below(4) {
            0 => {
              d.c_theta = AutoV::Auto;
              d.poling = PolingD::Absent;
            }
            1 => {
              d.c_theta = AutoV::Val(33.0);
              d.poling = PolingD::Cfg { period: AutoV::Auto, apod: None };
            }
            _ => {}
          }
          c17_case(ctx, &d, "both-angles-grid", false);
          // the idler's pair
          if ctx.rng.below(3) == 0 {
            let mut e = gen_valid(&mut ctx.rng);
            let i_wl = e.signal.wl * e.p_wl / (e.signal.wl - e.p_wl);
            e.idler = IdlerD::Cfg(BeamD { wl: (i_wl * 100.).round() / 100., phi: None, theta: Some(*ti), theta_e: Some(*te), waist: 100., wpos: AutoV::Absent });
            let run = run_desc(&e);
            k_try(ctx, &e, &run);
            ctx.s("C17.listed", matches!(run.outcome, Some(Err(_))), "listed/idler-angles", &format!("edits=idler-both-angles {}", detail(&e)));
          }
        }
      }
      let mut d = gen_valid(&mut ctx.rng);
      d.signal.theta = None;
      d.signal.theta_e = None;
      c17_case(ctx, &d, "no-angle", false);
    }
    // two steps: the full-precision result of an "auto" crystal angle fed back explicitly together
    // with an "auto" poling period (the crystal is then phase-matched without poling)
    let uniaxial = [0usize, 3, 4, 5, 8, 9];
    let nsteps = if ctx.thorough { 60 } else { 8 };
    for _ in 0..nsteps {
      let mut d = gen_valid(&mut ctx.rng);
      d.kind = *ctx.rng.pick(&uniaxial);
      let (wlo, whi) = WINDOWS_NM[d.kind];
      d.p_wl = ((wlo.max(350.) + 0.3 * (whi / 2.0 - wlo.max(350.)).max(0.0) * ctx.rng.unit()) * 10.).round() / 10.;
      d.signal.wl = 2.0 * d.p_wl;
      d.pm = *ctx.rng.pick(&[2usize, 3, 4]);
      d.pm_spelling = ["Type1_e_oo", "Type2_e_eo", "Type2_e_oe"][d.pm - 2].to_string();
      d.signal.theta = Some(*ctx.rng.pick(&[0.0, 1.0, 3.0]));
      d.signal.theta_e = None;
      d.length = *ctx.rng.pick(&[500.0, 2000.0, 20000.0]);
      d.c_theta = AutoV::Auto;
      d.poling = PolingD::Absent;
      d.idler = IdlerD::Auto;
      d.cp = None;
      let first = guard(|| SPDC::from_json(d.json().to_string()));
      let theta_deg = match first {
        Some(Ok(s)) => s.crystal_setup.theta.value_unsafe / DEG.value_unsafe,
        _ => continue,
      };
      ctx.count("two-step/first-ok");
      for off in [0.0, 1e-12, -1e-12, 1e-9, -1e-9, 1e-6, -1e-6] {
        let mut e = d.clone();
        e.c_theta = AutoV::Val(theta_deg + off);
        e.poling = PolingD::Cfg { period: AutoV::Auto, apod: None };
        c17_case(ctx, &e, "two-step-auto-angle-then-auto-period", false);
      }
    }
    // every numeric leaf of the nested apodization section outside its usual range (all nine kinds: negative, zero,
    // above 1, percent, huge, tiny, empty / single / long tables) on poled setups: construction is Ok or Err, never
    // a panic; spectra on the setups whose profile is bounded and does not cancel
    let napod = if ctx.thorough { ctx.n / 8 } else { ctx.n / 6 };
    let napod_spec = if ctx.thorough { 500 } else { 40 };
    for k in 0..napod {
      let mut d = gen_valid(&mut ctx.rng);
      if k % 3 == 0 {
        // the documented PPKTP source
        d.kind = 1;
        d.pm = 3;
        d.pm_spelling = "e->eo".into();
        d.c_phi = Some(0.);
        d.length = 14000.;
        d.cp = None;
        d.p_wl = 775.;
        d.signal.wl = 1550.;
        d.signal.theta = None;
        d.signal.theta_e = Some(0.);
        d.idler = IdlerD::Auto;
      }
      if matches!(d.c_theta, AutoV::Auto | AutoV::Absent) || k % 3 == 0 {
        d.c_theta = AutoV::Val(90.);
      }
      let (a, tag) = gen_odd_apod(&mut ctx.rng);
      let period = match &d.poling {
        PolingD::Cfg { period, .. } if k % 3 != 0 => period.clone(),
        _ => {
          if ctx.rng.below(3) == 0 {
            AutoV::Val(46.1)
          } else {
            AutoV::Auto
          }
        }
      };
      d.poling = PolingD::Cfg { period, apod: Some(a.clone()) };
      ctx.count(&format!("malformed/odd-apodization={}", tag.split('/').next().unwrap_or("")));
      c17_case(ctx, &d, &format!("odd-apodization:{}", tag), k < napod_spec);
      // the section on its own: deserialising an `Apodization` / a `PeriodicPolingConfig`, and the typed conversion
      let js = apod_json(&a);
      let r1 = guard(|| serde_json::from_value::<Apodization>(js.clone()).is_ok());
      let r2 = guard(|| serde_json::from_value::<ApodizationConfig>(js.clone()).map(Apodization::from).is_ok());
      ctx.s(
        "C17.no_panic",
        r1.is_some() && r2.is_some() && r1 == r2,
        "construct/apodization-section",
        &format!("deserialize_apodization={:?} deserialize_config_then_from={:?} section={}", r1, r2, js.to_string().replace(' ', "")),
      );
    }
    // one numeric leaf of any nested section outside its usual range, on top of a valid (3 in 4) or malformed descriptor
    for k in 0..ctx.n / 3 {
      let (mut d, mut tag) = if k % 4 == 3 { gen_malformed(&mut ctx.rng) } else { (gen_valid(&mut ctx.rng), String::new()) };
      let leaf = odd_leaf(&mut ctx.rng, &mut d);
      if !tag.is_empty() {
        tag.push('+');
      }
      tag.push_str("odd-leaf:");
      tag.push_str(&leaf);
      ctx.count(&format!("malformed/odd-leaf={}", leaf.split('=').next().unwrap_or("")));
      c17_case(ctx, &d, &tag, k % 8 == 0);
    }
    // short crystals with auto period
    for _ in 0..ctx.n / 4 {
      let mut d = gen_valid(&mut ctx.rng);
      d.poling = PolingD::Cfg { period: AutoV::Auto, apod: None };
      if matches!(d.c_theta, AutoV::Auto | AutoV::Absent) {
        d.c_theta = AutoV::Val(90.);
      }
      d.length = *ctx.rng.pick(&[0.5, 1.0, 2.0, 3.0, 5.0, 8.0, 12.0, 20.0, 50.0]);
      period_range_case(ctx, &d);
      let run = run_desc(&d);
      k_try(ctx, &d, &run);
    }
    spelling_cases_c17(ctx);
  }
}
