//! C12 — quadrature methods (`src/math/integration.rs`)
//!
//! K ops (correspondence with the Lean model): simpson, simpson2d, adaptive, adaptive2d, gl, gl2d, glmom.
//! S predicates (the statement, on the real code): exactness in the degree class, oscillatory accuracy,
//! reversal, linearity, separability, bounded time, 1-D accepted ⇒ 2-D accepted.
use crate::common::*;
use spdcalc::math::{simpson, simpson2d, simpson_adaptive, Integrator};
use spdcalc::Complex;
use std::sync::atomic::{AtomicUsize, Ordering};
use std::sync::mpsc;
use std::sync::Arc;
use std::time::{Duration, Instant};

type C = Complex<f64>;

// ------------------------------------------------------------------ integrands

#[derive(Clone, Debug)]
pub enum I1 {
  Poly(Vec<C>),
  Exp { k: f64, amp: C },
  Ind(f64),
  /// structured polynomial `P_r(x)·w_r(x) + i·P_i(x)·w_i(x)` with real `P` and windows tied to an interval
  /// `[a,b]` (`m = 0.5(a+b)`): mode 0: `1`, 1: `(x−a)(b−x)`, 2: `(x−a)(b−x)(x−m)²`, 3: `0` — real or imaginary
  /// part vanishing EXACTLY at the end points / midpoint, purely real / purely imaginary integrands
  Win { a: f64, b: f64, pr: Vec<f64>, pi: Vec<f64>, mr: u8, mi: u8 },
}

fn horner_r(cs: &[f64], x: f64) -> f64 {
  cs.iter().rev().fold(0., |acc, c| acc * x + c)
}

fn win_mode(mode: u8, a: f64, b: f64, x: f64) -> f64 {
  let m = 0.5 * (a + b);
  match mode {
    0 => 1.,
    1 => (x - a) * (b - x),
    2 => ((x - a) * (b - x)) * ((x - m) * (x - m)),
    _ => 0.,
  }
}

fn poly_mul(p: &[f64], q: &[f64]) -> Vec<f64> {
  if p.is_empty() || q.is_empty() {
    return vec![];
  }
  let mut r = vec![0.; p.len() + q.len() - 1];
  for (i, x) in p.iter().enumerate() {
    for (j, y) in q.iter().enumerate() {
      r[i + j] += x * y;
    }
  }
  r
}

fn win_poly(mode: u8, a: f64, b: f64) -> Vec<f64> {
  let m = 0.5 * (a + b);
  let w1 = vec![-a * b, a + b, -1.];
  match mode {
    0 => vec![1.],
    1 => w1,
    2 => poly_mul(&w1, &[m * m, -2. * m, 1.]),
    _ => vec![],
  }
}

fn horner(cs: &[C], x: f64) -> C {
  cs.iter().rev().fold(C::new(0., 0.), |acc, c| acc * x + c)
}

impl I1 {
  pub fn eval(&self, x: f64) -> C {
    match self {
      I1::Poly(cs) => horner(cs, x),
      I1::Exp { k, amp } => C::new((k * x).cos(), (k * x).sin()) * amp,
      I1::Ind(x0) => {
        if x == *x0 {
          C::new(1., 0.)
        } else {
          C::new(0., 0.)
        }
      }
      I1::Win { a, b, pr, pi, mr, mi } => C::new(horner_r(pr, x) * win_mode(*mr, *a, *b, x), horner_r(pi, x) * win_mode(*mi, *a, *b, x)),
    }
  }
  /// the expanded complex polynomial of a structured integrand
  pub fn to_poly(&self) -> I1 {
    match self {
      I1::Win { a, b, pr, pi, mr, mi } => {
        let re = poly_mul(pr, &win_poly(*mr, *a, *b));
        let im = poly_mul(pi, &win_poly(*mi, *a, *b));
        let n = re.len().max(im.len()).max(1);
        I1::Poly((0..n).map(|j| C::new(*re.get(j).unwrap_or(&0.), *im.get(j).unwrap_or(&0.))).collect())
      }
      other => other.clone(),
    }
  }
  pub fn wire(&self) -> String {
    match self {
      I1::Poly(cs) => {
        let mut s = format!("poly {}", cs.len());
        for c in cs {
          s.push_str(&format!(" {} {}", fl(c.re), fl(c.im)));
        }
        s
      }
      I1::Exp { k, amp } => format!("exp {} {} {}", fl(*k), fl(amp.re), fl(amp.im)),
      I1::Ind(x0) => format!("ind {}", fl(*x0)),
      I1::Win { a, b, pr, pi, mr, mi } => format!("win {} {} {} {} {} {} {} {}", fl(*a), fl(*b), mr, mi, pr.len(), fls(pr), pi.len(), fls(pi)).replace("  ", " ").trim_end().to_string(),
    }
  }
  pub fn describe(&self) -> String {
    match self {
      I1::Poly(cs) => format!(
        "poly[{}]",
        cs.iter().map(|c| format!("({:e},{:e})", c.re, c.im)).collect::<Vec<_>>().join(";")
      ),
      I1::Exp { k, amp } => format!("exp[k:{:e};amp:({:e},{:e})]", k, amp.re, amp.im),
      I1::Ind(x0) => format!("ind[{:e}]", x0),
      I1::Win { a, b, pr, pi, mr, mi } => format!(
        "win[a:{:e};b:{:e};re-mode:{};im-mode:{};re:{};im:{}]",
        a, b, mr, mi,
        pr.iter().map(|c| format!("{:e}", c)).collect::<Vec<_>>().join(";"),
        pi.iter().map(|c| format!("{:e}", c)).collect::<Vec<_>>().join(";")
      ),
    }
  }
  /// polynomial degree (number of coefficients − 1 after trimming zeros); None for non-polynomials
  pub fn degree(&self) -> Option<usize> {
    match self {
      I1::Poly(cs) => {
        let mut n = cs.len();
        while n > 0 && cs[n - 1] == C::new(0., 0.) {
          n -= 1;
        }
        Some(n.saturating_sub(1))
      }
      I1::Win { .. } => self.to_poly().degree(),
      _ => None,
    }
  }
  /// upper bound of sup|f| on the interval
  pub fn sup(&self, a: f64, b: f64) -> f64 {
    let m = a.abs().max(b.abs());
    match self {
      I1::Poly(cs) => cs.iter().rev().fold(0., |acc, c| acc * m + c.norm()),
      I1::Exp { amp, .. } => amp.norm(),
      I1::Ind(_) => 1.,
      I1::Win { .. } => self.to_poly().sup(a, b),
    }
  }
  /// upper bound of sup|f^(r)| on the interval
  pub fn sup_deriv(&self, r: usize, a: f64, b: f64) -> f64 {
    let m = a.abs().max(b.abs());
    match self {
      I1::Poly(cs) => {
        let mut tot = 0.;
        for (j, c) in cs.iter().enumerate() {
          if j >= r {
            let mut ff = 1.;
            for q in 0..r {
              ff *= (j - q) as f64;
            }
            tot += ff * c.norm() * m.powi((j - r) as i32);
          }
        }
        tot
      }
      I1::Exp { k, amp } => amp.norm() * k.abs().powi(r as i32),
      I1::Ind(_) => f64::INFINITY,
      I1::Win { .. } => self.to_poly().sup_deriv(r, a, b),
    }
  }
  /// `|b−a|·sup|f|` — the scale the results are compared at
  pub fn scale(&self, a: f64, b: f64) -> f64 {
    let s = (b - a).abs() * self.sup(a, b);
    if s > 0. && s.is_finite() {
      s
    } else {
      1.
    }
  }
  /// the same integrand scaled so that `|b−a|·sup|f| = 1` (for the tolerance-driven methods the requested
  /// tolerance then means the same read as absolute or as relative to the integral's scale)
  pub fn normalised(&self, a: f64, b: f64) -> I1 {
    let s = 1. / self.scale(a, b);
    match self {
      I1::Poly(cs) => I1::Poly(cs.iter().map(|c| c * s).collect()),
      I1::Exp { k, amp } => I1::Exp { k: *k, amp: amp * s },
      I1::Ind(x) => I1::Ind(*x),
      I1::Win { a: wa, b: wb, pr, pi, mr, mi } => {
        I1::Win { a: *wa, b: *wb, pr: pr.iter().map(|c| c * s).collect(), pi: pi.iter().map(|c| c * s).collect(), mr: *mr, mi: *mi }
      }
    }
  }
  /// phase advance `|k|·|b−a|` across the interval (0 for polynomials)
  pub fn kl(&self, a: f64, b: f64) -> f64 {
    match self {
      I1::Exp { k, .. } => (k * (b - a)).abs(),
      _ => 0.,
    }
  }
  /// the integral in closed form (numerically stable: Taylor shift to the midpoint / sinc form)
  pub fn exact(&self, a: f64, b: f64) -> C {
    let m = 0.5 * (a + b);
    let h = 0.5 * (b - a);
    match self {
      I1::Poly(cs) => {
        // q(t) = p(m + t): repeated synthetic division
        let mut q: Vec<C> = cs.clone();
        let n = q.len();
        for i in 0..n {
          for j in (i..n.saturating_sub(1)).rev() {
            let up = q[j + 1];
            q[j] += up * m;
          }
        }
        let mut tot = C::new(0., 0.);
        let mut hp = h; // h^(j+1)
        for (j, c) in q.iter().enumerate() {
          if j % 2 == 0 {
            tot += c * (2. * hp / (j as f64 + 1.));
          }
          hp *= h;
        }
        tot
      }
      I1::Exp { k, amp } => {
        let kh = k * h;
        let sinc = if kh.abs() < 1e-8 { 1. - kh * kh / 6. } else { kh.sin() / kh };
        C::new((k * m).cos(), (k * m).sin()) * amp * (2. * h * sinc)
      }
      I1::Ind(_) => C::new(0., 0.),
      I1::Win { .. } => self.to_poly().exact(a, b),
    }
  }
}

#[derive(Clone, Debug)]
pub enum I2 {
  Sep(I1, I1),
  Poly2(Vec<Vec<C>>),
}

impl I2 {
  pub fn eval(&self, x: f64, y: f64) -> C {
    match self {
      I2::Sep(g, h) => g.eval(x) * h.eval(y),
      I2::Poly2(rows) => rows.iter().rev().fold(C::new(0., 0.), |acc, row| acc * y + horner(row, x)),
    }
  }
  pub fn wire(&self) -> String {
    match self {
      I2::Sep(g, h) => format!("sep {} {}", g.wire(), h.wire()),
      I2::Poly2(rows) => {
        let cols = rows.first().map(|r| r.len()).unwrap_or(0);
        let mut s = format!("poly2 {} {}", rows.len(), cols);
        for r in rows {
          for c in r {
            s.push_str(&format!(" {} {}", fl(c.re), fl(c.im)));
          }
        }
        s
      }
    }
  }
  pub fn describe(&self) -> String {
    match self {
      I2::Sep(g, h) => format!("sep[{}|{}]", g.describe(), h.describe()),
      I2::Poly2(rows) => format!(
        "poly2[{}]",
        rows
          .iter()
          .map(|r| r.iter().map(|c| format!("({:e},{:e})", c.re, c.im)).collect::<Vec<_>>().join(";"))
          .collect::<Vec<_>>()
          .join("/")
      ),
    }
  }
  pub fn sup(&self, ax: f64, bx: f64, ay: f64, by: f64) -> f64 {
    match self {
      I2::Sep(g, h) => g.sup(ax, bx) * h.sup(ay, by),
      I2::Poly2(rows) => {
        let mx = ax.abs().max(bx.abs());
        let my = ay.abs().max(by.abs());
        rows
          .iter()
          .rev()
          .fold(0., |acc, row| acc * my + row.iter().rev().fold(0., |a2, c| a2 * mx + c.norm()))
      }
    }
  }
  pub fn scale(&self, ax: f64, bx: f64, ay: f64, by: f64) -> f64 {
    let s = ((bx - ax) * (by - ay)).abs() * self.sup(ax, bx, ay, by);
    if s > 0. && s.is_finite() {
      s
    } else {
      1.
    }
  }
  pub fn exact(&self, ax: f64, bx: f64, ay: f64, by: f64) -> C {
    match self {
      I2::Sep(g, h) => g.exact(ax, bx) * h.exact(ay, by),
      I2::Poly2(rows) => {
        // Σ_j (∫ row_j dx) ∫ y^j dy — integrate each row in x, then the resulting polynomial in y
        let ycoef: Vec<C> = rows.iter().map(|r| I1::Poly(r.clone()).exact(ax, bx)).collect();
        I1::Poly(ycoef).exact(ay, by)
      }
    }
  }
  /// (degree in x, degree in y) for polynomial integrands
  pub fn degrees(&self) -> Option<(usize, usize)> {
    match self {
      I2::Sep(g, h) => Some((g.degree()?, h.degree()?)),
      I2::Poly2(rows) => {
        let dy = rows.len().saturating_sub(1);
        let dx = rows.iter().map(|r| I1::Poly(r.clone()).degree().unwrap_or(0)).max().unwrap_or(0);
        Some((dx, dy))
      }
    }
  }
}

// ------------------------------------------------------------------ generators

fn gen_c(r: &mut Rng) -> C {
  match r.below(8) {
    0 => C::new(r.normal(), 0.),
    1 => C::new(0., r.normal()),
    2 => C::new(0., 0.),
    _ => C::new(r.normal(), r.normal()),
  }
}

pub fn gen_poly(r: &mut Rng, max_deg: usize) -> I1 {
  let deg = r.between(0, max_deg);
  let mag = match r.below(6) {
    0 => r.log_range(1e-6, 1e6),
    _ => 1.,
  };
  let mut cs: Vec<C> = (0..=deg).map(|_| gen_c(r) * mag).collect();
  if cs[deg] == C::new(0., 0.) {
    cs[deg] = C::new(mag, -0.5 * mag);
  }
  I1::Poly(cs)
}

/// structured polynomial of total degree ≤ `max_deg` (≥ 4) on the interval `[a,b]`
pub fn gen_win(r: &mut Rng, a: f64, b: f64, max_deg: usize) -> I1 {
  // (re-mode, im-mode): imaginary part vanishing at the ends / ends+midpoint, the same for the real part,
  // purely real, purely imaginary, both windowed
  let (mr, mi) = *r.pick(&[(0u8, 1u8), (0, 2), (1, 2), (1, 0), (2, 0), (2, 1), (0, 3), (3, 0), (1, 1), (2, 2), (3, 2), (2, 3)]);
  let wdeg = |m: u8| match m {
    1 => 2usize,
    2 => 4,
    _ => 0,
  };
  let mut mk = |m: u8| -> Vec<f64> {
    if m == 3 {
      return vec![];
    }
    let d = r.between(0, max_deg.saturating_sub(wdeg(m)).min(12));
    // even / odd / full coefficient patterns
    let parity = r.below(3);
    (0..=d)
      .map(|j| if parity < 2 && j % 2 != parity && j != d { 0. } else { r.range(0.3, 1.5) * if r.coin() { 1. } else { -1. } })
      .collect()
  };
  let pr = mk(mr);
  let pi = mk(mi);
  I1::Win { a, b, pr, pi, mr, mi }
}

/// one time in four: replace `f` by a structured polynomial on `[a,b]` (inside / just above the degree class of `m`)
fn maybe_win(r: &mut Rng, f: I1, m: Option<&Integrator>, a: f64, b: f64) -> I1 {
  if r.below(4) != 0 || !(a.abs() <= 20. && b.abs() <= 20.) {
    return f;
  }
  let max_deg = match m.and_then(degree_class) {
    Some(dc) => (dc + if r.coin() { 0 } else { 2 }).min(24),
    None => 8,
  };
  gen_win(r, a, b, max_deg)
}

pub fn gen_exp(r: &mut Rng, kmax: f64) -> I1 {
  let k = match r.below(8) {
    0 => 0.,
    1 => r.range(-1e-3, 1e-3),
    _ => r.range(-kmax, kmax),
  };
  let amp = C::from_polar(r.range(0.5, 2.0), r.range(0., std::f64::consts::TAU));
  I1::Exp { k, amp }
}

/// interval with `a < b`; classes: unit-sized, a few units, far from the origin, tiny, wide
pub fn gen_interval(r: &mut Rng, wide: bool) -> (f64, f64) {
  let (a, b) = match r.below(if wide { 8 } else { 4 }) {
    0 => (-1., 1.),
    1 => (0., r.range(0.1, 3.0)),
    2 => {
      let a = r.range(-2., 2.);
      (a, a + r.range(0.05, 3.))
    }
    3 => (r.range(-1.5, -0.2), r.range(0.2, 1.5)),
    4 => {
      let a = r.range(-10., 10.);
      (a, a + r.range(0.5, 10.))
    }
    5 => {
      let a = r.range(-1000., 1000.);
      (a, a + r.range(0.1, 50.))
    }
    6 => {
      let a = r.range(-1e-3, 1e-3);
      (a, a + r.log_range(1e-9, 1e-3))
    }
    _ => (r.range(-3e3, 0.), r.range(0., 3e3)),
  };
  (a, b)
}

fn gen_tol(r: &mut Rng) -> f64 {
  match r.below(4) {
    0 => 1e-3,
    1 => 1e-12,
    _ => r.log_range(1e-12, 1e-3),
  }
}

// ------------------------------------------------------------------ timed calls

#[derive(Clone, Copy, Debug)]
pub enum Res {
  Val(C),
  Panic,
  Timeout,
}

impl Res {
  fn val(&self) -> Option<C> {
    if let Res::Val(c) = self {
      Some(*c)
    } else {
      None
    }
  }
  fn tag(&self) -> &'static str {
    match self {
      Res::Val(_) => "ok",
      Res::Panic => "panic",
      Res::Timeout => "timeout",
    }
  }
}

type Job = Box<dyn FnOnce() + Send + 'static>;
/// the worker thread on which every `Integrator` call of the predicates runs, one after the other — so that
/// state kept by the implementation between calls (thread-local caches, statics) sees a real call history
static WORKER: std::sync::Mutex<Option<mpsc::Sender<Job>>> = std::sync::Mutex::new(None);
static WORKER_SPAWNS: AtomicUsize = AtomicUsize::new(0);

/// run `f` on the worker thread with a wall-clock cap; on timeout the worker is abandoned (it dies with the
/// process) and the next call gets a fresh one
pub fn timed<F>(cap: Duration, f: F) -> (Res, f64)
where
  F: FnOnce() -> C + Send + 'static,
{
  let (tx, rx) = mpsc::channel();
  let job: Job = Box::new(move || {
    let r = guard(f);
    let _ = tx.send(r);
  });
  let mut w = WORKER.lock().unwrap();
  if w.is_none() {
    let (jtx, jrx) = mpsc::channel::<Job>();
    std::thread::Builder::new()
      .stack_size(32 << 20)
      .spawn(move || {
        for j in jrx {
          j()
        }
      })
      .expect("spawn");
    WORKER_SPAWNS.fetch_add(1, Ordering::Relaxed);
    *w = Some(jtx);
  }
  let t0 = Instant::now();
  w.as_ref().unwrap().send(job).expect("worker alive");
  let r = match rx.recv_timeout(cap) {
    Ok(Some(c)) => Res::Val(c),
    Ok(None) => Res::Panic,
    Err(_) => {
      *w = None;
      Res::Timeout
    }
  };
  (r, t0.elapsed().as_secs_f64())
}

/// a sample of the calls made so far, re-evaluated at the end of the run (history independence)
#[derive(Clone)]
enum Call {
  D1(I1, f64, f64),
  D2(I2, f64, f64, f64, f64),
}
static HISTORY: std::sync::Mutex<Vec<(Integrator, Call, C)>> = std::sync::Mutex::new(Vec::new());
static HISTORY_SEEN: AtomicUsize = AtomicUsize::new(0);

fn remember(m: &Integrator, call: Call, r: &Res) {
  if let Res::Val(v) = r {
    let k = HISTORY_SEEN.fetch_add(1, Ordering::Relaxed);
    let mut h = HISTORY.lock().unwrap();
    // keep every call while few, then every 7th (Gauss–Kronrod: every 3rd of its own, it is slow)
    let keep = h.len() < 300 || k % 7 == 0;
    let keep = keep && !(matches!(m, Integrator::GaussKonrod { .. }) && k % 3 != 0);
    if keep && h.len() < 3000 {
      h.push((*m, call, *v));
    }
  }
}

fn method_name(m: &Integrator) -> String {
  match m {
    Integrator::Simpson { divs } => format!("method=simpson divs={}", divs),
    Integrator::AdaptiveSimpson { tolerance, max_depth } => {
      format!("method=adaptive tol={:e} depth={}", tolerance, max_depth)
    }
    Integrator::GaussKonrod { tolerance, max_depth } => format!("method=gk tol={:e} depth={}", tolerance, max_depth),
    Integrator::GaussLegendre { degree } => format!("method=gl degree={}", degree),
    Integrator::ClenshawCurtis { tolerance } => format!("method=cc tol={:e}", tolerance),
  }
}

fn short(m: &Integrator) -> &'static str {
  match m {
    Integrator::Simpson { .. } => "simpson",
    Integrator::AdaptiveSimpson { .. } => "adaptive",
    Integrator::GaussKonrod { .. } => "gk",
    Integrator::GaussLegendre { .. } => "gl",
    Integrator::ClenshawCurtis { .. } => "cc",
  }
}

/// call `Integrator::integrate` on the real code, counting integrand evaluations
/// A wall-clock cap must not turn machine load into an alarm.  Only Gauss-Kronrod, whose slowness on smooth 2-D integrands
/// is the recorded finding D4d, keeps the short cap of the tier; every other method needs milliseconds to a few seconds
/// for the cases of this family and gets a cap that no load reaches (a genuine hang is still reported, after 120 s).
fn load_proof(cap: Duration, m: &Integrator) -> Duration {
  if matches!(m, Integrator::GaussKonrod { .. }) { cap } else { cap.max(Duration::from_secs(120)) }
}

fn call1(cap: Duration, m: Integrator, f: &I1, a: f64, b: f64) -> (Res, f64, usize) {
  let cap = load_proof(cap, &m);
  let cnt = Arc::new(AtomicUsize::new(0));
  let c2 = cnt.clone();
  let f0 = f.clone();
  let f = f.clone();
  let (r, t) = timed(cap, move || {
    m.integrate(
      |x| {
        c2.fetch_add(1, Ordering::Relaxed);
        f.eval(x)
      },
      a,
      b,
    )
  });
  remember(&m, Call::D1(f0, a, b), &r);
  (r, t, cnt.load(Ordering::Relaxed))
}

fn call1_fn<G>(cap: Duration, m: Integrator, g: G, a: f64, b: f64) -> (Res, f64)
where
  G: Fn(f64) -> C + Send + Sync + 'static,
{
  let cap = load_proof(cap, &m);
  timed(cap, move || m.integrate(g, a, b))
}

/// number of times the first argument changed between consecutive evaluations of the last `call2`
/// (= outer evaluations of the nested sequential methods)
static OUTER_EVALS: AtomicUsize = AtomicUsize::new(0);

fn call2(cap: Duration, m: Integrator, f: &I2, ax: f64, bx: f64, ay: f64, by: f64) -> (Res, f64, usize) {
  let cap = load_proof(cap, &m);
  let cnt = Arc::new(AtomicUsize::new(0));
  let c2 = cnt.clone();
  let f0 = f.clone();
  let f = f.clone();
  let last = std::sync::atomic::AtomicU64::new(f64::NAN.to_bits());
  let outer = Arc::new(AtomicUsize::new(0));
  let o2 = outer.clone();
  let (r, t) = timed(cap, move || {
    m.integrate2d(
      |x, y| {
        c2.fetch_add(1, Ordering::Relaxed);
        if last.swap(x.to_bits(), Ordering::Relaxed) != x.to_bits() {
          o2.fetch_add(1, Ordering::Relaxed);
        }
        f.eval(x, y)
      },
      ax,
      bx,
      ay,
      by,
    )
  });
  OUTER_EVALS.store(outer.load(Ordering::Relaxed), Ordering::Relaxed);
  remember(&m, Call::D2(f0, ax, bx, ay, by), &r);
  (r, t, cnt.load(Ordering::Relaxed))
}

/// samples per oscillation period at which the method evaluated `exp(ikx)` (∞ for polynomials)
fn spp(evals: usize, kl: f64) -> f64 {
  if kl == 0. {
    f64::INFINITY
  } else {
    evals as f64 * std::f64::consts::TAU / kl
  }
}

/// aliasing indicator of adaptive Simpson on `A·exp(ikx)`: at recursion level `j` the five samples see the phase
/// step `θ_j = kL/(4·2^j)`; a panel is accepted when `(L_j/3)|A|(1−cos θ_j)² ≤ 15·tol/2^j`, i.e.
/// `(1−cos θ_j)²·|A|L/(45·tol) ≤ 1` (the `2^j` cancel). For `θ_j < 1` that is genuine convergence; for `θ_j ≥ 1` it is
/// the samples aliasing (θ_j close to a multiple of 2π). Returns the minimum of that ratio over the levels with
/// `θ_j ≥ 1` (∞ if there is none): ≤ 1 ⇒ some level accepts on aliased samples (finding D41), > 1 ⇒ none does.
fn alias_ratio(kl: f64, tol: f64, amp_l: f64) -> f64 {
  let mut best = f64::INFINITY;
  let mut th = kl / 4.;
  while th >= 1. {
    let c = 1. - th.cos();
    best = best.min(c * c * amp_l / (45. * tol));
    th /= 2.;
  }
  best
}

/// the same indicator for the nested 2-D adaptive rule on `g(x)·h(y)`: the inner integrals (over `y`, at fixed `x`) have
/// amplitude `|g(x)||A_h|`, the outer integrand `g(x)·I_h` has amplitude `|A_g||I_h|`. For a polynomial `g` with an
/// oscillatory `h` the inner amplitude goes through zero: reported as 0 (always inside the recorded region).
fn alias_ratio_2d(g: &I1, h: &I1, ax: f64, bx: f64, ay: f64, by: f64, tol: f64) -> f64 {
  let (lx, ly) = ((bx - ax).abs(), (by - ay).abs());
  let inner = match (g, h) {
    (I1::Exp { amp: ag, .. }, I1::Exp { amp: ah, .. }) => alias_ratio(h.kl(ay, by), tol, ag.norm() * ah.norm() * ly),
    (_, I1::Exp { .. }) => 0.,
    _ => f64::INFINITY,
  };
  let outer = match g {
    I1::Exp { amp: ag, .. } => alias_ratio(g.kl(ax, bx), tol, ag.norm() * lx * h.exact(ay, by).norm()),
    _ => f64::INFINITY,
  };
  inner.min(outer)
}

/// the product-of-1-D-integrals comparison also involves the two 1-D calls (full amplitude)
fn alias_ratio_sep(g: &I1, h: &I1, ax: f64, bx: f64, ay: f64, by: f64, tol: f64) -> f64 {
  let one = |f: &I1, a: f64, b: f64| match f {
    I1::Exp { amp, .. } => alias_ratio(f.kl(a, b), tol, amp.norm() * (b - a).abs()),
    _ => f64::INFINITY,
  };
  alias_ratio_2d(g, h, ax, bx, ay, by, tol).min(one(g, ax, bx)).min(one(h, ay, by))
}

fn method_tol(m: &Integrator) -> f64 {
  match m {
    Integrator::AdaptiveSimpson { tolerance, .. } | Integrator::GaussKonrod { tolerance, .. } | Integrator::ClenshawCurtis { tolerance } => *tolerance,
    _ => f64::NAN,
  }
}

// ------------------------------------------------------------------ textbook bounds

fn ln_fact(n: usize) -> f64 {
  (2..=n).map(|i| (i as f64).ln()).sum()
}

/// Simpson's composite bound `(b−a)·h⁴/180·max|f⁗|` with `n` sub-intervals
fn simpson_bound(f: &I1, a: f64, b: f64, n: usize) -> f64 {
  if n == 0 {
    return f64::INFINITY;
  }
  let l = (b - a).abs();
  let h = l / n as f64;
  l * h.powi(4) / 180. * f.sup_deriv(4, a, b)
}

/// n-point Gauss–Legendre bound `(b−a)^(2n+1)(n!)⁴/((2n+1)((2n)!)³)·max|f^(2n)|`
fn gl_bound(f: &I1, a: f64, b: f64, n: usize) -> f64 {
  let l = (b - a).abs();
  let d = f.sup_deriv(2 * n, a, b);
  if d == 0. {
    return 0.;
  }
  let ln = (2 * n + 1) as f64 * l.ln() + 4. * ln_fact(n) - ((2 * n + 1) as f64).ln() - 3. * ln_fact(2 * n) + d.ln();
  ln.exp()
}

/// in the degree class of the method? (`Simpson`, `AdaptiveSimpson`: 3, n-point `GaussLegendre`: 2n−1)
fn degree_class(m: &Integrator) -> Option<usize> {
  match m {
    Integrator::Simpson { .. } | Integrator::AdaptiveSimpson { .. } => Some(3),
    Integrator::GaussLegendre { degree } => Some(2 * (*degree).max(2) - 1),
    _ => None,
  }
}

/// error allowance of the method on `f` beyond the rounding floor `1e-12·scale`:
/// 0 inside the degree class, the textbook bound for the fixed rules, the requested tolerance
/// (read as absolute or relative, whichever is larger) for the adaptive ones.
fn allowance1(m: &Integrator, f: &I1, a: f64, b: f64, evals: usize) -> f64 {
  let sc = f.scale(a, b);
  if let (Some(dc), Some(d)) = (degree_class(m), f.degree()) {
    if d <= dc {
      return 0.;
    }
  }
  match m {
    Integrator::Simpson { .. } => 2f64.sqrt() * simpson_bound(f, a, b, evals.saturating_sub(1)),
    Integrator::GaussLegendre { degree } => 2f64.sqrt() * gl_bound(f, a, b, (*degree).max(2)),
    Integrator::AdaptiveSimpson { tolerance, .. }
    | Integrator::GaussKonrod { tolerance, .. }
    | Integrator::ClenshawCurtis { tolerance } => tolerance * sc.max(1.),
  }
}

// ------------------------------------------------------------------ the run

pub fn run(ctx: &mut Ctx) {
  let cap = Duration::from_secs(if ctx.thorough { 120 } else { 10 });
  let which = ctx.extra.first().cloned().unwrap_or_else(|| "all".into());
  if which == "all" || which == "core" {
    weights_and_acceptance(ctx, cap);
    k_simpson(ctx);
    k_simpson2d(ctx);
    k_adaptive(ctx);
    k_gl(ctx);
    s_gl_ascending(ctx, cap);
    s_param_scans(ctx, cap);
    s_methods_1d(ctx, cap);
    s_methods_2d(ctx, cap);
    s_switch_sweep(ctx, cap);
    s_extreme_intervals(ctx, cap);
    s_adaptive_tight(ctx, cap);
    s_adaptive2d_depth(ctx, cap);
    s_param_scans(ctx, cap);
    s_gl_ascending(ctx, cap);
    s_history(ctx, cap);
  }
  if which == "all" || which == "gk2d" {
    s_gk2d(ctx, cap);
  }
  if which == "all" || which == "large" {
    s_large_params(ctx, cap);
  }
  ctx.dist.insert("worker/threads".into(), WORKER_SPAWNS.load(Ordering::Relaxed) as u64);
}

fn outc(r: Option<C>, s: f64) -> String {
  match r {
    Some(c) => format!("{} {}", fl(c.re / s), fl(c.im / s)),
    None => "PANIC".into(),
  }
}

/// Simpson weights through indicator integrands; acceptance of every division count 0..=max in 1-D and 2-D
fn weights_and_acceptance(ctx: &mut Ctx, cap: Duration) {
  let max = if ctx.thorough { 400 } else { 140 };
  let one = I1::Poly(vec![C::new(1., 0.)]);
  for divs in 0..=max {
    let r1 = guard(|| simpson(|x| one.eval(x), 0., 1., divs));
    let f2 = I2::Sep(one.clone(), one.clone());
    let r2 = guard(|| simpson2d(|x, y| f2.eval(x, y), 0., 1., 0., 1., divs));
    ctx.k("simpson", &format!("{} {} {} {} {}", fl(0.), fl(1.), divs, fl(1.), one.wire()), &outc(r1, 1.));
    ctx.k(
      "simpson2d",
      &format!("{} {} {} {} {} {} {}", fl(0.), fl(1.), fl(0.), fl(1.), divs, fl(1.), f2.wire()),
      &outc(r2, 1.),
    );
    ctx.count(&format!("accept/simpson/1d={}/2d={}", r1.is_some(), r2.is_some()));
    // the statement: a value accepted in 1-D is accepted in 2-D
    let parity = if divs % 2 == 0 { "even" } else { "odd" };
    ctx.s(
      "C12.accept",
      !(r1.is_some() && r2.is_none()),
      &format!("accept/simpson/{}-divs/2d-panic", parity),
      &format!("method=simpson divs={} ok1d={} ok2d={}", divs, r1.is_some(), r2.is_some()),
    );
    // the statement's parameter domain: divisions 4–400 integrate in 1-D
    if (4..=400).contains(&divs) {
      ctx.s(
        "C12.domain",
        r1.is_some(),
        "domain/simpson1d/panic",
        &format!("method=simpson divs={} call=integrate(1,0,1)", divs),
      );
    }
    // weights 1-4-2-…-4-1 of the rule actually applied, through indicator integrands on integer nodes
    if let Some(_) = r1 {
      let cnt = AtomicUsize::new(0);
      let _ = simpson(
        |_x| {
          cnt.fetch_add(1, Ordering::Relaxed);
          C::new(0., 0.)
        },
        0.,
        1.,
        divs,
      );
      let d = cnt.load(Ordering::Relaxed) - 1; // sub-intervals actually used
      if divs <= 40 || divs % 37 == 0 {
        let mut ok = d >= 2 && d % 2 == 0;
        let mut why = String::new();
        for j in 0..=d {
          let f = I1::Ind(j as f64);
          let r = simpson(|x| f.eval(x), 0., d as f64, divs);
          ctx.k("simpson", &format!("{} {} {} {} {}", fl(0.), fl(d as f64), divs, fl(1.), f.wire()), &outc(Some(r), 1.));
          let w = r.re * 3.;
          let expect = if j == 0 || j == d {
            1.
          } else if j % 2 == 1 {
            4.
          } else {
            2.
          };
          if (w - expect).abs() > 1e-12 || r.im != 0. {
            ok = false;
            why = format!("weight[{}]={} expected {}", j, w, expect);
          }
        }
        ctx.s("C12.exact", ok, "simpson/weights", &format!("method=simpson divs={} used={} {}", divs, d, why));
      }
    }
  }
  // the other variants: every parameter value accepted in 1-D is accepted in 2-D
  let f1 = I1::Poly(vec![C::new(1., 0.5), C::new(0.5, -1.)]);
  let f2 = I2::Sep(f1.clone(), f1.clone());
  let mut methods: Vec<Integrator> = vec![];
  for degree in 0..=(if ctx.thorough { 64 } else { 24 }) {
    methods.push(Integrator::GaussLegendre { degree });
  }
  for &tolerance in &[1e-3, 1e-6, 1e-9, 1e-12] {
    for &max_depth in &[0usize, 1, 2, 10, 30] {
      methods.push(Integrator::AdaptiveSimpson { tolerance, max_depth });
      if max_depth <= 10 {
        // (max_depth = 1000 in 2-D is the subject of the gk2d family: it needs tens of seconds)
        methods.push(Integrator::GaussKonrod { tolerance, max_depth });
      }
    }
    methods.push(Integrator::ClenshawCurtis { tolerance });
  }
  for m in methods {
    let (r1, _, _) = call1(cap, m, &f1, 0., 1.);
    // linear × linear: cheap for every method (the bounded-time clause is examined separately)
    let (r2, t2, _) = call2(cap, m, &f2, 0., 1., 0., 1.);
    ctx.count(&format!("accept/{}/1d={}/2d={}", short(&m), r1.tag(), r2.tag()));
    let ok = !(matches!(r1, Res::Val(_)) && matches!(r2, Res::Panic));
    ctx.s(
      "C12.accept",
      ok,
      &format!("accept/{}/2d-panic", short(&m)),
      &format!("{} ok1d={} ok2d={}", method_name(&m), r1.tag(), r2.tag()),
    );
    if matches!(r2, Res::Timeout) {
      ctx.s(
        "C12.time",
        false,
        &format!("{}2d/timeout", short(&m)),
        &format!("{} integrand=linear*linear cap_s={} elapsed_s={:.1}", method_name(&m), cap.as_secs(), t2),
      );
    }
  }
}

fn gen_divs(r: &mut Rng) -> usize {
  match r.below(6) {
    0 => r.between(0, 12),
    1 => r.between(120, 136),
    2 => *r.pick(&[50usize, 51, 100, 399, 400]),
    _ => r.between(4, 400),
  }
}

fn k_simpson(ctx: &mut Ctx) {
  for i in 0..ctx.n {
    let f = if i % 3 == 2 { gen_exp(&mut ctx.rng, 40.) } else { gen_poly(&mut ctx.rng, 5) };
    let (mut a, mut b) = gen_interval(&mut ctx.rng, true);
    if ctx.rng.below(5) == 0 {
      std::mem::swap(&mut a, &mut b);
    }
    if ctx.rng.below(40) == 0 {
      b = a;
    }
    let divs = gen_divs(&mut ctx.rng);
    let f = maybe_win(&mut ctx.rng, f, None, a, b);
    let s = f.scale(a, b);
    let via = ctx.rng.coin();
    let ff = f.clone();
    let r = if via {
      guard(move || Integrator::Simpson { divs }.integrate(|x| ff.eval(x), a, b))
    } else {
      guard(move || simpson(|x| ff.eval(x), a, b, divs))
    };
    ctx.count(&format!("simpson/k/{}", if r.is_some() { "ok" } else { "panic" }));
    ctx.k("simpson", &format!("{} {} {} {} {}", fl(a), fl(b), divs, fl(s), f.wire()), &outc(r, s));
  }
}

fn gen_i2(r: &mut Rng, max_deg: usize, kmax: f64) -> I2 {
  match r.below(4) {
    0 => {
      let rows = r.between(1, max_deg + 1);
      let cols = r.between(1, max_deg + 1);
      I2::Poly2((0..rows).map(|_| (0..cols).map(|_| gen_c(r)).collect()).collect())
    }
    1 => I2::Sep(gen_exp(r, kmax), gen_exp(r, kmax)),
    2 => I2::Sep(gen_poly(r, max_deg), gen_exp(r, kmax)),
    _ => I2::Sep(gen_poly(r, max_deg), gen_poly(r, max_deg)),
  }
}

fn k_simpson2d(ctx: &mut Ctx) {
  for _ in 0..ctx.n / 3 {
    let f = gen_i2(&mut ctx.rng, 4, 20.);
    let (mut ax, mut bx) = gen_interval(&mut ctx.rng, false);
    let (ay, by) = gen_interval(&mut ctx.rng, false);
    if ctx.rng.below(6) == 0 {
      std::mem::swap(&mut ax, &mut bx);
    }
    let divs = match ctx.rng.below(4) {
      0 => ctx.rng.between(0, 12),
      1 => ctx.rng.between(4, if ctx.thorough { 400 } else { 150 }),
      _ => ctx.rng.between(4, 60),
    };
    let s = f.scale(ax, bx, ay, by);
    let via = ctx.rng.coin();
    let ff = f.clone();
    let r = if via {
      guard(move || Integrator::Simpson { divs }.integrate2d(|x, y| ff.eval(x, y), ax, bx, ay, by))
    } else {
      guard(move || simpson2d(|x, y| ff.eval(x, y), ax, bx, ay, by, divs))
    };
    ctx.count(&format!("simpson2d/k/{}", if r.is_some() { "ok" } else { "panic" }));
    ctx.k(
      "simpson2d",
      &format!("{} {} {} {} {} {} {}", fl(ax), fl(bx), fl(ay), fl(by), divs, fl(s), f.wire()),
      &outc(r, s),
    );
  }
}

fn k_adaptive(ctx: &mut Ctx) {
  for i in 0..ctx.n / 2 {
    let f = if i % 2 == 0 { gen_exp(&mut ctx.rng, 30.) } else { gen_poly(&mut ctx.rng, 6) };
    let (mut a, mut b) = gen_interval(&mut ctx.rng, true);
    if ctx.rng.below(4) == 0 {
      std::mem::swap(&mut a, &mut b);
    }
    if ctx.rng.below(40) == 0 {
      b = a;
    }
    let f = maybe_win(&mut ctx.rng, f, None, a, b);
    let s = f.scale(a, b);
    let eps = match ctx.rng.below(8) {
      0 => 0.,
      _ => gen_tol(&mut ctx.rng) * if ctx.rng.coin() { s } else { 1. },
    };
    let depth = match ctx.rng.below(3) {
      0 => ctx.rng.between(0, 5),
      _ => ctx.rng.between(6, 16),
    };
    let cnt = AtomicUsize::new(0);
    let via = ctx.rng.coin();
    let r = guard(|| {
      let g = |x: f64| {
        cnt.fetch_add(1, Ordering::Relaxed);
        f.eval(x)
      };
      if via {
        Integrator::AdaptiveSimpson { tolerance: eps, max_depth: depth }.integrate(g, a, b)
      } else {
        simpson_adaptive(&g, a, b, eps, depth)
      }
    });
    let evals = cnt.load(Ordering::Relaxed);
    ctx.count(&format!("adaptive/k/evals<={}", (evals.max(1) as f64).log2().ceil() as usize));
    let out = match r {
      Some(c) => format!("{} {} {}", fl(c.re / s), fl(c.im / s), evals),
      None => "PANIC".into(),
    };
    ctx.k("adaptive", &format!("{} {} {} {} {} {}", fl(a), fl(b), fl(eps), depth, fl(s), f.wire()), &out);
    // bounded work: the number of evaluations never exceeds 2^(depth+1)+1  (termination within the fuel)
    ctx.s(
      "C12.time",
      evals <= (1usize << (depth + 1)) + 1,
      "adaptive/evals-bound",
      &format!("method=adaptive tol={:e} depth={} evals={} a={:e} b={:e} f={}", eps, depth, evals, a, b, f.describe()),
    );
  }
  for _ in 0..ctx.n / 12 {
    let f = gen_i2(&mut ctx.rng, 3, 6.);
    let (mut ax, mut bx) = gen_interval(&mut ctx.rng, false);
    let (ay, by) = gen_interval(&mut ctx.rng, false);
    if ctx.rng.below(6) == 0 {
      std::mem::swap(&mut ax, &mut bx);
    }
    let s = f.scale(ax, bx, ay, by);
    let eps = gen_tol(&mut ctx.rng).max(1e-8) * s.max(1.);
    let depth = ctx.rng.between(0, 7);
    let ff = f.clone();
    let r = guard(move || {
      Integrator::AdaptiveSimpson { tolerance: eps, max_depth: depth }.integrate2d(|x, y| ff.eval(x, y), ax, bx, ay, by)
    });
    ctx.count("adaptive2d/k");
    ctx.k(
      "adaptive2d",
      &format!("{} {} {} {} {} {} {} {}", fl(ax), fl(bx), fl(ay), fl(by), fl(eps), depth, fl(s), f.wire()),
      &outc(r, s),
    );
  }
}

fn gl_rule(n: usize) -> (Vec<f64>, Vec<f64>) {
  let q = gauss_quad::GaussLegendre::new(n.max(2)).unwrap();
  (q.nodes().copied().collect(), q.weights().copied().collect())
}

fn k_gl(ctx: &mut Ctx) {
  // moment equations of the library's nodes/weights: Σ w x^k = ∫_{-1}^{1} x^k, k < 2n
  let maxn = 64;
  for n in 2..=maxn {
    let (xs, ws) = gl_rule(n);
    let moments: Vec<f64> = (0..2 * n).map(|k| if k % 2 == 0 { 2. / (k as f64 + 1.) } else { 0. }).collect();
    ctx.k("glmom", &format!("{} {} {}", n, fls(&xs), fls(&ws)), &fls(&moments));
    ctx.count("gl/moments");
  }
  for i in 0..ctx.n / 2 {
    let degree = match ctx.rng.below(5) {
      0 => ctx.rng.between(0, 3),
      _ => ctx.rng.between(2, 64),
    };
    let n = degree.max(2);
    let (xs, ws) = gl_rule(n);
    let (mut a, mut b) = gen_interval(&mut ctx.rng, false);
    if ctx.rng.below(5) == 0 {
      std::mem::swap(&mut a, &mut b);
    }
    if i % 4 == 3 {
      let f = gen_i2(&mut ctx.rng, (2 * n - 1).min(9), 10.);
      let (c, d) = gen_interval(&mut ctx.rng, false);
      let s = f.scale(a, b, c, d);
      let ff = f.clone();
      let r = guard(move || Integrator::GaussLegendre { degree }.integrate2d(|x, y| ff.eval(x, y), a, b, c, d));
      ctx.count("gl2d/k");
      ctx.k(
        "gl2d",
        &format!("{} {} {} {} {} {} {} {} {}", fl(a), fl(b), fl(c), fl(d), n, fls(&xs), fls(&ws), fl(s), f.wire()),
        &outc(r, s),
      );
    } else {
      let f = if i % 4 == 2 { gen_exp(&mut ctx.rng, 30.) } else { gen_poly(&mut ctx.rng, (2 * n - 1).min(40) + 2) };
      let f = maybe_win(&mut ctx.rng, f, Some(&Integrator::GaussLegendre { degree }), a, b);
      let s = f.scale(a, b);
      let ff = f.clone();
      let r = guard(move || Integrator::GaussLegendre { degree }.integrate(|x| ff.eval(x), a, b));
      ctx.count("gl/k");
      ctx.k("gl", &format!("{} {} {} {} {} {} {}", fl(a), fl(b), n, fls(&xs), fls(&ws), fl(s), f.wire()), &outc(r, s));
    }
  }
}

fn gen_method(r: &mut Rng, which: usize) -> Integrator {
  // Gauss–Kronrod (quad-rs) needs 0.03–2 s per call: one case in sixteen
  match which % 16 {
    0 | 4 | 8 | 12 => Integrator::Simpson { divs: r.between(5, 400) },
    1 | 5 | 9 | 13 => Integrator::GaussLegendre { degree: r.between(2, 64) },
    2 | 6 | 10 | 14 => Integrator::AdaptiveSimpson { tolerance: gen_tol(r), max_depth: 24 },
    15 => Integrator::GaussKonrod { tolerance: gen_tol(r), max_depth: 1000 },
    _ => Integrator::ClenshawCurtis { tolerance: gen_tol(r) },
  }
}

fn tolerance_driven(m: &Integrator) -> bool {
  matches!(m, Integrator::AdaptiveSimpson { .. } | Integrator::GaussKonrod { .. } | Integrator::ClenshawCurtis { .. })
}

fn fail_sig(m: &Integrator, what: &str, r: &Res) -> String {
  match r {
    Res::Val(_) => format!("{}/{}", short(m), what),
    Res::Panic => format!("{}/{}/panic", short(m), what),
    Res::Timeout => format!("{}/timeout", short(m)),
  }
}

/// integrand in or above the degree class of the method / oscillatory
fn gen_integrand_for(r: &mut Rng, m: &Integrator, kind: usize) -> I1 {
  match kind % 3 {
    0 => match degree_class(m) {
      Some(dc) => gen_poly(r, dc.min(24)),
      None => gen_poly(r, 7),
    },
    1 => gen_exp(r, 12.),
    _ => match degree_class(m) {
      Some(dc) => gen_poly(r, (dc + 2).min(26)),
      None => gen_poly(r, 7),
    },
  }
}

fn s_methods_1d(ctx: &mut Ctx, cap: Duration) {
  let n = ctx.n;
  for i in 0..n {
    let m = gen_method(&mut ctx.rng, i);
    let f = gen_integrand_for(&mut ctx.rng, &m, i / 4);
    // high-degree polynomials only on intervals of a few units (|x|^deg must stay representable)
    let wide = f.degree().map(|d| d <= 5).unwrap_or(false) && !matches!(m, Integrator::GaussKonrod { .. });
    let (a, b) = gen_interval(&mut ctx.rng, wide);
    let f = maybe_win(&mut ctx.rng, f, Some(&m), a, b);
    let f = if tolerance_driven(&m) { f.normalised(a, b) } else { f };
    let sc = f.scale(a, b);
    let exact = f.exact(a, b);
    let inp = format!("{} a={:e} b={:e} kl={:.3} klmin={:.3} alias={:.3e} f={}", method_name(&m), a, b, f.kl(a, b), f.kl(a, b), alias_ratio(f.kl(a, b), method_tol(&m), 1.), f.describe());
    let (r, t, evals) = call1(cap, m, &f, a, b);
    let inp = format!("{} spp={:.2}", inp, spp(evals, f.kl(a, b)));
    ctx.count(&format!("s1d/{}/{}", short(&m), r.tag()));
    // bounded time on smooth integrands
    ctx.s("C12.time", !matches!(r, Res::Timeout), &format!("{}/timeout", short(&m)), &format!("{} cap_s={} elapsed_s={:.2}", inp, cap.as_secs(), t));
    if matches!(r, Res::Timeout) {
      continue;
    }
    // accuracy: degree class exact to 1e-12, else tolerance / textbook bound
    let allow = allowance1(&m, &f, a, b, evals);
    let in_class = allow == 0.;
    let (pred, what) = if in_class { ("C12.exact", "inexact") } else { ("C12.accuracy", "inaccurate") };
    let ok = match r {
      Res::Val(v) => (v - exact).norm() <= 1e-12 * sc + allow,
      _ => false,
    };
    let errs = r.val().map(|v| (v - exact).norm() / sc).unwrap_or(f64::NAN);
    ctx.s(pred, ok, &fail_sig(&m, what, &r), &format!("{} evals={} relerr={:e} allow={:e}", inp, evals, errs, allow / sc));
    let v = match r {
      Res::Val(v) => v,
      _ => continue,
    };
    // reversal negates
    let (rr, tr, _) = call1(cap, m, &f, b, a);
    if matches!(rr, Res::Timeout) {
      ctx.s("C12.time", false, &format!("{}/timeout", short(&m)), &format!("{} reversed=1 cap_s={} elapsed_s={:.2}", inp, cap.as_secs(), tr));
    } else {
      let okr = match rr {
        Res::Val(w) => (w + v).norm() <= 1e-12 * sc + 2. * allow,
        _ => false,
      };
      ctx.s(
        "C12.reverse",
        okr,
        &fail_sig(&m, "reverse", &rr),
        &format!("{} forward=({:e},{:e}) reversed={}", inp, v.re, v.im, rr.val().map(|w| format!("({:e},{:e})", w.re, w.im)).unwrap_or(rr.tag().into())),
      );
    }
    // linearity in the integrand
    if i % 2 == 0 {
      let g = gen_integrand_for(&mut ctx.rng, &m, i / 4 + (i / 7) % 2);
      let g = maybe_win(&mut ctx.rng, g, Some(&m), a, b);
      let g = if tolerance_driven(&m) { g.normalised(a, b) } else { g };
      let al = gen_c(&mut ctx.rng) + C::new(0.5, 0.);
      let be = gen_c(&mut ctx.rng) - C::new(0., 0.5);
      let al_ratio = alias_ratio(f.kl(a, b), method_tol(&m), 1.)
        .min(alias_ratio(f.kl(a, b), method_tol(&m), al.norm()))
        .min(alias_ratio(g.kl(a, b), method_tol(&m), 1.))
        .min(alias_ratio(g.kl(a, b), method_tol(&m), be.norm()));
      // (`klmin`: the least oscillatory of the integrands involved — finding D40 is about the constant ones)
      let inp = format!("{} a={:e} b={:e} kl={:.3} klmin={:.3} alias={:.3e} f={}", method_name(&m), a, b, f.kl(a, b).max(g.kl(a, b)), f.kl(a, b).min(g.kl(a, b)), al_ratio, f.describe());
      let (rg, _, eg) = call1(cap, m, &g, a, b);
      let (f2, g2) = (f.clone(), g.clone());
      let (rc, _) = call1_fn(cap, m, move |x| al * f2.eval(x) + be * g2.eval(x), a, b);
      if let (Res::Val(vg), Res::Val(vc)) = (rg, rc) {
        let scg = g.scale(a, b);
        let allow_g = allowance1(&m, &g, a, b, eg);
        // the fixed rules are linear exactly (up to rounding); for the tolerance-driven ones each of the three
        // integrals is within its own requested tolerance
        let sc_comb = al.norm() * sc + be.norm() * scg;
        let budget = 1e-12 * sc_comb
          + match m {
            Integrator::AdaptiveSimpson { tolerance, .. } | Integrator::GaussKonrod { tolerance, .. } | Integrator::ClenshawCurtis { tolerance } => {
              tolerance * sc_comb.max(1.) + al.norm() * allow + be.norm() * allow_g
            }
            _ => 0.,
          };
        let okl = (vc - (al * v + be * vg)).norm() <= budget;
        ctx.s(
          "C12.linear",
          okl,
          &format!("{}/nonlinear", short(&m)),
          &format!("{} g={} alpha=({:e},{:e}) beta=({:e},{:e}) diff={:e} budget={:e}", inp, g.describe(), al.re, al.im, be.re, be.im, (vc - (al * v + be * vg)).norm(), budget),
        );
      } else if !matches!(rg, Res::Timeout) && !matches!(rc, Res::Timeout) {
        ctx.s("C12.linear", false, &format!("{}/linear/panic", short(&m)), &format!("{} g={}", inp, g.describe()));
      }
    }
  }
}

fn gen_method_2d(r: &mut Rng, which: usize, thorough: bool) -> Integrator {
  match which % 4 {
    0 => Integrator::Simpson { divs: r.between(5, if thorough { 400 } else { 120 }) },
    1 => Integrator::GaussLegendre { degree: r.between(2, 64) },
    2 => Integrator::AdaptiveSimpson { tolerance: gen_tol(r).max(1e-9), max_depth: 30 },
    _ => Integrator::ClenshawCurtis { tolerance: gen_tol(r) },
  }
}

fn s_methods_2d(ctx: &mut Ctx, cap: Duration) {
  let n = ctx.n / 4;
  for i in 0..n {
    let m = gen_method_2d(&mut ctx.rng, i, ctx.thorough);
    let g = gen_integrand_for(&mut ctx.rng, &m, i / 4);
    let h = gen_integrand_for(&mut ctx.rng, &m, i / 4 + (i / 8) % 2);
    let (ax, bx) = gen_interval(&mut ctx.rng, false);
    let (ay, by) = gen_interval(&mut ctx.rng, false);
    let g = maybe_win(&mut ctx.rng, g, Some(&m), ax, bx);
    let h = maybe_win(&mut ctx.rng, h, Some(&m), ay, by);
    let (g, h) = if tolerance_driven(&m) { (g.normalised(ax, bx), h.normalised(ay, by)) } else { (g, h) };
    let f = I2::Sep(g.clone(), h.clone());
    let sc = f.scale(ax, bx, ay, by);
    let inp = format!(
      "{} ax={:e} bx={:e} ay={:e} by={:e} kl={:.3} alias={:.3e} g={} h={}",
      method_name(&m), ax, bx, ay, by, g.kl(ax, bx).max(h.kl(ay, by)), alias_ratio_2d(&g, &h, ax, bx, ay, by, method_tol(&m)), g.describe(), h.describe()
    );
    let (r2, t2, ev2) = call2(cap, m, &f, ax, bx, ay, by);
    let outer = OUTER_EVALS.load(Ordering::Relaxed).max(1);
    let inp = format!(
      "{} spp={:.2}",
      inp,
      spp(outer, g.kl(ax, bx)).min(spp(ev2 / outer, h.kl(ay, by)))
    );
    ctx.count(&format!("s2d/{}/{}", short(&m), r2.tag()));
    ctx.s("C12.time", !matches!(r2, Res::Timeout), &format!("{}2d/timeout", short(&m)), &format!("{} cap_s={} elapsed_s={:.2}", inp, cap.as_secs(), t2));
    if matches!(r2, Res::Timeout) {
      continue;
    }
    let (rg, _, eg) = call1(cap, m, &g, ax, bx);
    let (rh, _, eh) = call1(cap, m, &h, ay, by);
    let (vg, vh) = match (rg, rh) {
      (Res::Val(a), Res::Val(b)) => (a, b),
      _ => continue, // 1-D not accepted / timed out: reported by the 1-D predicates
    };
    // separability: 2-D integral of g(x)h(y) = product of the 1-D integrals
    let (sg, sh) = (g.scale(ax, bx), h.scale(ay, by));
    let alg = allowance1(&m, &g, ax, bx, eg);
    let alh = allowance1(&m, &h, ay, by, eh);
    // 2-D allowance: per-axis error times the other axis' scale (tensor rules), twice for "2-D vs exact" and "1-D vs exact"
    let per_axis_evals = (ev2 as f64).sqrt().round() as usize;
    let (alg2, alh2) = match m {
      Integrator::Simpson { .. } => (allowance1(&m, &g, ax, bx, per_axis_evals), allowance1(&m, &h, ay, by, per_axis_evals)),
      _ => (alg, alh),
    };
    let in_class = alg == 0. && alh == 0. && alg2 == 0. && alh2 == 0.;
    // error allowance of the 2-D result against the closed form: tensor rules — per-axis bound times the other
    // axis' scale; nested tolerance-driven methods — the inner integrals are each within the tolerance (absolute),
    // integrated over the outer interval, plus the outer tolerance
    let allow2 = if in_class {
      0.
    } else {
      match m {
        Integrator::AdaptiveSimpson { tolerance, .. } | Integrator::ClenshawCurtis { tolerance } | Integrator::GaussKonrod { tolerance, .. } => {
          tolerance * ((bx - ax).abs() + 1.) * sc.max(1.)
        }
        _ => alg2 * sh + alh2 * sg + alg2 * alh2,
      }
    };
    let budget = 1e-12 * sc + allow2 + alg * sh + alh * sg + alg * alh;
    let ok = match r2 {
      Res::Val(v2) => (v2 - vg * vh).norm() <= budget,
      _ => false,
    };
    let diff = r2.val().map(|v2| (v2 - vg * vh).norm() / sc).unwrap_or(f64::NAN);
    ctx.s(
      "C12.separable",
      ok,
      &match r2 {
        Res::Panic => format!("{}2d/separable/panic", short(&m)),
        _ => format!("{}2d/not-separable{}", short(&m), if in_class { "/in-class" } else { "" }),
      },
      &format!(
        "{} reldiff={:e} budget={:e}",
        inp.replacen(
          &format!("alias={:.3e}", alias_ratio_2d(&g, &h, ax, bx, ay, by, method_tol(&m))),
          &format!("alias={:.3e}", alias_ratio_sep(&g, &h, ax, bx, ay, by, method_tol(&m))),
          1
        ),
        diff,
        budget / sc
      ),
    );
    // all four orientations: reversing one range negates, reversing both restores the forward value
    if let Res::Val(v2) = r2 {
      for (rx, ry) in [(true, false), (false, true), (true, true)] {
        let (x0, x1) = if rx { (bx, ax) } else { (ax, bx) };
        let (y0, y1) = if ry { (by, ay) } else { (ay, by) };
        let (rr, tr, _) = call2(cap, m, &f, x0, x1, y0, y1);
        let which = match (rx, ry) {
          (true, false) => "x",
          (false, true) => "y",
          _ => "xy",
        };
        if matches!(rr, Res::Timeout) {
          ctx.s("C12.time", false, &format!("{}2d/timeout", short(&m)), &format!("{} reversed={} cap_s={} elapsed_s={:.2}", inp, which, cap.as_secs(), tr));
          continue;
        }
        let want = if rx ^ ry { -v2 } else { v2 };
        let okr = match rr {
          Res::Val(w) => (w - want).norm() <= 1e-12 * sc + 2. * allow2,
          _ => false,
        };
        ctx.s(
          "C12.reverse",
          okr,
          &match rr {
            Res::Panic => format!("{}2d/reverse-{}/panic", short(&m), which),
            _ => format!("{}2d/reverse-{}", short(&m), which),
          },
          &format!("{} forward=({:e},{:e}) reversed_{}={}", inp, v2.re, v2.im, which, rr.val().map(|w| format!("({:e},{:e})", w.re, w.im)).unwrap_or(rr.tag().into())),
        );
      }
    }
    // 2-D accuracy against the closed form
    if let Res::Val(v2) = r2 {
      let exact = f.exact(ax, bx, ay, by);
      let (pred, what) = if in_class { ("C12.exact", "inexact") } else { ("C12.accuracy", "inaccurate") };
      ctx.s(
        pred,
        (v2 - exact).norm() <= 1e-12 * sc + allow2,
        &format!("{}2d/{}", short(&m), what),
        &format!("{} relerr={:e} allow={:e}", inp, (v2 - exact).norm() / sc, allow2 / sc),
      );
    }
    // a non-separable bi-polynomial inside the class (bi-cubic for Simpson): exact
    if i % 3 == 0 {
      if let Some(dc) = degree_class(&m) {
        let d = dc.min(5);
        let rows = ctx.rng.between(1, d + 1);
        let cols = ctx.rng.between(1, d + 1);
        let p = I2::Poly2((0..rows).map(|_| (0..cols).map(|_| gen_c(&mut ctx.rng)).collect()).collect());
        let scp = p.scale(ax, bx, ay, by);
        let (rp, _, _) = call2(cap, m, &p, ax, bx, ay, by);
        if let Res::Val(vp) = rp {
          let ex = p.exact(ax, bx, ay, by);
          ctx.s(
            "C12.exact",
            (vp - ex).norm() <= 1e-12 * scp,
            &format!("{}2d/inexact", short(&m)),
            &format!("{} ax={:e} bx={:e} ay={:e} by={:e} f={} relerr={:e}", method_name(&m), ax, bx, ay, by, p.describe(), (vp - ex).norm() / scp),
          );
        }
      }
    }
  }
}

/// Gauss–Kronrod in 2-D: bounded time on smooth integrands, acceptance, and (if it returns) accuracy
fn s_gk2d(ctx: &mut Ctx, cap: Duration) {
  let cases: Vec<(f64, I2)> = vec![
    // bilinear
    (
      1e-3,
      I2::Sep(I1::Poly(vec![C::new(1., 0.5), C::new(0.5, -1.)]), I1::Poly(vec![C::new(1., 0.), C::new(-0.25, 0.5)])),
    ),
    // cubic × quadratic, the design-phase probe
    (
      1e-6,
      I2::Sep(
        I1::Poly(vec![C::new(1., 0.), C::new(0.5, 0.), C::new(-0.25, 0.), C::new(1., 0.)]),
        I1::Poly(vec![C::new(0.5, 0.), C::new(-1., 0.), C::new(1., 0.)]),
      ),
    ),
  ];
  let ncases = if ctx.thorough { 2 } else { 1 };
  for (tolerance, f) in cases.into_iter().take(ncases) {
    let m = Integrator::GaussKonrod { tolerance, max_depth: 1000 };
    let (ax, bx, ay, by) = (0., 1., -1., 1.);
    let sc = f.scale(ax, bx, ay, by);
    let r1 = match &f {
      I2::Sep(g, _) => call1(cap, m, g, ax, bx).0,
      _ => Res::Panic,
    };
    let (r, t, evals) = call2(cap, m, &f, ax, bx, ay, by);
    ctx.count(&format!("gk2d/{}", r.tag()));
    let inp = format!("{} ax={:e} bx={:e} ay={:e} by={:e} f={}", method_name(&m), ax, bx, ay, by, f.describe());
    ctx.s(
      "C12.accept",
      !(matches!(r1, Res::Val(_)) && matches!(r, Res::Panic)),
      "accept/gk/2d-panic",
      &format!("{} ok1d={} ok2d={}", method_name(&m), r1.tag(), r.tag()),
    );
    ctx.s(
      "C12.time",
      !matches!(r, Res::Timeout),
      "gk2d/timeout",
      &format!("{} cap_s={} elapsed_s={:.1} evals_so_far={}", inp, cap.as_secs(), t, evals),
    );
    match r {
      Res::Val(v) => {
        let ex = f.exact(ax, bx, ay, by);
        ctx.s(
          "C12.accuracy",
          (v - ex).norm() <= 1e-12 * sc + 2. * tolerance * sc.max(1.),
          "gk2d/inaccurate",
          &format!("{} relerr={:e}", inp, (v - ex).norm() / sc),
        );
      }
      Res::Panic => ctx.s("C12.accuracy", false, "gk2d/inaccurate/panic", &inp),
      Res::Timeout => {}
    }
  }
}

/// Gauss–Legendre degree of exactness in ASCENDING order of the node count on one thread: n-point rule,
/// complex polynomials of degree 0, 1, n, 2n−2, 2n−1, in 1-D and (separable and bi-polynomial) 2-D
fn s_gl_ascending(ctx: &mut Ctx, cap: Duration) {
  for &n in &[2usize, 3, 4, 7, 12, 20, 33, 64] {
    let m = Integrator::GaussLegendre { degree: n };
    for &deg in &[0usize, 1, n, 2 * n - 2, 2 * n - 1] {
      let mk = |r: &mut Rng| {
        let mut cs: Vec<C> = (0..=deg).map(|_| gen_c(r)).collect();
        cs[deg] = C::new(1., -0.5);
        I1::Poly(cs)
      };
      let f = mk(&mut ctx.rng);
      let (a, b) = match ctx.rng.below(3) {
        0 => (-1., 1.),
        1 => (0., ctx.rng.range(0.5, 1.5)),
        _ => (ctx.rng.range(-1.2, -0.4), ctx.rng.range(0.4, 1.2)),
      };
      let sc = f.scale(a, b);
      let (r, _, evals) = call1(cap, m, &f, a, b);
      let ok = match r {
        Res::Val(v) => (v - f.exact(a, b)).norm() <= 1e-12 * sc,
        _ => false,
      };
      ctx.s(
        "C12.exact",
        ok,
        &fail_sig(&m, "inexact", &r),
        &format!("{} a={:e} b={:e} polydeg={} evals={} relerr={:e} f={}", method_name(&m), a, b, deg, evals, r.val().map(|v| (v - f.exact(a, b)).norm() / sc).unwrap_or(f64::NAN), f.describe()),
      );
      if deg <= 7 || deg == 2 * n - 1 {
        let g = mk(&mut ctx.rng);
        let (c, d) = (ctx.rng.range(-1., -0.2), ctx.rng.range(0.2, 1.));
        let f2 = I2::Sep(f.clone(), g.clone());
        let sc2 = f2.scale(a, b, c, d);
        let (r2, _, _) = call2(cap, m, &f2, a, b, c, d);
        let ok2 = match r2 {
          Res::Val(v) => (v - f2.exact(a, b, c, d)).norm() <= 1e-12 * sc2,
          _ => false,
        };
        ctx.s(
          "C12.exact",
          ok2,
          &format!("{}2d/inexact", short(&m)),
          &format!("{} ax={:e} bx={:e} ay={:e} by={:e} polydeg={} relerr={:e}", method_name(&m), a, b, c, d, deg, r2.val().map(|v| (v - f2.exact(a, b, c, d)).norm() / sc2).unwrap_or(f64::NAN)),
        );
      }
      ctx.count("gl/ascending");
    }
  }
}

/// history independence: a sample of the earlier calls is repeated at the end of the run, after every other
/// method/parameter has been used on the same thread; the result must be the same — bit for bit for the
/// sequential methods, to 1e-12 of the scale where the implementation sums in parallel (rayon: Simpson with
/// ≥ 128 sub-intervals and `simpson2d`)
fn s_history(ctx: &mut Ctx, cap: Duration) {
  let hist: Vec<(Integrator, Call, C)> = HISTORY.lock().unwrap().clone();
  // re-evaluated in REVERSED order, after every other method/parameter has been used on the same thread
  for (m, call, v0) in hist.into_iter().rev() {
    let (r, sc, inp, parallel) = match &call {
      Call::D1(f, a, b) => {
        let par = matches!(m, Integrator::Simpson { divs } if divs >= 128);
        (call1(cap, m, f, *a, *b).0, f.scale(*a, *b), format!("{} a={:e} b={:e} f={}", method_name(&m), a, b, f.describe()), par)
      }
      Call::D2(f, ax, bx, ay, by) => (
        call2(cap, m, f, *ax, *bx, *ay, *by).0,
        f.scale(*ax, *bx, *ay, *by),
        format!("{} ax={:e} bx={:e} ay={:e} by={:e} f={}", method_name(&m), ax, bx, ay, by, f.describe()),
        matches!(m, Integrator::Simpson { .. }),
      ),
    };
    let ok = match r {
      Res::Val(v) => {
        if parallel {
          (v - v0).norm() <= 1e-12 * sc
        } else {
          (v.re.to_bits() == v0.re.to_bits() || v.re == v0.re) && (v.im.to_bits() == v0.im.to_bits() || v.im == v0.im)
        }
      }
      _ => false,
    };
    ctx.count(&format!("history/{}", short(&m)));
    ctx.s(
      "C12.history",
      ok,
      &format!("history/{}/changed", short(&m)),
      &format!("{} first=({:e},{:e}) again={}", inp, v0.re, v0.im, r.val().map(|w| format!("({:e},{:e})", w.re, w.im)).unwrap_or(r.tag().into())),
    );
  }
  // the re-evaluation must not feed the history again
  HISTORY.lock().unwrap().clear();
}

// ------------------------------------------------------------------ hardening: routes, scans, sweeps, extremes

/// the same method through the free functions `simpson` / `simpson_adaptive` (1-D) on the worker thread
fn call1_free(cap: Duration, m: Integrator, f: &I1, a: f64, b: f64) -> (Res, f64, usize) {
  let cap = load_proof(cap, &m);
  let cnt = Arc::new(AtomicUsize::new(0));
  let c2 = cnt.clone();
  let f = f.clone();
  let (r, t) = timed(cap, move || {
    let g = |x: f64| {
      c2.fetch_add(1, Ordering::Relaxed);
      f.eval(x)
    };
    match m {
      Integrator::Simpson { divs } => simpson(g, a, b, divs),
      Integrator::AdaptiveSimpson { tolerance, max_depth } => simpson_adaptive(&g, a, b, tolerance, max_depth),
      other => other.integrate(g, a, b),
    }
  });
  (r, t, cnt.load(Ordering::Relaxed))
}

fn call2_free(cap: Duration, m: Integrator, f: &I2, ax: f64, bx: f64, ay: f64, by: f64) -> (Res, f64, usize) {
  match m {
    Integrator::Simpson { divs } => {
      let f = f.clone();
      let (r, t) = timed(cap, move || simpson2d(|x, y| f.eval(x, y), ax, bx, ay, by, divs));
      (r, t, 0)
    }
    other => call2(cap, other, f, ax, bx, ay, by),
  }
}

/// the statement's accuracy clauses on one 1-D call (exact in the degree class, tolerance / textbook bound above
/// it, bounded time) and its reversal; `free` = through the free function instead of `Integrator::integrate`
fn acc1(ctx: &mut Ctx, cap: Duration, m: Integrator, f: &I1, a: f64, b: f64, free: bool, tag: &str) {
  let f = if tolerance_driven(&m) { f.normalised(a, b) } else { f.clone() };
  let sc = f.scale(a, b);
  let exact = f.exact(a, b);
  let route = if free { "free-fn" } else { "integrator" };
  let (r, t, evals) = if free { call1_free(cap, m, &f, a, b) } else { call1(cap, m, &f, a, b) };
  let inp = format!(
    "{} route={} ctx={} a={:e} b={:e} kl={:.3} klmin={:.3} alias={:.3e} f={}",
    method_name(&m), route, tag, a, b, f.kl(a, b), f.kl(a, b), alias_ratio(f.kl(a, b), method_tol(&m), 1.), f.describe()
  );
  ctx.count(&format!("{}/{}/{}", tag, short(&m), r.tag()));
  if matches!(r, Res::Timeout) {
    ctx.s("C12.time", false, &format!("{}/timeout", short(&m)), &format!("{} cap_s={} elapsed_s={:.2}", inp, cap.as_secs(), t));
    return;
  }
  let allow = allowance1(&m, &f, a, b, evals);
  let (pred, what) = if allow == 0. { ("C12.exact", "inexact") } else { ("C12.accuracy", "inaccurate") };
  let ok = match r {
    Res::Val(v) => (v - exact).norm() <= 1e-12 * sc + allow,
    _ => false,
  };
  ctx.s(pred, ok, &fail_sig(&m, what, &r), &format!("{} evals={} relerr={:e} allow={:e}", inp, evals, r.val().map(|v| (v - exact).norm() / sc).unwrap_or(f64::NAN), allow / sc));
  if let Res::Val(v) = r {
    let (rr, _, _) = if free { call1_free(cap, m, &f, b, a) } else { call1(cap, m, &f, b, a) };
    if !matches!(rr, Res::Timeout) {
      let okr = match rr {
        Res::Val(w) => (w + v).norm() <= 1e-12 * sc + 2. * allow,
        _ => false,
      };
      ctx.s("C12.reverse", okr, &fail_sig(&m, "reverse", &rr), &format!("{} forward=({:e},{:e}) reversed={}", inp, v.re, v.im, rr.val().map(|w| format!("({:e},{:e})", w.re, w.im)).unwrap_or(rr.tag().into())));
    }
  }
}

/// 2-D exactness on an integrand inside the degree class of the method (bi-polynomial or separable)
fn exact2(ctx: &mut Ctx, cap: Duration, m: Integrator, f: &I2, ax: f64, bx: f64, ay: f64, by: f64, free: bool, tag: &str) {
  let sc = f.scale(ax, bx, ay, by);
  let (r, t, _) = if free { call2_free(cap, m, f, ax, bx, ay, by) } else { call2(cap, m, f, ax, bx, ay, by) };
  let inp = format!(
    "{} route={} ctx={} ax={:e} bx={:e} ay={:e} by={:e} f={}",
    method_name(&m), if free { "free-fn" } else { "integrator" }, tag, ax, bx, ay, by, f.describe()
  );
  ctx.count(&format!("{}/{}2d/{}", tag, short(&m), r.tag()));
  if matches!(r, Res::Timeout) {
    ctx.s("C12.time", false, &format!("{}2d/timeout", short(&m)), &format!("{} cap_s={} elapsed_s={:.2}", inp, cap.as_secs(), t));
    return;
  }
  let ex = f.exact(ax, bx, ay, by);
  let tol_allow = match m {
    Integrator::ClenshawCurtis { tolerance } | Integrator::GaussKonrod { tolerance, .. } => tolerance * ((bx - ax).abs() + 1.) * sc.max(1.),
    _ => 0.,
  };
  let ok = match r {
    Res::Val(v) => (v - ex).norm() <= 1e-12 * sc + tol_allow,
    _ => false,
  };
  let sig = match r {
    Res::Panic => format!("{}2d/inexact/panic", short(&m)),
    _ => format!("{}2d/{}", short(&m), if tol_allow == 0. { "inexact" } else { "inaccurate" }),
  };
  ctx.s(if tol_allow == 0. { "C12.exact" } else { "C12.accuracy" }, ok, &sig, &format!("{} relerr={:e}", inp, r.val().map(|v| (v - ex).norm() / sc).unwrap_or(f64::NAN)));
}

fn gen_cubic(r: &mut Rng) -> I1 {
  // complex cubic, every coefficient non-zero (so the integrand does not vanish at the end points)
  I1::Poly((0..4).map(|_| C::new(r.range(0.3, 1.5) * if r.coin() { 1. } else { -1. }, r.range(0.3, 1.5) * if r.coin() { 1. } else { -1. })).collect())
}

fn gen_bicubic(r: &mut Rng) -> I2 {
  I2::Poly2((0..4).map(|_| (0..4).map(|_| C::new(r.range(-1., 1.), r.range(-1., 1.)) + C::new(0.2, -0.2)).collect()).collect())
}

/// Simpson around the switch to the parallel sum (`divs' ≥ 128`): every division count 118…142, both parities,
/// 1-D (cubic: exact; `exp`: textbook bound) and 2-D (bi-cubic on a rectangle with different x and y ranges),
/// through `Integrator` and through the free functions
fn s_switch_sweep(ctx: &mut Ctx, cap: Duration) {
  for divs in 118..=142usize {
    let m = Integrator::Simpson { divs };
    let (a, b) = (ctx.rng.range(-2., -0.1), ctx.rng.range(0.3, 3.));
    let f = gen_cubic(&mut ctx.rng);
    let e = I1::Exp { k: ctx.rng.range(1., 4.), amp: C::new(0.7, -0.9) };
    for free in [false, true] {
      acc1(ctx, cap, m, &f, a, b, free, "switch");
      acc1(ctx, cap, m, &e, a, b, free, "switch");
    }
    if ctx.thorough || divs % 3 != 0 {
      let p = gen_bicubic(&mut ctx.rng);
      let (ay, by) = (ctx.rng.range(0.5, 1.), ctx.rng.range(2.5, 6.));
      for free in [false, true] {
        exact2(ctx, cap, m, &p, a, b, ay, by, free, "switch");
      }
    }
  }
}

/// one parameter changes between consecutive calls on the same thread, everything else (integrand, interval)
/// stays bit-identical; then the five methods interleaved at identical arguments
fn s_param_scans(ctx: &mut Ctx, cap: Duration) {
  let (a, b) = (ctx.rng.range(-1.5, -0.2), ctx.rng.range(0.4, 2.));
  let (ay, by) = (ctx.rng.range(2., 3.), ctx.rng.range(3.5, 7.));
  let cubic = gen_cubic(&mut ctx.rng);
  let osc = I1::Exp { k: ctx.rng.range(2., 5.), amp: C::new(-0.8, 0.6) };
  let bic = gen_bicubic(&mut ctx.rng);
  let mut seq: Vec<Integrator> = vec![];
  for &divs in &[50usize, 51, 130, 50, 400, 6, 129, 128, 5, 131] {
    seq.push(Integrator::Simpson { divs });
  }
  for &degree in &[2usize, 9, 3, 64, 2, 33, 4] {
    seq.push(Integrator::GaussLegendre { degree });
  }
  for &tolerance in &[1e-3, 1e-9, 1e-3, 1e-12, 1e-6] {
    seq.push(Integrator::AdaptiveSimpson { tolerance, max_depth: 24 });
  }
  for &max_depth in &[30usize, 12, 24] {
    seq.push(Integrator::AdaptiveSimpson { tolerance: 1e-6, max_depth });
  }
  for &tolerance in &[1e-3, 1e-10, 1e-3, 1e-6] {
    seq.push(Integrator::ClenshawCurtis { tolerance });
  }
  for &tolerance in &[1e-3, 1e-8, 1e-3] {
    seq.push(Integrator::GaussKonrod { tolerance, max_depth: 1000 });
  }
  // interleaved at identical arguments
  for _ in 0..2 {
    seq.push(Integrator::Simpson { divs: 60 });
    seq.push(Integrator::GaussLegendre { degree: 12 });
    seq.push(Integrator::AdaptiveSimpson { tolerance: 1e-8, max_depth: 24 });
    seq.push(Integrator::ClenshawCurtis { tolerance: 1e-8 });
    seq.push(Integrator::GaussLegendre { degree: 5 });
    seq.push(Integrator::Simpson { divs: 200 });
  }
  for (i, m) in seq.iter().enumerate() {
    let gk = matches!(m, Integrator::GaussKonrod { .. });
    acc1(ctx, cap, *m, &osc, a, b, false, "scan");
    acc1(ctx, cap, *m, &cubic, a, b, i % 2 == 1 && !gk, "scan");
    if !gk {
      // imaginary (or real) part vanishing exactly at both ends and the midpoint; purely imaginary
      let (mr, mi) = [(0u8, 2u8), (2, 0), (3, 2), (1, 2)][i % 4];
      let w = I1::Win { a, b, pr: if mr == 3 { vec![] } else { vec![0.7, -0.4] }, pi: vec![1.1, 0.6], mr, mi };
      acc1(ctx, cap, *m, &w, a, b, false, "scan");
      let w2 = I2::Sep(w.clone(), I1::Win { a: ay, b: by, pr: vec![0.5], pi: vec![-0.8, 0.3], mr: 0, mi: 2 });
      if degree_class(m).map(|dc| dc >= 7).unwrap_or(false) {
        exact2(ctx, cap, *m, &w2, a, b, ay, by, false, "scan");
      }
    }
    if !gk {
      let f2 = match m {
        // inside every degree class: bi-cubic
        Integrator::GaussLegendre { .. } | Integrator::Simpson { .. } | Integrator::AdaptiveSimpson { .. } | Integrator::ClenshawCurtis { .. } => &bic,
        _ => &bic,
      };
      // Clenshaw–Curtis is tolerance-driven: scale the integrand to 1 so that the tolerance reads the same either way
      if let Integrator::ClenshawCurtis { .. } = m {
        let s = 1. / bic.scale(a, b, ay, by);
        let scaled = match &bic {
          I2::Poly2(rows) => I2::Poly2(rows.iter().map(|r| r.iter().map(|c| c * s).collect()).collect()),
          other => other.clone(),
        };
        exact2(ctx, cap, *m, &scaled, a, b, ay, by, false, "scan");
      } else {
        exact2(ctx, cap, *m, f2, a, b, ay, by, i % 2 == 0, "scan");
      }
    }
  }
}

/// tiny and huge intervals (lengths 1e-9 … 1e6) with integrands that vary on the scale of the interval:
/// cubic in `x/L` and `exp(i κ x/L)`
fn s_extreme_intervals(ctx: &mut Ctx, cap: Duration) {
  let n = if ctx.thorough { 400 } else { 50 };
  for i in 0..n {
    let len = match i % 5 {
      0 => ctx.rng.log_range(1e-9, 1e-5),
      1 => ctx.rng.log_range(1e3, 1e6),
      _ => ctx.rng.log_range(1e-9, 1e6),
    };
    let a = ctx.rng.range(-2., 1.) * len;
    let b = a + len;
    let m = match i % 6 {
      0 => Integrator::Simpson { divs: ctx.rng.between(5, 400) },
      1 => Integrator::GaussLegendre { degree: ctx.rng.between(2, 64) },
      2 => Integrator::AdaptiveSimpson { tolerance: gen_tol(&mut ctx.rng), max_depth: 24 },
      3 => Integrator::ClenshawCurtis { tolerance: gen_tol(&mut ctx.rng) },
      4 => Integrator::Simpson { divs: ctx.rng.between(126, 134) },
      _ => {
        if i % 12 == 5 {
          Integrator::GaussKonrod { tolerance: gen_tol(&mut ctx.rng), max_depth: 1000 }
        } else {
          Integrator::GaussLegendre { degree: ctx.rng.between(2, 8) }
        }
      }
    };
    let cubic = match gen_cubic(&mut ctx.rng) {
      I1::Poly(cs) => I1::Poly(cs.iter().enumerate().map(|(j, c)| c / len.powi(j as i32)).collect()),
      other => other,
    };
    let osc = I1::Exp { k: ctx.rng.range(-3., 3.) / len, amp: C::new(0.6, 0.8) };
    acc1(ctx, cap, m, &cubic, a, b, i % 4 == 3, "extreme");
    acc1(ctx, cap, m, &osc, a, b, false, "extreme");
    if (i / 6) % 2 == 0 && !matches!(m, Integrator::GaussKonrod { .. }) {
      // rectangle: tiny in x, huge in y (or the other way round)
      let ly = 1. / len;
      let (ay, by) = (0.25 * ly, 1.25 * ly);
      let rows: Vec<Vec<C>> = (0..4)
        .map(|jy| (0..4).map(|jx| C::new(ctx.rng.range(-1., 1.), ctx.rng.range(-1., 1.)) / (len.powi(jx) * ly.powi(jy))).collect())
        .collect();
      let p = I2::Poly2(rows);
      let p = if tolerance_driven(&m) {
        let s = 1. / p.scale(a, b, ay, by);
        match &p {
          I2::Poly2(rows) => I2::Poly2(rows.iter().map(|r| r.iter().map(|c| c * s).collect()).collect()),
          o => o.clone(),
        }
      } else {
        p
      };
      exact2(ctx, cap, m, &p, a, b, ay, by, false, "extreme");
    }
  }
}

/// AdaptiveSimpson at the tight end of the statement's tolerance range (1e-12 … 1e-11) on strongly oscillatory
/// `exp(ikx)` (k(b−a) from 30 to 3000), which needs 13–20 bisection levels: the result must still be within the
/// requested tolerance. (Aliasing, finding D41, is told apart by `alias ≤ 1`; it is rare at these tolerances.)
fn s_adaptive_tight(ctx: &mut Ctx, cap: Duration) {
  let n = if ctx.thorough { 60 } else { 10 };
  for i in 0..n {
    let tolerance = [1e-12, 1e-11, 3e-12, 1e-12][i % 4];
    let m = Integrator::AdaptiveSimpson { tolerance, max_depth: 26 };
    let (a, b) = match i % 3 {
      0 => (-0.7, 1.9),
      1 => (0., ctx.rng.range(0.5, 3.)),
      _ => (ctx.rng.range(-2., -0.5), ctx.rng.range(0.5, 2.)),
    };
    let kl = match i % 5 {
      0 => ctx.rng.range(250., 600.),
      1 => ctx.rng.range(600., 3000.),
      _ => ctx.rng.log_range(30., 3000.),
    };
    let k = kl / (b - a) * if ctx.rng.coin() { 1. } else { -1. };
    let f = I1::Exp { k, amp: C::from_polar(1., ctx.rng.range(0., 6.28)) };
    acc1(ctx, cap, m, &f, a, b, i % 2 == 1, "tight");
  }
}

/// AdaptiveSimpson in 2-D at a moderate `max_depth` (12 … 24) that the fast variable needs most of: with the fast
/// oscillation in the inner (y) or the outer (x) variable the 2-D integral of `g(x)h(y)` is the product of the 1-D
/// integrals (same tolerance, same depth) and the closed form, within the requested tolerance
fn s_adaptive2d_depth(ctx: &mut Ctx, cap: Duration) {
  let combos = [(1e-6, 12usize), (1e-9, 18), (1e-11, 20), (1e-6, 14), (1e-9, 24), (1e-8, 16)];
  let n = if ctx.thorough { 36 } else { 8 };
  for i in 0..n {
    let (tolerance, max_depth) = combos[i % combos.len()];
    let m = Integrator::AdaptiveSimpson { tolerance, max_depth };
    let (ax, bx) = (ctx.rng.range(-1.5, -0.5), ctx.rng.range(0.5, 1.5));
    let (ay, by) = (ctx.rng.range(-2., -1.), ctx.rng.range(0.5, 1.5));
    let fast_kl = ctx.rng.range(120., 200.);
    let slow_kl = ctx.rng.range(0.5, 3.);
    let fast_inner = i % 2 == 0;
    let (klx, kly) = if fast_inner { (slow_kl, fast_kl) } else { (fast_kl, slow_kl) };
    let g = I1::Exp { k: klx / (bx - ax), amp: C::from_polar(1., ctx.rng.range(0., 6.28)) }.normalised(ax, bx);
    let h = I1::Exp { k: -kly / (by - ay), amp: C::from_polar(1., ctx.rng.range(0., 6.28)) }.normalised(ay, by);
    let f = I2::Sep(g.clone(), h.clone());
    let sc = f.scale(ax, bx, ay, by);
    let (r2, t2, ev2) = call2(cap, m, &f, ax, bx, ay, by);
    let inp = format!(
      "{} ctx=depth fast={} ax={:e} bx={:e} ay={:e} by={:e} kl={:.3} alias={:.3e} evals={} g={} h={}",
      method_name(&m), if fast_inner { "inner" } else { "outer" }, ax, bx, ay, by, fast_kl,
      alias_ratio_2d(&g, &h, ax, bx, ay, by, tolerance), ev2, g.describe(), h.describe()
    );
    ctx.count(&format!("depth/adaptive2d/{}", r2.tag()));
    if matches!(r2, Res::Timeout) {
      ctx.s("C12.time", false, "adaptive2d/timeout", &format!("{} cap_s={} elapsed_s={:.2}", inp, cap.as_secs(), t2));
      continue;
    }
    let (rg, _, _) = call1(cap, m, &g, ax, bx);
    let (rh, _, _) = call1(cap, m, &h, ay, by);
    if let (Res::Val(v2), Res::Val(vg), Res::Val(vh)) = (r2, rg, rh) {
      let lx = (bx - ax).abs();
      let allow2 = tolerance * (lx + 1.) * sc.max(1.);
      let budget = 1e-12 * sc + allow2 + tolerance * (g.scale(ax, bx) + h.scale(ay, by)) + tolerance * tolerance;
      let inp_sep = inp.replacen(
        &format!("alias={:.3e}", alias_ratio_2d(&g, &h, ax, bx, ay, by, tolerance)),
        &format!("alias={:.3e}", alias_ratio_sep(&g, &h, ax, bx, ay, by, tolerance)),
        1,
      );
      ctx.s("C12.separable", (v2 - vg * vh).norm() <= budget, "adaptive2d/not-separable", &format!("{} reldiff={:e} budget={:e}", inp_sep, (v2 - vg * vh).norm() / sc, budget / sc));
      let ex = f.exact(ax, bx, ay, by);
      ctx.s("C12.accuracy", (v2 - ex).norm() <= 1e-12 * sc + allow2, "adaptive2d/inaccurate", &format!("{} relerr={:e} allow={:e}", inp, (v2 - ex).norm() / sc, allow2 / sc));
    } else {
      ctx.s("C12.separable", false, "adaptive2d/separable/panic", &inp);
    }
  }
}

// ------------------------------------------------------------------ the large end of the parameter ranges

/// `kl` snapped to an odd multiple of π plus a small jitter: `|sin(kl/2)| ≥ 0.9`, so the integral of `exp(ikx)` over
/// the interval is not small against `2/|k|` (the relative-tolerance methods have something to be relative to)
fn snap_kl(r: &mut Rng, kl: f64) -> f64 {
  let n = (kl / std::f64::consts::TAU).floor().max(0.);
  n * std::f64::consts::TAU + std::f64::consts::PI + r.range(-0.4, 0.4)
}

/// One separable case `g(x)·h(y)` at the large end of a method's parameters. The two 1-D factors are integrated FIRST
/// with the very same `Integrator` value. Where both are accepted and within the requested tolerance / textbook bound,
/// the statement's 2-D clauses are checked with the same value: accepted (no panic) — `C12.accept`; finishes under
/// the cap — `C12.time`; equals the product of the two 1-D results — `C12.separable`; equals the closed form —
/// `C12.accuracy`. `need` = (evaluations the factor needed under a far larger budget, evaluations one unit of the
/// budget buys): when that shows the case's budget to be sufficient, the 1-D call itself must succeed.
fn large_case(ctx: &mut Ctx, cap: Duration, m: Integrator, g: &I1, h: &I1, ax: f64, bx: f64, ay: f64, by: f64, fast: &str, budget_ok: Option<bool>) {
  let (g, h) = if tolerance_driven(&m) { (g.normalised(ax, bx), h.normalised(ay, by)) } else { (g.clone(), h.clone()) };
  let f = I2::Sep(g.clone(), h.clone());
  let sc = f.scale(ax, bx, ay, by);
  let (sg, sh) = (g.scale(ax, bx), h.scale(ay, by));
  let tol = method_tol(&m);
  let base = format!(
    "{} ctx=large fast={} ax={:e} bx={:e} ay={:e} by={:e} kl={:.3} klx={:.3} kly={:.3}",
    method_name(&m), fast, ax, bx, ay, by, g.kl(ax, bx).max(h.kl(ay, by)), g.kl(ax, bx), h.kl(ay, by)
  );
  // ---- 1-D, same Integrator value
  let mut ok1 = true;
  let mut v1 = [C::new(0., 0.); 2];
  let mut al1 = [0.; 2];
  let mut ev1 = [0usize; 2];
  let mut tags = [String::new(), String::new()];
  for (j, (f1, a, b)) in [(&g, ax, bx), (&h, ay, by)].into_iter().enumerate() {
    let (r, t, evals) = call1(cap, m, f1, a, b);
    let axis = if j == 0 { "x" } else { "y" };
    let inp = format!(
      "{} axis={} a={:e} b={:e} alias={:.3e} f={} evals={}",
      base.replacen(&format!("kl={:.3}", g.kl(ax, bx).max(h.kl(ay, by))), &format!("kl={:.3}", f1.kl(a, b)), 1),
      axis, a, b, alias_ratio(f1.kl(a, b), tol, f1.scale(a, b)), f1.describe(), evals
    );
    ctx.count(&format!("large/{}/1d/{}", short(&m), r.tag()));
    tags[j] = r.tag().to_string();
    ev1[j] = evals;
    match r {
      Res::Timeout => {
        ctx.s("C12.time", false, &format!("{}/large/timeout", short(&m)), &format!("{} cap_s={} elapsed_s={:.2}", inp, cap.as_secs(), t));
        ok1 = false;
      }
      Res::Panic => {
        // a budget shown to be sufficient (the same integral under a far larger budget used fewer evaluations than
        // this budget buys) must be accepted; otherwise the 1-D call legitimately ran out of its budget: skipped
        if budget_ok == Some(true) {
          ctx.s("C12.accuracy", false, &format!("{}/large/inaccurate/panic", short(&m)), &format!("{} budget=sufficient", inp));
        } else {
          ctx.count(&format!("large/{}/1d-budget-exhausted", short(&m)));
        }
        ok1 = false;
      }
      Res::Val(v) => {
        let allow = allowance1(&m, f1, a, b, evals);
        let s1 = f1.scale(a, b);
        let err = (v - f1.exact(a, b)).norm();
        let good = err <= 1e-12 * s1 + allow;
        ctx.s("C12.accuracy", good, &fail_sig(&m, "inaccurate", &r), &format!("{} relerr={:e} allow={:e}", inp, err / s1, allow / s1));
        ok1 = ok1 && good;
        v1[j] = v;
        al1[j] = allow;
      }
    }
  }
  if !ok1 {
    ctx.count(&format!("large/{}/2d-skipped", short(&m)));
    return;
  }
  // ---- 2-D, same Integrator value
  let (r2, t2, ev2) = call2(cap, m, &f, ax, bx, ay, by);
  ctx.count(&format!("large/{}/2d/{}", short(&m), r2.tag()));
  let inp = format!(
    "{} alias={:.3e} evals={} evals1d={}/{} g={} h={}",
    base, alias_ratio_sep(&g, &h, ax, bx, ay, by, tol), ev2, ev1[0], ev1[1], g.describe(), h.describe()
  );
  ctx.s(
    "C12.accept",
    !matches!(r2, Res::Panic),
    &format!("accept/{}/large/2d-panic", short(&m)),
    &format!("{} ok1d={}/{} ok2d={}", inp, tags[0], tags[1], r2.tag()),
  );
  ctx.s("C12.time", !matches!(r2, Res::Timeout), &format!("{}2d/large/timeout", short(&m)), &format!("{} cap_s={} elapsed_s={:.2}", inp, cap.as_secs(), t2));
  let v2 = match r2 {
    Res::Val(v) => v,
    _ => return,
  };
  let (alg, alh) = (al1[0], al1[1]);
  let per_axis_evals = (ev2 as f64).sqrt().round() as usize;
  let (alg2, alh2) = match m {
    Integrator::Simpson { .. } => (allowance1(&m, &g, ax, bx, per_axis_evals), allowance1(&m, &h, ay, by, per_axis_evals)),
    _ => (alg, alh),
  };
  let allow2 = if tolerance_driven(&m) { tol * ((bx - ax).abs() + 1.) * sc.max(1.) } else { alg2 * sh + alh2 * sg + alg2 * alh2 };
  let budget = 1e-12 * sc + allow2 + alg * sh + alh * sg + alg * alh;
  let diff = (v2 - v1[0] * v1[1]).norm();
  ctx.s("C12.separable", diff <= budget, &format!("{}2d/not-separable", short(&m)), &format!("{} reldiff={:e} budget={:e}", inp, diff / sc, budget / sc));
  let err = (v2 - f.exact(ax, bx, ay, by)).norm();
  ctx.s("C12.accuracy", err <= 1e-12 * sc + allow2, &format!("{}2d/inaccurate", short(&m)), &format!("{} relerr={:e} allow={:e}", inp, err / sc, allow2 / sc));
}

/// The large end of every method's parameters — iteration / recursion budgets 1000…5000 (and the powers of two around
/// them), tolerances 1e-8…1e-12, 48–64 Gauss–Legendre nodes, 390–400 Simpson divisions — on separable `exp×exp`
/// integrands with the fast oscillation in the inner or in the outer variable, strong enough that the fast factor
/// really uses most of the budget (Gauss–Kronrod: 55–80 % of `max_depth` bisections, measured on the 1-D factor
/// under a three times larger budget).
fn s_large_params(ctx: &mut Ctx, cap: Duration) {
  let reps = if ctx.thorough { 4 } else { 1 };
  let phase = |r: &mut Rng| C::from_polar(1., r.range(0., 6.28));
  let rect = |r: &mut Rng| match r.below(3) {
    0 => (0., 1., 0., 1.),
    1 => (-1., 1., 0., 2.),
    _ => (r.range(-1.5, -0.5), r.range(0.5, 1.5), r.range(-2., -1.), r.range(0.5, 1.5)),
  };
  // ---- Gauss–Kronrod. Measured on the unchanged tree: one quad-rs iteration costs 46 evaluations, every 1-D integral
  // needs at least 62 iterations whatever the tolerance, `exp(ikx)` with k(b−a) = 6 000 / 8 000 / 12 000 needs
  // 1 022 / 1 742 / 2 046; the outer integral of a nested call with a slow outer factor takes 23 evaluations.
  // The budget of a case is DERIVED from the need N of its fast factor (measured in 1-D under a budget of 20 000):
  // max_depth = N / (0.55 … 0.92), i.e. 1 100 … 6 000 for the strongly oscillatory ones — the factor uses most of it.
  // Fast INNER factor: 23 × 46 N evaluations (under 2 s). Fast OUTER factor: 46 N × 2 921 — one case, thorough only.
  let n_gk = if ctx.thorough { 13 } else { 4 };
  for i in 0..n_gk {
    let fast_inner = i < 12;
    let tolerance = *ctx.rng.pick(&[1e-8, 1e-9, 1e-10, 1e-11, 1e-12]);
    let (ax, bx, ay, by) = rect(&mut ctx.rng);
    let raw = if !fast_inner {
      ctx.rng.range(300., 900.)
    } else if i % 4 == 3 {
      ctx.rng.log_range(1., 3000.)
    } else {
      ctx.rng.log_range(6000., 16000.)
    };
    let fast_kl = snap_kl(&mut ctx.rng, raw);
    let slow_raw = ctx.rng.range(0., 12.);
    let slow_kl = snap_kl(&mut ctx.rng, slow_raw);
    let (klx, kly) = if fast_inner { (slow_kl, fast_kl) } else { (fast_kl, slow_kl) };
    let g = I1::Exp { k: klx / (bx - ax) * if ctx.rng.coin() { 1. } else { -1. }, amp: phase(&mut ctx.rng) };
    let h = I1::Exp { k: kly / (by - ay) * if ctx.rng.coin() { 1. } else { -1. }, amp: phase(&mut ctx.rng) };
    // the need of the fast factor
    let (ff, fa, fb) = if fast_inner { (h.normalised(ay, by), ay, by) } else { (g.normalised(ax, bx), ax, bx) };
    let (rb, _, eb) = call1(cap, Integrator::GaussKonrod { tolerance, max_depth: 20000 }, &ff, fa, fb);
    if !matches!(rb, Res::Val(_)) {
      ctx.count(&format!("large/gk/need-unknown/{}", rb.tag()));
      continue;
    }
    let need = eb as f64 / 46.;
    let frac = ctx.rng.range(0.55, 0.92);
    let max_depth = (need / frac).ceil() as usize + 2;
    ctx.count(&format!("large/gk/need/{:02}00+", (need / 100.) as usize));
    ctx.count(&format!("large/gk/max_depth/{:02}00+", max_depth / 100));
    let m = Integrator::GaussKonrod { tolerance, max_depth };
    large_case(ctx, cap, m, &g, &h, ax, bx, ay, by, if fast_inner { "inner" } else { "outer" }, Some(true));
  }
  // ---- adaptive Simpson: recursion budgets far above what is needed (a cap only), the powers of two and 10^k
  let adepths = [256usize, 1000, 1024, 2000, 4096, 5000, 65536, 512, 3000, 1 << 32];
  for i in 0..4 * reps {
    let max_depth = adepths[(i + ctx.seed as usize) % adepths.len()];
    let tolerance = *ctx.rng.pick(&[1e-8, 1e-9, 1e-10, 1e-11]);
    let m = Integrator::AdaptiveSimpson { tolerance, max_depth };
    let (ax, bx, ay, by) = rect(&mut ctx.rng);
    let fast_inner = i % 2 == 0;
    let fast_kl = ctx.rng.range(120., 200.);
    let slow_kl = ctx.rng.range(0.5, 3.);
    let (klx, kly) = if fast_inner { (slow_kl, fast_kl) } else { (fast_kl, slow_kl) };
    let g = I1::Exp { k: klx / (bx - ax), amp: phase(&mut ctx.rng) };
    let h = I1::Exp { k: -kly / (by - ay), amp: phase(&mut ctx.rng) };
    large_case(ctx, cap, m, &g, &h, ax, bx, ay, by, if fast_inner { "inner" } else { "outer" }, None);
  }
  // ---- correspondence with the model at the same recursion budgets (fuel = max_depth): 1-D with the evaluation count, 2-D
  for i in 0..3 * reps {
    let max_depth = adepths[(i + 3 + ctx.seed as usize) % adepths.len()];
    let (ax, bx, ay, by) = rect(&mut ctx.rng);
    let f = I1::Exp { k: ctx.rng.range(40., 150.) / (bx - ax), amp: phase(&mut ctx.rng) };
    let s = f.scale(ax, bx);
    let eps = *ctx.rng.pick(&[1e-8, 1e-10, 1e-11]) * s;
    let cnt = AtomicUsize::new(0);
    let r = guard(|| {
      Integrator::AdaptiveSimpson { tolerance: eps, max_depth }.integrate(
        |x| {
          cnt.fetch_add(1, Ordering::Relaxed);
          f.eval(x)
        },
        ax,
        bx,
      )
    });
    let out = match r {
      Some(c) => format!("{} {} {}", fl(c.re / s), fl(c.im / s), cnt.load(Ordering::Relaxed)),
      None => "PANIC".into(),
    };
    ctx.count("large/adaptive/k");
    ctx.k("adaptive", &format!("{} {} {} {} {} {}", fl(ax), fl(bx), fl(eps), max_depth, fl(s), f.wire()), &out);
    let f2 = I2::Sep(I1::Exp { k: ctx.rng.range(1., 4.), amp: phase(&mut ctx.rng) }, I1::Exp { k: -ctx.rng.range(8., 20.) / (by - ay), amp: phase(&mut ctx.rng) });
    let s2 = f2.scale(ax, bx, ay, by);
    let eps2 = *ctx.rng.pick(&[1e-6, 1e-7, 1e-8]) * s2;
    let ff = f2.clone();
    let r2 = guard(move || Integrator::AdaptiveSimpson { tolerance: eps2, max_depth }.integrate2d(|x, y| ff.eval(x, y), ax, bx, ay, by));
    ctx.count("large/adaptive2d/k");
    ctx.k(
      "adaptive2d",
      &format!("{} {} {} {} {} {} {} {}", fl(ax), fl(bx), fl(ay), fl(by), fl(eps2), max_depth, fl(s2), f2.wire()),
      &outc(r2, s2),
    );
  }
  // ---- Clenshaw–Curtis at the tight tolerances, Gauss–Legendre with 48–64 nodes, Simpson with 390–400 divisions
  for i in 0..6 * reps {
    let (m, fast_kl) = match i % 3 {
      0 => (Integrator::ClenshawCurtis { tolerance: *ctx.rng.pick(&[1e-8, 1e-9, 1e-10, 1e-11, 1e-12]) }, ctx.rng.range(20., 60.)),
      1 => (Integrator::GaussLegendre { degree: ctx.rng.between(48, 64) }, ctx.rng.range(20., 50.)),
      _ => (Integrator::Simpson { divs: ctx.rng.between(390, 400) }, ctx.rng.range(20., 60.)),
    };
    let (ax, bx, ay, by) = rect(&mut ctx.rng);
    let fast_inner = (i / 3) % 2 == 0;
    let slow_kl = ctx.rng.range(0.5, 3.);
    let (klx, kly) = if fast_inner { (slow_kl, fast_kl) } else { (fast_kl, slow_kl) };
    let g = I1::Exp { k: klx / (bx - ax), amp: phase(&mut ctx.rng) };
    let h = I1::Exp { k: -kly / (by - ay), amp: phase(&mut ctx.rng) };
    large_case(ctx, cap, m, &g, &h, ax, bx, ay, by, if fast_inner { "inner" } else { "outer" }, None);
  }
}

