//! C01 — principal refractive indices, crystal metadata, ids
use crate::common::*;
use spdcalc::crystal::{CrystalMeta, CrystalType, OpticAxisType};
use spdcalc::dim::ucum::{K, M};
use spdcalc::utils::from_celsius_to_kelvin;
use std::str::FromStr;

pub fn variants() -> Vec<CrystalType> {
  vec![
    CrystalType::BBO_1,
    CrystalType::KTP,
    CrystalType::BiBO_1,
    CrystalType::LiNbO3_1,
    CrystalType::LiNb_MgO,
    CrystalType::KDP_1,
    CrystalType::AgGaSe2_1,
    CrystalType::AgGaSe2_2,
    CrystalType::LiIO3_2,
    CrystalType::LiIO3_1,
    CrystalType::AgGaS2_1,
  ]
}

fn vname(c: &CrystalType) -> String {
  format!("{:?}", c)
}

/// indices at wavelength `lam` (m) and temperature `tk` (K) from the real code
fn idx(c: &CrystalType, lam: f64, tk: f64) -> Option<[f64; 3]> {
  guard(|| {
    let n = c.get_indices(lam * M, tk * K);
    [n.x, n.y, n.z]
  })
}

fn kelvin(tc: f64) -> f64 {
  *(from_celsius_to_kelvin(tc) / K)
}

/// wavelengths used for generation: the declared window; for LiNbO3_1 on a tree where the window
/// is the 0.4–3.4 nm slip (D1) the intended 400–3400 nm is used and D1 is reported by `C01.window`.
fn gen_window(c: &CrystalType) -> (f64, f64) {
  let m = c.get_meta();
  match m.transmission_range {
    Some(r) if r.0 >= 50e-9 && r.1 > r.0 && r.1 <= 50e-6 => (r.0, r.1),
    _ => {
      if m.id == "LiNbO3_1" {
        (400e-9, 3400e-9)
      } else {
        (500e-9, 1500e-9)
      }
    }
  }
}

fn up(x: f64, k: i64) -> f64 {
  f64::from_bits((x.to_bits() as i64 + k) as u64)
}

fn axis_name(a: OpticAxisType) -> &'static str {
  match a {
    OpticAxisType::PositiveUniaxial => "PositiveUniaxial",
    OpticAxisType::NegativeUniaxial => "NegativeUniaxial",
    OpticAxisType::PositiveBiaxial => "PositiveBiaxial",
    OpticAxisType::NegativeBiaxial => "NegativeBiaxial",
  }
}

fn meta_line(m: &CrystalMeta) -> String {
  let r = match m.transmission_range {
    Some(r) => format!("{} {}", fl(r.0), fl(r.1)),
    None => "none".to_string(),
  };
  format!(
    "{} {} {:?} {} {} | {} | {}",
    m.id,
    axis_name(m.axis_type),
    m.point_group,
    r,
    m.temperature_dependence_known,
    m.name,
    m.reference_url
  )
}

fn k_indices(ctx: &mut Ctx, c: &CrystalType, lam: f64, tk: f64) {
  let out = match idx(c, lam, tk) {
    Some(n) => fls(&n),
    None => "PANIC".to_string(),
  };
  ctx.k("indices", &format!("{} {} {}", vname(c), fl(lam), fl(tk)), &out);
}

const T_FIXED: [f64; 4] = [-50.0, 20.0, 24.5, 200.0];

pub fn run(ctx: &mut Ctx) {
  let cs = variants();
  meta_and_ids(ctx, &cs);
  for c in cs.iter() {
    correspondence(ctx, c);
  }
  for c in cs.iter() {
    statement_grid(ctx, c);
    temperature_law(ctx, c);
  }
  expression_crystals(ctx);
}

// --------------------------------------------------------------------------- K: indices
fn correspondence(ctx: &mut Ctx, c: &CrystalType) {
  let (lo, hi) = gen_window(c);
  let id = vname(c);
  // window edges ± a few ulp (the formulas are defined on both sides), every fixed temperature
  let mut lams: Vec<f64> = vec![];
  for e in [lo, hi] {
    for k in [-2i64, -1, 0, 1, 2] {
      lams.push(up(e, k));
    }
  }
  // branch point of KTP n_y (l < 1.2 µm) — generated for every crystal: harmless elsewhere
  for k in -3i64..=3 {
    lams.push(up(1.2e-6, k));
  }
  lams.push(1.2 * 1e-6);
  lams.push(1200e-9);
  for lam in lams.iter() {
    if *lam >= lo && *lam <= hi || (*lam - lo).abs() < 1e-12 || (*lam - hi).abs() < 1e-12 {
      for t in T_FIXED.iter() {
        ctx.count(&format!("indices/{}/edge-or-branch", id));
        k_indices(ctx, c, *lam, kelvin(*t));
      }
    }
  }
  // log-spaced wavelengths with a jitter, temperatures fixed ∪ random
  let n = ctx.n.max(8);
  for i in 0..n {
    let u = (i as f64 + ctx.rng.unit()) / n as f64;
    let lam = (lo.ln() + (hi.ln() - lo.ln()) * u).exp().clamp(lo, hi);
    let tc = match ctx.rng.below(8) {
      0 => -50.0,
      1 => 20.0,
      2 => 24.5,
      3 => 200.0,
      _ => ctx.rng.range(-50.0, 200.0),
    };
    ctx.count(&format!("indices/{}/window", id));
    k_indices(ctx, c, lam, kelvin(tc));
  }
  // round nanometre wavelengths (what users type)
  for _ in 0..n / 4 {
    let nm = (ctx.rng.range(lo * 1e9, hi * 1e9)).round();
    let lam = (nm * 1e-9).clamp(lo, hi);
    let tc = (ctx.rng.range(-50.0, 200.0)).round();
    ctx.count(&format!("indices/{}/round-nm", id));
    k_indices(ctx, c, lam, kelvin(tc));
  }
}

// --------------------------------------------------------------------------- K + S: meta, ids
fn meta_and_ids(ctx: &mut Ctx, cs: &[CrystalType]) {
  let all = CrystalType::get_all_meta();
  ctx.k(
    "all_meta",
    "",
    &all.iter().map(|m| m.id.to_string()).collect::<Vec<_>>().join(" "),
  );
  // ids unique, one META per built-in crystal
  let mut ids: Vec<&str> = all.iter().map(|m| m.id).collect();
  ids.sort();
  let n_before = ids.len();
  ids.dedup();
  ctx.s(
    "C01.ids_unique",
    ids.len() == n_before && n_before == cs.len(),
    "ids/unique",
    &format!("n_meta={} n_distinct={} n_variants={}", n_before, ids.len(), cs.len()),
  );
  for c in cs.iter() {
    let v = vname(c);
    let m = c.get_meta();
    ctx.count("meta/crystal");
    ctx.k("meta", &v, &meta_line(&m));
    ctx.k("to_string", &v, &c.to_string());
    let js = serde_json::to_string(c).unwrap_or_else(|_| "SERERR".into());
    ctx.k("serde", &v, &js);

    // S: window inside the optical range, lo < hi
    let (ok, det) = match m.transmission_range {
      Some(r) => (
        r.0.is_finite() && r.1.is_finite() && 100e-9 <= r.0 && r.0 < r.1 && r.1 <= 20e-6,
        format!("crystal={} lo={:e} hi={:e}", m.id, r.0, r.1),
      ),
      None => (false, format!("crystal={} window=none", m.id)),
    };
    ctx.s("C01.window", ok, &format!("window/{}", m.id), &det);

    // S: identifier round trip through printing and parsing, to the same crystal and metadata
    let printed = c.to_string();
    let parsed = guard(|| CrystalType::from_string(&printed));
    let ok_rt = match &parsed {
      Some(Ok(p)) => p == c && p.get_meta() == m && printed == m.id,
      _ => false,
    };
    let parsed2 = guard(|| CrystalType::from_str(m.id));
    let ok_rt2 = matches!(&parsed2, Some(Ok(p)) if p == c && p.get_meta() == m);
    // serde: unit variants travel as their name
    let back: Result<CrystalType, _> = serde_json::from_str(&js);
    let ok_serde = matches!(&back, Ok(p) if p == c);
    // the meta listed by get_all_meta under this id is this crystal's meta
    let listed = all.iter().filter(|x| x.id == m.id).count() == 1
      && all.iter().any(|x| *x == m);
    ctx.s(
      "C01.id_roundtrip",
      ok_rt && ok_rt2 && ok_serde && listed,
      &format!("ids/roundtrip/{}", v),
      &format!(
        "crystal={} printed={} display_parse={} fromstr={} serde={} listed={}",
        v, printed, ok_rt, ok_rt2, ok_serde, listed
      ),
    );
  }
  // from_string on ids, near misses and junk (single tokens)
  let mut toks: Vec<String> = vec![];
  for m in all.iter() {
    toks.push(m.id.to_string());
    toks.push(m.id.to_lowercase());
    toks.push(m.id.to_uppercase());
    toks.push(format!("{}_", m.id));
    toks.push(m.id.replace('_', ""));
    toks.push(m.id[..m.id.len() - 1].to_string());
  }
  for s in ["Expr", "BBO", "KTP_1", "LiNbO3", "AgGaS2", "x", "BBO_2", "no:1,ne:2", "{}", "nx=1"] {
    toks.push(s.to_string());
  }
  for t in toks.iter() {
    if t.is_empty() || t.contains(' ') {
      continue;
    }
    let r = guard(|| CrystalType::from_string(t));
    let out = match r {
      Some(Ok(CrystalType::Expr(_))) | Some(Err(_)) => "OTHER".to_string(),
      Some(Ok(c)) => vname(&c),
      None => "PANIC".to_string(),
    };
    ctx.count("from_string/token");
    ctx.k("from_string", t, &out);
  }
}

// --------------------------------------------------------------------------- S: the statement on a dense grid
fn statement_grid(ctx: &mut Ctx, c: &CrystalType) {
  let (lo, hi) = gen_window(c);
  let m = c.get_meta();
  let id = vname(c);
  let g = if ctx.thorough { 50_000usize } else { 2_000 };
  let mut temps: Vec<f64> = T_FIXED.to_vec();
  let extra = if ctx.thorough { 6 } else { 2 };
  for _ in 0..extra {
    temps.push(ctx.rng.range(-50.0, 200.0));
  }
  for tc in temps.iter() {
    let tk = kelvin(*tc);
    let mut prev: Option<(f64, [f64; 3])> = None;
    let mut bad_bounds: Option<String> = None;
    let mut bad_mono: Option<String> = None;
    let mut bad_class: Option<String> = None;
    let mut nmin = f64::INFINITY;
    let mut nmax = f64::NEG_INFINITY;
    let mut gap_min = f64::INFINITY;
    for i in 0..g {
      let u = i as f64 / (g - 1) as f64;
      let lam = if i == 0 {
        lo
      } else if i == g - 1 {
        hi
      } else {
        (lo.ln() + (hi.ln() - lo.ln()) * u).exp().clamp(lo, hi)
      };
      if let Some((pl, _)) = prev {
        if lam <= pl {
          continue;
        }
      }
      let n = match idx(c, lam, tk) {
        Some(n) => n,
        None => {
          if bad_bounds.is_none() {
            bad_bounds = Some(format!("crystal={} T_C={} lam_nm={} panic=1", id, tc, lam * 1e9));
          }
          continue;
        }
      };
      for a in 0..3 {
        nmin = nmin.min(n[a]);
        nmax = nmax.max(n[a]);
        if !(n[a].is_finite() && n[a] > 1.0 && n[a] < 4.0) && bad_bounds.is_none() {
          bad_bounds =
            Some(format!("crystal={} T_C={} lam_nm={} axis={} n={:e}", id, tc, lam * 1e9, a, n[a]));
        }
      }
      if let Some((pl, pn)) = prev {
        for a in 0..3 {
          if !(n[a] < pn[a]) && bad_mono.is_none() {
            bad_mono = Some(format!(
              "crystal={} T_C={} lam1_nm={} lam2_nm={} axis={} n1={:e} n2={:e}",
              id,
              tc,
              pl * 1e9,
              lam * 1e9,
              a,
              pn[a],
              n[a]
            ));
          }
        }
      }
      // declared optical class
      let (ok, gap) = match m.axis_type {
        OpticAxisType::NegativeUniaxial => (n[0] == n[1] && n[2] < n[0], n[0] - n[2]),
        OpticAxisType::PositiveUniaxial => (n[0] == n[1] && n[2] > n[0], n[2] - n[0]),
        OpticAxisType::PositiveBiaxial => (n[2] > n[0] && n[2] > n[1], (n[2] - n[0]).min(n[2] - n[1])),
        // the statement says nothing about negative biaxial crystals (none is built in)
        OpticAxisType::NegativeBiaxial => (true, f64::INFINITY),
      };
      gap_min = gap_min.min(gap);
      if !ok && bad_class.is_none() {
        bad_class = Some(format!(
          "crystal={} class={} T_C={} lam_nm={} nx={:e} ny={:e} nz={:e}",
          id,
          axis_name(m.axis_type),
          tc,
          lam * 1e9,
          n[0],
          n[1],
          n[2]
        ));
      }
      prev = Some((lam, n));
    }
    ctx.count(&format!("grid/{}", id));
    let base = format!("crystal={} T_C={} points={} nmin={:.6} nmax={:.6} classgap_min={:.3e}", id, tc, g, nmin, nmax, gap_min);
    ctx.s("C01.bounds", bad_bounds.is_none(), &format!("bounds/{}", id), bad_bounds.as_ref().unwrap_or(&base));
    ctx.s("C01.monotone", bad_mono.is_none(), &format!("monotone/{}", id), bad_mono.as_ref().unwrap_or(&base));
    ctx.s("C01.class", bad_class.is_none(), &format!("class/{}", id), bad_class.as_ref().unwrap_or(&base));
  }
}

// --------------------------------------------------------------------------- S: temperature law
fn temperature_law(ctx: &mut Ctx, c: &CrystalType) {
  let (lo, hi) = gen_window(c);
  let m = c.get_meta();
  let id = vname(c);
  let n = if ctx.thorough { 4000 } else { 300 };
  let mut bad: Option<String> = None;
  let mut worst = 0.0f64;
  // LiNb_MgO follows the published (non-linear) law of Gayer et al.: that closed form is the model,
  // tied by the `indices` correspondence at every temperature incl. the reference 24.5 °C; there is
  // nothing model-free to assert about it here.
  let kind = if !m.temperature_dependence_known {
    "independent"
  } else if id == "LiNb_MgO" {
    "published-law"
  } else {
    "linear"
  };
  for i in 0..(if kind == "published-law" { 0 } else { n }) {
    let lam = match i {
      0 => lo,
      1 => hi,
      _ => ctx.rng.log_range(lo, hi),
    };
    let tc = match i % 5 {
      0 => -50.0,
      1 => 200.0,
      _ => ctx.rng.range(-50.0, 200.0),
    };
    let (n_t, n_ref, n_a, n_b) = match (
      idx(c, lam, kelvin(tc)),
      idx(c, lam, kelvin(20.0)),
      idx(c, lam, kelvin(-50.0)),
      idx(c, lam, kelvin(200.0)),
    ) {
      (Some(a), Some(b), Some(c), Some(d)) => (a, b, c, d),
      _ => {
        bad.get_or_insert(format!("crystal={} lam_nm={} T_C={} panic=1", id, lam * 1e9, tc));
        continue;
      }
    };
    for a in 0..3 {
      match kind {
        // declared temperature-independent: identical at every temperature
        "independent" => {
          if !(n_t[a] == n_ref[a] && n_a[a] == n_ref[a] && n_b[a] == n_ref[a]) && bad.is_none() {
            bad = Some(format!(
              "crystal={} kind=independent lam_nm={} T_C={} axis={} n_T={:e} n_20={:e}",
              id, lam * 1e9, tc, a, n_t[a], n_ref[a]
            ));
          }
        }
        // linear in T: n(T) lies on the chord through n(−50) and n(200), and so does the
        // reference-temperature value n(20)
        "linear" => {
          let slope = (n_b[a] - n_a[a]) / 250.0;
          let e1 = (n_t[a] - (n_a[a] + (tc + 50.0) * slope)).abs();
          let e2 = (n_ref[a] - (n_a[a] + 70.0 * slope)).abs();
          worst = worst.max(e1).max(e2);
          if !(e1 <= 1e-12 && e2 <= 1e-12) && bad.is_none() {
            bad = Some(format!(
              "crystal={} kind=linear lam_nm={} T_C={} axis={} dev={:e} dev_ref={:e}",
              id, lam * 1e9, tc, a, e1, e2
            ));
          }
        }
        _ => {}
      }
    }
  }
  ctx.count(&format!("temperature/{}/{}", id, kind));
  if kind == "published-law" {
    return;
  }
  let base = format!("crystal={} kind={} cases={} worst_dev={:.3e}", id, kind, n, worst);
  ctx.s("C01.temperature", bad.is_none(), &format!("temperature/{}", id), bad.as_ref().unwrap_or(&base));
}

// --------------------------------------------------------------------------- K: expression crystals
/// The built-in formulas written as user expressions (`l` = wavelength in µm, `T` = temperature − 20 °C),
/// a transcription independent of the Lean model's; `CrystalType::Expr` built from them is compared with
/// the model's `indices` (op `indices_expr`, 64 ulp: meval evaluates `l^2` with `powf`).
/// KTP's `n_y` has no conditional in meval: two expression crystals, one per branch.
fn expr_sources() -> Vec<(&'static str, &'static str, f64, f64)> {
  // (variant, json, lowest l (µm) it is valid from, highest l it is valid to; 0/inf = whole window)
  vec![
    ("BBO_1", r#"{"no":"sqrt(2.7359+0.01878/(l^2-0.01822)-0.01354*l^2) + (-9.3e-6)*T","ne":"sqrt(2.3753+0.01224/(l^2-0.01667)-0.01516*l^2) + (-16.6e-6)*T"}"#, 0.0, f64::INFINITY),
    ("KTP", r#"{"nx":"sqrt(2.10468+0.89342*l^2/(l^2-0.04438)-0.01036*l^2) + 1.1e-5*T","ny":"sqrt(2.14559+0.87629*l^2/(l^2-0.0485)-0.01173*l^2) + 1.3e-5*T","nz":"sqrt(1.9446+1.3617*l^2/(l^2-0.047)-0.01491*l^2) + 1.6e-5*T"}"#, 0.0, 1.2),
    ("KTP", r#"{"nx":"sqrt(2.10468+0.89342*l^2/(l^2-0.04438)-0.01036*l^2) + 1.1e-5*T","ny":"sqrt(2.0993+0.922683*l^2/(l^2-0.0467695)-0.0138408*l^2) + 1.3e-5*T","nz":"sqrt(1.9446+1.3617*l^2/(l^2-0.047)-0.01491*l^2) + 1.6e-5*T"}"#, 1.2, f64::INFINITY),
    ("BiBO_1", r#"{"nx":"sqrt(3.0740+0.0323/(l^2-0.0316)-0.01337*l^2)","ny":"sqrt(3.1685+0.0373/(l^2-0.0346)-0.01750*l^2)","nz":"sqrt(3.6545+0.0511/(l^2-0.0371)-0.0226*l^2)"}"#, 0.0, f64::INFINITY),
    ("LiNbO3_1", r#"{"no":"sqrt(4.9048+0.11768/(l^2-0.04750)-0.027169*l^2) + (-0.874e-6)*T","ne":"sqrt(4.5820+0.099169/(l^2-0.044432)-0.021950*l^2) + 39.073e-6*T"}"#, 0.0, f64::INFINITY),
    ("LiNb_MgO", r#"{"no":"sqrt(5.653+7.941e-7*((T+20-24.5)*(T+20+24.5+2*273.16))+(0.1185+3.134e-8*((T+20-24.5)*(T+20+24.5+2*273.16)))/(l^2-(0.2091+(-4.641e-9)*((T+20-24.5)*(T+20+24.5+2*273.16)))^2)+(89.61+(-2.188e-6)*((T+20-24.5)*(T+20+24.5+2*273.16)))/(l^2-10.85^2)-1.97e-2*l^2)","ne":"sqrt(5.756+2.86e-6*((T+20-24.5)*(T+20+24.5+2*273.16))+(0.0983+4.7e-8*((T+20-24.5)*(T+20+24.5+2*273.16)))/(l^2-(0.2020+6.113e-8*((T+20-24.5)*(T+20+24.5+2*273.16)))^2)+(189.32+1.516e-4*((T+20-24.5)*(T+20+24.5+2*273.16)))/(l^2-12.52^2)-1.32e-2*l^2)"}"#, 0.0, f64::INFINITY),
    ("KDP_1", r#"{"no":"sqrt(2.259276+13.005522*l^2/(l^2-400)+0.01008956/(l^2-0.012942625))","ne":"sqrt(2.132668+3.2279924*l^2/(l^2-400)+0.008637494/(l^2-0.012281043))"}"#, 0.0, f64::INFINITY),
    ("AgGaSe2_1", r#"{"no":"sqrt(3.9362+2.9113/(1-(0.38821/l)^2)+1.7954/(1-(40/l)^2)) + 15e-5*T","ne":"sqrt(3.3132+3.3616/(1-(0.38201/l)^2)+1.7677/(1-(40/l)^2)) + 15e-5*T"}"#, 0.0, f64::INFINITY),
    ("AgGaSe2_2", r#"{"no":"sqrt(4.6453+2.2057/(1-(0.43347/l)^2)+1.8377/(1-(40/l)^2)) + 15e-5*T","ne":"sqrt(5.2912+1.3970/(1-(0.53339/l)^2)+1.9282/(1-(40/l)^2)) + 15e-5*T"}"#, 0.0, f64::INFINITY),
    ("LiIO3_2", r#"{"no":"sqrt(3.4095+0.047664/(l^2-0.033991))","ne":"sqrt(2.9163+0.034514/(l^2-0.031034))"}"#, 0.0, f64::INFINITY),
    ("LiIO3_1", r#"{"no":"sqrt(2.03132+(1.37623/(l^2-0.0350832)+1.06745/(l^2-169))*l^2)","ne":"sqrt(1.83086+(1.08807/(l^2-0.031381)+0.554582/(l^2-158.76))*l^2)"}"#, 0.0, f64::INFINITY),
    ("AgGaS2_1", r#"{"no":"sqrt(3.628+(2.1686/(l^2-0.1003)+2.1753/(l^2-950))*l^2) + 15.4e-5*T","ne":"sqrt(4.0172+(1.5274/(l^2-0.131)+2.1699/(l^2-950))*l^2) + 15.5e-5*T"}"#, 0.0, f64::INFINITY),
  ]
}

fn expression_crystals(ctx: &mut Ctx) {
  let cs = variants();
  let n = (ctx.n / 4).max(8);
  for (v, json, l_from, l_to) in expr_sources() {
    let built_in = cs.iter().find(|c| vname(c) == v).unwrap().clone();
    let parsed: Result<CrystalType, _> = serde_json::from_str(json);
    let ex = match parsed {
      Ok(e @ CrystalType::Expr(_)) => e,
      _ => {
        ctx.k("indices_expr", &format!("{} {} {}", v, fl(1e-6), fl(293.15)), "EXPR-PARSE-FAILED");
        continue;
      }
    };
    let (lo, hi) = gen_window(&built_in);
    for i in 0..n {
      let u = (i as f64 + ctx.rng.unit()) / n as f64;
      let lam = (lo.ln() + (hi.ln() - lo.ln()) * u).exp().clamp(lo, hi);
      let l_um = lam / 1e-6;
      // keep away from the branch point itself (meval has no `if`)
      if !(l_um >= l_from && l_um < l_to) || (l_um - 1.2).abs() < 1e-9 {
        continue;
      }
      let tc = match ctx.rng.below(6) {
        0 => -50.0,
        1 => 20.0,
        2 => 24.5,
        3 => 200.0,
        _ => ctx.rng.range(-50.0, 200.0),
      };
      let tk = kelvin(tc);
      let out = match idx(&ex, lam, tk) {
        Some(nn) => fls(&nn),
        None => "PANIC".to_string(),
      };
      ctx.count(&format!("indices_expr/{}", v));
      ctx.k("indices_expr", &format!("{} {} {}", v, fl(lam), fl(tk)), &out);
    }
  }
}
