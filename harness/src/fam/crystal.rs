//! C01 — principal refractive indices, crystal metadata, ids
use crate::common::*;
use spdcalc::crystal::{CrystalMeta, CrystalType, OpticAxisType};
use spdcalc::dim::ucum::{K, M};
use spdcalc::utils::from_celsius_to_kelvin;
use std::cell::RefCell;
use std::str::FromStr;

pub fn variants() -> Vec<CrystalType> {
  vec![
    CrystalType::BBO_1,
    CrystalType::KTP,
    CrystalType::BiBO_1,
    CrystalType::LiNbO3_1,
    CrystalType::LiNb_MgO,
    CrystalType::KDP_1,
    CrystalType::AgGaSe2_1,
    CrystalType::AgGaSe2_2,
    CrystalType::LiIO3_2,
    CrystalType::LiIO3_1,
    CrystalType::AgGaS2_1,
  ]
}

fn vname(c: &CrystalType) -> String {
  format!("{:?}", c)
}

/// indices at wavelength `lam` (m) and temperature `tk` (K) from the real code, not recorded
fn idx_raw(c: &CrystalType, lam: f64, tk: f64) -> Option<[f64; 3]> {
  guard(|| {
    let n = c.get_indices(lam * M, tk * K);
    [n.x, n.y, n.z]
  })
}

/// a sample of the evaluations made during the run, re-evaluated at the end (`C01.history`)
struct Sample {
  label: String,
  crystal: CrystalType,
  lam: f64,
  tk: f64,
  out: Option<[f64; 3]>,
}

struct Hist {
  calls: u64,
  n_expr: usize,
  n_builtin: usize,
  cur_expr: String,
  samples: Vec<Sample>,
}

thread_local! {
  static HIST: RefCell<Hist> = RefCell::new(Hist { calls: 0, n_expr: 0, n_builtin: 0, cur_expr: String::new(), samples: Vec::new() });
}
const HIST_CAP_BUILTIN: usize = 6000;
const HIST_CAP_EXPR: usize = 6000;

/// name under which the next expression-crystal evaluations are remembered
fn set_expr_label(l: &str) {
  HIST.with(|h| h.borrow_mut().cur_expr = l.to_string());
}

/// indices from the real code; expression-crystal calls and a thinned sample of the built-in calls are
/// remembered for the history-independence predicate
fn idx(c: &CrystalType, lam: f64, tk: f64) -> Option<[f64; 3]> {
  let out = idx_raw(c, lam, tk);
  HIST.with(|h| {
    let mut h = h.borrow_mut();
    h.calls += 1;
    let is_expr = matches!(c, CrystalType::Expr(_));
    let keep = if is_expr {
      h.n_expr < HIST_CAP_EXPR
    } else {
      h.n_builtin < HIST_CAP_BUILTIN && (h.n_builtin < 300 || h.calls % 997 == 0)
    };
    if keep {
      let label = if is_expr { format!("expr/{}", h.cur_expr) } else { format!("builtin/{}", vname(c)) };
      if is_expr {
        h.n_expr += 1;
      } else {
        h.n_builtin += 1;
      }
      h.samples.push(Sample { label, crystal: c.clone(), lam, tk, out });
    }
  });
  out
}

fn same_bits(a: &Option<[f64; 3]>, b: &Option<[f64; 3]>) -> bool {
  match (a, b) {
    (None, None) => true,
    (Some(x), Some(y)) => (0..3).all(|i| x[i].to_bits() == y[i].to_bits()),
    _ => false,
  }
}

fn kelvin(tc: f64) -> f64 {
  *(from_celsius_to_kelvin(tc) / K)
}

/// wavelengths used for generation: the declared window; for LiNbO3_1 on a tree where the window
/// is the 0.4–3.4 nm slip (D1) the intended 400–3400 nm is used and D1 is reported by `C01.window`.
fn gen_window(c: &CrystalType) -> (f64, f64) {
  let m = c.get_meta();
  match m.transmission_range {
    Some(r) if r.0 >= 50e-9 && r.1 > r.0 && r.1 <= 50e-6 => (r.0, r.1),
    _ => {
      if m.id == "LiNbO3_1" {
        (400e-9, 3400e-9)
      } else {
        (500e-9, 1500e-9)
      }
    }
  }
}

fn up(x: f64, k: i64) -> f64 {
  f64::from_bits((x.to_bits() as i64 + k) as u64)
}


/// temperatures (°C) where implementations like to go wrong: a fine non-integer grid around both
/// reference temperatures (20 °C linear laws, 24.5 °C LiNb_MgO) incl. values that round to them, ±1 ulp,
/// and the ends of the statement's range
fn t_special() -> Vec<f64> {
  let mut v: Vec<f64> = vec![];
  for r in [20.0f64, 24.5] {
    for d in [0.0, 1e-9, 1e-6, 1e-3, 0.1, 0.25, 0.4, 0.49, 0.5, 0.51, 0.6, 1.0, 1.5, 4.5] {
      v.push(r + d);
      v.push(r - d);
    }
    v.push(up(r, 1));
    v.push(up(r, -1));
  }
  for t in [-50.0, -49.999, -49.5, -49.0, -0.5, 0.0, 0.5, 19.0, 21.0, 24.0, 25.0, 99.5, 100.0, 199.0, 199.5, 199.999, 200.0] {
    v.push(t);
  }
  v.push(up(-50.0, -1)); // −50 + 1 ulp (towards zero)
  v.push(up(200.0, -1));
  v.retain(|t| *t >= -50.0 && *t <= 200.0);
  v.sort_by(|a, b| a.partial_cmp(b).unwrap());
  v.dedup();
  v
}

/// wavelengths (m) inside [lo, hi] at which boundaries sit: the edges, 1 ulp inside them, the KTP branch
/// point ± ulps, whole micrometres
fn lam_special(lo: f64, hi: f64) -> Vec<f64> {
  let mut v = vec![lo, up(lo, 1), up(hi, -1), hi, (lo * hi).sqrt()];
  for k in -2i64..=2 {
    v.push(up(1.2e-6, k));
  }
  v.push(1.2 * 1e-6);
  for m in 1..=13 {
    v.push(m as f64 * 1e-6);
    v.push(m as f64 * 1000.0 * 1e-9);
  }
  v.retain(|l| *l >= lo && *l <= hi);
  v.sort_by(|a, b| a.partial_cmp(b).unwrap());
  v.dedup();
  v
}

fn axis_name(a: OpticAxisType) -> &'static str {
  match a {
    OpticAxisType::PositiveUniaxial => "PositiveUniaxial",
    OpticAxisType::NegativeUniaxial => "NegativeUniaxial",
    OpticAxisType::PositiveBiaxial => "PositiveBiaxial",
    OpticAxisType::NegativeBiaxial => "NegativeBiaxial",
  }
}

fn meta_line(m: &CrystalMeta) -> String {
  let r = match m.transmission_range {
    Some(r) => format!("{} {}", fl(r.0), fl(r.1)),
    None => "none".to_string(),
  };
  format!(
    "{} {} {:?} {} {} | {} | {}",
    m.id,
    axis_name(m.axis_type),
    m.point_group,
    r,
    m.temperature_dependence_known,
    m.name,
    m.reference_url
  )
}

fn k_indices(ctx: &mut Ctx, c: &CrystalType, lam: f64, tk: f64) {
  let out = match idx(c, lam, tk) {
    Some(n) => fls(&n),
    None => "PANIC".to_string(),
  };
  ctx.k("indices", &format!("{} {} {}", vname(c), fl(lam), fl(tk)), &out);
}

const T_FIXED: [f64; 4] = [-50.0, 20.0, 24.5, 200.0];

pub fn run(ctx: &mut Ctx) {
  let cs = variants();
  meta_and_ids(ctx, &cs);
  for c in cs.iter() {
    correspondence(ctx, c);
  }
  for c in cs.iter() {
    statement_grid(ctx, c);
    temperature_law(ctx, c);
  }
  expression_crystals(ctx);
  routes(ctx);
  text_forms(ctx);
  history_independence(ctx);
}

// --------------------------------------------------------------------------- K: indices
fn correspondence(ctx: &mut Ctx, c: &CrystalType) {
  let (lo, hi) = gen_window(c);
  let id = vname(c);
  // window edges ± a few ulp (the formulas are defined on both sides), every fixed temperature
  let mut lams: Vec<f64> = vec![];
  for e in [lo, hi] {
    for k in [-2i64, -1, 0, 1, 2] {
      lams.push(up(e, k));
    }
  }
  // branch point of KTP n_y (l < 1.2 µm) — generated for every crystal: harmless elsewhere
  for k in -3i64..=3 {
    lams.push(up(1.2e-6, k));
  }
  lams.push(1.2 * 1e-6);
  lams.push(1200e-9);
  for lam in lams.iter() {
    if *lam >= lo && *lam <= hi || (*lam - lo).abs() < 1e-12 || (*lam - hi).abs() < 1e-12 {
      for t in T_FIXED.iter() {
        ctx.count(&format!("indices/{}/edge-or-branch", id));
        k_indices(ctx, c, *lam, kelvin(*t));
      }
    }
  }
  // boundary wavelengths × the fine temperature grid
  for lam in lam_special(lo, hi).iter().filter(|l| {
    let um = **l / 1e-6;
    (um - um.round()).abs() > 1e-9 || um.round() as i64 <= 2
  }) {
    for t in t_special().iter() {
      ctx.count(&format!("indices/{}/special", id));
      k_indices(ctx, c, *lam, kelvin(*t));
    }
  }
  // log-spaced wavelengths with a jitter, temperatures fixed ∪ random
  let n = ctx.n.max(8);
  for i in 0..n {
    let u = (i as f64 + ctx.rng.unit()) / n as f64;
    let lam = (lo.ln() + (hi.ln() - lo.ln()) * u).exp().clamp(lo, hi);
    let tc = match ctx.rng.below(8) {
      0 => -50.0,
      1 => 20.0,
      2 => 24.5,
      3 => 200.0,
      _ => ctx.rng.range(-50.0, 200.0),
    };
    ctx.count(&format!("indices/{}/window", id));
    k_indices(ctx, c, lam, kelvin(tc));
  }
  // round nanometre wavelengths (what users type)
  for _ in 0..n / 4 {
    let nm = (ctx.rng.range(lo * 1e9, hi * 1e9)).round();
    let lam = (nm * 1e-9).clamp(lo, hi);
    let tc = (ctx.rng.range(-50.0, 200.0)).round();
    ctx.count(&format!("indices/{}/round-nm", id));
    k_indices(ctx, c, lam, kelvin(tc));
  }
}

// --------------------------------------------------------------------------- K + S: meta, ids
fn meta_and_ids(ctx: &mut Ctx, cs: &[CrystalType]) {
  let all = CrystalType::get_all_meta();
  ctx.k(
    "all_meta",
    "",
    &all.iter().map(|m| m.id.to_string()).collect::<Vec<_>>().join(" "),
  );
  // ids unique, one META per built-in crystal
  let mut ids: Vec<&str> = all.iter().map(|m| m.id).collect();
  ids.sort();
  let n_before = ids.len();
  ids.dedup();
  ctx.s(
    "C01.ids_unique",
    ids.len() == n_before && n_before == cs.len(),
    "ids/unique",
    &format!("n_meta={} n_distinct={} n_variants={}", n_before, ids.len(), cs.len()),
  );
  for c in cs.iter() {
    let v = vname(c);
    let m = c.get_meta();
    ctx.count("meta/crystal");
    ctx.k("meta", &v, &meta_line(&m));
    ctx.k("to_string", &v, &c.to_string());
    let js = serde_json::to_string(c).unwrap_or_else(|_| "SERERR".into());
    ctx.k("serde", &v, &js);

    // S: window inside the optical range, lo < hi
    let (ok, det) = match m.transmission_range {
      Some(r) => (
        r.0.is_finite() && r.1.is_finite() && 100e-9 <= r.0 && r.0 < r.1 && r.1 <= 20e-6,
        format!("crystal={} lo={:e} hi={:e}", m.id, r.0, r.1),
      ),
      None => (false, format!("crystal={} window=none", m.id)),
    };
    ctx.s("C01.window", ok, &format!("window/{}", m.id), &det);

    // S: identifier round trip through printing and parsing, to the same crystal and metadata
    let printed = c.to_string();
    let parsed = guard(|| CrystalType::from_string(&printed));
    let ok_rt = match &parsed {
      Some(Ok(p)) => p == c && p.get_meta() == m && printed == m.id,
      _ => false,
    };
    let parsed2 = guard(|| CrystalType::from_str(m.id));
    let ok_rt2 = matches!(&parsed2, Some(Ok(p)) if p == c && p.get_meta() == m);
    // serde: unit variants travel as their name
    let back: Result<CrystalType, _> = serde_json::from_str(&js);
    let ok_serde = matches!(&back, Ok(p) if p == c);
    // the meta listed by get_all_meta under this id is this crystal's meta
    let listed = all.iter().filter(|x| x.id == m.id).count() == 1
      && all.iter().any(|x| *x == m);
    ctx.s(
      "C01.id_roundtrip",
      ok_rt && ok_rt2 && ok_serde && listed,
      &format!("ids/roundtrip/{}", v),
      &format!(
        "crystal={} printed={} display_parse={} fromstr={} serde={} listed={}",
        v, printed, ok_rt, ok_rt2, ok_serde, listed
      ),
    );
  }
  // from_string on ids, near misses and junk (single tokens)
  let mut toks: Vec<String> = vec![];
  for m in all.iter() {
    toks.push(m.id.to_string());
    toks.push(m.id.to_lowercase());
    toks.push(m.id.to_uppercase());
    toks.push(format!("{}_", m.id));
    toks.push(m.id.replace('_', ""));
    toks.push(m.id[..m.id.len() - 1].to_string());
  }
  for s in ["Expr", "BBO", "KTP_1", "LiNbO3", "AgGaS2", "x", "BBO_2", "no:1,ne:2", "{}", "nx=1"] {
    toks.push(s.to_string());
  }
  for t in toks.iter() {
    if t.is_empty() || t.contains(' ') {
      continue;
    }
    let r = guard(|| CrystalType::from_string(t));
    let out = match r {
      Some(Ok(CrystalType::Expr(_))) | Some(Err(_)) => "OTHER".to_string(),
      Some(Ok(c)) => vname(&c),
      None => "PANIC".to_string(),
    };
    ctx.count("from_string/token");
    ctx.k("from_string", t, &out);
  }
}

// --------------------------------------------------------------------------- S: the statement on a dense grid
fn statement_grid(ctx: &mut Ctx, c: &CrystalType) {
  let (lo, hi) = gen_window(c);
  let m = c.get_meta();
  let id = vname(c);
  let g = if ctx.thorough { 50_000usize } else { 2_000 };
  let mut temps: Vec<f64> = T_FIXED.to_vec();
  temps.extend_from_slice(&[19.6, 20.4, 24.2, 24.8]); // round to the reference temperatures without being them
  let extra = if ctx.thorough { 6 } else { 2 };
  for _ in 0..extra {
    temps.push(ctx.rng.range(-50.0, 200.0));
  }
  // log-spaced grid incl. both edges, plus the boundary wavelengths (1 ulp inside the edges, the 1.2 µm
  // branch point ± ulps, whole micrometres)
  let mut lams: Vec<f64> = (0..g)
    .map(|i| {
      if i == 0 {
        lo
      } else if i == g - 1 {
        hi
      } else {
        (lo.ln() + (hi.ln() - lo.ln()) * (i as f64 / (g - 1) as f64)).exp().clamp(lo, hi)
      }
    })
    .collect();
  lams.extend(lam_special(lo, hi));
  lams.sort_by(|a, b| a.partial_cmp(b).unwrap());
  lams.dedup();
  for tc in temps.iter() {
    let tk = kelvin(*tc);
    let mut prev: Option<(f64, [f64; 3])> = None;
    let mut bad_bounds: Option<String> = None;
    let mut bad_mono: Option<String> = None;
    let mut bad_class: Option<String> = None;
    let mut nmin = f64::INFINITY;
    let mut nmax = f64::NEG_INFINITY;
    let mut gap_min = f64::INFINITY;
    for lam in lams.iter().copied() {
      if let Some((pl, _)) = prev {
        if lam <= pl {
          continue;
        }
      }
      let n = match idx(c, lam, tk) {
        Some(n) => n,
        None => {
          if bad_bounds.is_none() {
            bad_bounds = Some(format!("crystal={} T_C={} lam_nm={} panic=1", id, tc, lam * 1e9));
          }
          continue;
        }
      };
      for a in 0..3 {
        nmin = nmin.min(n[a]);
        nmax = nmax.max(n[a]);
        if !(n[a].is_finite() && n[a] > 1.0 && n[a] < 4.0) && bad_bounds.is_none() {
          bad_bounds =
            Some(format!("crystal={} T_C={} lam_nm={} axis={} n={:e}", id, tc, lam * 1e9, a, n[a]));
        }
      }
      if let Some((pl, pn)) = prev {
        for a in 0..3 {
          // neighbours a few ulp apart cannot be resolved by the rounded formula: non-increasing within
          // 4 ulp there, strictly decreasing everywhere else
          let decreasing = if (lam - pl) <= 1e-9 * pl { n[a] <= pn[a] + 2e-15 } else { n[a] < pn[a] };
          if !decreasing && bad_mono.is_none() {
            bad_mono = Some(format!(
              "crystal={} T_C={} lam1_nm={} lam2_nm={} axis={} n1={:e} n2={:e}",
              id,
              tc,
              pl * 1e9,
              lam * 1e9,
              a,
              pn[a],
              n[a]
            ));
          }
        }
      }
      // declared optical class
      let (ok, gap) = match m.axis_type {
        OpticAxisType::NegativeUniaxial => (n[0] == n[1] && n[2] < n[0], n[0] - n[2]),
        OpticAxisType::PositiveUniaxial => (n[0] == n[1] && n[2] > n[0], n[2] - n[0]),
        OpticAxisType::PositiveBiaxial => (n[2] > n[0] && n[2] > n[1], (n[2] - n[0]).min(n[2] - n[1])),
        // the statement says nothing about negative biaxial crystals (none is built in)
        OpticAxisType::NegativeBiaxial => (true, f64::INFINITY),
      };
      gap_min = gap_min.min(gap);
      if !ok && bad_class.is_none() {
        bad_class = Some(format!(
          "crystal={} class={} T_C={} lam_nm={} nx={:e} ny={:e} nz={:e}",
          id,
          axis_name(m.axis_type),
          tc,
          lam * 1e9,
          n[0],
          n[1],
          n[2]
        ));
      }
      prev = Some((lam, n));
    }
    ctx.count(&format!("grid/{}", id));
    let base = format!("crystal={} T_C={} points={} nmin={:.6} nmax={:.6} classgap_min={:.3e}", id, tc, lams.len(), nmin, nmax, gap_min);
    ctx.s("C01.bounds", bad_bounds.is_none(), &format!("bounds/{}", id), bad_bounds.as_ref().unwrap_or(&base));
    ctx.s("C01.monotone", bad_mono.is_none(), &format!("monotone/{}", id), bad_mono.as_ref().unwrap_or(&base));
    ctx.s("C01.class", bad_class.is_none(), &format!("class/{}", id), bad_class.as_ref().unwrap_or(&base));
  }
}

// --------------------------------------------------------------------------- S: temperature law
fn temperature_law(ctx: &mut Ctx, c: &CrystalType) {
  let (lo, hi) = gen_window(c);
  let m = c.get_meta();
  let id = vname(c);
  let n = if ctx.thorough { 4000 } else { 300 };
  let mut bad: Option<String> = None;
  let mut worst = 0.0f64;
  // LiNb_MgO follows the published (non-linear) law of Gayer et al.: that closed form is the model,
  // tied by the `indices` correspondence at every temperature incl. the reference 24.5 °C; there is
  // nothing model-free to assert about it here.
  let kind = if !m.temperature_dependence_known {
    "independent"
  } else if id == "LiNb_MgO" {
    "published-law"
  } else {
    "linear"
  };
  // wavelengths: the boundary ones and n random; at each wavelength the temperature alone is scanned over the
  // fine grid (sorted, so consecutive calls differ in T only), then a few random temperatures
  let mut lams = lam_special(lo, hi);
  let n_lam = if kind == "published-law" { 0 } else { n / 10 };
  for _ in 0..n_lam {
    lams.push(ctx.rng.log_range(lo, hi));
  }
  if kind == "published-law" {
    lams.clear();
  }
  let tspec = t_special();
  let mut cases = 0usize;
  for lam in lams.iter().copied() {
    let (n_ref, n_a, n_b) = match (idx(c, lam, kelvin(20.0)), idx(c, lam, kelvin(-50.0)), idx(c, lam, kelvin(200.0))) {
      (Some(b), Some(c), Some(d)) => (b, c, d),
      _ => {
        bad.get_or_insert(format!("crystal={} lam_nm={} panic=1", id, lam * 1e9));
        continue;
      }
    };
    let mut temps = tspec.clone();
    for _ in 0..6 {
      temps.push(ctx.rng.range(-50.0, 200.0));
    }
    for tc in temps.iter().copied() {
      cases += 1;
      let n_t = match idx(c, lam, kelvin(tc)) {
        Some(a) => a,
        None => {
          bad.get_or_insert(format!("crystal={} lam_nm={} T_C={} panic=1", id, lam * 1e9, tc));
          continue;
        }
      };
      for a in 0..3 {
        match kind {
          // declared temperature-independent: identical at every temperature
          "independent" => {
            if !(n_t[a] == n_ref[a] && n_a[a] == n_ref[a] && n_b[a] == n_ref[a]) && bad.is_none() {
              bad = Some(format!(
                "crystal={} kind=independent lam_nm={} lam_bits={} T_C={} axis={} n_T={:e} n_20={:e}",
                id, lam * 1e9, fl(lam), tc, a, n_t[a], n_ref[a]
              ));
            }
          }
          // linear in T: n(T) lies on the chord through n(−50) and n(200), and so does the
          // reference-temperature value n(20)
          "linear" => {
            let slope = (n_b[a] - n_a[a]) / 250.0;
            let e1 = (n_t[a] - (n_a[a] + (tc + 50.0) * slope)).abs();
            let e2 = (n_ref[a] - (n_a[a] + 70.0 * slope)).abs();
            worst = worst.max(e1).max(e2);
            if !(e1 <= 1e-12 && e2 <= 1e-12) && bad.is_none() {
              bad = Some(format!(
                "crystal={} kind=linear lam_nm={} lam_bits={} T_C={} axis={} dev={:e} dev_ref={:e}",
                id, lam * 1e9, fl(lam), tc, a, e1, e2
              ));
            }
          }
          _ => {}
        }
      }
    }
  }
  let n = cases;
  ctx.count(&format!("temperature/{}/{}", id, kind));
  if kind == "published-law" {
    return;
  }
  let base = format!("crystal={} kind={} cases={} worst_dev={:.3e}", id, kind, n, worst);
  ctx.s("C01.temperature", bad.is_none(), &format!("temperature/{}", id), bad.as_ref().unwrap_or(&base));
}

// --------------------------------------------------------------------------- K: expression crystals
/// The built-in formulas written as user expressions (`l` = wavelength in µm, `T` = temperature − 20 °C),
/// a transcription independent of the Lean model's; `CrystalType::Expr` built from them is compared with
/// the model's `indices` (op `indices_expr`, 64 ulp: meval evaluates `l^2` with `powf`).
/// KTP's `n_y` has no conditional in meval: two expression crystals, one per branch.
fn expr_sources() -> Vec<(&'static str, &'static str, f64, f64)> {
  // (variant, json, lowest l (µm) it is valid from, highest l it is valid to; 0/inf = whole window)
  vec![
    ("BBO_1", r#"{"no":"sqrt(2.7359+0.01878/(l^2-0.01822)-0.01354*l^2) + (-9.3e-6)*T","ne":"sqrt(2.3753+0.01224/(l^2-0.01667)-0.01516*l^2) + (-16.6e-6)*T"}"#, 0.0, f64::INFINITY),
    ("KTP", r#"{"nx":"sqrt(2.10468+0.89342*l^2/(l^2-0.04438)-0.01036*l^2) + 1.1e-5*T","ny":"sqrt(2.14559+0.87629*l^2/(l^2-0.0485)-0.01173*l^2) + 1.3e-5*T","nz":"sqrt(1.9446+1.3617*l^2/(l^2-0.047)-0.01491*l^2) + 1.6e-5*T"}"#, 0.0, 1.2),
    ("KTP", r#"{"nx":"sqrt(2.10468+0.89342*l^2/(l^2-0.04438)-0.01036*l^2) + 1.1e-5*T","ny":"sqrt(2.0993+0.922683*l^2/(l^2-0.0467695)-0.0138408*l^2) + 1.3e-5*T","nz":"sqrt(1.9446+1.3617*l^2/(l^2-0.047)-0.01491*l^2) + 1.6e-5*T"}"#, 1.2, f64::INFINITY),
    ("BiBO_1", r#"{"nx":"sqrt(3.0740+0.0323/(l^2-0.0316)-0.01337*l^2)","ny":"sqrt(3.1685+0.0373/(l^2-0.0346)-0.01750*l^2)","nz":"sqrt(3.6545+0.0511/(l^2-0.0371)-0.0226*l^2)"}"#, 0.0, f64::INFINITY),
    ("LiNbO3_1", r#"{"no":"sqrt(4.9048+0.11768/(l^2-0.04750)-0.027169*l^2) + (-0.874e-6)*T","ne":"sqrt(4.5820+0.099169/(l^2-0.044432)-0.021950*l^2) + 39.073e-6*T"}"#, 0.0, f64::INFINITY),
    ("LiNb_MgO", r#"{"no":"sqrt(5.653+7.941e-7*((T+20-24.5)*(T+20+24.5+2*273.16))+(0.1185+3.134e-8*((T+20-24.5)*(T+20+24.5+2*273.16)))/(l^2-(0.2091+(-4.641e-9)*((T+20-24.5)*(T+20+24.5+2*273.16)))^2)+(89.61+(-2.188e-6)*((T+20-24.5)*(T+20+24.5+2*273.16)))/(l^2-10.85^2)-1.97e-2*l^2)","ne":"sqrt(5.756+2.86e-6*((T+20-24.5)*(T+20+24.5+2*273.16))+(0.0983+4.7e-8*((T+20-24.5)*(T+20+24.5+2*273.16)))/(l^2-(0.2020+6.113e-8*((T+20-24.5)*(T+20+24.5+2*273.16)))^2)+(189.32+1.516e-4*((T+20-24.5)*(T+20+24.5+2*273.16)))/(l^2-12.52^2)-1.32e-2*l^2)"}"#, 0.0, f64::INFINITY),
    ("KDP_1", r#"{"no":"sqrt(2.259276+13.005522*l^2/(l^2-400)+0.01008956/(l^2-0.012942625))","ne":"sqrt(2.132668+3.2279924*l^2/(l^2-400)+0.008637494/(l^2-0.012281043))"}"#, 0.0, f64::INFINITY),
    ("AgGaSe2_1", r#"{"no":"sqrt(3.9362+2.9113/(1-(0.38821/l)^2)+1.7954/(1-(40/l)^2)) + 15e-5*T","ne":"sqrt(3.3132+3.3616/(1-(0.38201/l)^2)+1.7677/(1-(40/l)^2)) + 15e-5*T"}"#, 0.0, f64::INFINITY),
    ("AgGaSe2_2", r#"{"no":"sqrt(4.6453+2.2057/(1-(0.43347/l)^2)+1.8377/(1-(40/l)^2)) + 15e-5*T","ne":"sqrt(5.2912+1.3970/(1-(0.53339/l)^2)+1.9282/(1-(40/l)^2)) + 15e-5*T"}"#, 0.0, f64::INFINITY),
    ("LiIO3_2", r#"{"no":"sqrt(3.4095+0.047664/(l^2-0.033991))","ne":"sqrt(2.9163+0.034514/(l^2-0.031034))"}"#, 0.0, f64::INFINITY),
    ("LiIO3_1", r#"{"no":"sqrt(2.03132+(1.37623/(l^2-0.0350832)+1.06745/(l^2-169))*l^2)","ne":"sqrt(1.83086+(1.08807/(l^2-0.031381)+0.554582/(l^2-158.76))*l^2)"}"#, 0.0, f64::INFINITY),
    ("AgGaS2_1", r#"{"no":"sqrt(3.628+(2.1686/(l^2-0.1003)+2.1753/(l^2-950))*l^2) + 15.4e-5*T","ne":"sqrt(4.0172+(1.5274/(l^2-0.131)+2.1699/(l^2-950))*l^2) + 15.5e-5*T"}"#, 0.0, f64::INFINITY),
  ]
}

struct ExprCase {
  v: &'static str,
  built_in: CrystalType,
  ex: CrystalType,
  lo: f64,
  hi: f64,
  l_from: f64,
  l_to: f64,
}

/// |expression crystal − built-in| allowed by `C01.expr_same_formula`: 16 ulp of an index in [1,4)
const EXPR_TOL: f64 = 16.0 * 4.45e-16;

/// All expression crystals are evaluated on ONE shared (λ, T) grid, crystal by crystal at each point
/// (first pass in table order, second pass — fresh points — in reverse order), so that any state
/// shared between different expression crystals, or kept between calls, shows up; each value is
/// compared with the built-in crystal on the real code (S `C01.expr_same_formula`: the statement's
/// "user expression crystals built from the same formulas") and with the model (K `indices_expr`).
fn expression_crystals(ctx: &mut Ctx) {
  let cs = variants();
  let mut cases: Vec<ExprCase> = vec![];
  for (v, json, l_from, l_to) in expr_sources() {
    let built_in = cs.iter().find(|c| vname(c) == v).unwrap().clone();
    let parsed: Result<CrystalType, _> = serde_json::from_str(json);
    match parsed {
      Ok(e @ CrystalType::Expr(_)) => {
        let (lo, hi) = gen_window(&built_in);
        cases.push(ExprCase { v, built_in, ex: e, lo, hi, l_from, l_to });
      }
      _ => {
        ctx.k("indices_expr", &format!("{} {} {}", v, fl(1e-6), fl(293.15)), "EXPR-PARSE-FAILED");
        ctx.s("C01.expr_same_formula", false, &format!("expr/{}", v), &format!("crystal={} parse=failed", v));
      }
    }
  }
  let g_lo = cases.iter().map(|c| c.lo).fold(f64::INFINITY, f64::min);
  let g_hi = cases.iter().map(|c| c.hi).fold(0.0, f64::max);
  let c_lo = cases.iter().map(|c| c.lo).fold(0.0, f64::max);
  let c_hi = cases.iter().map(|c| c.hi).fold(f64::INFINITY, f64::min);
  let n = ctx.n.max(16);
  let mut bad: Vec<Option<String>> = cases.iter().map(|_| None).collect();
  let mut cnt: Vec<usize> = cases.iter().map(|_| 0).collect();
  let mut worst: Vec<f64> = cases.iter().map(|_| 0.0).collect();
  for pass in 0..2 {
    for i in 0..n {
      // half of the points over the union of the windows, half inside the common part (all crystals)
      let (a, b) = if i % 2 == 0 || !(c_lo < c_hi) { (g_lo, g_hi) } else { (c_lo, c_hi) };
      let u = (i as f64 + ctx.rng.unit()) / n as f64;
      let lam = (a.ln() + (b.ln() - a.ln()) * u).exp().clamp(a, b);
      let l_um = lam / 1e-6;
      if (l_um - 1.2).abs() < 1e-9 {
        continue; // meval has no `if`: keep off the KTP branch point itself
      }
      let tc = match ctx.rng.below(6) {
        0 => -50.0,
        1 => 20.0,
        2 => 24.5,
        3 => 200.0,
        _ => ctx.rng.range(-50.0, 200.0),
      };
      let tk = kelvin(tc);
      let order: Vec<usize> = if pass == 0 { (0..cases.len()).collect() } else { (0..cases.len()).rev().collect() };
      let mut applicable = 0;
      for j in order {
        let c = &cases[j];
        if !(lam >= c.lo && lam <= c.hi && l_um >= c.l_from && l_um < c.l_to) {
          continue;
        }
        applicable += 1;
        set_expr_label(&format!("{}{}", c.v, if c.l_to < 2.0 { "-lo" } else if c.l_from > 0.0 { "-hi" } else { "" }));
        let got = idx(&c.ex, lam, tk);
        let want = idx(&c.built_in, lam, tk);
        let out = match got {
          Some(nn) => fls(&nn),
          None => "PANIC".to_string(),
        };
        ctx.count(&format!("indices_expr/{}", c.v));
        ctx.k("indices_expr", &format!("{} {} {}", c.v, fl(lam), fl(tk)), &out);
        cnt[j] += 1;
        let ok = match (got, want) {
          (Some(g), Some(w)) => (0..3).all(|a| {
            let d = (g[a] - w[a]).abs();
            if d > worst[j] {
              worst[j] = d;
            }
            d <= EXPR_TOL
          }),
          _ => false,
        };
        if !ok && bad[j].is_none() {
          bad[j] = Some(format!(
            "crystal={} pass={} lam_nm={} lam_bits={} T_C={} T_K_bits={} expr={:?} builtin={:?}",
            c.v, pass, lam * 1e9, fl(lam), tc, fl(tk), got, want
          ).replace(", ", ","));
        }
      }
      ctx.count(&format!("expr_grid/crystals_at_point={}", applicable));
    }
  }
  for (j, c) in cases.iter().enumerate() {
    let branch = if c.l_to < 2.0 { "/lo" } else if c.l_from > 0.0 { "/hi" } else { "" };
    let base = format!("crystal={}{} cases={} worst_abs_dev={:.3e}", c.v, branch, cnt[j], worst[j]);
    ctx.s("C01.expr_same_formula", bad[j].is_none(), &format!("expr/{}", c.v), bad[j].as_ref().unwrap_or(&base));
  }
}

// --------------------------------------------------------------------------- S: history independence
/// indices are a function of (crystal, λ, T) only: a sample of the evaluations made earlier in this run
/// (every expression-crystal call, a thinned sample of the built-in calls) is evaluated again, newest
/// first, and must reproduce the earlier values bit for bit; then once more oldest first.
fn history_independence(ctx: &mut Ctx) {
  let samples: Vec<Sample> = HIST.with(|h| std::mem::take(&mut h.borrow_mut().samples));
  let mut groups: std::collections::BTreeMap<String, (usize, Option<String>)> = Default::default();
  for round in 0..2 {
    let order: Vec<usize> = if round == 0 { (0..samples.len()).rev().collect() } else { (0..samples.len()).collect() };
    for k in order {
      let s = &samples[k];
      let again = idx_raw(&s.crystal, s.lam, s.tk);
      let e = groups.entry(s.label.clone()).or_insert((0, None));
      e.0 += 1;
      if !same_bits(&s.out, &again) && e.1.is_none() {
        e.1 = Some(format!(
          "crystal={} round={} sample={} lam_nm={} lam_bits={} T_K_bits={} first={:?} again={:?}",
          s.label, round, k, s.lam * 1e9, fl(s.lam), fl(s.tk), s.out, again
        ).replace(", ", ","));
      }
    }
  }
  for (label, (n, bad)) in groups.iter() {
    ctx.count(&format!("history/{}", label.split('/').next().unwrap_or("x")));
    let _ = n;
    let base = format!("crystal={} re-evaluations={}", label, n);
    ctx.s("C01.history", bad.is_none(), &format!("history/{}", label), bad.as_ref().unwrap_or(&base));
  }
}

// --------------------------------------------------------------------------- S: every API route to the indices
/// The crystal reached through `from_string`, `FromStr`, serde, a serde round trip, a `CrystalConfig` JSON
/// (→ `CrystalSetup`, whose `crystal`/`temperature` are what `index_along` feeds to `get_indices`) and a
/// hand-built `CrystalSetup` must return the very same indices as the enum variant called directly.
/// Expression crystals: JSON via serde, JSON via `from_string`, the `no = … / ne = …` equation form and
/// a `CrystalConfig` whose `kind` is the expression object — all must agree with each other bit for bit
/// (their agreement with the built-in is `C01.expr_same_formula`).
fn routes(ctx: &mut Ctx) {
  use spdcalc::{CrystalConfig, CrystalSetup};
  let cs = variants();
  let n_rand = if ctx.thorough { 60 } else { 8 };
  let tspec = t_special();
  let cfg_json = |kind: &str, tc: f64| {
    format!(
      r#"{{"kind":{},"pm_type":"e->eo","phi_deg":0,"theta_deg":0,"length_um":2000,"temperature_c":{:?}}}"#,
      kind, tc
    )
  };
  let points = |ctx: &mut Ctx, lo: f64, hi: f64| -> Vec<(f64, f64)> {
    let mut v = vec![];
    for (k, lam) in lam_special(lo, hi).into_iter().enumerate() {
      v.push((lam, tspec[(k * 7) % tspec.len()]));
      v.push((lam, -50.0));
      v.push((lam, 200.0));
    }
    for _ in 0..n_rand {
      let t = if ctx.rng.coin() { *ctx.rng.pick(&tspec) } else { ctx.rng.range(-50.0, 200.0) };
      v.push((ctx.rng.log_range(lo, hi), t));
    }
    v
  };
  for c in cs.iter() {
    let id = vname(c);
    let (lo, hi) = gen_window(c);
    let meta_id = c.get_meta().id;
    let mut alts: Vec<(&str, Option<CrystalType>)> = vec![
      ("from_string", guard(|| CrystalType::from_string(meta_id).ok()).flatten()),
      ("FromStr", guard(|| meta_id.parse::<CrystalType>().ok()).flatten()),
      ("serde", serde_json::from_str::<CrystalType>(&format!("\"{}\"", meta_id)).ok()),
      ("serde_whitespace", serde_json::from_str::<CrystalType>(&format!(" \n\t\"{}\" \r\n", meta_id)).ok()),
      ("serde_roundtrip", serde_json::to_string(c).ok().and_then(|j| serde_json::from_str::<CrystalType>(&j).ok())),
      ("display_parse", guard(|| CrystalType::from_string(&c.to_string()).ok()).flatten()),
      ("clone", Some(c.clone())),
    ];
    let mut bad: Option<String> = None;
    let mut cases = 0;
    for (lam, tc) in points(ctx, lo, hi) {
      let tk = kelvin(tc);
      let direct = idx(c, lam, tk);
      for (name, alt) in alts.iter_mut() {
        cases += 1;
        let got = alt.as_ref().and_then(|a| idx(a, lam, tk));
        if !(alt.is_some() && same_bits(&direct, &got)) && bad.is_none() {
          bad = Some(format!("crystal={} route={} lam_bits={} lam_nm={} T_C={} direct={:?} route_value={:?}", id, name, fl(lam), lam * 1e9, tc, direct, got).replace(", ", ","));
        }
      }
      // CrystalConfig JSON → CrystalSetup ; hand-built CrystalSetup
      let via_cfg = serde_json::from_str::<CrystalConfig>(&cfg_json(&format!("\"{}\"", meta_id), tc)).ok().map(CrystalSetup::from);
      let by_hand = via_cfg.clone().map(|mut s| {
        s.crystal = c.clone();
        s.temperature = tk * K;
        s
      });
      for (name, setup) in [("config_json", &via_cfg), ("crystal_setup", &by_hand)] {
        cases += 1;
        let got = setup.as_ref().and_then(|s| guard(|| {
          let n = s.crystal.get_indices(lam * M, s.temperature);
          [n.x, n.y, n.z]
        }));
        // the JSON text route may round the temperature differently by an ulp (serde_json's float parser):
        // compare at the temperature the setup actually holds, which must be the requested one to 1e-9 K
        let t_setup = setup.as_ref().map(|s| *(s.temperature / K)).unwrap_or(f64::NAN);
        let direct = if t_setup.to_bits() == tk.to_bits() { direct } else { idx(c, lam, t_setup) };
        if !(setup.is_some() && (t_setup - tk).abs() <= 1e-9 && same_bits(&direct, &got)) && bad.is_none() {
          bad = Some(format!("crystal={} route={} lam_bits={} lam_nm={} T_C={} direct={:?} route_value={:?}", id, name, fl(lam), lam * 1e9, tc, direct, got).replace(", ", ","));
        }
      }
    }
    ctx.count("routes/builtin");
    let base = format!("crystal={} route_evaluations={}", id, cases);
    ctx.s("C01.routes", bad.is_none(), &format!("routes/{}", id), bad.as_ref().unwrap_or(&base));
  }
  // expression crystals
  for (v, json, l_from, l_to) in expr_sources() {
    let built_in = cs.iter().find(|c| vname(c) == v).unwrap().clone();
    let (lo, hi) = gen_window(&built_in);
    // {"no":"A","ne":"B"}  →  no = A \n ne = B
    let eqn = json.trim_matches(|ch| ch == '{' || ch == '}').split("\",\"").map(|kv| {
      let kv = kv.trim_matches('"');
      let (k, val) = kv.split_once("\":\"").unwrap_or((kv, ""));
      format!("  {} = {}\n", k, val)
    }).collect::<String>();
    // the documented equation form: one `name = expression` per line, each line terminated (the parser
    // wraps the text in braces, so an unterminated last line swallows the closing brace → Err)
    let eqn = format!("\n{}", eqn);
    let base_ex = serde_json::from_str::<CrystalType>(json).ok();
    let alts: Vec<(&str, Option<CrystalType>)> = vec![
      ("from_string_json", guard(|| CrystalType::from_string(json).ok()).flatten()),
      ("from_string_equations", guard(|| CrystalType::from_string(&eqn).ok()).flatten()),
      ("FromStr", guard(|| json.parse::<CrystalType>().ok()).flatten()),
      ("clone", base_ex.clone()),
      ("config_json", serde_json::from_str::<CrystalConfig>(&cfg_json(json, 20.0)).ok().map(|c| CrystalSetup::from(c).crystal)),
    ];
    let mut bad: Option<String> = None;
    let mut cases = 0;
    let label = format!("{}{}", v, if l_to < 2.0 { "-lo" } else if l_from > 0.0 { "-hi" } else { "" });
    for (lam, tc) in points(ctx, lo, hi) {
      let tk = kelvin(tc);
      set_expr_label(&label);
      let direct = base_ex.as_ref().and_then(|e| idx(e, lam, tk));
      for (name, alt) in alts.iter() {
        cases += 1;
        let got = alt.as_ref().and_then(|a| idx(a, lam, tk));
        if !(alt.is_some() && base_ex.is_some() && same_bits(&direct, &got)) && bad.is_none() {
          bad = Some(format!("crystal=expr/{} route={} lam_bits={} lam_nm={} T_C={} serde_value={:?} route_value={:?}", label, name, fl(lam), lam * 1e9, tc, direct, got).replace(", ", ","));
        }
      }
    }
    ctx.count("routes/expr");
    let base = format!("crystal=expr/{} route_evaluations={}", label, cases);
    ctx.s("C01.routes", bad.is_none(), &format!("routes/expr/{}", v), bad.as_ref().unwrap_or(&base));
  }
}

// --------------------------------------------------------------------------- K + S: textual variants of the parser inputs
/// `(name, value)` pairs of a compact `{"no":"A","ne":"B"}` source of `expr_sources`
fn expr_pairs(json: &str) -> Vec<(String, String)> {
  json.trim_matches(|ch| ch == '{' || ch == '}').split("\",\"").map(|kv| {
    let kv = kv.trim_matches('"');
    let (k, val) = kv.split_once("\":\"").unwrap_or((kv, ""));
    (k.to_string(), val.to_string())
  }).collect()
}

/// which parser a text form is written for
#[derive(Clone, Copy, PartialEq)]
enum Syntax {
  /// strict JSON: `from_string`, `FromStr`, `serde_json`, and as the `kind` of a `CrystalConfig` JSON
  Json,
  /// HJSON / equation form: `from_string`, `FromStr` only
  Hjson,
}

/// Every textual layout of ONE expression crystal (same names, same formulas): whitespace around and inside the
/// document, pretty-printed vs compact, key order, HJSON liberties (trailing commas, quoteless keys/values, comments,
/// single quotes), the documented `name = expression` line form and its layouts.  `required` = a documented form that
/// the parser accepts on the pinned tree: it must build the crystal (S `C01.text_forms`); the others are forms the
/// pinned tree rejects (kept in the K table only: `parse_form` mirrors what the code accepts).
fn expr_text_forms(pairs: &[(String, String)]) -> Vec<(&'static str, Syntax, bool, String)> {
  let q = |sep_kv: &str, sep: &str, open: &str, close: &str, ps: &[(String, String)]| -> String {
    format!("{}{}{}", open, ps.iter().map(|(k, v)| format!("\"{}\"{}\"{}\"", k, sep_kv, v)).collect::<Vec<_>>().join(sep), close)
  };
  let compact = q(":", ",", "{", "}", pairs);
  let pretty = |ind: &str, nl: &str| -> String {
    format!("{{{nl}{}{nl}}}", pairs.iter().map(|(k, v)| format!("{ind}\"{k}\": \"{v}\"")).collect::<Vec<_>>().join(&format!(",{nl}")))
  };
  let rev: Vec<(String, String)> = pairs.iter().rev().cloned().collect();
  let mut rot: Vec<(String, String)> = pairs.to_vec();
  rot.rotate_left(1);
  let lines = |ind: &str, eq: &str, nl: &str, ps: &[(String, String)]| -> String {
    ps.iter().map(|(k, v)| format!("{ind}{k}{eq}{v}{nl}")).collect::<String>()
  };
  let spaced: Vec<(String, String)> = pairs.iter().map(|(k, v)| (k.clone(), v.replace('*', " * ").replace('/', " / ").replace("sqrt(", "sqrt( "))).collect();
  let padded: Vec<(String, String)> = pairs.iter().map(|(k, v)| (k.clone(), format!("  {} ", v))).collect();
  let upper: Vec<(String, String)> = pairs.iter().map(|(k, v)| (k.to_uppercase(), v.clone())).collect();
  use Syntax::*;
  vec![
    // ---- strict JSON
    ("json/compact", Json, true, compact.clone()),
    ("json/lead-space", Json, true, format!(" {}", compact)),
    ("json/lead-newline", Json, true, format!("\n{}", compact)),
    ("json/lead-tab", Json, true, format!("\t{}", compact)),
    ("json/lead-crlf", Json, true, format!("\r\n{}", compact)),
    ("json/lead-many", Json, true, format!(" \n\t \n    {}", compact)),
    ("json/trail-space", Json, true, format!("{} ", compact)),
    ("json/trail-newline", Json, true, format!("{}\n", compact)),
    ("json/both-ws", Json, true, format!("\n  {}  \n", compact)),
    ("json/pretty2", Json, true, pretty("  ", "\n")),
    ("json/pretty4", Json, true, pretty("    ", "\n")),
    ("json/pretty-tabs", Json, true, pretty("\t", "\n")),
    ("json/pretty-crlf", Json, true, pretty("  ", "\r\n")),
    ("json/doc-layout", Json, true, format!("\n{}\n", pretty("  ", "\n"))),
    ("json/doc-layout-indented", Json, true, format!("\n{}\n  ", pretty("  ", "\n").lines().map(|l| format!("    {}", l)).collect::<Vec<_>>().join("\n"))),
    ("json/space-after-colon", Json, true, q(": ", ", ", "{ ", " }", pairs)),
    ("json/space-before-colon", Json, true, q(" : ", " , ", "{", "}", pairs)),
    ("json/inner-newlines", Json, true, q("\n:\n", "\n,\n", "{\n", "\n}", pairs)),
    ("json/key-reversed", Json, true, q(":", ",", "{", "}", &rev)),
    ("json/key-rotated", Json, true, q(":", ",", "{", "}", &rot)),
    ("json/key-reversed-doc-layout", Json, true, format!("\n{{\n{}\n}}\n", rev.iter().map(|(k, v)| format!("  \"{k}\": \"{v}\"")).collect::<Vec<_>>().join(",\n"))),
    ("json/expr-spaced", Json, true, q(":", ",", "{", "}", &spaced)),
    ("json/expr-padded", Json, true, q(":", ",", "{", "}", &padded)),
    ("json/upper-keys", Json, false, q(":", ",", "{", "}", &upper)),
    // ---- HJSON
    ("hjson/trailing-comma", Hjson, true, q(":", ",", "{", ",}", pairs)),
    ("hjson/pretty-trailing-comma", Hjson, true, format!("\n{{\n{}}}\n", pairs.iter().map(|(k, v)| format!("  \"{k}\": \"{v}\",\n")).collect::<String>())),
    ("hjson/no-commas", Hjson, true, format!("{{\n{}}}", pairs.iter().map(|(k, v)| format!("  \"{k}\": \"{v}\"\n")).collect::<String>())),
    ("hjson/quoteless-keys", Hjson, true, format!("{{{}}}", pairs.iter().map(|(k, v)| format!("{k}:\"{v}\"")).collect::<Vec<_>>().join(","))),
    ("hjson/lead-newline-quoteless-keys", Hjson, true, format!("\n  {{{}}}\n", pairs.iter().map(|(k, v)| format!("{k}: \"{v}\"")).collect::<Vec<_>>().join(", "))),
    ("hjson/quoteless-values", Hjson, true, format!("{{\n{}}}\n", lines("  ", ": ", "\n", pairs))),
    ("hjson/lead-newline-quoteless-values", Hjson, true, format!("\n{{\n{}}}\n", lines("  ", ": ", "\n", pairs))),
    ("hjson/equals-in-braces", Hjson, true, format!("\n{{\n{}}}\n", lines("  ", " = ", "\n", pairs))),
    ("hjson/single-quotes", Hjson, true, format!("{{{}}}", pairs.iter().map(|(k, v)| format!("'{k}':'{v}'")).collect::<Vec<_>>().join(","))),
    ("hjson/comment-hash", Hjson, true, format!("{{\n  # published formulas\n{}}}", pairs.iter().map(|(k, v)| format!("  \"{k}\": \"{v}\"\n")).collect::<String>())),
    ("hjson/comment-slashes", Hjson, true, format!("{{\n  // published formulas\n{}}}", pairs.iter().map(|(k, v)| format!("  \"{k}\": \"{v}\" // index\n")).collect::<String>())),
    ("hjson/comment-block", Hjson, true, format!("{{ /* published\n formulas */ {}", &compact[1..])),
    // a comment in front of the opening brace: the pinned parser wraps such a document in braces again (K table only)
    ("hjson/comment-before-brace", Hjson, false, format!("// published formulas\n{}", compact)),
    ("hjson/block-comment-before-brace", Hjson, false, format!("/* published formulas */ {}", compact)),
    // ---- the documented `name = expression` line form
    ("eqn/doc-layout", Hjson, true, format!("\n{}", lines("  ", " = ", "\n", pairs))),
    ("eqn/no-lead-newline", Hjson, true, lines("  ", " = ", "\n", pairs)),
    ("eqn/no-indent", Hjson, true, lines("", " = ", "\n", pairs)),
    ("eqn/lead-newline-no-indent", Hjson, true, format!("\n{}", lines("", " = ", "\n", pairs))),
    ("eqn/deep-indent", Hjson, true, format!("\n{}        ", lines("        ", " = ", "\n", pairs))),
    ("eqn/tabs", Hjson, true, format!("\n{}", lines("\t", "\t=\t", "\n", pairs))),
    ("eqn/crlf", Hjson, true, format!("\r\n{}", lines("  ", " = ", "\r\n", pairs))),
    ("eqn/no-spaces", Hjson, true, lines("", "=", "\n", pairs)),
    ("eqn/colon", Hjson, true, lines("", ": ", "\n", pairs)),
    ("eqn/blank-lines", Hjson, true, format!("\n\n{}\n", lines("  ", " = ", "\n\n", pairs))),
    ("eqn/trailing-spaces", Hjson, true, lines("  ", " = ", "   \n", pairs)),
    ("eqn/reversed", Hjson, true, format!("\n{}", lines("  ", " = ", "\n", &rev))),
    ("eqn/rotated", Hjson, true, format!("\n{}", lines("  ", " = ", "\n", &rot))),
    ("eqn/expr-spaced", Hjson, true, format!("\n{}", lines("  ", " = ", "\n", &spaced))),
    ("eqn/quoted-values", Hjson, true, pairs.iter().map(|(k, v)| format!("{k} = \"{v}\"\n")).collect::<String>()),
    ("eqn/one-line-quoted", Hjson, true, pairs.iter().map(|(k, v)| format!("{k} = \"{v}\"")).collect::<Vec<_>>().join(", ")),
    ("eqn/comment-line", Hjson, true, format!("\n  # published formulas\n{}", lines("  ", " = ", "\n", pairs))),
    // forms the pinned tree does not accept (K table only)
    ("eqn/unterminated", Hjson, false, lines("", " = ", "\n", pairs).trim_end().to_string()),
    ("eqn/unterminated-space", Hjson, false, format!("{} ", lines("", " = ", "\n", pairs).trim_end())),
    ("eqn/one-line-quoteless", Hjson, false, format!("{}\n", pairs.iter().map(|(k, v)| format!("{k} = {v}")).collect::<Vec<_>>().join(", "))),
    ("eqn/upper-keys", Hjson, false, lines("", " = ", "\n", &upper)),
    ("eqn/semicolons", Hjson, false, lines("", " = ", ";\n", pairs)),
  ]
}

fn hex_of(s: &str) -> String {
  s.bytes().map(|b| format!("{:02x}", b)).collect()
}

/// `EXPR` / `ERR` / `PANIC` / the built-in's variant name
fn parse_outcome(r: &Option<Option<CrystalType>>) -> String {
  match r {
    None => "PANIC".into(),
    Some(None) => "ERR".into(),
    Some(Some(CrystalType::Expr(_))) => "EXPR".into(),
    Some(Some(c)) => vname(c),
  }
}

/// S `C01.text_forms`: the statement's "user expression crystals built from the same formulas" must return the
/// published indices whatever the (documented) textual layout in which the formulas reach the crate's parser: every
/// required form of `expr_text_forms`, through every route that takes that syntax, has to build an expression crystal
/// whose indices are bit-identical to those of the compact JSON read by serde and within 16 ulp of the built-in's.
/// K `parse_form <form> <crystal>` ⇒ outcome per route (model: the accepted-form table, independent of the crystal);
/// K `from_string_hex <hex>` ⇒ built-in variant or OTHER for identifiers in textual variants (whitespace, case,
/// quotes): the pinned parser accepts the exact identifier only (model `fromString` on the decoded text).
fn text_forms(ctx: &mut Ctx) {
  use spdcalc::{CrystalConfig, CrystalSetup};
  let cs = variants();
  let mut per_form: std::collections::BTreeMap<&'static str, (usize, Option<String>)> = Default::default();
  let n_src = expr_sources().len();
  for (v, json, l_from, l_to) in expr_sources() {
    let built_in = cs.iter().find(|c| vname(c) == v).unwrap().clone();
    let (lo, hi) = gen_window(&built_in);
    let label = format!("{}{}", v, if l_to < 2.0 { "-lo" } else if l_from > 0.0 { "-hi" } else { "" });
    let base_ex = serde_json::from_str::<CrystalType>(json).ok();
    // points inside the part of the window where this transcription applies
    let a = lo.max(l_from * 1e-6);
    let b = hi.min(if l_to.is_finite() { l_to * 1e-6 * (1.0 - 1e-9) } else { hi });
    let mut pts: Vec<(f64, f64)> = vec![];
    for (u, tc) in [(0.0, 20.0), (0.03, -50.0), (0.5, 131.0), (0.97, 200.0), (1.0, 24.5)] {
      pts.push(((a.ln() + (b.ln() - a.ln()) * u).exp().clamp(a, b), tc));
    }
    pts.push((ctx.rng.log_range(a, b), ctx.rng.range(-50.0, 200.0)));
    let pairs = expr_pairs(json);
    for (form, syntax, required, text) in expr_text_forms(&pairs) {
      let mut routes: Vec<(&str, Option<Option<CrystalType>>)> = vec![
        ("from_string", guard(|| CrystalType::from_string(&text).ok())),
        ("FromStr", guard(|| text.parse::<CrystalType>().ok())),
      ];
      if syntax == Syntax::Json {
        routes.push(("serde_json", guard(|| serde_json::from_str::<CrystalType>(&text).ok())));
        let cfg = format!(
          r#"{{"kind":{},"pm_type":"e->eo","phi_deg":0,"theta_deg":0,"length_um":2000,"temperature_c":20.0}}"#,
          text
        );
        routes.push(("config_json", guard(|| serde_json::from_str::<CrystalConfig>(&cfg).ok().map(|c| CrystalSetup::from(c).crystal))));
      }
      ctx.count(&format!("text_forms/{}", form.split('/').next().unwrap_or("x")));
      let outs = routes.iter().map(|(n, r)| format!("{}={}", n, parse_outcome(r))).collect::<Vec<_>>().join(" ");
      ctx.k("parse_form", &format!("{} {}", form, label), &outs);
      if !required {
        continue;
      }
      let e = per_form.entry(form).or_insert((0, None));
      for (name, r) in routes.iter() {
        let got = match r { Some(Some(c @ CrystalType::Expr(_))) => Some(c), _ => None };
        let mut fail: Option<String> = None;
        if got.is_none() {
          fail = Some(format!("outcome={}", parse_outcome(r)));
        } else {
          for (lam, tc) in pts.iter() {
            e.0 += 1;
            let tk = kelvin(*tc);
            let want = base_ex.as_ref().and_then(|x| idx_raw(x, *lam, tk));
            let have = got.and_then(|x| idx_raw(x, *lam, tk));
            let publ = idx_raw(&built_in, *lam, tk);
            let close = match (&have, &publ) {
              (Some(h), Some(p)) => (0..3).all(|i| h[i].is_finite() && (h[i] - p[i]).abs() <= EXPR_TOL),
              _ => false,
            };
            if !(want.is_some() && same_bits(&want, &have) && close) {
              fail = Some(format!("lam_bits={} lam_nm={} T_C={} form_value={:?} compact_serde_value={:?} builtin={:?}", fl(*lam), lam * 1e9, tc, have, want, publ).replace(", ", ","));
              break;
            }
          }
        }
        if let (Some(f), true) = (fail, e.1.is_none()) {
          e.1 = Some(format!("form={} crystal=expr/{} route={} text_hex={} {}", form, label, name, hex_of(&text), f));
        }
      }
    }
  }
  for (form, (n, bad)) in per_form.iter() {
    let base = format!("form={} expression_crystals={} evaluations={}", form, n_src, n);
    ctx.s("C01.text_forms", bad.is_none(), &format!("text/{}", form), bad.as_ref().unwrap_or(&base));
  }
  // identifiers in textual variants
  let mut texts: Vec<String> = vec![];
  for c in cs.iter() {
    let id = c.get_meta().id;
    for t in [
      format!(" {}", id), format!("{} ", id), format!("\n{}", id), format!("{}\n", id), format!("\t{}\t", id),
      format!("\r\n{}\r\n", id), format!("  {}  ", id), format!("\"{}\"", id), format!("'{}'", id), format!("{{{}}}", id),
      format!("{{\"kind\":\"{}\"}}", id), format!("kind = {}\n", id), format!(" {}", id.to_lowercase()), format!("{}\n", id.to_uppercase()),
      id.replace('_', " "), id.replace('_', "-"), format!("{0} {0}", id), format!("{},", id), id.to_string(),
    ] {
      texts.push(t);
    }
  }
  for t in ["", " ", "\n", "{", "}", "{}", " {}", "{ }\n", "no", "no = 1", "no = 1\n", "=", ":", "\"", "null", "[]", "0"] {
    texts.push(t.to_string());
  }
  for t in texts.iter() {
    let r = guard(|| CrystalType::from_string(t));
    let r2 = guard(|| t.parse::<CrystalType>());
    let cls = |r: &Option<Result<CrystalType, spdcalc::SPDCError>>| match r {
      Some(Ok(CrystalType::Expr(_))) | Some(Err(_)) => "OTHER".to_string(),
      Some(Ok(c)) => vname(c),
      None => "PANIC".to_string(),
    };
    ctx.count("from_string/text-variant");
    ctx.k("from_string_hex", &format!("h{}", hex_of(t)), &format!("{} {}", cls(&r), cls(&r2)));
  }
}
