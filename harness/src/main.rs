//! Correspondence / search harness: drives the real spdcalc crate.
//! usage: vh <family> <seed> <n> <tier>
//! Output lines:
//!   K <op> <args…> => <outs…>        correspondence case (model driver recomputes <outs…>)
//!   S <pred> PASS|FAIL <signature> | <free text / replay input>   property predicate on the real code
//!   D <key> <count>                  input-distribution statistics
mod common;
mod fam;

fn main() {
  let args: Vec<String> = std::env::args().collect();
  if args.len() < 5 {
    eprintln!("usage: vh <family> <seed> <n> <tier> [extra…]");
    std::process::exit(2);
  }
  let family = args[1].as_str();
  let seed: u64 = args[2].parse().expect("seed");
  let n: usize = args[3].parse().expect("n");
  let thorough = args[4] == "thorough";
  let extra: Vec<String> = args[5..].to_vec();
  common::silence_panics();
  let mut ctx = common::Ctx::new(seed, n, thorough, extra);
  if !fam::run(family, &mut ctx) {
    eprintln!("unknown family {}", family);
    std::process::exit(2);
  }
  ctx.finish();
}
