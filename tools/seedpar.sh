#!/bin/bash
# tools/seedpar.sh <lanes> [ids…] : like seedall.sh but in <lanes> parallel lanes (VERIF_ALT_TAG keeps build dirs apart).
# Output lines: id property CAUGHT(failing-input)|CAUGHT(no-failing-input-found)|MISSED  summary
cd /verif
lanes="$1"; shift
ids="$@"; [ -z "$ids" ] && ids=$(ls seeded | grep -v results.json)
lane() {
  k="$1"; shift
  for s in "$@"; do
    p=${s%%-*}
    wt=/tmp/seedpar-${SEEDPAR_TAG:-}$k
    git -C /repo worktree remove --force $wt >/dev/null 2>&1
    git -C /repo worktree add -q $wt HEAD
    if git -C $wt apply /verif/seeded/$s/patch.diff 2>/dev/null; then
      out=$(VERIF_REPO=$wt VERIF_ALT_TAG=-${SEEDPAR_TAG:-}$k ./check $p 2>&1)
      v=$(echo "$out" | grep -c '^VIOLATION')
      nf=$(echo "$out" | grep '^VIOLATION' | grep -c 'no-failing-input-found')
      ni=$(( v - nf ))
      sum=$(echo "$out" | grep "^\[$p\]")
      if [ "$ni" -gt 0 ]; then echo "$s $p CAUGHT(failing-input) $sum"
      elif [ "$v" -gt 0 ]; then echo "$s $p CAUGHT(no-failing-input-found) $sum"
      else echo "$s $p MISSED $sum"; echo "$out" | grep -iE "error|broken" | head -3; fi
    else echo "$s $p PATCH-DOES-NOT-APPLY"; fi
    git -C /repo worktree remove --force $wt
  done
}
# build the Lean side once up front: concurrent `lake build`s of a stale tree race on the object files
(cd /verif/lean && lake build Spdc spdcmodel >/dev/null 2>&1)
i=0; declare -a L
for s in $ids; do L[$((i % lanes))]+=" $s"; i=$((i+1)); done
for k in $(seq 0 $((lanes-1))); do lane $k ${L[$k]} & done
wait
