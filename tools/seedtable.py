#!/usr/bin/env python3
"""tools/seedtable.py [seedall-log] : update seeded/results.json 'now' column from a tools/seedall.sh log (if given),
rewrite the table between the SEEDTABLE markers of DESIGN.md and the detected_by field of each seeded/<id>/meta.json"""
import json, os, re, sys
V = '/verif'
R = json.load(open(f'{V}/seeded/results.json'))
if len(sys.argv) > 1:
    for line in open(sys.argv[1]):
        m = re.match(r'(C\d\d-\d+) (C\d\d) (CAUGHT\(failing-input\)|CAUGHT\(no-failing-input-found\)|MISSED)', line)
        if m:
            R['now'][m.group(1)] = {'CAUGHT(failing-input)': 'input', 'CAUGHT(no-failing-input-found)': 'K', 'MISSED': 'MISSED'}[m.group(3)]
            R['first'].setdefault(m.group(1), R['now'][m.group(1)])
    json.dump(R, open(f'{V}/seeded/results.json', 'w'), indent=1, sort_keys=True)
rows = ['| id | property | change | needs to manifest | first | now |', '|---|---|---|---|---|---|']
for sid in sorted(os.listdir(f'{V}/seeded')):
    mp = f'{V}/seeded/{sid}/meta.json'
    if not os.path.exists(mp):
        continue
    m = json.load(open(mp))
    m['detected_by'] = {'as_first_built': R['first'].get(sid, '?'), 'now': R['now'].get(sid, '?'),
                        'legend': 'input = VIOLATION with a concrete failing input; K = VIOLATION … no-failing-input-found (correspondence only); MISSED = check stayed green',
                        'how': f'tools/seedall.sh {sid}  (scratch worktree of /repo with patch.diff applied, VERIF_REPO=<it> ./check {m["breaks_property"]})'}
    json.dump(m, open(mp, 'w'), indent=1)
    rows.append(f"| {sid} | {m['breaks_property']} | {m['change']} | {m['needs_to_manifest']} | {R['first'].get(sid,'?')} | {R['now'].get(sid,'?')} |")
d = open(f'{V}/DESIGN.md').read()
table = '<!-- SEEDTABLE-BEGIN -->\n' + '\n'.join(rows) + '\n<!-- SEEDTABLE-END -->'
if 'SEEDTABLE-BEGIN' in d:
    d = re.sub(r'<!-- SEEDTABLE-BEGIN -->.*?<!-- SEEDTABLE-END -->', lambda _: table, d, flags=re.S)
else:
    d = d.replace('SEEDTABLE\n', table + '\n')
open(f'{V}/DESIGN.md', 'w').write(d)
print('\n'.join(rows[2:]))
