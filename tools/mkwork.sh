#!/bin/sh
# tools/mkwork.sh <name> : git worktree of /verif at /work/<name> on branch <name>, with build caches copied
set -e
n="$1"
mkdir -p /work
git -C /verif worktree add -q -b "$n" "/work/$n" HEAD
mkdir -p "/work/$n/.build"
cp -a /verif/lean/.lake "/work/$n/lean/.lake"
cp -a /verif/.build/target "/work/$n/.build/target"
echo "/work/$n ready"
