#!/usr/bin/env python3
"""Regenerates the tables of DESIGN.md §10 that are pure data: per-property numbers (from evidence/*.json and
tools/props/*.py), fixed defects and known findings (from findings.d/*.json)."""
import glob, json, os, re, subprocess, sys
sys.path.insert(0, os.path.dirname(os.path.abspath(__file__)))
import vlib
V = vlib.VERIF
RESID = {
 "C01": "rounding; coefficient table cross-read against the crate's doc comments only",
 "C02": "truncation of the coded central difference (1e-6 rad measured)",
 "C03": "none beyond rounding",
 "C04": "convergence of the simplex (non-collinear period, angle search)",
 "C05": "neglect of diffraction, quadrature error, erf identification (Mathlib has no erf)",
 "C06": "non-vanishing of A1…A4, denom1, denom2 is a hypothesis",
 "C07": "finiteness inside the window",
 "C08": "**the pointwise inequality C ≤ S** (hypothesis of `sum_lift`; false in the D9 region) and the limit ratio",
 "C09": "Riemann sum ≈ integral",
 "C10": "si bound for unequal axes (hypothesis; D30 shows it is necessary)",
 "C11": "nalgebra SVD trusted numerically",
 "C12": "Gauss–Kronrod, Clenshaw–Curtis; GL node accuracy; wall clock",
 "C13": "convergence of the Snell inverse (1e-5° measured: worst 3.5e-7°)",
 "C14": "rounding",
 "C15": "re-association error; rayon scheduler / deadlock (time cap)",
 "C16": "serde_json float text",
 "C17": "finiteness of downstream numerics (the composed `try_as_spdc` is proved panic-free over ℝ; IEEE NaN panics are findings D7b)",
 "C18": "—",
 "C19": "rounding",
 "C20": "existence/convergence of the optimum",
}
def between(d, tag, body):
    return re.sub(rf'<!-- {tag}-BEGIN -->.*?<!-- {tag}-END -->', lambda _: f'<!-- {tag}-BEGIN -->\n{body}\n<!-- {tag}-END -->', d, flags=re.S)
rows = ['| id | thm | K (quick) | S (quick) | ops | residual (observed only) |', '|---|---|---|---|---|---|']
nthm = 0
for f in sorted(glob.glob(f'{V}/evidence/C*.json')):
    e = json.load(open(f)); c = e['coverage']; pid = e['property_id']
    P = vlib.load_prop(pid)
    nthm += c['obligations']
    rows.append(f"| {pid} | {c['obligations']} | {c['correspondence_cases']:,} | {c['predicate_pass']+c['predicate_fail_known']:,} | {len(P.OPS)} | {RESID.get(pid,'')} |")
fixed = ['| id | prop | commit | defect |', '|---|---|---|---|']
finds = ['| id | prop | what fails (first sentence; full text and region in `findings.d/`) |', '|---|---|---|']
for f in sorted(glob.glob(f'{V}/findings.d/*.json')):
    x = json.load(open(f))
    what = x['what'].split(': ')[0] if False else x['what']
    short = what if len(what) < 230 else what[:227] + '…'
    if x.get('kind') == 'fixed':
        fixed.append(f"| {x['id']} | {x['property']} | {x['commit']} | {short} |")
    else:
        finds.append(f"| {x['id']} | {x['property']} | {short} |")
d = open(f'{V}/DESIGN.md').read()
d = between(d, 'PROPTABLE', '\n'.join(rows))
d = between(d, 'FIXEDTABLE', '\n'.join(fixed))
d = between(d, 'FINDTABLE', '\n'.join(finds))
nmodel = len(glob.glob(f'{V}/lean/Spdc/Model/*.lean')); nreal = len(glob.glob(f'{V}/lean/Spdc/Real/*.lean'))
def loc(pat):
    return sum(len(open(f).read().splitlines()) for f in glob.glob(pat))
stats = (f"Model: {nmodel} files / {loc(V+'/lean/Spdc/Model/*.lean'):,} lines under `Spdc/Model`; helper lemmas: {nreal} files / "
         f"{loc(V+'/lean/Spdc/Real/*.lean'):,} lines under `Spdc/Real`; property theorems: {nthm} in {loc(V+'/lean/Spdc/Props/*.lean'):,} lines under "
         f"`Spdc/Props`; harness: {loc(V+'/harness/src/fam/*.rs'):,} lines of Rust in {len(glob.glob(V+'/harness/src/fam/*.rs'))-1} families.")
if 'MODELSTATS' in d:
    d = d.replace('MODELSTATS', '<!-- STATS-BEGIN -->\n' + stats + '\n<!-- STATS-END -->')
else:
    d = between(d, 'STATS', stats)
open(f'{V}/DESIGN.md', 'w').write(d)
print(stats)
