#!/bin/bash
# tools/seedverify.sh <out-dir-with patch.diff + seed_demo_*.rs> : confirm a seeded change independently in a scratch worktree
# prints: APPLY ok|fail, LIBTESTS <n passed>/<baseline ok?>, DEMO_WITH fail|pass, DEMO_WITHOUT pass|fail
set -u
d="$(realpath "$1")"
wt=/tmp/seedverify-$$
export CARGO_TARGET_DIR=/tmp/seedverify-target
git -C /repo worktree add -q "$wt" HEAD || exit 2
cleanup() { git -C /repo worktree remove --force "$wt" >/dev/null 2>&1; }
trap cleanup EXIT
cd "$wt"
demo=$(ls "$d"/seed_demo_*.rs | head -1)
name=$(basename "$demo" .rs)
mkdir -p tests && cp "$demo" tests/
# without the change
out0=$(cargo test --offline --test "$name" 2>&1 | tail -5)
if echo "$out0" | grep -q "test result: ok"; then echo "DEMO_WITHOUT pass"; else echo "DEMO_WITHOUT FAIL"; echo "$out0"; fi
if git apply "$d/patch.diff" 2>/tmp/apply.err; then echo "APPLY ok"; else echo "APPLY FAIL: $(cat /tmp/apply.err)"; exit 1; fi
lib=$(cargo test --offline --lib 2>&1)
passed=$(echo "$lib" | grep -c "\.\.\. ok")
echo "LIBTESTS passed=$passed"
python3 - "$lib" <<'PY'
import json,sys,re
base=set(json.load(open('/root/.vp/BASELINE.json'))['stable_pass'])
ok=set('spdcalc::'+m for m in re.findall(r'^test (\S+) \.\.\. ok', sys.argv[1], re.M))
missing=base-ok
print("LIBTESTS baseline", "ok" if not missing else "MISSING "+",".join(sorted(missing)))
PY
out1=$(cargo test --offline --test "$name" 2>&1 | tail -8)
if echo "$out1" | grep -q "test result: ok"; then echo "DEMO_WITH PASS (change not demonstrated)"; else echo "DEMO_WITH fail (as intended)"; fi
