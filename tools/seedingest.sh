#!/bin/bash
# tools/seedingest.sh Cxx [offset] : copy /tmp/seed-Cxx/out/{1,2} to seeded/Cxx-k/, verify each independently, then drop the scratch worktree
p="$1"; off="${2:-0}"
for k in 1 2; do
  src=/tmp/${SEEDPREFIX:-seed}-$p/out/$k
  [ -d "$src" ] || continue
  dst=/verif/seeded/$p-$((k+off))
  mkdir -p "$dst"
  cp "$src"/patch.diff "$dst"/ ; cp "$src"/seed_demo_*.rs "$dst"/ 2>/dev/null; cp "$src"/README.md "$dst"/ 2>/dev/null
  echo "== $p-$((k+off))"; /verif/tools/seedverify.sh "$dst" 2>&1 | tee "$dst/verify.log" | grep -E "^(APPLY|LIBTESTS|DEMO)"
done
git -C /repo worktree remove --force /tmp/${SEEDPREFIX:-seed}-$p 2>/dev/null; rm -rf /tmp/${SEEDPREFIX:-seed}-$p
