#!/bin/sh
# tools/merge.sh <branch> : merge an agent branch into main; generated files are regenerated, not merged
set -e
cd /verif
b="$1"
GEN="lean/Spdc/Driver/All.lean lean/Spdc.lean harness/src/fam/mod.rs MANIFEST.json known_findings.json"
if ! git merge --no-ff --no-commit "$b" >/tmp/merge.out 2>&1; then
  for f in $GEN; do git checkout --ours -- "$f" 2>/dev/null || true; git add "$f" 2>/dev/null || true; done
  for f in $(git diff --name-only --diff-filter=U | grep '^evidence/' || true); do git checkout --theirs -- "$f"; git add "$f"; done
  if git diff --name-only --diff-filter=U | grep -q .; then
    echo "REAL CONFLICTS:"; git diff --name-only --diff-filter=U; exit 1
  fi
fi
python3 tools/gen.py
git add -A
git commit -q -m "merge $b" || true
echo "merged $b"
