"""Shared machinery of ./check: builds, audit, correspondence comparison, findings, evidence."""
import hashlib
import importlib.util
import json
import os
import re
import struct
import subprocess
import sys
import time

VERIF = os.path.dirname(os.path.dirname(os.path.abspath(__file__)))
LEAN = os.path.join(VERIF, "lean")
HARNESS = os.path.join(VERIF, "harness")
BUILD = os.path.join(VERIF, ".build")
REPO = os.environ.get("VERIF_REPO", "/repo")   # VERIF_REPO=<scratch worktree of /repo>: mutation experiments without touching /repo
ALT = REPO != "/repo"
ALT_TAG = os.environ.get("VERIF_ALT_TAG", "")   # several scratch-copy runs in parallel: one build/evidence dir per tag
TARGET = os.path.join(BUILD, ("target-alt" + ALT_TAG) if ALT else "target")
VH = os.path.join(TARGET, "release", "vh")
MODEL = os.path.join(LEAN, ".lake", "build", "bin", "spdcmodel")
GUARD = "spdcalc_verif"
ALLOWED_AXIOMS = {"propext", "Classical.choice", "Quot.sound"}
FORBIDDEN = re.compile(r"\bsorry\b|\badmit\b|^axiom |native_decide|bv_decide|implemented_by|\bunsafe |maxHeartbeats 0")

TRUSTED_BASE = [
    "Lean 4.33 kernel (thorough tier: re-checked with leanchecker)",
    "axioms allowed in property theorems: propext, Classical.choice, Quot.sound (checked by #print axioms on every run)",
    "hand-written Lean model's fidelity to the Rust code: checked by the correspondence run only on the cases explored",
    "Lean Float (C double, glibc libm) agrees with rustc f64 within the per-op ulp classes",
    "theorems are about the real/complex-arithmetic semantics of the formulas; rounding error is measured, not proved",
    "Rust harness /verif/harness (catch_unwind, hex-bit wire format), Python comparator /verif/tools/vlib.py",
]


def env_offline():
    e = dict(os.environ)
    e["CARGO_NET_OFFLINE"] = "true"
    e["RUSTFLAGS"] = (e.get("RUSTFLAGS", "") + " --cfg " + GUARD).strip()
    e["CARGO_TARGET_DIR"] = TARGET
    return e


def sh(cmd, cwd=None, env=None, timeout=None, stdin=None):
    p = subprocess.run(cmd, cwd=cwd, env=env, timeout=timeout, input=stdin,
                       stdout=subprocess.PIPE, stderr=subprocess.STDOUT, text=True)
    return p.returncode, p.stdout


def build_harness():
    global HARNESS
    os.makedirs(BUILD, exist_ok=True)
    if ALT:
        import shutil
        alt = os.path.join(BUILD, "harness-alt" + ALT_TAG)
        shutil.rmtree(alt, ignore_errors=True)
        shutil.copytree(HARNESS, alt, ignore=shutil.ignore_patterns("target"))
        ct = os.path.join(alt, "Cargo.toml")
        txt = open(ct).read().replace('path = "/repo"', f'path = "{REPO}"')
        open(ct, "w").write(txt)
        HARNESS = alt
    lock_src = os.path.join(REPO, "Cargo.lock")
    lock_dst = os.path.join(HARNESS, "Cargo.lock")
    # keep the harness lockfile = /repo's pinned versions (offline resolution needs it); only
    # refresh it if cargo cannot build with the one committed
    rc, out = sh(["cargo", "build", "--release", "--offline"], cwd=HARNESS, env=env_offline(), timeout=3000)
    if rc != 0 and os.path.exists(lock_src) and "Cargo.lock" in out:
        import shutil
        shutil.copy(lock_src, lock_dst)
        rc, out = sh(["cargo", "build", "--release", "--offline"], cwd=HARNESS, env=env_offline(), timeout=3000)
    return rc == 0, out


def lake_build(targets):
    rc, out = sh(["lake", "build"] + targets, cwd=LEAN, timeout=6000)
    return rc == 0, out


def theorem_names(prop_file):
    names = []
    if not os.path.exists(prop_file):
        return names
    src = open(prop_file).read()
    src = strip_comments(src)
    ns = []
    for line in src.splitlines():
        m = re.match(r"\s*namespace\s+(\S+)", line)
        if m:
            ns.append(m.group(1))
            continue
        m = re.match(r"\s*end\s+(\S+)", line)
        if m and ns and ns[-1] == m.group(1):
            ns.pop()
            continue
        m = re.match(r"\s*(?:@\[[^\]]*\]\s*)?(?:private\s+|protected\s+)?theorem\s+(\S+)", line)
        if m:
            names.append(".".join(ns + [m.group(1)]))
    return names


def strip_comments(src):
    # remove /- ... -/ (nested) and -- comments
    out = []
    i = 0
    depth = 0
    n = len(src)
    while i < n:
        if src.startswith("/-", i):
            depth += 1
            i += 2
            continue
        if depth > 0 and src.startswith("-/", i):
            depth -= 1
            i += 2
            continue
        if depth > 0:
            if src[i] == "\n":
                out.append("\n")
            i += 1
            continue
        if src.startswith("--", i):
            while i < n and src[i] != "\n":
                i += 1
            continue
        out.append(src[i])
        i += 1
    return "".join(out)


def forbidden_hits():
    hits = []
    for root, _, files in os.walk(os.path.join(LEAN, "Spdc")):
        for f in files:
            if f.endswith(".lean"):
                p = os.path.join(root, f)
                for k, line in enumerate(strip_comments(open(p).read()).splitlines(), 1):
                    if FORBIDDEN.search(line):
                        hits.append(f"{os.path.relpath(p, LEAN)}:{k}: {line.strip()}")
    p = os.path.join(LEAN, "Main.lean")
    for k, line in enumerate(strip_comments(open(p).read()).splitlines(), 1):
        if FORBIDDEN.search(line):
            hits.append(f"Main.lean:{k}: {line.strip()}")
    return hits


def audit(prop_id, module, names):
    """#print axioms for every property theorem. Returns dict name -> set(axioms) or None if missing."""
    os.makedirs(BUILD, exist_ok=True)
    f = os.path.join(BUILD, f"audit_{prop_id}.lean")
    with open(f, "w") as fh:
        fh.write(f"import {module}\n")
        for n in names:
            fh.write(f"#print axioms {n}\n")
    rc, out = sh(["lake", "env", "lean", f], cwd=LEAN, timeout=3000)
    res = {}
    # outputs: "'X' depends on axioms: [a, b]" or "'X' does not depend on any axioms"
    for m in re.finditer(r"'([^']+)' depends on axioms: \[([^\]]*)\]", out.replace("\n", " ")):
        res[m.group(1)] = set(a.strip() for a in m.group(2).split(",") if a.strip())
    for m in re.finditer(r"'([^']+)' does not depend on any axioms", out):
        res[m.group(1)] = set()
    return rc, out, res


def leanchecker(module):
    rc, out = sh(["lake", "env", "leanchecker", module], cwd=LEAN, timeout=6000)
    return rc == 0, out


# ---------------------------------------------------------------- wire / comparison

def parse_fl(tok):
    if len(tok) == 17 and tok[0] == "x":
        try:
            return struct.unpack(">d", bytes.fromhex(tok[1:]))[0]
        except ValueError:
            return None
    return None


def ordered(bits):
    # map IEEE bits to a monotone integer line
    if bits & (1 << 63):
        return -(bits & ((1 << 63) - 1))
    return bits


def ulp_diff(ta, tb):
    a = int(ta[1:], 16)
    b = int(tb[1:], 16)
    return abs(ordered(a) - ordered(b))


def tok_equal(a, b, tol):
    """tol: ('exact',) | ('ulp',k) | ('rel',eps[,abs_floor]) | ('abs',eps)"""
    if a == b:
        return True
    fa, fb = parse_fl(a), parse_fl(b)
    if fa is None or fb is None:
        return False
    if fa != fa and fb != fb:
        return True  # NaN canonicalised
    if fa != fa or fb != fb:
        return False
    kind = tol[0]
    if kind == "exact":
        return fa == fb and (fa != 0 or a == b)
    if kind == "ulp":
        if fa == fb:
            return True
        return ulp_diff(a, b) <= tol[1]
    if fa in (float("inf"), float("-inf")) or fb in (float("inf"), float("-inf")):
        return fa == fb
    if kind == "rel":
        floor = tol[2] if len(tol) > 2 else 0.0
        return abs(fa - fb) <= tol[1] * max(abs(fa), abs(fb)) + floor
    if kind == "abs":
        return abs(fa - fb) <= tol[1]
    raise ValueError(kind)


def compare_tokens(expect, got, tol):
    e = expect.split()
    g = got.split()
    if len(e) != len(g):
        return False, f"token count {len(e)} vs {len(g)}"
    for i, (x, y) in enumerate(zip(e, g)):
        if not tok_equal(x, y, tol):
            fx, fy = parse_fl(x), parse_fl(y)
            extra = f" ({fx!r} vs {fy!r})" if fx is not None and fy is not None else ""
            return False, f"token {i}: impl {x} model {y}{extra}"
    return True, ""


def run_family(family, seed, n, tier, extra=(), timeout=7200):
    cmd = [VH, family, str(seed), str(n), tier] + list(extra)
    p = subprocess.run(cmd, stdout=subprocess.PIPE, stderr=subprocess.PIPE, text=True, timeout=timeout)
    return p.returncode, p.stdout.splitlines(), p.stderr


def run_model(bodies, timeout=7200):
    """bodies: list of '<op> <args>' strings → list of outputs"""
    if not bodies:
        return []
    p = subprocess.run([MODEL], input="\n".join(bodies) + "\n", stdout=subprocess.PIPE,
                       stderr=subprocess.PIPE, text=True, timeout=timeout)
    outs = p.stdout.splitlines()
    if len(outs) != len(bodies):
        outs += ["DRIVER-DIED"] * (len(bodies) - len(outs))
    return outs


# ---------------------------------------------------------------- findings

def load_findings():
    p = os.path.join(VERIF, "known_findings.json")
    if not os.path.exists(p):
        return {"findings": [], "fixed": []}
    return json.load(open(p))


def parse_params(detail):
    d = {}
    for m in re.finditer(r"(\w+)=([^\s,]+)", detail):
        d[m.group(1)] = m.group(2)
    return d


def finding_matches(f, prop, sig, detail):
    if f.get("property") != prop:
        return False
    if not re.fullmatch(f["signature"], sig):
        return False
    params = parse_params(detail)
    for k, cond in f.get("where", {}).items():
        if k not in params:
            return False
        v = params[k]
        if isinstance(cond, list) and len(cond) == 2 and all(isinstance(c, (int, float)) for c in cond):
            try:
                x = float(v)
            except ValueError:
                return False
            if not (cond[0] <= x <= cond[1]):
                return False
        elif isinstance(cond, list):
            if v not in [str(c) for c in cond]:
                return False
        else:
            if v != str(cond):
                return False
    return True


def load_prop(prop_id):
    p = os.path.join(VERIF, "tools", "props", prop_id + ".py")
    spec = importlib.util.spec_from_file_location("prop_" + prop_id, p)
    mod = importlib.util.module_from_spec(spec)
    spec.loader.exec_module(mod)
    ov = os.path.join(VERIF, "tools", "props", "_hist.py")
    if os.path.exists(ov):
        sp2 = importlib.util.spec_from_file_location("prop_overlay_hist", ov)
        m2 = importlib.util.module_from_spec(sp2)
        sp2.loader.exec_module(m2)
        m2.apply(mod, prop_id)
    return mod


def write_json(path, obj):
    os.makedirs(os.path.dirname(path), exist_ok=True)
    tmp = path + ".tmp"
    with open(tmp, "w") as fh:
        json.dump(obj, fh, indent=1, sort_keys=False)
        fh.write("\n")
    os.replace(tmp, path)
