#!/bin/bash
# tools/seedall.sh [ids…] : run each seeded change (default: all under seeded/) against the check of the property it breaks,
# in a scratch worktree (VERIF_REPO). Prints one line per seed: id property result(first VIOLATION line or MISSED)
cd /verif
ids="$@"; [ -z "$ids" ] && ids=$(ls seeded)
for s in $ids; do
  p=${s%%-*}
  [ -f tools/props/$p.py ] || { echo "$s $p NO-CHECK-YET"; continue; }
  wt=/tmp/seedall-$$
  git -C /repo worktree add -q $wt HEAD
  if git -C $wt apply /verif/seeded/$s/patch.diff 2>/dev/null; then
    out=$(VERIF_REPO=$wt ./check $p 2>&1)
    v=$(echo "$out" | grep -c '^VIOLATION')
    nf=$(echo "$out" | grep '^VIOLATION' | grep -c 'no-failing-input-found')
    sum=$(echo "$out" | grep "^\[$p\]")
    if [ "$v" -gt 0 ]; then
      if [ "$nf" -gt 0 ]; then echo "$s $p CAUGHT(no-failing-input-found) $sum"; else echo "$s $p CAUGHT(failing-input) $sum"; fi
    else echo "$s $p MISSED $sum"; fi
  else echo "$s $p PATCH-DOES-NOT-APPLY"; fi
  git -C /repo worktree remove --force $wt
done
