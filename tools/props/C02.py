ID = "C02"
DESIGN_REF = "DESIGN.md §3 C02"
TECHNIQUE = ("Lean 4 theorems over a hand-written executable model of CrystalSetup::index_along / to_crystal_frame / "
             "roots::find_roots_quadratic / derivative_at / Beam::walkoff_angle (faithful form mirroring the code's branches, "
             "spec form = closed-form Fresnel solution, refinement theorem between them), tied to the code by an ulp-level "
             "correspondence run plus a predicate search on the real code incl. rings of 1e-2…1e-9 rad around the optic axes")
LEVEL_TEXT = ("Proved over ℝ for all positive principal indices, all crystal angles and all unit directions: the Fresnel "
              "discriminant is non-negative, so the code's 'no real root' and 'negative 1/n²' exits are unreachable and the "
              "faithful model equals the closed form; the returned values are exactly the solutions of Fresnel's wave-normal "
              "equation, ordinary ≥ extraordinary, both between the smallest and largest principal index, invariant under "
              "reversal and principal-plane mirrors; uniaxial factorisation (one value n_o, the other 1/n² = cos²θ/n_o² + sin²θ/n_e²); "
              "ẑ is rotated to (sinθcosφ, sinθsinφ, cosθ) by a norm-preserving map; exact walk-off derivative for uniaxial crystals.")
LEVEL_NOTE = ("Principal indices (n_x,n_y,n_z) are INPUTS of the K lines, taken from the real crystal.get_indices(λ,T) (layered "
              "correspondence; C01 ties them). Model fidelity is checked, not proved. The coded walk-off is a central finite "
              "difference: its agreement with the exact derivative (1e-6 rad) is measured on the real code, the theorem is about "
              "the exact derivative. Floating-point rounding is measured only.")
OPS = {"to_crystal_frame", "quad_roots", "index_along", "walkoff", "deriv_at"}
TOL = {"to_crystal_frame": ("ulp", 16), "quad_roots": ("ulp", 2), "index_along": ("ulp", 64),
       "walkoff": ("rel", 1e-9, 1e-9), "deriv_at": ("ulp", 4)}
DEFAULT_TOL = ("exact",)
RULE = ("family index: to_crystal_frame on special angles × axes and random angles × sphere; find_roots_quadratic on fixed and random "
        "coefficient triples (all branches) and nearly degenerate quadratics; index_along for 11 crystals × aligned + generic "
        "orientations × in-window λ × T × both polarisations on directions uniform on the sphere, rings of 1e-2…1e-9 rad (and 0) around "
        "every optic axis, around the principal planes and principal axes; derivative_at on 5 test functions; walkoff_angle for "
        "11 crystals × both polarisations × crystal angles in 12°…90° (pump and in-plane beams) and arbitrary orientations")
RESIDUAL = ("truncation/rounding error of the coded central difference (measured against the exact formula within the statement's 1e-6 rad); "
            "floating-point rounding of the double root near an optic axis (√ε-conditioned, measured)")
ASSUMPTIONS = ["principal indices are positive (C01 bounds them in (1,4))"]


def _fl(tok):
    import struct
    if len(tok) == 17 and tok[0] == "x":
        return struct.unpack(">d", bytes.fromhex(tok[1:]))[0]
    return None


def on_case(op, body, impl_out, model_out):
    """float-divergence: the faithful form (= the implementation) against the spec form the theorems are about"""
    if op != "index_along" or " ;" not in model_out:
        return []
    spec = _fl(model_out.split(" ;")[1].split()[0])
    impl = _fl(impl_out.split()[0]) if impl_out.split() else None
    if spec is None or impl is None:
        return []
    if spec != spec:  # the spec form itself is NaN in Float (sqrt of a slightly negative discriminant): nothing to compare
        return []
    ok = abs(impl - spec) <= 1e-6 * abs(spec)
    sig = "index_along/float-divergence" + ("/zero" if impl == 0.0 else "")
    return [("C02.divergence", ok, sig, f"case={body} impl={impl!r} spec={spec!r}")]


def families(tier, seed):
    n = 2000 if tier == "quick" else 40000
    return [("index", seed, n, [])]
