ID = "C11"
DESIGN_REF = "DESIGN.md §3 C11"
TECHNIQUE = ("Lean 4 theorems over a hand-written executable model of src/math/schmidt.rs in trace form (tr M)^2/tr(M^2), M = A^T A, A = |F| "
             "(Cauchy-Schwarz on the Gram entries, Mathlib spectral theorem for the singular-value form, Nat.sqrt lemmas for the length test), "
             "tied to the SVD-based code by a correspondence run plus predicate search")
LEVEL_TEXT = ("Proved for every side n and every complex array over the real-arithmetic model: K = (sum lambda)^2 / sum lambda^2 over the eigenvalues "
              "lambda = sigma^2 of A^T A; 1 <= K <= n for non-zero arrays; K = 1 for outer products; K = n for equal-magnitude diagonals; invariance "
              "under a global complex factor, element-wise phases and transposition; error exactly on non-square lengths. The Float run of the "
              "trace-form model agrees with the SVD-based schmidt_number within rel 1e-9 and exactly on Ok/Err for every length 0-150 (quick) / 0-1700 (thorough).")
LEVEL_NOTE = ("nalgebra's SVD is not modelled: its singular values are tied to the trace form on every case by the comparison. The setup-level wrapper "
              "is compared with the model fed with the implementation's own jsa_range output.")
OPS = {"schmidt"}
TOL = {"schmidt": ("rel", 1e-9)}
DEFAULT_TOL = ("exact",)
RULE = ("family schmidt: one random array of every length 0-150 (quick) / 0-1700 (thorough); every side 1-6 x 10 kinds (random, rank-1, equal diagonal, "
        "equal permutation pattern, near-separable, ridge, zero border rows, zero border columns, block-sparse, diagonal with holes) then seeded random sides 1-12 / 1-40; two cases in three carry a global complex factor "
        "log-uniform in 1e-30..1e+30 and every clause (bounds, extremes, correspondence) is evaluated on the scaled array; each with a variant scaled by "
        "another factor from the same sixty decades, a phased and a transposed variant; JointSpectrum::schmidt_number on random setups built with every integrator variant in turn (Simpson, Gauss-Legendre, AdaptiveSimpson, ClenshawCurtis; GaussKonrod skipped: D40) with square ranges, "
        "rectangular ranges of square length (4x9, 2x8, 3x12, 1x4, 9x4 ...) and of non-square length (6x11, 2x3 ... => Err)")
RESIDUAL = "nalgebra try_svd is trusted to return the singular values (checked against tr M, tr M^2 through the model on every case); rounding is measured"
CHECKER_MODULES = ["Spdc.Real.SchmidtLemmas"]
TRUSTED_EXTRA = ["nalgebra 0.33 try_svd returns the singular values of the magnitude matrix (tied numerically to the trace form on every case)"]


def families(tier, seed):
    n = 150 if tier == "quick" else 2500
    return [("schmidt", seed, n, [])]
