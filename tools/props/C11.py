ID = "C11"
DESIGN_REF = "DESIGN.md §3 C11"
TECHNIQUE = ("Lean 4 theorems over a hand-written executable model of src/math/schmidt.rs in trace form (tr M)^2/tr(M^2), M = A^T A, A = |F| "
             "(Cauchy-Schwarz on the Gram entries, Mathlib spectral theorem for the singular-value form, Nat.sqrt lemmas for the length test), "
             "tied to the SVD-based code by a correspondence run plus predicate search")
LEVEL_TEXT = ("Proved for every side n and every complex array over the real-arithmetic model: K = (sum lambda)^2 / sum lambda^2 over the eigenvalues "
              "lambda = sigma^2 of A^T A; 1 <= K <= n for non-zero arrays; K = 1 for outer products; K = n for equal-magnitude diagonals; invariance "
              "under a global complex factor, element-wise phases and transposition; error exactly on non-square lengths. The Float run of the "
              "trace-form model agrees with the SVD-based schmidt_number within rel 1e-9 and exactly on Ok/Err for every length 0-150 (quick) / 0-1700 (thorough).")
LEVEL_NOTE = ("nalgebra's SVD is not modelled: its singular values are tied to the trace form on every case by the comparison. The setup-level wrapper "
              "is compared with the model fed with the implementation's own jsa_range output.")
OPS = {"schmidt"}
TOL = {"schmidt": ("rel", 1e-9)}
# the model of `schmidt` IS the closed form of the statement ((sum sigma^2)^2 / sum sigma^4 of the magnitude matrix, in trace form:
# theorem K_eq_sv): a disagreement is a failing input of the formula clause
REFERENCE_OPS = {"schmidt": ("C11.formula", "schmidt/formula-vs-model")}
DEFAULT_TOL = ("exact",)
RULE = ("family schmidt: one random array of every length 0-150 (quick) / 0-1700 (thorough); every side 1-6 x 10 kinds (random, rank-1, equal diagonal, "
        "equal permutation pattern, near-separable, ridge, zero border rows, zero border columns, block-sparse, diagonal with holes) then seeded random sides 1-12 / 1-40; two cases in three carry a global complex factor "
        "log-uniform in 1e-30..1e+30 and every clause (bounds, extremes, correspondence) is evaluated on the scaled array; each with a variant scaled by "
        "another factor from the same sixty decades, a phased and a transposed variant; JointSpectrum::schmidt_number on random setups built with every integrator variant in turn (Simpson, Gauss-Legendre, AdaptiveSimpson, ClenshawCurtis; GaussKonrod skipped: D40) with square ranges, "
        "rectangular ranges of square length (4x9, 2x8, 3x12, 1x4, 9x4 ...) and of non-square length (6x11, 2x3 ... => Err)"
        " | exactly structured arrays (no from_polar / generic complex product anywhere): all 16 2x2 patterns of +-1 as exactly real, exactly imaginary and "
        "real-or-imaginary arrays, then every side 1-6 x 14 kinds and seeded random sides (exactly real signed, exactly imaginary, entries real or imaginary, "
        "integer / Gaussian-integer / 0,+-1 valued, Hadamard-like and random sign patterns on equal / separable / random magnitudes, signed separable, signed equal and "
        "unequal (permuted) diagonals, block diagonal, sparse with +-0.0 zeros at the edges and in the centre, symmetric / antisymmetric / Hermitian / triangular, "
        "real Gaussian x sinc model spectrum, real with one complex entry, sign lattices) under an exact global factor (+-m, +-i m; m = 1, 2^k, log-uniform 1e-30..1e30); "
        "every array and every variant is also compared with the statement's closed form evaluated without SVD (C11.formula); exact variants: real / imaginary "
        "factor, element-wise signs, quarter turns, conjugation, magnitudes only; the array is handed over as Vec, slice, Box<[_]> and &Vec in turn")
RESIDUAL = "nalgebra try_svd is trusted to return the singular values (checked against tr M, tr M^2 through the model on every case); rounding is measured"
CHECKER_MODULES = ["Spdc.Real.SchmidtLemmas"]
TRUSTED_EXTRA = ["nalgebra 0.33 try_svd returns the singular values of the magnitude matrix (tied numerically to the trace form on every case)"]


def families(tier, seed):
    n = 150 if tier == "quick" else 2500
    return [("schmidt", seed, n, [])]


# ------------------------------------------------------------------------------------------------------------------------------
# COMPOSED model, part 3 — grid level (branch compose; Model/ComposeGrid.lean, notes/compose.md "Part 3") — purely additive block.
# The cmpg_* K lines carry ONLY the primitive setup, the range (kind F/W/SD, endpoints, step counts), the Simpson division count
# and the delays; Spdc.Model.ComposeGrid recomputes everything (JointSpectrum::new through the composed try_as_optimum, the
# spectra on the grid, group indices, correction factor, rates, HOM, Schmidt number) through all layers.
import os as _os3
import sys as _sys3
_sys3.path.insert(0, _os3.path.dirname(_os3.path.abspath(__file__)))
import _pmtol  # noqa: F401,E402  (tolerance kind "csum": |Δ| relative to the absolute quadrature scale printed next to the value)
OPS = set(OPS) | {'cmpg_schmidt'}
TOL = dict(TOL)
TOL.update({'cmpg_schmidt': ('csum', 1e-10)})
RULE += ' | family compose/c11: the primitive-setup generator of parts 1-2 (11 crystals x 5 PM types, poled/unpoled, collinear/non-collinear, idler auto/explicit, 2/3 phase-matched) x a range around the centre frequencies (half-width 0.3-6 pump spectral widths per axis, 1/4 displaced so that part of it leaves the support; shapes 1xn, nx1, rectangles, squares, now and then an empty axis) given as FrequencySpace, WavelengthSpace or SumDiffFrequencySpace x Simpson divs from {4 (panic path of JointSpectrum::new), 5, 6, 7, 8, 10, 12, 20} (squares 1-8 (12 thorough), rectangles of square length 1x4 .. 4x9, of non-square length => Err, empty grid => panic): JointSpectrum::schmidt_number (nalgebra SVD) against the trace form tr(AtA)^2/tr((AtA)^2) of the composed jsa grid'
LEVEL_NOTE += ' COMPOSED MODEL part 3 (notes/compose.md): the cmpg_* K ops carry NO value computed by the real crate — only the primitive setup, the range specification (FrequencySpace / WavelengthSpace / SumDiffFrequencySpace endpoints and step counts), the Simpson division count and the delays; Spdc.Model.ComposeGrid evaluates JointSpectrum::new (centre values through the composed try_as_optimum), the spectra over the grid in the row-major order of the crate, group indices / get_counts_correction, the dw^2 rectangle sums, hom_time_delay, the HOM sums and the trace-form Schmidt number on top of the composed jsa/jsi/jsi_singles. The real side builds the SPDC from exactly these primitives and calls the public API. Values governed by the oscillatory z-quadrature are compared relative to the absolute quadrature scale (kind csum), singles (rayon 2-D sums, order not fixed) at rel 1e-6.'
CHECKER_MODULES = list(globals().get("CHECKER_MODULES", [])) + [_m for _m in ["Spdc.Real.ComposeLemmas", "Spdc.Real.ComposeAutoLemmas", "Spdc.Real.ComposeGridLemmas"] if _m not in globals().get("CHECKER_MODULES", [])]
_families_before_compose_grid = families


def families(tier, seed):
    return _families_before_compose_grid(tier, seed) + [("compose", seed, 250 if tier == "quick" else 4000, ["c11"])]
