ID = "C15"
DESIGN_REF = "DESIGN.md §3 C15"
TECHNIQUE = ("Lean 4 theorems over a hand-written executable model of the two rayon producers of utils.rs (induction over "
             "arbitrary binary split trees; field identities for the re-derived 1-D sub-range endpoints; commutative-monoid "
             "sums over leaves), tied to the code by driving rayon::iter::plumbing::Producer::{split_at,into_iter} on the real "
             "producers, plus runs of every parallel call site under explicit rayon pools")
LEVEL_TEXT = ("Proved for every binary split tree whose split indices satisfy the Producer contract (0 ≤ k ≤ len), every length "
              "and all endpoints: the concatenated leaves of the 1-D producer equal the sequential traversal over any field of "
              "characteristic 0, those of the 2-D producer are syntactically the sequential values for any scalar type "
              "(hence bit-exact in floating point); delivered positions and reported lengths; sums over leaves equal the "
              "sequential sum in any commutative monoid. The Float run of the same definitions agrees with the real "
              "producers on every explored split and tree (2-D exactly, 1-D within 2 ulp).")
LEVEL_NOTE = ("Model fidelity is checked, not proved (correspondence: all (len,k) with len ≤ 64 incl. k = 0, len, len+1; all proper "
              "trees for len ≤ 8 (1-D) / ≤ 9 (2-D); random trees to length 10^4). Which trees rayon's scheduler requests, and "
              "absence of deadlock in nested regions, are properties of rayon (trusted; observed under pools of 1–16 threads with "
              "a time cap). Floating-point re-association error of parallel sums and the drift of re-derived 1-D endpoints are "
              "measured against the statement's tolerances (1e-12, 1e-14), not proved.")
OPS = {"split1", "split2", "tree1", "tree2", "steps_lens", "steps2d_lens", "part2_prog"}
TOL = {"split1": ("ulp", 2), "tree1": ("ulp", 2)}
DEFAULT_TOL = ("exact",)
RULE = ("family par/split: single splits of both producers for every len ≤ 24 (quick) / 64 (thorough) × every k ∈ 0..len+1; all proper "
        "split trees for len ≤ 6/8 (1-D) and grids up to 3×2 / 3×3 (2-D); degenerate (k=0, k=len) two-level trees; seeded random "
        "trees (uniform, bisecting, 1-element halves, contract-wide) to length 600 / 10^4, each leaf drained forward, reversed and "
        "mixed. family par/pools: Steps/Steps2D collect/enumerate/rev, every JointSpectrum::*_range on 5 range representations, "
        "Simpson integrate/integrate2d, counts_*, hom_rate and nested regions under rayon pools {1,2,4,8}×2 / {1,2,3,4,8,16}×5 reps. "
        "family par/sweep (both tiers): hom_rate, hom_rate_series (synthetic amplitude arrays), SPDC::hom_rate_series, hom_visibility, "
        "counts_*, efficiencies on grids n×n for n = 1..12 plus non-square and larger shapes, Simpson 1-D divs 128..256 and 2-D divs "
        "4..24(64), rayon adaptors (skip/take/rev/enumerate/zip/chain/interleave/step_by/chunks/with_min_len/with_max_len …) through both "
        "producers on counts 0,1,2,… with ascending/descending/equal endpoints, every Integrator variant inside range evaluation and "
        "count rates, exact-size contract after every pull — each under EVERY pool size 1..16 against the 1-thread result at 1e-12 / "
        "bit-wise, and the 1-thread batch once more at the end (history independence). family iterprog: programs of std Iterator / "
        "DoubleEndedIterator / ExactSizeIterator calls (nth, nth_back, skip, step_by, take, rev, len, count, last, fold, zip, peekable … "
        "≤ 12 calls, ≤ 2 nested adaptors on the concrete type) on Iterator2D::new_partition(g, lo, hi) for every kind of window and on "
        "Producer::into_iter of split pieces of both producers, against the same program on Vec::into_iter() over the piece's points "
        "(what rayon's step_by/skip/take/rev/zip adaptors do to a split-off piece); primitive programs against the Lean state machine (K part2_prog). "
        "sweep also: piecewise integrands whose jumps sit exactly ON the sample points of the rule (staircase counting the nodes <= x, long-pass "
        "edges, top-hat windows; 2-D staircase and quadrant edge) through Simpson 1-D divs 50..1000(4000) on four intervals and 2-D divs 8..40(130) "
        "on two rectangles; flat SignalIdlerWavelengthArray / SignalIdlerFrequencyArray lists of 0, 1, 2, 3, 4, 5, 7, ... 1001 (20001) entries, odd "
        "counts included: parallel traversal = sequential traversal, *_range = sequential point-by-point evaluation, on every pool size 1..16")
RESIDUAL = ("(a) floating-point re-association error of parallel sums and rounding drift of re-derived 1-D sub-range endpoints: "
            "measured (≤ 1e-12 / ≤ 1e-14), exact-arithmetic invariance is proved; (b) deadlock freedom of nested regions is a "
            "property of rayon's work-stealing scheduler: observed under a time cap only; (c) which split trees rayon requests "
            "is not modelled — the theorems hold for every tree the Producer contract allows")
CHECKER_MODULES = ["Spdc.Real.GridLemmas", "Spdc.Real.GridProgLemmas"]
TRUSTED_EXTRA = ["rayon 1.12 bridge/scheduler: requests only split indices 0 ≤ k ≤ len (Producer contract) and joins without deadlock"]
ASSUMPTIONS = [
    "1-D tolerance '1e-14 relative' is read relative to the range scale max(|start|,|end|) (a point of the range may be exactly 0)",
    "'bit-identical arrays' is demanded of every *_range function whose per-point evaluation is sequential (all of them under a "
    "Gauss-Legendre integrator; jsa/jsi under Simpson with divs < 128); the jsi_singles_* functions under Simpson evaluate each "
    "point by simpson2d, itself a parallel quadrature sum, and are held to the reductions clause (1e-12 relative per element; "
    "elements below 1e-3 of the array's peak relative to 1e-3*peak) — measured worst 4e-14",
    "random split trees are capped at depth 400 (rayon's bridge bisects: depth <= ceil(log2 len)); degenerate chains of depth "
    ">= ~6800 on 10^4-point ranges drift by 1.003e-14..1.007e-14 of the range scale (measured with the extra argument depth=10000)",
]


def families(tier, seed):
    n = 160 if tier == "quick" else 1200
    m = 150 if tier == "quick" else 3000
    return [("par", seed, n, ["split"]), ("par", seed, n, ["pools"]), ("par", seed, n, ["sweep"]), ("iterprog", seed, m, [])]
