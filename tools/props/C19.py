ID = "C19"
DESIGN_REF = "DESIGN.md §3 C19"
TECHNIQUE = ("Lean 4 theorems over a hand-written executable model of periodic_poling.rs (window formulas, interpolation with its "
             "ceil/floor/lerp logic, domain list, period/apodization state machine with induction over op sequences), tied to the code "
             "by an ulp-level correspondence run and a predicate search with the statement's clauses")
LEVEL_TEXT = ("Proved over the real-arithmetic model: the seven built-in windows at width 1 are even, equal 1 at the centre and stay in "
              "[0,1] on [-1,1]; the Gaussian is 1/2 at z = ±fwhm/L; interpolation returns the end samples at z = ∓1, the samples at the "
              "nodes and is linear between them, never indexing out of range; the domain list has ⌈L/Λ⌉ entries whose fractions lie in "
              "[0,1], sum to 1 and satisfy sin(πd) = |a| with d ≤ 1/2, (1/2,1/2) without apodization, orientation flipping at the centre; "
              "every sequence of period/apodization updates preserves the sign convention and the other attribute.")
LEVEL_NOTE = ("Model fidelity is checked by correspondence (≤ 8 ulp on window values and domain fractions, exact on counts, signs and kinds), "
              "not proved. Theorems are over ℝ; rounding (e.g. Blackman's −1.4e-17 at z = ±1, acos conditioning near a = 0) is measured only.")
OPS = {"apod", "apod_cfg", "pp_seq", "num_domains", "domains", "domain_lengths"}
TOL = {"apod": ("ulp", 8), "apod_cfg": ("ulp", 1), "pp_seq": ("ulp", 1), "domains": ("ulp", 8), "domain_lengths": ("ulp", 8)}
DEFAULT_TOL = ("exact",)
# the model of `num_domains` IS the statement's closed form ⌈L/Λ⌉ (same float division): a disagreement is a failing input
REFERENCE_OPS = {"num_domains": ("C19.domains", "domains/count")}
RULE = ("family poling: a fixed lattice of kinds × widths × edge positions, then seeded random kinds/widths/positions (incl. ±1, ±0, "
        "just outside, infinities ⇒ panic class); 401/4001 positions per window for the evenness/range clauses; random sample lists for "
        "interpolation; periods giving 1…10^5 domains (exact multiples included) × all window kinds; random op sequences of length 1–8 "
        "over {new, with_period, assign_period, set_apodization, with_apodization} with zero, negative, infinite and extreme periods; "
        "3 of 4 periods come from a small per-sequence pool of magnitudes with random signs (exact repeats and pure sign flips), "
        "sequences 1–12 ops; SPDC::assign_poling_period / with_poling_period histories on the same pool; crystal lengths "
        "|Λ|·(N+f) with N whole periods in every decade up to 10^5 (weighted to 3·10^4…10^5) and a remainder f log-uniform in "
        "1e-9…0.5, just below 1, uniform or exactly 0, the poling description reached through every constructor/mutator: count of "
        "num_domains / poling_domains / poling_domain_lengths against ⌈L/Λ⌉ in the same float division and against N+1 where the "
        "exact quotient is unambiguous")
RESIDUAL = "floating-point rounding of the window values and of acos(1−2a²) (measured by the comparison, not proved)"


def families(tier, seed):
    n = 1200 if tier == "quick" else 30000
    return [("poling", seed, n, [])]
