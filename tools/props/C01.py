ID = "C01"
DESIGN_REF = "DESIGN.md §3 C01"
TECHNIQUE = ("Lean 4 theorems over a hand-written executable model of src/crystal/*.rs (11 Sellmeier formulas in coded operation "
             "order, generic SellmeierStandard / thermo-optic evaluators, META table, id parser), tied to the code by a "
             "correspondence run (indices within 8 ulp, metadata/ids exact) plus a predicate search on a dense wavelength grid")
LEVEL_TEXT = ("Proved over the real-arithmetic model for all 11 crystals: metadata well-formedness (windows inside 100 nm–20 µm, "
              "unique ids, parse/print round trip), the temperature laws (independence, linearity about 20 °C, Gayer law and its "
              "reference point), strict decrease of every principal index in wavelength over the whole declared window at every "
              "temperature in [−50, 200] °C, the bounds 1 < n < 4 and the declared optical class; the Float run of the same "
              "definitions is compared with CrystalType::get_indices within 8 ulp.")
LEVEL_NOTE = ("Model fidelity is checked, not proved (correspondence on window edges ±2 ulp, the KTP 1.2 µm branch, log-spaced and "
              "round-nm wavelengths × fixed and random temperatures; metadata, ids, serde exhaustively; CrystalType::Expr built from the same "
              "formulas against the same model). Observed agreement of built-in indices: bit-exact. The model's coefficient "
              "table is the reference for 'the published equation' (cross-read against the crate's doc comments; no network). "
              "Theorems are about real arithmetic; rounding is measured only. No lower-layer inputs are passed in.")
OPS = {"indices", "indices_expr", "meta", "all_meta", "from_string", "from_string_hex", "parse_form", "to_string", "serde"}
TOL = {"indices": ("ulp", 2), "indices_expr": ("ulp", 16)}
DEFAULT_TOL = ("exact",)
# the model of these ops IS "the crystal's published Sellmeier and thermo-optic equation": a disagreement is a failing input
REFERENCE_OPS = {"indices": ("C01.published", lambda body: "published/" + body.split()[1]),
                 "indices_expr": ("C01.published_expr", lambda body: "published_expr/" + body.split()[1])}
RULE = ("family crystal: per crystal window edges ±2 ulp and 1.2 µm ±3 ulp × T∈{−50,20,24.5,200} °C; boundary wavelengths (edges, 1 ulp "
        "inside, 1.2 µm ± ulps, whole µm) × 78 special temperatures (fine grid around 20 and 24.5 °C incl. ±1 ulp, range ends); "
        "every API route to the crystal (from_string, FromStr, serde, CrystalConfig JSON → CrystalSetup, hand-built setup; five "
        "routes per expression crystal) bit-identical to the direct call; n log-spaced jittered "
        "wavelengths and n/4 round-nm wavelengths × fixed/random T; 13 user expressions (CrystalType::Expr transcribed from the "
        "same formulas, KTP one per n_y branch) evaluated on ONE shared 2n-point (λ,T) grid, interleaved crystal by crystal per point "
        "(second half in reverse crystal order), each against the built-in on the real code (16 ulp) and against the model; a sample "
        "of ≤ 12 000 earlier evaluations re-evaluated at the end newest-first then oldest-first, bit-exact (history independence); all META records, ids, near-miss id strings, serde; every expression crystal in ~60 textual layouts (strict JSON compact / pretty / doc-example layout / leading-trailing "
        "whitespace, newlines, tabs, CRLF / key order / spaced formulas; HJSON trailing commas, quoteless keys and values, comments, single quotes; the "
        "`name = expression` line form in its layouts) through from_string, FromStr and — strict JSON — serde_json and CrystalConfig: documented layouts must "
        "build the crystal and return bit-identical indices to the compact form and the built-in's within 16 ulp (C01.text_forms), accept/reject outcome of "
        "every layout against the model's table (parse_form); identifiers with whitespace / case / quotes against the model's exact-match parser (from_string_hex); predicate grid 2 000 (quick) / 50 000 (thorough) "
        "wavelengths per crystal and temperature (4 fixed + 2/6 random), temperature law on 300/4 000 random (λ, T) per crystal")
CHECKER_MODULES = ["Spdc.Real.CrystalLemmas", "Spdc.Real.CrystalAxes", "Spdc.Real.CrystalCert", "Spdc.Real.CrystalClass"]
TRUSTED_EXTRA = ["tools/c01_cert.py only proposes partition points (untrusted); every chain is re-evaluated by the Lean kernel (decide +kernel on the ℚ instance of the model)",
                 "meval / serde_json / deser-hjson (expression crystals) are exercised, not modelled"]
RESIDUAL = ("floating-point rounding of the indices (measured by the comparison, not proved); agreement of the coefficient table with "
            "the printed literature (cross-read against the crate's own doc comments only)")


def families(tier, seed):
    n = 400 if tier == "quick" else 20000
    return [("crystal", seed, n, [])]
