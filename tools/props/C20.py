ID = "C20"
DESIGN_REF = "DESIGN.md §3 C20"
TECHNIQUE = ("Lean 4 theorems over a hand-written executable model of SPDC::try_as_optimum, JointSpectrum::new, the "
             "normalised accessors and SPDCIter::jsi_values(_normalized) in which the numeric sub-routines are parameters "
             "(structural rewriting; field algebra over R/C for |sqrt(n) a / c|^2 = n|a|^2/c^2), tied to the code by a "
             "correspondence run that feeds the model the values the real sub-routines returned, plus a predicate search "
             "of the statement on the real code")
LEVEL_TEXT = ("Proved over the model for every deterministic choice of the sub-routines: optimising twice equals optimising once "
              "(the second pass hands every sub-routine the arguments of the first; the one argument that changes, the crystal "
              "angle seen by optimum_theta, is an explicit hypothesis), each normalised accessor is the raw accessor divided by "
              "the reference of the optimised clone, jsi_normalized = |jsa_normalized|^2, an optimised setup has normalised "
              "intensity 1 and normalised amplitude of modulus 1 at its centre, and the normalised sweep is the raw sweep "
              "divided by the base setup's reference. The wiring of the model is compared exactly with the implementation; "
              "the accessors within 8 ulp.")
LEVEL_NOTE = ("Layered correspondence: K `opt` takes as inputs the results of the real optimum_theta / optimum_poling_period / "
              "IdlerBeam::try_new_optimum / optimal_waist_position / Beam::set_angles for every candidate argument tuple (reset and "
              "unreset signal, old and new crystal angle, old and new poling, old and new idler); K `js_acc` and `sweep` take the "
              "real jsa_raw, jsi_singles_raw, jsi_normalization, jsi_singles_normalization values at the point and at the optimum's "
              "centre; K `idler_opt` takes the two refractive indices. Existence and convergence of the optimum (C04/C17) are not "
              "claimed. Model fidelity is checked, not proved; theorems are over R/C, rounding is measured only.")
OPS = {"opt", "idler_opt", "js_acc", "sweep"}
TOL = {"opt": ("exact",), "idler_opt": ("ulp", 8), "js_acc": ("ulp", 8), "sweep": ("ulp", 8)}
DEFAULT_TOL = ("exact",)
RULE = ("family optimum: SPDC::default() then seeded random configurations (11 crystals x 5 phase-matching types x poling off/on "
        "(auto or explicit period, apodised or not) x collinear / non-collinear (internal or external angle, any azimuth) x waists "
        "20-1000 um x waist positions auto/explicit x idler auto / explicit conjugate / explicit non-conjugate x forward and "
        "(poling on) counter-propagating), built through SPDCConfig::try_as_spdc; per setup: wiring case, idempotence, centre = 1, "
        "3 (quick) / 5 (thorough) frequency pairs x 7 normalised accessors, every third setup a 2-property sweep of <= 3x3 steps; every second setup (and its optimum) a SEQUENCE on one thread: "
        "2-4 spectra of the same setup built back to back with integrators drawn (random order) from Simpson-6/50/200, GL-4/40, "
        "adaptive Simpson, optionally interleaved with optimum_range, built first and checked afterwards against references "
        "evaluated with the same integrator, centre = 1 for each; 40 (setup, integrator) samples re-built at the end of the run "
        "(bit-identical where all sums are sequential); "
        "integrator drawn from Simpson-10/20/50, Gauss-Legendre-8/20; "
        "every second setup AND its optimum EDITED IN PLACE through the public fields / mutators (crystal_setup.pm_type = another "
        "type, signal/idler/pump.set_polarization -> beams inconsistent with pm_type; idler retuned / re-aimed, signal external "
        "angle, crystal angles / temperature, poling switched on/off or re-assigned, with_swapped_signal_idler, explicit waist "
        "positions; one or two edits) and optimised (again): wiring case (K opt), idempotence, kept, C20.auto (waist positions / "
        "idler / crystal angle or poling = the automatic ones of the RESULT'S OWN beams, via with_optimal_waist_positions, "
        "optimal_waist_position, optimum_idler, optimum_crystal_theta, optimum_periodic_poling), centre = 1 incl. singles; "
        "every third setup a sweep over an INTERACTING pair (signal/idler.theta_external_deg or poling_period_um with a property "
        "its setter reads, both orders, external angles 0.2-5 deg, ranges near the base values), any two of the 25 named paths, "
        "or user closures for SPDCIter::new (relative steps): each cell normalised = raw / reference (1e-12), = the value of a "
        "setup built individually from a fresh clone of the base (1e-9), = a one-cell sweep of that cell (1e-12); K sweep")
RESIDUAL = ("existence of an optimised version (the unwrap() in JointSpectrum::new / jsi_values_normalized panics when there is none: "
            "C17) and convergence of the two simplex searches (C04); setups whose optimum has a zero or non-finite reference are "
            "skipped and counted; floating-point rounding (measured by the comparison, not proved)")
ASSUMPTIONS = ["the sub-routines called by try_as_optimum are deterministic functions of their arguments (no hidden state)"]
CHECKER_MODULES = ["Spdc.Real.Optimum"]


def families(tier, seed):
    n = 150 if tier == "quick" else 4000
    return [("optimum", seed, n, [])]


# ------------------------------------------------------------------------------------------------------------------------------
# COMPOSED model, part 2 (branch compose; Model/ComposeAuto.lean, notes/compose.md) — purely additive block.
OPS = set(OPS) | {'cmpa_as_optimum'}
TOL = dict(TOL)
TOL.update({'cmpa_as_optimum': ('ulp', 4)})
RULE += ' | family compose/c20: the same primitive-setup generator; SPDC::try_as_optimum of the setup rebuilt from the primitives, and once more of the optimum rebuilt from ITS primitives (crystal angle, all three beams, signed period, both waist positions, outcome class)'
LEVEL_NOTE += ' COMPOSED MODEL part 2 (notes/compose.md): the cmpa_* K ops carry NO value computed by the real crate — only the configuration descriptor (what is written into the JSON) or the primitive setup; Spdc.Model.ComposeAuto computes the Snell inverse, the poling sign, the optimum poling period, the optimum crystal angle (Nelder–Mead model NM1D.run on cost closures built from the composed Δk, incl. the simplex nested in the angle cost), the optimum idler and the optimal waist positions itself (`composedExt`), then try_as_spdc / try_as_optimum on top. Observed: outcome classes (OK / ERR:class / PANIC) identical on every case, every optimiser result bit-for-bit (0 ulp; no divergence of a simplex path in 3 seeds × 1500 cases per mode), deff ≤ 2 ulp (the Cfg layer folds PICO/V first).'
CHECKER_MODULES = list(globals().get("CHECKER_MODULES", [])) + ["Spdc.Real.ComposeLemmas", "Spdc.Real.ComposeAutoLemmas"]
_families_before_compose_auto = families


def families(tier, seed):
    return _families_before_compose_auto(tier, seed) + [("compose", seed, 250 if tier == "quick" else 4000, ["c20"])]


# ------------------------------------------------------------------------------------------------------------------------------
# COMPOSED model, part 3 — grid level (branch compose; Model/ComposeGrid.lean, notes/compose.md "Part 3") — purely additive block.
# The cmpg_* K lines carry ONLY the primitive setup, the range (kind F/W/SD, endpoints, step counts), the Simpson division count
# and the delays; Spdc.Model.ComposeGrid recomputes everything (JointSpectrum::new through the composed try_as_optimum, the
# spectra on the grid, group indices, correction factor, rates, HOM, Schmidt number) through all layers.
import os as _os3
import sys as _sys3
_sys3.path.insert(0, _os3.path.dirname(_os3.path.abspath(__file__)))
import _pmtol  # noqa: F401,E402  (tolerance kind "csum": |Δ| relative to the absolute quadrature scale printed next to the value)
OPS = set(OPS) | {'cmpg_jsa_normalized_range', 'cmpg_jsi_normalized_range', 'cmpg_jsi_singles_normalized_range'}
TOL = dict(TOL)
TOL.update({'cmpg_jsa_normalized_range': ('csum', 5e-14), 'cmpg_jsi_normalized_range': ('csum', 1e-13), 'cmpg_jsi_singles_normalized_range': ('rel', 1e-06)})
RULE += " | family compose/c20n: the primitive-setup generator of parts 1-2 (11 crystals x 5 PM types, poled/unpoled, collinear/non-collinear, idler auto/explicit, 2/3 phase-matched) x a range around the centre frequencies (half-width 0.3-6 pump spectral widths per axis, 1/4 displaced so that part of it leaves the support; shapes 1xn, nx1, rectangles, squares, now and then an empty axis) given as FrequencySpace, WavelengthSpace or SumDiffFrequencySpace x Simpson divs from {4 (panic path of JointSpectrum::new), 5, 6, 7, 8, 10, 12, 20}; half of the setups are the crate's optimum rebuilt from its primitives, half of those with a FrequencySpace whose first point is the optimum's own centre (normalised value 1): JointSpectrum::{jsa_normalized_range, jsi_normalized_range, jsi_singles_normalized_range} (centre values from JointSpectrum::new = composed try_as_optimum)"
LEVEL_NOTE += ' COMPOSED MODEL part 3 (notes/compose.md): the cmpg_* K ops carry NO value computed by the real crate — only the primitive setup, the range specification (FrequencySpace / WavelengthSpace / SumDiffFrequencySpace endpoints and step counts), the Simpson division count and the delays; Spdc.Model.ComposeGrid evaluates JointSpectrum::new (centre values through the composed try_as_optimum), the spectra over the grid in the row-major order of the crate, group indices / get_counts_correction, the dw^2 rectangle sums, hom_time_delay, the HOM sums and the trace-form Schmidt number on top of the composed jsa/jsi/jsi_singles. The real side builds the SPDC from exactly these primitives and calls the public API. Values governed by the oscillatory z-quadrature are compared relative to the absolute quadrature scale (kind csum), singles (rayon 2-D sums, order not fixed) at rel 1e-6.'
CHECKER_MODULES = list(globals().get("CHECKER_MODULES", [])) + [_m for _m in ["Spdc.Real.ComposeLemmas", "Spdc.Real.ComposeAutoLemmas", "Spdc.Real.ComposeGridLemmas"] if _m not in globals().get("CHECKER_MODULES", [])]
_families_before_compose_grid = families


def families(tier, seed):
    return _families_before_compose_grid(tier, seed) + [("compose", seed, 150 if tier == "quick" else 2500, ["c20n"])]
