ID = "C14"
DESIGN_REF = "DESIGN.md §3 C14"
TECHNIQUE = "Lean 4 theorems over a hand-written executable model of utils.rs/si_iterator.rs (induction on point count / Nat.div_add_mod / field identities), tied to the code by a bit-level correspondence run plus predicate search"
LEVEL_TEXT = ("Proved for all endpoints, all point counts and all shapes over the exact-arithmetic model (any field of "
              "characteristic 0; list structure for any scalar type): enumeration length/first/last/constant spacing, traversal "
              "from either end and any mixed front/back draining (partition invariant), positional access (nth / nth_back, on which "
              "skip/step_by/take rest) from any reachable state of the 1-D and 2-D iterators, row-major 2-D order with 1-D axis values, "
              "index-map inverses, wavelength↔frequency endpoints/ordering/round trip, sum/diff centre and counts, round trip "
              "identity iff equal spans (with a counter-example), transpose of every rows×cols shape (cols ≥ 1), flat-array "
              "re-chunking. The Float run of the same definitions is compared bit-for-bit (2-D values, indices, transpose) or "
              "within 2–4 ulp (1-D values, conversions) with the implementation.")
LEVEL_NOTE = ("Model fidelity is checked, not proved (correspondence on generated cases, exhaustive for counts ≤ 12 and shapes ≤ 12×12). "
              "Theorems are over ℝ/any field; floating-point rounding is measured only. Range evaluation (jsa/jsi/singles *_range) is "
              "checked implementation-against-itself.")
OPS = {"steps", "steps_drain", "steps_width", "steps2d", "steps2d_drain", "idx2", "idx1", "transpose",
       "conv_recip", "to_sumdiff", "from_sumdiff", "sd_points", "steps_prog", "steps2d_prog"}
TOL = {"steps": ("ulp", 2), "steps_drain": ("ulp", 2), "steps_width": ("ulp", 2), "steps_prog": ("ulp", 2),
       "conv_recip": ("ulp", 2), "to_sumdiff": ("ulp", 2), "from_sumdiff": ("ulp", 4), "sd_points": ("ulp", 4)}
DEFAULT_TOL = ("exact",)
RULE = ("family grid: exhaustive counts 0–12 × 6 endpoint pairs, 2-D counts 0–6², index maps cols 0–12, transposes of all shapes "
        "≤ 7×7 (quick) / 12×12 (thorough) and ragged lengths; then seeded random endpoints (zeros, ±0, huge, wavelength- and "
        "frequency-like) × counts; conversions on random bands. family iterprog: programs (≤ 12 calls, ≤ 2 nested consuming "
        "adaptors on the concrete crate type) of std Iterator / DoubleEndedIterator / ExactSizeIterator methods — next, next_back, "
        "nth, nth_back, len, size_hint, skip, step_by, take, rev, peekable, enumerate, zip, fuse, chain, cycle, find/rfind, "
        "position/rposition, any, count, last, collect, fold/rfold, for_each, max_by/min_by, by_ref() forms — on Steps, Steps2D, "
        "Iterator2D::new, the five into_signal_idler_iterator() routes, chain/zip of two partly consumed ranges, against the same "
        "program on Vec::into_iter() over the documented points: every boundary program (taken 0–4 from one end × jump 0..n+1 from "
        "the other, every stride 1..n+1) for counts 0–6 (quick) / 0–9 and grids ≤ 3×3 / 4×4, then seeded random ranges and programs "
        "(arguments 0, 1, n−1, n, n+1, usize::MAX …); primitive programs also against the Lean state machine (K steps_prog, steps2d_prog)")
RESIDUAL = "floating-point rounding of the grid values (measured by the comparison, not proved)"
CHECKER_MODULES = ["Spdc.Real.GridLemmas", "Spdc.Real.GridProgLemmas"]


def families(tier, seed):
    n = 600 if tier == "quick" else 20000
    m = 150 if tier == "quick" else 3000
    return [("grid", seed, n, []), ("iterprog", seed, m, [])]
