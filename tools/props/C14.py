ID = "C14"
DESIGN_REF = "DESIGN.md §3 C14"
TECHNIQUE = "Lean 4 theorems over a hand-written executable model of utils.rs/si_iterator.rs (induction on point count / Nat.div_add_mod / field identities), tied to the code by a bit-level correspondence run plus predicate search"
LEVEL_TEXT = ("Proved for all endpoints, all point counts and all shapes over the exact-arithmetic model (any field of "
              "characteristic 0; list structure for any scalar type): enumeration length/first/last/constant spacing, traversal "
              "from either end and any mixed front/back draining (partition invariant), row-major 2-D order with 1-D axis values, "
              "index-map inverses, wavelength↔frequency endpoints/ordering/round trip, sum/diff centre and counts, round trip "
              "identity iff equal spans (with a counter-example), transpose of every rows×cols shape (cols ≥ 1), flat-array "
              "re-chunking. The Float run of the same definitions is compared bit-for-bit (2-D values, indices, transpose) or "
              "within 2–4 ulp (1-D values, conversions) with the implementation.")
LEVEL_NOTE = ("Model fidelity is checked, not proved (correspondence on generated cases, exhaustive for counts ≤ 12 and shapes ≤ 12×12). "
              "Theorems are over ℝ/any field; floating-point rounding is measured only. Range evaluation (jsa/jsi/singles *_range) is "
              "checked implementation-against-itself.")
OPS = {"steps", "steps_drain", "steps_width", "steps2d", "steps2d_drain", "idx2", "idx1", "transpose",
       "conv_recip", "to_sumdiff", "from_sumdiff", "sd_points"}
TOL = {"steps": ("ulp", 2), "steps_drain": ("ulp", 2), "steps_width": ("ulp", 2),
       "conv_recip": ("ulp", 2), "to_sumdiff": ("ulp", 2), "from_sumdiff": ("ulp", 4), "sd_points": ("ulp", 4)}
DEFAULT_TOL = ("exact",)
RULE = ("family grid: exhaustive counts 0–12 × 6 endpoint pairs, 2-D counts 0–6², index maps cols 0–12, transposes of all shapes "
        "≤ 7×7 (quick) / 12×12 (thorough) and ragged lengths; then seeded random endpoints (zeros, ±0, huge, wavelength- and "
        "frequency-like) × counts; conversions on random bands")
RESIDUAL = "floating-point rounding of the grid values (measured by the comparison, not proved)"
CHECKER_MODULES = ["Spdc.Real.GridLemmas"]


def families(tier, seed):
    n = 600 if tier == "quick" else 20000
    return [("grid", seed, n, [])]
