ID = "C14"
DESIGN_REF = "DESIGN.md §3 C14"
TECHNIQUE = "Lean 4 theorems over a hand-written executable model of utils.rs/si_iterator.rs (induction on point count / Nat.div_add_mod / field identities), tied to the code by a bit-level correspondence run plus predicate search"
LEVEL_TEXT = ("Proved for all endpoints, all point counts and all shapes over the exact-arithmetic model (any field of "
              "characteristic 0; list structure for any scalar type): enumeration length/first/last/constant spacing, traversal "
              "from either end and any mixed front/back draining (partition invariant), positional access (nth / nth_back, on which "
              "skip/step_by/take rest) from any reachable state of the 1-D and 2-D iterators, row-major 2-D order with 1-D axis values, "
              "index-map inverses, wavelength↔frequency endpoints/ordering/round trip, sum/diff centre and counts, round trip "
              "identity iff equal spans (with a counter-example), transpose of every rows×cols shape (cols ≥ 1), flat-array "
              "re-chunking. The Float run of the same definitions is compared bit-for-bit (2-D values, indices, transpose) or "
              "within 2–4 ulp (1-D values, conversions) with the implementation.")
LEVEL_NOTE = ("Model fidelity is checked, not proved (correspondence on generated cases, exhaustive for counts ≤ 12 and shapes ≤ 12×12). "
              "Theorems are over ℝ/any field; floating-point rounding is measured only. Range evaluation (jsa/jsi/singles *_range) is "
              "checked implementation-against-itself.")
OPS = {"steps", "steps_drain", "steps_width", "steps2d", "steps2d_drain", "idx2", "idx1", "transpose",
       "conv_recip", "to_sumdiff", "from_sumdiff", "sd_points", "steps_prog", "steps2d_prog"}
TOL = {"steps": ("ulp", 2), "steps_drain": ("ulp", 2), "steps_width": ("ulp", 2), "steps_prog": ("ulp", 2),
       "conv_recip": ("ulp", 2), "to_sumdiff": ("ulp", 2), "from_sumdiff": ("ulp", 4), "sd_points": ("ulp", 4)}
DEFAULT_TOL = ("exact",)
RULE = ("family grid: exhaustive counts 0–12 × 6 endpoint pairs, 2-D counts 0–6², index maps cols 0–12, transposes of all shapes "
        "≤ 7×7 (quick) / 12×12 (thorough) and ragged lengths; then seeded random endpoints (zeros, ±0, huge, wavelength- and "
        "frequency-like) × counts; conversions on random bands. family iterprog: programs (≤ 12 calls, ≤ 2 nested consuming "
        "adaptors on the concrete crate type) of std Iterator / DoubleEndedIterator / ExactSizeIterator methods — next, next_back, "
        "nth, nth_back, len, size_hint, skip, step_by, take, rev, peekable, enumerate, zip, fuse, chain, cycle, find/rfind, "
        "position/rposition, any, count, last, collect, fold/rfold, for_each, max_by/min_by, by_ref() forms — on Steps, Steps2D, "
        "Iterator2D::new, the five into_signal_idler_iterator() routes, chain/zip of two partly consumed ranges, against the same "
        "program on Vec::into_iter() over the documented points: every boundary program (taken 0–4 from one end × jump 0..n+1 from "
        "the other, every stride 1..n+1) for counts 0–6 (quick) / 0–9 and grids ≤ 3×3 / 4×4, then seeded random ranges and programs "
        "(arguments 0, 1, n−1, n, n+1, usize::MAX …); primitive programs also against the Lean state machine (K steps_prog, steps2d_prog). "
        "family grid / range_setups: the eight *_range functions (idler-singles against the exchanged setup point by point) × five kinds of "
        "range × {grid around the centre, grid leaving the valid frequency box} on 12 kinds of setup built from JSON — idler block a copy "
        "of the signal block with two different waist positions (collinear, non-collinear, type 0, type I, one position auto), explicit "
        "non-copied idlers, auto idler, zero centre amplitude (optimum outside the 0.75·wp box, deff 0, power 0), NaN centre (zero pump "
        "bandwidth) — non-finite values compared as identical (NaN ≡ NaN)")
RESIDUAL = "floating-point rounding of the grid values (measured by the comparison, not proved)"
CHECKER_MODULES = ["Spdc.Real.GridLemmas", "Spdc.Real.GridProgLemmas"]


def families(tier, seed):
    n = 600 if tier == "quick" else 20000
    m = 150 if tier == "quick" else 3000
    return [("grid", seed, n, []), ("iterprog", seed, m, [])]


# ------------------------------------------------------------------------------------------------------------------------------
# COMPOSED model, part 3 — grid level (branch compose; Model/ComposeGrid.lean, notes/compose.md "Part 3") — purely additive block.
# The cmpg_* K lines carry ONLY the primitive setup, the range (kind F/W/SD, endpoints, step counts), the Simpson division count
# and the delays; Spdc.Model.ComposeGrid recomputes everything (JointSpectrum::new through the composed try_as_optimum, the
# spectra on the grid, group indices, correction factor, rates, HOM, Schmidt number) through all layers.
import os as _os3
import sys as _sys3
_sys3.path.insert(0, _os3.path.dirname(_os3.path.abspath(__file__)))
import _pmtol  # noqa: F401,E402  (tolerance kind "csum": |Δ| relative to the absolute quadrature scale printed next to the value)
OPS = set(OPS) | {'cmpg_points', 'cmpg_freq_space', 'cmpg_jsa_range', 'cmpg_jsi_range', 'cmpg_jsi_singles_range', 'cmpg_jsi_singles_idler_range'}
TOL = dict(TOL)
TOL.update({'cmpg_points': ('ulp', 4), 'cmpg_freq_space': ('ulp', 4), 'cmpg_jsa_range': ('csum', 5e-14), 'cmpg_jsi_range': ('csum', 1e-13), 'cmpg_jsi_singles_range': ('rel', 1e-06), 'cmpg_jsi_singles_idler_range': ('rel', 1e-06)})
RULE += " | family compose/c14g: the primitive-setup generator of parts 1-2 (11 crystals x 5 PM types, poled/unpoled, collinear/non-collinear, idler auto/explicit, 2/3 phase-matched) x a range around the centre frequencies (half-width 0.3-6 pump spectral widths per axis, 1/4 displaced so that part of it leaves the support; shapes 1xn, nx1, rectangles, squares, now and then an empty axis) given as FrequencySpace, WavelengthSpace or SumDiffFrequencySpace x Simpson divs from {4 (panic path of JointSpectrum::new), 5, 6, 7, 8, 10, 12, 20}: the range adapters (IntoSignalIdlerIterator points, Into<FrequencySpace> endpoints: no setup on the line), JointSpectrum::{jsa_range, jsi_range} on the range's own iterator, jsi_singles_range / jsi_singles_idler_range (explicit idler) on grids of <= 16 points"
LEVEL_NOTE += ' COMPOSED MODEL part 3 (notes/compose.md): the cmpg_* K ops carry NO value computed by the real crate — only the primitive setup, the range specification (FrequencySpace / WavelengthSpace / SumDiffFrequencySpace endpoints and step counts), the Simpson division count and the delays; Spdc.Model.ComposeGrid evaluates JointSpectrum::new (centre values through the composed try_as_optimum), the spectra over the grid in the row-major order of the crate, group indices / get_counts_correction, the dw^2 rectangle sums, hom_time_delay, the HOM sums and the trace-form Schmidt number on top of the composed jsa/jsi/jsi_singles. The real side builds the SPDC from exactly these primitives and calls the public API. Values governed by the oscillatory z-quadrature are compared relative to the absolute quadrature scale (kind csum), singles (rayon 2-D sums, order not fixed) at rel 1e-6.'
CHECKER_MODULES = list(globals().get("CHECKER_MODULES", [])) + [_m for _m in ["Spdc.Real.ComposeLemmas", "Spdc.Real.ComposeAutoLemmas", "Spdc.Real.ComposeGridLemmas"] if _m not in globals().get("CHECKER_MODULES", [])]
_families_before_compose_grid = families


def families(tier, seed):
    return _families_before_compose_grid(tier, seed) + [("compose", seed, 200 if tier == "quick" else 3000, ["c14g"])]
