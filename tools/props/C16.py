ID = "C16"
DESIGN_REF = "DESIGN.md §3 C16"
TECHNIQUE = ("Lean 4 theorems over a hand-written executable model of src/spdc/config/*.rs, pm_type.rs, polarization_type.rs and "
             "math::sigfigs (finite tables by `decide`, control flow by case analysis, rounding/unit identities over ℝ); model tied to the "
             "code by a descriptor-protocol correspondence run (JSON rendered for SPDC::from_json on the implementation side) plus the "
             "statement's predicates on the real code")
LEVEL_TEXT = ("Proved over the model: print→parse identity, documented spellings, polarization tables, inverse (all PM types, `decide`); "
              "soundness of the regex-equivalent matcher (any accepted string ends in the signal/idler letters and carries the pump letter); "
              "every numeric field of the back-conversion is sigfigs(physical value / unit); sigfigs idempotent; config→setup→config is a "
              "fix-point over ℝ under explicit hypotheses (angles not rounded across their wrap, waist positions ≤ 0, stable sign oracle); "
              "each \"auto\" field is the corresponding sub-routine's value on the setup assembled so far; serde defaults table.")
LEVEL_NOTE = ("The numeric sub-routines (Snell inversion, sign of Δk_z, optimum period / angle / idler, optimal waist position) are parameters of "
              "the model (`Ext`); on correspondence lines their concrete results are passed in from explicit public calls on the real code "
              "(layered correspondence). Model fidelity is checked, not proved. JSON loss-freeness (ryu / serde_json) and the float shadow of the "
              "ℝ fix-point (1e-9 relative) are observed by the predicate search only.")
OPS = {"pm_parse", "pol_parse", "pm_table", "try_as_spdc", "as_config", "sigfigs"}
TOL = {"try_as_spdc": ("rel", 1e-9), "as_config": ("ulp", 2)}
DEFAULT_TOL = ("exact",)
RULE = ("family pmtype: all tables, documented spellings, structured templates prefix×sep×digit×sep×P×mid×S×I×suffix (sampled in quick, "
        "exhaustive in thorough), random strings ≤ 12 over a 25-letter alphabet incl. non-ASCII blanks and case-fold look-alikes, one-edit "
        "mutants of valid spellings; family config[valid]: seeded descriptors over 11 crystals × 5 types × spellings × auto/explicit/absent "
        "combinations × poling/apodization variants, each through try_as_spdc, as_config, second conversion, JSON, auto-vs-explicit, defaults")
RESIDUAL = ("JSON loss-freeness is third-party behaviour (observed); the 1e-9 float fix-point is observed (the ℝ fix-point is proved under "
            "explicit hypotheses); crystal identifiers are checked on the real code only (table owned by C01)")
ASSUMPTIONS = ["the regex crate's Unicode classes: \\s = White_Space, `.` = any scalar but LF, (?i) on t,y,p,e,o = ASCII case pairs"]


def families(tier, seed):
    if tier == "quick":
        return [("pmtype", seed, 600, []), ("config", seed, 1500, ["valid"])]
    return [("pmtype", seed, 6000, []), ("config", seed, 20000, ["valid"])]


# ------------------------------------------------------------------------------------------------------------------------------
# COMPOSED model, part 2 (branch compose; Model/ComposeAuto.lean, notes/compose.md) — purely additive block.
import os as _os
import sys as _sys
_sys.path.insert(0, _os.path.dirname(_os.path.abspath(__file__)))
import _pmtol  # noqa: F401,E402  (adds the complex-aware tolerance kind "csum" used by cmpa_jsi_from_config)
OPS = set(OPS) | {'cmpa_jsi_from_config', 'cmpa_from_config'}
TOL = dict(TOL)
TOL.update({'cmpa_from_config': ('ulp', 4), 'cmpa_jsi_from_config': ('csum', 1e-13)})
RULE += " | family compose/c16: the config family's valid-descriptor generator rendered to JSON for SPDCConfig → try_as_spdc; the model recomputes outcome and every field of the setup from the descriptor ALONE (auto crystal angle, auto/explicit poling period with computed sign, auto idler, auto waist positions, external signal/idler angles), and JointSpectrum::jsi at the centre and a detuned pair (Simpson 10/20/50)"
LEVEL_NOTE += ' COMPOSED MODEL part 2 (notes/compose.md): the cmpa_* K ops carry NO value computed by the real crate — only the configuration descriptor (what is written into the JSON) or the primitive setup; Spdc.Model.ComposeAuto computes the Snell inverse, the poling sign, the optimum poling period, the optimum crystal angle (Nelder–Mead model NM1D.run on cost closures built from the composed Δk, incl. the simplex nested in the angle cost), the optimum idler and the optimal waist positions itself (`composedExt`), then try_as_spdc / try_as_optimum on top. Observed: outcome classes (OK / ERR:class / PANIC) identical on every case, every optimiser result bit-for-bit (0 ulp; no divergence of a simplex path in 3 seeds × 1500 cases per mode), deff ≤ 2 ulp (the Cfg layer folds PICO/V first).'
CHECKER_MODULES = list(globals().get("CHECKER_MODULES", [])) + ["Spdc.Real.ComposeLemmas", "Spdc.Real.ComposeAutoLemmas"]
_families_before_compose_auto = families


def families(tier, seed):
    return _families_before_compose_auto(tier, seed) + [("compose", seed, 400 if tier == "quick" else 6000, ["c16"])]
