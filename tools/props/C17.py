ID = "C17"
DESIGN_REF = "DESIGN.md §3 C17"
TECHNIQUE = ("Lean 4 case analysis on the executable model of SPDCConfig::try_as_spdc in which every unwrap()/guard is an explicit "
             "Outcome.panic / Outcome.err; outcome classes tied to the code by the descriptor-protocol correspondence over a malformed "
             "configuration stream; the statement's predicates (catch_unwind, finiteness, listed errors) on the real code")
LEVEL_TEXT = ("Proved over the model for every configuration and every behaviour of the numeric sub-routines that does not itself panic: "
              "try_as_spdc never reaches a panic exit (the three unwrap sites are unreachable behind the early λs ≤ λp error); the listed "
              "configurations are errors (both/neither signal angle, auto crystal angle with poling, λs ≤ λp whatever is auto, a period "
              "the optimiser rejects); on Ok every field is a unit multiple of a config value or a sub-routine result, and poling is off "
              "exactly when the configuration says so. The pinned-tree flow (no early guard) is proved to panic on the witnesses.")
LEVEL_NOTE = ("Panics inside the numeric sub-routines themselves (argmin's Nelder–Mead on NaN costs) are outside the model: they are searched "
              "for on the real code and reported with the failing configuration. Finiteness of spectra/rates/HOM is observed only.")
OPS = {"try_as_spdc"}
TOL = {"try_as_spdc": ("rel", 1e-9)}
DEFAULT_TOL = ("exact",)
RULE = ("family config[malformed]: valid descriptors with 1–3 boundary/invalid edits out of 16 kinds (both/no signal angle, auto θ with poling, "
        "λs ≤ λp inside the window, short crystal with auto period, angles ±400°, θ_crystal = 0 with 1e-9…0.1° non-collinear signal, "
        "zero/negative length, waist, bandwidth, power, odd periods, temperatures, deff), plus the valid stream and short-crystal auto-period cases; "
        "every auto field (crystal angle, idler, waist positions, poling period) in 12 spellings the deserialiser accepts (any JSON string), "
        "in each of the four listed error rules and in valid configurations, through JSON and through AutoCalcParam::Auto(String) in Rust")
RESIDUAL = "finiteness of spectrum / rate / HOM values on constructed setups is observed on a 3×3 in-window grid, not proved"


def families(tier, seed):
    n = 1500 if tier == "quick" else 20000
    return [("config", seed, n, ["malformed"])]


# ------------------------------------------------------------------------------------------------------------------------------
# COMPOSED model, part 2 (branch compose; Model/ComposeAuto.lean, notes/compose.md) — purely additive block.
OPS = set(OPS) | {'cmpa_from_config'}
TOL = dict(TOL)
TOL.update({'cmpa_from_config': ('ulp', 4)})
RULE += " | family compose/c17: the config family's malformed stream through the same op (outcome class incl. PANIC and every field on OK, from the descriptor alone)"
LEVEL_NOTE += ' COMPOSED MODEL part 2 (notes/compose.md): the cmpa_* K ops carry NO value computed by the real crate — only the configuration descriptor (what is written into the JSON) or the primitive setup; Spdc.Model.ComposeAuto computes the Snell inverse, the poling sign, the optimum poling period, the optimum crystal angle (Nelder–Mead model NM1D.run on cost closures built from the composed Δk, incl. the simplex nested in the angle cost), the optimum idler and the optimal waist positions itself (`composedExt`), then try_as_spdc / try_as_optimum on top. Observed: outcome classes (OK / ERR:class / PANIC) identical on every case, every optimiser result bit-for-bit (0 ulp; no divergence of a simplex path in 3 seeds × 1500 cases per mode), deff ≤ 2 ulp (the Cfg layer folds PICO/V first).'
CHECKER_MODULES = list(globals().get("CHECKER_MODULES", [])) + ["Spdc.Real.ComposeLemmas", "Spdc.Real.ComposeAutoLemmas"]
_families_before_compose_auto = families


def families(tier, seed):
    return _families_before_compose_auto(tier, seed) + [("compose", seed, 1500 if tier == "quick" else 20000, ["c17"])]
