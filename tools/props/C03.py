ID = "C03"
DESIGN_REF = "DESIGN.md §3 C03"
TECHNIQUE = ("Lean 4 theorems over a hand-written executable model of delta_k.rs / IdlerBeam::try_new_optimum / "
             "PeriodicPoling::k_eff (ring identity for the radicand, Real.cos_arcsin for the direction, periodicity of sin/cos "
             "for the azimuth normalisation), tied to the code by a bit-level correspondence run plus a predicate search that "
             "recomputes every wave vector independently")
LEVEL_TEXT = ("Proved for all real inputs of the model: Δk = kp − ks − ki − k_eff·ẑ with k_eff = ±2π/Λ (0 without poling, panic "
              "exactly for non-positive stored periods); the optimum idler has 1/λi = 1/λp − 1/λs, the polarization of the PM "
              "table, azimuth φs+π normalised to [0,2π), the signal's waist; its radicand is the squared norm of the scaled "
              "closing vector, and for a forward signal (0 ≤ θs < π/2, no counter-propagation) and a forward non-zero closing "
              "vector c its direction is exactly c/‖c‖; a collinear signal gives a collinear idler for every poling; the "
              "residual mismatch is (‖c‖ − |ki|)·dir_i; Err ⇔ λs ≤ λp and no panic (the direction theorem covers both signs of θs, |θs| < π/2, "
              "after the D90 repair). The Float run of the same definitions "
              "agrees with the implementation to ≤ 4 ulp (observed: bit-for-bit) on idler fields and Δk.")
LEVEL_NOTE = ("Layered: the refractive indices n_p, n_s, n_i (beam.refractive_index(ω, crystal_setup), i.e. C01/C02), the beams' "
              "angles/directions/frequencies as returned by the public getters, and the poling are INPUTS of the K ops; "
              "model fidelity is checked on generated cases, not proved. Theorems are over ℝ; rounding is measured only. "
              "The S predicates recompute wave vectors from first principles (own direction formula, CrystalSetup::index_along, "
              "n ω / c), also on SPDC objects after mutation histories (every idler-deriving route; K ties the object's idler to the model too). "
              "The K op dk_from_angles takes the beams' ANGLES (phi(), theta_internal()) instead of direction(): it ties the "
              "direction every wave vector of delta_k lies along to the angles the beam reports, after any history of setters. "
              "Counter-propagation and backward signal angles (|θs| > π/2) are tied by K only (outside the statement's "
              "quantifier).")
OPS = {"opt_idler", "delta_k", "k_eff", "dk_wavevector", "dk_from_angles"}
TOL = {"opt_idler": ("ulp", 4), "delta_k": ("rel", 1e-12, 1e-8), "k_eff": ("ulp", 2), "dk_wavevector": ("ulp", 4),
       "dk_from_angles": ("rel", 1e-12, 1e-8)}
DEFAULT_TOL = ("exact",)
RULE = ("family dk: 11 crystals × 5 PM types × crystal θ ∈ [0,π/2] (plus {0, π/2, any}) × φ × T 0–100 °C × in-window pump/signal "
        "wavelengths with idler in-window (¼ degenerate; ¼ hand-built beams whose polarizations are independent of the PM label) × |θs| ≤ 0.3 (incl. 0 and log-small; 1/5 negative, own signatures) × φs × "
        "poling {off, ±Λ log-uniform 0.3 µm–1 mm}; ¼ of the cases also through the SPDC object (SPDC::optimum_idler, SPDC::delta_k); "
        "plus K-only streams (counter-propagation, backward θs, φs ∈ [−7,13]) and the error stream λs ≤ λp (equal, swapped, 1e-12 below); "
        "n/12 sessions on ONE SPDC object: 2–7 rounds of 1–3 mutations (pm_type among all five with beam polarizations, signal "
        "wavelength/angles/azimuth incl. negative θs, signed poling, crystal orientation, crystal+wavelengths) each followed by a route "
        "that derives the idler (assign_optimum_idler ×2, with_optimum_idler, optimum_idler, try_as_optimum, as_config→idler:\"auto\"→"
        "try_as_spdc) and by ALL clauses on the resulting object (signatures route/<route>/<clause>), plus the λs ≤ λp error clause "
        "through the object's methods; n/40 one-parameter scan sessions (8-24 steps, exactly one of temperature / crystal θ / φ / length / pm "
        "type / pump λ / signal λ, θ, φ / poling period, sign, on-off / counter-propagation / crystal kind changes per step, all clauses "
        "after every step, centre and detuned frequency pair); n/60 JSON configs with idler auto + (crystal angle auto | poling auto) and "
        "a non-collinear signal through SPDC::from_json; finally up to 1500 recorded calls are re-evaluated in reverse and shuffled order "
        "and must reproduce Δk and the idler bit-for-bit; "
        "a third of the direct cases build the signal (or the pump) elsewhere and MOVE it to the case's target with the public setters "
        "(set_phi, set_theta_internal, set_angles, their two orders, set_vacuum_wavelength, set_frequency, set_polarization, "
        "with_polarization, set_waist, all at once); n/30 setter sessions on ONE SPDC object: 2–5 rounds of 1–3 public mutators out of 36 "
        "(signal: set_phi / set_theta_internal / set_theta_external / set_angles / set_vacuum_wavelength / set_frequency / "
        "set_polarization / with_polarization / set_waist; pump: wavelength / frequency / polarization / waist; the 14 sweep setter paths "
        "of SPDCIter on signal, pump, crystal and poling, applied through SPDCIter itself on a 1×1 grid; assign_/with_poling_period, "
        "assign_/with_optimum_crystal_theta, assign_/with_optimum_periodic_poling, with_swapped_signal_idler, "
        "assign_/with_optimal_waist_positions), the idler re-derived (try_new_optimum | optimum_idler | assign_optimum_idler | "
        "with_optimum_idler) and ALL clauses checked (route/after-<last mutator>/<clause>); then on a copy 1–3 of 15 mutators of the IDLER "
        "(set_phi, set_theta_internal, set_theta_external, set_angles, wavelength, frequency, polarization, the five idler.* sweep paths) or "
        "tilts of the pump (set_theta_internal, set_phi, set_angles, |θp| ≤ 0.1) and the mismatch clause alone (centre + detuned pair); "
        "every case and every object check also emits K dk_from_angles (Δk of the real code vs the model's Δk along "
        "direction_from_polar of the angles the getters report); "
        "WAISTS: every signal and pump waist of the family is a BeamWaist {x, y} drawn independently for signal and pump — 2/5 circular, "
        "3/5 elliptic (nearly circular 1e-12…1e-2, aspect 0.3–3, both axes independent) — through Beam::new and set_waist (also from a "
        "circular-x / swapped start), in the direct cases, route, scan (signal-waist / pump-waist alone) and setter sessions; the waist "
        "clause compares x AND y bit for bit on the idler of every route (also on SPDC::optimum_idler's result in the direct cases); JSON "
        "configs draw pump and signal waist_um independently; 3/20 of the setter-built direct cases leave the PUMP tilted "
        "(PumpBeam::new of a tilted beam, pump.set_angles / set_theta_internal+set_phi, |θp| ≤ 0.1): there the mismatch-definition clause "
        "and the scalar idler clauses apply (the closed-form idler direction is stated for a pump along z)")
RESIDUAL = "none beyond floating-point rounding (the index values are C01/C02's)"
ASSUMPTIONS = ["refractive indices are inputs of the model (layer C02)", "UCUM base values: M = RAD = 1.0, so x*M/RAD is the identity"]
CHECKER_MODULES = ["Spdc.Real.DeltaK"]


def families(tier, seed):
    n = 30000 if tier == "quick" else 300000
    return [("dk", seed, n, [])]


# ------------------------------------------------------------------------------------------------------------------------------
# COMPOSED end-to-end model (branch compose; Model/Compose.lean, notes/compose.md) — purely additive block.
# The K line of a cmp_* op carries the primitive setup only; the model recomputes beams, principal and direction-dependent
# indices, external angles, walk-off, k_eff, apodisation weights, wave vectors and Δk through all its layers.
# Observed: bit-for-bit on every op (0 ulp over 3 seeds × 3000 setups).
OPS = set(OPS) | {"cmp_beams", "cmp_swap_beams", "cmp_indices", "cmp_theta_ext", "cmp_waist_pos", "cmp_walkoff", "cmp_keff",
                  "cmp_apod", "cmp_wavevectors", "cmp_deltak"}
TOL = dict(TOL)
TOL.update({"cmp_beams": ("ulp", 4), "cmp_swap_beams": ("ulp", 4), "cmp_indices": ("ulp", 4), "cmp_theta_ext": ("ulp", 16),
            "cmp_waist_pos": ("ulp", 16), "cmp_walkoff": ("rel", 1e-12, 1e-12), "cmp_keff": ("ulp", 2), "cmp_apod": ("ulp", 8),
            "cmp_wavevectors": ("ulp", 8), "cmp_deltak": ("rel", 1e-12, 1e-8)})
RULE += ' | family compose/c03: random valid setups (11 crystals × 5 PM types, poled (8 window kinds, signed period) / unpoled, 2/3 phase-matched by the crate\'s optimum calls whose results become primitives, 2/3 non-collinear up to 3° external incl. negative internal angles and counter-propagation, waists 20 µm–3 mm (¼ elliptical), idler explicit (optimum read back or arbitrary) or "auto" (1/3: the model computes the optimum idler itself)): beams (angles, direction, frequency, wavelength, polarization, waist) of the setup and of its exchange, principal indices at λ(ωs), λ(ωi), λ(ωs+ωi), n_s(ωs), n_i(ωi), n_p(ωs+ωi), n_p(ωp), external angles, optimal waist positions, pump walk-off, k_eff, apodisation weights at 5 z, the three wave vectors and Δk at the centre and at one detuned pair'
LEVEL_NOTE += ' COMPOSED MODEL (notes/compose.md): the cmp_* K ops are NOT layered — their K line carries only the primitive setup (crystal id, angles, length, temperature, PM type, wavelengths, internal signal/idler angles, waists, waist positions, bandwidth, power, threshold, deff, signed poling period + window) and Spdc.Model.Compose recomputes the printed quantity through every layer model (Crystals → Index → Beam/Units → DeltaK → Poling → PM → Quad → Norm/Jsa → Singles); the real side is an SPDC rebuilt from exactly these primitives by Beam::new / PumpBeam::from / PeriodicPoling::new / SPDC::new (+ assign_optimum_idler for idler "auto"). Outside the composition (their RESULTS are primitives): Snell inverse, optimum_theta, optimum_poling_period.'
CHECKER_MODULES = list(CHECKER_MODULES) + ["Spdc.Real.ComposeLemmas"]
_families_layered = families


def families(tier, seed):
    return _families_layered(tier, seed) + [("compose", seed, 2500 if tier == "quick" else 30000, ["c03"])]
