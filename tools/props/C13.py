ID = "C13"
DESIGN_REF = "DESIGN.md §3 C13"
TECHNIQUE = ("Lean 4 theorems over a hand-written executable model of the Beam state machine (every setter as coded, incl. which "
             "ones refresh the cached direction), normalize_angle(_signed) via an exact fmod, direction_from_polar, forward Snell, "
             "unit conversions and optimal_waist_position; invariant proved for every op and lifted to all histories by induction; "
             "tied to the code by a bit-level op-sequence correspondence plus a predicate search on the real code")
LEVEL_TEXT = ("Proved over ℝ: normalisation ranges [0,2π) / (−π,π] and congruence mod 2π for every real argument; the invariant "
              "(direction = (sinθcosφ, sinθsinφ, cosθ), a unit vector, azimuth and polar angle in range) holds after Beam::new and is "
              "preserved by every mutation, hence after every finite history, with both angles congruent to the last requested values; "
              "a pump converted from any beam points along z; forward Snell sin θe = n·sin θi and θi ≤ θe for n ≥ 1; "
              "frequency/wavelength, Celsius/Kelvin and FWHM/waist conversions are mutually inverse, FWHM = 2√(2 ln 2)·σ, waist "
              "position = −L/(2n).")
LEVEL_NOTE = ("The internal-from-external Snell search (cost closure |sin θe − n(θ)·sin θ| + bounded 1-D Nelder–Mead, 100 iterations) is "
              "modelled on top of the NM1D model and tied by the snell_int op (bit-exact so far); in the setter state machine the search "
              "result is an INPUT of the setThetaExternal op (taken from the real Beam::calc_internal_theta_from_external). That the search "
              "converges (the 1e-5° read-back) is not a theorem: it is checked on the real code for all 11 crystals × orientations × "
              "polarisations × azimuths × θe ∈ [0°,80°]; readback_of_residual reduces it to the optimiser's residual. Principal indices are "
              "inputs of snell_ext / snell_int / waist_pos (layered correspondence). Model fidelity is checked, not proved.")
OPS = {"fmod", "norm_angle", "norm_angle_signed", "dir_from_polar", "beam_seq", "snell_ext", "snell_int", "waist_pos", "wavevector",
       "c2k", "k2c", "wl2freq", "freq2wl", "vac_wl2freq", "freq2vac_wl", "freq2wn", "wn2freq", "fwhm2sigma", "fwhm2waist", "waist2fwhm"}
TOL = {"fmod": ("exact",), "norm_angle": ("exact",), "norm_angle_signed": ("exact",), "dir_from_polar": ("ulp", 4),
       "beam_seq": ("ulp", 4), "snell_ext": ("ulp", 16), "snell_int": ("rel", 1e-9, 1e-12), "waist_pos": ("ulp", 64), "wavevector": ("ulp", 4)}
DEFAULT_TOL = ("ulp", 2)
RULE = ("family beam: fmod / normalize_angle(_signed) on special values (±0, kπ, 2π±1ulp, ±400°, ±1e-20, subnormals, f64::MAX) and "
        "seeded random finite arguments; direction_from_polar; random histories of 1–50 setter calls (set_phi, set_theta_internal, "
        "set_angles, set_theta_external on [−80°,80°], set_frequency, set_vacuum_wavelength, set_polarization, with_polarization, "
        "set_waist, PumpBeam::from) with the state compared after every call; set_theta_external read-back for 11 crystals × "
        "orientations × both polarisations × azimuths × θe ∈ [0°,80°], also on high-index expression crystals (n ≈ 2.8–3.9, uniaxial ± and "
        "biaxial, ZnGeP2) at steep angles; forward Snell, wavevector, waist position — also on SPDC objects whose beam polarisations, "
        "pm_type, wavelengths and crystal fields were set independently (set_polarization, pm_type assignment, SPDC::new with own beams, "
        "swaps) through assign/with_optimal_waist_positions, try_as_optimum, with_optimum_idler; unit conversions")
RESIDUAL = ("convergence of the 100-iteration simplex behind set_theta_external (the 1e-5° read-back is measured on the real code); "
            "f64 rem_euclid may return exactly 2π for tiny negative input (the statement's closed interval allows it; the ℝ theorem "
            "has the half-open one); congruence modulo 2π of huge float arguments is modulo f64's 2π")


def families(tier, seed):
    n = 2000 if tier == "quick" else 40000
    return [("beam", seed, n, [])]
