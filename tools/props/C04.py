ID = "C04"
DESIGN_REF = "DESIGN.md §3 C04"
TECHNIQUE = ("Lean 4 theorems over a hand-written executable model of nelder_mead_1d (argmin 0.10 two-vertex Nelder-Mead under the "
             "Cost1d bounds wrapper), optimum_poling_period, compute_sign and optimum_theta (induction over the executor loop for "
             "the best-vertex invariant; closed form of the collinear period cost), tied to the code by a bit-level correspondence "
             "run (the optimiser on shared cost families and on the recorded real cost closures) plus a predicate search")
LEVEL_TEXT = ("Proved for all real inputs of the model: one Nelder-Mead iteration on a NaN-free cost never fails, keeps the simplex sorted "
              "and never increases the best vertex's cost; nelder_mead_1d therefore returns a value whose bounded cost is <= that of both "
              "seeds and which lies inside [lo,hi] as soon as one seed does with finite cost; optimum_poling_period: Ok(L) => sign L = "
              "sign of the unpoled dkz, MIN_POSITIVE <= |L| < crystal length (1 - 1e-9); Err for every cost closure when 2pi/|z| - 1e-6 > L; "
              "Ok(inf) iff z = 0; collinear signal (cost |z - k_eff(L)|): the returned period is exactly 2pi/z whenever 2pi/|z| < L (1 - 1e-9); "
              "optimum_theta in [0, pi/2] when the cost is finite at the seed pi/6; the |dkz| L/2 < 1e-3 clause with the optimiser's "
              "convergence as an explicit hypothesis (dkz_bound_partial). The Float run of the same definitions agrees bit-for-bit with "
              "nelder_mead_1d (result, number of cost evaluations, xor of evaluated points), optimum_poling_period, compute_sign and "
              "optimum_theta.")
LEVEL_NOTE = ("Layered: the unpoled mismatch z, the crystal length and the cost closures (|dkz| as a function of period / crystal "
              "angle, recorded from closures rebuilt from the public API) are INPUTS of the K ops for optimum_poling_period / "
              "optimum_theta; for collinear signals the model computes the period cost itself from z. Convergence of the simplex "
              "on non-collinear period problems and on the angle problem is runtime numerics: searched by the S predicates, not proved.")
OPS = {"nm1d", "nm1d_tab", "opt_period_col", "opt_period_tab", "compute_sign", "opt_theta_tab"}
TOL = {}
DEFAULT_TOL = ("ulp", 0)
RULE = ("family nm: 8 cost families x seeds in/on/over the bounds x 7 iteration caps x 5 tolerances; family auto: 11 crystals x 5 PM types "
        "x in-window wavelengths x orientations x L 1-30 mm x T 0-100 C x theta_s in {0} u [0,0.05] (period), plus a targeted stream "
        "within 1e-7..3e-2 rad of a phase-matching angle, an edge stream placing the needed period at L + {-0.5, 0.2, 0.7, 1.5} um and a "
        "steep-idler stream (signal 2-40 % above the pump wavelength, theta_s 0.005-0.05; n/10 cases), a near-optic-axis stream (crystal "
        "theta 0 or 1e-6..3e-2, theta_s 0 or 1e-5..5e-2; n/20) and n/15 route sessions on one SPDC object (every route that returns the "
        "optimum poling period, after histories); "
        "11 crystals x e->oo/eo/oe x azimuths x in-window wavelengths, collinear, PRIOR crystal angle in {180, 160, -75, -179, 0} deg u (-180,180] "
        "(angle, n/6 cases; 1/3 of them also through assign_optimum_theta, SPDC::with_optimum_crystal_theta, try_as_optimum; "
        "statement clause + bit-for-bit independence of the prior angle on every route); WARM START: every phase-matchable angle case "
        "again from 4 prior angles at / next to the answer (own optimum to the last bit | through CrystalConfig's 4 decimals | "
        "rad-deg-rad | typed with 1-6 decimals | bisected root; answer + d, d log-uniform 1e-9..1e-1 of the interval, both signs; 2 x "
        "prior half phase log-uniform 1e-5..1e-1 around the statement's 1e-3), one of 6 routes each (optimum_theta with K "
        "opt_theta_tab, assign_optimum_theta, SPDC::{assign_,with_}optimum_crystal_theta, optimum_crystal_theta, try_as_optimum), "
        "clause failures not shown from prior angle 0 get the signature suffix /prior-dependent; n/20 poling warm cases x 3 stored "
        "polings at / next to the optimum period (same kinds, stored sign right or flipped, 9 apodizations) through 5 routes with "
        "the statement's clauses and K opt_period_tab; n/25 cases through the SPDCConfig "
        "route (\"poling_period_um\": \"auto\" / \"theta_deg\": \"auto\")")
RESIDUAL = ("convergence of the simplex on the non-collinear period problem and on the angle problem (runtime numerics; searched, "
            "not proved)")
ASSUMPTIONS = ["cost closures never return -inf (argmin's target-cost test is not modelled)",
               "the unpoled mismatch z is not NaN"]
CHECKER_MODULES = ["Spdc.Real.NM1D", "Spdc.Real.Auto"]


def families(tier, seed):
    if tier == "quick":
        return [("nm", seed, 8000, []), ("auto", seed, 5000, [])]
    return [("nm", seed, 60000, []), ("auto", seed, 40000, [])]


# ------------------------------------------------------------------------------------------------------------------------------
# COMPOSED model, part 2 (branch compose; Model/ComposeAuto.lean, notes/compose.md) — purely additive block.
OPS = set(OPS) | {'cmpa_opt_period', 'cmpa_sign', 'cmpa_snell', 'cmpa_opt_theta'}
TOL = dict(TOL)
TOL.update({'cmpa_snell': ('ulp', 4), 'cmpa_opt_period': ('ulp', 4), 'cmpa_opt_theta': ('ulp', 4)})
RULE += ' | family compose/c04: the primitive-setup generator of compose/c03 (11 crystals × 5 PM types, poled/unpoled, collinear and non-collinear signals incl. negative angles and counter-propagation); per setup, from the primitives alone: Beam::calc_internal_theta_from_external at a random external angle (0, ≤1e-3, ≤6°), PeriodicPoling::compute_sign, optimum_poling_period (Ok / Err on the length bound / panic), CrystalSetup::optimum_theta'
LEVEL_NOTE += ' COMPOSED MODEL part 2 (notes/compose.md): the cmpa_* K ops carry NO value computed by the real crate — only the configuration descriptor (what is written into the JSON) or the primitive setup; Spdc.Model.ComposeAuto computes the Snell inverse, the poling sign, the optimum poling period, the optimum crystal angle (Nelder–Mead model NM1D.run on cost closures built from the composed Δk, incl. the simplex nested in the angle cost), the optimum idler and the optimal waist positions itself (`composedExt`), then try_as_spdc / try_as_optimum on top. Observed: outcome classes (OK / ERR:class / PANIC) identical on every case, every optimiser result bit-for-bit (0 ulp; no divergence of a simplex path in 3 seeds × 1500 cases per mode), deff ≤ 2 ulp (the Cfg layer folds PICO/V first).'
CHECKER_MODULES = list(globals().get("CHECKER_MODULES", [])) + ["Spdc.Real.ComposeLemmas", "Spdc.Real.ComposeAutoLemmas"]
_families_before_compose_auto = families


def families(tier, seed):
    return _families_before_compose_auto(tier, seed) + [("compose", seed, 300 if tier == "quick" else 4000, ["c04"])]
