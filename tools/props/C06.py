import os
import sys
sys.path.insert(0, os.path.dirname(os.path.abspath(__file__)))
import _pmtol  # noqa: F401,E402  (adds the complex-aware tolerance kinds "crel"/"csum")

ID = "C06"
DESIGN_REF = "DESIGN.md §3 C06"
TECHNIQUE = ("Lean 4 theorems over a hand-written executable model of get_pm_integrand / phasematch_fiber_coupling / jsa_raw / "
             "JointSpectrum::{jsa,jsi,jsi_singles} / with_swapped_signal_idler / get_counts_correction (one `chain` function serves "
             "both beams; exchange symmetry of the exponent by two field_simp reductions over ℂ transported through Cx.toC), tied to "
             "the code by a correspondence run on general setups plus a predicate search (setup vs exchanged twin) on the real code")
LEVEL_TEXT = ("Proved for every setup, every dispersion law (index functions are arbitrary), every apodisation profile, every "
              "frequency pair and every fixed-weight quadrature rule over the real/complex-arithmetic model: the integrand, jsa_raw, "
              "jsa (magnitude and phase), jsi, the coincidence rate over the exchanged grid, the counts correction factor and the "
              "normalisation are invariant under signal/idler exchange (exact equality, under the guard that A1..A4, denom1, denom2 do "
              "not vanish); the idler singles spectrum/rate is the signal singles spectrum/rate of the exchanged setup; the exchange is "
              "an involution and PMType::inverse exchanges the two polarisations. The Float run of the same definitions reproduces the "
              "implementation's integrand to ~1e-13 relative.")
LEVEL_NOTE = ("Model fidelity is checked, not proved. Layered correspondence: the K ops take as inputs the quantities get_pm_integrand "
              "reads through public getters (angles incl. theta_external, waists, waist positions, direction sign, refractive indices at "
              "the evaluation frequencies, pump walk-off angle, k_eff, apodisation weights at the nodes; for `jsa` also the value of "
              "jsa_raw; for `counts_corr` the group indices). The singles phase-matching function (2-D integral) is a parameter of the "
              "theorems and is exercised only by the predicate search. Non-vanishing of A1..A4/denominators is a hypothesis.")
OPS = {"swap", "pm_inverse", "jsa", "pm_integrand", "pm_coinc", "pm_coinc_gl", "norms", "counts_corr", "counts"}
TOL = {"pm_integrand": ("crel", 1e-11), "pm_coinc": ("csum", 1e-10), "pm_coinc_gl": ("csum", 1e-10), "jsa": ("rel", 1e-11), "norms": ("rel", 1e-11),
       "counts_corr": ("rel", 1e-12),
       # rate = correction · Σ spectrum · dωs·dωi with the signed steps of the rectangle; the spectra are inputs re-evaluated by the
       # harness (the singles spectra are rayon 2-D sums whose association is not fixed): 1e-6, the statement's own tolerance
       "counts": ("rel", 1e-6)}
DEFAULT_TOL = ("exact",)
RULE = ("family pm/k: random general setups (11 crystals × 5 PM types, non-collinear signal up to 3° external with arbitrary azimuth, "
        "optimum or arbitrary idler, unequal waists 15–400 µm, elliptical pump, waist positions, poled/unpoled with every apodisation "
        "kind, a quarter phase-matched by the crate's own optimum calls, a quarter plane-wave) × 2 frequency pairs: integrand at 5 z, "
        "Simpson z-integral for several divs, normalisations, swap record; family pm/c06: asymmetric setups × 4 frequency pairs in the "
        "pump-allowed region (setup vs exchanged twin: jsa, jsi), every other setup a 3×3 (5×5 thorough) grid for rates and singles; "
        "30 % of the c06 setups carry 'copied values' (idler polar angle bit-equal to the signal's on the mirror / same / other azimuth, "
        "equal external angles, equal waists, exactly degenerate frequencies, equal / zero / mid-crystal waist positions, grating L/k; "
        "half re-phase-matched by the single-parameter optimum calls), every 12th is a written-down config (round numbers, explicit "
        "symmetric arms, SPDC::from_json); on these also the exact-centre and equal-frequency pairs and the pm_integrand K op for the "
        "setup and its twin; a quarter of the c06 setups have elliptic collection modes (BeamWaist{x,y}, x != y: one beam, both, or the "
        "same ellipse turned by 90 degrees), with the pm_integrand K op for setup and twin; the rates / singles grid is given as "
        "FrequencySpace::new, Steps2D -> From, with_resolution, WavelengthSpace or SumDiffFrequencySpace, each axis written low-to-high or "
        "high-to-low independently (4 orientations), square and non-square shapes, rates through counts_* or SPDC::efficiencies, the "
        "singles clause in both directions (idler of S vs signal of the twin, signal of S vs idler of the twin), and the K op `counts` "
        "(rate = correction x sum of the spectrum over the frequency rectangle x signed cell area) for the setup and its twin")
RESIDUAL = ("floating-point rounding (measured: |jsa_S − jsa_swap| ≤ ~1e-10·|jsa|); non-vanishing of A1..A4, denom1, denom2 is a "
            "hypothesis of the theorems and checked by evaluation only; the singles integrand is not modelled")
TRUSTED_EXTRA = ["tools/props/_pmtol.py: complex-aware comparison (|Δ| relative to the modulus / to the absolute quadrature sum)"]
CHECKER_MODULES = ["Spdc.Real.PM", "Spdc.Real.Jsa"]


def families(tier, seed):
    if tier == "quick":
        return [("pm", seed, 1500, ["k"]), ("pm", seed, 1800, ["c06"])]
    return [("pm", seed, 4000, ["k"]), ("pm", seed + 1000, 4000, ["k"]), ("pm", seed, 3000, ["c06"])]


# ------------------------------------------------------------------------------------------------------------------------------
# COMPOSED end-to-end model (branch compose; Model/Compose.lean, notes/compose.md) — purely additive block.
# Primitive setup only on the K line; the model recomputes indices, angles, walk-off, k_eff, apodisation AND the integrand /
# Simpson z-integral from them.  Observed worst: integrand 6.3e-16 of the modulus, z-integral 3.9e-16 of the absolute
# quadrature sum (3 seeds × 3000 setups).
OPS = set(OPS) | {"cmp_integrand", "cmp_pm_coinc"}
TOL = dict(TOL)
TOL.update({"cmp_integrand": ("crel", 5e-14), "cmp_pm_coinc": ("csum", 5e-14)})
RULE += ' | family compose/c06: the same primitive-setup generator as compose/c03 × 2 frequency pairs (centre, detuned): get_pm_integrand at z = −1, 1, 0 and two random z; phasematch_fiber_coupling for Simpson divs ∈ {6,7,10,20,33,50,100}'
LEVEL_NOTE += ' COMPOSED MODEL (notes/compose.md): the cmp_* K ops are NOT layered — their K line carries only the primitive setup (crystal id, angles, length, temperature, PM type, wavelengths, internal signal/idler angles, waists, waist positions, bandwidth, power, threshold, deff, signed poling period + window) and Spdc.Model.Compose recomputes the printed quantity through every layer model (Crystals → Index → Beam/Units → DeltaK → Poling → PM → Quad → Norm/Jsa → Singles); the real side is an SPDC rebuilt from exactly these primitives by Beam::new / PumpBeam::from / PeriodicPoling::new / SPDC::new (+ assign_optimum_idler for idler "auto"). Outside the composition (their RESULTS are primitives): Snell inverse, optimum_theta, optimum_poling_period.'
CHECKER_MODULES = list(CHECKER_MODULES) + ["Spdc.Real.ComposeLemmas"]
_families_layered = families


def families(tier, seed):
    return _families_layered(tier, seed) + [("compose", seed, 3000 if tier == "quick" else 30000, ["c06"])]
