ID = "C08"
DESIGN_REF = "DESIGN.md §3 C08"
TECHNIQUE = ("Lean 4 theorems over a hand-written executable model of counts.rs / efficiencies.rs (order and field algebra over R: "
             "monotone sums, C^2 <= Rs Ri, guards by case analysis) and a statement-by-statement transcription of the 2-D singles "
             "integrand of singles.rs, tied to the code by a correspondence run; the pointwise inequality itself is searched on "
             "the real code")
LEVEL_TEXT = ("Proved over the real-arithmetic model: the three efficiency formulas, the zero guards (the guarded outputs are the "
              "literal 0 for every scalar type, hence never NaN/inf), the lifting from the pointwise inequality 0 <= jsi <= "
              "min(singles_s, singles_i) to rates (non-negative, C <= min(Rs, Ri)) and to all three efficiencies in [0,1] "
              "(C^2 <= Rs Ri), the definition of the rates as correction x rectangle sum and the cancellation of the common "
              "correction factor; and, exactly, that for a collinear signal without pump walk-off the numerator of the singles "
              "integrand is the pure phase exp(i L dk (z1-z2)/2) (skeleton of the no-diffraction clause, T4 partial). The pointwise inequality is a HYPOTHESIS of these theorems, validated by search only "
              "(Simpson-200 and Gauss-Legendre-40 on the real code); it is violated on the pinned tree for strongly focused "
              "collection modes (known finding D9).")
LEVEL_NOTE = ("Layered correspondence: K singles_gl / singles_simpson take as inputs the quantities phasematch_singles_fiber_coupling "
              "reads through public getters (L, signal angles incl. the external angle, waists, direction signs, n_s, the three "
              "wavenumbers, signal waist position, pump walk-off angle, poling k_eff), the apodisation weights at the nodes and the "
              "Gauss-Legendre nodes/weights, and compare 0.25*|sum| for the low-order rules GL-2,3,4,5,7 and Simpson-4,6 (the "
              "closure itself is private); K counts / efficiencies take the arrays returned by the real jsi_range / "
              "jsi_singles_range / jsi_singles_idler_range and the correction factor; counts_corr takes wavelengths, indices and "
              "the signal and idler group indices. The coincidence integrand and the normalisations belong to C05/C07. This is the weakest of the "
              "twenty claims: the central inequality is observed, not proved.")
OPS = {"singles_gl", "singles_simpson", "counts", "efficiencies", "counts_corr", "eff"}
# singles_*: the 2-D singles integral is a sum of strongly oscillating complex terms; at cancellation-dominated
# frequency pairs the implementation's rayon summation order moves the result by up to ~3e-8 relative (measured
# over 9 000 setups by the composed-model run; seed 13 hit 1.2e-10 with the former 1e-10) => rel 1e-6, the
# tolerance the composed ops use; typical agreement stays <= 1e-10.
TOL = {"singles_gl": ("rel", 1e-6), "singles_simpson": ("rel", 1e-6), "counts": ("rel", 1e-12),
       "efficiencies": ("rel", 1e-12), "counts_corr": ("ulp", 8), "eff": ("ulp", 4)}
DEFAULT_TOL = ("exact",)
RULE = ("family counts: the probed D9 input, then seeded random phase-matched setups (11 crystals x 5 types x poling on(auto period, apodised or not)/"
        "off(auto angle) x collinear/non-collinear x waists 20-300 um x L 0.5-20 mm; phase-matched = built with the crate's auto "
        "options and |dk_z| L/2 < pi at the centre, others skipped and counted); every fifth a poled counter-propagating setup (both orientations, collinear or tilted), every fifth a setup with explicit, clearly different collection foci (one arm or both at +-(0.5..5) L; three quarters of them moderately focused, xi_i 0.25-0.55, idler waist <= signal waist, pump waist comparable), every fifth a near-unity-heralding source (ppKTP 0.3-2 mm, pump 150-400 um, collection 25-50 um); pump-spectrum "
        "threshold from {1e-2,1e-4,0.1,0.25}; per setup a grid of frequency pairs inside the "
        "support (pump direction: core and the wings thr <= alpha < sqrt(thr), just inside and beyond the threshold contour; x "
        "anti-diagonal through +-1.6 first zeros; pairs with vanishing singles are not skipped) under Gauss-Legendre-40 and Simpson-200, the rates and "
        "efficiencies on a square core grid and on a 7x7 grid reaching beyond the threshold contour, every third setup the API routes (methods, free functions, wavelength space, point vs range), the exact-threshold boundary pair and a 2x2 grid; every third setup a call-history sequence of SPDC::efficiencies (two integrators, one parameter changed, repeat) compared with freshly evaluated spectra, the singles integrand through 7 low-order rules; mode singles: the integrand on random "
        "general setups (non-collinear, apodised, counter-propagating); mode limit: collinear waists 1-5 mm, ratio vs eta F^2/R; "
        "mode eff: 13^3 corner triples + random triples (zero, subnormal, tiny, huge)")
RESIDUAL = ("the pointwise inequality jsi <= min(singles) between the two independent closed forms (hypothesis of the theorems; "
            "search only; violated in the D9 region); the no-diffraction limit ratio (search only, 1e-4); quadrature error of the "
            "real integrators; floating-point rounding")
ASSUMPTIONS = ["the grid passed to the three counts_* functions is the same (as in spdc::efficiencies)"]
CHECKER_MODULES = ["Spdc.Real.Counts", "Spdc.Real.Singles"]


# --- grids far outside the usual window (after seeded C08-12; purely additive block) ---------------------------------------------
# jsi_point / jsi_singles_point: JointSpectrum::jsi / jsi_singles / the idler-singles route at one pair from the raw values and
# the normalisations returned by the real public functions (jsa_raw, jsi_singles_raw, jsi_normalization,
# jsi_singles_normalization): the zero short-circuits and the products.  jsi: same operations (sequential Gauss-Legendre);
# singles: the 2-D rule sums in parallel (order not fixed) => the tolerance of singles_gl.
OPS = set(OPS) | {"jsi_point", "jsi_singles_point"}
TOL = dict(TOL)
TOL.update({"jsi_point": ("ulp", 4), "jsi_singles_point": ("rel", 1e-6)})
RULE += (" | every third setup (every second in the thorough tier): C08.anygrid - SPDC::efficiencies (Gauss-Legendre-40 or Simpson-200) on "
         "grids far outside the usual window: [0, w_p]^2, [0, 2 w_s0] x [0, 2 w_i0], a marginal scan of one axis from zero, negative "
         "frequencies, beyond the pump frequency, spans up to 1e12 w_p, a WavelengthSpace from 0.2 um to the far infrared, a "
         "SumDiffFrequencySpace whose difference axis reaches zero photon frequency, grids entirely off the support (near zero "
         "frequency, beyond the pump, negative, one photon near zero and the other near w_p, outside the pump envelope), grids with a "
         "single point on a side: rates finite and >= 0, efficiencies not NaN, >= 0 and <= 1 (an excess counts only if reproduced "
         "by the refined rule); pair lists (marginal scans over [-w_p/4, 5/4 w_p], the energy-conserving diagonal, a wavelength scan "
         "to 200 um) through jsi_range / jsi_singles_range / jsi_singles_idler_range: every intensity finite and >= 0; a failing "
         "grid names the responsible pair; K jsi_point / jsi_singles_point at pairs of zero, negative, beyond-pump and box-edge "
         "frequency, K efficiencies on those grids")
LEVEL_NOTE += (" K jsi_point / jsi_singles_point take the raw values (jsa_raw, jsi_singles_raw) and the normalisations "
               "(jsi_normalization, jsi_singles_normalization) of the real crate as inputs and tie the composition in "
               "JointSpectrum::jsi / jsi_singles / jsi_singles_idler_range (zero short-circuit, product).")


def families(tier, seed):
    if tier == "quick":
        return [("counts", seed, 200, []), ("counts", seed, 20, ["mismatch"]), ("counts", seed, 150, ["singles"]),
                ("counts", seed, 100, ["limit"]), ("counts", seed, 2000, ["eff"])]
    return [("counts", seed, 1500, []), ("counts", seed, 200, ["mismatch"]), ("counts", seed, 600, ["focus"]),
            ("counts", seed, 1500, ["singles"]), ("counts", seed, 1000, ["limit"]), ("counts", seed, 50000, ["eff"])]


RULE += (" | every tenth setup of the default mode, and mode `mismatch` (20 / 200 setups): a setup whose counter_propagation FLAG "
         "DISAGREES WITH THE BEAM DIRECTIONS, both ways - signal and idler leaving through opposite faces with the flag not set, "
         "both photons forward with the flag set - either ASSEMBLED BY HAND through the public constructors (SPDC::new, "
         "CrystalSetup { .. }, Beam::new(polarization, phi, theta, wavelength, waist), PeriodicPoling::new(signed period, "
         "apodization)) or EDITED IN PLACE (crystal_setup.counter_propagation assigned on the built setup); the quantities are "
         "those of a phase-matched configuration; through every predicate (pointwise, rates on core / wing / 2x2 grids, any-grid, "
         "history, routes, boundary) and the K ops singles_*, counts, efficiencies, jsi(_singles)_point; `cp=` in the detail is "
         "the geometry, `flag=` the field")


# ------------------------------------------------------------------------------------------------------------------------------
# COMPOSED model, part 3 — grid level (branch compose; Model/ComposeGrid.lean, notes/compose.md "Part 3") — purely additive block.
# The cmpg_* K lines carry ONLY the primitive setup, the range (kind F/W/SD, endpoints, step counts), the Simpson division count
# and the delays; Spdc.Model.ComposeGrid recomputes everything (JointSpectrum::new through the composed try_as_optimum, the
# spectra on the grid, group indices, correction factor, rates, HOM, Schmidt number) through all layers.
import os as _os3
import sys as _sys3
_sys3.path.insert(0, _os3.path.dirname(_os3.path.abspath(__file__)))
import _pmtol  # noqa: F401,E402  (tolerance kind "csum": |Δ| relative to the absolute quadrature scale printed next to the value)
OPS = set(OPS) | {'cmpg_group_index', 'cmpg_counts_corr', 'cmpg_counts_coinc', 'cmpg_counts_singles', 'cmpg_efficiencies'}
TOL = dict(TOL)
TOL.update({'cmpg_group_index': ('ulp', 8), 'cmpg_counts_corr': ('ulp', 16), 'cmpg_counts_coinc': ('csum', 1e-13), 'cmpg_counts_singles': ('rel', 1e-06), 'cmpg_efficiencies': ('rel', 1e-06)})
RULE += " | family compose/c08: the primitive-setup generator of parts 1-2 (11 crystals x 5 PM types, poled/unpoled, collinear/non-collinear, idler auto/explicit, 2/3 phase-matched) x a range around the centre frequencies (half-width 0.3-6 pump spectral widths per axis, 1/4 displaced so that part of it leaves the support; shapes 1xn, nx1, rectangles, squares, now and then an empty axis) given as FrequencySpace, WavelengthSpace or SumDiffFrequencySpace x Simpson divs from {4 (panic path of JointSpectrum::new), 5, 6, 7, 8, 10, 12, 20} (auto idlers made explicit first: the idler-singles route exchanges the object's beams): Beam::group_index of signal and idler (without poling and with the setup's), get_counts_correction, SPDC::counts_coincidences, counts_singles_signal / counts_singles_idler and SPDC::efficiencies (grids of <= 16 points)"
LEVEL_NOTE += ' COMPOSED MODEL part 3 (notes/compose.md): the cmpg_* K ops carry NO value computed by the real crate — only the primitive setup, the range specification (FrequencySpace / WavelengthSpace / SumDiffFrequencySpace endpoints and step counts), the Simpson division count and the delays; Spdc.Model.ComposeGrid evaluates JointSpectrum::new (centre values through the composed try_as_optimum), the spectra over the grid in the row-major order of the crate, group indices / get_counts_correction, the dw^2 rectangle sums, hom_time_delay, the HOM sums and the trace-form Schmidt number on top of the composed jsa/jsi/jsi_singles. The real side builds the SPDC from exactly these primitives and calls the public API. Values governed by the oscillatory z-quadrature are compared relative to the absolute quadrature scale (kind csum), singles (rayon 2-D sums, order not fixed) at rel 1e-6.'
CHECKER_MODULES = list(globals().get("CHECKER_MODULES", [])) + [_m for _m in ["Spdc.Real.ComposeLemmas", "Spdc.Real.ComposeAutoLemmas", "Spdc.Real.ComposeGridLemmas"] if _m not in globals().get("CHECKER_MODULES", [])]
_families_before_compose_grid = families


def families(tier, seed):
    return _families_before_compose_grid(tier, seed) + [("compose", seed, 150 if tier == "quick" else 2500, ["c08"])]
