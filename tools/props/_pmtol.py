"""Complex-aware tolerance kinds for the phase-matching family (C05/C06/C07), added to
vlib.compare_tokens without editing tools/vlib.py (the props modules import this file, which wraps
the function once).

  ("crel", eps)  : float tokens are taken in consecutive pairs (re, im) and compared as complex numbers:
                   |a - b| <= eps * max(|a|, |b|).  A per-component relative test is meaningless for a
                   phasor r*(cos y, sin y) with y ~ 1e5 rad whenever one component passes through zero.
  ("csum", eps)  : tokens come in triples (re, im, scale) where scale = Σ|f_k| w_k is the absolute sum
                   behind an oscillatory quadrature sum: |a - b| <= eps * max(scale_impl, scale_model)
                   (the standard forward-error measure of a sum; near a sinc zero the value itself is
                   ~1e-10 of the scale), and the two scales agree to 1e-6.  Exact zeros must agree exactly.
Non-float tokens (PANIC, …) must be identical.
"""
import math
import vlib

if not getattr(vlib, "_pm_patched", False):
    _orig = vlib.compare_tokens

    def _num(t):
        return vlib.parse_fl(t)

    def _same_nonfinite(x, y):
        if x != x and y != y:
            return True
        return x == y

    def compare_tokens(expect, got, tol):
        kind = tol[0]
        if kind not in ("crel", "csum"):
            return _orig(expect, got, tol)
        e = expect.split()
        g = got.split()
        if len(e) != len(g):
            return False, f"token count {len(e)} vs {len(g)}"
        step = 2 if kind == "crel" else 3
        i = 0
        n = len(e)
        while i < n:
            grp_e, grp_g = e[i:i + step], g[i:i + step]
            ve = [_num(t) for t in grp_e]
            vg = [_num(t) for t in grp_g]
            if len(grp_e) < step or any(v is None for v in ve + vg):
                # not a full numeric group: exact token equality
                for k, (x, y) in enumerate(zip(grp_e, grp_g)):
                    if x != y:
                        return False, f"token {i + k}: impl {x} model {y}"
                i += step
                continue
            if grp_e == grp_g:
                i += step
                continue
            a = complex(ve[0], ve[1])
            b = complex(vg[0], vg[1])
            fin = all(math.isfinite(v) for v in ve[:2] + vg[:2])
            if not fin:
                if not (_same_nonfinite(ve[0], vg[0]) and _same_nonfinite(ve[1], vg[1])):
                    return False, f"token {i}: non-finite impl {ve[:2]} model {vg[:2]}"
                i += step
                continue
            d = abs(a - b)
            if kind == "crel":
                ok = d <= tol[1] * max(abs(a), abs(b))
                ref = max(abs(a), abs(b))
            else:
                se, sg = ve[2], vg[2]
                if not (math.isfinite(se) and math.isfinite(sg)):
                    ok = _same_nonfinite(se, sg) and d == 0
                    ref = se
                else:
                    ref = max(abs(se), abs(sg))
                    ok = d <= tol[1] * ref and abs(se - sg) <= 1e-6 * ref
            if not ok:
                return False, (f"token {i}: impl ({ve[0]!r},{ve[1]!r}) model ({vg[0]!r},{vg[1]!r}) "
                               f"|diff|={d:.3e} ref={ref:.3e}")
            i += step
        return True, ""

    vlib.compare_tokens = compare_tokens
    vlib._pm_patched = True
