"""History-independence overlay (harness family `hist`): registered for every property whose quantities are functions
of a setup and of the call's own arguments.  Kept apart from the per-property specs so that it can be switched on for
all of them in one place; vlib.load_prop applies it."""
MODES = {p: "c" + p[1:] for p in
         ["C01", "C02", "C03", "C04", "C05", "C06", "C07", "C08", "C09", "C10", "C11", "C12", "C13", "C14", "C16", "C17", "C18", "C20"]}
RULE = (" | history independence (family hist): for base setups and ~60 single-field tweaks (each setup field and each call "
        "argument, a large and a below-config-precision variant) the property's observables are evaluated as "
        "base, t1, base, t2, … in the harness process and as t1, t2, …, base in a FRESH process; any difference beyond the "
        "statement's tolerance is a failing history (same setup and arguments, two values); the base case is also evaluated from worker threads of rayon pools of 1, 3 and 97 threads")
NOTE = (" History independence (thread-local or global caches keyed too coarsely, lazily initialised fields) is checked by "
        "predicate Cxx.history on the real code against a fresh process; it is a search, not part of the proof.")


def apply(mod, pid):
    mode = MODES.get(pid)
    if not mode or getattr(mod, "_hist_applied", False):
        return mod
    inner = mod.families

    def families(tier, seed, _inner=inner, _mode=mode):
        return _inner(tier, seed) + [("hist", seed, (3 if _mode in ("c07", "c08", "c20") else 4) if tier == "quick" else 30, [_mode])]
    mod.families = families
    mod.RULE = getattr(mod, "RULE", "") + RULE
    mod.LEVEL_NOTE = getattr(mod, "LEVEL_NOTE", "") + NOTE
    mod._hist_applied = True
    return mod
