import os
import sys
sys.path.insert(0, os.path.dirname(os.path.abspath(__file__)))
import _pmtol  # noqa: F401,E402  (adds the complex-aware tolerance kinds "crel"/"csum")

ID = "C05"
DESIGN_REF = "DESIGN.md §3 C05"
TECHNIQUE = ("Lean 4 theorems over a hand-written executable model of get_pm_integrand / phasematch_fiber_coupling (coefficient chain "
             "GAM/DEL → A1..A10 → exponent and sqrt(denom1·denom2); the diffraction-free form `pmIdeal`; collinear reductions by "
             "field_simp/ring over ℂ through Cx.toC; the z-integral by Mathlib's integral_exp_mul_complex and Real.sinc), tied to the "
             "code by a bit-level correspondence of the integrand on general setups plus a predicate search (sinc law through ±3 zeros, "
             "erf peak value) on the real code")
LEVEL_TEXT = ("Proved over the real/complex-arithmetic model, for every crystal/dispersion law (index functions arbitrary), length, "
              "poling and waist: for collinear beams the diffraction-free integrand is (4/Σ)·exp(i(ee+ff·z)+iφ₀−x′²(1+z)²) with "
              "Σ = Wp²Ws²+Wp²Wi²+Ws²Wi², x′ = ½L·tanρ·√((Ws²+Wi²)/Σ) and ff = (L/2)·Δk_z (pump at ω_s+ω_i, poling sign included); "
              "without walk-off |½∫…| = (4/Σ)·|sinc(Δk_z L/2)|; at Δk_z = 0 the value is (4/Σ)·½∫e^{−x′²(1+z)²}dz = "
              "(4/Σ)·(1/x)∫₀ˣe^{−u²}du, x = 2x′. The Float run of the full integrand agrees with the implementation to ~1e-13.")
LEVEL_NOTE = ("Model fidelity is checked, not proved. The neglect of diffraction (pmIntegrand vs pmIdeal) and the quadrature error of the "
              "integrator on the oscillating integrand are numeric and only measured (≤ 5.3e-4 of the 1e-3 budget on the family). "
              "Mathlib has no erf: the peak theorem ends at (1/x)∫₀ˣe^{−u²}du, whose identification with √π·erf(x)/(2x) is the definition "
              "of erf; the harness evaluates erf by its Maclaurin series. Layered correspondence: indices, theta_external, waists, "
              "walk-off angle, k_eff, apodisation weights, and (for half_dkz_l) the crate's own delta_k are inputs/observations of lower layers.")
OPS = {"pm_integrand", "pm_coinc", "pm_coinc_gl", "half_dkz_l"}
TOL = {"pm_integrand": ("crel", 1e-11), "pm_coinc": ("csum", 1e-10), "pm_coinc_gl": ("csum", 1e-10), "half_dkz_l": ("rel", 1e-9, 1e-7)}
DEFAULT_TOL = ("exact",)
RULE = ("family pm/k: random GENERAL setups (non-collinear, small waists, elliptical pump, poled with every apodisation kind and "
        "unpoled, all 5 PM types × 11 crystals) × 2 frequency pairs: integrand at z = −1, 1, 0 and two random z; Simpson z-integral for "
        "divs ∈ {3,4,5,6,7,10,16,20,33,50,100,130,200}; family pm/c05: collinear large-waist family (waists 2–20 mm independent per beam, "
        "L 0.5–20 mm, all crystals/types, poled with the crate's optimum period or unpoled with its optimum angle; combinations the "
        "crate cannot phase-match are counted and skipped) × one random direction of the (ω_s, ω_i) plane × 17 (33 thorough) detunings "
        "with Δk_z L/2 spread over [−4π, 4π] + 12 targets at the sinc zeros / lobe ends (±3.95π, ±3.98π, ±(4π−δ), kπ(1±2%), kπ±1e-3) × integrators Simpson-50/51/100/128–131/200/400, Gauss–Legendre-20/40/60, AdaptiveSimpson(1e-6|1e-8, depth 10|12), ClenshawCurtis; sub-families: co-propagating, counter-propagating (signal backward / idler backward), biaxial tilted cuts; ρ by an independent central difference; hand-assembled geometries (about 40 % of the setups, one or more edits after the crate's optimum calls): crystal_setup.counter_propagation flipped alone (flag vs beam directions disagree: flag set with both beams forward, flag clear with a backward signal or idler), crystal_setup.pm_type edited alone (label vs beam polarisations), azimuth of an on-axis beam set by hand, idler / signal / both turned round by hand with set_angles (theta -> 180 deg - theta, flag untouched) and re-phase-matched by a harness-side grating 2 pi / dk_z; details start edited=<tags> flag=<0|1>")
RESIDUAL = ("(a) neglect of diffraction, (b) quadrature error on the oscillating integrand — numeric, measured only; (c) the erf "
            "identification; (d) 'negligible walk-off/diffraction' is made quantitative in the predicate (x ≤ 0.04, L/(kW²) ≤ 1e-3) — "
            "see notes/C05.md")
TRUSTED_EXTRA = ["tools/props/_pmtol.py: complex-aware comparison (|Δ| relative to the modulus / to the absolute quadrature sum)"]
CHECKER_MODULES = ["Spdc.Real.PM", "Spdc.Real.PlaneWave"]


def families(tier, seed):
    if tier == "quick":
        return [("pm", seed, 1500, ["k"]), ("pm", seed, 1500, ["c05"])]
    return [("pm", seed, 6000, ["k"]), ("pm", seed + 1000, 6000, ["k"]), ("pm", seed, 6000, ["c05"])]
