ID = "C09"
DESIGN_REF = "DESIGN.md §3 C09"
TECHNIQUE = ("Lean 4 theorems over a hand-written executable model of src/spdc/hom.rs (flat arrays, Steps2D enumeration, "
             "swap-index permutation; term-wise AM-GM bound + reindexing by the permutation), tied to the code by a "
             "correspondence run on random/structured arrays and on real setups, plus predicate search")
LEVEL_TEXT = ("Proved for every side n, every complex array, every axis and every delay over the real-arithmetic model: the rate of "
              "the model's homRate fed with an array and its exchanged-position counterpart lies in [0,1] (visibility in [-1,1]); "
              "the swap index map is an involutive permutation under which the frequency difference changes sign; exchange-symmetric "
              "arrays give rate 0 at zero delay; the separable Gaussian with linear phase reduces exactly to sum a^2 a^2 cos(D (tau - t0)); "
              "series = map of single rates with the shared norm; scale invariance; setup-level wrappers = array-level function on "
              "sampled arrays. The Float run of the same definitions agrees with hom_rate / hom_rate_series / jsi_norm / "
              "SPDC::hom_rate_series / hom_visibility within rel 1e-12.")
LEVEL_NOTE = ("Model fidelity is checked, not proved. Setup-level ops take the implementation's own jsa_range output and its exchanged-argument "
              "array (evaluated through the public JointSpectrum::jsa) and the dip delay hom_time_delay as inputs (lower layers). The Gaussian "
              "closed form 1/2(1-exp(-s^2 (tau-t0)^2/2)) is checked numerically on 64^2/96^2 grids spanning +-5 sigma (abs 1e-6); the theorem gives the exact discrete sum.")
OPS = {"jsi_norm", "hom_rate", "hom_rate_series", "hom_vis", "swap_arr"}
# parallel (rayon) sums: rel 1e-12 of the value plus an absolute floor relative to the natural scale 1 of a rate
TOL = {"jsi_norm": ("rel", 1e-12), "hom_rate": ("rel", 1e-12, 1e-13), "hom_rate_series": ("rel", 1e-12, 1e-13),
       "hom_vis": ("rel", 1e-12, 2e-13), "swap_arr": ("exact",)}
DEFAULT_TOL = ("exact",)
RULE = ("family hom/array: every side 0-4 x 5 array kinds (random, symmetric, antisymmetric, separable, sparse), then seeded random sides "
        "1-12 (quick) / 1-40 (thorough) on identical random axes with the exchanged-position counterpart, 3-4 delays each incl. 0; "
        "rectangular grids with unrelated arrays and short arrays (panic path); Gaussian closed form on fine grids; "
        "family hom/setup: degenerate phase-matched setups (KTP II pp, BBO I angle-tuned, LiNbO3 0 pp, non-collinear KTP) x sides x delays; "
        "family hom/history: scripts of ~30 setup-level calls (hom_rate_series / hom_visibility) per round: one setup and grid with eight integrator "
        "variants back to back (Simpson 50/6/n, GaussLegendre 40/4/n, AdaptiveSimpson, ClenshawCurtis) in fixed then random order with repeats, two "
        "setups alternating on one grid, one setup on two grids; each call vs the array-level function on amplitudes sampled by the harness with "
        "that call's integrator, repeated calls vs their first result; structured delay lists (dip scans with coarse wings and a fine centre, "
        "palindromic gaps, equal first/last gap around an irregular interior, even scans up/down, one displaced point, coarse-fine-coarse, geometric, "
        "repeated values, singles, pairs, unordered) for the array-level series on random / unrelated / Gaussian arrays and for SPDC::hom_rate_series "
        "(every entry vs hom_rate at that delay); setup-level calls also on windows whose axes share only the first or only the last frequency, "
        "have equal ends but different counts, run in opposite order, are shifted by one step, are unrelated, or reach above the pump frequency")
RESIDUAL = ("Riemann-sum-to-integral step of the Gaussian clause is numeric only; floating-point rounding and the order of the parallel "
            "sum are measured by the comparison, not proved")
CHECKER_MODULES = ["Spdc.Real.HomLemmas"]


def _in_domain(body):
    """square grid with identical signal and idler axes (the statement's domain for the array-level rate)"""
    t = body.split(" ", 8)
    return len(t) >= 8 and t[1] == t[4] and t[2] == t[5] and t[3] == t[6] and t[3] != "0"


def on_case(op, body, impl_out, model_out):
    """The property's title names the array-level rate: it IS the normalised interference sum
    1/2 (1 - Re sum conj(f_k) g_k e^{i D_k tau} / sum |f_k|^2) over the grid enumeration.  The model's homRate is that
    formula, so on the statement's domain (square grids with identical axes) a value of hom_rate / hom_rate_series
    that differs from it beyond the parallel-sum tolerance is a failing input of the property itself."""
    if op == "jsi_norm":
        # the normalisation the title names: sum |f_k|^2 (sequential sum: rel 1e-12), any array
        if model_out.startswith("UNSUPPORTED") or model_out == "DRIVER-DIED":
            return []
        import vlib
        ok, why = vlib.compare_tokens(impl_out, model_out, TOL[op])
        t = body.split(" ")
        return [("C09.integral", ok, "hom/norm-is-sum-of-squares",
                 f"count={t[1]} head={','.join(t[2:6])} impl={impl_out} sum_of_squares={model_out} {why.replace(' ', '_')}")]
    if op not in ("hom_rate", "hom_rate_series") or not _in_domain(body):
        return []
    if model_out.startswith("UNSUPPORTED") or model_out == "DRIVER-DIED":
        return []
    import vlib
    ok, why = vlib.compare_tokens(impl_out, model_out, TOL[op])
    t = body.split(" ")
    side = t[3]
    # the arrays are long: identify the case by grid, delay(s) and seed-independent leading tokens
    detail = (f"op={op} side={side} grid=({t[1]},{t[2]}) head={','.join(t[7:12])} impl={impl_out[:120].replace(' ', ',')} "
              f"interference_sum_formula={model_out[:120].replace(' ', ',')} {why.replace(' ', '_')}")
    return [("C09.integral", ok, "hom/rate-is-normalised-interference-sum", detail)]


def families(tier, seed):
    if tier == "quick":
        return [("hom", seed, 400, ["array"]), ("hom", seed, 72, ["setup"]), ("hom", seed, 4, ["history"])]
    return [("hom", seed, 6000, ["array"]), ("hom", seed, 400, ["setup"]), ("hom", seed, 16, ["history"])]


# ------------------------------------------------------------------------------------------------------------------------------
# COMPOSED model, part 3 — grid level (branch compose; Model/ComposeGrid.lean, notes/compose.md "Part 3") — purely additive block.
# The cmpg_* K lines carry ONLY the primitive setup, the range (kind F/W/SD, endpoints, step counts), the Simpson division count
# and the delays; Spdc.Model.ComposeGrid recomputes everything (JointSpectrum::new through the composed try_as_optimum, the
# spectra on the grid, group indices, correction factor, rates, HOM, Schmidt number) through all layers.
import os as _os3
import sys as _sys3
_sys3.path.insert(0, _os3.path.dirname(_os3.path.abspath(__file__)))
import _pmtol  # noqa: F401,E402  (tolerance kind "csum": |Δ| relative to the absolute quadrature scale printed next to the value)
OPS = set(OPS) | {'cmpg_time_delay', 'cmpg_hom_series', 'cmpg_hom_vis'}
TOL = dict(TOL)
TOL.update({'cmpg_time_delay': ('ulp', 16), 'cmpg_hom_series': ('csum', 1e-13), 'cmpg_hom_vis': ('csum', 1e-13)})
RULE += " | family compose/c09: the primitive-setup generator of parts 1-2 (11 crystals x 5 PM types, poled/unpoled, collinear/non-collinear, idler auto/explicit, 2/3 phase-matched) x a range around the centre frequencies (half-width 0.3-6 pump spectral widths per axis, 1/4 displaced so that part of it leaves the support; shapes 1xn, nx1, rectangles, squares, now and then an empty axis) given as FrequencySpace, WavelengthSpace or SumDiffFrequencySpace x Simpson divs from {4 (panic path of JointSpectrum::new), 5, 6, 7, 8, 10, 12, 20} (2/3 of the grids square with IDENTICAL signal and idler axes centred on (ws+wi)/2, the statement's domain): hom_time_delay, SPDC::hom_rate_series at delays {0, dip delay, dip delay + random 1e-14..1e-11 s}, SPDC::hom_visibility"
LEVEL_NOTE += ' COMPOSED MODEL part 3 (notes/compose.md): the cmpg_* K ops carry NO value computed by the real crate — only the primitive setup, the range specification (FrequencySpace / WavelengthSpace / SumDiffFrequencySpace endpoints and step counts), the Simpson division count and the delays; Spdc.Model.ComposeGrid evaluates JointSpectrum::new (centre values through the composed try_as_optimum), the spectra over the grid in the row-major order of the crate, group indices / get_counts_correction, the dw^2 rectangle sums, hom_time_delay, the HOM sums and the trace-form Schmidt number on top of the composed jsa/jsi/jsi_singles. The real side builds the SPDC from exactly these primitives and calls the public API. Values governed by the oscillatory z-quadrature are compared relative to the absolute quadrature scale (kind csum), singles (rayon 2-D sums, order not fixed) at rel 1e-6.'
CHECKER_MODULES = list(globals().get("CHECKER_MODULES", [])) + [_m for _m in ["Spdc.Real.ComposeLemmas", "Spdc.Real.ComposeAutoLemmas", "Spdc.Real.ComposeGridLemmas"] if _m not in globals().get("CHECKER_MODULES", [])]
_families_before_compose_grid = families


def families(tier, seed):
    return _families_before_compose_grid(tier, seed) + [("compose", seed, 200 if tier == "quick" else 3000, ["c09"])]
