ID = "C09"
DESIGN_REF = "DESIGN.md §3 C09"
TECHNIQUE = ("Lean 4 theorems over a hand-written executable model of src/spdc/hom.rs (flat arrays, Steps2D enumeration, "
             "swap-index permutation; term-wise AM-GM bound + reindexing by the permutation), tied to the code by a "
             "correspondence run on random/structured arrays and on real setups, plus predicate search")
LEVEL_TEXT = ("Proved for every side n, every complex array, every axis and every delay over the real-arithmetic model: the rate of "
              "the model's homRate fed with an array and its exchanged-position counterpart lies in [0,1] (visibility in [-1,1]); "
              "the swap index map is an involutive permutation under which the frequency difference changes sign; exchange-symmetric "
              "arrays give rate 0 at zero delay; the separable Gaussian with linear phase reduces exactly to sum a^2 a^2 cos(D (tau - t0)); "
              "series = map of single rates with the shared norm; scale invariance; setup-level wrappers = array-level function on "
              "sampled arrays. The Float run of the same definitions agrees with hom_rate / hom_rate_series / jsi_norm / "
              "SPDC::hom_rate_series / hom_visibility within rel 1e-12.")
LEVEL_NOTE = ("Model fidelity is checked, not proved. Setup-level ops take the implementation's own jsa_range output and its exchanged-argument "
              "array (evaluated through the public JointSpectrum::jsa) and the dip delay hom_time_delay as inputs (lower layers). The Gaussian "
              "closed form 1/2(1-exp(-s^2 (tau-t0)^2/2)) is checked numerically on 64^2/96^2 grids spanning +-5 sigma (abs 1e-6); the theorem gives the exact discrete sum.")
OPS = {"jsi_norm", "hom_rate", "hom_rate_series", "hom_vis", "swap_arr"}
# parallel (rayon) sums: rel 1e-12 of the value plus an absolute floor relative to the natural scale 1 of a rate
TOL = {"jsi_norm": ("rel", 1e-12), "hom_rate": ("rel", 1e-12, 1e-13), "hom_rate_series": ("rel", 1e-12, 1e-13),
       "hom_vis": ("rel", 1e-12, 2e-13), "swap_arr": ("exact",)}
DEFAULT_TOL = ("exact",)
RULE = ("family hom/array: every side 0-4 x 5 array kinds (random, symmetric, antisymmetric, separable, sparse), then seeded random sides "
        "1-12 (quick) / 1-40 (thorough) on identical random axes with the exchanged-position counterpart, 3-4 delays each incl. 0; "
        "rectangular grids with unrelated arrays and short arrays (panic path); Gaussian closed form on fine grids; "
        "family hom/setup: degenerate phase-matched setups (KTP II pp, BBO I angle-tuned, LiNbO3 0 pp, non-collinear KTP) x sides x delays; "
        "family hom/history: scripts of ~30 setup-level calls (hom_rate_series / hom_visibility) per round: one setup and grid with eight integrator "
        "variants back to back (Simpson 50/6/n, GaussLegendre 40/4/n, AdaptiveSimpson, ClenshawCurtis) in fixed then random order with repeats, two "
        "setups alternating on one grid, one setup on two grids; each call vs the array-level function on amplitudes sampled by the harness with "
        "that call's integrator, repeated calls vs their first result")
RESIDUAL = ("Riemann-sum-to-integral step of the Gaussian clause is numeric only; floating-point rounding and the order of the parallel "
            "sum are measured by the comparison, not proved")
CHECKER_MODULES = ["Spdc.Real.HomLemmas"]


def _in_domain(body):
    """square grid with identical signal and idler axes (the statement's domain for the array-level rate)"""
    t = body.split(" ", 8)
    return len(t) >= 8 and t[1] == t[4] and t[2] == t[5] and t[3] == t[6] and t[3] != "0"


def on_case(op, body, impl_out, model_out):
    """The property's title names the array-level rate: it IS the normalised interference sum
    1/2 (1 - Re sum conj(f_k) g_k e^{i D_k tau} / sum |f_k|^2) over the grid enumeration.  The model's homRate is that
    formula, so on the statement's domain (square grids with identical axes) a value of hom_rate / hom_rate_series
    that differs from it beyond the parallel-sum tolerance is a failing input of the property itself."""
    if op == "jsi_norm":
        # the normalisation the title names: sum |f_k|^2 (sequential sum: rel 1e-12), any array
        if model_out.startswith("UNSUPPORTED") or model_out == "DRIVER-DIED":
            return []
        import vlib
        ok, why = vlib.compare_tokens(impl_out, model_out, TOL[op])
        t = body.split(" ")
        return [("C09.integral", ok, "hom/norm-is-sum-of-squares",
                 f"count={t[1]} head={','.join(t[2:6])} impl={impl_out} sum_of_squares={model_out} {why.replace(' ', '_')}")]
    if op not in ("hom_rate", "hom_rate_series") or not _in_domain(body):
        return []
    if model_out.startswith("UNSUPPORTED") or model_out == "DRIVER-DIED":
        return []
    import vlib
    ok, why = vlib.compare_tokens(impl_out, model_out, TOL[op])
    t = body.split(" ")
    side = t[3]
    # the arrays are long: identify the case by grid, delay(s) and seed-independent leading tokens
    detail = (f"op={op} side={side} grid=({t[1]},{t[2]}) head={','.join(t[7:12])} impl={impl_out[:120].replace(' ', ',')} "
              f"interference_sum_formula={model_out[:120].replace(' ', ',')} {why.replace(' ', '_')}")
    return [("C09.integral", ok, "hom/rate-is-normalised-interference-sum", detail)]


def families(tier, seed):
    if tier == "quick":
        return [("hom", seed, 400, ["array"]), ("hom", seed, 40, ["setup"]), ("hom", seed, 4, ["history"])]
    return [("hom", seed, 6000, ["array"]), ("hom", seed, 400, ["setup"]), ("hom", seed, 16, ["history"])]
