ID = "C10"
DESIGN_REF = "DESIGN.md §3 C10"
TECHNIQUE = ("Lean 4 theorems over a hand-written executable model of hom_two_source_rate_series (eight flat grids, "
             "get_2d_indices/get_1d_index permutations, three |a - b p|^2 sums); matrix form F s i = f[i n + s], G = F^H F; "
             "tied to the code on real setups with the eight grids re-evaluated through the public jsa_range")
LEVEL_TEXT = ("Proved over the real/complex-arithmetic model for every side and every array: at zero delay with all six signal-idler grids "
              "equal, rate_ss = rate_ii = 1/2 (1 - tr(G^2)/tr(G)^2), so both visibilities equal tr(G^2)/tr(G)^2 = sum lambda^2/(sum lambda)^2 over the "
              "eigenvalues of G = F^H F (= sum sigma^4/(sum sigma^2)^2); the by-name views (HashMap / serde map) file every channel under its own name and convert back to the same result; rate_ss, rate_ii in [0,1] for every delay; rate_si in [0, 1/2(1+N1'N2'/(N1 N2))] "
              "(partial: <= 1 under N1'N2' <= N1N2, automatic when signal and idler axes coincide). The Float run of the model agrees with "
              "hom_two_source_rate_series / SPDC::hom_two_source_rate_series / hom_two_source_visibilities within rel 1e-10.")
LEVEL_NOTE = ("The array-level function takes JointSpectrum objects, so the eight grids are passed to the model as inputs, re-evaluated by the harness "
              "through the public JointSpectrum::jsa_range on the same eight (x-axis, y-axis) pairs the code uses; two-source delays of "
              "hom_two_source_time_delays are inputs as well. Purity oracle: nalgebra SVD of the complex matrix (abs 1e-9).")
OPS = {"hom2", "hom2_vis", "hom2_named", "hom2_unnamed"}
TOL = {"hom2": ("rel", 1e-10, 1e-13), "hom2_vis": ("rel", 1e-10, 2e-13), "hom2_named": ("exact",), "hom2_unnamed": ("exact",)}
DEFAULT_TOL = ("exact",)
RULE = ("family hom/two: random phase-matched setups (degenerate and non-degenerate) x sides 4-8 (quick) / 4-24 (thorough) x six kinds of range "
        "(optimum, identical axes, unequal widths, offset along/against the energy-conserving line, narrow far apart) x unsorted non-uniform delay lists {0, +-t, random[, random]} with the zero entry in any position (zero entry vs purity, every entry vs a single-delay call); "
        "identical sources through the SPDC-level wrappers and through the free function with the same reference, a clone and a second build of the same config, two different sources / two ranges through the array-level function; mismatched "
        "step counts for the three assert_eq!; the caller's integrator is the default in one case of three, otherwise Simpson 10/100/200 or "
        "Gauss-Legendre 6/16/40 (purity oracle and the eight grids sampled with the same integrator); family hom/twoloop: up to four different "
        "setups (a setup and length/bandwidth variants) on ONE common grid called in a loop from one call site - visibilities for all, delay scans "
        "for all, reversed, random interleaving - each against its own SVD purity and its own eight grids; every result of "
        "hom_two_source_visibilities / hom_two_source_rate_series is read through each public route by which a HomTwoSourceResult leaves the crate - "
        "struct fields, HashMap::from(result) (channels by name), the way back HomTwoSourceResult::from(map), the serde map and its Deserialize - "
        "and the statement's predicates are evaluated on the values of every route (K: hom2_named / hom2_unnamed, exact, including maps with a "
        "missing channel, a single channel, a foreign key and permuted key order); family hom/twowin: the setup against itself through the method, the free "
        "function and the zero entry of the method's rate series on windows that reach above the pump frequency (wavelength windows starting below the pump "
        "wavelength; frequency windows aligned with the energy-conserving line whose last point lies at w_p (1 + eps), eps from 0 and 1e-12 to 0.3; one axis only; "
        "descending), thin broadband BBO sources among the setups; family hom/twobig: sides 64-96 (more than 4096 grid points) on windows 0.3-0.6 of the optimum "
        "range (non-zero first and last rows), V_ss = V_ii = SVD purity and the zero entry of a two-delay scan (S only); two-source delay lists with structure "
        "(see C09) in one case of three; ranges with a shared first / last frequency")
RESIDUAL = ("rate_si <= 1 for unequal signal/idler axes is not a theorem (it needs N1'N2' <= N1N2; the search hunts for a counterexample); "
            "model fidelity and rounding are measured by the comparison")
CHECKER_MODULES = ["Spdc.Real.HomLemmas", "Spdc.Real.SchmidtLemmas", "Spdc.Real.TwoSrcLemmas"]


def families(tier, seed):
    if tier == "quick":
        return [("hom", seed, 30, ["two"]), ("hom", seed, 4, ["twoloop"]), ("hom", seed, 16, ["twowin"]), ("hom", seed, 2, ["twobig"])]
    return [("hom", seed, 200, ["two"]), ("hom", seed, 24, ["twoloop"]), ("hom", seed, 120, ["twowin"]), ("hom", seed, 8, ["twobig"])]


# ------------------------------------------------------------------------------------------------------------------------------
# COMPOSED model, part 3 — grid level (branch compose; Model/ComposeGrid.lean, notes/compose.md "Part 3") — purely additive block.
# The cmpg_* K lines carry ONLY the primitive setup, the range (kind F/W/SD, endpoints, step counts), the Simpson division count
# and the delays; Spdc.Model.ComposeGrid recomputes everything (JointSpectrum::new through the composed try_as_optimum, the
# spectra on the grid, group indices, correction factor, rates, HOM, Schmidt number) through all layers.
import os as _os3
import sys as _sys3
_sys3.path.insert(0, _os3.path.dirname(_os3.path.abspath(__file__)))
import _pmtol  # noqa: F401,E402  (tolerance kind "csum": |Δ| relative to the absolute quadrature scale printed next to the value)
OPS = set(OPS) | {'cmpg_hom2_series', 'cmpg_hom2_vis'}
TOL = dict(TOL)
TOL.update({'cmpg_hom2_series': ('csum', 1e-13), 'cmpg_hom2_vis': ('csum', 1e-13)})
RULE += ' | family compose/c10: the primitive-setup generator of parts 1-2 (11 crystals x 5 PM types, poled/unpoled, collinear/non-collinear, idler auto/explicit, 2/3 phase-matched) x a range around the centre frequencies (half-width 0.3-6 pump spectral widths per axis, 1/4 displaced so that part of it leaves the support; shapes 1xn, nx1, rectangles, squares, now and then an empty axis) given as FrequencySpace, WavelengthSpace or SumDiffFrequencySpace x Simpson divs from {4 (panic path of JointSpectrum::new), 5, 6, 7, 8, 10, 12, 20} (sides 1-4 (5 thorough), 1/8 with unequal step counts for the three assert_eq!): SPDC::hom_two_source_rate_series (ss, ii, si series) and SPDC::hom_two_source_visibilities of the setup against itself'
LEVEL_NOTE += ' COMPOSED MODEL part 3 (notes/compose.md): the cmpg_* K ops carry NO value computed by the real crate — only the primitive setup, the range specification (FrequencySpace / WavelengthSpace / SumDiffFrequencySpace endpoints and step counts), the Simpson division count and the delays; Spdc.Model.ComposeGrid evaluates JointSpectrum::new (centre values through the composed try_as_optimum), the spectra over the grid in the row-major order of the crate, group indices / get_counts_correction, the dw^2 rectangle sums, hom_time_delay, the HOM sums and the trace-form Schmidt number on top of the composed jsa/jsi/jsi_singles. The real side builds the SPDC from exactly these primitives and calls the public API. Values governed by the oscillatory z-quadrature are compared relative to the absolute quadrature scale (kind csum), singles (rayon 2-D sums, order not fixed) at rel 1e-6.'
CHECKER_MODULES = list(globals().get("CHECKER_MODULES", [])) + [_m for _m in ["Spdc.Real.ComposeLemmas", "Spdc.Real.ComposeAutoLemmas", "Spdc.Real.ComposeGridLemmas"] if _m not in globals().get("CHECKER_MODULES", [])]
_families_before_compose_grid = families


def families(tier, seed):
    return _families_before_compose_grid(tier, seed) + [("compose", seed, 150 if tier == "quick" else 2500, ["c10"])]
