ID = "C12"
DESIGN_REF = "DESIGN.md §3 C12"
TECHNIQUE = ("Lean 4 theorems over a hand-written executable model of src/math/integration.rs (panel identity + telescoping for Simpson, "
             "moment equations for node/weight rules, induction on the recursion fuel for adaptive Simpson), tied to the code by a "
             "correspondence run on complex polynomials and exp(ikx), plus a predicate search with the statement's tolerances on all five methods")
LEVEL_TEXT = ("Proved over the real/complex-arithmetic model for every accepted division count and every interval: composite Simpson "
              "(1-D and tensor 2-D) is exact on (bi-)cubics, negates under reversal, is linear and separable; any node/weight rule satisfying "
              "the moment equations up to degree m on [-1,1] is exact up to degree m on every [a,b]; adaptive Simpson is exact on cubics at "
              "every depth/tolerance, negates under reversal and makes at most 2^(depth+1)+1 evaluations; acceptance in 1-D implies acceptance "
              "in 2-D. The Float run of the same definitions agrees with the implementation to 1e-12 of the integral's scale.")
LEVEL_NOTE = ("Gauss–Legendre nodes/weights are taken from the gauss_quad crate (passed in on the K line) and checked against the moment "
              "equations in Float (1e-13); Gauss–Kronrod (quad-rs) and Clenshaw–Curtis (quadrature) are third-party and only observed "
              "through the predicates. Model fidelity is checked by correspondence, not proved; rounding error is measured only.")
OPS = {"simpson", "simpson2d", "adaptive", "adaptive2d", "gl", "gl2d", "glmom"}
# results are divided by the integral's scale S on both sides, so the absolute floor is relative to that scale
TOL = {op: ("rel", 1e-12, 1e-12) for op in ("simpson", "simpson2d", "adaptive", "adaptive2d", "gl", "gl2d")}
TOL["glmom"] = ("abs", 1e-13)
DEFAULT_TOL = ("exact",)
RULE = ("family quad: every division count 0..140 (quick) / 0..400 (thorough) in 1-D and 2-D with acceptance and weight recovery; seeded random "
        "complex polynomials (degree ≤ class+2), A·exp(ikx), bi-polynomials and separable products on unit, shifted, far, tiny and wide "
        "intervals in both orientations; Gauss–Legendre orders 2–64 with the moment equations; all five Integrator variants with "
        "tolerances 1e-3…1e-12 under a wall-clock cap per call, all on one worker thread (call histories): Gauss–Legendre in "
        "ascending order of node count with degrees up to 2n−1, and a sample of earlier calls repeated at the end (history independence); "
        "sub-run large: iteration / recursion budgets 1000–6000 (Gauss–Kronrod: derived from the measured need of the fast factor, "
        "55–92 % used), tolerances 1e-8…1e-12, 48–64 nodes, 390–400 divisions on separable exp×exp integrands whose 1-D factors are "
        "integrated first with the same Integrator value — accepted in 1-D ⇒ accepted, separable and accurate in 2-D")
RESIDUAL = ("Gauss–Kronrod and Clenshaw–Curtis accuracy/termination are observed, not proved; Gauss–Legendre exactness rests on the "
            "Float moment check of the library's nodes; floating-point rounding is measured by the comparison only")
TRUSTED_EXTRA = ["gauss_quad 0.2.4 node/weight generation (checked numerically against the moment equations on every run)",
                 "quad-rs 0.2.3 and quadrature 0.1.2 (observed only)"]


def families(tier, seed):
    n = 360 if tier == "quick" else 6000
    return [("quad", seed, n, ["core"]), ("quad", seed, 1, ["gk2d"]), ("quad", seed, 1, ["large"])]
