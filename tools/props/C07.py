import os
import sys
sys.path.insert(0, os.path.dirname(os.path.abspath(__file__)))
import _pmtol  # noqa: F401,E402  (adds the complex-aware tolerance kinds "crel"/"csum")

ID = "C07"
DESIGN_REF = "DESIGN.md §3 C07"
TECHNIQUE = ("Lean 4 theorems over a hand-written executable model of common_norm / jsi_normalization / jsi_singles_normalization / "
             "pump_spectral_amplitude / fwhm_to_spectral_width / invalid_frequencies / jsa_raw / jsi_singles_raw / "
             "JointSpectrum::{jsa,jsi,jsi_singles,*_normalized} / efficiencies_from_counts (ring identities, Real.exp_log, case "
             "analysis on the support test), tied to the code by a correspondence run (UCUM gram-based constants mirrored explicitly) "
             "plus a predicate search on the real code")
LEVEL_TEXT = ("Proved over the real-arithmetic model for every setup, every fixed-weight z-quadrature and every singles phase-matching "
              "function: the normalisations are linear in pump power and quadratic in deff while jsa_raw/jsi_singles_raw read neither, "
              "hence jsi, jsi_singles and all count rates scale by a·b²; efficiencies, the three normalised spectra and every degree-0 "
              "homogeneous functional of the joint amplitudes (Schmidt number, HOM visibilities) are unchanged; the envelope is 1 at the "
              "pump centre and its square is ½ at ± half the frequency span of the wavelength FWHM (0 < fwhm < 2λp); jsa_raw = envelope × "
              "phase-matching amplitude inside the support; every spectrum is the literal zero below the threshold and outside the box.")
LEVEL_NOTE = ("Model fidelity is checked, not proved. Layered correspondence: refractive indices, theta_external, waists, walk-off angle, "
              "k_eff, apodisation weights are inputs of the K ops. 'Finite wherever the wavelengths are inside the window' is checked by "
              "evaluation only (no theorem). Schmidt/HOM invariance is proved as invariance of any degree-0 homogeneous functional; that "
              "those functionals are homogeneous is C11/C09/C10's business.")
OPS = {"jsi_singles_raw", "pump_amp", "spectral_width", "norms", "jsa_raw", "jsa", "invalid_freq", "pm_consts"}
TOL = {"pump_amp": ("rel", 1e-11), "spectral_width": ("rel", 1e-11), "norms": ("rel", 1e-11), "jsa_raw": ("csum", 1e-10),
       "jsa": ("rel", 1e-11), "pm_consts": ("ulp", 1), "jsi_singles_raw": ("rel", 1e-12)}
DEFAULT_TOL = ("exact",)
RULE = ("family pm/k: random general setups × 2 frequency pairs (envelope, spectral width, normalisations, jsa_raw for several divs, "
        "constants); family pm/c07: setups (two thirds phase-matched by the crate's optimum calls) × {3 random pairs, 6 pairs on the "
        "threshold contour at relative offsets ±1e-12, ±1e-6, ±1e-2, 12 off-box pairs incl. ±1 ulp edges of every face of the box, 4 "
        "pairs just inside the box} × one (power, deff) scale pair log-uniform over 6 decades each; every other setup a 4×4 (6×6 "
        "thorough) grid for rates, efficiencies, Schmidt number, HOM visibility, two-source HOM of the setup against its rescaled copy "
        "(free functions, both orders); thresholds 1e-2/1e-4/0.25 × 14 envelope targets around the threshold and in [thr, sqrt(thr)); every 4th setup a sequence of 11 "
        "(power, deff) variants down to 1e-6 mW / 1e-6 pm/V and differing in the 5th–8th digit, fresh JointSpectrum each, shuffled, re-checked; "
        "per setup 3 clones with the pump bandwidth log-uniform over 1e-20…1e-7 m (one in six 2–150 % of the pump wavelength): envelope "
        "centre / half-span / full-span, pump_amp and spectral_width K ops, |jsa_raw| = 2^-½·|pm| and jsi_singles_raw = ½·fs at a pair whose "
        "sum sits at half span; the c07 generator widens (each with probability 1/8) bandwidth 1e-20…1e-7 m, threshold 10^-0.05…10^-300, "
        "power 1e-6…1e6 mW, deff 1e-4…1e4 pm/V, the three waists 2 µm…2 cm, crystal length 20 µm…0.3 m")
RESIDUAL = ("finiteness inside the transmission window (non-vanishing of A1, A2, denom1·denom2, no overflow in exp) is checked by "
            "evaluation only; floating-point rounding is measured (linearity ≤ ~1e-15, invariance ≤ ~1e-13)")
TRUSTED_EXTRA = ["tools/props/_pmtol.py: complex-aware comparison (|Δ| relative to the modulus / to the absolute quadrature sum)"]
CHECKER_MODULES = ["Spdc.Real.Jsa"]


def families(tier, seed):
    if tier == "quick":
        return [("pm", seed, 600, ["k"]), ("pm", seed, 500, ["c07"])]
    return [("pm", seed, 4000, ["k"]), ("pm", seed, 4000, ["c07"])]


# ------------------------------------------------------------------------------------------------------------------------------
# COMPOSED end-to-end model (branch compose; Model/Compose.lean, notes/compose.md) — purely additive block.
# Primitive setup only on the K line; envelope, jsa_raw, normalisations, jsa and jsi are recomputed through ALL layers
# (Sellmeier → Fresnel → beams → Snell → walk-off → poling → integrand → Simpson → envelope/support → normalisation).
# Observed worst: envelope and normalisations bit-for-bit, jsa_raw / jsa 4.4e-16 and jsi 7.4e-16 of the absolute quadrature
# scale (3 seeds × 3000 setups × 4 pairs); the singles function (2-D Simpson, rayon sum, no absolute-sum scale available from
# the crate) ≤ 1e-10 typical, 2.9e-8 at one cancellation-dominated point.
OPS = set(OPS) | {"cmp_pump_amp", "cmp_jsa_raw", "cmp_norm", "cmp_jsa", "cmp_jsi", "cmp_pm_singles", "cmp_jsi_singles"}
TOL = dict(TOL)
TOL.update({"cmp_pump_amp": ("ulp", 4), "cmp_jsa_raw": ("csum", 5e-14), "cmp_norm": ("ulp", 16), "cmp_jsa": ("csum", 5e-14),
            "cmp_jsi": ("csum", 1e-13), "cmp_pm_singles": ("rel", 1e-6), "cmp_jsi_singles": ("rel", 1e-6)})
RULE += ' | family compose/c07: the same primitive-setup generator × 4 frequency pairs (centre; detuned; on the pump line ωs+ωi = ωp with |ωs−ωi|/ωp ∈ [0.70, 0.80] across the ¾ box; signal detuned by up to 6 spectral widths across the threshold contour): envelope, jsa_raw, both normalisations, JointSpectrum::jsa / jsi (Simpson divs ∈ {10,20,50}); at the centre of phase-matched setups also phasematch_singles_fiber_coupling and JointSpectrum::jsi_singles (2-D Simpson, divs ∈ {4,6,8})'
LEVEL_NOTE += ' COMPOSED MODEL (notes/compose.md): the cmp_* K ops are NOT layered — their K line carries only the primitive setup (crystal id, angles, length, temperature, PM type, wavelengths, internal signal/idler angles, waists, waist positions, bandwidth, power, threshold, deff, signed poling period + window) and Spdc.Model.Compose recomputes the printed quantity through every layer model (Crystals → Index → Beam/Units → DeltaK → Poling → PM → Quad → Norm/Jsa → Singles); the real side is an SPDC rebuilt from exactly these primitives by Beam::new / PumpBeam::from / PeriodicPoling::new / SPDC::new (+ assign_optimum_idler for idler "auto"). Outside the composition (their RESULTS are primitives): Snell inverse, optimum_theta, optimum_poling_period.'
CHECKER_MODULES = list(CHECKER_MODULES) + ["Spdc.Real.ComposeLemmas"]
_families_layered = families


def families(tier, seed):
    return _families_layered(tier, seed) + [("compose", seed, 1500 if tier == "quick" else 10000, ["c07"])]
