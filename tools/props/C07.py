import os
import sys
sys.path.insert(0, os.path.dirname(os.path.abspath(__file__)))
import _pmtol  # noqa: F401,E402  (adds the complex-aware tolerance kinds "crel"/"csum")

ID = "C07"
DESIGN_REF = "DESIGN.md §3 C07"
TECHNIQUE = ("Lean 4 theorems over a hand-written executable model of common_norm / jsi_normalization / jsi_singles_normalization / "
             "pump_spectral_amplitude / fwhm_to_spectral_width / invalid_frequencies / jsa_raw / jsi_singles_raw / "
             "JointSpectrum::{jsa,jsi,jsi_singles,*_normalized} / efficiencies_from_counts (ring identities, Real.exp_log, case "
             "analysis on the support test), tied to the code by a correspondence run (UCUM gram-based constants mirrored explicitly) "
             "plus a predicate search on the real code")
LEVEL_TEXT = ("Proved over the real-arithmetic model for every setup, every fixed-weight z-quadrature and every singles phase-matching "
              "function: the normalisations are linear in pump power and quadratic in deff while jsa_raw/jsi_singles_raw read neither, "
              "hence jsi, jsi_singles and all count rates scale by a·b²; efficiencies, the three normalised spectra and every degree-0 "
              "homogeneous functional of the joint amplitudes (Schmidt number, HOM visibilities) are unchanged; the envelope is 1 at the "
              "pump centre and its square is ½ at ± half the frequency span of the wavelength FWHM (0 < fwhm < 2λp); jsa_raw = envelope × "
              "phase-matching amplitude inside the support; every spectrum is the literal zero below the threshold and outside the box.")
LEVEL_NOTE = ("Model fidelity is checked, not proved. Layered correspondence: refractive indices, theta_external, waists, walk-off angle, "
              "k_eff, apodisation weights are inputs of the K ops. 'Finite wherever the wavelengths are inside the window' is checked by "
              "evaluation only (no theorem). Schmidt/HOM invariance is proved as invariance of any degree-0 homogeneous functional; that "
              "those functionals are homogeneous is C11/C09/C10's business.")
OPS = {"jsi_singles_raw", "pump_amp", "spectral_width", "norms", "jsa_raw", "jsa", "invalid_freq", "pm_consts"}
TOL = {"pump_amp": ("rel", 1e-11), "spectral_width": ("rel", 1e-11), "norms": ("rel", 1e-11), "jsa_raw": ("csum", 1e-10),
       "jsa": ("rel", 1e-11), "pm_consts": ("ulp", 1), "jsi_singles_raw": ("rel", 1e-12)}
DEFAULT_TOL = ("exact",)
RULE = ("family pm/k: random general setups × 2 frequency pairs (envelope, spectral width, normalisations, jsa_raw for several divs, "
        "constants); family pm/c07: setups (two thirds phase-matched by the crate's optimum calls) × {3 random pairs, 6 pairs on the "
        "threshold contour at relative offsets ±1e-12, ±1e-6, ±1e-2, 12 off-box pairs incl. ±1 ulp edges of every face of the box, 4 "
        "pairs just inside the box} × one (power, deff) scale pair log-uniform over 6 decades each; every other setup a 4×4 (6×6 "
        "thorough) grid for rates, efficiencies, Schmidt number, HOM visibility, two-source HOM of the setup against its rescaled copy "
        "(free functions, both orders); thresholds 1e-2/1e-4/0.25 × 14 envelope targets around the threshold and in [thr, sqrt(thr)); every 4th setup a sequence of 11 "
        "(power, deff) variants down to 1e-6 mW / 1e-6 pm/V and differing in the 5th–8th digit, fresh JointSpectrum each, shuffled, re-checked")
RESIDUAL = ("finiteness inside the transmission window (non-vanishing of A1, A2, denom1·denom2, no overflow in exp) is checked by "
            "evaluation only; floating-point rounding is measured (linearity ≤ ~1e-15, invariance ≤ ~1e-13)")
TRUSTED_EXTRA = ["tools/props/_pmtol.py: complex-aware comparison (|Δ| relative to the modulus / to the absolute quadrature sum)"]
CHECKER_MODULES = ["Spdc.Real.Jsa"]


def families(tier, seed):
    if tier == "quick":
        return [("pm", seed, 600, ["k"]), ("pm", seed, 500, ["c07"])]
    return [("pm", seed, 4000, ["k"]), ("pm", seed, 4000, ["c07"])]
