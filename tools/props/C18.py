ID = "C18"
DESIGN_REF = "DESIGN.md §3 C18"
TECHNIQUE = ("Lean 4 theorems over a hand-written executable model of spdc_iter.rs::get_setter / SPDCIter and the configuration view "
             "(25-way case analysis, unit identities over ℝ, Steps2D order from the grid model); tied to the code by correspondence of "
             "SPDCIter::try_new(..).into_iter() → as_config against the model for every path, plus the statement's predicates on the real code")
LEVEL_TEXT = ("Proved over the model for all 25 paths, all base setups and all values: as_config(setter p s v) = as_config(s) with exactly the "
              "field named by p replaced by sigfigs of the requested value (THz as 10¹² cycles/s seen as wavelength, external angles as the "
              "Snell-internal angle, poling period as magnitude with the derived sign); unknown path strings are rejected; a sweep has "
              "nx·ny elements in row-major order, element k = both setters applied to Steps2D.value k.")
LEVEL_NOTE = ("Snell inversion and the poling sign are parameters (`Ext`), passed in from explicit public calls on correspondence lines. "
              "Angle rows are stated for values in the canonical interval of the field. Model fidelity is checked, not proved. "
              "sweep_snell ties the angle an external-angle path stores to the model of the Snell inversion (Beam.snellInternal over NM1D); "
              "its inputs are the principal indices of the swept setup's crystal (CrystalType::get_indices), orientation, azimuth, polarization.")
OPS = {"sweep_pt", "sweep_order", "path_parse", "sweep_snell"}
TOL = {"sweep_pt": ("ulp", 4), "sweep_order": ("ulp", 4), "sweep_snell": ("rel", 1e-9, 1e-12)}
DEFAULT_TOL = ("exact",)
RULE = ("family sweep: 25 paths + 31 near-miss names + random one-edit mutants; every path × partner path × values across the field's range × "
        "4 fixed + seeded random base setups (poling off / auto / apodized, collinear / non-collinear) through SPDCIter 1×1 sweeps both "
        "orders; non-canonical values (angles beyond their interval, negative periods / external angles) on the correspondence side; "
        "sweep shapes 0×3 … 7×5; jsi_values against individually constructed setups; shapes with 63…1025 (thorough: …10000) points around the "
        "block sizes 64/128/256/512/1024, 1×n, n×1, empty: order and every cell of jsi_values / jsi_values_normalized; "
        "expression crystals (BBO formula, YVO4, quartz, positive uniaxial with dn/dT, two biaxial) × 5 phase-matching types as bases; both "
        "external-angle paths 0…60° alone and after crystal angle / temperature / wavelength / azimuth setters: sin θe = n(θi)·sin θi through "
        "Beam::refractive_index (1e-4°), the stored angle against the Snell model, jsi_values against setups built with a bisection Snell solve")
RESIDUAL = "none beyond model fidelity; jsi_values are compared implementation against itself"


def families(tier, seed):
    n = 300 if tier == "quick" else 8000
    return [("sweep", seed, n, [])]
