#!/usr/bin/env python3
"""Untrusted generator of the C01-T4 partition certificates (lean/Spdc/Real/CrystalCertData.lean).

For every comparison `small + margin < big` of two squared-index functions that are antitone on the
window [a, b] (µm) it finds rational points a = p0 < p1 < … < pN = b with
    small(p_i) + margin < big(p_{i+1}),
greedily with exact rational arithmetic.  The Lean kernel re-evaluates the chain (`decide +kernel`
on the ℚ instance of the model); nothing here is trusted.

LiNb_MgO gets a 2-D grid (wavelength cells × F cells), see `mgo_grid`.
"""
from fractions import Fraction as Fr
import os
import sys

D = Fr  # shorthand


def dec(s):
    return Fr(s)


def sellA(A, P, C, Dd):
    A, P, C, Dd = map(dec, (A, P, C, Dd))
    return lambda l: A + P / (l * l - C) - Dd * (l * l)


def sellB(A, B, C, Dd):
    A, B, C, Dd = map(dec, (A, B, C, Dd))
    return lambda l: A + B * (l * l) / (l * l - C) - Dd * (l * l)


def sellK(A, B, C1, P, C2):
    A, B, C1, P, C2 = map(dec, (A, B, C1, P, C2))
    return lambda l: A + B * (l * l) / (l * l - C1) + P / (l * l - C2)


def sellP(A, P, C):
    A, P, C = map(dec, (A, P, C))
    return lambda l: A + P / (l * l - C)


def sellInv(A, B1, c1, B2, c2):
    A, B1, c1, B2, c2 = map(dec, (A, B1, c1, B2, c2))
    return lambda l: A + B1 / (1 - (c1 / l) ** 2) + B2 / (1 - (c2 / l) ** 2)


def sellStd(a, b1, b2, c1, c2):
    a, b1, b2, c1, c2 = map(dec, (a, b1, b2, c1, c2))
    return lambda l: a + (b1 / (l * l - c1) + b2 / (l * l - c2)) * (l * l)


F = {
    "bboNoSq": sellA("2.7359", "0.01878", "0.01822", "0.01354"),
    "bboNeSq": sellA("2.3753", "0.01224", "0.01667", "0.01516"),
    "ktpNxSq": sellB("2.10468", "0.89342", "0.04438", "0.01036"),
    "ktpNySqLo": sellB("2.14559", "0.87629", "0.0485", "0.01173"),
    "ktpNySqHi": sellB("2.0993", "0.922683", "0.0467695", "0.0138408"),
    "ktpNzSq": sellB("1.9446", "1.3617", "0.047", "0.01491"),
    "biboNxSq": sellA("3.0740", "0.0323", "0.0316", "0.01337"),
    "biboNySq": sellA("3.1685", "0.0373", "0.0346", "0.01750"),
    "biboNzSq": sellA("3.6545", "0.0511", "0.0371", "0.0226"),
    "lnNoSq": sellA("4.9048", "0.11768", "0.04750", "0.027169"),
    "lnNeSq": sellA("4.5820", "0.099169", "0.044432", "0.021950"),
    "kdpNoSq": sellK("2.259276", "13.005522", "400", "0.01008956", "0.012942625"),
    "kdpNeSq": sellK("2.132668", "3.2279924", "400", "0.008637494", "0.012281043"),
    "ags1NoSq": sellInv("3.9362", "2.9113", "0.38821", "1.7954", "40"),
    "ags1NeSq": sellInv("3.3132", "3.3616", "0.38201", "1.7677", "40"),
    "ags2NoSq": sellInv("4.6453", "2.2057", "0.43347", "1.8377", "40"),
    "ags2NeSq": sellInv("5.2912", "1.3970", "0.53339", "1.9282", "40"),
    "lio2NoSq": sellP("3.4095", "0.047664", "0.033991"),
    "lio2NeSq": sellP("2.9163", "0.034514", "0.031034"),
    "lio1NoSq": sellStd("2.03132", "1.37623", "1.06745", "0.0350832", "169"),
    "lio1NeSq": sellStd("1.83086", "1.08807", "0.554582", "0.031381", "158.76"),
    "agsNoSq": sellStd("3.628", "2.1686", "2.1753", "0.1003", "950"),
    "agsNeSq": sellStd("4.0172", "1.5274", "2.1699", "0.131", "950"),
}

# (name, big, small, a, b, delta) : delta = 180 K × |dn_small − dn_big|
COMPARISONS = [
    ("bbo", "bboNoSq", "bboNeSq", "0.189", "3.5", Fr(180) * Fr("7.3e-6")),
    ("ktpZX", "ktpNzSq", "ktpNxSq", "0.35", "3.5", Fr(180) * Fr("0.5e-5")),
    ("ktpZYLo", "ktpNzSq", "ktpNySqLo", "0.35", "3.5", Fr(180) * Fr("0.3e-5")),
    ("ktpZYHi", "ktpNzSq", "ktpNySqHi", "0.35", "3.5", Fr(180) * Fr("0.3e-5")),
    ("biboZX", "biboNzSq", "biboNxSq", "0.286", "2.5", Fr(0)),
    ("biboZY", "biboNzSq", "biboNySq", "0.286", "2.5", Fr(0)),
    ("ln", "lnNoSq", "lnNeSq", "0.4", "3.4", Fr(180) * Fr("39.947e-6")),
    ("kdp", "kdpNoSq", "kdpNeSq", "0.2", "1.5", Fr(0)),
    ("ags1", "ags1NoSq", "ags1NeSq", "1", "13.5", Fr(0)),
    ("ags2", "ags2NoSq", "ags2NeSq", "1", "13.5", Fr(0)),
    ("lio2", "lio2NoSq", "lio2NeSq", "0.3", "5", Fr(0)),
    ("lio1", "lio1NoSq", "lio1NeSq", "0.3", "5", Fr(0)),
    ("ags", "agsNoSq", "agsNeSq", "0.5", "13", Fr(180) * Fr("0.1e-5")),
]

GRID = 10000  # points are multiples of 1/GRID µm


def margin(delta):
    return Fr("7.94") * delta + delta * delta


def chain(big, small, a, b, m):
    f, g = F[big], F[small]
    pts = [a]
    p = a
    while p < b:
        gp = g(p) + m
        if not gp < f(p):
            raise SystemExit(f"no gap at {float(p)} for {big}/{small}")
        # largest q on the grid in (p, b] with gp < f(q); f antitone ⇒ bisection
        lo = int(p * GRID)  # holds (as p itself does) — need q > p
        hi = int(b * GRID)
        if gp < f(b):
            q = b
        else:
            # invariant: cond(lo) true, cond(hi) false
            while hi - lo > 1:
                mid = (lo + hi) // 2
                if gp < f(Fr(mid, GRID)):
                    lo = mid
                else:
                    hi = mid
            q = Fr(lo, GRID)
            if q <= p:
                raise SystemExit(f"grid too coarse at {float(p)} for {big}/{small}")
        pts.append(q)
        p = q
    return pts


# ------------------------------------------------------------------ LiNb_MgO: 2-D grid
FLO, FHI = Fr("-38801.09"), Fr("135278.91")


def mgo_no_lb(F0, F1, l1):
    x = l1 * l1
    return (Fr("5.653") + Fr("7.941e-7") * F0 + (Fr("0.1185") + Fr("3.134e-8") * F0) / (x - (Fr("0.2091") - Fr("4.641e-9") * F1) ** 2)
            + (Fr("89.61") - Fr("2.188e-6") * F0) / (x - Fr("10.85") ** 2) - Fr("1.97e-2") * x)


def mgo_ne_ub(F0, F1, l0):
    x = l0 * l0
    return (Fr("5.756") + Fr("2.86e-6") * F1 + (Fr("0.0983") + Fr("4.7e-8") * F1) / (x - (Fr("0.2020") + Fr("6.113e-8") * F1) ** 2)
            + (Fr("189.32") + Fr("1.516e-4") * F0) / (x - Fr("12.52") ** 2) - Fr("1.32e-2") * x)


def mgo_grid(kf=12, grid=1000):
    """tensor grid: kf equal F cells × a greedy wavelength partition valid for every F cell"""
    fs = [FLO + (FHI - FLO) * i / kf for i in range(kf + 1)]
    a, b = Fr("0.44"), Fr(4)
    pts = [a]
    p = a
    while p < b:
        def ok(q):
            return all(mgo_ne_ub(fs[i], fs[i + 1], p) < mgo_no_lb(fs[i], fs[i + 1], q) for i in range(kf))
        if ok(b):
            q = b
        else:
            lo, hi = int(p * grid), int(b * grid)
            if not ok(Fr(lo + 1, grid)):
                raise SystemExit(f"mgo: grid too coarse at {float(p)}")
            lo += 1
            while hi - lo > 1:
                mid = (lo + hi) // 2
                if ok(Fr(mid, grid)):
                    lo = mid
                else:
                    hi = mid
            q = Fr(lo, grid)
        pts.append(q)
        p = q
    return fs, pts


def q_lit(x):
    x = Fr(x)
    return f"({x.numerator} : Rat) / {x.denominator}" if x.denominator != 1 else f"({x.numerator} : Rat)"


def main():
    out = []
    out.append("-- GENERATED by tools/c01_cert.py (untrusted) — partition certificates for C01-T4; the chains are")
    out.append("-- re-checked by the Lean kernel in Spdc/Real/CrystalCert.lean")
    out.append("namespace Spdc.Crystals.Cert")
    total = 0
    for (name, big, small, a, b, delta) in COMPARISONS:
        a, b = Fr(a), Fr(b)
        m = margin(delta)
        pts = chain(big, small, a, b, m)
        total += len(pts)
        out.append(f"/-- {small} + margin < {big} on [{a}, {b}] µm: {len(pts)} points, δ = {float(delta):.6g}, margin = {float(m):.6g} -/")
        out.append(f"def {name}Delta : Rat := {q_lit(delta)}")
        out.append(f"def {name}Pts : List Rat := [" + ", ".join(q_lit(p) for p in pts[1:]) + "]")
        print(f"{name}: {len(pts)} points, margin {float(m):.4g}, min gap {min(float(F[big](p) - F[small](p)) for p in pts):.4g}", file=sys.stderr)
    fs, lp = mgo_grid()
    out.append(f"/-- LiNb_MgO: {len(fs) - 1} F cells × {len(lp) - 1} wavelength cells -/")
    out.append("def mgoFs : List Rat := [" + ", ".join(q_lit(x) for x in fs[1:]) + "]")
    out.append("def mgoLs : List Rat := [" + ", ".join(q_lit(x) for x in lp[1:]) + "]")
    print(f"mgo: {len(fs) - 1} x {len(lp) - 1} cells", file=sys.stderr)
    out.append("end Spdc.Crystals.Cert")
    here = os.path.dirname(os.path.abspath(__file__))
    path = os.path.join(here, "..", "lean", "Spdc", "Real", "CrystalCertData.lean")
    open(path, "w").write("\n".join(out) + "\n")
    print(f"wrote {os.path.normpath(path)} ({total} points)", file=sys.stderr)


if __name__ == "__main__":
    main()
