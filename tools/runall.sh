#!/bin/bash
# tools/runall.sh [tier] : run every claimed check in /verif against /repo, summarise
cd "$(dirname "$0")/.."
tier="${1:-quick}"
for p in $(python3 -c "import json; print(' '.join(c['property_id'] for c in json.load(open('MANIFEST.json'))['checks']))"); do
  out=$(./check $p --tier $tier 2>&1); rc=$?
  echo "$p rc=$rc $(echo "$out" | grep "^\[$p\]" | cut -c1-170)"
  [ $rc -ne 0 ] && echo "$out" | grep -E "VIOLATION|broken|disagreement" | head -5
done
