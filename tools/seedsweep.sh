#!/bin/bash
# tools/seedsweep.sh <tier> <seed>… : every property under several seeds (false-alarm hunt); run from a checkout after ./setup.sh
tier="$1"; shift
for s in "$@"; do
  for p in C01 C02 C03 C04 C05 C06 C07 C08 C09 C10 C11 C12 C13 C14 C15 C16 C17 C18 C19 C20; do
    out=$(VERIF_SEED=$s ./check $p --tier $tier 2>&1); rc=$?
    echo "seed=$s $p rc=$rc $(echo "$out" | grep "^\[$p\]" | cut -c1-160)"
    [ $rc -ne 0 ] && echo "$out" | grep -E "VIOLATION|broken|disagreement" | head -5
  done
done
