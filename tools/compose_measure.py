#!/usr/bin/env python3
"""tools/compose_measure.py [seed] [n] [tier] [mode]

Runs the `compose` harness family, feeds the K lines to the model driver and prints, per op, the
worst observed disagreement between the real crate and the COMPOSED model (ulp distance of float
tokens, relative error; for the (re, im, scale) ops the error relative to the absolute quadrature
sum).  Used to set the tolerances of the cmp_* ops (see notes/compose.md); not part of ./check.
"""
import math
import os
import sys

sys.path.insert(0, os.path.dirname(os.path.abspath(__file__)))
import vlib  # noqa: E402

CSUM = {"cmp_pm_coinc", "cmp_jsa_raw", "cmp_jsa", "cmp_jsi", "cmpa_jsi_from_config",
        "cmpg_jsa_range", "cmpg_jsi_range", "cmpg_jsa_normalized_range", "cmpg_jsi_normalized_range", "cmpg_counts_coinc",
        "cmpg_hom_series", "cmpg_hom_vis", "cmpg_hom2_series", "cmpg_hom2_vis", "cmpg_schmidt"}
CREL = {"cmp_integrand"}


def main():
    seed = int(sys.argv[1]) if len(sys.argv) > 1 else 1
    n = int(sys.argv[2]) if len(sys.argv) > 2 else 200
    tier = sys.argv[3] if len(sys.argv) > 3 else "quick"
    mode = sys.argv[4] if len(sys.argv) > 4 else "all"
    rc, lines, err = vlib.run_family("compose", seed, n, tier, [mode])
    if rc != 0:
        print("harness rc", rc, err[-2000:])
    bodies, expects = [], []
    for l in lines:
        if l.startswith("K "):
            body, _, exp = l[2:].partition(" => ")
            bodies.append(body)
            expects.append(exp.strip())
    outs = vlib.run_model(bodies)
    stats = {}
    worst_case = {}
    for body, exp, got in zip(bodies, expects, outs):
        op = body.split(" ", 1)[0]
        st = stats.setdefault(op, {"n": 0, "tokmis": 0, "ulp": 0, "rel": 0.0, "csum": 0.0, "nonfl": 0, "nan": 0, "exactzero": 0})
        st["n"] += 1
        e, g = exp.split(), got.split()
        if len(e) != len(g):
            st["tokmis"] += 1
            worst_case.setdefault((op, "tokmis"), (body[:300], exp[:200], got[:200]))
            continue
        if op in CSUM or op in CREL:
            step = 3 if op in CSUM else 2
            for i in range(0, len(e), step):
                ve = [vlib.parse_fl(t) for t in e[i:i + step]]
                vg = [vlib.parse_fl(t) for t in g[i:i + step]]
                if any(v is None for v in ve + vg):
                    if e[i:i + step] != g[i:i + step]:
                        st["nonfl"] += 1
                        worst_case.setdefault((op, "nonfl"), (body[:300], exp[:200], got[:200]))
                    continue
                if not all(math.isfinite(v) for v in ve + vg):
                    same = all((a != a and b != b) or a == b for a, b in zip(ve, vg))
                    if not same:
                        st["nan"] += 1
                        worst_case.setdefault((op, "nan"), (body[:300], exp[:200], got[:200]))
                    continue
                a, b = complex(ve[0], ve[1]), complex(vg[0], vg[1])
                d = abs(a - b)
                if step == 3:
                    ref = max(abs(ve[2]), abs(vg[2]))
                    if ref == 0:
                        st["exactzero"] += 1
                        if d != 0:
                            st["nonfl"] += 1
                        continue
                    # the two scales must agree too
                    r = max(d / ref, abs(ve[2] - vg[2]) / ref * 1e-4)
                else:
                    ref = max(abs(a), abs(b))
                    r = d / ref if ref > 0 else 0.0
                if r > st["csum"]:
                    st["csum"] = r
                    worst_case[(op, "csum")] = (body[:400], exp[:200], got[:200])
            continue
        for x, y in zip(e, g):
            if x == y:
                continue
            fx, fy = vlib.parse_fl(x), vlib.parse_fl(y)
            if fx is None or fy is None:
                st["nonfl"] += 1
                worst_case.setdefault((op, "nonfl"), (body[:300], exp[:200], got[:200]))
                continue
            if fx != fx and fy != fy:
                continue
            if fx != fx or fy != fy or math.isinf(fx) or math.isinf(fy):
                if fx != fy:
                    st["nan"] += 1
                    worst_case.setdefault((op, "nan"), (body[:300], exp[:200], got[:200]))
                continue
            u = vlib.ulp_diff(x, y)
            m = max(abs(fx), abs(fy))
            r = abs(fx - fy) / m if m > 0 else 0.0
            if u > st["ulp"]:
                st["ulp"] = u
                worst_case[(op, "ulp")] = (body[:400], exp[:300], got[:300])
            st["rel"] = max(st["rel"], r)
    for op in sorted(stats):
        s = stats[op]
        bad = s["tokmis"] or s["nonfl"] or s["nan"] or s["ulp"] > 64 or s["csum"] > 1e-13
        if os.environ.get("ONLY_BAD") and not bad:
            continue
        print(f"{op:22s} n={s['n']:6d} token-count-mismatch={s['tokmis']} non-float-mismatch={s['nonfl']} nan-mismatch={s['nan']} "
              f"max-ulp={s['ulp']} max-rel={s['rel']:.3e} max-cplx/sum-rel={s['csum']:.3e} exact-zero-groups={s['exactzero']}")
    if os.environ.get("SHOW_WORST"):
        for k, v in sorted(worst_case.items()):
            print(k)
            for t in v:
                print("   ", t)
    dist = [l for l in lines if l.startswith("D ")]
    if os.environ.get("SHOW_DIST"):
        print("\n".join(dist))


if __name__ == "__main__":
    main()
