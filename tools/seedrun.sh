#!/bin/bash
# tools/seedrun.sh <patch.diff> <Cxx> [<Cyy> …] : run checks against a scratch copy of /repo with the patch applied
set -u
patch="$(realpath "$1")"; shift
wt=/tmp/seedrun-$$
git -C /repo worktree add -q "$wt" HEAD || exit 2
trap 'git -C /repo worktree remove --force "$wt" >/dev/null 2>&1' EXIT
git -C "$wt" apply "$patch" || { echo "APPLY FAIL"; exit 1; }
cd /verif
for p in "$@"; do
  VERIF_REPO="$wt" ./check "$p" | grep -E "^(VIOLATION|KNOWN-FINDING|\[C)" 
  echo "exit=$?"
done
