#!/usr/bin/env python3
"""prints the brief for an independent seeded-change agent for property <id> (property text only)"""
import json, sys
pid = sys.argv[1]
for l in open('/verif/properties.jsonl'):
    p = json.loads(l)
    if p['id'] == pid:
        break
wt = f"/tmp/seed-{pid}"
print(f"""You are testing how well an (unseen) verification suite detects regressions in the Rust crate spdcalc (a calculator for spontaneous parametric down-conversion: refractive indices, phase matching, joint spectra, count rates, HOM visibility). You have your own scratch git worktree of the repository at {wt} (create it first with: git -C /repo worktree add {wt} HEAD). Work ONLY inside {wt}. Do NOT read, list or search anything under /verif or /work, and do not modify /repo itself (no commits there, no edits in place). Use a private cargo target dir: export CARGO_TARGET_DIR={wt}/target ; always pass --offline to cargo (there is no network).

Here is one semantic property the crate is supposed to satisfy:

  id: {pid}
  title: {p['title']}
  statement: {p['statement']}
  quantified over: {p['quantifier']['text']}
  why the existing tests cannot settle it: {p['why_tests_cant']}
  code it is anchored in: {', '.join(p['anchors']['files'])}

Your job: produce TWO independent, realistic code changes (the kind of slip or "optimisation" a maintainer could plausibly make) to the crate's source, each of which
  (a) BREAKS this property,
  (b) still compiles without new warnings-as-errors, and
  (c) still passes the existing unit-test suite: `cargo test --offline --lib` must show exactly the same 35 tests passing as on the unchanged tree (7 tests — jsa::joint_spectrum::tests::test_normalized_jsa and six under phasematch::{{coincidences,singles}}::tests — fail on the unchanged tree already; ignore those, but no other test may start failing), and
  (d) needs something SPECIFIC to manifest — an unusual input or parameter region, a particular multi-step sequence of operations, a particular split/interleaving, a boundary value, or two cooperating sites that each look fine alone — NOT something ordinary use (default setup, typical parameters) would expose at once. Subtle is better than blatant: the two changes should be of different kinds and touch different functions.
For each change also write a DEMONSTRATION: a small Rust integration test file (tests/seed_demo_<k>.rs in the worktree, using only the crate's public API) that PASSES on the unchanged tree and FAILS with the change applied, and that checks the property's own statement (with its own tolerances), not an implementation detail.

Procedure: read the anchored code; run the baseline `cargo test --offline --lib` once to see the 35 passing tests; design change 1; apply it; run the lib tests and your demo (`cargo test --offline --test seed_demo_1`); then `git stash`/revert and confirm the demo passes on the unchanged tree; same for change 2. Each change must apply on its own to the unchanged tree.

Deliver, for k = 1, 2, in {wt}/out/<k>/ : patch.diff (output of `git diff -- src` for that change alone, applicable with `git apply` at the repository root), seed_demo_<k>.rs (the demonstration), and README.md (what the change is, why it breaks the property, what is needed for it to manifest, the exact commands you ran and their pass/fail results with and without the change). Leave the worktree in the UNCHANGED state (git checkout -- src) with the out/ directory and the demo files present. Your final message: a 10-line summary of the two changes and what triggers them.""")
