import Spdc.Driver.All
/-!
Line-protocol driver: reads `<op> <args…> [=> …]` lines, prints the model's `<outs…>` per line.
Lines it cannot serve are answered with `UNSUPPORTED`.
-/
open Spdc.Driver

def serve (line : String) : String :=
  let body := (line.splitOn " => ").headD ""
  match (body.trimAscii.toString.splitOn " ").filter (· ≠ "") with
  | [] => "UNSUPPORTED"
  | op :: args =>
    match dispatch op args with
    | some out => out
    | none => "UNSUPPORTED"

partial def loop (h : IO.FS.Stream) (out : IO.FS.Stream) : IO Unit := do
  let line ← h.getLine
  if line.isEmpty then return ()
  out.putStrLn (serve line)
  loop h out

def main : IO Unit := do
  let out ← IO.getStdout
  loop (← IO.getStdin) out
  out.flush
