import Spdc.Model.Num
import Spdc.Model.Cx
import Spdc.Model.PM
import Spdc.Model.Norm
/-!
# M10c — raw and normalised joint spectrum (mirrors `src/jsa/joint_spectrum.rs`,
`src/spdc/counts.rs`)

`jsa_raw`, `invalid_frequencies`, the threshold short-circuit, `JointSpectrum::{jsa,jsi,jsi_singles}`
and the idler-singles route through the exchanged setup.  The z-quadrature is any fixed weighted sum
(`nodes`, `scale`); the singles phase-matching function (2-D integral of `singles.rs`) is a
parameter `sr : Setup α → α → α → α`.
-/
namespace Spdc.PM

/-- the scalars of an `SPDC` that the joint spectrum reads besides the integrand's `Setup` -/
structure JSetup (α : Type) extends Setup α where
  /-- `pump.frequency()` -/
  omegaP : α
  /-- `pump_bandwidth` -/
  bandwidth : α
  /-- `pump_spectrum_threshold` -/
  threshold : α
  /-- `pump_average_power` (raw, mW) -/
  power : α
  /-- `deff` (raw, m/mV) -/
  deff : α
  /-- `pp != PeriodicPoling::Off` -/
  ppOn : Bool

/-- `SPDC::with_swapped_signal_idler` on the joint-spectrum view -/
def JSetup.swap {α : Type} (J : JSetup α) : JSetup α := { J with toSetup := J.toSetup.swap }

def JSetup.normIn {α : Type} (J : JSetup α) : NormIn α :=
  ⟨J.wpx, J.wpy, J.L, J.power, J.deff, J.omegaP, J.bandwidth, J.ppOn⟩

section
variable {α : Type} [Add α] [Sub α] [Mul α] [Div α] [Neg α] [OfScientific α] [LT α]
  [DecidableLT α] [LE α] [DecidableLE α] [Transc α]

/-- `joint_spectrum::invalid_frequencies` -/
def invalidFrequencies (ωs ωi ωp : α) : Bool :=
  decide (ωs ≤ (0.0 : α)) || decide (ωi ≤ (0.0 : α)) || decide (ωp < ωs) || decide (ωp < ωi)
    || decide ((0.75 : α) * ωp < Transc.abs (ωs - ωi))

/-- `x == 0.` on floats (`-0.0` counts, NaN does not) -/
def isZero (x : α) : Bool := decide (x ≤ (0.0 : α)) && decide ((0.0 : α) ≤ x)

/-- `jsa == Complex::zero()` -/
def Cx.isZero (z : Cx α) : Bool := PM.isZero z.re && PM.isZero z.im

/-- `jsa_raw(ω_s, ω_i, spdc, integrator)` -/
def jsaRaw (J : JSetup α) (nodes : List (α × α)) (scale : α) (ωs ωi : α) : Cx α :=
  if invalidFrequencies ωs ωi J.omegaP then Cx.zero
  else
    let a := pumpSpectralAmplitude (ωs + ωi) J.omegaP J.bandwidth
    if a < J.threshold then Cx.zero
    else Cx.smul a (pmCoincQ J.toSetup nodes scale ωs ωi)

/-- `jsi_singles_raw(ω_s, ω_i, spdc, integrator)`; `sr` is `phasematch_singles_fiber_coupling` -/
def jsiSinglesRaw (sr : Setup α → α → α → α) (J : JSetup α) (ωs ωi : α) : α :=
  if invalidFrequencies ωs ωi J.omegaP then (0.0 : α)
  else
    let a := pumpSpectralAmplitude (ωs + ωi) J.omegaP J.bandwidth
    if a < J.threshold then (0.0 : α)
    else a * a * sr J.toSetup ωs ωi

/-- `JointSpectrum::jsa` given the value `r` of `jsa_raw` -/
def jsaOfRaw (J : JSetup α) (ωs ωi : α) (r : Cx α) : Cx α :=
  if Cx.isZero r then Cx.zero
  else Cx.smul (Transc.sqrt (jsiNormalization J.normIn J.sig J.idl ωs ωi)) r

/-- `JointSpectrum::jsi` given the value `r` of `jsa_raw` -/
def jsiOfRaw (J : JSetup α) (ωs ωi : α) (r : Cx α) : α :=
  if Cx.isZero r then (0.0 : α)
  else jsiNormalization J.normIn J.sig J.idl ωs ωi * r.normSq

/-- `JointSpectrum::jsa` -/
def jsa (J : JSetup α) (nodes : List (α × α)) (scale : α) (ωs ωi : α) : Cx α :=
  jsaOfRaw J ωs ωi (jsaRaw J nodes scale ωs ωi)

/-- `JointSpectrum::jsi` -/
def jsi (J : JSetup α) (nodes : List (α × α)) (scale : α) (ωs ωi : α) : α :=
  jsiOfRaw J ωs ωi (jsaRaw J nodes scale ωs ωi)

/-- `JointSpectrum::jsi_singles` -/
def jsiSingles (sr : Setup α → α → α → α) (J : JSetup α) (ωs ωi : α) : α :=
  let r := jsiSinglesRaw sr J ωs ωi
  if PM.isZero r then (0.0 : α)
  else jsiSinglesNormalization J.normIn J.sig J.idl ωs ωi * r

/-- one entry of `JointSpectrum::jsi_singles_idler_range` / one summand of `counts_singles_idler`:
the signal singles of the exchanged setup with the arguments exchanged -/
def jsiSinglesIdler (sr : Setup α → α → α → α) (J : JSetup α) (ωs ωi : α) : α :=
  jsiSingles sr J.swap ωi ωs

/-- the setup with `pump_average_power` scaled by `a` and `deff` by `b` -/
def JSetup.scaled (J : JSetup α) (a b : α) : JSetup α :=
  { J with power := a * J.power, deff := b * J.deff }

/-- `JointSpectrum::new` : `jsa_center` computed from the optimum clone `Jo` at its centre
frequencies -/
def jsaCenter (Jo : JSetup α) (nodes : List (α × α)) (scale : α) : α :=
  Transc.sqrt (jsiNormalization Jo.normIn Jo.sig Jo.idl Jo.sig.freq Jo.idl.freq)
    * (jsaRaw Jo nodes scale Jo.sig.freq Jo.idl.freq).abs

/-- `JointSpectrum::new` : `jsi_singles_center` -/
def jsiSinglesCenter (sr : Setup α → α → α → α) (Jo : JSetup α) : α :=
  jsiSinglesNormalization Jo.normIn Jo.sig Jo.idl Jo.sig.freq Jo.idl.freq
    * jsiSinglesRaw sr Jo Jo.sig.freq Jo.idl.freq

/-- `JointSpectrum::jsa_normalized` -/
def jsaNormalized (J Jo : JSetup α) (nodes : List (α × α)) (scale : α) (ωs ωi : α) : Cx α :=
  Cx.divs (jsa J nodes scale ωs ωi) (jsaCenter Jo nodes scale)

/-- `JointSpectrum::jsi_normalized` -/
def jsiNormalized (J Jo : JSetup α) (nodes : List (α × α)) (scale : α) (ωs ωi : α) : α :=
  let c := jsaCenter Jo nodes scale
  jsi J nodes scale ωs ωi / (c * c)

/-- `JointSpectrum::jsi_singles_normalized` -/
def jsiSinglesNormalized (sr : Setup α → α → α → α) (J Jo : JSetup α) (ωs ωi : α) : α :=
  jsiSingles sr J ωs ωi / jsiSinglesCenter sr Jo

/-- `efficiencies_from_counts` : (symmetric, signal, idler) -/
def efficienciesFromCounts (cc ss si : α) : α × α × α :=
  let sigEff : α := if PM.isZero si then (0.0 : α) else cc / si
  let idlEff : α := if PM.isZero ss then (0.0 : α) else cc / ss
  let sym : α := if PM.isZero ss || PM.isZero si then (0.0 : α) else cc / Transc.sqrt (ss * si)
  (sym, sigEff, idlEff)

/-- `counts::get_counts_correction` : vacuum wavelengths `λ_p, λ_s, λ_i`, indices at the centre
frequencies `n_s, n_i, n_p`, group indices of signal and idler -/
def countsCorrection (lp ls li ns ni np ngs ngi : α) : α :=
  let d := lp * ns * ni
  (li * ls * ngs * ngi) / ((4.0 : α) * (d * d) * np)

/-- the sum over a grid that `counts_*` take (`Σ f(ω_s, ω_i)·dw2`, then the correction factor) -/
def countsSum (corr dw2 : α) (grid : List (α × α)) (f : α → α → α) : α :=
  corr * sumList (grid.map fun p => f p.1 p.2 * dw2)

end
end Spdc.PM
