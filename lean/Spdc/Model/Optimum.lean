import Spdc.Model.Num
import Spdc.Model.Cx
/-!
# M10 (part) — `SPDC::try_as_optimum`, `JointSpectrum::new`, the normalised accessors,
`SPDCIter::jsi_values(_normalized)`   (mirrors `src/spdc/spdc_obj.rs`, `src/jsa/joint_spectrum.rs`,
`src/spdc/spdc_iter.rs`)

Core Lean only.  The numeric sub-routines (`optimum_theta`, `optimum_poling_period`,
`IdlerBeam::try_new_optimum`, `optimal_waist_position`, `Beam::set_angles`, and the raw spectra /
normalisations of the layer below) are *parameters* (`Ext`, `SpecExt`): what is modelled here is the
wiring — which routine is called with which arguments, in which order, and where each result is stored.
-/
namespace Spdc.Optimum

/-- `PolarizationType` -/
inductive Pol where
  | o | e
deriving DecidableEq, Repr

/-- `beam::Beam` (waist x/y, centre frequency, polarisation, internal angles, direction) -/
structure Beam (α : Type) where
  wx : α
  wy : α
  freq : α
  pol : Pol
  theta : α
  phi : α
  dir : Vec3 α

/-- `CrystalSetup`; crystal kind and phase-matching type are opaque ids at this layer -/
structure Crystal (α : Type) where
  kind : Nat
  pm : Nat
  phi : α
  theta : α
  length : α
  temp : α
  counterProp : Bool

/-- `PeriodicPoling` with the apodisation kept abstract (`A`) -/
inductive PP (α A : Type) where
  | off
  | on (period : α) (negative : Bool) (apod : A)

/-- `SPDC` -/
structure Setup (α A : Type) where
  signal : Beam α
  idler : Beam α
  pump : Beam α
  cs : Crystal α
  pp : PP α A
  power : α
  bandwidth : α
  threshold : α
  zs : α
  zi : α
  deff : α

/-- the numeric routines `try_as_optimum` calls -/
structure Ext (α A : Type) where
  /-- `x * DEG` -/
  deg : α → α
  /-- `Beam::set_angles(phi, theta)`: normalised `phi`, normalised `theta`, new direction -/
  setAngles : α → α → α × α × Vec3 α
  /-- `CrystalSetup::optimum_theta(signal, pump)` (radians); panics when the inner `unwrap` fails -/
  optimumTheta : Crystal α → Beam α → Beam α → Outcome α
  /-- `optimum_poling_period(signal, pump, crystal_setup)` (signed, metres) -/
  optimumPolingPeriod : Beam α → Beam α → Crystal α → Outcome α
  /-- `IdlerBeam::try_new_optimum(signal, pump, crystal_setup, pp)` -/
  optimumIdler : Beam α → Beam α → Crystal α → PP α A → Outcome (Beam α)
  /-- `CrystalSetup::optimal_waist_position(vacuum wavelength of the given frequency, polarisation)` -/
  optimalWaistPosition : Crystal α → α → Pol → α

section
variable {α A : Type} [Neg α] [OfScientific α] [LT α] [DecidableLT α]

/-- `Beam::set_angles` -/
def Beam.setAngles (ext : Ext α A) (b : Beam α) (phi theta : α) : Beam α :=
  let r := ext.setAngles phi theta
  { b with phi := r.1, theta := r.2.1, dir := r.2.2 }

/-- `PeriodicPoling::new(period, apodization)`: magnitude and sign of the given period -/
def PP.new (period : α) (apod : A) : PP α A :=
  if (0.0 : α) < period then .on period false apod else .on (-period) true apod

/-- the signal with its angles reset (first statement of `try_as_optimum`) -/
def resetSignal (ext : Ext α A) (s : Setup α A) : Beam α :=
  if s.cs.counterProp then
    if s.signal.theta < ext.deg (90.0 : α) then
      s.signal.setAngles ext (ext.deg (0.0 : α)) (ext.deg (0.0 : α))
    else s.signal.setAngles ext (ext.deg (0.0 : α)) (ext.deg (180.0 : α))
  else s.signal.setAngles ext (ext.deg (0.0 : α)) (ext.deg (0.0 : α))

/-- tail of `try_as_optimum` once crystal and poling are decided: optimum idler for the *new* poling,
idler waist kept, both waist positions recomputed — the idler's from the *new* idler (as repaired by
`fix: try_as_optimum is idempotent`; the pinned tree used the old poling and the old idler here, see
`tryAsOptimumPinned`). -/
def finishOptimum (ext : Ext α A) (s : Setup α A) (signal : Beam α) (cs : Crystal α) (pp : PP α A) :
    Outcome (Setup α A) :=
  (ext.optimumIdler signal s.pump cs pp).bind fun idler0 =>
    let idler : Beam α := { idler0 with wx := s.idler.wx, wy := s.idler.wy }
    .ok { s with
      signal := signal, idler := idler, cs := cs, pp := pp,
      zs := ext.optimalWaistPosition cs signal.freq signal.pol,
      zi := ext.optimalWaistPosition cs idler.freq idler.pol }

/-- `SPDC::try_as_optimum` -/
def tryAsOptimum (ext : Ext α A) (s : Setup α A) : Outcome (Setup α A) :=
  let signal := resetSignal ext s
  match s.pp with
  | .off =>
    (ext.optimumTheta s.cs signal s.pump).bind fun θ =>
      finishOptimum ext s signal { s.cs with theta := θ } .off
  | .on _ _ apod =>
    (ext.optimumPolingPeriod signal s.pump s.cs).bind fun p =>
      finishOptimum ext s signal s.cs (PP.new p apod)

/-- the pinned tree's `try_as_optimum` (before the repair): the optimum idler was computed with the
poling *that was passed in*, and the idler waist position from the wavelength and polarisation of the
idler *that was passed in*. -/
def finishOptimumPinned (ext : Ext α A) (s : Setup α A) (signal : Beam α) (cs : Crystal α)
    (pp : PP α A) : Outcome (Setup α A) :=
  (ext.optimumIdler signal s.pump cs s.pp).bind fun idler0 =>
    let idler : Beam α := { idler0 with wx := s.idler.wx, wy := s.idler.wy }
    .ok { s with
      signal := signal, idler := idler, cs := cs, pp := pp,
      zs := ext.optimalWaistPosition cs signal.freq signal.pol,
      zi := ext.optimalWaistPosition cs s.idler.freq s.idler.pol }

def tryAsOptimumPinned (ext : Ext α A) (s : Setup α A) : Outcome (Setup α A) :=
  let signal := resetSignal ext s
  match s.pp with
  | .off =>
    (ext.optimumTheta s.cs signal s.pump).bind fun θ =>
      finishOptimumPinned ext s signal { s.cs with theta := θ } .off
  | .on _ _ apod =>
    (ext.optimumPolingPeriod signal s.pump s.cs).bind fun p =>
      finishOptimumPinned ext s signal s.cs (PP.new p apod)

end

/-! ## `IdlerBeam::try_new_optimum` (the part that decides whether the optimum idler depends on the poling) -/

/-- routines below `try_new_optimum` -/
structure IdlerExt (α : Type) where
  /-- `Beam::refractive_index(own centre frequency, crystal_setup)` -/
  index : Beam α → Crystal α → α
  /-- `frequency_to_vacuum_wavelength` -/
  wavelength : α → α
  /-- `Beam::new(polarization, phi, theta, vacuum_wavelength, waist)` (normalises the angles) -/
  newBeam : Pol → α → α → α → α → α → Beam α
  /-- `normalize_angle` -/
  normAngle : α → α
  /-- `PMType::idler_polarization` -/
  idlerPol : Nat → Pol
  /-- `f64::signum` -/
  signum : α → α

section
variable {α A : Type} [Add α] [Sub α] [Mul α] [Div α] [Neg α] [OfScientific α] [LT α] [DecidableLT α]
  [LE α] [DecidableLE α] [Transc α]

/-- `ls / pp.signed_period()`; `Off` has period `+∞`, so the quotient is `0` -/
def kpp (ls : α) : PP α A → α
  | .off => (0.0 : α)
  | .on p neg _ => ls / (if neg then -p else p)

/-- the internal angle of the optimum idler as coded -/
def idlerTheta (ix : IdlerExt α) (signal pump : Beam α) (cs : Crystal α) (pp : PP α A) : α :=
  let ls := ix.wavelength signal.freq
  let lp := ix.wavelength pump.freq
  let ns := ix.index signal cs
  let np := ix.index pump cs
  let k := kpp ls pp
  let θs := signal.theta
  let nsz := ns * Transc.cos θs
  let npl := np * (ls / lp)
  let arg := ns * ns + npl * npl + (2.0 : α) * (k * nsz - npl * nsz - k * npl) + k * k
  let val := (ns * Transc.sin θs) / Transc.sqrt arg
  let sign := ix.signum θs
  let back := ix.signum (Transc.cos θs) < (0.0 : α)
  (if back != cs.counterProp then Transc.pi - Transc.asin val else Transc.asin val) * sign

/-- `IdlerBeam::try_new_optimum` -/
def idlerOptimum (ix : IdlerExt α) (signal pump : Beam α) (cs : Crystal α) (pp : PP α A) :
    Outcome (Beam α) :=
  let ls := ix.wavelength signal.freq
  let lp := ix.wavelength pump.freq
  if ls ≤ lp then .err "Signal wavelength must be greater than Pump wavelength" else
  .ok (ix.newBeam (ix.idlerPol cs.pm) (ix.normAngle (signal.phi + Transc.pi))
        (idlerTheta ix signal pump cs pp) (ls * lp / (ls - lp)) signal.wx signal.wy)

end

/-! ## `JointSpectrum` -/

/-- the layer below: raw spectra and normalisations (owned by the phase-matching model), and the
signal/idler swap -/
structure SpecExt (α A I : Type) where
  /-- `jsa_raw(ωs, ωi, spdc, integrator)` -/
  jsaRaw : α → α → Setup α A → I → Cx α
  /-- `jsi_singles_raw` -/
  jsiSinglesRaw : α → α → Setup α A → I → α
  /-- `jsi_normalization` -/
  jsiNorm : α → α → Setup α A → α
  /-- `jsi_singles_normalization` -/
  jsiSinglesNorm : α → α → Setup α A → α
  /-- `SPDC::with_swapped_signal_idler` -/
  swap : Setup α A → Setup α A

/-- `JointSpectrum { spdc, integrator, jsa_center, jsi_singles_center }` -/
structure JointSpectrum (α A I : Type) where
  spdc : Setup α A
  integ : I
  jsaCenter : α
  jsiSinglesCenter : α

section
variable {α A I : Type} [Add α] [Sub α] [Mul α] [Div α] [Neg α] [OfScientific α] [LT α]
  [DecidableLT α] [BEq α] [Transc α]

/-- `x == 0.` (IEEE `==` at `Float`: false for NaN, true for `-0.0`; decidable equality at ℝ) -/
def isZero (x : α) : Bool := x == (0.0 : α)

/-- reference amplitude at the centre of an (optimised) setup: `√norm · |jsa_raw|` -/
def refAmplitude (sx : SpecExt α A I) (o : Setup α A) (integ : I) : α :=
  Transc.sqrt (sx.jsiNorm o.signal.freq o.idler.freq o) *
    (sx.jsaRaw o.signal.freq o.idler.freq o integ).abs

/-- reference singles intensity at the centre of an (optimised) setup -/
def refSingles (sx : SpecExt α A I) (o : Setup α A) (integ : I) : α :=
  sx.jsiSinglesNorm o.signal.freq o.idler.freq o * sx.jsiSinglesRaw o.signal.freq o.idler.freq o integ

/-- `JointSpectrum::new`: `try_as_optimum().unwrap()` on a clone, reference values at *its* centre -/
def JointSpectrum.new (ext : Ext α A) (sx : SpecExt α A I) (s : Setup α A) (integ : I) :
    Outcome (JointSpectrum α A I) :=
  match tryAsOptimum ext s with
  | .ok o => .ok ⟨s, integ, refAmplitude sx o integ, refSingles sx o integ⟩
  | .err _ => .panic "JointSpectrum::new: try_as_optimum().unwrap()"
  | .panic p => .panic p

variable (sx : SpecExt α A I) (js : JointSpectrum α A I)

/-- `JointSpectrum::jsa` -/
def JointSpectrum.jsa (ws wi : α) : Cx α :=
  let a := sx.jsaRaw ws wi js.spdc js.integ
  if isZero a.re && isZero a.im then Cx.zero
  else Cx.smul (Transc.sqrt (sx.jsiNorm ws wi js.spdc)) a

/-- `JointSpectrum::jsa_normalized` -/
def JointSpectrum.jsaNormalized (ws wi : α) : Cx α := Cx.divs (js.jsa sx ws wi) js.jsaCenter

/-- `JointSpectrum::jsi` -/
def JointSpectrum.jsi (ws wi : α) : α :=
  let a := sx.jsaRaw ws wi js.spdc js.integ
  if isZero a.re && isZero a.im then (0.0 : α)
  else sx.jsiNorm ws wi js.spdc * a.normSq

/-- `JointSpectrum::jsi_normalized` (`powi(2)` is a product) -/
def JointSpectrum.jsiNormalized (ws wi : α) : α :=
  js.jsi sx ws wi / (js.jsaCenter * js.jsaCenter)

/-- `JointSpectrum::jsi_singles` -/
def JointSpectrum.jsiSingles (ws wi : α) : α :=
  let j := sx.jsiSinglesRaw ws wi js.spdc js.integ
  if isZero j then (0.0 : α) else sx.jsiSinglesNorm ws wi js.spdc * j

/-- `JointSpectrum::jsi_singles_normalized` -/
def JointSpectrum.jsiSinglesNormalized (ws wi : α) : α :=
  js.jsiSingles sx ws wi / js.jsiSinglesCenter

/-- one point of `jsi_singles_idler_range`: a second spectrum of the swapped setup, arguments exchanged -/
def JointSpectrum.jsiSinglesIdler (ext : Ext α A) (ws wi : α) : Outcome α :=
  (JointSpectrum.new ext sx (sx.swap js.spdc) js.integ).map fun t => t.jsiSingles sx wi ws

/-- one point of `jsi_singles_idler_normalized_range` -/
def JointSpectrum.jsiSinglesIdlerNormalized (ext : Ext α A) (ws wi : α) : Outcome α :=
  (JointSpectrum.new ext sx (sx.swap js.spdc) js.integ).map fun t => t.jsiSinglesNormalized sx wi ws

/-! ## `SPDCIter::jsi_values`, `jsi_values_normalized` (the swept setups are given as a list) -/

/-- one element of `jsi_values` -/
def jsiValue (integ : I) (s : Setup α A) : α :=
  let j := (sx.jsaRaw s.signal.freq s.idler.freq s integ).normSq
  if isZero j then (0.0 : α) else j * sx.jsiNorm s.signal.freq s.idler.freq s

def jsiValues (integ : I) (l : List (Setup α A)) : List α := l.map (jsiValue sx integ)

/-- the sweep's reference: `|jsa_raw|² · norm` at the centre of the base setup's optimum -/
def sweepRef (integ : I) (o : Setup α A) : α :=
  (sx.jsaRaw o.signal.freq o.idler.freq o integ).normSq * sx.jsiNorm o.signal.freq o.idler.freq o

/-- one element of `jsi_values_normalized`: `jsi · (norm / centre)` as coded -/
def jsiValueNormalized (integ : I) (c : α) (s : Setup α A) : α :=
  let j := (sx.jsaRaw s.signal.freq s.idler.freq s integ).normSq
  if isZero j then (0.0 : α) else j * (sx.jsiNorm s.signal.freq s.idler.freq s / c)

/-- `SPDCIter::jsi_values_normalized` -/
def jsiValuesNormalized (ext : Ext α A) (integ : I) (base : Setup α A) (l : List (Setup α A)) :
    Outcome (List α) :=
  match tryAsOptimum ext base with
  | .ok o => .ok (l.map (jsiValueNormalized sx integ (sweepRef sx integ o)))
  | .err _ => .panic "jsi_values_normalized: try_as_optimum().unwrap()"
  | .panic p => .panic p

end

end Spdc.Optimum
