import Spdc.Model.NM1D
import Spdc.Model.DeltaK
/-!
# M6/M7 — auto poling period and auto crystal angle
(`spdc/periodic_poling.rs: optimum_poling_period, compute_sign`, `crystal/crystal_setup.rs: optimum_theta`)

Core Lean only.  The control flow around the optimiser is mirrored literally; the cost closures
(`|Δk_z|` as a function of the period resp. of the crystal angle, computed by the lower layers with
the optimum idler) are *parameters*.  For a collinear signal the period cost has the closed form
`|z − k_eff(Λ)|` (`collinearCost`; the code evaluates exactly this floating-point expression because
the collinear idler, hence `k_i`, does not depend on the poling).

Not modelled: a NaN unpoled mismatch `z` (the code then panics inside the cost closure).
-/
namespace Spdc.Auto
open Spdc.NM1D Spdc.DeltaK

/-- `Result<PolingPeriod, _>` values: `Ok(f64::INFINITY * M)` or `Ok(sign * period * M)` -/
inductive Period (α : Type) where
  | infinite : Period α
  | finite : α → Period α
deriving Repr

section
variable {α : Type} [Add α] [Sub α] [Mul α] [Div α] [Neg α] [OfScientific α] [LT α] [DecidableLT α]
  [LE α] [DecidableLE α] [Transc α]

/-- `f64::MIN_POSITIVE` -/
def minPositive : α := (2.2250738585072014e-308 : α)

/-- `PeriodicPoling::compute_sign`: `Sign::from(Δk_z unpoled)`; `true` = `NEGATIVE` -/
def computeSign (z : α) : Bool := decide (z < (0.0 : α))

/-- the period cost of a collinear setup: `|z − 2π/(sign·Λ)|` (panic of `k_eff` for `Λ ≤ 0` cannot
occur inside the bounds `[MIN_POSITIVE, L]`; it is mapped to NaN) -/
def collinearCost (z : α) (neg : Bool) (period : α) : Cost α :=
  match kEff (Poling.on period neg) with
  | .ok ke => Cost.fin (Transc.abs (z - ke))
  | _ => Cost.nan

/-- `optimum_poling_period`.  `z` = unpoled `Δk_z` (with the optimum idler); `cost neg Λ` = the
closure `pm` for the predetermined sign; `L` = crystal length in metres. -/
def optimumPolingPeriod (z : α) (cost : Bool → α → Cost α) (L : α) : Outcome (Period α) :=
  if ¬ (z < (0.0 : α)) ∧ ¬ ((0.0 : α) < z) then .ok Period.infinite       -- `z == 0.`
  else
    let guess := twoPi / z
    let neg := computeSign z
    let g := Transc.abs guess
    match NM1D.run (cost neg) g (g + (1e-6 : α)) 1000 minPositive L (1e-12 : α) with
    | .ok period =>
      -- D92 repair: a result on the upper bound is the bound, not a zero of the mismatch
      if L * ((1.0 : α) - (1e-9 : α)) ≤ period ∨ L < period ∨ period < minPositive then
        .err "Could not determine poling period from specified values"
      else .ok (Period.finite (signMul neg period))
    | .err e => .err e
    | .panic s => .panic s

/-- `CrystalSetup::optimum_theta`: seeds `(π/6, π/6 + 1)`, 1000 iterations, bounds `[0, π/2]`,
tolerance `1e-6`; `cost θ = |Δk_z|` with the crystal at angle `θ` and the matching optimum idler -/
def optimumTheta (cost : α → Cost α) : Outcome α :=
  let guess := Transc.pi / (6.0 : α)
  NM1D.run cost guess (guess + (1.0 : α)) 1000 (0.0 : α) (Transc.pi / (2.0 : α)) (1e-6 : α)

end
end Spdc.Auto
