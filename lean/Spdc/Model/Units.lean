import Spdc.Model.Num
/-!
# M1 — unit conversions and angle normalisation (mirrors `src/utils.rs`, `src/math/mod.rs`)

Core Lean only.  `f64 % f64` (C `fmod`) is not in Lean's `Float` API, so it is a small class of its
own: the `Float` instance computes the exact remainder by shift-and-subtract (every subtraction is
exact by Sterbenz' lemma), the `ℝ` instance (`Spdc/Real/Beam.lean`) is `x − y·trunc(x/y)`.
-/
namespace Spdc.Units

/-- C `fmod` / Rust `%` on floats: `x − y·trunc(x/y)`, sign of `x` -/
class FMod (α : Type) where
  fmod : α → α → α

/-- exact `fmod` for finite `r ≥ 0`, `ay > 0`: repeatedly subtract the largest `ay·2^k ≤ r` -/
def fmodLoop (ay : Float) : Nat → Float → Float
  | 0, r => r
  | fuel + 1, r =>
    if r < ay then r
    else
      let er := r.frExp.2
      let ey := ay.frExp.2
      let t0 := ay.scaleB (er - ey)
      let t := if t0 ≤ r then t0 else t0 * 0.5
      fmodLoop ay fuel (r - t)

def fmodFloat (x y : Float) : Float :=
  if x.isNaN || y.isNaN || x.isInf || y == 0.0 then 0.0 / 0.0
  else if y.isInf then x
  else
    let ax := x.abs
    let ay := y.abs
    if ax < ay then x
    else
      let r := fmodLoop ay 6000 ax
      if x < 0.0 then -r else r

instance : FMod Float := ⟨fmodFloat⟩

section
variable {α : Type} [Add α] [Sub α] [Mul α] [Div α] [Neg α] [OfScientific α] [LT α]
  [DecidableLT α] [Transc α] [FMod α]

/-- `TWO_PI = std::f64::consts::TAU` (`2·π` is exact in binary floating point) -/
def twoPi : α := (2.0 : α) * Transc.pi
/-- `FRAC_PI_2` -/
def halfPi : α := Transc.pi / (2.0 : α)

/-- `f64::rem_euclid` : `let r = x % y; if r < 0 { r + |y| } else { r }` -/
def remEuclid (x y : α) : α :=
  let r := FMod.fmod x y
  if r < (0.0 : α) then r + Transc.abs y else r

/-- `math::normalize_angle` -/
def normalizeAngle (x : α) : α := remEuclid x twoPi

/-- `math::normalize_angle_signed` -/
def normalizeAngleSigned (x : α) : α :=
  let rem := remEuclid x twoPi
  if Transc.pi < rem then rem - twoPi else rem

/-- speed of light `C_` in m/s -/
def cLight : α := (299792458.0 : α)

/-- `TWO_PI * RAD * C_` -/
def twoPiC : α := (twoPi : α) * (1.0 : α) * cLight

/-- `utils::wavelength_to_frequency(λ, n)` : `2πc/(λ·n)` -/
def wavelengthToFrequency (lam n : α) : α := twoPiC / (lam * n)
/-- `utils::frequency_to_wavelength(ω, n)` -/
def frequencyToWavelength (ω n : α) : α := twoPiC / (ω * n)
/-- `utils::vacuum_wavelength_to_frequency` -/
def vacuumWavelengthToFrequency (lam : α) : α := wavelengthToFrequency lam (1.0 : α)
/-- `utils::frequency_to_vacuum_wavelength` -/
def frequencyToVacuumWavelength (ω : α) : α := frequencyToWavelength ω (1.0 : α)
/-- `utils::frequency_to_wavenumber(ω, n)` : `n·ω/c` -/
def frequencyToWavenumber (ω n : α) : α := n * ω / cLight
/-- `utils::wavenumber_to_frequency(k, n)` : `k·c/n` -/
def wavenumberToFrequency (k n : α) : α := k * cLight / n

/-- `utils::from_celsius_to_kelvin` -/
def celsiusToKelvin (c : α) : α := c + (273.15 : α)
/-- `utils::from_kelvin_to_celsius` -/
def kelvinToCelsius (k : α) : α := k - (273.15 : α)

/-- `FWHM_OVER_WAIST = sqrt(2·ln 2)` -/
def fwhmOverWaist : α := Transc.sqrt ((2.0 : α) * Transc.ln (2.0 : α))
/-- `math::fwhm_to_sigma` : `fwhm / (2·√(2 ln 2))` -/
def fwhmToSigma (f : α) : α := f / ((2.0 : α) * fwhmOverWaist)
/-- `math::fwhm_to_waist` -/
def fwhmToWaist (f : α) : α := f / fwhmOverWaist
/-- `math::waist_to_fwhm` -/
def waistToFwhm (w : α) : α := w * fwhmOverWaist

end
end Spdc.Units
