import Spdc.Model.Num
import Spdc.Model.Cx
/-!
# M7 — phase mismatch and optimum idler (`phasematch/delta_k.rs`, `beam/mod.rs`, `spdc/periodic_poling.rs`)

Core Lean only.  Layered (AGENTS.md rule 2): the direction- and polarization-dependent refractive
indices `n_p, n_s, n_i` (`beam.refractive_index(ω, &crystal_setup)`, i.e. C01/C02's layer) are
*inputs* here, as are the beam angles, frequencies and the poling.

Unit algebra: UCUM base values are the raw SI numbers (`M = RAD = 1.0`), so `x * M / RAD` is the
identity on every `f64` and is not written out.
-/
namespace Spdc.DeltaK

/-- `PolarizationType` -/
inductive Pol where
  | o | e
deriving DecidableEq, Repr

/-- `PMType` -/
inductive PMType where
  | t0_o_oo | t0_e_ee | t1_e_oo | t2_e_eo | t2_e_oe
deriving DecidableEq, Repr

namespace PMType
/-- `PMType::pump_polarization` -/
def pumpPol : PMType → Pol
  | t0_o_oo => .o
  | _ => .e
/-- `PMType::signal_polarization` -/
def signalPol : PMType → Pol
  | t0_e_ee | t2_e_eo => .e
  | t0_o_oo | t1_e_oo | t2_e_oe => .o
/-- `PMType::idler_polarization` -/
def idlerPol : PMType → Pol
  | t2_e_oe | t0_e_ee => .e
  | t0_o_oo | t1_e_oo | t2_e_eo => .o
end PMType

/-- `PeriodicPoling` without the apodization (which does not enter Δk): `On { period, sign, .. }` -/
inductive Poling (α : Type) where
  | off : Poling α
  | on (period : α) (neg : Bool) : Poling α

section
variable {α : Type} [Add α] [Sub α] [Mul α] [Div α] [Neg α] [OfScientific α] [LT α] [DecidableLT α]
  [LE α] [DecidableLE α] [Transc α]

/-- `TWO_PI = std::f64::consts::TAU` (doubling is exact) -/
def twoPi : α := (2.0 : α) * Transc.pi
/-- `ucum::C_` -/
def c0 : α := (299792458.0 : α)

/-- `Sign * x`: `x * 1.` or `x * (-1.)` -/
def signMul (neg : Bool) (x : α) : α := if neg then x * (-(1.0 : α)) else x * (1.0 : α)

/-- `PeriodicPoling::k_eff` (QPM order `m = 1.`); the `assert!(period > 0)` is a panic -/
def kEff : Poling α → Outcome α
  | .off => .ok (0.0 : α)
  | .on p neg =>
    if (0.0 : α) < p then .ok (twoPi * (1.0 : α) * (1.0 : α) / signMul neg p)
    else .panic "k_eff: Periodic Poling Period must be greater than zero"

/-- `ls / pp.signed_period()`; for `Off` the code divides by `f64::INFINITY`, which is `+0.0` for
every finite positive `ls` -/
def kpp (ls : α) : Poling α → α
  | .off => (0.0 : α)
  | .on p neg => ls / signMul neg p

/-- `vacuum_wavelength_to_frequency` = `TWO_PI * RAD * C_ / (lambda * ONE)` -/
def freqOfWavelength (l : α) : α := twoPi * (1.0 : α) * c0 / (l * (1.0 : α))
/-- `frequency_to_vacuum_wavelength` = `TWO_PI * RAD * C_ / (omega * ONE)` -/
def wavelengthOfFreq (w : α) : α := twoPi * (1.0 : α) * c0 / (w * (1.0 : α))

/-- `f64::rem_euclid(x, TWO_PI)`.  Bit-faithful on `(−2π, 4π)` (where `fmod` and the correction are
exact single operations); the general formula `x − 2π·⌊x/2π⌋` is used elsewhere (equal over ℝ). -/
def remEuclidTau (x : α) : α :=
  let t : α := twoPi
  if ¬ (x < (0.0 : α)) ∧ x < t then x
  else if ¬ (x < t) ∧ x < t + t then x - t
  else if -t < x ∧ x < (0.0 : α) then x + t
  else x - t * Transc.floor (x / t)

/-- `normalize_angle`: to `[0, 2π)` -/
def normalizeAngle (x : α) : α := remEuclidTau x

/-- `normalize_angle_signed`: to `(−π, π]` -/
def normalizeAngleSigned (x : α) : α :=
  let r := remEuclidTau x
  if Transc.pi < r then r - twoPi else r

/-- `direction_from_polar(phi, theta)` with nalgebra's `Unit::new_normalize` -/
def dirFromPolar (phi theta : α) : Vec3 α :=
  let x := Transc.sin theta * Transc.cos phi
  let y := Transc.sin theta * Transc.sin phi
  let z := Transc.cos theta
  let n := Transc.sqrt (x * x + y * y + z * z)
  ⟨x / n, y / n, z / n⟩

/-- `Beam::wavevector`: `direction * (n ω / c)` -/
def wavevector (dir : Vec3 α) (n w : α) : Vec3 α := Vec3.smul (n * w / c0) dir

/-- `delta_k`: `kp − ks − ki − k_eff·ẑ`.  Inputs: the three unit directions, the three indices
`beam.refractive_index(ω_beam, crystal_setup)`, the three angular frequencies, the poling. -/
def deltaK (ds di dp : Vec3 α) (ns ni np ws wi wp : α) (pp : Poling α) : Outcome (Vec3 α) :=
  let ks := wavevector ds ns ws
  let ki := wavevector di ni wi
  let kp := wavevector dp np wp
  (kEff pp).map fun ke =>
    Vec3.sub (Vec3.sub (Vec3.sub kp ks) ki) ⟨ke * (0.0 : α), ke * (0.0 : α), ke * (1.0 : α)⟩

/-- `delta_k` on three beams given by their ANGLES (`phi()`, `theta_internal()`): the direction each wave vector lies
along is `direction_from_polar` of the beam's own angles — the invariant every constructor and every setter of `Beam`
(`new`, `set_phi`, `set_theta_internal`, `set_theta_external`, `set_angles`) has to maintain for its cached direction. -/
def deltaKAngles (phs ths phi thi php thp ns ni np ws wi wp : α) (pp : Poling α) : Outcome (Vec3 α) :=
  deltaK (dirFromPolar phs ths) (dirFromPolar phi thi) (dirFromPolar php thp) ns ni np ws wi wp pp

/-- inputs of `IdlerBeam::try_new_optimum` (indices from the lower layer) -/
structure IdlerIn (α : Type) where
  pm : PMType
  cp : Bool            -- crystal_setup.counter_propagation
  ls : α               -- signal.vacuum_wavelength()
  lp : α               -- pump.vacuum_wavelength()
  ns : α               -- signal.refractive_index(signal.frequency(), cs)
  np : α               -- pump.refractive_index(pump.frequency(), cs)
  thetaS : α           -- signal.theta_internal()
  phiS : α             -- signal.phi()
  pp : Poling α
  wx : α               -- signal.waist()
  wy : α

/-- the fields of the idler `Beam` -/
structure IdlerOut (α : Type) where
  pol : Pol
  phi : α
  theta : α
  omega : α
  wx : α
  wy : α

/-- the radicand `arg` of `try_new_optimum`, in the code's operation order -/
def idlerArg (ns np ls lp thetaS : α) (pp : Poling α) : α :=
  let k := kpp ls pp
  let nsz := ns * Transc.cos thetaS
  let a := np * (ls / lp)
  ns * ns + a * a + (2.0 : α) * (k * nsz - a * nsz - k * a) + k * k

/-- the un-normalised idler polar angle of `try_new_optimum`.  `val` carries the sign of `θ_s`
through `sin θ_s` (the former extra factor `signum(θ_s)` was removed by the D90 repair). -/
def idlerThetaRaw (i : IdlerIn α) : α :=
  let val := i.ns * Transc.sin i.thetaS / Transc.sqrt (idlerArg i.ns i.np i.ls i.lp i.thetaS i.pp)
  let back := xor (decide (Transc.cos i.thetaS < (0.0 : α))) i.cp
  if back then Transc.pi - Transc.asin val else Transc.asin val

/-- the idler vacuum wavelength `ls * lp / (ls - lp)` -/
def idlerLambda (ls lp : α) : α := ls * lp / (ls - lp)

/-- `IdlerBeam::try_new_optimum` followed by `Beam::new`'s normalisations -/
def optimumIdler (i : IdlerIn α) : Outcome (IdlerOut α) :=
  if i.ls ≤ i.lp then .err "Signal wavelength must be greater than Pump wavelength"
  else
    let phi := normalizeAngle (i.phiS + Transc.pi * (1.0 : α))
    .ok { pol := i.pm.idlerPol
          phi := normalizeAngle phi
          theta := normalizeAngleSigned (idlerThetaRaw i)
          omega := freqOfWavelength (idlerLambda i.ls i.lp)
          wx := i.wx
          wy := i.wy }

/-- direction of the idler beam -/
def IdlerOut.dir (o : IdlerOut α) : Vec3 α := dirFromPolar o.phi o.theta

/-- the momentum-closing vector `kp − ks − k_Λ ẑ` scaled by `λ_s / 2π`
(pump along `ẑ`, signal at `(θ_s, φ_s)`) -/
def closingScaled (ns np ls lp thetaS phiS : α) (pp : Poling α) : Vec3 α :=
  ⟨-(ns * Transc.sin thetaS * Transc.cos phiS),
   -(ns * Transc.sin thetaS * Transc.sin phiS),
   np * (ls / lp) - ns * Transc.cos thetaS - kpp ls pp⟩

end
end Spdc.DeltaK
