import Spdc.Model.Num
import Spdc.Model.PMType
/-!
# M12b — configuration records, `try_as_spdc` control flow, `From<SPDC> for SPDCConfig`
(mirrors `src/spdc/config/*.rs`, the `Beam` setters it uses, `PeriodicPoling::new`, `math::sigfigs`)

Core Lean only, polymorphic in the scalar.  Values are the raw numbers the `dimensioned` algebra
carries: metres, radians, rad/s, kelvin, and for the gram-based UCUM units `MILLIW = 1`,
`V = 1000` (so `pm/V = 1e-15`).

The numeric sub-routines built elsewhere (Snell inversion, sign of Δk_z, optimum poling period,
optimum crystal angle, optimum idler, optimal waist position) are the parameter bundle `Ext`.
Each wrapper below adds exactly the guard/`unwrap()` the Rust has around the numeric part, so that
every panic site is an explicit `Outcome.panic`.
-/
namespace Spdc.Cfg
open Spdc Spdc.PM

/-- `AutoCalcParam<T>` -/
inductive Auto (β : Type) where
  | auto
  | param (b : β)
deriving Repr

def Auto.isAuto {β} : Auto β → Bool
  | .auto => true
  | .param _ => false

section scalar
variable {α : Type}

/-! ## setup side -/

/-- `Beam` (raw values): polarization, φ ∈ [0,2π), θ ∈ (−π,π], angular frequency, waist (x,y) -/
structure Beam (α : Type) where
  pol : Pol
  phi : α
  theta : α
  freq : α
  waistX : α
  waistY : α
deriving Repr

/-- `CrystalSetup`; `kind` is the index of the built-in crystal in `CrystalType::get_all_meta()` -/
structure Crystal (α : Type) where
  kind : Nat
  pmType : PMType
  phi : α
  theta : α
  length : α
  temperature : α
  counterProp : Bool
deriving Repr

/-- `Apodization` / `ApodizationConfig` (same shape; the Gaussian width changes unit) -/
inductive Apod (α : Type) where
  | off
  | gaussian (fwhm : α)
  | bartlett (a : α)
  | blackman (a : α)
  | connes (a : α)
  | cosine (a : α)
  | hamming (a : α)
  | welch (a : α)
  | interpolate (l : List α)
deriving Repr

/-- `PeriodicPoling`; `neg = true` is `Sign::NEGATIVE` -/
inductive Poling (α : Type) where
  | off
  | on (period : α) (neg : Bool) (apod : Apod α)
deriving Repr

def Poling.isOff : Poling α → Bool
  | .off => true
  | .on .. => false

/-- `SPDC` -/
structure Setup (α : Type) where
  crystal : Crystal α
  signal : Beam α
  idler : Beam α
  pump : Beam α
  pumpBandwidth : α
  pumpAveragePower : α
  pumpSpectrumThreshold : α
  pp : Poling α
  signalWaistPos : α
  idlerWaistPos : α
  deff : α
deriving Repr

/-! ## config side -/

structure CrystalCfg (α : Type) where
  kind : Nat
  pmType : PMType
  phiDeg : α
  thetaDeg : Auto α
  lengthUm : α
  temperatureC : α
  counterProp : Bool
deriving Repr

structure PumpCfg (α : Type) where
  wavelengthNm : α
  waistUm : α
  bandwidthNm : α
  averagePowerMw : α
  spectrumThreshold : Option α
deriving Repr

/-- `SignalConfig` and `IdlerConfig` have the same fields -/
structure BeamCfg (α : Type) where
  wavelengthNm : α
  phiDeg : α
  thetaDeg : Option α
  thetaExternalDeg : Option α
  waistUm : α
  waistPositionUm : Auto α
deriving Repr

inductive PolingCfg (α : Type) where
  | off
  | config (periodUm : Auto α) (apod : Apod α)
deriving Repr

/-- `SPDCConfig` -/
structure Config (α : Type) where
  crystal : CrystalCfg α
  pump : PumpCfg α
  signal : BeamCfg α
  idler : Auto (BeamCfg α)
  poling : PolingCfg α
  deffPmPerVolt : α
deriving Repr

/-- a configuration as written in JSON: the `#[serde(default)]` / `Option` fields may be absent -/
structure RawConfig (α : Type) where
  kind : Nat
  pmType : PMType
  crystalPhiDeg : Option α
  crystalThetaDeg : Option (Auto α)
  lengthUm : α
  temperatureC : α
  counterProp : Option Bool
  pump : PumpCfg α
  signalWavelengthNm : α
  signalPhiDeg : Option α
  signalThetaDeg : Option α
  signalThetaExternalDeg : Option α
  signalWaistUm : α
  signalWaistPositionUm : Option (Auto α)
  idler : Option (Auto (BeamCfg α))
  poling : Option (PolingCfg α)
  deffPmPerVolt : α

variable [Add α] [Sub α] [Mul α] [Div α] [Neg α] [OfScientific α] [LT α] [DecidableLT α] [LE α]
  [DecidableLE α] [Transc α]

/-- serde's defaults: `phi_deg` 0, crystal `theta_deg` "auto", `counter_propagation` false,
`waist_position_um` "auto", `idler` "auto", `periodic_poling` off.  (The pump's
`spectrum_threshold` default 1e-2 is applied in `try_as_spdc`.) -/
def RawConfig.fill (r : RawConfig α) : Config α :=
  { crystal :=
      { kind := r.kind, pmType := r.pmType, phiDeg := r.crystalPhiDeg.getD 0.0,
        thetaDeg := r.crystalThetaDeg.getD .auto, lengthUm := r.lengthUm,
        temperatureC := r.temperatureC, counterProp := r.counterProp.getD false }
    pump := r.pump
    signal :=
      { wavelengthNm := r.signalWavelengthNm, phiDeg := r.signalPhiDeg.getD 0.0,
        thetaDeg := r.signalThetaDeg, thetaExternalDeg := r.signalThetaExternalDeg,
        waistUm := r.signalWaistUm, waistPositionUm := r.signalWaistPositionUm.getD .auto }
    idler := r.idler.getD .auto
    poling := r.poling.getD .off
    deffPmPerVolt := r.deffPmPerVolt }

/-! ## units and small helpers -/

/-- `DEG.value_unsafe` = `2.0 * PI / 360.0` -/
def deg : α := 2.0 * Transc.pi / 360.0
/-- `MICRO * M` -/
def micro : α := 1.0e-6
/-- `NANO * M` -/
def nano : α := 1.0e-9
/-- `PICO * M / V` with `V = 1000` in the gram-based UCUM system -/
def pmPerVolt : α := 1.0e-12 / 1000.0
/-- `v * PICO * M / V` as the code evaluates it: `(v · 1e-12) / 1000` -/
def toDeff (v : α) : α := v * 1.0e-12 / 1000.0
/-- `TWO_PI` -/
def twoPi : α := 2.0 * Transc.pi
/-- `TWO_PI * RAD * C_` -/
def twoPiC : α := twoPi * 299792458.0
/-- 0 °C in kelvin -/
def kelvin0 : α := 273.15

/-- `f64::trunc` -/
def trunc (x : α) : α := if x < 0.0 then Transc.ceil x else Transc.floor x

/-- `f64::rem_euclid` = `let r = x % m; if r < 0 { r + |m| } else { r }` with `%` = `fmod` -/
def remEuclid (x m : α) : α :=
  let r := x - m * trunc (x / m)
  if r < 0.0 then r + Transc.abs m else r

/-- `math::normalize_angle` : [0, 2π) -/
def normAngle (x : α) : α := remEuclid x twoPi

/-- `math::normalize_angle_signed` : (−π, π] -/
def normAngleSigned (x : α) : α :=
  let rem := remEuclid x twoPi
  if Transc.pi < rem then rem - twoPi else rem

/-- `math::sigfigs(x, 4)` : `(x * 10000).round() / 10000` (round half away from zero) -/
def sigfigs (x : α) : α := Transc.round (x * 10000.0) / 10000.0

/-- `Apodization → ApodizationConfig`: the Gaussian width is a length in µm (rounded like the other
lengths since the `fix:` for D6b), the dimensionless window parameters are carried over -/
def Apod.toCfg : Apod α → Apod α
  | .gaussian fwhm => .gaussian (sigfigs (fwhm / micro))
  | a => a

/-- `x.rem_euclid(360.)`: a rounded azimuth of 360.0000 is written as 0 (`fix:` for D6c) -/
def wrap360 (x : α) : α := remEuclid x 360.0

/-- `vacuum_wavelength_to_frequency` and its inverse (`n = ONE`) -/
def wlToFreq (lam : α) : α := twoPiC / (lam * 1.0)
def freqToWl (om : α) : α := twoPiC / (om * 1.0)

def Beam.wavelength (b : Beam α) : α := freqToWl b.freq

/-- `Beam::new` with a scalar waist -/
def Beam.new (pol : Pol) (phi theta lam waist : α) : Beam α :=
  { pol := pol, phi := normAngle phi, theta := normAngleSigned theta, freq := wlToFreq lam,
    waistX := waist, waistY := waist }

/-- `Beam::set_angles` -/
def Beam.setAngles (b : Beam α) (phi theta : α) : Beam α :=
  { b with phi := normAngle phi, theta := normAngleSigned theta }
/-- `Beam::set_phi` -/
def Beam.setPhi (b : Beam α) (phi : α) : Beam α := { b with phi := normAngle phi }
/-- `Beam::set_theta_internal` -/
def Beam.setThetaInternal (b : Beam α) (theta : α) : Beam α :=
  { b with theta := normAngleSigned theta }
/-- `Beam::set_frequency` -/
def Beam.setFrequency (b : Beam α) (om : α) : Beam α := { b with freq := om }
/-- `Beam::set_vacuum_wavelength` -/
def Beam.setWavelength (b : Beam α) (lam : α) : Beam α := { b with freq := wlToFreq lam }
/-- `Beam::set_waist` with a scalar -/
def Beam.setWaist (b : Beam α) (w : α) : Beam α := { b with waistX := w, waistY := w }

/-- `PeriodicPoling::new` -/
def Poling.new (period : α) (apod : Apod α) : Poling α :=
  .on (if 0.0 < period then period else -period) (if 0.0 < period then false else true) apod

/-- `PeriodicPoling::with_period` -/
def Poling.withPeriod (pp : Poling α) (period : α) : Poling α :=
  match pp with
  | .off => Poling.new period .off
  | .on _ _ apod => Poling.new period apod

/-- `PeriodicPoling::assign_period` (ignores `Off`) -/
def Poling.assignPeriod (pp : Poling α) (period : α) : Poling α :=
  match pp with
  | .off => .off
  | .on _ _ apod => .on (Transc.abs period) (if 0.0 < period then false else true) apod

/-- `Sign * x` -/
def signMul (neg : Bool) (x : α) : α := if neg then x * (-1.0) else x * 1.0

/-- `ApodizationConfig → Apodization` -/
def Apod.ofCfg : Apod α → Apod α
  | .gaussian fwhmUm => .gaussian (fwhmUm * micro)
  | a => a

/-! ## the numeric sub-routines -/

/-- numeric parts of the routines other layers model; every field is what the routine returns once
its own wavelength guard has passed -/
structure Ext (α : Type) where
  /-- `Beam::calc_internal_theta_from_external(beam, |external|, crystal)` in rad -/
  snell : Beam α → α → Crystal α → Outcome α
  /-- `Sign::from(Δk_z)` of the unpoled setup with its optimum idler; `true` = NEGATIVE -/
  signNeg : Beam α → Beam α → Crystal α → Outcome Bool
  /-- `optimum_poling_period` after its first `unwrap()`: signed period in m, or the range error -/
  period : Beam α → Beam α → Crystal α → Outcome α
  /-- `CrystalSetup::optimum_theta` after the `unwrap()` in its cost closure, rad -/
  theta : Crystal α → Beam α → Beam α → Outcome α
  /-- `IdlerBeam::try_new_optimum` after its wavelength guard -/
  idler : Beam α → Beam α → Crystal α → Poling α → Outcome (Beam α)
  /-- `CrystalSetup::optimal_waist_position`, m -/
  waistPos : Crystal α → α → Pol → Outcome α

/-- the guard of `IdlerBeam::try_new_optimum`: `ls <= lp` -/
def lsLeLp (signal pump : Beam α) : Bool := decide (signal.wavelength ≤ pump.wavelength)

/-- `IdlerBeam::try_new_optimum` -/
def optimumIdler (ext : Ext α) (signal pump : Beam α) (c : Crystal α) (pp : Poling α) :
    Outcome (Beam α) :=
  if lsLeLp signal pump then .err "ls<=lp" else ext.idler signal pump c pp

/-- `PeriodicPoling::compute_sign` = `try_new_optimum(..).unwrap()` then the sign of Δk_z -/
def computeSign (ext : Ext α) (signal pump : Beam α) (c : Crystal α) : Outcome Bool :=
  if lsLeLp signal pump then .panic "compute_sign:unwrap" else ext.signNeg signal pump c

/-- `optimum_poling_period` (its closure unwraps `try_new_optimum`) -/
def optimumPolingPeriod (ext : Ext α) (signal pump : Beam α) (c : Crystal α) : Outcome α :=
  if lsLeLp signal pump then .panic "optimum_poling_period:unwrap" else ext.period signal pump c

/-- `CrystalSetup::optimum_theta` (its cost closure unwraps `try_new_optimum`) -/
def optimumTheta (ext : Ext α) (c : Crystal α) (signal pump : Beam α) : Outcome α :=
  if lsLeLp signal pump then .panic "optimum_theta:unwrap" else ext.theta c signal pump

/-- `Beam::set_theta_external` -/
def Beam.setThetaExternal (ext : Ext α) (b : Beam α) (external : α) (c : Crystal α) :
    Outcome (Beam α) :=
  (ext.snell b (Transc.abs external) c).map fun th => b.setAngles b.phi th

/-! ## config → setup -/

/-- `From<CrystalConfig> for CrystalSetup` ("converts without autocalculating theta") -/
def CrystalCfg.toSetup (c : CrystalCfg α) : Crystal α :=
  { kind := c.kind, pmType := c.pmType, phi := c.phiDeg * deg,
    theta := (match c.thetaDeg with
      | .param t => t * deg
      | .auto => 0.0 * deg),
    length := c.lengthUm * micro, temperature := c.temperatureC + kelvin0,
    counterProp := c.counterProp }

/-- `PumpConfig::as_beam` -/
def PumpCfg.asBeam (p : PumpCfg α) (c : Crystal α) : Beam α :=
  Beam.new c.pmType.pumpPol 0.0 0.0 (p.wavelengthNm * nano) (p.waistUm * micro)

/-- `SignalConfig::try_as_beam` / `IdlerConfig::try_as_beam` -/
def BeamCfg.tryAsBeam (ext : Ext α) (b : BeamCfg α) (pol : Pol) (c : Crystal α) :
    Outcome (Beam α) :=
  let phi := b.phiDeg * deg
  let beam := Beam.new pol phi 0.0 (b.wavelengthNm * nano) (b.waistUm * micro)
  match b.thetaDeg, b.thetaExternalDeg with
  | some t, none => .ok (beam.setAngles phi (t * deg))
  | none, some te => beam.setThetaExternal ext (te * deg) c
  | _, _ => .err "angles"

/-- `PeriodicPolingConfig::try_as_periodic_poling` -/
def PolingCfg.tryAsPoling (ext : Ext α) (p : PolingCfg α) (signal pump : Beam α)
    (c : Crystal α) : Outcome (Poling α) :=
  match p with
  | .off => .ok .off
  | .config (.auto) apod =>
    (optimumPolingPeriod ext signal pump c).map fun per => Poling.new per (Apod.ofCfg apod)
  | .config (.param periodUm) apod =>
    (computeSign ext signal pump c).map fun neg =>
      Poling.new (signMul neg (Transc.abs periodUm) * micro) (Apod.ofCfg apod)

/-- waist position: explicit focus is stored as `-|focus|`, "auto" asks the crystal -/
def waistPosition (ext : Ext α) (w : Auto α) (c : Crystal α) (b : Beam α) : Outcome α :=
  match w with
  | .param f => .ok (-(Transc.abs f) * micro)
  | .auto => ext.waistPos c b.wavelength b.pol

/-- the crystal-angle step: "auto" asks for the optimum angle, which is refused with poling on -/
def thetaStep (ext : Ext α) (cfg : Config α) (c0 : Crystal α) (signal pump : Beam α)
    (pp : Poling α) : Outcome (Crystal α) :=
  if cfg.crystal.thetaDeg.isAuto then
    (if pp.isOff then (optimumTheta ext c0 signal pump).map fun th => { c0 with theta := th }
     else .err "autotheta+pp")
  else .ok c0

/-- the idler step: explicit configuration, or the optimum idler -/
def idlerStep (ext : Ext α) (cfg : Config α) (signal pump : Beam α) (c1 : Crystal α)
    (pp : Poling α) : Outcome (Beam α) :=
  match cfg.idler with
  | .param ic => ic.tryAsBeam ext c1.pmType.idlerPol c1
  | .auto => optimumIdler ext signal pump c1 pp

/-- the idler's waist-position request: "auto" when the idler itself is "auto" -/
def idlerWaistCfg (cfg : Config α) : Auto α :=
  match cfg.idler with
  | .param ic => ic.waistPositionUm
  | .auto => .auto

/-- `SPDCConfig::try_as_spdc`.  `guard = true` is the repaired code (early error for
`λ_s ≤ λ_p`); `guard = false` is the pinned tree. -/
def tryAsSpdcG (guard : Bool) (cfg : Config α) (ext : Ext α) : Outcome (Setup α) :=
  let c0 := cfg.crystal.toSetup
  let pump := cfg.pump.asBeam c0
  (cfg.signal.tryAsBeam ext c0.pmType.signalPol c0).bind fun signal =>
  if guard && lsLeLp signal pump then .err "ls<=lp" else
  (cfg.poling.tryAsPoling ext signal pump c0).bind fun pp =>
  (thetaStep ext cfg c0 signal pump pp).bind fun c1 =>
  (idlerStep ext cfg signal pump c1 pp).bind fun idler =>
  (waistPosition ext (idlerWaistCfg cfg) c1 idler).bind fun iwp =>
  (waistPosition ext cfg.signal.waistPositionUm c1 signal).bind fun swp =>
  .ok { crystal := c1, signal := signal, idler := idler, pump := pump,
        pumpBandwidth := cfg.pump.bandwidthNm * nano,
        pumpAveragePower := cfg.pump.averagePowerMw * 1.0,
        pumpSpectrumThreshold := cfg.pump.spectrumThreshold.getD 1.0e-2, pp := pp,
        signalWaistPos := swp, idlerWaistPos := iwp,
        deff := toDeff cfg.deffPmPerVolt }

/-- `SPDCConfig::default()` (KTP is crystal 1 of the META table) -/
def defaultConfig : Config α :=
  { crystal := { kind := 1, pmType := .t2_e_eo, phiDeg := 0.0, thetaDeg := .auto, lengthUm := 2000.0,
                 temperatureC := 20.0, counterProp := false }
    pump := { wavelengthNm := 775.0, waistUm := 100.0, bandwidthNm := 5.53, averagePowerMw := 1.0,
              spectrumThreshold := some 1.0e-2 }
    signal := { wavelengthNm := 1550.0, phiDeg := 0.0, thetaDeg := some 0.0, thetaExternalDeg := none,
                waistUm := 100.0, waistPositionUm := .auto }
    idler := .auto
    poling := .off
    deffPmPerVolt := 1.0 }

/-- the code as it stands after the `fix:` commit for D7 -/
def tryAsSpdc (cfg : Config α) (ext : Ext α) : Outcome (Setup α) := tryAsSpdcG true cfg ext

/-! ## setup → config -/

/-- `From<CrystalSetup> for CrystalConfig` -/
def Crystal.toCfg (c : Crystal α) : CrystalCfg α :=
  { kind := c.kind, pmType := c.pmType, thetaDeg := .param (sigfigs (c.theta / deg)),
    phiDeg := sigfigs (c.phi / deg), lengthUm := sigfigs (c.length / micro),
    temperatureC := sigfigs (c.temperature - kelvin0), counterProp := c.counterProp }

/-- signal / idler part of `From<SPDC> for SPDCConfig`; `roundPos = false` reproduces the pinned
tree's unrounded `idler.waist_position_um` -/
def Beam.toCfg (b : Beam α) (waistPos : α) (roundPos : Bool) : BeamCfg α :=
  { wavelengthNm := sigfigs (b.wavelength / nano), thetaDeg := some (sigfigs (b.theta / deg)),
    thetaExternalDeg := none, phiDeg := wrap360 (sigfigs (b.phi / deg)),
    waistUm := sigfigs (b.waistX / micro),
    waistPositionUm := .param (if roundPos then sigfigs (waistPos / micro) else waistPos / micro) }

/-- `From<PeriodicPoling> for PeriodicPolingConfig` -/
def Poling.toCfg : Poling α → PolingCfg α
  | .off => .off
  | .on period _ apod => .config (.param (sigfigs (period / micro))) (Apod.toCfg apod)

/-- `From<SPDC> for SPDCConfig`; `roundIdlerPos = true` is the repaired code (D6) -/
def asConfigG (roundIdlerPos : Bool) (s : Setup α) : Config α :=
  { crystal := s.crystal.toCfg
    pump :=
      { wavelengthNm := sigfigs (s.pump.wavelength / nano),
        bandwidthNm := sigfigs (s.pumpBandwidth / nano),
        waistUm := sigfigs (s.pump.waistX / micro),
        averagePowerMw := sigfigs (s.pumpAveragePower / 1.0),
        spectrumThreshold := some s.pumpSpectrumThreshold }
    signal := s.signal.toCfg s.signalWaistPos true
    idler := .param (s.idler.toCfg s.idlerWaistPos roundIdlerPos)
    poling := s.pp.toCfg
    deffPmPerVolt := sigfigs (s.deff / pmPerVolt) }

def asConfig (s : Setup α) : Config α := asConfigG true s

end scalar
end Spdc.Cfg
