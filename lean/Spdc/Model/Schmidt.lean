import Spdc.Model.Cx
/-!
# M11 — Schmidt number (mirrors `src/math/schmidt.rs`)

Core Lean only.  The Rust computes the singular values `σ` of the entry-wise magnitude matrix
`A = |F|` (row-major, `dim × dim`) with nalgebra's SVD and returns `(Σσ²)²/Σσ⁴`.  The SVD is not
transliterated; the model is the *trace form* `(tr M)²/tr(M²)` with `M = AᵀA`, which is the same
number because `σ²` are the eigenvalues of `M` (theorem `K_eq_sv`).
-/
namespace Spdc.Schmidt
open Spdc

section
variable {α : Type} [Add α] [Sub α] [Mul α] [Div α] [Neg α] [OfScientific α] [Transc α]

/-- `amplitudes.iter().map(|j| j.norm())` -/
def mags (amps : Array (Cx α)) : Array α := amps.map Cx.abs

/-- `A i j` of `DMatrix::from_row_slice(dim, dim, &jsa_mag)` -/
def entry (m : Array α) (d i j : Nat) : α := m.getD (i * d + j) (0.0 : α)

/-- `(AᵀA) j k = Σ_i A i j · A i k` -/
def gram (m : Array α) (d j k : Nat) : α :=
  sumList ((List.range d).map fun i => entry m d i j * entry m d i k)

/-- `tr (AᵀA) = Σσ²` -/
def trM (m : Array α) (d : Nat) : α :=
  sumList ((List.range d).map fun j => gram m d j j)

/-- `tr ((AᵀA)²) = Σσ⁴` -/
def trM2 (m : Array α) (d : Nat) : α :=
  sumList ((List.range d).map fun j =>
    sumList ((List.range d).map fun k => gram m d j k * gram m d k j))

/-- `math::schmidt_number` : the perfect-square test on the length (`num::integer::Roots::sqrt`
is the exact integer square root), then `norm_sq * norm_sq / kinv`.  An empty array passes the
length test (`0 = 0·0`) and nalgebra's `try_svd` panics ("Cannot compute the SVD of an empty
matrix"). -/
def schmidt (amps : Array (Cx α)) : Outcome α :=
  let len := amps.size
  let dim := Nat.sqrt len
  if len ≠ dim * dim then .err "not-square"
  else if dim = 0 then .panic "nalgebra: SVD of an empty matrix"
  else
    let m := mags amps
    let normSq := trM m dim
    let kinv := trM2 m dim
    .ok (normSq * normSq / kinv)

end
end Spdc.Schmidt
