/-!
# M12a — phase-matching type and polarization string forms
(mirrors `src/spdc/pm_type.rs`, `src/crystal/polarization_type.rs`)

Core Lean only.  Strings are modelled as `List Char` (Unicode scalar values, which is what the
`regex` crate matches on in its default Unicode mode); the driver converts with `String.toList`.

`PMType::from_str` tries five regexes in the source's order
`(?i)^(type((\s*)|_?)D)?[\s_]*(P).{0,2}(S)(I)$`.  `matchRe` is an executable matcher for that
language:

* `(?i)` on the letters `t y p e o` is ASCII case folding only (none of them has a non-ASCII
  simple case fold; the correspondence run feeds `ſ`, `K` (Kelvin) and accented letters);
* `\s` is Unicode `White_Space`; `.` is any scalar value except `\n`; `$` is the end of the text.
* `\s*` directly before the digit has to eat *all* leading white space (a digit is not white
  space), `_?` is zero or one underscore, so `type(\s*|_?)D` is deterministic.
-/
namespace Spdc.PM

/-- `PolarizationType` -/
inductive Pol where
  | o | e
deriving DecidableEq, Repr

/-- `PMType` in declaration order -/
inductive PMType where
  | t0_o_oo | t0_e_ee | t1_e_oo | t2_e_eo | t2_e_oe
deriving DecidableEq, Repr

namespace PMType

def all : List PMType := [t0_o_oo, t0_e_ee, t1_e_oo, t2_e_eo, t2_e_oe]

/-- `PMType::inverse` -/
def inverse : PMType → PMType
  | t2_e_eo => t2_e_oe
  | t2_e_oe => t2_e_eo
  | t => t

/-- `PMType::pump_polarization` -/
def pumpPol : PMType → Pol
  | t0_o_oo => .o
  | _ => .e

/-- `PMType::signal_polarization` -/
def signalPol : PMType → Pol
  | t0_e_ee | t2_e_eo => .e
  | t0_o_oo | t1_e_oo | t2_e_oe => .o

/-- `PMType::idler_polarization` -/
def idlerPol : PMType → Pol
  | t2_e_oe | t0_e_ee => .e
  | t0_o_oo | t1_e_oo | t2_e_eo => .o

/-- the digit in the variant's name -/
def digit : PMType → Char
  | t0_o_oo | t0_e_ee => '0'
  | t1_e_oo => '1'
  | t2_e_eo | t2_e_oe => '2'

/-- `Display` / `to_str` (the `Debug` name of the variant) -/
def printL : PMType → List Char
  | t0_o_oo => ['T', 'y', 'p', 'e', '0', '_', 'o', '_', 'o', 'o']
  | t0_e_ee => ['T', 'y', 'p', 'e', '0', '_', 'e', '_', 'e', 'e']
  | t1_e_oo => ['T', 'y', 'p', 'e', '1', '_', 'e', '_', 'o', 'o']
  | t2_e_eo => ['T', 'y', 'p', 'e', '2', '_', 'e', '_', 'e', 'o']
  | t2_e_oe => ['T', 'y', 'p', 'e', '2', '_', 'e', '_', 'o', 'e']

end PMType

namespace Pol
/-- the letter used for the polarization in type names -/
def letter : Pol → Char
  | o => 'o'
  | e => 'e'
/-- `Display` (the `Debug` name) -/
def printL : Pol → List Char
  | o => "Ordinary".toList
  | e => "Extraordinary".toList
end Pol

/-- Unicode `White_Space` — regex `\s` -/
def isWs (c : Char) : Bool :=
  let n := c.toNat
  (9 ≤ n && n ≤ 13) || n == 32 || n == 0x85 || n == 0xA0 || n == 0x1680 ||
  (0x2000 ≤ n && n ≤ 0x200A) || n == 0x2028 || n == 0x2029 || n == 0x202F || n == 0x205F ||
  n == 0x3000

/-- `[\s_]` -/
def isWsU (c : Char) : Bool := isWs c || c == '_'

/-- ASCII lower-casing (`make_ascii_lowercase`, and the `(?i)` folding of `t y p e o`) -/
def lower (c : Char) : Char :=
  if 65 ≤ c.toNat ∧ c.toNat ≤ 90 then Char.ofNat (c.toNat + 32) else c

/-- `(?i)` match of one character against a lower-case ASCII letter -/
def eqCI (c l : Char) : Bool := lower c == l

/-- `.` of the regex crate: anything but a line feed -/
def notNl (c : Char) : Bool := c != '\n'

/-- `D[\s_]*$` -/
def afterType (d : Char) : List Char → Bool
  | c :: r => c == d && r.all isWsU
  | [] => false

/-- `^(type((\s*)|_?)D)?[\s_]*$` -/
def matchHead (d : Char) (cs : List Char) : Bool :=
  cs.all isWsU ||
  match cs with
  | t :: y :: p :: e :: rest =>
    eqCI t 't' && eqCI y 'y' && eqCI p 'p' && eqCI e 'e' &&
      (afterType d (rest.dropWhile isWs) ||
        match rest with
        | '_' :: r => afterType d r
        | _ => false)
  | _ => false

/-- `^HEAD P .{0,2}$` on the *reversed* text before the last two letters -/
def midOk (d p : Char) (rev : List Char) : Bool :=
  (match rev with
    | k :: h => eqCI k p && matchHead d h.reverse
    | _ => false) ||
  (match rev with
    | a :: k :: h => notNl a && eqCI k p && matchHead d h.reverse
    | _ => false) ||
  (match rev with
    | a :: b :: k :: h => notNl a && notNl b && eqCI k p && matchHead d h.reverse
    | _ => false)

/-- `(?i)^(type((\s*)|_?)D)?[\s_]*(P).{0,2}(S)(I)$` -/
def matchRe (d p s i : Char) (cs : List Char) : Bool :=
  match cs.reverse with
  | ci :: cs' :: rest => eqCI ci i && eqCI cs' s && midOk d p rest
  | _ => false

/-- the regex of a variant -/
def matchT (t : PMType) (cs : List Char) : Bool :=
  matchRe t.digit t.pumpPol.letter t.signalPol.letter t.idlerPol.letter cs

/-- `PMType::from_str`: the five regexes in the source's order -/
def parse (cs : List Char) : Option PMType :=
  if matchT .t0_o_oo cs then some .t0_o_oo
  else if matchT .t0_e_ee cs then some .t0_e_ee
  else if matchT .t1_e_oo cs then some .t1_e_oo
  else if matchT .t2_e_eo cs then some .t2_e_eo
  else if matchT .t2_e_oe cs then some .t2_e_oe
  else none

/-- `PolarizationType::from_str` -/
def Pol.parse (cs : List Char) : Option Pol :=
  let l := cs.map lower
  if l = ['o'] ∨ l = "ordinary".toList then some .o
  else if l = ['e'] ∨ l = "extraordinary".toList then some .e
  else none

/-- spellings found in the crate's documentation, doctests, unit tests and README -/
def documented : List (List Char × PMType) :=
  [ ("ooo".toList, .t0_o_oo), ("o-oo".toList, .t0_o_oo), ("Type2 e eo".toList, .t2_e_eo),
    ("type 2 e->eo".toList, .t2_e_eo), ("Type_2_e_eo".toList, .t2_e_eo), ("e->eo".toList, .t2_e_eo),
    ("e oo".toList, .t1_e_oo), ("Type2_e_eo".toList, .t2_e_eo) ]

end Spdc.PM
