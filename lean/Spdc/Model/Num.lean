/-!
# Scalar interface of the executable model (core Lean only — no Mathlib)

Every model definition is polymorphic in the scalar type `α`.  Arithmetic classes are separate
instance arguments so that at `α := ℝ` Mathlib's own instances are used.  `Transc` collects the
non-field operations the Rust code uses.  The `Float` instance is plain libm (what rustc's f64
computes); the `ℝ` instance lives in `Spdc/Real/Inst.lean`.
-/
namespace Spdc

/-- non-field scalar operations used by spdcalc -/
class Transc (α : Type) where
  sqrt : α → α
  sin : α → α
  cos : α → α
  tan : α → α
  asin : α → α
  acos : α → α
  atan : α → α
  atan2 : α → α → α
  exp : α → α
  ln : α → α
  floor : α → α
  ceil : α → α
  round : α → α
  abs : α → α
  pi : α

instance : Transc Float where
  sqrt := Float.sqrt
  sin := Float.sin
  cos := Float.cos
  tan := Float.tan
  asin := Float.asin
  acos := Float.acos
  atan := Float.atan
  atan2 := Float.atan2
  exp := Float.exp
  ln := Float.log
  floor := Float.floor
  ceil := Float.ceil
  round := Float.round
  abs := Float.abs
  pi := 3.141592653589793

instance : NatCast Float := ⟨Float.ofNat⟩

/-- Outcome of a modelled Rust call: value, `Err(..)` of a small class, or a panic at a site. -/
inductive Outcome (β : Type) where
  | ok : β → Outcome β
  | err : String → Outcome β
  | panic : String → Outcome β
deriving Repr, DecidableEq

namespace Outcome
def map {β γ} (f : β → γ) : Outcome β → Outcome γ
  | ok b => ok (f b)
  | err e => err e
  | panic s => panic s
def bind {β γ} (x : Outcome β) (f : β → Outcome γ) : Outcome γ :=
  match x with
  | ok b => f b
  | err e => err e
  | panic s => panic s
def isPanic {β} : Outcome β → Bool
  | panic _ => true
  | _ => false
def isOk {β} : Outcome β → Bool
  | ok _ => true
  | _ => false
end Outcome

end Spdc
