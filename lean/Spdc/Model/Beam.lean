import Spdc.Model.Units
import Spdc.Model.Index
import Spdc.Model.NM1D
/-!
# M4 — `Beam` state machine, Snell conversions (mirrors `src/beam/mod.rs`)

Core Lean only.  Every setter is modelled as coded, in particular *which* setters refresh the cached
direction.  `set_theta_external` runs a 1-D Nelder–Mead search (`calc_internal_theta_from_external`);
the optimiser's result is a parameter of the corresponding op (`setThetaExternal t`), the rest of the
setter (`sign·θ`, `set_angles(self.phi, ·)`) is modelled.
-/
namespace Spdc.Beam
open Spdc Spdc.Units Spdc.Index

/-- `BeamWaist { x, y }` -/
structure Waist (α : Type) where
  x : α
  y : α
deriving Repr

/-- `struct Beam` -/
structure Beam (α : Type) where
  waist : Waist α
  frequency : α
  polarization : Pol
  theta : α
  phi : α
  direction : Vec3 α
deriving Repr

/-- the mutations of a beam (public API) -/
inductive Op (α : Type) where
  | setPhi (φ : α)
  | setThetaInternal (θ : α)
  | setAngles (φ θ : α)
  /-- `set_theta_external(external, setup)`; `t` = result of the simplex search for `|external|` -/
  | setThetaExternal (t : α)
  | setFrequency (ω : α)
  | setVacuumWavelength (lam : α)
  | setPolarization (p : Pol)
  | withPolarization (p : Pol)
  | setWaist (wx wy : α)
  /-- `PumpBeam::from(beam)` -/
  | intoPump
deriving Repr

section
variable {α : Type} [Add α] [Sub α] [Mul α] [Div α] [Neg α] [OfScientific α] [LT α]
  [DecidableLT α] [LE α] [DecidableLE α] [BEq α] [Transc α] [FMod α]

/-- `Unit::new_normalize` : `v / ‖v‖` with `‖v‖ = sqrt(0 + x² + y² + z²)` -/
def normalize (v : Vec3 α) : Vec3 α :=
  let n := Transc.sqrt v.normSq
  ⟨v.x / n, v.y / n, v.z / n⟩

/-- the un-normalised polar formula `(sinθ cosφ, sinθ sinφ, cosθ)` -/
def polarVector (φ θ : α) : Vec3 α :=
  ⟨Transc.sin θ * Transc.cos φ, Transc.sin θ * Transc.sin φ, Transc.cos θ⟩

/-- `beam::direction_from_polar(phi, theta)` -/
def directionFromPolar (φ θ : α) : Vec3 α := normalize (polarVector φ θ)

/-- `Beam::new(polarization, phi, theta, vacuum_wavelength, waist)` -/
def new (pol : Pol) (φ θ lam : α) (w : Waist α) : Beam α :=
  let φ' := normalizeAngle φ
  let θ' := normalizeAngleSigned θ
  { polarization := pol
    frequency := vacuumWavelengthToFrequency lam
    waist := w
    phi := φ'
    theta := θ'
    direction := directionFromPolar φ' θ' }

/-- `Beam::update_direction` -/
def updateDirection (b : Beam α) : Beam α :=
  { b with direction := directionFromPolar b.phi b.theta }

/-- `Beam::set_angles` -/
def setAngles (b : Beam α) (φ θ : α) : Beam α :=
  updateDirection { b with phi := normalizeAngle φ, theta := normalizeAngleSigned θ }

/-- one mutation, as coded -/
def step (b : Beam α) : Op α → Beam α
  | .setPhi φ => updateDirection { b with phi := normalizeAngle φ }
  | .setThetaInternal θ => updateDirection { b with theta := normalizeAngleSigned θ }
  | .setAngles φ θ => setAngles b φ θ
  -- `sign = |external|.signum() = 1`; `theta = sign * t`; `self.set_angles(self.phi, theta)`
  | .setThetaExternal t => setAngles b b.phi ((1.0 : α) * t)
  | .setFrequency ω => { b with frequency := ω }
  | .setVacuumWavelength lam => { b with frequency := vacuumWavelengthToFrequency lam }
  | .setPolarization p => { b with polarization := p }
  | .withPolarization p => { b with polarization := p }
  | .setWaist wx wy => { b with waist := ⟨wx, wy⟩ }
  | .intoPump => setAngles b (0.0 : α) (0.0 : α)

/-- a whole history -/
def run (b : Beam α) (ops : List (Op α)) : Beam α := ops.foldl step b

/-- `Beam::vacuum_wavelength` -/
def vacuumWavelength (b : Beam α) : α := frequencyToVacuumWavelength b.frequency

/-- `Beam::calc_external_theta_from_internal` with the principal indices
`n = crystal.get_indices(beam.vacuum_wavelength(), T)` passed in: `asin(n(θ)·sin θ)` -/
def snellExternal (n : Vec3 α) (cθ cφ : α) (φ : α) (pol : Pol) (internal : α) : α :=
  let dir := directionFromPolar φ internal
  let idx := indexAlong n cθ cφ dir pol
  Transc.asin (idx * Transc.sin internal)

/-- `Beam::theta_external` -/
def thetaExternal (n : Vec3 α) (cθ cφ : α) (b : Beam α) : α :=
  snellExternal n cθ cφ b.phi b.polarization b.theta

/-- the cost function minimised by `calc_internal_theta_from_external` :
`|sin θ_e − n(θ)·sin θ|` -/
def snellCost (n : Vec3 α) (cθ cφ : α) (φ : α) (pol : Pol) (external internal : α) : α :=
  let dir := directionFromPolar φ internal
  let idx := indexAlong n cθ cφ dir pol
  Transc.abs (Transc.sin external - idx * Transc.sin internal)

/-- an `f64` cost value as argmin's comparisons see it (`NaN ≠ NaN`; `x − x ≠ 0` for `±∞`) -/
def toCost (x : α) : NM1D.Cost α :=
  if !(x == x) then .nan else if isFinite x then .fin x else .inf

/-- `f64::signum` (`+0.0 ↦ 1`, `−0.0 ↦ −1`, NaN ↦ NaN) -/
def signum (x : α) : α :=
  if !(x == x) then x
  else if x < (0.0 : α) then -(1.0 : α)
  else if x == (0.0 : α) && (1.0 : α) / x < (0.0 : α) then -(1.0 : α)
  else (1.0 : α)

/-- `Beam::calc_internal_theta_from_external` : `sign(guess) · nelder_mead_1d(curve, (guess, guess+1),
100, 0, π/2, 1e-12)` with `guess = external` and `curve = snellCost` -/
def snellInternal (n : Vec3 α) (cθ cφ : α) (φ : α) (pol : Pol) (external : α) : Outcome α :=
  let guess := external
  let sign := signum guess
  (NM1D.run (fun t => toCost (snellCost n cθ cφ φ pol external t)) guess (guess + (1.0 : α)) 100
    (0.0 : α) halfPi (1e-12 : α)).map fun θ => sign * θ

/-- `Beam::wavevector` direction·(n·ω/c) with the index passed in -/
def wavevector (b : Beam α) (ω idx : α) : Vec3 α :=
  let k := frequencyToWavenumber ω idx
  ⟨b.direction.x * k, b.direction.y * k, b.direction.z * k⟩

end
end Spdc.Beam
