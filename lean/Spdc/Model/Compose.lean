import Spdc.Model.Num
import Spdc.Model.Cx
import Spdc.Model.Units
import Spdc.Model.Crystals
import Spdc.Model.Index
import Spdc.Model.Beam
import Spdc.Model.DeltaK
import Spdc.Model.Poling
import Spdc.Model.PMType
import Spdc.Model.PM
import Spdc.Model.Norm
import Spdc.Model.Jsa
import Spdc.Model.Quad
import Spdc.Model.Singles
/-!
# The composed end-to-end model: primitive setup ⟶ indices ⟶ beams ⟶ Δk ⟶ integrand ⟶ jsa / jsi

Core Lean only.  Every layer model (`Crystals`, `Index`, `Beam`, `Units`, `DeltaK`, `Poling`, `PM`,
`Norm`, `Jsa`, `Quad`, `Singles`) is tied to the code on its own, each receiving the outputs of the
lower layers *from the real crate*.  This file composes them: `Setup` holds primitive inputs only
(what one would write into an `SPDCConfig`, in SI / UCUM base values), and every derived quantity —
principal indices, direction-dependent indices at arbitrary frequencies, beam directions, external
angles, wave vectors, Δk, pump walk-off, `k_eff`, apodisation weight, the z-integrand, the Simpson
z-integral, the pump envelope, `jsa_raw`, the normalisation, `jsa`, `jsi`, the singles integrand and
`jsi_singles`, the optimum idler — is computed by the layer models *from the layer models' own
outputs*.  No definition of another model file is changed; the small adapters between the layers'
record types (`Pol` ×3, `PMType` ×2, two poling records) live here.

What stays outside (used through explicit values only): the Snell *inverse* and the optimisers
(`set_theta_external`, `optimum_theta`, `optimum_poling_period` — the signal's internal angle, the
crystal angle and the poling period are primitives here), third-party quadratures (Gauss–Legendre
node generation, Gauss–Kronrod, Clenshaw–Curtis).

The real code mirrored, top to bottom: `Beam::new`, `PumpBeam::from`, `PeriodicPoling::new`,
`SPDC::new`, `SPDC::assign_optimum_idler`, `CrystalType::get_indices`, `CrystalSetup::index_along`,
`Beam::{refractive_index, theta_external, wavevector, walkoff_angle}`, `delta_k`,
`CrystalSetup::optimal_waist_position`, `get_pm_integrand`, `phasematch_fiber_coupling`,
`pump_spectral_amplitude`, `jsa_raw`, `jsi_normalization`, `JointSpectrum::{jsa, jsi, jsi_singles}`,
`phasematch_singles_fiber_coupling`, `SPDC::with_swapped_signal_idler`.
-/
namespace Spdc.Compose
open Spdc

/-! ### adapters between the layers' record types -/

/-- `PM.Pol` (C05–C07, C16) → `Index.Pol` (C02, C13) -/
def polIndex : PM.Pol → Index.Pol
  | .o => .ordinary
  | .e => .extraordinary

/-- `Index.Pol` → `PM.Pol` -/
def polPM : Index.Pol → PM.Pol
  | .ordinary => .o
  | .extraordinary => .e

/-- `DeltaK.Pol` (C03) → `Index.Pol` -/
def polOfDK : DeltaK.Pol → Index.Pol
  | .o => .ordinary
  | .e => .extraordinary

/-- `PM.PMType` → `DeltaK.PMType` -/
def pmDK : PM.PMType → DeltaK.PMType
  | .t0_o_oo => .t0_o_oo
  | .t0_e_ee => .t0_e_ee
  | .t1_e_oo => .t1_e_oo
  | .t2_e_eo => .t2_e_eo
  | .t2_e_oe => .t2_e_oe

/-- `Poling.PP` (C19: period, sign, apodisation) → `DeltaK.Poling` (C03: period, sign) -/
def ppDK {α : Type} : Poling.PP α → DeltaK.Poling α
  | .off => .off
  | .on period sign _ => .on period (sign == .neg)

/-- value of an `Outcome`, `d` for `Err`/panic -/
def getD {β : Type} (d : β) : Outcome β → β
  | .ok b => b
  | _ => d

/-! ### primitive inputs -/

/-- one collected beam as configured: vacuum wavelength (m), internal polar angle, azimuth (rad),
waist (m), waist position (m) -/
structure BeamSpec (α : Type) where
  lam : α
  theta : α
  phi : α
  wx : α
  wy : α
  z0 : α

/-- poling as configured: off, or a *signed* period with an apodisation window -/
inductive PolingSpec (α : Type) where
  | off
  | on (signedPeriod : α) (apod : Poling.Apod α)

/-- the primitive inputs of an `SPDC` (SI / UCUM base values: m, rad, K, mW, m/mV) -/
structure Setup (α : Type) where
  crystal : Crystals.Crystal
  /-- crystal θ, φ (rad), length (m), temperature (K) -/
  cTheta : α
  cPhi : α
  L : α
  T : α
  counterProp : Bool
  pm : PM.PMType
  /-- pump: vacuum wavelength, waist, bandwidth FWHM (m), average power (mW), spectrum threshold -/
  lamP : α
  wpx : α
  wpy : α
  bandwidth : α
  power : α
  threshold : α
  /-- `deff` (m/mV) -/
  deff : α
  sig : BeamSpec α
  /-- the idler as configured; with `idlerAuto` its `lam`, `theta`, `phi` are ignored
  (`"idler": "auto"`), waist and waist position are always read -/
  idl : BeamSpec α
  idlerAuto : Bool
  poling : PolingSpec α

/-- `SPDC::with_swapped_signal_idler` on the primitive inputs (explicit idler) -/
def Setup.swap {α : Type} (S : Setup α) : Setup α :=
  { S with sig := S.idl, idl := S.sig, pm := S.pm.inverse }

section
variable {α : Type} [Add α] [Sub α] [Mul α] [Div α] [Neg α] [OfScientific α] [LT α]
  [DecidableLT α] [LE α] [DecidableLE α] [BEq α] [NatCast α] [Transc α] [Units.FMod α]
  [Poling.AsUsize α]

/-- the setup with `pump_average_power` scaled by `a` and `deff` by `b` -/
def Setup.scaled (S : Setup α) (a b : α) : Setup α :=
  { S with power := a * S.power, deff := b * S.deff }

/-! ### crystal layer ∘ index layer -/

/-- `crystal.get_indices(λ, T)` -/
def principal (S : Setup α) (lam : α) : Vec3 α := Crystals.indices S.crystal lam S.T

/-- `crystal_setup.index_along(frequency_to_vacuum_wavelength(ω), dir, pol)` -/
def indexAt (S : Setup α) (dir : Vec3 α) (pol : Index.Pol) (ω : α) : α :=
  Index.indexAlong (principal S (Units.frequencyToVacuumWavelength ω)) S.cTheta S.cPhi dir pol

/-- `beam.refractive_index(ω, &crystal_setup)` -/
def refractiveIndex (S : Setup α) (b : Beam.Beam α) (ω : α) : α :=
  indexAt S b.direction b.polarization ω

/-! ### beams -/

/-- `Beam::new(pm_type.signal_polarization(), φ, θ, λ, waist)` -/
def signalBeam (S : Setup α) : Beam.Beam α :=
  Beam.new (polIndex S.pm.signalPol) S.sig.phi S.sig.theta S.sig.lam ⟨S.sig.wx, S.sig.wy⟩

/-- `PumpBeam::from(Beam::new(pm_type.pump_polarization(), 0, 0, λ_p, waist))` -/
def pumpBeam (S : Setup α) : Beam.Beam α :=
  Beam.step (Beam.new (polIndex S.pm.pumpPol) (0.0 : α) (0.0 : α) S.lamP ⟨S.wpx, S.wpy⟩) .intoPump

/-- the idler as configured explicitly -/
def explicitIdler (S : Setup α) : Beam.Beam α :=
  Beam.new (polIndex S.pm.idlerPol) S.idl.phi S.idl.theta S.idl.lam ⟨S.idl.wx, S.idl.wy⟩

/-- `PeriodicPoling::Off` or `PeriodicPoling::new(signed_period, apodization)` -/
def pp (S : Setup α) : Poling.PP α :=
  match S.poling with
  | .off => .off
  | .on p a => Poling.PP.new p a

/-- `pp != PeriodicPoling::Off` -/
def ppOn (S : Setup α) : Bool :=
  match S.poling with
  | .off => false
  | .on _ _ => true

/-- what `IdlerBeam::try_new_optimum(&signal, &pump, &crystal_setup, &pp)` reads, with the two
refractive indices computed by the composed lower layers -/
def idlerIn (S : Setup α) : DeltaK.IdlerIn α :=
  let s := signalBeam S
  let p := pumpBeam S
  { pm := pmDK S.pm
    cp := S.counterProp
    ls := Beam.vacuumWavelength s
    lp := Beam.vacuumWavelength p
    ns := refractiveIndex S s s.frequency
    np := refractiveIndex S p p.frequency
    thetaS := s.theta
    phiS := s.phi
    pp := ppDK (pp S)
    wx := s.waist.x
    wy := s.waist.y }

/-- the `Beam` that `Beam::new` builds from the optimum idler's fields (angles already normalised
inside `DeltaK.optimumIdler`), with `set_waist(idler.waist())` of `assign_optimum_idler` -/
def beamOfIdlerOut (S : Setup α) (o : DeltaK.IdlerOut α) : Beam.Beam α :=
  { waist := ⟨S.idl.wx, S.idl.wy⟩
    frequency := o.omega
    polarization := polOfDK o.pol
    theta := o.theta
    phi := o.phi
    direction := Beam.directionFromPolar o.phi o.theta }

/-- `SPDC::assign_optimum_idler` -/
def autoIdler (S : Setup α) : Outcome (Beam.Beam α) :=
  (DeltaK.optimumIdler (idlerIn S)).map (beamOfIdlerOut S)

/-- the idler beam of the setup: explicit, or `"auto"` -/
def idlerBeam (S : Setup α) : Outcome (Beam.Beam α) :=
  if S.idlerAuto then autoIdler S else .ok (explicitIdler S)

/-- `beam.theta_external(&crystal_setup)` (Snell forward), indices at the beam's centre wavelength -/
def thetaExternal (S : Setup α) (b : Beam.Beam α) : α :=
  Beam.thetaExternal (principal S (Beam.vacuumWavelength b)) S.cTheta S.cPhi b

/-- `beam.wavevector(ω, &crystal_setup)` -/
def wavevector (S : Setup α) (b : Beam.Beam α) (ω : α) : Vec3 α :=
  DeltaK.wavevector b.direction (refractiveIndex S b ω) ω

/-- `crystal_setup.optimal_waist_position(beam.vacuum_wavelength(), beam.polarization())` -/
def optimalWaistPosition (S : Setup α) (b : Beam.Beam α) : α :=
  Index.optimalWaistPosition (principal S (Beam.vacuumWavelength b)) S.cTheta S.cPhi S.L b.polarization

/-! ### Δk, walk-off, poling -/

/-- `spdc.delta_k(ω_s, ω_i)` : the pump wave vector is taken at the pump's own centre frequency -/
def deltaK (S : Setup α) (ωs ωi : α) : Outcome (Vec3 α) :=
  (idlerBeam S).bind fun i =>
    let s := signalBeam S
    let p := pumpBeam S
    DeltaK.deltaK s.direction i.direction p.direction
      (refractiveIndex S s ωs) (refractiveIndex S i ωi) (refractiveIndex S p p.frequency)
      ωs ωi p.frequency (ppDK (pp S))

/-- `pump.walkoff_angle(&crystal_setup)` (central difference over the crystal angle, as coded) -/
def walkoff (S : Setup α) : Outcome α :=
  let p := pumpBeam S
  Index.walkoff (principal S (Beam.vacuumWavelength p)) S.cTheta S.cPhi p.direction p.polarization

/-- `pp.k_eff()` -/
def kEff (S : Setup α) : Outcome α := (pp S).kEff

/-- `pp.integration_constant(z, L)`; NaN (`0/0`) stands for the `assert!` outside `[-1, 1]`, which
no quadrature node reaches -/
def apodWeight (S : Setup α) (z : α) : α :=
  match pp S with
  | .off => (1.0 : α)
  | .on _ _ apod => getD ((0.0 : α) / (0.0 : α)) (Poling.window apod z S.L)

/-! ### the phase-matching view (`PM.Setup`, `PM.JSetup`) assembled from the lower layers -/

/-- what `get_pm_integrand` reads from one collected beam -/
def pmBeam (S : Setup α) (b : Beam.Beam α) (z0 : α) : PM.Beam α :=
  { phi := b.phi
    theta := b.theta
    thetaE := thetaExternal S b
    wx := b.waist.x
    wy := b.waist.y
    z0 := z0
    sgn := Beam.signum b.direction.z
    n := refractiveIndex S b
    freq := b.frequency
    pol := polPM b.polarization }

/-- the integrand's view, given the idler beam and the two fallible scalars -/
def pmSetupOf (S : Setup α) (i : Beam.Beam α) (rho keff : α) : PM.Setup α :=
  { L := S.L
    sig := pmBeam S (signalBeam S) S.sig.z0
    idl := pmBeam S i S.idl.z0
    wpx := S.wpx
    wpy := S.wpy
    nP := refractiveIndex S (pumpBeam S)
    rho := rho
    keff := keff
    apod := apodWeight S
    pm := S.pm }

/-- the joint-spectrum view -/
def jsetupOf (S : Setup α) (i : Beam.Beam α) (rho keff : α) : PM.JSetup α :=
  { toSetup := pmSetupOf S i rho keff
    omegaP := (pumpBeam S).frequency
    bandwidth := S.bandwidth
    threshold := S.threshold
    power := S.power
    deff := S.deff
    ppOn := ppOn S }

/-- everything `get_pm_integrand` / `jsa_raw` / `jsi_normalization` read, computed from the
primitive inputs; a panic of `walkoff_angle` (non-finite derivative), of `k_eff` (non-positive stored
period) or an `Err` of the optimum idler propagates -/
def jsetup (S : Setup α) : Outcome (PM.JSetup α) :=
  (idlerBeam S).bind fun i => (walkoff S).bind fun rho => (kEff S).bind fun ke =>
    .ok (jsetupOf S i rho ke)

/-- `get_pm_integrand(ω_s, ω_i, &spdc)(z)` -/
def pmIntegrand (S : Setup α) (ωs ωi z : α) : Outcome (Cx α) :=
  (jsetup S).map fun J => PM.pmIntegrand J.toSetup ωs ωi z

/-- `phasematch_fiber_coupling(ω_s, ω_i, &spdc, Integrator::Simpson{divs})` through the quadrature
layer: `0.5 * simpson(fn_z, -1, 1, divs)` -/
def pmCoinc (S : Setup α) (divs : Nat) (ωs ωi : α) : Outcome (Cx α) :=
  (jsetup S).bind fun J =>
    (Quad.simpson (PM.pmIntegrand J.toSetup ωs ωi) (-(1.0 : α)) (1.0 : α) divs).map
      (Cx.smul (0.5 : α))

/-- nodes, weights and final scale of `math::simpson` on `[-1, 1]` (`divs + divs % 2 − 2` slices,
underflow and `assert!(divs ≥ 4)` are panics) -/
def simpsonRule (divs : Nat) : Outcome (List (α × α) × α) :=
  (Quad.simpsonDivs divs).map fun d =>
    (PM.simpsonNodes d, (((1.0 : α) - (-(1.0 : α))) / (d : α)) / (3.0 : α))

/-- the absolute sum `½ Σ (|Re f| + |Im f|) w · dx/3` behind the Simpson z-integral (forward-error
scale of the oscillatory sum; used by the correspondence comparison only) -/
def pmCoincAbs (S : Setup α) (divs : Nat) (ωs ωi : α) : Outcome α :=
  (jsetup S).bind fun J => (simpsonRule divs).map fun r =>
    (0.5 : α) * (PM.quadAbsSum r.1 (PM.pmIntegrand J.toSetup ωs ωi) * r.2)

/-! ### pump envelope, support, joint spectrum -/

/-- `pump.frequency()` -/
def omegaP (S : Setup α) : α := (pumpBeam S).frequency

/-- `pump_spectral_amplitude(ω, &spdc)` -/
def pumpAmplitude (S : Setup α) (ω : α) : α := PM.pumpSpectralAmplitude ω (omegaP S) S.bandwidth

/-- the two tests of `jsa_raw` that precede every other computation: outside the frequency box, or
below the pump-spectrum threshold -/
def offSupport (S : Setup α) (ωs ωi : α) : Bool :=
  PM.invalidFrequencies ωs ωi (omegaP S) || decide (pumpAmplitude S (ωs + ωi) < S.threshold)

/-- `jsa_raw(ω_s, ω_i, &spdc, Integrator::Simpson{divs})`.  Off the support the value is the literal
zero and nothing else is evaluated (no panic for small `divs` there, as in the code). -/
def jsaRaw (S : Setup α) (divs : Nat) (ωs ωi : α) : Outcome (Cx α) :=
  if offSupport S ωs ωi then .ok Cx.zero
  else (jsetup S).bind fun J => (simpsonRule divs).map fun r => PM.jsaRaw J r.1 r.2 ωs ωi

/-- `jsi_normalization(ω_s, ω_i, &spdc)` -/
def jsiNormalization (S : Setup α) (ωs ωi : α) : Outcome α :=
  (jsetup S).map fun J => PM.jsiNormalization J.normIn J.sig J.idl ωs ωi

/-- `jsi_singles_normalization(ω_s, ω_i, &spdc)` -/
def jsiSinglesNormalization (S : Setup α) (ωs ωi : α) : Outcome α :=
  (jsetup S).map fun J => PM.jsiSinglesNormalization J.normIn J.sig J.idl ωs ωi

/-- `JointSpectrum::jsa(ω_s, ω_i)` (Simpson) -/
def jsa (S : Setup α) (divs : Nat) (ωs ωi : α) : Outcome (Cx α) :=
  if offSupport S ωs ωi then .ok Cx.zero
  else (jsetup S).bind fun J => (simpsonRule divs).map fun r => PM.jsa J r.1 r.2 ωs ωi

/-- `JointSpectrum::jsi(ω_s, ω_i)` (Simpson) -/
def jsi (S : Setup α) (divs : Nat) (ωs ωi : α) : Outcome α :=
  if offSupport S ωs ωi then .ok (0.0 : α)
  else (jsetup S).bind fun J => (simpsonRule divs).map fun r => PM.jsi J r.1 r.2 ωs ωi

/-! ### singles -/

/-- what `phasematch_singles_fiber_coupling(ω_s, ω_i, &spdc, ·)` reads, computed from the view -/
def singlesInOf (P : PM.Setup α) (ωs ωi : α) : Singles.SinglesIn α :=
  let ns := P.sig.n ωs
  let ωp := ωs + ωi
  { len := P.L
    thetaS := P.sig.theta
    phiS := P.sig.phi
    thetaSe := P.sig.thetaE
    wsSq := P.sig.wx * P.sig.wy
    wxSq := P.wpx * P.wpx
    wySq := P.wpy * P.wpy
    signKs := P.sig.sgn
    signKi := P.idl.sgn
    ns := ns
    kp := PM.freqToWavenumber ωp (P.nP ωp)
    ksAbs := PM.freqToWavenumber ωs ns
    kiAbs := PM.freqToWavenumber ωi (P.idl.n ωi)
    z0s := P.sig.z0
    rho := P.rho
    keff := P.keff }

/-- the closure `fn_z(z1, z2)` of `phasematch_singles_fiber_coupling` -/
def singlesIntegrandOf (P : PM.Setup α) (ωs ωi z1 z2 : α) : Cx α :=
  Singles.integrand (Singles.coef (singlesInOf P ωs ωi)) (P.apod z1) (P.apod z2) z1 z2

/-- `phasematch_singles_fiber_coupling(ω_s, ω_i, &spdc, Integrator::Simpson{divs})`:
`0.25 * simpson2d(fn_z, -1, 1, -1, 1, divs).norm()`; a panic (`divs < 3`) is mapped to NaN so that
the function can serve as the `sr` parameter of the joint-spectrum layer -/
def singlesSimpsonOf (divs : Nat) (P : PM.Setup α) (ωs ωi : α) : α :=
  getD ((0.0 : α) / (0.0 : α))
    ((Quad.simpson2d (singlesIntegrandOf P ωs ωi) (-(1.0 : α)) (1.0 : α) (-(1.0 : α)) (1.0 : α) divs).map
      Singles.pmSingles)

/-- the singles integrand of the composed setup -/
def singlesIntegrand (S : Setup α) (ωs ωi z1 z2 : α) : Outcome (Cx α) :=
  (jsetup S).map fun J => singlesIntegrandOf J.toSetup ωs ωi z1 z2

/-- `phasematch_singles_fiber_coupling` (Simpson) of the composed setup -/
def pmSingles (S : Setup α) (divs : Nat) (ωs ωi : α) : Outcome α :=
  (jsetup S).bind fun J =>
    (Quad.simpson2d (singlesIntegrandOf J.toSetup ωs ωi) (-(1.0 : α)) (1.0 : α) (-(1.0 : α)) (1.0 : α)
      divs).map Singles.pmSingles

/-- `JointSpectrum::jsi_singles(ω_s, ω_i)` (Simpson) -/
def jsiSingles (S : Setup α) (divs : Nat) (ωs ωi : α) : Outcome α :=
  if offSupport S ωs ωi then .ok (0.0 : α)
  else (jsetup S).bind fun J =>
    (Quad.simpson2dDivs divs).map fun _ => PM.jsiSingles (singlesSimpsonOf divs) J ωs ωi

end
end Spdc.Compose
