import Spdc.Model.Config
import Spdc.Model.Grid
/-!
# M12c — parameter sweeps (mirrors `src/spdc/spdc_iter.rs`, `SPDC::assign_poling_period`)

The `get_setter` table: 25 property paths → which field, which unit factor, which `Beam` setter.
`fixThz` / `fixPoling` select the repaired code (D8: THz = 10¹² cycles/s, D11: the poling-period
path switches poling on) or the pinned tree.
-/
namespace Spdc.Sweep
open Spdc Spdc.PM Spdc.Cfg Spdc.Grid

/-- the 25 supported paths in the order of the source's `match` -/
inductive Path where
  | crystalPhi | crystalTheta | crystalLength | crystalTemperature
  | signalTheta | signalThetaExternal | signalPhi | signalFrequency | signalWavelength
  | signalWaist | signalWaistPosition
  | idlerTheta | idlerThetaExternal | idlerPhi | idlerFrequency | idlerWavelength
  | idlerWaist | idlerWaistPosition
  | pumpFrequency | pumpWavelength | pumpWaist | pumpAveragePower | pumpBandwidth
  | polingPeriod
  | deff
deriving DecidableEq, Repr

namespace Path

def all : List Path :=
  [crystalPhi, crystalTheta, crystalLength, crystalTemperature, signalTheta, signalThetaExternal,
   signalPhi, signalFrequency, signalWavelength, signalWaist, signalWaistPosition, idlerTheta,
   idlerThetaExternal, idlerPhi, idlerFrequency, idlerWavelength, idlerWaist, idlerWaistPosition,
   pumpFrequency, pumpWavelength, pumpWaist, pumpAveragePower, pumpBandwidth, polingPeriod, deff]

def name : Path → String
  | crystalPhi => "crystal.phi_deg"
  | crystalTheta => "crystal.theta_deg"
  | crystalLength => "crystal.length_um"
  | crystalTemperature => "crystal.temperature_c"
  | signalTheta => "signal.theta_deg"
  | signalThetaExternal => "signal.theta_external_deg"
  | signalPhi => "signal.phi_deg"
  | signalFrequency => "signal.frequency_thz"
  | signalWavelength => "signal.wavelength_nm"
  | signalWaist => "signal.waist_um"
  | signalWaistPosition => "signal.waist_position_um"
  | idlerTheta => "idler.theta_deg"
  | idlerThetaExternal => "idler.theta_external_deg"
  | idlerPhi => "idler.phi_deg"
  | idlerFrequency => "idler.frequency_thz"
  | idlerWavelength => "idler.wavelength_nm"
  | idlerWaist => "idler.waist_um"
  | idlerWaistPosition => "idler.waist_position_um"
  | pumpFrequency => "pump.frequency_thz"
  | pumpWavelength => "pump.wavelength_nm"
  | pumpWaist => "pump.waist_um"
  | pumpAveragePower => "pump.average_power_mw"
  | pumpBandwidth => "pump.bandwidth_nm"
  | polingPeriod => "periodic_poling.poling_period_um"
  | deff => "deff_pm_per_volt"

/-- `get_setter`'s string match (`none` = `Err("Unknown property: …")`) -/
def ofString (s : String) : Option Path :=
  all.find? fun p => p.name == s

end Path

section scalar
variable {α : Type} [Add α] [Sub α] [Mul α] [Div α] [Neg α] [OfScientific α] [LT α]
  [DecidableLT α] [LE α] [DecidableLE α] [Transc α]

/-- `v * TERA * HZ * RAD` on the pinned tree; `TWO_PI * v * TERA * HZ * RAD` once repaired -/
def thzToOmega (fixThz : Bool) (v : α) : α :=
  if fixThz then twoPi * v * 1.0e12 else v * 1.0e12

/-- `SPDC::assign_poling_period` -/
def assignPolingPeriod (fixPoling : Bool) (ext : Ext α) (s : Setup α) (period : α) :
    Outcome (Setup α) :=
  (computeSign ext s.signal s.pump s.crystal).map fun neg =>
    let p := signMul neg (Transc.abs period)
    { s with pp := if fixPoling then s.pp.withPeriod p else s.pp.assignPeriod p }

/-- the closure `get_setter` returns for a path -/
def setterG (fixThz fixPoling : Bool) (ext : Ext α) (p : Path) (s : Setup α) (v : α) :
    Outcome (Setup α) :=
  match p with
  | .crystalPhi => .ok { s with crystal := { s.crystal with phi := v * deg } }
  | .crystalTheta => .ok { s with crystal := { s.crystal with theta := v * deg } }
  | .crystalLength => .ok { s with crystal := { s.crystal with length := v * micro } }
  | .crystalTemperature => .ok { s with crystal := { s.crystal with temperature := v + kelvin0 } }
  | .signalTheta => .ok { s with signal := s.signal.setThetaInternal (v * deg) }
  | .signalThetaExternal =>
    (s.signal.setThetaExternal ext (v * deg) s.crystal).map fun b => { s with signal := b }
  | .signalPhi => .ok { s with signal := s.signal.setPhi (v * deg) }
  | .signalFrequency => .ok { s with signal := s.signal.setFrequency (thzToOmega fixThz v) }
  | .signalWavelength => .ok { s with signal := s.signal.setWavelength (v * nano) }
  | .signalWaist => .ok { s with signal := s.signal.setWaist (v * micro) }
  | .signalWaistPosition => .ok { s with signalWaistPos := v * micro }
  | .idlerTheta => .ok { s with idler := s.idler.setThetaInternal (v * deg) }
  | .idlerThetaExternal =>
    (s.idler.setThetaExternal ext (v * deg) s.crystal).map fun b => { s with idler := b }
  | .idlerPhi => .ok { s with idler := s.idler.setPhi (v * deg) }
  | .idlerFrequency => .ok { s with idler := s.idler.setFrequency (thzToOmega fixThz v) }
  | .idlerWavelength => .ok { s with idler := s.idler.setWavelength (v * nano) }
  | .idlerWaist => .ok { s with idler := s.idler.setWaist (v * micro) }
  | .idlerWaistPosition => .ok { s with idlerWaistPos := v * micro }
  | .pumpFrequency => .ok { s with pump := s.pump.setFrequency (thzToOmega fixThz v) }
  | .pumpWavelength => .ok { s with pump := s.pump.setWavelength (v * nano) }
  | .pumpWaist => .ok { s with pump := s.pump.setWaist (v * micro) }
  | .pumpAveragePower => .ok { s with pumpAveragePower := v * 1.0e-3 * 1000.0 }
  | .pumpBandwidth => .ok { s with pumpBandwidth := v * nano }
  | .polingPeriod => assignPolingPeriod fixPoling ext s (v * micro)
  | .deff => .ok { s with deff := toDeff v }

/-- the repaired code -/
def setter (ext : Ext α) (p : Path) (s : Setup α) (v : α) : Outcome (Setup α) :=
  setterG true true ext p s v

/-- one element of `SPDCIter::into_iter`: clone the base, apply the first then the second setter -/
def sweepPoint (ext : Ext α) (p1 p2 : Path) (base : Setup α) (v : α × α) : Outcome (Setup α) :=
  (setter ext p1 base v.1).bind fun s1 => setter ext p2 s1 v.2

variable [NatCast α]

/-- `SPDCIter::into_iter().collect()` : `steps.into_iter().map(apply both setters)` -/
def sweep (ext : Ext α) (p1 p2 : Path) (base : Setup α) (steps : Steps2D α) :
    List (Outcome (Setup α)) :=
  (Steps2D.collect steps).map (sweepPoint ext p1 p2 base)

/-- `SPDCIter::try_new` on path strings -/
def tryNew (s1 s2 : String) : Outcome (Path × Path) :=
  match Path.ofString s1 with
  | none => .err "unknown-property"
  | some p1 =>
    match Path.ofString s2 with
    | none => .err "unknown-property"
    | some p2 => .ok (p1, p2)

end scalar

end Spdc.Sweep

/-! ## the configuration field a path names -/
namespace Spdc.Cfg
open Spdc.Sweep

section fields
variable {α : Type}

def setBeamTheta (b : BeamCfg α) (x : α) : BeamCfg α := { b with thetaDeg := some x }
def setIdler (c : Config α) (f : BeamCfg α → BeamCfg α) : Config α :=
  { c with idler := match c.idler with
      | .param b => .param (f b)
      | .auto => .auto }

/-- write `x` into the field of the configuration that path `p` names.  The `*.frequency_thz`
paths and the `*.theta_external_deg` paths have no field of their own: they are visible as
`wavelength_nm` and `theta_deg`. -/
def Config.setField (c : Config α) (p : Path) (x : α) : Config α :=
  match p with
  | .crystalPhi => { c with crystal := { c.crystal with phiDeg := x } }
  | .crystalTheta => { c with crystal := { c.crystal with thetaDeg := .param x } }
  | .crystalLength => { c with crystal := { c.crystal with lengthUm := x } }
  | .crystalTemperature => { c with crystal := { c.crystal with temperatureC := x } }
  | .signalTheta | .signalThetaExternal => { c with signal := setBeamTheta c.signal x }
  | .signalPhi => { c with signal := { c.signal with phiDeg := x } }
  | .signalFrequency | .signalWavelength => { c with signal := { c.signal with wavelengthNm := x } }
  | .signalWaist => { c with signal := { c.signal with waistUm := x } }
  | .signalWaistPosition => { c with signal := { c.signal with waistPositionUm := .param x } }
  | .idlerTheta | .idlerThetaExternal => setIdler c fun b => setBeamTheta b x
  | .idlerPhi => setIdler c fun b => { b with phiDeg := x }
  | .idlerFrequency | .idlerWavelength => setIdler c fun b => { b with wavelengthNm := x }
  | .idlerWaist => setIdler c fun b => { b with waistUm := x }
  | .idlerWaistPosition => setIdler c fun b => { b with waistPositionUm := .param x }
  | .pumpFrequency | .pumpWavelength => { c with pump := { c.pump with wavelengthNm := x } }
  | .pumpWaist => { c with pump := { c.pump with waistUm := x } }
  | .pumpAveragePower => { c with pump := { c.pump with averagePowerMw := x } }
  | .pumpBandwidth => { c with pump := { c.pump with bandwidthNm := x } }
  | .polingPeriod =>
    { c with poling := match c.poling with
        | .off => .config (.param x) .off
        | .config _ apod => .config (.param x) apod }
  | .deff => { c with deffPmPerVolt := x }

end fields

end Spdc.Cfg
