import Spdc.Model.Num
import Spdc.Model.Cx
import Spdc.Model.PMType
/-!
# M10a — the coincidence phase-matching integrand (mirrors `src/phasematch/coincidences.rs`)

`get_pm_integrand` and `phasematch_fiber_coupling`, in raw SI numbers (every `RAD`, `M`, `M2` of the
Rust is the number 1 and is dropped: `x*1.0` and `x/1.0` are exact).  Operation order follows the
Rust source so that the `Float` instance reproduces the implementation's bits.

Layering: the quantities that the Rust reads from the setup through public getters (angles,
waists, waist positions, refractive indices, the pump walk-off angle, `k_eff`, the apodisation
weight) are *inputs* (`Beam`, `Setup`); the lower layers that compute them are modelled elsewhere.
Refractive indices and the apodisation weight enter as functions, so that the theorems hold for
every dispersion law and every apodisation profile.

The signal and idler coefficient chains that the Rust writes out twice (`GAM1s/GAM1i`, …) are ONE
function `chain` applied to each beam.
-/
namespace Spdc.PM

-- `Pol`, `PMType` (with `inverse`, `signalPol`, `idlerPol`, `pumpPol`) are shared with C16: `Spdc/Model/PMType.lean`

/-- what the integrand (and `with_swapped_signal_idler`) reads from one collected beam and its
waist position -/
structure Beam (α : Type) where
  /-- `beam.phi()` -/
  phi : α
  /-- `beam.theta_internal()` -/
  theta : α
  /-- `beam.theta_external(&crystal_setup)` -/
  thetaE : α
  /-- `beam.waist().x`, `.y` -/
  wx : α
  wy : α
  /-- `signal_waist_position` / `idler_waist_position` -/
  z0 : α
  /-- `beam.direction().z.signum()` -/
  sgn : α
  /-- `ω ↦ beam.refractive_index(ω, &crystal_setup)` -/
  n : α → α
  /-- `beam.frequency()` (centre frequency; not read by the integrand) -/
  freq : α
  /-- `beam.polarization()` (not read by the integrand) -/
  pol : Pol

/-- what `get_pm_integrand` reads from an `SPDC` -/
structure Setup (α : Type) where
  /-- `crystal_setup.length` -/
  L : α
  sig : Beam α
  idl : Beam α
  /-- `pump.waist().x`, `.y` -/
  wpx : α
  wpy : α
  /-- `ω ↦ pump.refractive_index(ω, &crystal_setup)` -/
  nP : α → α
  /-- `pump.walkoff_angle(&crystal_setup)` -/
  rho : α
  /-- `pp.k_eff()` -/
  keff : α
  /-- `z ↦ pp.integration_constant(z, L)` -/
  apod : α → α
  /-- `crystal_setup.pm_type` (not read by the integrand) -/
  pm : PMType

/-- `SPDC::with_swapped_signal_idler` -/
def Setup.swap {α : Type} (S : Setup α) : Setup α :=
  { S with sig := S.idl, idl := S.sig, pm := S.pm.inverse }

/-- per-beam coefficient chain (`k_s`, `GAM1s … GAM4s`, `DEL1s … DEL4s`) -/
structure Chain (α : Type) where
  k : α
  gam1 : α
  gam2 : α
  gam3 : α
  gam4 : α
  del1 : α
  del2 : α
  del3 : α
  del4 : α

/-- the ten z-dependent coefficients `A1 … A10` -/
structure Coef (α : Type) where
  a1 : Cx α
  a2 : Cx α
  a3 : Cx α
  a4 : Cx α
  a5 : Cx α
  a6 : Cx α
  a7 : Cx α
  a8 : Cx α
  a9 : Cx α
  a10 : Cx α

/-- the z-independent part of the coefficients -/
structure Pre (α : Type) where
  As : Cx α
  Ai : Cx α
  Bs : Cx α
  Bi : Cx α
  Cs : α
  Ci : α
  Ds : α
  Di : α
  mx : Cx α
  my : Cx α
  m : α
  nn : α
  hh : Cx α
  a5 : Cx α
  a7 : Cx α
  ee : α
  ff : α

section
variable {α : Type} [Add α] [Sub α] [Mul α] [Div α] [Neg α] [OfScientific α] [LT α]
  [DecidableLT α] [Transc α]

/-- `dim::ucum::C_` in m/s -/
def cLight : α := (299792458.0 : α)

/-- `utils::frequency_to_wavenumber` : `n·ω/c` -/
def freqToWavenumber (ω n : α) : α := n * ω / cLight

/-- `z0 = 0. * M` : the pump waist sits in the middle of the crystal -/
def z0p : α := (0.0 : α)

/-- `x.powi(-2)` (compiler-rt `__powidf2`: `1/(x·x)`) -/
def powiNeg2 (x : α) : α := (1.0 : α) / (x * x)

/-- the coefficient chain of one collected beam at frequency `ω` -/
def chain (b : Beam α) (L ω : α) : Chain α :=
  let wSq := b.wx * b.wy
  let secSq := powiNeg2 (Transc.cos b.thetaE)
  let h := L * (0.5 : α) * Transc.tan b.theta * Transc.cos b.phi
  let sinE := Transc.sin b.thetaE
  let tanE := Transc.tan b.thetaE
  let cosPhi := Transc.cos b.phi
  let nb := b.n ω
  let k := b.sgn * freqToWavenumber ω nb
  let kf := Transc.abs k / nb
  let gam2 := -(0.25 : α) * wSq
  let gam1 := gam2 * secSq
  let gam3 := -(2.0 : α) * kf * gam1 * sinE * cosPhi
  let gam4 := -(0.5 : α) * kf * sinE * cosPhi * gam3
  let zh := b.z0 + h * sinE * cosPhi
  let del2 := ((0.5 : α) / kf) * zh
  let del1 := del2 * secSq
  let del3 := -h - zh * secSq * sinE * cosPhi
  let del4 := (0.5 : α) * kf * zh * (tanE * tanE) - kf * b.z0
  ⟨k, gam1, gam2, gam3, gam4, del1, del2, del3, del4⟩

/-- everything `get_pm_integrand` computes before returning the closure -/
def pre (S : Setup α) (ωs ωi : α) : Pre α :=
  let L := S.L
  let cs := chain S.sig L ωs
  let ci := chain S.idl L ωi
  let wxSq := S.wpx * S.wpx
  let wySq := S.wpy * S.wpy
  let ωp := ωs + ωi
  let kp := freqToWavenumber ωp (S.nP ωp)
  let As : Cx α := ⟨-(0.25 : α) * wxSq + cs.gam1, -cs.del1⟩
  let Ai : Cx α := ⟨-(0.25 : α) * wxSq + ci.gam1, -ci.del1⟩
  let Bs : Cx α := ⟨-(0.25 : α) * wySq + cs.gam2, -cs.del2⟩
  let Bi : Cx α := ⟨-(0.25 : α) * wySq + ci.gam2, -ci.del2⟩
  let Cs := -(0.25 : α) * (L / cs.k - (2.0 : α) * z0p / kp)
  let Ci := -(0.25 : α) * (L / ci.k - (2.0 : α) * z0p / kp)
  let Ds := (0.25 : α) * L * ((1.0 : α) / cs.k - (1.0 : α) / kp)
  let Di := (0.25 : α) * L * ((1.0 : α) / ci.k - (1.0 : α) / kp)
  let mx : Cx α := ⟨-(0.5 : α) * wxSq, z0p / kp⟩
  let my : Cx α := ⟨-(0.5 : α) * wySq, z0p / kp⟩
  let m := L / ((2.0 : α) * kp)
  let nn := (0.5 : α) * L * Transc.tan S.rho
  let hh : Cx α := ⟨cs.gam4 + ci.gam4, -(cs.del4 + ci.del4)⟩
  let a5 : Cx α := ⟨cs.gam3, -cs.del3⟩
  let a7 : Cx α := ⟨ci.gam3, -ci.del3⟩
  let dksi := cs.k + ci.k + S.keff
  let ee := (0.5 : α) * L * (kp + dksi)
  let ff := (0.5 : α) * L * (kp - dksi)
  ⟨As, Ai, Bs, Bi, Cs, Ci, Ds, Di, mx, my, m, nn, hh, a5, a7, ee, ff⟩

/-- the coefficients `A1 … A10` at `z` (first half of the closure `fn_z`) -/
def Pre.coef (p : Pre α) (z : α) : Coef α :=
  let csds : Cx α := Cx.ofImag (p.Cs + p.Ds * z)
  let cidi : Cx α := Cx.ofImag (p.Ci + p.Di * z)
  let mz : Cx α := Cx.ofImag (p.m * z)
  { a1 := p.As + csds
    a2 := p.Bs + csds
    a3 := p.Ai + cidi
    a4 := p.Bi + cidi
    a5 := p.a5
    a6 := Cx.ofImag (p.nn * ((1.0 : α) + z))
    a7 := p.a7
    a8 := p.mx - mz
    a9 := p.my - mz
    a10 := p.hh + Cx.ofImag (p.ee + p.ff * z) }

/-- `f64 + Complex` -/
def addReal (x : α) (z : Cx α) : Cx α := ⟨x + z.re, z.im⟩

namespace Coef
/-- `denom1 = 4·A1·A3 − A8²` -/
def denom1 (A : Coef α) : Cx α := Cx.smul (4.0 : α) A.a1 * A.a3 - A.a8 * A.a8
/-- `denom2 = 4·A2·A4 − A9²` -/
def denom2 (A : Coef α) : Cx α := Cx.smul (4.0 : α) A.a2 * A.a4 - A.a9 * A.a9

/-- the argument of the exponential,
`(4A10 − A1⁻¹(A5² + (−2A1A7 + A5A8)²/denom1) − A2⁻¹A6²(1 + (−2A2 + A9)²/denom2))/4` -/
def exponent (A : Coef α) : Cx α :=
  let a5sq := A.a5 * A.a5
  let a6sq := A.a6 * A.a6
  let invA1 := A.a1.inv
  let invA2 := A.a2.inv
  let term4 := Cx.smul (-(2.0 : α)) A.a1 * A.a7 + A.a5 * A.a8
  let term5 := Cx.smul (-(2.0 : α)) A.a2 + A.a9
  Cx.divs
    (Cx.smul (4.0 : α) A.a10
      - invA1 * (a5sq + (term4 * term4) / A.denom1)
      - invA2 * a6sq * addReal (1.0 : α) ((term5 * term5) / A.denom2))
    (4.0 : α)

/-- `pmzcoeff * numerator / denominator` (second half of the closure `fn_z`) -/
def integrand (A : Coef α) (w : α) : Cx α :=
  Cx.smul w A.exponent.exp / (A.denom1 * A.denom2).sqrt

/-- the coefficients with the diffraction terms (imaginary parts of `A1 … A4`, `A8`, `A9`) removed -/
def ideal (A : Coef α) : Coef α :=
  { A with
    a1 := Cx.ofReal A.a1.re, a2 := Cx.ofReal A.a2.re, a3 := Cx.ofReal A.a3.re
    a4 := Cx.ofReal A.a4.re, a8 := Cx.ofReal A.a8.re, a9 := Cx.ofReal A.a9.re }
end Coef

/-- `A1 … A10` of a setup at `(ω_s, ω_i, z)` -/
def coef (S : Setup α) (ωs ωi z : α) : Coef α := (pre S ωs ωi).coef z

/-- `get_pm_integrand(ω_s, ω_i, spdc)(z)` -/
def pmIntegrand (S : Setup α) (ωs ωi z : α) : Cx α := (coef S ωs ωi z).integrand (S.apod z)

/-- the integrand without diffraction -/
def pmIdeal (S : Setup α) (ωs ωi z : α) : Cx α := (coef S ωs ωi z).ideal.integrand (S.apod z)

/-- z component of `phasematch::delta_k` with the pump evaluated at `ω_s + ω_i`:
`k_p − k_s·cos θ_s − k_i·cos θ_i − k_eff` (`wavevector = direction·n·ω/c`, pump along `ẑ`) -/
def deltaKz (S : Setup α) (ωs ωi : α) : α :=
  let ωp := ωs + ωi
  let kp := freqToWavenumber ωp (S.nP ωp)
  let ks := freqToWavenumber ωs (S.sig.n ωs)
  let ki := freqToWavenumber ωi (S.idl.n ωi)
  kp - ks * Transc.cos S.sig.theta - ki * Transc.cos S.idl.theta - S.keff

/-- the argument of the sinc: `Δk_z · L / 2` -/
def halfDkzL (S : Setup α) (ωs ωi : α) : α := deltaKz S ωs ωi * S.L * (0.5 : α)

/-- a quadrature rule that is a fixed weighted sum of integrand values: `Σ f(xₖ)·wₖ`,
accumulated left to right from zero (`Iterator::sum`) -/
def quadSum (nodes : List (α × α)) (f : α → Cx α) : Cx α :=
  Cx.sum (nodes.map fun p => Cx.muls (f p.1) p.2)

/-- `Σ (|Re f(xₖ)| + |Im f(xₖ)|)·wₖ` — the absolute sum behind `quadSum` (the forward-error scale
of the oscillatory sum; used by the correspondence comparison only; the 1-norm cannot underflow) -/
def quadAbsSum (nodes : List (α × α)) (f : α → Cx α) : α :=
  sumList (nodes.map fun p => (Transc.abs (f p.1).re + Transc.abs (f p.1).im) * p.2)

/-- `phasematch_fiber_coupling` for a rule given by nodes and weights and a final scale
(`result * (dx/3)` for Simpson): `0.5 * integrate(fn_z, -1, 1)` -/
def pmCoincQ (S : Setup α) (nodes : List (α × α)) (scale : α) (ωs ωi : α) : Cx α :=
  Cx.smul (0.5 : α) (Cx.muls (quadSum nodes (pmIntegrand S ωs ωi)) scale)

variable [NatCast α]

/-- `get_simpson_weight` -/
def simpsonWeight (n divs : Nat) : α :=
  if n = 0 ∨ n = divs then (1.0 : α) else if n % 2 = 1 then (4.0 : α) else (2.0 : α)

/-- nodes `x = a + i·dx` and weights of `math::simpson` on `[-1, 1]` with `d` (even) slices -/
def simpsonNodes (d : Nat) : List (α × α) :=
  let a : α := -(1.0 : α)
  let dx : α := ((1.0 : α) - a) / (d : α)
  (List.range (d + 1)).map fun (i : Nat) => (a + ((i : Nat) : α) * dx, simpsonWeight i d)

/-- `phasematch_fiber_coupling(ω_s, ω_i, spdc, Integrator::Simpson{divs})`:
`divs + divs % 2 - 2` slices (usize underflow and `assert!(divs >= 4)` are panics) -/
def pmCoincSimpson (S : Setup α) (divs : Nat) (ωs ωi : α) : Outcome (Cx α) :=
  if divs + divs % 2 < 2 then .panic "simpson/usize-underflow"
  else
    let d := divs + divs % 2 - 2
    if d < 4 then .panic "simpson/steps-too-low"
    else
      let dx : α := ((1.0 : α) - (-(1.0 : α))) / (d : α)
      .ok (pmCoincQ S (simpsonNodes d) (dx / (3.0 : α)) ωs ωi)

end
end Spdc.PM
