import Spdc.Model.Num
/-!
# M0 — complex numbers and 3-vectors over the model scalar (mirrors `num-complex 0.4`, `nalgebra::Vector3`)

Core Lean only.  Operation order follows `num-complex` so that the `Float` instance reproduces the
Rust results to a few ulp.
-/
namespace Spdc

/-- `num::Complex<f64>` -/
structure Cx (α : Type) where
  re : α
  im : α
deriving Repr

namespace Cx
section
variable {α : Type} [Add α] [Sub α] [Mul α] [Div α] [Neg α] [OfScientific α] [LT α]
  [DecidableLT α] [Transc α]

def zero : Cx α := ⟨(0.0 : α), (0.0 : α)⟩
def one : Cx α := ⟨(1.0 : α), (0.0 : α)⟩
def ofReal (x : α) : Cx α := ⟨x, (0.0 : α)⟩
/-- `Complex::new(0., x)` -/
def ofImag (x : α) : Cx α := ⟨(0.0 : α), x⟩

def add (z w : Cx α) : Cx α := ⟨z.re + w.re, z.im + w.im⟩
def sub (z w : Cx α) : Cx α := ⟨z.re - w.re, z.im - w.im⟩
def neg (z : Cx α) : Cx α := ⟨-z.re, -z.im⟩
/-- `(a+ib)(c+id) = (ac − bd) + i(ad + bc)` -/
def mul (z w : Cx α) : Cx α := ⟨z.re * w.re - z.im * w.im, z.re * w.im + z.im * w.re⟩
/-- `f64 * Complex` and `Complex * f64` -/
def smul (s : α) (z : Cx α) : Cx α := ⟨s * z.re, s * z.im⟩
def muls (z : Cx α) (s : α) : Cx α := ⟨z.re * s, z.im * s⟩
/-- `Complex / f64` -/
def divs (z : Cx α) (s : α) : Cx α := ⟨z.re / s, z.im / s⟩
def normSq (z : Cx α) : α := z.re * z.re + z.im * z.im
def conj (z : Cx α) : Cx α := ⟨z.re, -z.im⟩
/-- `Complex::inv` -/
def inv (z : Cx α) : Cx α := ⟨z.re / z.normSq, (-z.im) / z.normSq⟩
/-- `Complex / Complex` -/
def div (z w : Cx α) : Cx α :=
  ⟨(z.re * w.re + z.im * w.im) / w.normSq, (z.im * w.re - z.re * w.im) / w.normSq⟩
/-- `Complex::norm` (`hypot`; the model uses `sqrt(re²+im²)`) -/
def abs (z : Cx α) : α := Transc.sqrt z.normSq
/-- `Complex::arg` -/
def arg (z : Cx α) : α := Transc.atan2 z.im z.re
/-- `Complex::from_polar` -/
def fromPolar (r θ : α) : Cx α := ⟨r * Transc.cos θ, r * Transc.sin θ⟩
/-- `e^{iθ}` -/
def cis (θ : α) : Cx α := ⟨Transc.cos θ, Transc.sin θ⟩
/-- `Complex::exp` (finite inputs) -/
def exp (z : Cx α) : Cx α := fromPolar (Transc.exp z.re) z.im
/-- `Complex::sqrt`, principal branch, with num-complex's special cases on the axes
(`x = 0` is tested as `¬ x < 0 ∧ ¬ 0 < x`). -/
def sqrt (z : Cx α) : Cx α :=
  if ¬ (z.im < (0.0 : α)) ∧ ¬ ((0.0 : α) < z.im) then
    if ¬ (z.re < (0.0 : α)) then ⟨Transc.sqrt z.re, z.im⟩
    else ⟨(0.0 : α), Transc.sqrt (-z.re)⟩
  else if ¬ (z.re < (0.0 : α)) ∧ ¬ ((0.0 : α) < z.re) then
    let x := Transc.sqrt (Transc.abs z.im / (2.0 : α))
    if (0.0 : α) < z.im then ⟨x, x⟩ else ⟨x, -x⟩
  else fromPolar (Transc.sqrt z.abs) (z.arg / (2.0 : α))

instance : Add (Cx α) := ⟨add⟩
instance : Sub (Cx α) := ⟨sub⟩
instance : Mul (Cx α) := ⟨mul⟩
instance : Neg (Cx α) := ⟨neg⟩
instance : Div (Cx α) := ⟨div⟩

/-- sum of a list, left to right from zero (`Iterator::sum`) -/
def sum (l : List (Cx α)) : Cx α := l.foldl add zero
end
end Cx

/-- `nalgebra::Vector3<f64>` -/
structure Vec3 (α : Type) where
  x : α
  y : α
  z : α
deriving Repr

namespace Vec3
section
variable {α : Type} [Add α] [Sub α] [Mul α] [Div α] [Neg α] [Transc α]
def add (a b : Vec3 α) : Vec3 α := ⟨a.x + b.x, a.y + b.y, a.z + b.z⟩
def sub (a b : Vec3 α) : Vec3 α := ⟨a.x - b.x, a.y - b.y, a.z - b.z⟩
def smul (s : α) (a : Vec3 α) : Vec3 α := ⟨s * a.x, s * a.y, s * a.z⟩
def dot (a b : Vec3 α) : α := a.x * b.x + a.y * b.y + a.z * b.z
def normSq (a : Vec3 α) : α := a.dot a
def norm (a : Vec3 α) : α := Transc.sqrt a.normSq
def cross (a b : Vec3 α) : Vec3 α :=
  ⟨a.y * b.z - a.z * b.y, a.z * b.x - a.x * b.z, a.x * b.y - a.y * b.x⟩
end
end Vec3

/-- real sum of a list, left to right from `0.0` -/
def sumList {α : Type} [Add α] [OfScientific α] (l : List α) : α := l.foldl (· + ·) (0.0 : α)

end Spdc
