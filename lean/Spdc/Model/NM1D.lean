import Spdc.Model.Num
/-!
# M5 — bounded 1-D Nelder–Mead (`spdcalc::math::nelder_mead_1d` over argmin 0.10.0)

Core Lean only.  `nelder_mead_1d(func, (g0, g1), max_iter, min, max, tol)` runs argmin's
`NelderMead<f64, f64>` on the two scalar vertices `g0, g1` (one parameter ⇒ two vertices) under the
`Cost1d` wrapper that returns `+∞` outside `[min, max]`, inside argmin's `Executor` loop, and
returns `state.best_param`.

With two vertices argmin's `p_second_worst` *is* `p_best` (`params[len-2] = params[0]`), the centroid
of "all but the worst" is the best vertex times `1/1`.  The branch structure of `next_iter` is kept
literally (including the `reflection` branch, which can never fire for two vertices, and the
`PotentialBug` error when every comparison fails, i.e. a NaN cost, which `nelder_mead_1d` turns into
a panic by `unwrap`).

Cost values are `Cost α = fin a | inf | nan` so that the same definition has the IEEE meaning at
`Float` (the driver maps `+∞`/NaN results of a cost closure to the constructors) and an honest
meaning at `ℝ` (no infinities there).  Assumption recorded for the trusted base: a cost closure never
returns `−∞` (argmin's `target_cost = −∞` test and the "both infinite with equal sign" rule would
then matter); every cost in spdcalc is an absolute value or a JSI.
-/
namespace Spdc.NM1D

/-- an `f64` cost as argmin sees it -/
inductive Cost (α : Type) where
  | fin : α → Cost α
  | inf : Cost α
  | nan : Cost α
deriving Repr

section
variable {α : Type} [Add α] [Sub α] [Mul α] [Div α] [OfScientific α] [LT α] [DecidableLT α]
  [LE α] [DecidableLE α] [Transc α]

namespace Cost
/-- IEEE `<` -/
def lt : Cost α → Cost α → Bool
  | fin a, fin b => decide (a < b)
  | fin _, inf => true
  | _, _ => false
/-- IEEE `<=` -/
def le : Cost α → Cost α → Bool
  | fin a, fin b => decide (a ≤ b)
  | fin _, inf => true
  | inf, inf => true
  | _, _ => false
def isInf : Cost α → Bool
  | inf => true
  | _ => false
def isNan : Cost α → Bool
  | nan => true
  | _ => false
end Cost

/-- `Cost1d::cost`: `if x > max || x < min { ∞ } else { func(x) }` -/
def cost1d (f : α → Cost α) (lo hi : α) (x : α) : Cost α :=
  if hi < x ∨ x < lo then Cost.inf else f x

/-- a vertex with its cost, `(P, F)` -/
structure Vtx (α : Type) where
  x : α
  f : Cost α

/-- the two-vertex simplex after `sort_param_vecs`: `b = params[0]`, `w = params[1]` -/
structure Simplex (α : Type) where
  b : Vtx α
  w : Vtx α

/-- stable `sort_by(partial_cmp … unwrap_or(Equal))` of two elements: swap iff the second is
strictly less -/
def sort2 (p0 p1 : Vtx α) : Simplex α :=
  if Cost.lt p1.f p0.f then ⟨p1, p0⟩ else ⟨p0, p1⟩

/-- `NelderMead::shrink` for the single non-best vertex; also returns the point evaluated -/
def shrink (c : α → Cost α) (s : Simplex α) : Vtx α :=
  let p := s.b.x + (s.w.x - s.b.x) * (0.5 : α)
  ⟨p, c p⟩

/-- `NelderMead::next_iter` (before the final sort): the replacement of the worst vertex, or `none`
for argmin's `PotentialBug` error; second component: the points at which the cost was queried, in
order. -/
def stepCore (c : α → Cost α) (s : Simplex α) : Option (Vtx α) × List α :=
  let x0 := s.b.x * ((1.0 : α) / (1.0 : α))            -- calculate_centroid
  let xr := x0 + (x0 - s.w.x) * (1.0 : α)              -- reflect, α = 1
  let fr := c xr
  let fb := s.b.f                                      -- p_best = p_second_worst
  let fw := s.w.f
  if Cost.lt fr fb && Cost.le fb fr then               -- reflection (dead for two vertices)
    (some ⟨xr, fr⟩, [xr])
  else if Cost.lt fr fb then                           -- expansion, γ = 2
    let xe := x0 + (xr - x0) * (2.0 : α)
    let fe := c xe
    (some (if Cost.lt fe fr then ⟨xe, fe⟩ else ⟨xr, fr⟩), [xr, xe])
  else if Cost.le fb fr then                           -- contraction, ρ = ½
    if Cost.lt fr fw then                              --   outside
      let xc := x0 + (xr - x0) * (0.5 : α)
      let fc := c xc
      if Cost.le fc fr then (some ⟨xc, fc⟩, [xr, xc])
      else let v := shrink c s; (some v, [xr, xc, v.x])
    else                                               --   inside
      let xc := x0 + (s.w.x - x0) * (0.5 : α)
      let fc := c xc
      if Cost.lt fc fw then (some ⟨xc, fc⟩, [xr, xc])
      else let v := shrink c s; (some v, [xr, xc, v.x])
  else (none, [xr])                                    -- "Reached unreachable point" (NaN cost)

/-- one `next_iter` including the closing `sort_param_vecs` -/
def step (c : α → Cost α) (s : Simplex α) : Option (Simplex α) :=
  match (stepCore c s).1 with
  | some v => some (sort2 s.b v)
  | none => none

/-- `NelderMead::terminate`: sample standard deviation of the two costs `< sd_tolerance`.
Any infinite or NaN cost makes the deviation NaN, hence "not terminated". -/
def sdSmall (s : Simplex α) (tol : α) : Bool :=
  match s.b.f, s.w.f with
  | .fin a, .fin b =>
    let n : α := (2.0 : α)
    let c0 := (a + b) / n
    let sd := Transc.sqrt (((1.0 : α) / (n - (1.0 : α))) * ((a - c0) * (a - c0) + (b - c0) * (b - c0)))
    decide (sd < tol)
  | _, _ => false

/-- the part of argmin's `IterState` that matters: best parameter/cost so far, plus the log of
evaluated points (newest first; for the correspondence only) -/
structure St (α : Type) where
  sx : Simplex α
  bestX : Option α
  bestF : Cost α
  log : List α

/-- `IterState::update` after `state.param(params[0]).cost(params[0].cost)` -/
def upd (sx : Simplex α) (bestX : Option α) (bestF : Cost α) : Option α × Cost α :=
  if Cost.lt sx.b.f bestF || (sx.b.f.isInf && bestF.isInf) then (some sx.b.x, sx.b.f)
  else (bestX, bestF)

/-- `Solver::init` + first `update` (initial `best_cost = +∞`, `best_param = None`) -/
def init (c : α → Cost α) (g0 g1 : α) : St α :=
  let sx := sort2 ⟨g0, c g0⟩ ⟨g1, c g1⟩
  let u := upd sx none Cost.inf
  ⟨sx, u.1, u.2, [g1, g0]⟩

/-- the `Executor::run` loop; `fuel = max_iters − iter`.  `none` = the `PotentialBug` error. -/
def loop (c : α → Cost α) (tol : α) : Nat → St α → Option (St α)
  | 0, st => some st
  | fuel + 1, st =>
    if sdSmall st.sx tol then some st
    else
      match step c st.sx with
      | none => none
      | some sx' =>
        let u := upd sx' st.bestX st.bestF
        loop c tol fuel ⟨sx', u.1, u.2, (stepCore c st.sx).2.reverse ++ st.log⟩

/-- final state of the executor -/
def runSt (f : α → Cost α) (g0 g1 : α) (maxIter : Nat) (lo hi tol : α) : Option (St α) :=
  let c := cost1d f lo hi
  loop c tol maxIter (init c g0 g1)

/-- `nelder_mead_1d(func, (g0, g1), max_iter, min, max, tolerance)`:
`*res.state().get_best_param().unwrap()` -/
def run (f : α → Cost α) (g0 g1 : α) (maxIter : Nat) (lo hi tol : α) : Outcome α :=
  match runSt f g0 g1 maxIter lo hi tol with
  | none => .panic "nelder_mead_1d: argmin error unwrap"
  | some st =>
    match st.bestX with
    | some x => .ok x
    | none => .panic "nelder_mead_1d: best_param unwrap"

end
end Spdc.NM1D
