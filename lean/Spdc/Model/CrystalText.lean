import Spdc.Model.Crystals
import Spdc.Model.Wire
/-!
# Textual variants of the crystal parser's inputs (C01) — core Lean only

`CrystalType::from_string` accepts a built-in identifier **exactly as printed** (no trimming, no case folding); every
other text is handed to the HJSON reader as an expression crystal (`=` read as `:`, wrapped in braces unless the
trimmed text already starts with `{`).  The HJSON reader itself is exercised, not modelled: what the model carries
is the table of the named textual layouts of one expression crystal (`harness/src/fam/crystal.rs: expr_text_forms`)
with the outcome of the pinned parser — independent of the crystal whose formulas are written in that layout.
-/
namespace Spdc.Crystals
open Spdc.Wire

/-- layouts (strict JSON, HJSON, `name = expression` lines) from which the pinned parser builds the expression crystal -/
def acceptedForms : List String := [
    "eqn/blank-lines", "eqn/colon", "eqn/comment-line", "eqn/crlf", "eqn/deep-indent", "eqn/doc-layout",
    "eqn/expr-spaced", "eqn/lead-newline-no-indent", "eqn/no-indent", "eqn/no-lead-newline", "eqn/no-spaces",
    "eqn/one-line-quoted", "eqn/quoted-values", "eqn/reversed", "eqn/rotated", "eqn/tabs",
    "eqn/trailing-spaces", "hjson/comment-block", "hjson/comment-hash", "hjson/comment-slashes",
    "hjson/equals-in-braces", "hjson/lead-newline-quoteless-keys", "hjson/lead-newline-quoteless-values",
    "hjson/no-commas", "hjson/pretty-trailing-comma", "hjson/quoteless-keys", "hjson/quoteless-values",
    "hjson/single-quotes", "hjson/trailing-comma", "json/both-ws", "json/compact", "json/doc-layout",
    "json/doc-layout-indented", "json/expr-padded", "json/expr-spaced", "json/inner-newlines",
    "json/key-reversed", "json/key-reversed-doc-layout", "json/key-rotated", "json/lead-crlf",
    "json/lead-many", "json/lead-newline", "json/lead-space", "json/lead-tab", "json/pretty-crlf",
    "json/pretty-tabs", "json/pretty2", "json/pretty4", "json/space-after-colon", "json/space-before-colon",
    "json/trail-newline", "json/trail-space"]

/-- layouts the pinned parser answers with `Err`: names in upper case, an unterminated last equation line (the closing
brace of the wrapping is swallowed by the quoteless value), several quoteless equations on one line, `;` terminators,
a comment in front of the opening brace (the document is wrapped in braces a second time) -/
def rejectedForms : List String := [
    "eqn/one-line-quoteless", "eqn/semicolons", "eqn/unterminated", "eqn/unterminated-space",
    "eqn/upper-keys", "hjson/block-comment-before-brace", "hjson/comment-before-brace", "json/upper-keys"]

/-- `some true` accepted, `some false` rejected, `none` not a known layout -/
def formAccepted (form : String) : Option Bool :=
  if acceptedForms.contains form then some true
  else if rejectedForms.contains form then some false
  else none

/-- routes a layout is fed to: strict JSON also goes through `serde_json` and the `kind` of a `CrystalConfig` -/
def formRoutes (form : String) : List String :=
  if form.startsWith "json/" then ["from_string", "FromStr", "serde_json", "config_json"] else ["from_string", "FromStr"]

def parseFormOutcome (form : String) : Option String :=
  (formAccepted form).map fun ok =>
    " ".intercalate ((formRoutes form).map fun r => r ++ "=" ++ (if ok then "EXPR" else "ERR"))

/-- text of an `h<hex>` token (ASCII only) -/
def decodeHexAscii (s : String) : Option String :=
  let rec go : List Char → List Char → Option (List Char)
    | [], acc => some acc.reverse
    | [_], _ => none
    | a :: b :: rest, acc => do
      let x ← hexVal a
      let y ← hexVal b
      let n := 16 * x + y
      if n < 128 then go rest (Char.ofNat n :: acc) else none
  match s.toList with
  | 'h' :: ds => (go ds []).map String.ofList
  | _ => none

end Spdc.Crystals
