import Spdc.Model.ComposeAuto
import Spdc.Model.Grid
import Spdc.Model.Counts
import Spdc.Model.Hom
import Spdc.Model.Schmidt
/-!
# The composed model, part 3: the GRID-LEVEL top of the crate on primitive setups

Core Lean only.  Parts 1–2 (`Compose.lean`, `ComposeAuto.lean`) span configuration → primitive setup
→ `jsa` / `jsi` / `jsi_singles` at single frequency pairs and `try_as_optimum`.  The layer models of
the grid level (`Grid`, `Counts`, `Hom`, `Schmidt`, the normalised spectra of `Jsa`) each receive the
lower-layer values (`jsa_range` arrays, correction factor, centre values, dip delay) from the REAL
crate.  This file composes them: every function below takes a primitive `Setup`, a Simpson division
count and a grid specification (`Ranges`: endpoints and step counts) and nothing else.

Mirrored, top to bottom: `FrequencySpace::from(WavelengthSpace | SumDiffFrequencySpace)`, the three
`IntoSignalIdlerIterator`s, `JointSpectrum::new` (centre values through `try_as_optimum().unwrap()`),
`JointSpectrum::{jsa, jsi, jsi_singles, *_normalized, *_range, jsi_singles_idler_range,
schmidt_number}`, `Beam::{effective_index_of_refraction, group_velocity, group_index,
average_transit_time}`, `get_counts_correction`, `counts_coincidences`, `counts_singles_signal`,
`counts_singles_idler`, `efficiencies`, `hom_time_delay`, `SPDC::{hom_rate_series, hom_visibility,
hom_two_source_rate_series, hom_two_source_visibilities}`.

Sums that the crate takes with rayon (`counts_*`, `hom_rate`) are taken left to right here (the
layer models' convention; the order of a parallel sum is not fixed).  The idler-singles route
(`with_swapped_signal_idler`) is `Setup.swap`, which is the object-level exchange for an EXPLICIT
idler only (with `"auto"` the exchanged primitive record would recompute an optimum idler from the
old idler); `countsSinglesIdler`, `efficiencies` and `jsiSinglesIdlerRange` are meant for
`idlerAuto = false`.
-/
namespace Spdc.Compose
open Spdc Spdc.Grid

/-- the three range types the grid-level API accepts (`FrequencySpace`, `WavelengthSpace`,
`SumDiffFrequencySpace`), each a `Steps2D` of raw SI values -/
inductive Ranges (α : Type) where
  | freq (g : Steps2D α)
  | wavelength (g : Steps2D α)
  | sumDiff (g : Steps2D α)

/-- the cached state of a `JointSpectrum` -/
structure JS (α : Type) where
  S : Setup α
  divs : Nat
  jsaCenter : α
  jsiSinglesCenter : α

section
variable {α : Type} [Add α] [Sub α] [Mul α] [Div α] [Neg α] [OfScientific α] [LT α]
  [DecidableLT α] [LE α] [DecidableLE α] [BEq α] [NatCast α] [Transc α] [Units.FMod α]
  [Poling.AsUsize α]

/-! ### grids from primitives -/

/-- `FrequencySpace::from_wavelength_space`: endpoints converted and swapped per axis -/
def wavelengthToFrequencySpace (w : Steps2D α) : Steps2D α :=
  ⟨⟨Units.vacuumWavelengthToFrequency w.x.b, Units.vacuumWavelengthToFrequency w.x.a, w.x.n⟩,
   ⟨Units.vacuumWavelengthToFrequency w.y.b, Units.vacuumWavelengthToFrequency w.y.a, w.y.n⟩⟩

/-- `impl Into<FrequencySpace>` (what `counts_*`, `hom_*`, `schmidt_number` apply to their `ranges`) -/
def Ranges.toFrequencySpace : Ranges α → Steps2D α
  | .freq g => g
  | .wavelength g => wavelengthToFrequencySpace g
  | .sumDiff g => fromSumDiff g

/-- `IntoSignalIdlerIterator` (what the `*_range` methods iterate): row-major `Steps2D` enumeration of
the range's OWN axes, each point mapped to a frequency pair -/
def Ranges.points : Ranges α → List (α × α)
  | .freq g => g.collect
  | .wavelength g => g.collect.map fun p =>
      (Units.vacuumWavelengthToFrequency p.1, Units.vacuumWavelengthToFrequency p.2)
  | .sumDiff g => g.collect.map sumDiffPoint

/-- a fallible function over a list of frequency pairs; the first failure wins (a panic inside a
`map(..).collect()` propagates) -/
def mapPoints {β : Type} (f : α → α → Outcome β) (pts : List (α × α)) : Outcome (List β) :=
  Hom.collectOutcomes (pts.map fun p => f p.1 p.2)

/-- `Steps::division_width` with the `usize` underflow of `divisions()` for an empty axis -/
def divisionWidth (s : Steps α) : Outcome α :=
  if s.n = 0 then .panic "Steps::divisions: usize underflow" else .ok s.divisionWidth

/-- `dws * dwi` of `ranges.steps().division_widths()` -/
def cellArea (g : Steps2D α) : Outcome α :=
  (divisionWidth g.x).bind fun dx => (divisionWidth g.y).map fun dy => dx * dy

/-! ### `JointSpectrum::new` -/

/-- `jsi_normalization(ω_s, ω_i, &spdc)` as the code evaluates it: it reads the indices, the external
angles and the waists, never the walk-off angle or `k_eff` (so it cannot panic where they do) -/
def jsiNormalizationC (S : Setup α) (ωs ωi : α) : Outcome α :=
  (idlerBeam S).map fun i =>
    let J := jsetupOf S i (0.0 : α) (0.0 : α)
    PM.jsiNormalization J.normIn J.sig J.idl ωs ωi

/-- `jsi_singles_normalization(ω_s, ω_i, &spdc)`, likewise -/
def jsiSinglesNormalizationC (S : Setup α) (ωs ωi : α) : Outcome α :=
  (idlerBeam S).map fun i =>
    let J := jsetupOf S i (0.0 : α) (0.0 : α)
    PM.jsiSinglesNormalization J.normIn J.sig J.idl ωs ωi

/-- `jsi_singles_raw(ω_s, ω_i, &spdc, Integrator::Simpson{divs})` -/
def jsiSinglesRaw (S : Setup α) (divs : Nat) (ωs ωi : α) : Outcome α :=
  if offSupport S ωs ωi then .ok (0.0 : α)
  else (jsetup S).bind fun J =>
    (Quad.simpson2dDivs divs).map fun _ => PM.jsiSinglesRaw (singlesSimpsonOf divs) J ωs ωi

/-- the two centre values of `JointSpectrum::new`, evaluated on the OPTIMUM setup `o` at its own
centre frequencies -/
def centreValues (o : Setup α) (divs : Nat) : Outcome (α × α) :=
  (idlerBeam o).bind fun i =>
    let ωs := (signalBeam o).frequency
    let ωi := i.frequency
    (jsiNormalizationC o ωs ωi).bind fun n =>
    (jsaRaw o divs ωs ωi).bind fun r =>
    (jsiSinglesNormalizationC o ωs ωi).bind fun ns =>
    (jsiSinglesRaw o divs ωs ωi).map fun rs =>
      (Transc.sqrt n * r.abs, ns * rs)

/-- `JointSpectrum::new(spdc, Integrator::Simpson{divs})`: `spdc.clone().try_as_optimum().unwrap()`
(an `Err` is a panic), then `jsa_center` and `jsi_singles_center` -/
def jointSpectrum (S : Setup α) (divs : Nat) : Outcome (JS α) :=
  match asOptimum S with
  | .ok o => (centreValues o divs).map fun c => ⟨S, divs, c.1, c.2⟩
  | .err _ => .panic "JointSpectrum::new: try_as_optimum().unwrap()"
  | .panic s => .panic s

/-! ### `JointSpectrum` methods -/

def JS.jsa (js : JS α) (ωs ωi : α) : Outcome (Cx α) := Compose.jsa js.S js.divs ωs ωi
def JS.jsi (js : JS α) (ωs ωi : α) : Outcome α := Compose.jsi js.S js.divs ωs ωi
def JS.jsiSingles (js : JS α) (ωs ωi : α) : Outcome α := Compose.jsiSingles js.S js.divs ωs ωi

/-- `jsa_normalized` : `self.jsa(ω_s, ω_i) / self.jsa_center` -/
def JS.jsaNormalized (js : JS α) (ωs ωi : α) : Outcome (Cx α) :=
  (js.jsa ωs ωi).map fun z => Cx.divs z js.jsaCenter

/-- `jsi_normalized` : `jsi / jsa_center.powi(2)` -/
def JS.jsiNormalized (js : JS α) (ωs ωi : α) : Outcome α :=
  (js.jsi ωs ωi).map fun v => v / (js.jsaCenter * js.jsaCenter)

/-- `jsi_singles_normalized` : `jsi_singles / jsi_singles_center` -/
def JS.jsiSinglesNormalized (js : JS α) (ωs ωi : α) : Outcome α :=
  (js.jsiSingles ωs ωi).map fun v => v / js.jsiSinglesCenter

def JS.jsaRange (js : JS α) (R : Ranges α) : Outcome (List (Cx α)) := mapPoints js.jsa R.points
def JS.jsiRange (js : JS α) (R : Ranges α) : Outcome (List α) := mapPoints js.jsi R.points
def JS.jsiSinglesRange (js : JS α) (R : Ranges α) : Outcome (List α) := mapPoints js.jsiSingles R.points
def JS.jsaNormalizedRange (js : JS α) (R : Ranges α) : Outcome (List (Cx α)) :=
  mapPoints js.jsaNormalized R.points
def JS.jsiNormalizedRange (js : JS α) (R : Ranges α) : Outcome (List α) :=
  mapPoints js.jsiNormalized R.points
def JS.jsiSinglesNormalizedRange (js : JS α) (R : Ranges α) : Outcome (List α) :=
  mapPoints js.jsiSinglesNormalized R.points

/-- `jsi_singles_idler_range` : a NEW spectrum of the exchanged setup, arguments exchanged -/
def JS.jsiSinglesIdlerRange (js : JS α) (R : Ranges α) : Outcome (List α) :=
  (jointSpectrum js.S.swap js.divs).bind fun sw =>
    mapPoints (fun ωs ωi => sw.jsiSingles ωi ωs) R.points

/-- `jsi_singles_idler_normalized_range` -/
def JS.jsiSinglesIdlerNormalizedRange (js : JS α) (R : Ranges α) : Outcome (List α) :=
  (jointSpectrum js.S.swap js.divs).bind fun sw =>
    mapPoints (fun ωs ωi => sw.jsiSinglesNormalized ωi ωs) R.points

/-- `spdc.joint_spectrum(integrator).jsa_range(ranges)` etc. from primitives -/
def jsaRange (S : Setup α) (divs : Nat) (R : Ranges α) : Outcome (List (Cx α)) :=
  (jointSpectrum S divs).bind fun js => js.jsaRange R
def jsiRange (S : Setup α) (divs : Nat) (R : Ranges α) : Outcome (List α) :=
  (jointSpectrum S divs).bind fun js => js.jsiRange R
def jsiSinglesRange (S : Setup α) (divs : Nat) (R : Ranges α) : Outcome (List α) :=
  (jointSpectrum S divs).bind fun js => js.jsiSinglesRange R
def jsiSinglesIdlerRange (S : Setup α) (divs : Nat) (R : Ranges α) : Outcome (List α) :=
  (jointSpectrum S divs).bind fun js => js.jsiSinglesIdlerRange R
def jsaNormalizedRange (S : Setup α) (divs : Nat) (R : Ranges α) : Outcome (List (Cx α)) :=
  (jointSpectrum S divs).bind fun js => js.jsaNormalizedRange R
def jsiNormalizedRange (S : Setup α) (divs : Nat) (R : Ranges α) : Outcome (List α) :=
  (jointSpectrum S divs).bind fun js => js.jsiNormalizedRange R
def jsiSinglesNormalizedRange (S : Setup α) (divs : Nat) (R : Ranges α) : Outcome (List α) :=
  (jointSpectrum S divs).bind fun js => js.jsiSinglesNormalizedRange R

/-! ### group velocity, group index, transit time -/

/-- `pp.signed_period()` : `f64::INFINITY` when off -/
def signedPeriod : Poling.PP α → α
  | .off => infinity
  | .on period sign _ => sign.mul period

/-- `beam.effective_index_of_refraction(&crystal_setup, pp)` : `n + λ/Λ_signed` -/
def effectiveIndex (S : Setup α) (b : Beam.Beam α) (q : Poling.PP α) : α :=
  refractiveIndex S b b.frequency + Beam.vacuumWavelength b / signedPeriod q

/-- `beam.group_velocity(&crystal_setup, pp)` : `v_p·(1 + (λ/n_eff)·dn/dλ)`, `dn/dλ` the coded
central difference (`derivative_at`, both `assert!`s) of `λ ↦ index_along(λ, direction, pol)` -/
def groupVelocity (S : Setup α) (b : Beam.Beam α) (q : Poling.PP α) : Outcome α :=
  let lam := Beam.vacuumWavelength b
  let nEff := effectiveIndex S b q
  let vp := (Units.cLight : α) / nEff
  (Index.derivativeAt
      (fun l => Index.indexAlong (principal S (l * (1.0 : α))) S.cTheta S.cPhi b.direction b.polarization)
      (lam / (1.0 : α))).map fun dn =>
    vp * ((1.0 : α) + (lam / nEff) * dn / (1.0 : α))

/-- `beam.group_index(&crystal_setup, pp)` : `c / v_g` -/
def groupIndex (S : Setup α) (b : Beam.Beam α) (q : Poling.PP α) : Outcome α :=
  (groupVelocity S b q).map fun vg => (Units.cLight : α) / vg

/-- `beam.average_transit_time(&crystal_setup, pp)` : half the crystal along the beam direction over
the group velocity -/
def averageTransitTime (S : Setup α) (b : Beam.Beam α) (q : Poling.PP α) : Outcome α :=
  let deltaZ := (0.5 : α) * S.L
  let disp := Vec3.smul (deltaZ / (1.0 : α) / b.direction.z) b.direction
  let distance := disp.norm * (1.0 : α)
  (groupVelocity S b q).map fun vg => distance / vg

/-- `hom_time_delay(&spdc)` -/
def homTimeDelay (S : Setup α) : Outcome α :=
  (idlerBeam S).bind fun i =>
    let fudge := (S.idl.z0 - S.sig.z0) / (Units.cLight : α)
    (averageTransitTime S (signalBeam S) (pp S)).bind fun ts =>
    (averageTransitTime S i (pp S)).map fun ti => ti - ts + fudge

/-! ### counts and efficiencies -/

/-- `get_counts_correction(&spdc)` -/
def countsCorrection (S : Setup α) : Outcome α :=
  (idlerBeam S).bind fun i =>
    let s := signalBeam S
    let p := pumpBeam S
    (groupIndex S s .off).bind fun ngs =>
    (groupIndex S i .off).map fun ngi =>
      Counts.countsCorrection (Beam.vacuumWavelength p) (Beam.vacuumWavelength s) (Beam.vacuumWavelength i)
        (refractiveIndex S s s.frequency) (refractiveIndex S i i.frequency) (refractiveIndex S p p.frequency)
        ngs ngi

/-- the common body of the three `counts_*` functions: `correction · Σ_k value_k · dω²` over the
row-major enumeration of the frequency space, given the spectrum method -/
def countsOf (S : Setup α) (g : Steps2D α) (f : α → α → Outcome α) : Outcome α :=
  (cellArea g).bind fun dw2 =>
  (countsCorrection S).bind fun corr =>
  (mapPoints f g.collect).map fun vals =>
    corr * sumList (vals.map fun v => v * dw2)

/-- `spdc.counts_coincidences(ranges, Integrator::Simpson{divs})` -/
def countsCoincidences (S : Setup α) (divs : Nat) (R : Ranges α) : Outcome α :=
  (jointSpectrum S divs).bind fun js => countsOf S R.toFrequencySpace js.jsi

/-- `spdc.counts_singles_signal(ranges, Integrator::Simpson{divs})` -/
def countsSinglesSignal (S : Setup α) (divs : Nat) (R : Ranges α) : Outcome α :=
  (jointSpectrum S divs).bind fun js => countsOf S R.toFrequencySpace js.jsiSingles

/-- `spdc.counts_singles_idler(ranges, Integrator::Simpson{divs})`: the spectrum of the exchanged
setup with exchanged arguments, the correction factor of the setup itself -/
def countsSinglesIdler (S : Setup α) (divs : Nat) (R : Ranges α) : Outcome α :=
  (jointSpectrum S.swap divs).bind fun sw =>
    countsOf S R.toFrequencySpace fun ωs ωi => sw.jsiSingles ωi ωs

/-- `spdc.efficiencies(ranges, Integrator::Simpson{divs})` -/
def efficiencies (S : Setup α) (divs : Nat) (R : Ranges α) : Outcome (Counts.Efficiencies α) :=
  (countsCoincidences S divs R).bind fun c =>
  (countsSinglesSignal S divs R).bind fun rs =>
  (countsSinglesIdler S divs R).map fun ri => Counts.efficienciesFromCounts c rs ri

/-! ### Hong–Ou–Mandel -/

/-- the two amplitude arrays every single-source HOM call samples: `sp.jsa_range(ranges)` and
`ranges.as_steps().map(|(ws, wi)| sp.jsa(wi, ws))` -/
def homArrays (js : JS α) (g : Steps2D α) : Outcome (Array (Cx α) × Array (Cx α)) :=
  (mapPoints js.jsa g.collect).bind fun f =>
  (mapPoints (fun ωs ωi => js.jsa ωi ωs) g.collect).map fun sw => (f.toArray, sw.toArray)

/-- `spdc.hom_rate_series(time_delays, ranges, Integrator::Simpson{divs})` -/
def homRateSeries (S : Setup α) (divs : Nat) (R : Ranges α) (τs : List α) : Outcome (List α) :=
  (jointSpectrum S divs).bind fun js =>
    let g := R.toFrequencySpace
    (homArrays js g).bind fun a => Hom.homRateSeries g a.1 a.2 τs

/-- `spdc.hom_visibility(ranges, Integrator::Simpson{divs})` : `(delay, visibility)` -/
def homVisibility (S : Setup α) (divs : Nat) (R : Ranges α) : Outcome (α × α) :=
  (jointSpectrum S divs).bind fun js =>
    let g := R.toFrequencySpace
    (homArrays js g).bind fun a =>
    (homTimeDelay S).bind fun δt =>
    (Hom.homVisibility g a.1 a.2 δt).map fun v => (δt, v)

/-- `get_jsa(s, x_range, y_range)` of `hom_two_source_rate_series` -/
def getJsa (js : JS α) (x y : Steps α) : Outcome (Array (Cx α)) :=
  (mapPoints js.jsa (Steps2D.collect ⟨x, y⟩)).map List.toArray

/-- the eight amplitude grids, in the order the code evaluates them -/
def twoSrc (js1 js2 : JS α) (r1 r2 : Steps2D α) : Outcome (Hom.TwoSrc α) :=
  let ls1 := r1.x; let li1 := r1.y; let ls2 := r2.x; let li2 := r2.y
  (getJsa js1 ls1 li1).bind fun a1 =>
  (getJsa js2 ls2 li2).bind fun a2 =>
  (getJsa js1 ls2 li1).bind fun a3 =>
  (getJsa js2 ls1 li2).bind fun a4 =>
  (getJsa js1 ls1 li2).bind fun a5 =>
  (getJsa js2 ls2 li1).bind fun a6 =>
  (getJsa js1 li2 li1).bind fun a7 =>
  (getJsa js2 ls2 ls1).map fun a8 => ⟨a1, a2, a3, a4, a5, a6, a7, a8⟩

/-- the three `assert_eq!` on the step counts of `hom_two_source_rate_series`, which precede the
evaluation of the eight grids -/
def twoSrcChecked (js1 js2 : JS α) (r1 r2 : Steps2D α) : Outcome (Hom.TwoSrc α) :=
  if r1.x.n ≠ r1.y.n then .panic "assert_eq ls_range_1 li_range_1"
  else if r2.x.n ≠ r2.y.n then .panic "assert_eq ls_range_2 li_range_2"
  else if r1.x.n ≠ r2.x.n then .panic "assert_eq ls_range_1 ls_range_2"
  else twoSrc js1 js2 r1 r2

/-- `hom_two_source_rate_series(js1, js2, range1, range2, time_delays)` -/
def homTwoSourceSeriesJS (js1 js2 : JS α) (r1 r2 : Steps2D α) (τs : List α) :
    Outcome (List α × List α × List α) :=
  (twoSrcChecked js1 js2 r1 r2).bind fun G => Hom.homTwoSourceSeries r1 r2 G τs

/-- `spdc.hom_two_source_rate_series(time_delays, ranges, Integrator::Simpson{divs})`: the setup
against itself, ONE spectrum object -/
def homTwoSourceSeries (S : Setup α) (divs : Nat) (R : Ranges α) (τs : List α) :
    Outcome (List α × List α × List α) :=
  (jointSpectrum S divs).bind fun js =>
    let g := R.toFrequencySpace
    homTwoSourceSeriesJS js js g g τs

/-- `spdc.hom_two_source_visibilities(ranges, Integrator::Simpson{divs})`: identical sources (`spdc1 ==
spdc2`), zero delay for all three channels, two fresh spectra of the same setup -/
def homTwoSourceVisibilities (S : Setup α) (divs : Nat) (R : Ranges α) : Outcome (α × α × α) :=
  (jointSpectrum S divs).bind fun js1 =>
  (jointSpectrum S divs).bind fun js2 =>
    let g := R.toFrequencySpace
    (twoSrcChecked js1 js2 g g).bind fun G =>
      Hom.twoSourceVisibilities true g g G (0.0 : α) (0.0 : α) (0.0 : α)

/-! ### Schmidt number -/

/-- `spdc.joint_spectrum(Simpson{divs}).schmidt_number(ranges)` in trace form -/
def schmidtNumber (S : Setup α) (divs : Nat) (R : Ranges α) : Outcome α :=
  (jointSpectrum S divs).bind fun js =>
    (js.jsaRange (.freq R.toFrequencySpace)).bind fun l => Schmidt.schmidt l.toArray

end
end Spdc.Compose
