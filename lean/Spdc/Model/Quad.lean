import Spdc.Model.Num
import Spdc.Model.Cx
import Spdc.Model.Grid
/-!
# M9 — quadrature (mirrors `src/math/integration.rs`)

Core Lean only.  Integrands are functions `α → Cx α`; on the wire they are complex polynomials
(Horner, highest coefficient first, exactly as the harness closure) and `A·exp(ikx)`.

* `simpson`      — `divs' = divs + divs % 2 − 2` in `usize` (debug-build underflow = panic),
                   `assert!(divs' ≥ 4)`, nodes `a + i·dx`, weights 1-4-2-…-4-1, `· (dx/3)`.
* `simpson2d`    — `Steps`-based nodes, `· (dx·dy/9)`.
* `simpsonAdaptive(2d)` — `quad_asr` with fuel = `max_depth`.
* `ruleApply`    — `gauss_quad::GaussLegendre::integrate` for given nodes/weights (the node generation
                   is third-party and not transliterated: nodes and weights are inputs).
-/
namespace Spdc.Quad
open Spdc Spdc.Grid

section scalar
variable {α : Type} [Add α] [Sub α] [Mul α] [Div α] [Neg α] [OfScientific α] [LT α]
  [DecidableLT α] [NatCast α] [Transc α]

/-- `get_simpson_weight(n, divs)` -/
def simpsonW (n divs : Nat) : α :=
  if n = 0 ∨ n = divs then (1.0 : α) else if n % 2 = 1 then (4.0 : α) else (2.0 : α)

/-- effective division count of the 1-D rule: `divs + divs % 2 - 2` in `usize` (underflow panics in
debug builds) followed by `assert!(divs >= 4, "Steps too low")`. -/
def simpsonDivs (divs : Nat) : Outcome Nat :=
  if divs + divs % 2 < 2 then .panic "simpson: usize underflow"
  else if divs + divs % 2 - 2 < 4 then .panic "simpson: Steps too low"
  else .ok (divs + divs % 2 - 2)

/-- the weighted node sum of the 1-D rule with `d` divisions (sequential order) -/
def simpsonSum (f : α → Cx α) (a dx : α) (d : Nat) : Cx α :=
  Cx.sum ((List.range (d + 1)).map fun (i : Nat) => Cx.muls (f (a + (i : α) * dx)) (simpsonW i d))

/-- the 1-D rule with exactly `d` divisions -/
def simpsonCore (f : α → Cx α) (a b : α) (d : Nat) : Cx α :=
  let dx := (b - a) / (d : α)
  Cx.muls (simpsonSum f a dx d) (dx / (3.0 : α))

/-- `simpson(func, a, b, divs)` -/
def simpson (f : α → Cx α) (a b : α) (divs : Nat) : Outcome (Cx α) :=
  (simpsonDivs divs).map (simpsonCore f a b)

/-- effective division count of the 2-D rule (after the `fix:` commit: odd counts are rounded up
to the next even one, then `assert!(divs >= 4)`) -/
def simpson2dDivs (divs : Nat) : Outcome Nat :=
  if divs + divs % 2 < 4 then .panic "simpson2d: assert divs >= 4"
  else .ok (divs + divs % 2)

/-- the 2-D rule with exactly `d` divisions per axis: outer sum over `y`, inner over `x`,
nodes from `Steps(·,·,d+1)` -/
def simpson2dCore (f : α → α → Cx α) (ax bx ay by_ : α) (d : Nat) : Cx α :=
  let dx := (bx - ax) / (d : α)
  let dy := (by_ - ay) / (d : α)
  let sx : Steps α := ⟨ax, bx, d + 1⟩
  let sy : Steps α := ⟨ay, by_, d + 1⟩
  let total := Cx.sum ((List.range (d + 1)).map fun (ny : Nat) =>
    let y := sy.value ny
    let inner := Cx.sum ((List.range (d + 1)).map fun (nx : Nat) =>
      Cx.muls (f (sx.value nx) y) (simpsonW nx d))
    Cx.muls inner (simpsonW ny d))
  Cx.muls total (dx * dy / (9.0 : α))

/-- `simpson2d(func, ax, bx, ay, by, divs)` -/
def simpson2d (f : α → α → Cx α) (ax bx ay by_ : α) (divs : Nat) : Outcome (Cx α) :=
  (simpson2dDivs divs).map (simpson2dCore f ax bx ay by_)

/-! ### adaptive Simpson -/

/-- `quad_simpsons_mem` (after the `fix:` commit: signed width `b − a`) : `(m, f(m), value)` -/
def quadSimpsonsMem (f : α → Cx α) (a : α) (fa : Cx α) (b : α) (fb : Cx α) : α × Cx α × Cx α :=
  let m := (a + b) / (2.0 : α)
  let fm := f m
  (m, fm, Cx.smul ((b - a) / (6.0 : α)) (Cx.add (Cx.add fa (Cx.smul (4.0 : α) fm)) fb))

/-- `f64::EPSILON` -/
def f64Epsilon : α := (2.220446049250313e-16 : α)

/-- the early-exit test of `quad_asr` besides `max_depth == 0`:
`eps/2 == eps || |b − a| < f64::EPSILON`  (`==` on non-NaN values) -/
def asrStop (a b eps : α) : Bool :=
  (¬ (eps / (2.0 : α) < eps) ∧ ¬ (eps < eps / (2.0 : α))) ∨ Transc.abs (b - a) < (f64Epsilon : α)

/-- `quad_asr` with fuel = `max_depth` -/
def quadAsr (f : α → Cx α) (a : α) (fa : Cx α) (b : α) (fb : Cx α) (eps : α) (whole : Cx α)
    (m : α) (fm : Cx α) : Nat → Cx α
  | 0 => whole
  | depth + 1 =>
    if asrStop a b eps then whole else
    let l := quadSimpsonsMem f a fa m fm
    let r := quadSimpsonsMem f m fm b fb
    let delta := Cx.sub (Cx.add l.2.2 r.2.2) whole
    if ¬ ((15.0 : α) * eps < Cx.abs delta) then
      Cx.add (Cx.add l.2.2 r.2.2) (Cx.divs delta (15.0 : α))
    else
      Cx.add (quadAsr f a fa m fm (eps / (2.0 : α)) l.2.2 l.1 l.2.1 depth)
             (quadAsr f m fm b fb (eps / (2.0 : α)) r.2.2 r.1 r.2.1 depth)

/-- `simpson_adaptive(f, a, b, eps, max_depth)` -/
def simpsonAdaptive (f : α → Cx α) (a b eps : α) (maxDepth : Nat) : Cx α :=
  let fa := f a
  let fb := f b
  let w := quadSimpsonsMem f a fa b fb
  quadAsr f a fa b fb eps w.2.2 w.1 w.2.1 maxDepth

/-- `simpson_adaptive_2d` : adaptive in `x` of the adaptive integral over `y` -/
def simpsonAdaptive2d (f : α → α → Cx α) (ax bx ay by_ eps : α) (maxDepth : Nat) : Cx α :=
  simpsonAdaptive (fun x => simpsonAdaptive (fun y => f x y) ay by_ eps maxDepth) ax bx eps maxDepth

/-- number of integrand evaluations `quad_asr` makes (same branch structure as `quadAsr`) -/
def quadAsrEvals (f : α → Cx α) (a : α) (fa : Cx α) (b : α) (fb : Cx α) (eps : α) (whole : Cx α)
    (m : α) (fm : Cx α) : Nat → Nat
  | 0 => 0
  | depth + 1 =>
    if asrStop a b eps then 0 else
    let l := quadSimpsonsMem f a fa m fm
    let r := quadSimpsonsMem f m fm b fb
    let delta := Cx.sub (Cx.add l.2.2 r.2.2) whole
    if ¬ ((15.0 : α) * eps < Cx.abs delta) then 2
    else 2 + quadAsrEvals f a fa m fm (eps / (2.0 : α)) l.2.2 l.1 l.2.1 depth
           + quadAsrEvals f m fm b fb (eps / (2.0 : α)) r.2.2 r.1 r.2.1 depth

/-- number of integrand evaluations of `simpson_adaptive` -/
def simpsonAdaptiveEvals (f : α → Cx α) (a b eps : α) (maxDepth : Nat) : Nat :=
  let fa := f a
  let fb := f b
  let w := quadSimpsonsMem f a fa b fb
  3 + quadAsrEvals f a fa b fb eps w.2.2 w.1 w.2.1 maxDepth

/-! ### rules given by nodes and weights on `[−1, 1]` (`gauss_quad`) -/

/-- `GaussLegendre::integrate(a, b, g)` for a real integrand:
`0.5·(b − a) · Σ g(0.5·((b − a)·x + (b + a)))·w` -/
def ruleApplyR (nodes weights : List α) (g : α → α) (a b : α) : α :=
  (0.5 : α) * (b - a) *
    sumList ((nodes.zip weights).map fun xw =>
      g ((0.5 : α) * ((b - a) * xw.1 + (b + a))) * xw.2)

/-- `Integrator::GaussLegendre::integrate`: real and imaginary parts separately -/
def ruleApply (nodes weights : List α) (f : α → Cx α) (a b : α) : Cx α :=
  ⟨ruleApplyR nodes weights (fun x => (f x).re) a b, ruleApplyR nodes weights (fun x => (f x).im) a b⟩

/-- `Integrator::GaussLegendre::integrate2d` : the same rule nested (outer `x`, inner `y`) -/
def ruleApply2d (nodes weights : List α) (f : α → α → Cx α) (a b c d : α) : Cx α :=
  ⟨ruleApplyR nodes weights (fun x => ruleApplyR nodes weights (fun y => (f x y).re) c d) a b,
   ruleApplyR nodes weights (fun x => ruleApplyR nodes weights (fun y => (f x y).im) c d) a b⟩

/-- the `k`-th moment `Σ w·x^k` of a rule (power by repeated multiplication) -/
def rulePow (x : α) : Nat → α
  | 0 => (1.0 : α)
  | k + 1 => rulePow x k * x
def ruleMoment (nodes weights : List α) (k : Nat) : α :=
  sumList ((nodes.zip weights).map fun xw => xw.2 * rulePow xw.1 k)

/-! ### integrands of the wire protocol -/

/-- complex polynomial `Σ c_j x^j`, Horner from the highest coefficient:
`coeffs.iter().rev().fold(0, |acc, c| acc * x + c)` -/
def polyEval (coeffs : List (Cx α)) (x : α) : Cx α :=
  coeffs.foldr (fun c acc => Cx.add (Cx.muls acc x) c) Cx.zero

/-- `A · (cos kx + i sin kx)` as `Complex::new((k*x).cos(), (k*x).sin()) * A` -/
def expEval (k : α) (amp : Cx α) (x : α) : Cx α :=
  Cx.mul (Cx.cis (k * x)) amp

/-- bivariate polynomial `Σ_j (Σ_i c_ij x^i) y^j` (rows = powers of `y`), nested Horner -/
def poly2Eval (rows : List (List (Cx α))) (x y : α) : Cx α :=
  rows.foldr (fun row acc => Cx.add (Cx.muls acc y) (polyEval row x)) Cx.zero

end scalar
end Spdc.Quad
