import Spdc.Model.Num
import Spdc.Model.Cx
import Spdc.Model.Grid
/-!
# M10 (part) — count rates and heralding efficiencies
(mirrors `src/spdc/counts.rs`, `src/spdc/efficiencies.rs`)

Core Lean only.  The spectra enter as the arrays the real `jsi_range` / `jsi_singles_range` /
`jsi_singles_idler_range` return on the grid (layered correspondence).
-/
namespace Spdc.Counts
open Spdc Spdc.Grid

section
variable {α : Type} [Add α] [Sub α] [Mul α] [Div α] [Neg α] [OfScientific α] [NatCast α]
  [BEq α] [Transc α]

/-- `get_counts_correction`: `(λi·λs·ngs·ngi) / (4·(λp·ns·ni)²·np)` (signal and idler group indices, as
repaired by `fix: counts correction factor uses the signal and idler group indices`) -/
def countsCorrection (lp ls li ns ni np ngs ngi : α) : α :=
  (li * ls * ngs * ngi) / ((4.0 : α) * ((lp * ns * ni) * (lp * ns * ni)) * np)

/-- `dws * dwi` of `ranges.steps().division_widths()` -/
def cellArea (g : Steps2D α) : α := g.x.divisionWidth * g.y.divisionWidth

/-- `counts_coincidences` / `counts_singles_signal` / `counts_singles_idler`: rectangle sum of the
spectrum over the grid times the common correction factor,
`correction_factor * Σ_k (value_k * dw2)` -/
def counts (corr : α) (g : Steps2D α) (vals : List α) : α :=
  corr * sumList (vals.map fun v => v * cellArea g)

/-- `Efficiencies` -/
structure Efficiencies (α : Type) where
  symmetric : α
  signal : α
  idler : α
  coincidences : α
  signalSingles : α
  idlerSingles : α

/-- `efficiencies_from_counts` with its zero guards.  The symmetric efficiency divides by `√Rs·√Ri`
(as repaired by `fix: symmetric efficiency survives very small and very large rates`; the pinned tree
took `√(Rs·Ri)`, whose product leaves the f64 range for rates beyond 1e±154). -/
def efficienciesFromCounts (c rs ri : α) : Efficiencies α :=
  let signalEff := if ri == (0.0 : α) then (0.0 : α) else c / ri
  let idlerEff := if rs == (0.0 : α) then (0.0 : α) else c / rs
  let symmetricEff :=
    if rs == (0.0 : α) || ri == (0.0 : α) then (0.0 : α)
    else c / (Transc.sqrt rs * Transc.sqrt ri)
  ⟨symmetricEff, signalEff, idlerEff, c, rs, ri⟩

/-- `spdc::efficiencies` from the three spectra on one grid -/
def efficiencies (corr : α) (g : Steps2D α) (jsi singlesS singlesI : List α) : Efficiencies α :=
  efficienciesFromCounts (counts corr g jsi) (counts corr g singlesS) (counts corr g singlesI)

/-- `JointSpectrum::jsi_singles` at one frequency pair from `raw = jsi_singles_raw(ωs, ωi)` and
`n = jsi_singles_normalization(ωs, ωi)`: a raw value that compares equal to zero (outside the validity box of
`invalid_frequencies`, below the pump-spectrum threshold) short-circuits — the normalisation, which is undefined
(NaN) where the Sellmeier equations are, is not multiplied in. -/
def jsiSinglesPoint (raw n : α) : α :=
  if raw == (0.0 : α) then (0.0 : α) else n * raw

/-- `JointSpectrum::jsi` at one frequency pair from `jsa_raw = re + i·im` and `n = jsi_normalization(ωs, ωi)`:
`jsa == Complex::zero()` short-circuits, else `n · norm_sqr(jsa)` (`re·re + im·im` in num-complex). -/
def jsiPoint (re im n : α) : α :=
  if re == (0.0 : α) && im == (0.0 : α) then (0.0 : α) else n * (re * re + im * im)

/-- the pinned tree's symmetric efficiency -/
def symmetricPinned (c rs ri : α) : α :=
  if rs == (0.0 : α) || ri == (0.0 : α) then (0.0 : α) else c / Transc.sqrt (rs * ri)

end
end Spdc.Counts
