import Spdc.Model.Num
import Spdc.Model.Cx
import Spdc.Model.PM
/-!
# M10b — pump envelope and rate normalisation (mirrors `src/phasematch/mod.rs`,
`src/phasematch/normalization.rs`)

Raw UCUM base-unit numbers (the base mass unit of `dimensioned::ucum` is the gram:
`MILLIW = 1`, `W = 10³`, `pm/V = 10⁻¹⁵`, `EPS_0 = 8.854187817e-12 · 10⁻³`).
-/
namespace Spdc.PM

section
variable {α : Type} [Add α] [Sub α] [Mul α] [Div α] [Neg α] [OfScientific α] [Transc α]

/-- `constants::TWO_PI` (`std::f64::consts::TAU`; doubling is exact) -/
def twoPi : α := (2.0 : α) * Transc.pi

/-- `dim::ucum::EPS_0` : `8.854187817e-12 * F / M` with `F = 10⁻³` in gram-based units -/
def eps0 : α := (8.854187817e-12 : α) * (1.0e-3 : α)

/-- `math::FWHM_OVER_WAIST = sqrt(2 ln 2)` -/
def fwhmOverWaist : α := Transc.sqrt ((2.0 : α) * Transc.ln (2.0 : α))

/-- `utils::vacuum_wavelength_to_frequency` : `2π·c/(λ·1)` -/
def wavelengthToFreq (lam : α) : α := twoPi * cLight / lam

/-- `utils::frequency_to_vacuum_wavelength` : `2π·c/(ω·1)` -/
def freqToWavelength (ω : α) : α := twoPi * cLight / ω

/-- the frequency span of the wavelength FWHM: `ω(λ_p − ½fwhm) − ω(λ_p + ½fwhm)` -/
def fwhmFreqSpan (lamP fwhm : α) : α :=
  wavelengthToFreq (lamP - (0.5 : α) * fwhm) - wavelengthToFreq (lamP + (0.5 : α) * fwhm)

/-- `phasematch::fwhm_to_spectral_width` -/
def fwhmToSpectralWidth (lamP fwhm : α) : α := fwhmFreqSpan lamP fwhm / fwhmOverWaist

/-- `phasematch::pump_spectral_amplitude(ω, spdc)` with `ω₀ = pump.frequency()`,
`fwhm = pump_bandwidth` -/
def pumpSpectralAmplitude (ω ω0 fwhm : α) : α :=
  let lamP := freqToWavelength ω0
  let x := (ω - ω0) / fwhmToSpectralWidth lamP fwhm
  Transc.exp (-x * x)

/-- `x.powi(5)` / `x.powi(3)` as compiler-rt evaluates them -/
def powi5 (x : α) : α := x * ((x * x) * (x * x))
def powi3 (x : α) : α := x * (x * x)

/-- the scalars `common_norm` reads from the setup -/
structure NormIn (α : Type) where
  /-- pump waist -/
  wpx : α
  wpy : α
  /-- `crystal_setup.length` -/
  L : α
  /-- `pump_average_power` (raw, mW) -/
  power : α
  /-- `deff` (raw, m/mV) -/
  deff : α
  /-- `pump.frequency()` -/
  omegaP : α
  /-- `pump_bandwidth` -/
  bandwidth : α
  /-- `pp != PeriodicPoling::Off` -/
  ppOn : Bool

/-- the constant factor of `common_norm`: `TWO_PI.powi(3) * constants` -/
def normConst (ppOn : Bool) : α :=
  let degeneracy : α := (1.0 : α)
  let ppc : α := if ppOn then (2.0 : α) / Transc.pi else (1.0 : α)
  let dp := degeneracy * ppc
  let constants := (dp * dp)
    / ((4.0 : α) * powi5 Transc.pi * Transc.sqrt twoPi * cLight * cLight * cLight * eps0)
  powi3 twoPi * constants

/-- the pump's spectral width `σ` used by `common_norm` -/
def NormIn.sigma (N : NormIn α) : α :=
  fwhmToSpectralWidth (freqToWavelength N.omegaP) N.bandwidth

/-- `normalization::common_norm` with `n_s`, `n_i` the indices at `ω_s`, `ω_i` -/
def commonNorm (N : NormIn α) (ωs ωi ns ni : α) : α :=
  let wpSq := N.wpx * N.wpy
  let nn := ns * ni
  let lomega := ωs * ωi / (nn * nn)
  let dl := N.deff * N.L
  normConst N.ppOn * wpSq * (dl * dl) * lomega * N.power / N.sigma

/-- `math::sec` -/
def sec (x : α) : α := (1.0 : α) / Transc.cos x

/-- `normalization::jsi_normalization` -/
def jsiNormalization (N : NormIn α) (sig idl : Beam α) (ωs ωi : α) : α :=
  commonNorm N ωs ωi (sig.n ωs) (idl.n ωi) * sec sig.thetaE * sec idl.thetaE
    * (sig.wx * sig.wy) * (idl.wx * idl.wy)

/-- `normalization::jsi_singles_normalization` -/
def jsiSinglesNormalization (N : NormIn α) (sig idl : Beam α) (ωs ωi : α) : α :=
  commonNorm N ωs ωi (sig.n ωs) (idl.n ωi) * sec sig.thetaE * (sig.wx * sig.wy)

end
end Spdc.PM
