/-!
# Wire format of the correspondence line protocol (core Lean only)

Floats travel as 16 hex digits of their IEEE-754 bit pattern prefixed by `x`; naturals and
integers in decimal; everything else as opaque tokens without blanks.
-/
namespace Spdc.Wire

def hexDigit (n : Nat) : Char :=
  if n < 10 then Char.ofNat (48 + n) else Char.ofNat (87 + n)

def hex16 (u : UInt64) : String :=
  String.ofList ((List.range 16).map fun i => hexDigit ((u.toNat >>> (4 * (15 - i))) % 16))

def fl (x : Float) : String := "x" ++ hex16 x.toBits

def hexVal (c : Char) : Option Nat :=
  if '0' ≤ c ∧ c ≤ '9' then some (c.toNat - 48)
  else if 'a' ≤ c ∧ c ≤ 'f' then some (c.toNat - 87)
  else if 'A' ≤ c ∧ c ≤ 'F' then some (c.toNat - 55)
  else none

def parseFl (s : String) : Option Float :=
  match s.toList with
  | 'x' :: ds =>
    if ds.length ≠ 16 then none else
    (ds.foldlM (fun (acc : Nat) c => (hexVal c).map (fun v => acc * 16 + v)) 0).map
      fun n => Float.ofBits (UInt64.ofNat n)
  | _ => none

def parseInt (s : String) : Option Int := s.toInt?
def parseNat (s : String) : Option Nat := s.toNat?

def fls (xs : List Float) : String := " ".intercalate (xs.map fl)

end Spdc.Wire
