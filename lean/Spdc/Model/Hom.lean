import Spdc.Model.Grid
import Spdc.Model.Cx
/-!
# M11 — Hong–Ou–Mandel rates (mirrors `src/spdc/hom.rs`)

Core Lean only.  Amplitude arrays are flat `Array (Cx α)` exactly as in the Rust (`&[Complex<f64>]`);
the flat index is the position in the `Steps2D` enumeration (`Grid.Steps2D.value`).
Rust's `a[index]` panics when out of bounds: the array-level functions return `Outcome`.
-/
namespace Spdc.Hom
open Spdc Spdc.Grid

section
variable {α : Type} [Add α] [Sub α] [Mul α] [Div α] [Neg α] [OfScientific α] [NatCast α] [Transc α]

/-- `jsa_values[index]` after the bounds check has succeeded -/
def at' (f : Array (Cx α)) (k : Nat) : Cx α := f.getD k Cx.zero

/-- `hom::jsi_norm` : `Σ |f_k|²` (sequential `Iterator::sum`) -/
def jsiNorm (f : Array (Cx α)) : α := sumList (f.toList.map Cx.normSq)

/-- `Δ_k = ω_i − ω_s` at flat index `k` -/
def deltaW (grid : Steps2D α) (k : Nat) : α :=
  let p := grid.value k
  p.2 - p.1

/-- summand of `hom_rate`: `(f_si.conj() * f_is * from_polar(1, Δ·τ/RAD)).re` -/
def homTerm (grid : Steps2D α) (f g : Array (Cx α)) (τ : α) (k : Nat) : α :=
  let shift := Cx.fromPolar (1.0 : α) (deltaW grid k * τ / (1.0 : α))
  (Cx.mul (Cx.mul (at' f k).conj (at' g k)) shift).re

/-- the interference sum (Rust: rayon `sum` over the enumerated grid; here left to right) -/
def homInterf (grid : Steps2D α) (f g : Array (Cx α)) (τ : α) : α :=
  sumList ((List.range grid.len).map (homTerm grid f g τ))

/-- `hom::hom_rate(ranges, jsa_values, jsa_values_swapped, time_delay, norm)`.
Indexing either array beyond its length panics (for a non-empty grid). -/
def homRate (grid : Steps2D α) (f g : Array (Cx α)) (τ : α) (norm : Option α) : Outcome α :=
  if grid.len ≤ f.size ∧ grid.len ≤ g.size then
    let nrm := match norm with
      | some x => x
      | none => jsiNorm f
    .ok ((0.5 : α) * ((1.0 : α) - homInterf grid f g τ / nrm))
  else .panic "hom_rate: index out of bounds"

/-- collect a list of outcomes (first non-ok wins, as a panic inside `map(..).collect()` would) -/
def collectOutcomes {β : Type} : List (Outcome β) → Outcome (List β)
  | [] => .ok []
  | .ok b :: r =>
    match collectOutcomes r with
    | .ok l => .ok (b :: l)
    | .err e => .err e
    | .panic s => .panic s
  | .err e :: _ => .err e
  | .panic s :: _ => .panic s

/-- `hom::hom_rate_series` : one shared normalisation -/
def homRateSeries (grid : Steps2D α) (f g : Array (Cx α)) (τs : List α) : Outcome (List α) :=
  let norm := jsiNorm f
  collectOutcomes (τs.map fun τ => homRate grid f g τ (some norm))

/-- an amplitude function sampled on a grid in enumeration order (`jsa_range`) -/
def sampled (J : α → α → Cx α) (grid : Steps2D α) : Array (Cx α) :=
  ((List.range grid.len).map fun k => let p := grid.value k; J p.1 p.2).toArray

/-- the exchanged-argument counterpart built by the setup-level wrappers:
`ranges.as_steps().into_iter().map(|(ws, wi)| sp.jsa(wi, ws))` -/
def sampledSwapped (J : α → α → Cx α) (grid : Steps2D α) : Array (Cx α) :=
  ((List.range grid.len).map fun k => let p := grid.value k; J p.2 p.1).toArray

/-- `SPDC::hom_rate_series` with the joint spectral amplitude as a parameter -/
def homRateSeriesSetup (J : α → α → Cx α) (grid : Steps2D α) (τs : List α) : Outcome (List α) :=
  homRateSeries grid (sampled J grid) (sampledSwapped J grid) τs

/-- `(0.5 - min_rate) / 0.5` -/
def visibilityOf (r : α) : α := ((0.5 : α) - r) / (0.5 : α)

/-- `hom::hom_visibility` given the two arrays and the dip delay (the delay itself is
`hom_time_delay`, a lower layer) -/
def homVisibility (grid : Steps2D α) (f g : Array (Cx α)) (δt : α) : Outcome α :=
  (homRate grid f g δt none).map visibilityOf

def homVisibilitySetup (J : α → α → Cx α) (grid : Steps2D α) (δt : α) : Outcome α :=
  homVisibility grid (sampled J grid) (sampledSwapped J grid) δt

/-- flat index of the transposed position on an `n × n` grid -/
def swapIdx (n k : Nat) : Nat := (k % n) * n + k / n

/-- the array read at exchanged positions: `g_k = f_{σ k}` -/
def swapArr (n : Nat) (f : Array (Cx α)) : Array (Cx α) :=
  ((List.range (n * n)).map fun k => at' f (swapIdx n k)).toArray

/-! ### two-source HOM -/

/-- the eight amplitude grids of `hom_two_source_rate_series`, in the order the code evaluates them -/
structure TwoSrc (α : Type) where
  first_s1_i1 : Array (Cx α)
  second_s2_i2 : Array (Cx α)
  first_s2_i1 : Array (Cx α)
  second_s1_i2 : Array (Cx α)
  first_s1_i2 : Array (Cx α)
  second_s2_i1 : Array (Cx α)
  first_i2_i1 : Array (Cx α)
  second_s2_s1 : Array (Cx α)

/-- the eight grids as `get_jsa(js, x_range, y_range)` builds them -/
def twoSrcOf (J1 J2 : α → α → Cx α) (r1 r2 : Steps2D α) : TwoSrc α :=
  let ls1 := r1.x; let li1 := r1.y; let ls2 := r2.x; let li2 := r2.y
  { first_s1_i1 := sampled J1 ⟨ls1, li1⟩
    second_s2_i2 := sampled J2 ⟨ls2, li2⟩
    first_s2_i1 := sampled J1 ⟨ls2, li1⟩
    second_s1_i2 := sampled J2 ⟨ls1, li2⟩
    first_s1_i2 := sampled J1 ⟨ls1, li2⟩
    second_s2_i1 := sampled J2 ⟨ls2, li1⟩
    first_i2_i1 := sampled J1 ⟨li2, li1⟩
    second_s2_s1 := sampled J2 ⟨ls2, ls1⟩ }

/-- `get_1d_index(col, row, cols)` where `col` is a remainder modulo `cols` (its assert cannot fail) -/
def idx1 (col row cols : Nat) : Nat := row * cols + col

/-- `|a − b·from_polar(1, δ·Δω/RAD)|²` -/
def interfSq (a b : Cx α) (δ dω : α) : α :=
  (Cx.sub a (Cx.mul b (Cx.fromPolar (1.0 : α) (δ * dω / (1.0 : α))))).normSq

/-- the three summands at `(index1, index2)` : `(ss, ii, si)` -/
def twoTerm (cols : Nat) (r1 r2 : Steps2D α) (G : TwoSrc α) (δ : α) (k1 k2 : Nat) : α × α × α :=
  let p1 := r1.value k1
  let p2 := r2.value k2
  let ws1 := p1.1; let wi1 := p1.2; let ws2 := p2.1; let wi2 := p2.2
  let (s1, i1) := get2dIndices k1 cols
  let (s2, i2) := get2dIndices k2 cols
  let phi_1_s1_i1 := at' G.first_s1_i1 k1
  let phi_2_s2_i2 := at' G.second_s2_i2 k2
  let phi_1_s2_i1 := at' G.first_s2_i1 (idx1 s2 i1 cols)
  let phi_2_s1_i2 := at' G.second_s1_i2 (idx1 s1 i2 cols)
  let phi_1_s1_i2 := at' G.first_s1_i2 (idx1 s1 i2 cols)
  let phi_2_s2_i1 := at' G.second_s2_i1 (idx1 s2 i1 cols)
  let phi_1_i2_i1 := at' G.first_i2_i1 (idx1 i2 i1 cols)
  let phi_2_s2_s1 := at' G.second_s2_s1 (idx1 s2 s1 cols)
  let a := Cx.mul phi_1_s1_i1 phi_2_s2_i2
  let b_ss := Cx.mul phi_1_s2_i1 phi_2_s1_i2
  let b_ii := Cx.mul phi_1_s1_i2 phi_2_s2_i1
  let b_si := Cx.mul phi_1_i2_i1 phi_2_s2_s1
  (interfSq a b_ss δ (ws2 - ws1), interfSq a b_ii δ (wi2 - wi1), interfSq a b_si δ (wi2 - ws1))

def v3add (a b : α × α × α) : α × α × α := (a.1 + b.1, a.2.1 + b.2.1, a.2.2 + b.2.2)
def v3zero : α × α × α := ((0.0 : α), (0.0 : α), (0.0 : α))
/-- `Iterator::sum::<Vector3<f64>>()` : fold from zero -/
def v3sum (l : List (α × α × α)) : α × α × α := l.foldl v3add v3zero

/-- the un-normalised four-fold sum at one delay (outer loop over `range1`, inner over `range2`) -/
def twoSum (cols : Nat) (r1 r2 : Steps2D α) (G : TwoSrc α) (δ : α) : α × α × α :=
  v3sum ((List.range r1.len).map fun k1 =>
    v3sum ((List.range r2.len).map fun k2 => twoTerm cols r1 r2 G δ k1 k2))

/-- `result / 4. / (norm1 * norm2)` -/
def twoRate (cols : Nat) (r1 r2 : Steps2D α) (G : TwoSrc α) (δ : α) : α × α × α :=
  let norm1 := jsiNorm G.first_s1_i1
  let norm2 := jsiNorm G.second_s2_i2
  let s := twoSum cols r1 r2 G δ
  let d := norm1 * norm2
  (s.1 / (4.0 : α) / d, s.2.1 / (4.0 : α) / d, s.2.2 / (4.0 : α) / d)

/-- `hom::hom_two_source_rate_series` given the eight evaluated grids: `(ss, ii, si)` series.
The three `assert_eq!` on the step counts come first. -/
def homTwoSourceSeries (r1 r2 : Steps2D α) (G : TwoSrc α) (τs : List α) :
    Outcome (List α × List α × List α) :=
  if r1.x.n ≠ r1.y.n then .panic "assert_eq ls_range_1 li_range_1"
  else if r2.x.n ≠ r2.y.n then .panic "assert_eq ls_range_2 li_range_2"
  else if r1.x.n ≠ r2.x.n then .panic "assert_eq ls_range_1 ls_range_2"
  else
    let cols := r1.x.n
    let rates := τs.map fun δ => twoRate cols r1 r2 G δ
    .ok (rates.map (·.1), rates.map (·.2.1), rates.map (·.2.2))

/-- `hom::hom_two_source_visibilities` given the eight grids: identical sources take zero delay for
all three channels, otherwise each channel is evaluated at its own delay
(`hom_two_source_time_delays`, a lower layer, passed in). -/
def twoSourceVisibilities (same : Bool) (r1 r2 : Steps2D α) (G : TwoSrc α) (δss δii δsi : α) :
    Outcome (α × α × α) :=
  if same then
    (homTwoSourceSeries r1 r2 G [(0.0 : α)]).map fun _ =>
      let r := twoRate r1.x.n r1 r2 G (0.0 : α)
      (visibilityOf r.1, visibilityOf r.2.1, visibilityOf r.2.2)
  else
    (homTwoSourceSeries r1 r2 G [δss]).map fun _ =>
      let cols := r1.x.n
      (visibilityOf (twoRate cols r1 r2 G δss).1, visibilityOf (twoRate cols r1 r2 G δii).2.1,
        visibilityOf (twoRate cols r1 r2 G δsi).2.2)

end

/-! ### by-name views of `HomTwoSourceResult<T>`

`impl From<HomTwoSourceResult<T>> for HashMap<String, T>`, its opposite
`impl From<HashMap<String, T>> for HomTwoSourceResult<T>` and the derived serde representation (a map with the
field names as keys).  A `HashMap<String, T>` is modelled as an association list with distinct keys. -/

/-- `hom::HomTwoSourceResult<T>` -/
structure TwoRes (β : Type) where
  ss : β
  ii : β
  si : β

/-- `HashMap::from(result)`: three insertions, each field under its own name (also the serde map of the struct) -/
def TwoRes.toNamed {β : Type} (r : TwoRes β) : List (String × β) :=
  [("ss", r.ss), ("ii", r.ii), ("si", r.si)]

/-- `HomTwoSourceResult::from(map)`: `map.get(name).cloned().unwrap_or(T::default())` per field -/
def TwoRes.ofNamed {β : Type} (d : β) (m : List (String × β)) : TwoRes β :=
  ⟨(m.lookup "ss").getD d, (m.lookup "ii").getD d, (m.lookup "si").getD d⟩

/-- serde `Deserialize` of the struct from a map: every field is required, unknown keys are ignored -/
def TwoRes.ofNamedStrict {β : Type} (m : List (String × β)) : Outcome (TwoRes β) :=
  match m.lookup "ss", m.lookup "ii", m.lookup "si" with
  | some a, some b, some c => .ok ⟨a, b, c⟩
  | none, _, _ => .err "missing field `ss`"
  | _, none, _ => .err "missing field `ii`"
  | _, _, none => .err "missing field `si`"

/-- the entries of a by-name view in key order (the canonical listing used on the wire) -/
def namedSorted {β : Type} (m : List (String × β)) : List (String × β) :=
  m.mergeSort fun a b => !(b.1 < a.1)

end Spdc.Hom
