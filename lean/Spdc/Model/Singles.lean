import Spdc.Model.Num
import Spdc.Model.Cx
/-!
# M10 (part) — `phasematch_singles_fiber_coupling`   (mirrors `src/phasematch/singles.rs`)

Core Lean only.  The 2-D integrand of the fibre-coupled *singles* phase-matching function, transcribed
statement by statement (same operation order, same mixed real/complex operators as `num-complex`), the
factor ¼ and the modulus.  Inputs are the primitive quantities the Rust function reads from the setup
through public getters (`SinglesIn`); the apodisation weights at the quadrature nodes and the nodes /
weights of the rule are inputs too.
-/
namespace Spdc.Singles
open Spdc

/-- what `phasematch_singles_fiber_coupling` reads from the setup (SI values) -/
structure SinglesIn (α : Type) where
  /-- crystal length `L` -/
  len : α
  /-- signal internal polar angle, azimuth, external polar angle -/
  thetaS : α
  phiS : α
  thetaSe : α
  /-- signal waist `wx·wy`, pump waist `wx²`, `wy²` -/
  wsSq : α
  wxSq : α
  wySq : α
  /-- `direction().z.signum()` of signal and idler -/
  signKs : α
  signKi : α
  /-- signal index at `ω_s`; wavenumbers `n ω / c` of pump (at `ω_s+ω_i`), signal, idler (unsigned) -/
  ns : α
  kp : α
  ksAbs : α
  kiAbs : α
  /-- signal waist position `z0s` -/
  z0s : α
  /-- pump walk-off angle -/
  rho : α
  /-- `pp.k_eff()` -/
  keff : α

section
variable {α : Type} [Add α] [Sub α] [Mul α] [Div α] [Neg α] [OfScientific α] [LT α]
  [DecidableLT α] [Transc α]

/-! mixed real/complex operators of `num-complex 0.4` that `Cx` does not have yet -/
/-- `Complex + f64` -/
def caddr (z : Cx α) (s : α) : Cx α := ⟨z.re + s, z.im⟩
/-- `Complex - f64` -/
def csubr (z : Cx α) (s : α) : Cx α := ⟨z.re - s, z.im⟩
/-- `f64 + Complex` -/
def raddc (s : α) (z : Cx α) : Cx α := ⟨s + z.re, z.im⟩
/-- `f64 / Complex`: `(s·re/|z|², 0 − s·im/|z|²)` -/
def rdivc (s : α) (z : Cx α) : Cx α :=
  ⟨s * z.re / z.normSq, (0.0 : α) - s * z.im / z.normSq⟩
/-- `Complex::i()` -/
def I : Cx α := ⟨(0.0 : α), (1.0 : α)⟩
/-- `math::sq` on complex numbers -/
def csq (z : Cx α) : Cx α := z * z
/-- `f64::powi(-2)` (compiler-rt: `1/(x·x)`) -/
def powiNeg2 (x : α) : α := (1.0 : α) / (x * x)

/-- the coefficients computed once per frequency pair (everything above `fn_z`) -/
structure Coef (α : Type) where
  len : α
  ks : α
  kpL : α
  c3 : α
  c4 : α
  c5 : α
  c9 : Cx α
  c10 : Cx α
  wxSq : α
  wySq : α
  lRho : α
  lRhoSq : α
  kpKs : α
  kpKs4inv : α
  gam4s : α
  alpha1 : Cx α
  alpha2 : Cx α
  alpha3 : Cx α

def coef (p : SinglesIn α) : Coef α :=
  let L := p.len
  let ks := p.signKs * p.ksAbs
  let ki := p.signKi * p.kiAbs
  let kp := p.kp
  let phiSsec := powiNeg2 (Transc.cos p.thetaSe)        -- `PHI_s = cos(theta_s_e).powi(-2)`
  let hs := L * (0.5 : α) * Transc.tan p.thetaS * Transc.cos p.phiS
  let rhoPx := Transc.tan p.rho
  let ksf := Transc.abs ks / p.ns
  let sinE := Transc.sin p.thetaSe
  let cosPhi := Transc.cos p.phiS
  let gam2s := (-(0.25 : α)) * p.wsSq
  let gam1s := gam2s * phiSsec
  let gam3s := (-(2.0 : α)) * ksf * gam1s * sinE * cosPhi
  let gam4s := (-(0.5 : α)) * ksf * sinE * cosPhi * gam3s
  let zhs := p.z0s + hs * sinE * cosPhi
  let del2s := ((0.5 : α) / ksf) * zhs
  let del1s := del2s * phiSsec
  let del3s := (-hs) - zhs * phiSsec * sinE * cosPhi
  let kpKs := kp * ks
  let dksi := ks + ki + p.keff
  let c7 := kp - dksi
  let lRho := L * rhoPx
  { len := L, ks := ks, kpL := kp * L,
    c3 := L * c7,
    c4 := L * ((1.0 : α) / ki - (1.0 : α) / kp),
    c5 := ks / kp,
    c9 := ⟨kp * p.wxSq, (0.0 : α)⟩,
    c10 := ⟨kp * p.wySq, (0.0 : α)⟩,
    wxSq := p.wxSq, wySq := p.wySq,
    lRho := lRho, lRhoSq := lRho * lRho,
    kpKs := kpKs, kpKs4inv := (1.0 : α) / ((4.0 : α) * kpKs),
    gam4s := gam4s,
    alpha1 := Cx.smul ((4.0 : α) * kpKs) ⟨gam1s, -del1s⟩,
    alpha2 := Cx.smul ((4.0 : α) * kpKs) ⟨gam2s, -del2s⟩,
    alpha3 := ⟨gam3s, -del3s⟩ }

/-- numerator and denominator of the closure `fn_z(z1, z2)` -/
def numDen (c : Coef α) (z1 z2 : α) : Cx α × Cx α :=
  let L := c.len
  let z0 : α := (0.0 : α)
  let B0 := z1 - z2
  let A1 := (2.0 : α) * z0 - L * z1
  let B1 := (1.0 : α) - z1
  let B3 := (1.0 : α) + z1
  let A2 := (2.0 : α) * z0 - L * z2
  let B2 := (1.0 : α) - z2
  let B4 := (1.0 : α) + z2
  let B6a := c.c4 * B0
  let gamma1 : Cx α := Cx.smul ((-c.kpL) * B1 + c.ks * A1) I
  let gamma2 : Cx α := Cx.smul ((-c.kpL) * B2 + c.ks * A2) I
  let Ha := c.alpha1 + gamma1
  let Hb := c.alpha2 + gamma1
  let Hc := c.alpha1.conj - gamma2
  let Hd := c.alpha2.conj - gamma2
  let ks := c.ks
  let c9ks := Cx.muls c.c9 ks
  let c10ks := Cx.muls c.c10 ks
  let AA1 := Cx.muls (Ha - c9ks) c.kpKs4inv
  let AA2 := Cx.muls (Hc - c9ks) c.kpKs4inv
  let BB1 := Cx.muls (Hb - c10ks) c.kpKs4inv
  let BB2 := Cx.muls (Hd - c10ks) c.kpKs4inv
  let X11 := c9ks - Ha
  let X12 := (Hc - c9ks) * I
  let Y21 := c10ks - Hb
  let Y22 := (Hd - c10ks) * I
  -- EE = 0.25 * (-(2 Wx², 0) + i·B6a + C5/X11·(C9 − i·A1)² − i·C5/X12·(C9 + i·A2)²)
  let EE := Cx.smul (0.25 : α)
    (((-(⟨(2.0 : α) * c.wxSq, (0.0 : α)⟩ : Cx α)) + Cx.muls I B6a
      + rdivc c.c5 X11 * csq (c.c9 - Cx.muls I A1))
      - (Cx.muls I c.c5 / X12) * csq (c.c9 + Cx.muls I A2))
  -- FF = 0.25 * (-(2 Wy², 0) + i·B6a − C5/Y21·(i·C10 + A1)² + i·C5/Y22·(−i·C10 + A2)²)
  let FF := Cx.smul (0.25 : α)
    (((-(⟨(2.0 : α) * c.wySq, (0.0 : α)⟩ : Cx α)) + Cx.muls I B6a
      - rdivc c.c5 Y21 * csq (caddr (I * c.c10) A1))
      + (Cx.muls I c.c5 / Y22) * csq (caddr ((-I) * c.c10) A2))
  -- GG = ks * (conj α3 / X12 · (i·C9 − A2) + α3 / X11 · (−C9 + i·A1))
  let GG := Cx.smul ks
    ((c.alpha3.conj / X12) * csubr (I * c.c9) A2 + (c.alpha3 / X11) * ((-c.c9) + Cx.muls I A1))
  -- HH = 0.5 * LRho * (i·B0 + ks * (B3/Y21·(−i·C10 − A1) + B4/Y22·(C10 + i·A2)))
  let HH := Cx.smul ((0.5 : α) * c.lRho)
    (Cx.muls I B0 + Cx.smul ks
      (rdivc B3 Y21 * csubr ((-I) * c.c10) A1 + rdivc B4 Y22 * (c.c10 + Cx.muls I A2)))
  -- II
  let IIrho := Cx.smul ((0.25 : α) * c.kpKs * c.lRhoSq)
    (rdivc (-(B3 * B3)) Y21 + Cx.muls I (B4 * B4) / Y22)
  let IIgam := Cx.smul c.kpKs (csq c.alpha3 / X11 - (I * csq c.alpha3.conj) / X12)
  let IIdelk := raddc ((2.0 : α) * c.gam4s) (Cx.muls (Cx.muls (Cx.smul (0.5 : α) I) c.c3) B0)
  let II := IIrho + IIgam + IIdelk
  let numerator := (((-(csq GG)) / Cx.smul (4.0 : α) EE - csq HH / Cx.smul (4.0 : α) FF) + II).exp
  let denominator := Cx.smul (8.0 : α) (AA1 * BB1 * AA2 * BB2 * EE * FF).sqrt
  (numerator, denominator)

/-- `fn_z(z1, z2)`: `pmzcoeff * numerator / denominator` with `pmzcoeff = a(z1)·a(z2)` -/
def integrand (c : Coef α) (a1 a2 z1 z2 : α) : Cx α :=
  let nd := numDen c z1 z2
  Cx.smul (a1 * a2) nd.1 / nd.2

/-- Gauss–Legendre product rule on `[-1,1]²` as `Integrator::GaussLegendre::integrate2d` evaluates it
(real and imaginary parts separately, `Σ f·w` per axis, outer variable = first argument) -/
def gl2d (nodes weights : List α) (f : α → α → Cx α) : Cx α :=
  let nw := nodes.zip weights
  let part (sel : Cx α → α) : α :=
    (1.0 : α) * sumList (nw.map fun (x, wx) =>
      ((1.0 : α) * sumList (nw.map fun (y, wy) => sel (f x y) * wy)) * wx)
  ⟨part (·.re), part (·.im)⟩

/-- `get_simpson_weight` -/
def simpsonWeight (n divs : Nat) : α :=
  if n = 0 ∨ n = divs then (1.0 : α) else if n % 2 = 1 then (4.0 : α) else (2.0 : α)

/-- `simpson2d` on the given nodes (`Steps(a, b, divs+1)`, same on both axes): inner sum over the first
argument, outer over the second, times `dx·dy/9` -/
def simpson2d (nodes : List α) (dx dy : α) (f : α → α → Cx α) : Cx α :=
  let divs := nodes.length - 1
  let idx := (List.range nodes.length).zip nodes
  let outer := Cx.sum (idx.map fun (ny, y) =>
    Cx.muls (Cx.sum (idx.map fun (nx, x) => Cx.muls (f x y) (simpsonWeight nx divs))) (simpsonWeight ny divs))
  Cx.muls outer (dx * dy / (9.0 : α))

/-- `Complex::norm` is `hypot`, which does not underflow for tiny arguments (the far tails of the singles
function reach 1e-180): scaled form `m·√((re/m)² + (im/m)²)`, `m = max(|re|,|im|)`; equal to `√(re²+im²)` over ℝ. -/
def hypot (z : Cx α) : α :=
  let a := Transc.abs z.re
  let b := Transc.abs z.im
  let m := if a < b then b else a
  if (0.0 : α) < m then m * Transc.sqrt ((a / m) * (a / m) + (b / m) * (b / m)) else m

/-- `phasematch_singles_fiber_coupling`: `0.25 * integrate2d(fn_z).norm()` -/
def pmSingles (integral : Cx α) : α := (0.25 : α) * hypot integral

end
end Spdc.Singles
