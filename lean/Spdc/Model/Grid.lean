import Spdc.Model.Num
/-!
# M8 — grids, index maps, producers (mirrors `src/utils.rs`, `src/jsa/si_iterator.rs`)

Core Lean only.  Polymorphic in the scalar; `usize as f64` is `NatCast`.
-/
namespace Spdc.Grid

section scalar
variable {α : Type} [Add α] [Sub α] [Mul α] [Div α] [NatCast α] [OfScientific α]

/-- `utils::Steps(start, end, steps)` -/
structure Steps (α : Type) where
  a : α
  b : α
  n : Nat
deriving Repr

/-- `Steps::value` : `(start*(d-index) + end*index)/d` with `d = (steps-1) as f64`; `start` when
`steps ≤ 1`. -/
def Steps.value (s : Steps α) (i : Nat) : α :=
  if s.n > 1 then
    (s.a * (((s.n - 1 : Nat) : α) - (i : α)) + s.b * (i : α)) / ((s.n - 1 : Nat) : α)
  else s.a

/-- sequential traversal (`into_iter().collect()`) -/
def Steps.collect (s : Steps α) : List α := (List.range s.n).map s.value

/-- `Steps::division_width` (callers guarantee `steps ≥ 2`; `steps = 0` underflows in Rust) -/
def Steps.divisionWidth (s : Steps α) : α := (s.b - s.a) / ((s.n - 1 : Nat) : α)

/-- `Iterator1D` as a state machine -/
structure Iter1 (α : Type) where
  steps : Steps α
  index : Nat
  indexBack : Nat

def Steps.iter (s : Steps α) : Iter1 α := ⟨s, 0, s.n⟩

def Iter1.next (it : Iter1 α) : Option α × Iter1 α :=
  if it.index ≥ it.indexBack then (none, it)
  else (some (it.steps.value it.index), { it with index := it.index + 1 })

def Iter1.nextBack (it : Iter1 α) : Option α × Iter1 α :=
  if it.indexBack ≤ it.index then (none, it)
  else (some (it.steps.value (it.indexBack - 1)), { it with indexBack := it.indexBack - 1 })

/-- `ExactSizeIterator::len` of `Iterator1D` (after the `fix:` commit 3d5ac37: the remaining items;
before it the *total* step count, whatever had been consumed) -/
def Iter1.len (it : Iter1 α) : Nat := it.indexBack - it.index

/-- drain an iterator following a script of front (`false`) / back (`true`) pulls -/
def Iter1.drain (it : Iter1 α) : List Bool → List (Option α)
  | [] => []
  | false :: r => let (v, it') := it.next; v :: Iter1.drain it' r
  | true :: r => let (v, it') := it.nextBack; v :: Iter1.drain it' r

/-- `len()` reported after each pull of a script (front `false` / back `true`) -/
def Iter1.drainLens (it : Iter1 α) : List Bool → List Nat
  | [] => []
  | false :: r => let it' := it.next.2; it'.len :: Iter1.drainLens it' r
  | true :: r => let it' := it.nextBack.2; it'.len :: Iter1.drainLens it' r

/-- `math::lerp` -/
def lerp (a b t : α) : α := a * ((1.0 : α) - t) + b * t

/-- `utils::get_2d_indices` (Rust panics on `cols = 0`; callers never reach that) -/
def get2dIndices (index cols : Nat) : Nat × Nat := (index % cols, index / cols)

/-- `utils::Steps2D` -/
structure Steps2D (α : Type) where
  x : Steps α
  y : Steps α
deriving Repr

def Steps2D.len (s : Steps2D α) : Nat := s.x.n * s.y.n

/-- `Steps2D::value` -/
def Steps2D.value (s : Steps2D α) (index : Nat) : α × α :=
  let cols := s.x.n
  let rows := s.y.n
  let (nx, ny) := get2dIndices index cols
  let xt : α := if cols > 1 then (nx : α) / ((cols - 1 : Nat) : α) else (0.0 : α)
  let yt : α := if rows > 1 then (ny : α) / ((rows - 1 : Nat) : α) else (0.0 : α)
  (lerp s.x.a s.x.b xt, lerp s.y.a s.y.b yt)

def Steps2D.collect (s : Steps2D α) : List (α × α) := (List.range s.len).map s.value

def Steps2D.swapped (s : Steps2D α) : Steps2D α := ⟨s.y, s.x⟩

/-- `Iterator2D` (with `partition`) as a state machine -/
structure Iter2 (α : Type) where
  steps : Steps2D α
  lo : Nat
  hi : Nat
  index : Nat
  indexBack : Nat

def Iter2.newPartition (s : Steps2D α) (lo hi : Nat) : Outcome (Iter2 α) :=
  if lo ≤ hi then .ok ⟨s, lo, hi, lo, hi⟩ else .panic "new_partition: start > end"

def Iter2.next (it : Iter2 α) : Option (α × α) × Iter2 α :=
  if it.index ≥ it.indexBack then (none, it)
  else (some (it.steps.value it.index), { it with index := it.index + 1 })

def Iter2.nextBack (it : Iter2 α) : Option (α × α) × Iter2 α :=
  if it.indexBack ≤ it.index then (none, it)
  else (some (it.steps.value (it.indexBack - 1)), { it with indexBack := it.indexBack - 1 })

/-- `ExactSizeIterator::len` of `Iterator2D` (after 3d5ac37: remaining items; before: `hi − lo`) -/
def Iter2.len (it : Iter2 α) : Nat := it.indexBack - it.index

def Iter2.drain (it : Iter2 α) : List Bool → List (Option (α × α))
  | [] => []
  | false :: r => let (v, it') := it.next; v :: Iter2.drain it' r
  | true :: r => let (v, it') := it.nextBack; v :: Iter2.drain it' r

def Iter2.drainLens (it : Iter2 α) : List Bool → List Nat
  | [] => []
  | false :: r => let it' := it.next.2; it'.len :: Iter2.drainLens it' r
  | true :: r => let it' := it.nextBack.2; it'.len :: Iter2.drainLens it' r

/-! ### rayon producers -/

/-- `ParIterator1D::split_at` (after the `fix:` commit that guards `index == 0`; before it
`index - 1` was a `usize` underflow, a panic in debug builds).  `index > steps` underflows
`steps - index` — outside the `Producer` contract (`index ≤ len`). -/
def split1 (p : Steps α) (k : Nat) : Outcome (Steps α × Steps α) :=
  if k > p.n then .panic "split_at: steps - index underflow"
  else .ok (⟨p.a, if k = 0 then p.a else p.value (k - 1), k⟩, ⟨p.value k, p.b, p.n - k⟩)

/-- `ParIterator2D` = `Iterator2D` restricted to `[lo, hi)` of the global index range -/
structure Prod2 (α : Type) where
  steps : Steps2D α
  lo : Nat
  hi : Nat

def Steps2D.producer (s : Steps2D α) : Prod2 α := ⟨s, 0, s.len⟩

/-- `ParIterator2D::split_at` (`new_partition` asserts `start ≤ end`) -/
def split2 (p : Prod2 α) (k : Nat) : Outcome (Prod2 α × Prod2 α) :=
  if p.lo + k > p.hi then .panic "new_partition: start > end"
  else .ok (⟨p.steps, p.lo, p.lo + k⟩, ⟨p.steps, p.lo + k, p.hi⟩)

def Prod2.collect (p : Prod2 α) : List (α × α) :=
  (List.range (p.hi - p.lo)).map fun j => p.steps.value (p.lo + j)

def Prod2.len (p : Prod2 α) : Nat := p.hi - p.lo

/-- a binary split tree: `node k l r` splits the current producer at local index `k` -/
inductive SplitTree where
  | leaf : SplitTree
  | node : Nat → SplitTree → SplitTree → SplitTree
deriving Repr

/-- leaves of a split tree over the 1-D producer, each drained sequentially, concatenated.
`none` if some `split_at` call would panic. -/
def leaves1 (p : Steps α) : SplitTree → Option (List α)
  | .leaf => some p.collect
  | .node k l r =>
    match split1 p k with
    | .ok (pl, pr) =>
      match leaves1 pl l, leaves1 pr r with
      | some a, some b => some (a ++ b)
      | _, _ => none
    | _ => none

def leaves2 (p : Prod2 α) : SplitTree → Option (List (α × α))
  | .leaf => some p.collect
  | .node k l r =>
    match split2 p k with
    | .ok (pl, pr) =>
      match leaves2 pl l, leaves2 pr r with
      | some a, some b => some (a ++ b)
      | _, _ => none
    | _ => none

/-- a split tree rayon may request: every split index satisfies `1 ≤ k ≤ len − 1` -/
def SplitTree.Valid : SplitTree → Nat → Prop
  | .leaf, _ => True
  | .node k l r, n => 1 ≤ k ∧ k + 1 ≤ n ∧ l.Valid k ∧ r.Valid (n - k)

/-- a split tree the `Producer` contract allows: every split index satisfies `0 ≤ k ≤ len`
(`Valid t n → ValidC t n`) -/
def SplitTree.ValidC : SplitTree → Nat → Prop
  | .leaf, _ => True
  | .node k l r, n => k ≤ n ∧ l.ValidC k ∧ r.ValidC (n - k)

/-- lengths of the leaves of a split tree over a producer of length `n`, left to right
(`none` if some split index exceeds the current length: `split_at` would panic) -/
def leafLens : SplitTree → Nat → Option (List Nat)
  | .leaf, n => some [n]
  | .node k l r, n =>
    if k ≤ n then
      match leafLens l k, leafLens r (n - k) with
      | some a, some b => some (a ++ b)
      | _, _ => none
    else none

/-- the leaf producers of a split tree over the 1-D producer, left to right -/
def leafProds1 (p : Steps α) : SplitTree → Option (List (Steps α))
  | .leaf => some [p]
  | .node k l r =>
    match split1 p k with
    | .ok (pl, pr) =>
      match leafProds1 pl l, leafProds1 pr r with
      | some a, some b => some (a ++ b)
      | _, _ => none
    | _ => none

/-- the leaf producers of a split tree over the 2-D producer, left to right -/
def leafProds2 (p : Prod2 α) : SplitTree → Option (List (Prod2 α))
  | .leaf => some [p]
  | .node k l r =>
    match split2 p k with
    | .ok (pl, pr) =>
      match leafProds2 pl l, leafProds2 pr r with
      | some a, some b => some (a ++ b)
      | _, _ => none
    | _ => none

/-- rayon's reduction tree of a map–reduce (`.map(f).sum()`, `.map(f).reduce(..)`) over the 1-D
producer: every leaf folds its items sequentially starting from `e` (the `Folder`), every node
combines the results of its two halves (the `Reducer`) -/
def reduce1 {M : Type} (op : M → M → M) (e : M) (f : α → M) (p : Steps α) : SplitTree → Option M
  | .leaf => some ((p.collect.map f).foldl op e)
  | .node k l r =>
    match split1 p k with
    | .ok (pl, pr) =>
      match reduce1 op e f pl l, reduce1 op e f pr r with
      | some a, some b => some (op a b)
      | _, _ => none
    | _ => none

/-- the same over the 2-D producer -/
def reduce2 {M : Type} (op : M → M → M) (e : M) (f : α × α → M) (p : Prod2 α) : SplitTree → Option M
  | .leaf => some ((p.collect.map f).foldl op e)
  | .node k l r =>
    match split2 p k with
    | .ok (pl, pr) =>
      match reduce2 op e f pl l, reduce2 op e f pr r with
      | some a, some b => some (op a b)
      | _, _ => none
    | _ => none

/-! ### representation conversions (`si_iterator.rs`) on raw SI values -/

/-- frequency ↔ vacuum wavelength: `2π·c / x` (both directions; `twoPiC` is a parameter so the
identities are proved for any non-zero constant) -/
def recip (twoPiC x : α) : α := twoPiC / x

/-- `FrequencySpace::from_wavelength_space` / `as_wavelength_space`: endpoints swapped per axis -/
def convRecip (twoPiC : α) (s : Steps2D α) : Steps2D α :=
  ⟨⟨recip twoPiC s.x.b, recip twoPiC s.x.a, s.x.n⟩, ⟨recip twoPiC s.y.b, recip twoPiC s.y.a, s.y.n⟩⟩

/-- `SumDiffFrequencySpace::from_frequency_space` -/
def toSumDiff (f : Steps2D α) : Steps2D α :=
  let wsMin := f.x.a; let wsMax := f.x.b; let wiMin := f.y.a; let wiMax := f.y.b
  ⟨⟨(wiMin + wsMin) / (2.0 : α), (wiMax + wsMax) / (2.0 : α), f.x.n⟩,
   ⟨(wiMin - wsMax) / (2.0 : α), (wiMax - wsMin) / (2.0 : α), f.y.n⟩⟩

/-- `SumDiffFrequencySpace::as_frequency_space` -/
def fromSumDiff (sd : Steps2D α) : Steps2D α :=
  let sMin := sd.x.a; let sMax := sd.x.b; let dMin := sd.y.a; let dMax := sd.y.b
  ⟨⟨(0.25 : α) * ((3.0 : α) * sMin + sMax - dMin - (3.0 : α) * dMax),
    (0.25 : α) * (sMin + (3.0 : α) * sMax - (3.0 : α) * dMin - dMax), sd.x.n⟩,
   ⟨(0.25 : α) * ((3.0 : α) * sMin + sMax + (3.0 : α) * dMin + dMax),
    (0.25 : α) * (sMin + (3.0 : α) * sMax + dMin + (3.0 : α) * dMax), sd.y.n⟩⟩

/-- signal/idler iterator of a sum/diff grid: `(s − d, s + d)` -/
def sumDiffPoint (p : α × α) : α × α := (p.1 - p.2, p.1 + p.2)

end scalar

/-! ### index maps and transpose (no scalars) -/

/-- `utils::get_1d_index` with its `assert!(col < cols)` -/
def get1dIndex (col row cols : Nat) : Outcome Nat :=
  if col < cols then .ok (row * cols + col) else .panic "get_1d_index: assert col < cols"

/-- `utils::transpose_vec` as coded (after the `fix:` commit): out-of-place, column by column;
`vec.get(i)` skips indices beyond a ragged tail. -/
def transposeVec {β : Type} (vec : List β) (numCols : Nat) : Outcome (List β) :=
  if numCols = 0 then .panic "div_ceil: division by zero" else
  let len := vec.length
  let numRows := (len + numCols - 1) / numCols
  .ok ((List.range numCols).flatMap fun col =>
    (List.range numRows).filterMap fun row => vec[row * numCols + col]?)

/-- specification: transpose of a row-major `rows × cols` matrix stored flat -/
def transposeSpec {β : Type} (m : Nat → Nat → β) (rows cols : Nat) : List β :=
  -- the transpose is `cols × rows`, row-major: its row `c` is column `c` of `m`
  (List.range cols).flatMap fun c => (List.range rows).map fun r => m r c

/-- row-major flattening of a `rows × cols` matrix -/
def flatten {β : Type} (m : Nat → Nat → β) (rows cols : Nat) : List β :=
  (List.range rows).flatMap fun r => (List.range cols).map fun c => m r c

/-- `chunks_exact(2)` of the flat SI arrays -/
def chunks2 {β : Type} : List β → List (β × β)
  | a :: b :: r => (a, b) :: chunks2 r
  | _ => []

end Spdc.Grid
