import Spdc.Model.Num
import Spdc.Model.Grid
/-!
# M6 (part) — apodization windows and the periodic-poling description
(mirrors `src/spdc/periodic_poling.rs`, `src/spdc/config/apodization.rs`, `math::{lerp, fwhm_to_sigma}`)

Core Lean only.  Distances are raw SI values (metres).  `optimum_poling_period` / `compute_sign`
belong to C04 and are not part of this file.
-/
namespace Spdc.Poling
open Spdc

/-- `f64 as usize` (saturating: NaN and negatives ↦ 0) -/
class AsUsize (α : Type) where
  asUsize : α → Nat

instance : AsUsize Float := ⟨fun x => x.toUInt64.toNat⟩

/-- `spdcalc::Sign` -/
inductive Sign where
  | pos
  | neg
deriving Repr, DecidableEq

/-- `Apodization` -/
inductive Apod (α : Type) where
  | off
  | gaussian (fwhm : α)
  | bartlett (a : α)
  | blackman (a : α)
  | connes (a : α)
  | cosine (a : α)
  | hamming (a : α)
  | welch (a : α)
  | interpolate (values : List α)
deriving Repr

section scalar
variable {α : Type} [Add α] [Sub α] [Mul α] [Div α] [Neg α] [OfScientific α] [LT α] [DecidableLT α]
  [LE α] [DecidableLE α] [NatCast α] [Transc α] [AsUsize α]

/-- `Sign * x` : `x * 1.` or `x * (-1.)` -/
def Sign.mul (s : Sign) (x : α) : α :=
  match s with
  | .pos => x * (1.0 : α)
  | .neg => x * (-(1.0 : α))

/-- `Apodization::kind` -/
def Apod.kind : Apod α → String
  | .off => "Off"
  | .gaussian _ => "Gaussian"
  | .bartlett _ => "Bartlett"
  | .blackman _ => "Blackman"
  | .connes _ => "Connes"
  | .cosine _ => "Cosine"
  | .hamming _ => "Hamming"
  | .welch _ => "Welch"
  | .interpolate _ => "Interpolate"

/-- `TWO_PI = std::f64::consts::TAU` -/
def twoPi : α := (2.0 : α) * Transc.pi

/-- `FWHM_OVER_WAIST = sqrt(2 ln 2)` -/
def fwhmOverWaist : α := Transc.sqrt ((2.0 : α) * Transc.ln (2.0 : α))

/-- `math::fwhm_to_sigma` : `fwhm / (2·sqrt(2 ln 2))` -/
def fwhmToSigma (fwhm : α) : α := fwhm / ((2.0 : α) * fwhmOverWaist)

/-- `x.powi(2)` -/
def sq (x : α) : α := x * x

/-- the `Interpolate` arm: `i = 0.5·(z+1)·(n−1)`, `lerp(values[floor i], values[ceil i], i − floor i)`;
an out-of-range index is a Rust panic -/
def interpolate (values : List α) (z : α) : Outcome α :=
  let n := values.length
  if n = 0 then .ok (1.0 : α) else
  let i := (0.5 : α) * (z + (1.0 : α)) * ((n - 1 : Nat) : α)
  let above := AsUsize.asUsize (Transc.ceil i)
  let below := AsUsize.asUsize (Transc.floor i)
  let t := i - ((below : Nat) : α)
  match values[below]?, values[above]? with
  | some vb, some va => .ok (Grid.lerp vb va t)
  | _, _ => .panic "index out of bounds"

/-- the window formulas without the range assertion -/
def windowRaw (w : Apod α) (z len : α) : Outcome α :=
  match w with
  | .off => .ok (1.0 : α)
  | .gaussian fwhm =>
    let bw := (2.0 : α) * fwhmToSigma fwhm / len
    .ok (Transc.exp (-(0.5 : α) * sq (z / bw)))
  | .bartlett a => .ok ((1.0 : α) - Transc.abs z / a)
  | .blackman a =>
    .ok ((21.0 : α) / (50.0 : α) + (0.5 : α) * Transc.cos (Transc.pi * z / a)
          + ((2.0 : α) / (25.0 : α)) * Transc.cos (twoPi * z / a))
  | .connes a => .ok (sq ((1.0 : α) - sq (z / a)))
  | .cosine a => .ok (Transc.cos ((0.5 : α) * Transc.pi * z / a))
  | .hamming a => .ok (((27.0 : α) + (23.0 : α) * Transc.cos (Transc.pi * z / a)) / (50.0 : α))
  | .welch a => .ok ((1.0 : α) - sq (z / a))
  | .interpolate values => interpolate values z

/-- `Apodization::integration_constant(z, crystal_length)` with its
`assert!((-1. ..=1.).contains(&z))` -/
def window (w : Apod α) (z len : α) : Outcome α :=
  if (-(1.0 : α)) ≤ z ∧ z ≤ (1.0 : α) then windowRaw w z len
  else .panic "z must be between -1 and 1"

/-! ### `PeriodicPoling` -/

/-- `PeriodicPoling` : `Off` or `On { period, sign, apodization }` -/
inductive PP (α : Type) where
  | off
  | on (period : α) (sign : Sign) (apod : Apod α)
deriving Repr

/-- `PeriodicPoling::new` -/
def PP.new (period : α) (apod : Apod α) : PP α :=
  .on (if (0.0 : α) < period then period else -period)
      (if (0.0 : α) < period then .pos else .neg) apod

/-- `with_period` -/
def PP.withPeriod (p : PP α) (period : α) : PP α :=
  match p with
  | .off => PP.new period .off
  | .on _ _ apod => PP.new period apod

/-- `assign_period` (does nothing when off) -/
def PP.assignPeriod (p : PP α) (period : α) : PP α :=
  match p with
  | .off => .off
  | .on _ _ apod => .on (Transc.abs period) (if (0.0 : α) < period then .pos else .neg) apod

/-- `set_apodization` / `with_apodization` (do nothing when off) -/
def PP.withApodization (p : PP α) (apod : Apod α) : PP α :=
  match p with
  | .off => .off
  | .on period sign _ => PP.new (sign.mul period) apod

/-- `apodization()` -/
def PP.apodization (p : PP α) : Apod α :=
  match p with
  | .off => .off
  | .on _ _ apod => apod

/-- `signed_period` as an option: `none` stands for `f64::INFINITY` (poling off) -/
def PP.signedPeriod? (p : PP α) : Option α :=
  match p with
  | .off => none
  | .on period sign _ => some (sign.mul period)

/-- `k_eff` : `0` when off; `assert!(period > 0)`; `TWO_PI·1/(sign·period)` -/
def PP.kEff (p : PP α) : Outcome α :=
  match p with
  | .off => .ok (0.0 : α)
  | .on period sign _ =>
    if (0.0 : α) < period then .ok (twoPi * (1.0 : α) / sign.mul period)
    else .panic "Periodic Poling Period must be greater than zero"

/-- `num_domains` : `ceil(L / period) as usize`, `0` when off -/
def PP.numDomains (p : PP α) (len : α) : Nat :=
  match p with
  | .off => 0
  | .on period _ _ => AsUsize.asUsize (Transc.ceil (len / period))

/-- one entry of `poling_domains`: the centre `z` of domain `i` of `n`, its window value, the pair -/
def domainCentre (i n : Nat) : α :=
  Grid.lerp (-(1.0 : α)) (1.0 : α) (((i : α) + (0.5 : α)) / (n : α))

def domainPair (a z : α) : α × α :=
  let x := Transc.acos ((1.0 : α) - (2.0 : α) * sq a) / twoPi
  if (0.0 : α) < z then ((1.0 : α) - x, x) else (x, (1.0 : α) - x)

/-- one step of `poling_domains`: prepend the pair of domain `i` (a panic of the window propagates) -/
def domainStep (apod : Apod α) (len : α) (n i : Nat) (acc : Outcome (List (α × α))) :
    Outcome (List (α × α)) :=
  let z : α := domainCentre i n
  match window apod z len, acc with
  | .ok a, .ok l => .ok (domainPair a z :: l)
  | .ok _, other => other
  | .err e, _ => .err e
  | .panic s, _ => .panic s

/-- `poling_domains` -/
def PP.polingDomains (p : PP α) (len : α) : Outcome (List (α × α)) :=
  match p with
  | .off => .ok []
  | .on _ _ apod =>
    let n := p.numDomains len
    (List.range n).foldr (domainStep apod len n) (.ok [])

/-- `poling_domain_lengths` -/
def PP.polingDomainLengths (p : PP α) (len : α) : Outcome (List (α × α)) :=
  let period : α := match p with
    | .off => (0.0 : α)
    | .on period _ _ => period
  (p.polingDomains len).map fun l => l.map fun d => (d.1 * period, d.2 * period)

/-- operations of the op-sequence protocol -/
inductive Op (α : Type) where
  | new (period : α) (apod : Apod α)
  | withPeriod (period : α)
  | assignPeriod (period : α)
  | setApodization (apod : Apod α)
  | withApodization (apod : Apod α)
deriving Repr

def PP.step (p : PP α) : Op α → PP α
  | .new period apod => PP.new period apod
  | .withPeriod period => p.withPeriod period
  | .assignPeriod period => p.assignPeriod period
  | .setApodization apod => p.withApodization apod
  | .withApodization apod => p.withApodization apod

def PP.run (p : PP α) (ops : List (Op α)) : PP α := ops.foldl PP.step p

/-- `math::sigfigs(x, 4)` as used for every length in a config: `round(x·10⁴)/10⁴` -/
def sigfigs4 (x : α) : α := Transc.round (x * (10000.0 : α)) / (10000.0 : α)

/-- config ↔ runtime mapping of the windows (`ApodizationConfig`): only the Gaussian carries a unit
conversion, `fwhm_um = sigfigs(fwhm / 1e-6, 4)` and back `fwhm = fwhm_um · 1e-6` -/
def Apod.viaConfig : Apod α → Apod α
  | .gaussian fwhm => .gaussian (sigfigs4 (fwhm / (1e-6 : α)) * (1e-6 : α))
  | w => w

end scalar
end Spdc.Poling
