import Spdc.Model.Num
import Spdc.Model.Cx
/-!
# M3 — index along a direction (mirrors `src/crystal/crystal_setup.rs`, `roots 0.0.8`, `src/math/differentiation.rs`)

Core Lean only.  `toCrystalFrame` is nalgebra's `Rotation3::from_euler_angles(0, θ, φ) * v`
(explicit matrix, matrix–vector product accumulated column by column), `quadRoots` mirrors
`roots::find_roots_quadratic` branch for branch, `indexAlong` is the *faithful* form of
`CrystalSetup::index_along` (as repaired by the `fix:` commit for D2: a quadratic reported to have
no real root is treated as the double root `−b/2`), `indexAlongPinned` keeps the pinned tree's
behaviour (return 0) for the record, `indexAlongSpec` is the closed form the theorems are about.

`==` of the Rust code is `BEq` (IEEE `==` at `Float`, decidable equality at `ℝ`) so that NaN takes
the same branches as in Rust.
-/
namespace Spdc.Index

/-- `PolarizationType` -/
inductive Pol where
  | ordinary
  | extraordinary
deriving Repr, DecidableEq

/-- 3×3 matrix, row major (`nalgebra::Matrix3::new` argument order) -/
structure Mat3 (α : Type) where
  m00 : α
  m01 : α
  m02 : α
  m10 : α
  m11 : α
  m12 : α
  m20 : α
  m21 : α
  m22 : α
deriving Repr

/-- `roots::Roots` restricted to what a quadratic can return -/
inductive Roots (α : Type) where
  | no : Roots α
  | one : α → Roots α
  | two : α → α → Roots α
deriving Repr

section
variable {α : Type} [Add α] [Sub α] [Mul α] [Div α] [Neg α] [OfScientific α] [LT α]
  [DecidableLT α] [BEq α] [Transc α]

/-- `Rotation3::from_euler_angles(roll, pitch, yaw)` (nalgebra 0.33) -/
def fromEulerAngles (roll pitch yaw : α) : Mat3 α :=
  let sr := Transc.sin roll
  let cr := Transc.cos roll
  let sp := Transc.sin pitch
  let cp := Transc.cos pitch
  let sy := Transc.sin yaw
  let cy := Transc.cos yaw
  { m00 := cy * cp
    m01 := cy * sp * sr - sy * cr
    m02 := cy * sp * cr + sy * sr
    m10 := sy * cp
    m11 := sy * sp * sr + cy * cr
    m12 := sy * sp * cr - cy * sr
    m20 := -sp
    m21 := cp * sr
    m22 := cp * cr }

/-- `Matrix3 * Vector3` as nalgebra's `gemv` accumulates it: column 0, then `+=` column 1, column 2 -/
def Mat3.mulVec (m : Mat3 α) (v : Vec3 α) : Vec3 α :=
  ⟨m.m00 * v.x + m.m01 * v.y + m.m02 * v.z,
   m.m10 * v.x + m.m11 * v.y + m.m12 * v.z,
   m.m20 * v.x + m.m21 * v.y + m.m22 * v.z⟩

/-- `CrystalSetup::to_crystal_frame` : `Rotation3::from_euler_angles(0., θ, φ) * direction` -/
def toCrystalFrame (θ φ : α) (v : Vec3 α) : Vec3 α :=
  (fromEulerAngles (0.0 : α) θ φ).mulVec v

/-- `roots::find_roots_linear` -/
def linRoots (a1 a0 : α) : Roots α :=
  if a1 == (0.0 : α) then
    if a0 == (0.0 : α) then .one (0.0 : α) else .no
  else .one (-a0 / a1)

/-- `roots::find_roots_quadratic` (roots 0.0.8), branch for branch -/
def quadRoots (a2 a1 a0 : α) : Roots α :=
  if a2 == (0.0 : α) then linRoots a1 a0
  else
    let disc := a1 * a1 - (4.0 : α) * a2 * a0
    if disc < (0.0 : α) then .no
    else
      let a2x2 := (2.0 : α) * a2
      if disc == (0.0 : α) then .one (-a1 / a2x2)
      else
        let sq := Transc.sqrt disc
        let same := if a1 < (0.0 : α) then -a1 + sq else -a1 - sq
        let diff := if a1 < (0.0 : α) then -a1 - sq else -a1 + sq
        let x1 :=
          if Transc.abs a2x2 < Transc.abs same then (2.0 : α) * a0 / same
          else diff / a2x2
        let x2 :=
          if Transc.abs a2x2 < Transc.abs same then
            if Transc.abs a2x2 < Transc.abs diff then (2.0 : α) * a0 / diff else same / a2x2
          else same / a2x2
        if x1 < x2 then .two x1 x2 else .two x2 x1

/-- `indices.map(|i| i.powi(-2))` : `1/(n·n)` -/
def invSq (n : Vec3 α) : Vec3 α :=
  ⟨(1.0 : α) / (n.x * n.x), (1.0 : α) / (n.y * n.y), (1.0 : α) / (n.z * n.z)⟩

def sqVec (s : Vec3 α) : Vec3 α := ⟨s.x * s.x, s.y * s.y, s.z * s.z⟩

/-- coefficient `b` of eq. (11): `Σ sᵢ²·(b_j + b_k)` -/
def fresnelB (s2 b : Vec3 α) : α := s2.dot ⟨b.y + b.z, b.x + b.z, b.x + b.y⟩
/-- coefficient `c` of eq. (11): `Σ sᵢ²·b_j·b_k` -/
def fresnelC (s2 b : Vec3 α) : α := s2.dot ⟨b.y * b.z, b.x * b.z, b.x * b.y⟩

/-- what `index_along` does with the result of the root finder; `noRoot` is the value used for
`Roots::No` (`none` = the pinned tree's early `return 0`). -/
def pickInvSq (r : Roots α) (pol : Pol) (noRoot : Option α) : Option α :=
  match r with
  | .one n => some (-n)
  | .two n1 n2 =>
    match pol with
    | .ordinary => some (-n2)
    | .extraordinary => some (-n1)
  | .no => noRoot

def finishIndex (x : Option α) : α :=
  match x with
  | none => (0.0 : α)
  | some invxsq => if invxsq < (0.0 : α) then (0.0 : α) else (1.0 : α) / Transc.sqrt invxsq

/-- the index as a function of the crystal-frame direction `s` (repaired code) -/
def indexFromFrame (n : Vec3 α) (s : Vec3 α) (pol : Pol) : α :=
  let b := invSq n
  let s2 := sqVec s
  let B := fresnelB s2 b
  let C := fresnelC s2 b
  finishIndex (pickInvSq (quadRoots (1.0 : α) B C) pol (some ((0.5 : α) * B)))

/-- FAITHFUL `CrystalSetup::index_along` (after the D2 repair) with the principal indices
`n = crystal.get_indices(λ, T)` passed in. -/
def indexAlong (n : Vec3 α) (θ φ : α) (dir : Vec3 α) (pol : Pol) : α :=
  indexFromFrame n (toCrystalFrame θ φ dir) pol

/-- `index_along` of the pinned tree: `Roots::No` ⇒ `return 0` -/
def indexAlongPinned (n : Vec3 α) (θ φ : α) (dir : Vec3 α) (pol : Pol) : α :=
  let b := invSq n
  let s2 := sqVec (toCrystalFrame θ φ dir)
  finishIndex (pickInvSq (quadRoots (1.0 : α) (fresnelB s2 b) (fresnelC s2 b)) pol none)

/-- SPEC: `1/n² = (B ∓ √(B² − 4C))/2`, smaller value (slow, larger index) for `ordinary` -/
def specInvSq (B C : α) (pol : Pol) : α :=
  match pol with
  | .ordinary => (B - Transc.sqrt (B * B - (4.0 : α) * C)) / (2.0 : α)
  | .extraordinary => (B + Transc.sqrt (B * B - (4.0 : α) * C)) / (2.0 : α)

/-- the spec form evaluated robustly in floating point: the discriminant (never negative over ℝ)
is clamped at 0 before the square root, so that the Float run yields the coincident root instead of
NaN next to an optic axis.  Equal to `specInvSq` over ℝ (`specInvSqClamped_eq`). -/
def specInvSqClamped (B C : α) (pol : Pol) : α :=
  let disc := B * B - (4.0 : α) * C
  let disc := if disc < (0.0 : α) then (0.0 : α) else disc
  match pol with
  | .ordinary => (B - Transc.sqrt disc) / (2.0 : α)
  | .extraordinary => (B + Transc.sqrt disc) / (2.0 : α)

def indexAlongSpecClamped (n : Vec3 α) (θ φ : α) (dir : Vec3 α) (pol : Pol) : α :=
  let b := invSq n
  let s2 := sqVec (toCrystalFrame θ φ dir)
  (1.0 : α) / Transc.sqrt (specInvSqClamped (fresnelB s2 b) (fresnelC s2 b) pol)

def indexFromFrameSpec (n : Vec3 α) (s : Vec3 α) (pol : Pol) : α :=
  let b := invSq n
  let s2 := sqVec s
  (1.0 : α) / Transc.sqrt (specInvSq (fresnelB s2 b) (fresnelC s2 b) pol)

def indexAlongSpec (n : Vec3 α) (θ φ : α) (dir : Vec3 α) (pol : Pol) : α :=
  indexFromFrameSpec n (toCrystalFrame θ φ dir) pol

/-- `f64::is_finite` -/
def isFinite (x : α) : Bool := (x - x) == (0.0 : α)

/-- `f64::EPSILON.powf(1./3.)` (glibc `pow`), the relative step of `gradient_at` -/
def cbrtEps : α := (6.055454452393343e-6 : α)

/-- `math::derivative_at` (= `gradient_at` in one variable): central difference with
`h = ε^{1/3}` at 0, `ε^{1/3}·|x|` elsewhere; both `assert!`s are modelled. -/
def derivativeAt (f : α → α) (x : α) : Outcome α :=
  let h := if x == (0.0 : α) then (cbrtEps : α) else cbrtEps * Transc.abs x
  if !isFinite h then .panic "Derivative 'h' is infinite!"
  else
    let forward := f (x + h)
    let backward := f (x - h)
    let d := (0.5 : α) * (forward - backward) / h
    if !isFinite d then .panic "Derivative is infinite!" else .ok d

/-- `Beam::walkoff_angle` with the principal indices passed in: `atan(−n′/n)`, `n′` the coded
central difference of `θ_c ↦ index_along` over the crystal angle. -/
def walkoff (n : Vec3 α) (θ φ : α) (dir : Vec3 α) (pol : Pol) : Outcome α :=
  (derivativeAt (fun t => indexAlong n t φ dir pol) θ).map fun d =>
    Transc.atan (-d / indexAlong n θ φ dir pol)

/-- direction-dependent index of a uniaxial crystal at angle `θ` from the optic axis:
`1/n² = cos²θ/n_o² + sin²θ/n_e²` -/
def uniaxialIndex (no ne θ : α) : α :=
  (1.0 : α) / Transc.sqrt (Transc.cos θ * Transc.cos θ / (no * no) + Transc.sin θ * Transc.sin θ / (ne * ne))

/-- exact walk-off of the direction-dependent polarisation in a uniaxial crystal:
`atan(½·n(θ)²·(1/n_e² − 1/n_o²)·sin 2θ)` -/
def walkoffExact (no ne θ : α) : α :=
  let nθ := uniaxialIndex no ne θ
  Transc.atan ((0.5 : α) * (nθ * nθ) * ((1.0 : α) / (ne * ne) - (1.0 : α) / (no * no)) * Transc.sin ((2.0 : α) * θ))

/-- `CrystalSetup::optimal_waist_position` : `−0.5·L / index_along(ẑ)` -/
def optimalWaistPosition (n : Vec3 α) (θ φ : α) (len : α) (pol : Pol) : α :=
  (-(0.5 : α)) * len / indexAlong n θ φ ⟨(0.0 : α), (0.0 : α), (1.0 : α)⟩ pol

end
end Spdc.Index
