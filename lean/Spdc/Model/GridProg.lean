import Spdc.Model.Grid
/-!
# Positional access on the grid iterators: programs of `next` / `next_back` / `nth` / `nth_back` / `len`

`Iterator1D` and `Iterator2D` (`src/utils.rs`) do not override `Iterator::nth` or
`DoubleEndedIterator::nth_back`; they inherit std's defaults, `advance_by(k).ok()?; next()`, where
`advance_by(k)` calls `next` `k` times and stops at the first `None`.  That is what is modelled here
(branch for branch), so that `skip`, `step_by`, `take(..).rev()` … — all of which std routes through
`nth` / `nth_back` / `len` — are tied to the state machines of `Model/Grid.lean`.

Core Lean only.
-/
namespace Spdc.Grid

section scalar
variable {α : Type} [Add α] [Sub α] [Mul α] [Div α] [NatCast α] [OfScientific α]

/-- std's default `advance_by(k)` on `Iterator1D`: `k` × `next`, stopping at the first `None`;
the flag says whether all `k` steps were taken -/
def Iter1.advance (it : Iter1 α) : Nat → Iter1 α × Bool
  | 0 => (it, true)
  | k + 1 =>
    match it.next with
    | (none, it') => (it', false)
    | (some _, it') => it'.advance k

/-- std's default `advance_back_by(k)` -/
def Iter1.advanceBack (it : Iter1 α) : Nat → Iter1 α × Bool
  | 0 => (it, true)
  | k + 1 =>
    match it.nextBack with
    | (none, it') => (it', false)
    | (some _, it') => it'.advanceBack k

/-- `Iterator::nth(k)` (std default) -/
def Iter1.nth (it : Iter1 α) (k : Nat) : Option α × Iter1 α :=
  match it.advance k with
  | (it', true) => it'.next
  | (it', false) => (none, it')

/-- `DoubleEndedIterator::nth_back(k)` (std default) -/
def Iter1.nthBack (it : Iter1 α) (k : Nat) : Option α × Iter1 α :=
  match it.advanceBack k with
  | (it', true) => it'.nextBack
  | (it', false) => (none, it')

def Iter2.advance (it : Iter2 α) : Nat → Iter2 α × Bool
  | 0 => (it, true)
  | k + 1 =>
    match it.next with
    | (none, it') => (it', false)
    | (some _, it') => it'.advance k

def Iter2.advanceBack (it : Iter2 α) : Nat → Iter2 α × Bool
  | 0 => (it, true)
  | k + 1 =>
    match it.nextBack with
    | (none, it') => (it', false)
    | (some _, it') => it'.advanceBack k

def Iter2.nth (it : Iter2 α) (k : Nat) : Option (α × α) × Iter2 α :=
  match it.advance k with
  | (it', true) => it'.next
  | (it', false) => (none, it')

def Iter2.nthBack (it : Iter2 α) (k : Nat) : Option (α × α) × Iter2 α :=
  match it.advanceBack k with
  | (it', true) => it'.nextBack
  | (it', false) => (none, it')

end scalar

/-- one call of a program on an iterator -/
inductive IterOp where
  | next
  | nextBack
  | nth (k : Nat)
  | nthBack (k : Nat)
  | len
deriving Repr, DecidableEq

/-- what a call returns: an item (or `None`), or a length -/
inductive IterOut (β : Type) where
  | item (v : Option β)
  | len (n : Nat)

section scalar
variable {α : Type} [Add α] [Sub α] [Mul α] [Div α] [NatCast α] [OfScientific α]

def Iter1.prog (it : Iter1 α) : List IterOp → List (IterOut α)
  | [] => []
  | .next :: r => let (v, it') := it.next; .item v :: Iter1.prog it' r
  | .nextBack :: r => let (v, it') := it.nextBack; .item v :: Iter1.prog it' r
  | .nth k :: r => let (v, it') := it.nth k; .item v :: Iter1.prog it' r
  | .nthBack k :: r => let (v, it') := it.nthBack k; .item v :: Iter1.prog it' r
  | .len :: r => .len it.len :: Iter1.prog it r

def Iter2.prog (it : Iter2 α) : List IterOp → List (IterOut (α × α))
  | [] => []
  | .next :: r => let (v, it') := it.next; .item v :: Iter2.prog it' r
  | .nextBack :: r => let (v, it') := it.nextBack; .item v :: Iter2.prog it' r
  | .nth k :: r => let (v, it') := it.nth k; .item v :: Iter2.prog it' r
  | .nthBack k :: r => let (v, it') := it.nthBack k; .item v :: Iter2.prog it' r
  | .len :: r => .len it.len :: Iter2.prog it r

end scalar

end Spdc.Grid
