import Spdc.Model.Num
import Spdc.Model.Cx
/-!
# M2 — the crystal layer (mirrors `src/crystal/*.rs`, `src/crystal/sellmeier/**`)

Core Lean only.  Polymorphic in the scalar: the `Float` instance is what the Rust build computes
(same literals, same operation order), the `ℝ` instance is what the theorems of C01 are about, the
`Rat` instance of the `nSq*` part is evaluated inside kernel-checked certificates.

Conventions of the code that are mirrored here:
* `wavelength / (MICRO * M)` is a *division* by `1e-6` (wavelength in metres → micrometres);
* `(..).powi(2)` is `y * y`;
* `from_celsius_to_kelvin(20.0)` is `20.0 + 273.15`, `from_kelvin_to_celsius(k)` is `k - 273.15`;
  temperatures enter in kelvin;
* `a + b - c` is `(a + b) - c`, `b * x / d` is `(b * x) / d`.

The coefficient tables below *are* the reference for "the published equation": they were cross-read
against the formulas quoted in the crate's doc comments (see `notes/C01.md` for the two places where
a doc comment and the code differ).
-/
namespace Spdc.Crystals

/-- `CrystalType` without the `Expr` variant, in declaration order -/
inductive Crystal where
  | BBO_1 | KTP | BiBO_1 | LiNbO3_1 | LiNb_MgO | KDP_1 | AgGaSe2_1 | AgGaSe2_2
  | LiIO3_2 | LiIO3_1 | AgGaS2_1
deriving DecidableEq, Repr

/-- the order of `CrystalType::get_all_meta()` -/
def Crystal.all : List Crystal :=
  [.BBO_1, .KTP, .BiBO_1, .LiNbO3_1, .LiNb_MgO, .KDP_1, .AgGaSe2_1, .AgGaSe2_2,
   .LiIO3_2, .LiIO3_1, .AgGaS2_1]

/-- `OpticAxisType` -/
inductive AxisType where
  | PositiveUniaxial | NegativeUniaxial | PositiveBiaxial | NegativeBiaxial
deriving DecidableEq, Repr

def AxisType.toString : AxisType → String
  | .PositiveUniaxial => "PositiveUniaxial"
  | .NegativeUniaxial => "NegativeUniaxial"
  | .PositiveBiaxial => "PositiveBiaxial"
  | .NegativeBiaxial => "NegativeBiaxial"

def AxisType.isUniaxial : AxisType → Bool
  | .PositiveUniaxial | .NegativeUniaxial => true
  | _ => false

/-- `CrystalMeta`; `range` is `transmission_range` (metres) -/
structure Meta (α : Type) where
  id : String
  name : String
  referenceUrl : String
  axisType : AxisType
  pointGroup : String
  range : Option (α × α)
  tempKnown : Bool

/-- variant name of the enum (`{:?}`); the id strings of the META constants are separate data -/
def Crystal.variant : Crystal → String
  | .BBO_1 => "BBO_1" | .KTP => "KTP" | .BiBO_1 => "BiBO_1" | .LiNbO3_1 => "LiNbO3_1"
  | .LiNb_MgO => "LiNb_MgO" | .KDP_1 => "KDP_1" | .AgGaSe2_1 => "AgGaSe2_1"
  | .AgGaSe2_2 => "AgGaSe2_2" | .LiIO3_2 => "LiIO3_2" | .LiIO3_1 => "LiIO3_1"
  | .AgGaS2_1 => "AgGaS2_1"

/-- the `id` field of each crystal's `META` constant (data separate from the variant name) -/
def Crystal.id : Crystal → String
  | .BBO_1 => "BBO_1" | .KTP => "KTP" | .BiBO_1 => "BiBO_1" | .LiNbO3_1 => "LiNbO3_1"
  | .LiNb_MgO => "LiNb_MgO" | .KDP_1 => "KDP_1" | .AgGaSe2_1 => "AgGaSe2_1"
  | .AgGaSe2_2 => "AgGaSe2_2" | .LiIO3_2 => "LiIO3_2" | .LiIO3_1 => "LiIO3_1"
  | .AgGaS2_1 => "AgGaS2_1"

def Crystal.ofVariant (s : String) : Option Crystal :=
  Crystal.all.find? (fun c => c.variant == s)

/-- `CrystalType::from_string` restricted to its eleven literal arms; `none` = the string is handed
to the expression parser (result `Ok(Expr(..))` or `Err`) -/
def fromString (s : String) : Option Crystal :=
  match s with
  | "BBO_1" => some .BBO_1
  | "KTP" => some .KTP
  | "BiBO_1" => some .BiBO_1
  | "LiIO3_1" => some .LiIO3_1
  | "LiIO3_2" => some .LiIO3_2
  | "LiNbO3_1" => some .LiNbO3_1
  | "LiNb_MgO" => some .LiNb_MgO
  | "KDP_1" => some .KDP_1
  | "AgGaS2_1" => some .AgGaS2_1
  | "AgGaSe2_1" => some .AgGaSe2_1
  | "AgGaSe2_2" => some .AgGaSe2_2
  | _ => none

section scalar
variable {α : Type} [Add α] [Sub α] [Mul α] [Div α] [Neg α] [OfScientific α]

/-- lower end of the declared transmission window (m).  `LiNbO3_1` mirrors the repaired value
(`400e-9`; the pinned tree had `0.4e-9`, defect D1). -/
def windowLo : Crystal → α
  | .BBO_1 => 189e-9
  | .KTP => 350e-9
  | .BiBO_1 => 286e-9
  | .LiNbO3_1 => 400e-9
  | .LiNb_MgO => 440e-9
  | .KDP_1 => 200e-9
  | .AgGaSe2_1 => 1000e-9
  | .AgGaSe2_2 => 1000e-9
  | .LiIO3_2 => 300e-9
  | .LiIO3_1 => 300e-9
  | .AgGaS2_1 => 500e-9

/-- upper end of the declared transmission window (m) -/
def windowHi : Crystal → α
  | .BBO_1 => 3500e-9
  | .KTP => 3500e-9
  | .BiBO_1 => 2500e-9
  | .LiNbO3_1 => 3400e-9
  | .LiNb_MgO => 4000e-9
  | .KDP_1 => 1500e-9
  | .AgGaSe2_1 => 13500e-9
  | .AgGaSe2_2 => 13500e-9
  | .LiIO3_2 => 5000e-9
  | .LiIO3_1 => 5000e-9
  | .AgGaS2_1 => 13000e-9

def axisType : Crystal → AxisType
  | .KTP | .BiBO_1 => .PositiveBiaxial
  | _ => .NegativeUniaxial

/-- `temperature_dependence_known` -/
def tempKnown : Crystal → Bool
  | .BiBO_1 | .KDP_1 | .LiIO3_2 | .LiIO3_1 => false
  | _ => true

/-- `CrystalType::get_meta` -/
def getMeta (c : Crystal) : Meta α :=
  let r : Option (α × α) := some (windowLo c, windowHi c)
  match c with
  | .BBO_1 => ⟨c.id, "BBO ref 1", "http://www.newlightphotonics.com/v1/bbo-properties.html",
      axisType c, "HM_3m", r, tempKnown c⟩
  | .KTP => ⟨c.id, "KTP ref 1", "http://dx.doi.org/10.1063/1.1668320",
      axisType c, "HM_mm2", r, tempKnown c⟩
  | .BiBO_1 => ⟨c.id, "BiBO", "http://www.newlightphotonics.com/v1/bibo-properties.html",
      axisType c, "HM_2", r, tempKnown c⟩
  | .LiNbO3_1 => ⟨c.id, "LiNbO3 1", "http://www.newlightphotonics.com/v1/LN-crystal.html",
      axisType c, "HM_3m", r, tempKnown c⟩
  | .LiNb_MgO => ⟨c.id, "LiNbO3 (5% MgO doped)",
      "https://link.springer.com/article/10.1007/s00340-008-2998-2",
      axisType c, "HM_3m", r, tempKnown c⟩
  | .KDP_1 => ⟨c.id, "KDP ref 1", "http://www.newlightphotonics.com/v1/KDP-crystal.html",
      axisType c, "HM_i42m", r, tempKnown c⟩
  | .AgGaSe2_1 => ⟨c.id, "AgGaSe2 Ref 1",
      "https://www.sciencedirect.com/science/article/pii/0030401873903167",
      axisType c, "HM_3m", r, tempKnown c⟩
  | .AgGaSe2_2 => ⟨c.id, "AgGaSe2 Ref 2",
      "https://www.osapublishing.org/ao/abstract.cfm?uri=ao-15-2-305_1",
      axisType c, "HM_3m", r, tempKnown c⟩
  | .LiIO3_2 => ⟨c.id, "LiIO3 ref 2", "http://www.newlightphotonics.com/v1/bbo-properties.html",
      axisType c, "HM_622", r, tempKnown c⟩
  | .LiIO3_1 => ⟨c.id, "LiIO3 ref 1", "https://aip.scitation.org/doi/abs/10.1063/1.1654145",
      axisType c, "HM_622", r, tempKnown c⟩
  | .AgGaS2_1 => ⟨c.id, "AgGaS2 ref 1", "http://www.redoptronics.com/AgGaS2-AgGaSe2.html",
      axisType c, "HM_4", r, tempKnown c⟩

/-- `CrystalType::get_all_meta` -/
def allMeta : List (Meta α) := Crystal.all.map getMeta

/-- `Display for CrystalType` = `get_meta().id` -/
def toString (c : Crystal) : String := c.id

/-! ## Sellmeier shapes (operation order as coded) -/

/-- `y.powi(2)` -/
def sqr (y : α) : α := y * y

/-- `A + P / (x - C) - D * x` (BBO, BiBO, LiNbO3) -/
def sellA (A P C D x : α) : α := A + P / (x - C) - D * x

/-- `A + B * x / (x - C) - D * x` (KTP) -/
def sellB (A B C D x : α) : α := A + B * x / (x - C) - D * x

/-- `A + B * x / (x - C1) + P / (x - C2)` (KDP) -/
def sellK (A B C1 P C2 x : α) : α := A + B * x / (x - C1) + P / (x - C2)

/-- `A + P / (x - C)` (LiIO3 ref 2) -/
def sellP (A P C x : α) : α := A + P / (x - C)

/-- `A + B1 / (1 - (c1/l)²) + B2 / (1 - (c2/l)²)` in the wavelength `l` (µm) itself (AgGaSe2) -/
def sellInv (A B1 c1 B2 c2 l : α) : α :=
  A + B1 / ((1.0 : α) - sqr (c1 / l)) + B2 / ((1.0 : α) - sqr (c2 / l))

/-- one component of `SellmeierStandard::get_indices` before the square root:
`a + (b1/(x-c1) + b2/(x-c2) + b3/(x-c3)) * x` -/
def sellStd (a b1 b2 b3 c1 c2 c3 x : α) : α :=
  a + (b1 / (x - c1) + b2 / (x - c2) + b3 / (x - c3)) * x

/-- Gayer et al. form (LiNb_MgO):
`a1 + b1 F + (a2 + b2 F)/(x - (a3 + b3 F)²) + (a4 + b4 F)/(x - a5²) - a6 x` -/
def sellG (a1 a2 a3 a4 a5 a6 b1 b2 b3 b4 F x : α) : α :=
  a1 + (b1 * F) + (a2 + b2 * F) / (x - sqr (a3 + b3 * F)) + (a4 + b4 * F) / (x - sqr a5) - a6 * x

/-- `wavelength / (MICRO * M)` : metres → micrometres (a division by the double `1e-6`) -/
def microns (lam : α) : α := lam / (1e-6 : α)

/-- `*((temperature - from_celsius_to_kelvin(20.0)) / K)` -/
def tempOffset (T : α) : α := T - ((20.0 : α) + (273.15 : α))

/-- `from_kelvin_to_celsius` -/
def celsius (T : α) : α := T - (273.15 : α)

/-- LiNb_MgO: `f = (T_c - To) * (T_c + To + 2. * 273.16)`, `To = 24.5` -/
def gayerF (T : α) : α :=
  let tc := celsius T
  (tc - (24.5 : α)) * (tc + (24.5 : α) + (2.0 : α) * (273.16 : α))

/-! per-axis squared indices, as functions of `l` (µm) -/

def bboNoSq (l : α) : α := sellA 2.7359 0.01878 0.01822 0.01354 (sqr l)
def bboNeSq (l : α) : α := sellA 2.3753 0.01224 0.01667 0.01516 (sqr l)

def ktpNxSq (l : α) : α := sellB 2.10468 0.89342 0.04438 0.01036 (sqr l)
def ktpNySqLo (l : α) : α := sellB 2.14559 0.87629 0.0485 0.01173 (sqr l)
def ktpNySqHi (l : α) : α := sellB 2.0993 0.922683 0.0467695 0.0138408 (sqr l)
def ktpNzSq (l : α) : α := sellB 1.9446 1.3617 0.047 0.01491 (sqr l)

def biboNxSq (l : α) : α := sellA 3.0740 0.0323 0.0316 0.01337 (sqr l)
def biboNySq (l : α) : α := sellA 3.1685 0.0373 0.0346 0.01750 (sqr l)
def biboNzSq (l : α) : α := sellA 3.6545 0.0511 0.0371 0.0226 (sqr l)

def lnNoSq (l : α) : α := sellA 4.9048 0.11768 0.04750 0.027169 (sqr l)
def lnNeSq (l : α) : α := sellA 4.5820 0.099169 0.044432 0.021950 (sqr l)

def mgoNeSq (F l : α) : α :=
  sellG 5.756 0.0983 0.2020 189.32 12.52 1.32e-2 2.86e-6 4.7e-8 6.113e-8 1.516e-4 F (sqr l)
def mgoNoSq (F l : α) : α :=
  sellG 5.653 0.1185 0.2091 89.61 10.85 1.97e-2 7.941e-7 3.134e-8 (-4.641e-9) (-2.188e-6) F (sqr l)

def kdpNoSq (l : α) : α := sellK 2.259276 13.005522 400.0 0.01008956 0.012942625 (sqr l)
def kdpNeSq (l : α) : α := sellK 2.132668 3.2279924 400.0 0.008637494 0.012281043 (sqr l)

def ags1NoSq (l : α) : α := sellInv 3.9362 2.9113 0.38821 1.7954 40.0 l
def ags1NeSq (l : α) : α := sellInv 3.3132 3.3616 0.38201 1.7677 40.0 l
def ags2NoSq (l : α) : α := sellInv 4.6453 2.2057 0.43347 1.8377 40.0 l
def ags2NeSq (l : α) : α := sellInv 5.2912 1.3970 0.53339 1.9282 40.0 l

def lio2NoSq (l : α) : α := sellP 3.4095 0.047664 0.033991 (sqr l)
def lio2NeSq (l : α) : α := sellP 2.9163 0.034514 0.031034 (sqr l)

def lio1NoSq (l : α) : α := sellStd 2.03132 1.37623 1.06745 0.0 0.0350832 169.0 0.0 (l * l)
def lio1NeSq (l : α) : α := sellStd 1.83086 1.08807 0.554582 0.0 0.031381 158.76 0.0 (l * l)

def agsNoSq (l : α) : α := sellStd 3.628 2.1686 2.1753 0.0 0.1003 950.0 0.0 (l * l)
def agsNeSq (l : α) : α := sellStd 4.0172 1.5274 2.1699 0.0 0.131 950.0 0.0 (l * l)

variable [LT α] [DecidableLT α]

/-- KTP `n_y²`: the formula switches at `l < 1.2` µm -/
def ktpNySq (l : α) : α := if l < (1.2 : α) then ktpNySqLo l else ktpNySqHi l

/-- squared principal indices (before the square root and the thermo-optic term) at wavelength
`l` in µm and temperature `T` in K (`T` only matters for LiNb_MgO) -/
def nSq (c : Crystal) (l T : α) : Vec3 α :=
  match c with
  | .BBO_1 => ⟨bboNoSq l, bboNoSq l, bboNeSq l⟩
  | .KTP => ⟨ktpNxSq l, ktpNySq l, ktpNzSq l⟩
  | .BiBO_1 => ⟨biboNxSq l, biboNySq l, biboNzSq l⟩
  | .LiNbO3_1 => ⟨lnNoSq l, lnNoSq l, lnNeSq l⟩
  | .LiNb_MgO => ⟨mgoNoSq (gayerF T) l, mgoNoSq (gayerF T) l, mgoNeSq (gayerF T) l⟩
  | .KDP_1 => ⟨kdpNoSq l, kdpNoSq l, kdpNeSq l⟩
  | .AgGaSe2_1 => ⟨ags1NoSq l, ags1NoSq l, ags1NeSq l⟩
  | .AgGaSe2_2 => ⟨ags2NoSq l, ags2NoSq l, ags2NeSq l⟩
  | .LiIO3_2 => ⟨lio2NoSq l, lio2NoSq l, lio2NeSq l⟩
  | .LiIO3_1 => ⟨lio1NoSq l, lio1NoSq l, lio1NeSq l⟩
  | .AgGaS2_1 => ⟨agsNoSq l, agsNoSq l, agsNeSq l⟩

/-- linear thermo-optic coefficients `dn/dT` about 20 °C; `none` = no thermal term in the code
(BiBO, KDP, both LiIO3; LiNb_MgO has its temperature law inside `nSq`) -/
def dn : Crystal → Option (Vec3 α)
  | .BBO_1 => some ⟨-9.3e-6, -9.3e-6, -16.6e-6⟩
  | .KTP => some ⟨1.1e-5, 1.3e-5, 1.6e-5⟩
  | .LiNbO3_1 => some ⟨-0.874e-6, -0.874e-6, 39.073e-6⟩
  | .AgGaSe2_1 => some ⟨15e-5, 15e-5, 15e-5⟩
  | .AgGaSe2_2 => some ⟨15e-5, 15e-5, 15e-5⟩
  | .AgGaS2_1 => some ⟨15.4e-5, 15.4e-5, 15.5e-5⟩
  | _ => none

variable [Transc α]

/-- `CrystalType::get_indices(wavelength [m], temperature [K])` for the built-in crystals -/
def indices (c : Crystal) (lam T : α) : Vec3 α :=
  let s := nSq c (microns lam) T
  let n : Vec3 α := ⟨Transc.sqrt s.x, Transc.sqrt s.y, Transc.sqrt s.z⟩
  match dn c with
  | none => n
  | some d =>
    let f := tempOffset T
    ⟨n.x + f * d.x, n.y + f * d.y, n.z + f * d.z⟩

end scalar

end Spdc.Crystals
