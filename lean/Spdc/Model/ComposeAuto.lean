import Spdc.Model.Compose
import Spdc.Model.Config
import Spdc.Model.Auto
import Spdc.Model.NM1D
/-!
# The composed model, part 2: the "auto" routines computed INSIDE the model, `fromConfig`, `asOptimum`

Core Lean only.  The configuration layer (`Spdc/Model/Config.lean`, `tryAsSpdc : Config → Ext → …`)
and the optimum layer take their numeric sub-routines as a parameter bundle `Ext`, and the layer
correspondence feeds that bundle with the values the REAL crate returned.  With the composed model
every one of those routines can be computed from primitives:

| `Cfg.Ext` field | Rust | here |
|---|---|---|
| `snell` | `Beam::calc_internal_theta_from_external` (Nelder–Mead on `|sin θe − n(θ) sin θ|`) | `snellInternalB` = `Beam.snellInternal` (over `NM1D.run`) with the composed principal indices |
| `idler` | `IdlerBeam::try_new_optimum` | `optimumIdlerB` = `DeltaK.optimumIdler` with the composed indices |
| `signNeg` | `PeriodicPoling::compute_sign` | `computeSignB` = `Auto.computeSign` of the composed unpoled `Δk_z` |
| `period` | `optimum_poling_period` (incl. "search ended on the bound ⇒ Err") | `optimumPolingPeriodB` = `Auto.optimumPolingPeriod` with cost `|Δk_z|` of the composed `deltaK` with the trial period and the matching optimum idler |
| `theta` | `CrystalSetup::optimum_theta` | `optimumThetaB` = `Auto.optimumTheta` with cost `|Δk_z(θ)|`: crystal angle substituted, the signal re-aimed at its external angle (nested Snell inverse), optimum idler recomputed, as coded |
| `waistPos` | `CrystalSetup::optimal_waist_position` | `Index.optimalWaistPosition` with the composed principal indices |

`composedExt` is that bundle; `fromConfig cfg = (tryAsSpdc cfg composedExt).map (toCompose cfg)`
turns a configuration (what one writes into the JSON) into a primitive `Compose.Setup` with NO value
taken from the real crate, and `asOptimum` is `SPDC::try_as_optimum` on primitive setups.

A failure inside a cost closure (the `unwrap()` of `try_new_optimum`, the `assert!` of `k_eff`, a
panic of the nested simplex) is a Rust panic that unwinds through argmin; here it is the cost `NaN`,
which makes `NM1D.run` report its own panic at the next comparison that involves it.  Inside the
guards and bounds the code applies (`λs > λp`, period ≥ `f64::MIN_POSITIVE`) none of them can occur.
-/
namespace Spdc.Compose
open Spdc

section
variable {α : Type} [Add α] [Sub α] [Mul α] [Div α] [Neg α] [OfScientific α] [LT α]
  [DecidableLT α] [LE α] [DecidableLE α] [BEq α] [NatCast α] [Transc α] [Units.FMod α]
  [Poling.AsUsize α]

/-! ### the composed routines on explicit beams (`S` supplies crystal, angles, temperature, length,
PM type, counter-propagation only) -/

/-- what `IdlerBeam::try_new_optimum(signal, pump, crystal_setup, pp)` reads -/
def idlerInB (S : Setup α) (s p : Beam.Beam α) (pp : DeltaK.Poling α) : DeltaK.IdlerIn α :=
  { pm := pmDK S.pm
    cp := S.counterProp
    ls := Beam.vacuumWavelength s
    lp := Beam.vacuumWavelength p
    ns := refractiveIndex S s s.frequency
    np := refractiveIndex S p p.frequency
    thetaS := s.theta
    phiS := s.phi
    pp := pp
    wx := s.waist.x
    wy := s.waist.y }

/-- the `Beam` built by `Beam::new` at the end of `try_new_optimum` (signal's waist) -/
def beamOfIdlerOutB (o : DeltaK.IdlerOut α) : Beam.Beam α :=
  { waist := ⟨o.wx, o.wy⟩
    frequency := o.omega
    polarization := polOfDK o.pol
    theta := o.theta
    phi := o.phi
    direction := Beam.directionFromPolar o.phi o.theta }

/-- `IdlerBeam::try_new_optimum` -/
def optimumIdlerB (S : Setup α) (s p : Beam.Beam α) (pp : DeltaK.Poling α) : Outcome (Beam.Beam α) :=
  (DeltaK.optimumIdler (idlerInB S s p pp)).map beamOfIdlerOutB

/-- `delta_k(ω_s, ω_i, signal, idler, pump, crystal_setup, pp)` -/
def deltaKB (S : Setup α) (s i p : Beam.Beam α) (ωs ωi : α) (pp : DeltaK.Poling α) : Outcome (Vec3 α) :=
  DeltaK.deltaK s.direction i.direction p.direction
    (refractiveIndex S s ωs) (refractiveIndex S i ωi) (refractiveIndex S p p.frequency)
    ωs ωi p.frequency pp

/-- the closure `delta_kz` of `optimum_poling_period` / `compute_sign` / `optimum_theta`: the z
component of the mismatch at the centre frequencies with the optimum idler of the given poling -/
def dkzOptimum (S : Setup α) (s p : Beam.Beam α) (pp : DeltaK.Poling α) : Outcome α :=
  (optimumIdlerB S s p pp).bind fun i =>
    (deltaKB S s i p s.frequency i.frequency pp).map fun v => v.z

/-- an `Outcome` as a cost value: failure ↦ NaN -/
def costOf (x : Outcome α) : NM1D.Cost α :=
  match x with
  | .ok v => Beam.toCost v
  | _ => .nan

/-- `Beam::calc_internal_theta_from_external(beam, external, crystal_setup)` -/
def snellInternalB (S : Setup α) (b : Beam.Beam α) (external : α) : Outcome α :=
  Beam.snellInternal (principal S (Beam.vacuumWavelength b)) S.cTheta S.cPhi b.phi b.polarization external

/-- `Beam::set_theta_external(external, crystal_setup)` -/
def setThetaExternalB (S : Setup α) (b : Beam.Beam α) (external : α) : Outcome (Beam.Beam α) :=
  (snellInternalB S b (Transc.abs external)).map fun th => Beam.setAngles b b.phi th

/-- `PeriodicPoling::compute_sign`; `true` = NEGATIVE -/
def computeSignB (S : Setup α) (s p : Beam.Beam α) : Outcome Bool :=
  (dkzOptimum S s p .off).map Auto.computeSign

/-- `f64::INFINITY` -/
def infinity : α := (1.0 : α) / (0.0 : α)

/-- `Result<PolingPeriod, _>` value as the `f64` it carries -/
def periodValue : Auto.Period α → α
  | .infinite => infinity
  | .finite v => v

/-- `optimum_poling_period(signal, pump, crystal_setup)`: signed period in metres (`+∞` when the
unpoled mismatch is exactly zero), `Err` when the search ends on the crystal-length bound -/
def optimumPolingPeriodB (S : Setup α) (s p : Beam.Beam α) : Outcome α :=
  (dkzOptimum S s p .off).bind fun z =>
    (Auto.optimumPolingPeriod z
      (fun neg per => costOf ((dkzOptimum S s p (.on per neg)).map Transc.abs)) S.L).map periodValue

/-- the cost closure of `CrystalSetup::optimum_theta`: crystal at angle `θ`, signal re-aimed at the
external angle it had, optimum idler (no poling), `|Δk_z|` -/
def thetaCost (S : Setup α) (s p : Beam.Beam α) (θe : α) (θ : α) : NM1D.Cost α :=
  let S' : Setup α := { S with cTheta := θ }
  costOf ((setThetaExternalB S' s θe).bind fun s' =>
    (dkzOptimum S' s' p .off).map Transc.abs)

/-- `CrystalSetup::optimum_theta(signal, pump)` -/
def optimumThetaB (S : Setup α) (s p : Beam.Beam α) : Outcome α :=
  Auto.optimumTheta (thetaCost S s p (thetaExternal S s))

/-- `CrystalSetup::optimal_waist_position(λ, pol)` -/
def optimalWaistPositionAt (S : Setup α) (lam : α) (pol : Index.Pol) : α :=
  Index.optimalWaistPosition (principal S lam) S.cTheta S.cPhi S.L pol

/-! ### adapters to the configuration layer's records -/

/-- the built-in crystal with index `k` of `CrystalType::get_all_meta()` -/
def crystalOfKind (k : Nat) : Crystals.Crystal := Crystals.Crystal.all.getD k .BBO_1

/-- a `Cfg.Crystal` as the crystal part of a composed setup (all other fields are placeholders that
the beam-level routines above do not read) -/
def carrier (c : Cfg.Crystal α) : Setup α :=
  { crystal := crystalOfKind c.kind
    cTheta := c.theta
    cPhi := c.phi
    L := c.length
    T := c.temperature
    counterProp := c.counterProp
    pm := c.pmType
    lamP := (0.0 : α), wpx := (0.0 : α), wpy := (0.0 : α), bandwidth := (0.0 : α), power := (0.0 : α)
    threshold := (0.0 : α), deff := (0.0 : α)
    sig := ⟨(0.0 : α), (0.0 : α), (0.0 : α), (0.0 : α), (0.0 : α), (0.0 : α)⟩
    idl := ⟨(0.0 : α), (0.0 : α), (0.0 : α), (0.0 : α), (0.0 : α), (0.0 : α)⟩
    idlerAuto := false
    poling := .off }

/-- `Cfg.Beam` → `Beam.Beam` (the cached direction is the one `update_direction` computed) -/
def beamOfCfg (b : Cfg.Beam α) : Beam.Beam α :=
  { waist := ⟨b.waistX, b.waistY⟩
    frequency := b.freq
    polarization := polIndex b.pol
    theta := b.theta
    phi := b.phi
    direction := Beam.directionFromPolar b.phi b.theta }

/-- `Beam.Beam` → `Cfg.Beam` -/
def cfgOfBeam (b : Beam.Beam α) : Cfg.Beam α :=
  { pol := polPM b.polarization, phi := b.phi, theta := b.theta, freq := b.frequency
    waistX := b.waist.x, waistY := b.waist.y }

/-- `Cfg.Apod` → `Poling.Apod` (same constructors) -/
def apodOfCfg : Cfg.Apod α → Poling.Apod α
  | .off => .off
  | .gaussian x => .gaussian x
  | .bartlett x => .bartlett x
  | .blackman x => .blackman x
  | .connes x => .connes x
  | .cosine x => .cosine x
  | .hamming x => .hamming x
  | .welch x => .welch x
  | .interpolate l => .interpolate l

/-- `Cfg.Poling` → `DeltaK.Poling` -/
def ppDKofCfg : Cfg.Poling α → DeltaK.Poling α
  | .off => .off
  | .on period neg _ => .on period neg

/-- the numeric sub-routines of the configuration layer, computed by the composed model.  The three
routines whose Rust unwraps the optimum idler carry the wavelength guard themselves (behind
`Cfg.optimumTheta` etc. it is never reached with `λs ≤ λp`), so that none of them can fail for a
reason the code does not have. -/
def composedExt : Cfg.Ext α :=
  { snell := fun b a c => snellInternalB (carrier c) (beamOfCfg b) a
    signNeg := fun s p c =>
      if Cfg.lsLeLp s p then .err "ls<=lp" else computeSignB (carrier c) (beamOfCfg s) (beamOfCfg p)
    period := fun s p c =>
      if Cfg.lsLeLp s p then .err "ls<=lp"
      else optimumPolingPeriodB (carrier c) (beamOfCfg s) (beamOfCfg p)
    theta := fun c s p =>
      if Cfg.lsLeLp s p then .err "ls<=lp" else optimumThetaB (carrier c) (beamOfCfg s) (beamOfCfg p)
    idler := fun s p c pp =>
      (optimumIdlerB (carrier c) (beamOfCfg s) (beamOfCfg p) (ppDKofCfg pp)).map cfgOfBeam
    waistPos := fun c lam pol => .ok (optimalWaistPositionAt (carrier c) lam (polIndex pol)) }

/-- is the idler of the configuration `"auto"`? -/
def idlerIsAuto (cfg : Cfg.Config α) : Bool :=
  match cfg.idler with
  | .auto => true
  | .param _ => false

/-- the primitive setup of a configuration and the `SPDC` it produced.  Wavelengths are taken from
the configuration (`wavelength_nm · 1e-9`, what `Beam::new` was called with), as is `deff` (in the
code's operation order), angles, crystal angle, poling and waist positions from the produced setup; an `"auto"` idler stays `"auto"`
(`try_new_optimum` gives it the signal's waist, which the produced setup carries). -/
def toCompose (cfg : Cfg.Config α) (s : Cfg.Setup α) : Setup α :=
  { crystal := crystalOfKind s.crystal.kind
    cTheta := s.crystal.theta
    cPhi := s.crystal.phi
    L := s.crystal.length
    T := s.crystal.temperature
    counterProp := s.crystal.counterProp
    pm := s.crystal.pmType
    lamP := cfg.pump.wavelengthNm * Cfg.nano
    wpx := s.pump.waistX
    wpy := s.pump.waistY
    bandwidth := s.pumpBandwidth
    power := s.pumpAveragePower
    threshold := s.pumpSpectrumThreshold
    -- `deff_pm_per_volt * PICO * M / V` in the code's association (`Cfg` folds `PICO / V` first)
    deff := cfg.deffPmPerVolt * (1.0e-12 : α) * (1.0 : α) / (1000.0 : α)
    sig := ⟨cfg.signal.wavelengthNm * Cfg.nano, s.signal.theta, s.signal.phi, s.signal.waistX,
            s.signal.waistY, s.signalWaistPos⟩
    idl := ⟨(match cfg.idler with
              | .param ic => ic.wavelengthNm * Cfg.nano
              | .auto => Cfg.freqToWl s.idler.freq),
            s.idler.theta, s.idler.phi, s.idler.waistX, s.idler.waistY, s.idlerWaistPos⟩
    idlerAuto := idlerIsAuto cfg
    poling := match s.pp with
      | .off => .off
      | .on period neg apod => .on (Cfg.signMul neg period) (apodOfCfg apod) }

/-- `SPDCConfig::try_as_spdc` with every numeric sub-routine computed by the composed model -/
def trySpdc (cfg : Cfg.Config α) : Outcome (Cfg.Setup α) := Cfg.tryAsSpdc cfg composedExt

/-- configuration → primitive composed setup, nothing taken from the real crate -/
def fromConfig (cfg : Cfg.Config α) : Outcome (Setup α) := (trySpdc cfg).map (toCompose cfg)

/-- `SPDC::from_json(cfg).joint_spectrum(Simpson{divs}).jsi(ω_s, ω_i)` -/
def jsiFromConfig (cfg : Cfg.Config α) (divs : Nat) (ωs ωi : α) : Outcome α :=
  (fromConfig cfg).bind fun S => jsi S divs ωs ωi

/-! ### `SPDC::try_as_optimum` on primitive setups -/

/-- the signal spec after the first statement of `try_as_optimum` (`set_angles(0°, 0° | 180°)`) -/
def resetSignalSpec (S : Setup α) : BeamSpec α :=
  let θ : α :=
    if S.counterProp then
      (if (signalBeam S).theta < (90.0 : α) * Cfg.deg then (0.0 : α) * Cfg.deg else (180.0 : α) * Cfg.deg)
    else (0.0 : α) * Cfg.deg
  { S.sig with phi := (0.0 : α) * Cfg.deg, theta := θ }

/-- first statement of `try_as_optimum`: the signal is reset to collinear -/
def optReset (S : Setup α) : Setup α := { S with sig := resetSignalSpec S }

/-- second step: optimum crystal angle (no poling) or optimum poling period (poling on, window
kept).  The `unwrap()` of the optimum idler inside the two optimisers is the panic for `λs ≤ λp`. -/
def optDecide (S1 : Setup α) : Outcome (Setup α) :=
  let s := signalBeam S1
  let p := pumpBeam S1
  match S1.poling with
  | .off =>
    if Beam.vacuumWavelength s ≤ Beam.vacuumWavelength p then .panic "optimum_theta:unwrap"
    else (optimumThetaB S1 s p).map fun θ => { S1 with cTheta := θ }
  | .on _ apod =>
    if Beam.vacuumWavelength s ≤ Beam.vacuumWavelength p then .panic "optimum_poling_period:unwrap"
    else (optimumPolingPeriodB S1 s p).map fun per => { S1 with poling := .on per apod }

/-- last step: optimum idler for the NEW crystal / poling with the idler waist kept, both optimal
waist positions -/
def optFinish (S2 : Setup α) : Outcome (Setup α) :=
  let S3 : Setup α := { S2 with idlerAuto := true }
  (idlerBeam S3).map fun i =>
    { S3 with
      sig := { S3.sig with z0 := optimalWaistPosition S3 (signalBeam S3) }
      idl := { S3.idl with z0 := optimalWaistPosition S3 i } }

/-- `SPDC::try_as_optimum` -/
def asOptimum (S : Setup α) : Outcome (Setup α) := (optDecide (optReset S)).bind optFinish

end
end Spdc.Compose
