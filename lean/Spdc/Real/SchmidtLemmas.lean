import Spdc.Model.Schmidt
import Spdc.Real.Inst
import Mathlib.Analysis.Matrix.Spectrum
import Mathlib.Analysis.Matrix.PosDef
import Mathlib.Algebra.Order.Chebyshev
import Mathlib.Algebra.Order.Star.Real
import Mathlib.Tactic
/-!
# Helper lemmas for C11 (and the purity form of C10)

* bridge from the executable trace-form model (`sumList` over `List.range`) to `Matrix.trace`;
* `tr(M²) ≤ (tr M)² ≤ n·tr(M²)` for `M = AᵀA`;
* `tr(M²) = Σλ²` for a Hermitian matrix (spectral theorem).
-/
namespace Spdc.SchmidtLemmas
open Spdc Spdc.Schmidt Matrix Finset

theorem sumList_map_range (n : ℕ) (t : ℕ → ℝ) :
    sumList ((List.range n).map t) = ∑ k ∈ Finset.range n, t k := by
  rw [sumList_eq]
  induction n with
  | zero => simp
  | succ n ih => rw [List.range_succ, List.map_append, List.sum_append, ih, Finset.sum_range_succ]; simp

/-! ### spectral form of `tr(A²)` -/

theorem trace_mul_self_eq_sum_sq {𝕜 : Type*} [RCLike 𝕜] {n : Type*} [Fintype n] [DecidableEq n]
    {A : Matrix n n 𝕜} (hA : A.IsHermitian) :
    (A * A).trace = ∑ i, ((hA.eigenvalues i : 𝕜)) ^ 2 := by
  have h := hA.spectral_theorem
  rw [Unitary.conjStarAlgAut_apply] at h
  have hU : star (hA.eigenvectorUnitary : Matrix n n 𝕜) * (hA.eigenvectorUnitary : Matrix n n 𝕜) = 1 :=
    Unitary.coe_star_mul_self _
  set U : Matrix n n 𝕜 := (hA.eigenvectorUnitary : Matrix n n 𝕜) with hUdef
  set D : Matrix n n 𝕜 := diagonal (RCLike.ofReal ∘ hA.eigenvalues) with hD
  have e : A * A = U * (D * D) * star U := by
    conv_lhs => rw [h]
    calc U * D * star U * (U * D * star U) = U * D * (star U * U) * D * star U := by
          simp only [Matrix.mul_assoc]
      _ = U * (D * D) * star U := by rw [hU]; simp only [Matrix.mul_assoc, Matrix.one_mul]
  rw [e, Matrix.trace_mul_cycle, hU, Matrix.one_mul, hD, Matrix.diagonal_mul_diagonal, Matrix.trace_diagonal]
  simp [sq]

/-! ### real Gram matrices -/

section gram
variable {n : ℕ} (A : Matrix (Fin n) (Fin n) ℝ)

theorem gram_apply (j k : Fin n) : (Aᵀ * A) j k = ∑ i, A i j * A i k := by
  simp [Matrix.mul_apply]

theorem gram_symm (j k : Fin n) : (Aᵀ * A) j k = (Aᵀ * A) k j := by
  rw [gram_apply, gram_apply]; apply Finset.sum_congr rfl; intro i _; ring

theorem trace_gram_sq : ((Aᵀ * A) * (Aᵀ * A)).trace = ∑ j, ∑ k, ((Aᵀ * A) j k) ^ 2 := by
  simp only [Matrix.trace, Matrix.diag, Matrix.mul_apply]
  apply Finset.sum_congr rfl; intro j _
  apply Finset.sum_congr rfl; intro k _
  rw [← Matrix.mul_apply, ← Matrix.mul_apply, gram_symm A k j, sq]

theorem trace_gram : (Aᵀ * A).trace = ∑ j, (Aᵀ * A) j j := rfl

theorem gram_diag_nonneg (j : Fin n) : 0 ≤ (Aᵀ * A) j j := by
  rw [gram_apply]; exact Finset.sum_nonneg fun i _ => mul_self_nonneg _

theorem gram_sq_le (j k : Fin n) : ((Aᵀ * A) j k) ^ 2 ≤ (Aᵀ * A) j j * (Aᵀ * A) k k := by
  rw [gram_apply, gram_apply, gram_apply]
  have := Finset.sum_mul_sq_le_sq_mul_sq Finset.univ (fun i => A i j) (fun i => A i k)
  simpa [sq] using this

/-- `tr(M²) ≤ (tr M)²` -/
theorem trace_sq_le_sq_trace : ((Aᵀ * A) * (Aᵀ * A)).trace ≤ ((Aᵀ * A).trace) ^ 2 := by
  rw [trace_gram_sq, trace_gram, sq, Finset.sum_mul_sum]
  apply Finset.sum_le_sum; intro j _
  apply Finset.sum_le_sum; intro k _
  exact gram_sq_le A j k

/-- `(tr M)² ≤ n · tr(M²)` -/
theorem sq_trace_le : ((Aᵀ * A).trace) ^ 2 ≤ n * ((Aᵀ * A) * (Aᵀ * A)).trace := by
  rw [trace_gram_sq, trace_gram]
  have h1 : (∑ j, (Aᵀ * A) j j) ^ 2 ≤ (Finset.univ : Finset (Fin n)).card * ∑ j, ((Aᵀ * A) j j) ^ 2 :=
    sq_sum_le_card_mul_sum_sq
  have h2 : ∑ j, ((Aᵀ * A) j j) ^ 2 ≤ ∑ j, ∑ k, ((Aᵀ * A) j k) ^ 2 := by
    apply Finset.sum_le_sum; intro j _
    exact Finset.single_le_sum (f := fun k => ((Aᵀ * A) j k) ^ 2) (fun k _ => sq_nonneg _) (Finset.mem_univ j)
  simp only [Finset.card_univ, Fintype.card_fin] at h1
  calc (∑ j, (Aᵀ * A) j j) ^ 2 ≤ n * ∑ j, ((Aᵀ * A) j j) ^ 2 := h1
    _ ≤ n * ∑ j, ∑ k, ((Aᵀ * A) j k) ^ 2 := by
      apply mul_le_mul_of_nonneg_left h2 (Nat.cast_nonneg n)

theorem trace_gram_eq_sum_sq : (Aᵀ * A).trace = ∑ j, ∑ i, (A i j) ^ 2 := by
  rw [trace_gram]; apply Finset.sum_congr rfl; intro j _
  rw [gram_apply]; apply Finset.sum_congr rfl; intro i _; ring

theorem trace_gram_pos (hA : A ≠ 0) : 0 < (Aᵀ * A).trace := by
  rw [trace_gram_eq_sum_sq]
  have : ∃ i j, A i j ≠ 0 := by
    by_contra h
    push Not at h
    exact hA (by ext i j; simpa using h i j)
  obtain ⟨i, j, hij⟩ := this
  apply lt_of_lt_of_le (pow_pos (abs_pos.mpr hij) 2)
  rw [sq_abs]
  calc (A i j) ^ 2 ≤ ∑ i', (A i' j) ^ 2 :=
        Finset.single_le_sum (f := fun i' => (A i' j) ^ 2) (fun _ _ => sq_nonneg _) (Finset.mem_univ i)
    _ ≤ ∑ j', ∑ i', (A i' j') ^ 2 :=
        Finset.single_le_sum (f := fun j' => ∑ i', (A i' j') ^ 2)
          (fun _ _ => Finset.sum_nonneg fun _ _ => sq_nonneg _) (Finset.mem_univ j)

theorem trace_gram_sq_pos (hA : A ≠ 0) : 0 < ((Aᵀ * A) * (Aᵀ * A)).trace := by
  have hn : 0 < n := by
    rcases Nat.eq_zero_or_pos n with h | h
    · subst h; exact absurd (by ext i; exact i.elim0) hA
    · exact h
  have h1 := sq_trace_le A
  have h2 := pow_pos (trace_gram_pos A hA) 2
  have h3 : (0 : ℝ) < n := Nat.cast_pos.mpr hn
  by_contra h
  push Not at h
  nlinarith

/-- `1 ≤ (tr M)²/tr(M²) ≤ n` for `M = AᵀA`, `A ≠ 0` -/
theorem K_bounds (hA : A ≠ 0) :
    1 ≤ (Aᵀ * A).trace * (Aᵀ * A).trace / ((Aᵀ * A) * (Aᵀ * A)).trace ∧
      (Aᵀ * A).trace * (Aᵀ * A).trace / ((Aᵀ * A) * (Aᵀ * A)).trace ≤ n := by
  have hp := trace_gram_sq_pos A hA
  have h1 := trace_sq_le_sq_trace A
  have h2 := sq_trace_le A
  rw [sq] at h1 h2
  exact ⟨by rw [le_div_iff₀ hp]; linarith, by rw [div_le_iff₀ hp]; linarith⟩

/-- the transposed matrix has the same two traces -/
theorem trace_gram_transpose : ((Aᵀ)ᵀ * Aᵀ).trace = (Aᵀ * A).trace := by
  rw [Matrix.transpose_transpose, Matrix.trace_mul_comm]

theorem trace_gram_sq_transpose :
    (((Aᵀ)ᵀ * Aᵀ) * ((Aᵀ)ᵀ * Aᵀ)).trace = ((Aᵀ * A) * (Aᵀ * A)).trace := by
  rw [Matrix.transpose_transpose]
  calc (A * Aᵀ * (A * Aᵀ)).trace = (A * (Aᵀ * A * Aᵀ)).trace := by simp only [Matrix.mul_assoc]
    _ = (Aᵀ * A * Aᵀ * A).trace := Matrix.trace_mul_comm _ _
    _ = ((Aᵀ * A) * (Aᵀ * A)).trace := by simp only [Matrix.mul_assoc]

theorem isHermitian_gram : (Aᵀ * A).IsHermitian := by
  have := Matrix.isHermitian_conjTranspose_mul_self A
  simpa [Matrix.conjTranspose_eq_transpose_of_trivial] using this

theorem gram_eigenvalues_nonneg (i : Fin n) : 0 ≤ (isHermitian_gram A).eigenvalues i := by
  have hps : (Aᵀ * A).PosSemidef := by
    have := Matrix.posSemidef_conjTranspose_mul_self A
    simpa [Matrix.conjTranspose_eq_transpose_of_trivial] using this
  exact hps.eigenvalues_nonneg i

/-- singular-value form: with `λ = σ²` the eigenvalues of `AᵀA`,
`(tr M)²/tr(M²) = (Σλ)²/Σλ²` -/
theorem K_eq_eigen :
    (Aᵀ * A).trace * (Aᵀ * A).trace / ((Aᵀ * A) * (Aᵀ * A)).trace =
      (∑ i, (isHermitian_gram A).eigenvalues i) ^ 2 / ∑ i, ((isHermitian_gram A).eigenvalues i) ^ 2 := by
  have h1 := (isHermitian_gram A).trace_eq_sum_eigenvalues
  have h2 := trace_mul_self_eq_sum_sq (isHermitian_gram A)
  simp only [RCLike.ofReal_real_eq_id, id] at h1 h2
  rw [h2, h1, sq]

end gram

/-! ### bridge from the model -/

/-- the entry-wise magnitude matrix `A i j = |F[i·d + j]|` -/
noncomputable def magMat (amps : Array (Cx ℝ)) (d : ℕ) : Matrix (Fin d) (Fin d) ℝ :=
  fun i j => ‖(amps.getD (i.val * d + j.val) Cx.zero).toC‖

theorem entry_mags (amps : Array (Cx ℝ)) (d i j : ℕ) :
    entry (mags amps) d i j = ‖(amps.getD (i * d + j) Cx.zero).toC‖ := by
  unfold entry mags
  by_cases h : i * d + j < amps.size
  · simp [Array.getD, h, Cx.abs_eq]
  · simp [Array.getD, h, lit_zero]

theorem gram_model (amps : Array (Cx ℝ)) (d : ℕ) (j k : Fin d) :
    gram (mags amps) d j.val k.val = ((magMat amps d)ᵀ * magMat amps d) j k := by
  unfold gram
  rw [sumList_map_range, Finset.sum_range, gram_apply]
  apply Finset.sum_congr rfl; intro i _
  rw [entry_mags, entry_mags]; rfl

theorem trM_model (amps : Array (Cx ℝ)) (d : ℕ) :
    trM (mags amps) d = ((magMat amps d)ᵀ * magMat amps d).trace := by
  unfold trM
  rw [sumList_map_range, Finset.sum_range, trace_gram]
  apply Finset.sum_congr rfl; intro j _
  exact gram_model amps d j j

theorem trM2_model (amps : Array (Cx ℝ)) (d : ℕ) :
    trM2 (mags amps) d =
      (((magMat amps d)ᵀ * magMat amps d) * ((magMat amps d)ᵀ * magMat amps d)).trace := by
  unfold trM2
  rw [sumList_map_range, Finset.sum_range]
  simp only [Matrix.trace, Matrix.diag, Matrix.mul_apply (M := (magMat amps d)ᵀ * magMat amps d)]
  apply Finset.sum_congr rfl; intro j _
  rw [sumList_map_range, Finset.sum_range]
  apply Finset.sum_congr rfl; intro k _
  rw [gram_model amps d j k, gram_model amps d k j]

/-- the model on a square length: trace form -/
theorem schmidt_square (amps : Array (Cx ℝ)) (d : ℕ) (hd : 0 < d) (h : amps.size = d * d) :
    schmidt amps = .ok (((magMat amps d)ᵀ * magMat amps d).trace *
      ((magMat amps d)ᵀ * magMat amps d).trace /
      (((magMat amps d)ᵀ * magMat amps d) * ((magMat amps d)ᵀ * magMat amps d)).trace) := by
  unfold schmidt
  simp [h, Nat.sqrt_eq, trM_model, trM2_model, Nat.pos_iff_ne_zero.mp hd]

/-- the empty array: nalgebra's panic -/
theorem schmidt_empty (amps : Array (Cx ℝ)) (h : amps.size = 0) :
    schmidt amps = .panic "nalgebra: SVD of an empty matrix" := by
  unfold schmidt
  simp [h]

theorem schmidt_nonsquare (amps : Array (Cx ℝ)) :
    (¬ ∃ d, amps.size = d * d) ↔ schmidt amps = .err "not-square" := by
  unfold schmidt
  constructor
  · intro h
    have : amps.size ≠ Nat.sqrt amps.size * Nat.sqrt amps.size := fun e => h ⟨_, e⟩
    simp [this]
  · intro h ⟨d, hd⟩
    by_cases h0 : d = 0 <;> simp [hd, Nat.sqrt_eq, h0] at h

theorem magMat_ne_zero (amps : Array (Cx ℝ)) (d : ℕ) (h : amps.size = d * d)
    (hnz : ∃ k, k < amps.size ∧ (amps.getD k Cx.zero).toC ≠ 0) : magMat amps d ≠ 0 := by
  obtain ⟨k, hk, hne⟩ := hnz
  have hd : 0 < d := by
    rcases Nat.eq_zero_or_pos d with h0 | h0
    · subst h0; rw [h] at hk; simp at hk
    · exact h0
  have hkd : k / d < d := Nat.div_lt_of_lt_mul (by rw [← h]; exact hk)
  intro hz
  have := congrFun (congrFun hz ⟨k / d, hkd⟩) ⟨k % d, Nat.mod_lt _ hd⟩
  simp only [magMat, Matrix.zero_apply, norm_eq_zero] at this
  rw [Nat.div_add_mod' k d] at this
  exact hne this

/-! ### array transformations used by the invariance theorems -/

/-- transposition of a flat `d × d` array -/
noncomputable def transposeArr (d : ℕ) (f : Array (Cx ℝ)) : Array (Cx ℝ) :=
  ((List.range (d * d)).map fun k => f.getD ((k % d) * d + k / d) Cx.zero).toArray

/-- multiplication of every entry by one complex constant -/
noncomputable def scaleArr (c : Cx ℝ) (f : Array (Cx ℝ)) : Array (Cx ℝ) := f.map (Cx.mul c)

/-- element-wise phases `f_k · e^{iθ_k}` -/
noncomputable def phaseArr (θ : ℕ → ℝ) (f : Array (Cx ℝ)) : Array (Cx ℝ) :=
  ((List.range f.size).map fun k => Cx.mul (f.getD k Cx.zero) (Cx.cis (θ k))).toArray

theorem magMat_transposeArr (d : ℕ) (f : Array (Cx ℝ)) :
    magMat (transposeArr d f) d = (magMat f d)ᵀ := by
  ext i j
  have hlt : i.val * d + j.val < d * d := by
    have := i.isLt; have := j.isLt; nlinarith
  have h1 : (i.val * d + j.val) % d = j.val := by
    rw [Nat.mul_comm, Nat.mul_add_mod, Nat.mod_eq_of_lt j.isLt]
  have h2 : (i.val * d + j.val) / d = i.val := by
    rw [Nat.mul_comm, Nat.mul_add_div (Nat.pos_of_ne_zero (by intro h; subst h; exact i.elim0)),
      Nat.div_eq_of_lt j.isLt, Nat.add_zero]
  simp [magMat, transposeArr, hlt, h1, h2]

theorem magMat_scaleArr (c : Cx ℝ) (d : ℕ) (f : Array (Cx ℝ)) (h : f.size = d * d) :
    magMat (scaleArr c f) d = ‖c.toC‖ • magMat f d := by
  ext i j
  have hlt : i.val * d + j.val < f.size := by
    rw [h]; have := i.isLt; have := j.isLt; nlinarith
  simp [magMat, scaleArr, hlt, Array.getD]

theorem magMat_phaseArr (θ : ℕ → ℝ) (d : ℕ) (f : Array (Cx ℝ)) (h : f.size = d * d) :
    magMat (phaseArr θ f) d = magMat f d := by
  ext i j
  have hlt : i.val * d + j.val < f.size := by
    rw [h]; have := i.isLt; have := j.isLt; nlinarith
  simp [magMat, phaseArr, hlt, Complex.norm_exp_ofReal_mul_I]

end Spdc.SchmidtLemmas
