import Spdc.Real.Quad
import Mathlib.Analysis.SpecialFunctions.Integrals.Basic
import Mathlib.Algebra.Polynomial.Degree.Lemmas
import Mathlib.Topology.Algebra.Polynomial
/-!
# Node/weight rules (Gauss–Legendre as used by `Integrator::GaussLegendre`): exactness from the
moment equations, linearity, separability — helper lemmas for C12
-/
open Finset Polynomial
namespace Spdc.Quad
open Spdc

theorem rulePow_real (x : ℝ) (k : ℕ) : rulePow x k = x ^ k := by
  induction k with
  | zero => simp [rulePow, lit_one]
  | succ k ih => simp [rulePow, ih, pow_succ]

theorem ruleMoment_real (nodes weights : List ℝ) (k : ℕ) :
    ruleMoment nodes weights k = ((nodes.zip weights).map fun xw => xw.2 * xw.1 ^ k).sum := by
  simp [ruleMoment, sumList_eq, rulePow_real]

theorem ruleApplyR_real (nodes weights : List ℝ) (g : ℝ → ℝ) (a b : ℝ) :
    ruleApplyR nodes weights g a b
      = (b - a) / 2 * ((nodes.zip weights).map fun xw => g ((b - a) / 2 * xw.1 + (b + a) / 2) * xw.2).sum := by
  simp only [ruleApplyR, sumList_eq, lit_half]
  congr 1
  · ring
  · congr 1; apply List.map_congr_left; intro xw _; congr 2; ring

/-- a rule applied to `Σ_k c_k x^k` is `Σ_k c_k · (k-th moment)` -/
theorem rule_sum_pow (l : List (ℝ × ℝ)) (coef : ℕ → ℝ) (n : ℕ) :
    (l.map fun xw => (∑ k ∈ range n, coef k * xw.1 ^ k) * xw.2).sum
      = ∑ k ∈ range n, coef k * (l.map fun xw => xw.2 * xw.1 ^ k).sum := by
  induction l with
  | nil => simp
  | cons xw l ih =>
    simp only [List.map_cons, List.sum_cons, ih, mul_add, Finset.sum_add_distrib]
    congr 1
    rw [Finset.sum_mul]
    apply Finset.sum_congr rfl
    intro k _; ring

/-- **rule_exact_of_moments** (real polynomials): if the rule reproduces the moments
`∫_{-1}^{1} x^k` for all `k ≤ m`, it integrates every real polynomial of degree `≤ m` exactly on
every interval `[a, b]` (either orientation). -/
theorem ruleApplyR_exact (nodes weights : List ℝ) (m : ℕ)
    (hmom : ∀ k, k ≤ m → ruleMoment nodes weights k = ∫ x in (-1 : ℝ)..1, x ^ k)
    (p : ℝ[X]) (hp : p.natDegree ≤ m) (a b : ℝ) :
    ruleApplyR nodes weights (fun x => p.eval x) a b = ∫ x in a..b, p.eval x := by
  set c : ℝ := (b - a) / 2 with hc
  set e : ℝ := (b + a) / 2 with he
  set q : ℝ[X] := p.comp (C c * X + C e) with hq
  have hqdeg : q.natDegree < m + 1 := by
    have h1 : (C c * X + C e : ℝ[X]).natDegree ≤ 1 := by
      refine (natDegree_add_le _ _).trans (max_le ?_ (by simp))
      exact (natDegree_C_mul_le _ _).trans (by simp)
    have := natDegree_comp_le (p := p) (q := C c * X + C e)
    calc q.natDegree ≤ p.natDegree * (C c * X + C e : ℝ[X]).natDegree := this
      _ ≤ m * 1 := Nat.mul_le_mul hp h1
      _ < m + 1 := by omega
  have hqeval : ∀ x : ℝ, p.eval (c * x + e) = ∑ k ∈ range (m + 1), q.coeff k * x ^ k := by
    intro x
    rw [← eval_eq_sum_range' hqdeg x, hq, eval_comp]
    simp
  rw [ruleApplyR_real]
  simp only [← hc, ← he, hqeval, rule_sum_pow]
  have hm' : ∀ k ∈ range (m + 1), q.coeff k * ((nodes.zip weights).map fun xw => xw.2 * xw.1 ^ k).sum
      = q.coeff k * ∫ x in (-1 : ℝ)..1, x ^ k := by
    intro k hk
    rw [← ruleMoment_real, hmom k (by have := mem_range.mp hk; omega)]
  rw [Finset.sum_congr rfl hm']
  have hint : ∑ k ∈ range (m + 1), q.coeff k * ∫ x in (-1 : ℝ)..1, x ^ k
      = ∫ x in (-1 : ℝ)..1, p.eval (c * x + e) := by
    simp only [hqeval]
    rw [intervalIntegral.integral_finsetSum]
    · apply Finset.sum_congr rfl
      intro k _
      rw [intervalIntegral.integral_const_mul]
    · intro k _
      exact (Continuous.intervalIntegrable (by fun_prop) _ _)
  rw [hint]
  have := intervalIntegral.smul_integral_comp_mul_add (fun x => p.eval x) c e (a := -1) (b := 1)
  simp only [smul_eq_mul] at this
  rw [this]
  congr 1 <;> (rw [hc, he]; ring)

/-! ### linearity of a rule -/

theorem ruleApplyR_add (nodes weights : List ℝ) (g h : ℝ → ℝ) (a b : ℝ) :
    ruleApplyR nodes weights (fun x => g x + h x) a b
      = ruleApplyR nodes weights g a b + ruleApplyR nodes weights h a b := by
  simp only [ruleApplyR_real, ← mul_add]
  congr 1
  induction (nodes.zip weights) with
  | nil => simp
  | cons xw l ih => simp only [List.map_cons, List.sum_cons, ih]; ring

theorem ruleApplyR_smul (nodes weights : List ℝ) (r : ℝ) (g : ℝ → ℝ) (a b : ℝ) :
    ruleApplyR nodes weights (fun x => r * g x) a b = r * ruleApplyR nodes weights g a b := by
  simp only [ruleApplyR_real]
  rw [← mul_assoc, mul_comm r, mul_assoc]
  congr 1
  induction (nodes.zip weights) with
  | nil => simp
  | cons xw l ih => simp only [List.map_cons, List.sum_cons, ih]; ring

theorem ruleApplyR_sub (nodes weights : List ℝ) (g h : ℝ → ℝ) (a b : ℝ) :
    ruleApplyR nodes weights (fun x => g x - h x) a b
      = ruleApplyR nodes weights g a b - ruleApplyR nodes weights h a b := by
  have : (fun x => g x - h x) = fun x => g x + (-1) * h x := by funext x; ring
  rw [this, ruleApplyR_add, ruleApplyR_smul]; ring

theorem ruleApplyR_mul_const (nodes weights : List ℝ) (r : ℝ) (g : ℝ → ℝ) (a b : ℝ) :
    ruleApplyR nodes weights (fun x => g x * r) a b = ruleApplyR nodes weights g a b * r := by
  have : (fun x => g x * r) = fun x => r * g x := by funext x; ring
  rw [this, ruleApplyR_smul]; ring

/-- complex linearity of `Integrator::GaussLegendre::integrate` -/
theorem ruleApply_linear (nodes weights : List ℝ) (f g : ℝ → Cx ℝ) (al be : Cx ℝ) (a b : ℝ) :
    ruleApply nodes weights (fun x => Cx.add (Cx.mul al (f x)) (Cx.mul be (g x))) a b
      = Cx.add (Cx.mul al (ruleApply nodes weights f a b)) (Cx.mul be (ruleApply nodes weights g a b)) := by
  simp only [ruleApply, Cx.add, Cx.mul]
  congr 1
  · rw [ruleApplyR_add, ruleApplyR_sub, ruleApplyR_sub, ruleApplyR_smul, ruleApplyR_smul,
      ruleApplyR_smul, ruleApplyR_smul]
  · rw [ruleApplyR_add, ruleApplyR_add, ruleApplyR_add, ruleApplyR_smul, ruleApplyR_smul,
      ruleApplyR_smul, ruleApplyR_smul]

/-- separability of the nested rule on `g(x)·h(y)` -/
theorem ruleApply2d_sep (nodes weights : List ℝ) (g h : ℝ → Cx ℝ) (a b c d : ℝ) :
    ruleApply2d nodes weights (fun x y => Cx.mul (g x) (h y)) a b c d
      = Cx.mul (ruleApply nodes weights g a b) (ruleApply nodes weights h c d) := by
  simp only [ruleApply2d, ruleApply, Cx.mul]
  congr 1
  · simp only [ruleApplyR_sub, ruleApplyR_smul, ruleApplyR_mul_const]
  · simp only [ruleApplyR_add, ruleApplyR_smul, ruleApplyR_mul_const]

/-! ### complex polynomials of the wire protocol -/

/-- the real polynomial with the given coefficient list (lowest first) -/
noncomputable def listPoly (l : List ℝ) : ℝ[X] := l.foldr (fun c acc => acc * X + C c) 0

theorem listPoly_natDegree (l : List ℝ) : (listPoly l).natDegree ≤ l.length - 1 := by
  induction l with
  | nil => simp [listPoly]
  | cons c l ih =>
    have : listPoly (c :: l) = listPoly l * X + C c := rfl
    rw [this]
    refine (natDegree_add_le _ _).trans (max_le ?_ (by simp))
    rcases l with _ | ⟨c', l'⟩
    · simp [listPoly]
    · refine (natDegree_mul_le).trans ?_
      simp only [natDegree_X, List.length_cons] at ih ⊢
      omega

theorem polyEval_re (cs : List (Cx ℝ)) (x : ℝ) :
    (polyEval cs x).re = (listPoly (cs.map Cx.re)).eval x := by
  induction cs with
  | nil => simp [polyEval, listPoly, Cx.zero, lit_zero]
  | cons c cs ih =>
    have h1 : polyEval (c :: cs) x = Cx.add (Cx.muls (polyEval cs x) x) c := rfl
    have h2 : listPoly ((c :: cs).map Cx.re) = listPoly (cs.map Cx.re) * X + C c.re := rfl
    rw [h1, h2]; simp [Cx.add, Cx.muls, ih]

theorem polyEval_im (cs : List (Cx ℝ)) (x : ℝ) :
    (polyEval cs x).im = (listPoly (cs.map Cx.im)).eval x := by
  induction cs with
  | nil => simp [polyEval, listPoly, Cx.zero, lit_zero]
  | cons c cs ih =>
    have h1 : polyEval (c :: cs) x = Cx.add (Cx.muls (polyEval cs x) x) c := rfl
    have h2 : listPoly ((c :: cs).map Cx.im) = listPoly (cs.map Cx.im) * X + C c.im := rfl
    rw [h1, h2]; simp [Cx.add, Cx.muls, ih]

/-- exactness of a rule on the complex polynomials of the wire protocol -/
theorem ruleApply_exact (nodes weights : List ℝ) (m : ℕ)
    (hmom : ∀ k, k ≤ m → ruleMoment nodes weights k = ∫ x in (-1 : ℝ)..1, x ^ k)
    (cs : List (Cx ℝ)) (hcs : cs.length ≤ m + 1) (a b : ℝ) :
    (ruleApply nodes weights (polyEval cs) a b).re = ∫ x in a..b, (polyEval cs x).re
      ∧ (ruleApply nodes weights (polyEval cs) a b).im = ∫ x in a..b, (polyEval cs x).im := by
  simp only [ruleApply, polyEval_re, polyEval_im]
  constructor
  · apply ruleApplyR_exact nodes weights m hmom
    have := listPoly_natDegree (cs.map Cx.re); simp at this; omega
  · apply ruleApplyR_exact nodes weights m hmom
    have := listPoly_natDegree (cs.map Cx.im); simp at this; omega

/-- the moments of `[−1, 1]` in closed form -/
theorem moment_closed (k : ℕ) : ∫ x in (-1 : ℝ)..1, x ^ k = (1 - (-1) ^ (k + 1)) / (k + 1) := by
  rw [integral_pow]; simp

/-- the closed form used in the exactness theorems is the interval integral of the cubic -/
theorem integral_cubic (c0 c1 c2 c3 : ℂ) (a b : ℝ) :
    ∫ x in a..b, cubic c0 c1 c2 c3 (x : ℂ) = cubicAnti c0 c1 c2 c3 b - cubicAnti c0 c1 c2 c3 a := by
  have hderiv : ∀ x ∈ Set.uIcc a b,
      HasDerivAt (fun y : ℝ => cubicAnti c0 c1 c2 c3 (y : ℂ)) (cubic c0 c1 c2 c3 (x : ℂ)) x := by
    intro x _
    have hx : HasDerivAt (fun y : ℝ => (y : ℂ)) 1 x := (hasDerivAt_id x).ofReal_comp
    have h := (((hx.const_mul c0).add ((hx.pow 2).const_mul (c1 / 2))).add
      ((hx.pow 3).const_mul (c2 / 3))).add ((hx.pow 4).const_mul (c3 / 4))
    have hf : (fun y : ℝ => cubicAnti c0 c1 c2 c3 (y : ℂ))
        = ((((fun y : ℝ => c0 * (y : ℂ)) + fun y : ℝ => c1 / 2 * ((fun y : ℝ => (y : ℂ)) ^ 2) y)
            + fun y : ℝ => c2 / 3 * ((fun y : ℝ => (y : ℂ)) ^ 3) y)
            + fun y : ℝ => c3 / 4 * ((fun y : ℝ => (y : ℂ)) ^ 4) y) := by
      funext y; simp only [cubicAnti, Pi.add_apply, Pi.pow_apply]; ring
    have hv : cubic c0 c1 c2 c3 (x : ℂ)
        = c0 * 1 + c1 / 2 * (((2 : ℕ) : ℂ) * (x : ℂ) ^ (2 - 1) * 1) + c2 / 3 * (((3 : ℕ) : ℂ) * (x : ℂ) ^ (3 - 1) * 1)
          + c3 / 4 * (((4 : ℕ) : ℂ) * (x : ℂ) ^ (4 - 1) * 1) := by
      simp only [cubic]; push_cast; ring
    rw [hf, hv]; exact h
  have hcont : Continuous fun x : ℝ => cubic c0 c1 c2 c3 (x : ℂ) := by
    unfold cubic; fun_prop
  exact intervalIntegral.integral_eq_sub_of_hasDerivAt hderiv (hcont.intervalIntegrable _ _)

end Spdc.Quad
