import Spdc.Model.ComposeAuto
import Spdc.Real.ComposeLemmas
import Spdc.Real.ConfigFlow
import Spdc.Real.NM1D
/-!
# ℝ-side lemmas about part 2 of the composed model (`Spdc/Model/ComposeAuto.lean`)

* the composed numeric sub-routines never panic over ℝ (`extNoPanic_composed`): every cost closure
  is NaN-free inside the optimiser's bounds, so `NM1D.run_spec` applies — also to the simplex nested
  inside the cost of `optimum_theta`;
* `asOptimum` does not read what it overwrites (`asOptimum_idem`).
-/
namespace Spdc.Compose
open Spdc Spdc.Outcome

/-! ### costs over ℝ are never NaN -/

theorem toCost_ne_nan (x : ℝ) : Beam.toCost x ≠ NM1D.Cost.nan := by
  unfold Beam.toCost
  have h : (x == x) = true := by simp
  simp only [h, Bool.not_true, Bool.false_eq_true, if_false]
  split <;> simp

theorem costOf_ok_ne_nan {x : Outcome ℝ} {v : ℝ} (h : x = .ok v) : costOf x ≠ NM1D.Cost.nan := by
  subst h; exact toCost_ne_nan v

/-! ### panic-freedom of the building blocks -/

theorem np_optimumIdler (i : DeltaK.IdlerIn ℝ) : NP (DeltaK.optimumIdler i) := by
  unfold DeltaK.optimumIdler
  split <;> rfl

theorem optimumIdler_ok_of_lt {i : DeltaK.IdlerIn ℝ} (h : i.lp < i.ls) :
    ∃ o, DeltaK.optimumIdler i = .ok o := ⟨_, DeltaK.optimumIdler_of_lt h⟩

theorem np_optimumIdlerB (S : Setup ℝ) (s p : Beam.Beam ℝ) (pp : DeltaK.Poling ℝ) :
    NP (optimumIdlerB S s p pp) := np_map _ (np_optimumIdler _)

theorem optimumIdlerB_ok (S : Setup ℝ) (s p : Beam.Beam ℝ) (pp : DeltaK.Poling ℝ)
    (h : Beam.vacuumWavelength p < Beam.vacuumWavelength s) : ∃ i, optimumIdlerB S s p pp = .ok i := by
  obtain ⟨o, ho⟩ := optimumIdler_ok_of_lt (i := idlerInB S s p pp) h
  exact ⟨beamOfIdlerOutB o, by simp [optimumIdlerB, ho, Outcome.map]⟩

/-- `delta_k` is a value whenever `k_eff` is -/
theorem deltaKB_ok (S : Setup ℝ) (s i p : Beam.Beam ℝ) (ωs ωi : ℝ) (pp : DeltaK.Poling ℝ) (ke : ℝ)
    (hk : DeltaK.kEff pp = .ok ke) : ∃ v, deltaKB S s i p ωs ωi pp = .ok v := by
  simp [deltaKB, DeltaK.deltaK, hk, Outcome.map]

theorem kEff_off_ok : DeltaK.kEff (DeltaK.Poling.off : DeltaK.Poling ℝ) = .ok 0 := DeltaK.kEff_off

theorem dkzOptimum_ok (S : Setup ℝ) (s p : Beam.Beam ℝ) (pp : DeltaK.Poling ℝ) (ke : ℝ)
    (hk : DeltaK.kEff pp = .ok ke) (h : Beam.vacuumWavelength p < Beam.vacuumWavelength s) :
    ∃ z, dkzOptimum S s p pp = .ok z := by
  obtain ⟨i, hi⟩ := optimumIdlerB_ok S s p pp h
  obtain ⟨v, hv⟩ := deltaKB_ok S s i p s.frequency i.frequency pp ke hk
  exact ⟨v.z, by simp [dkzOptimum, hi, hv, Outcome.bind, Outcome.map]⟩

theorem np_dkzOptimum_off (S : Setup ℝ) (s p : Beam.Beam ℝ) : NP (dkzOptimum S s p .off) := by
  unfold dkzOptimum
  apply np_bind (np_optimumIdlerB _ _ _ _)
  intro i
  obtain ⟨v, hv⟩ := deltaKB_ok S s i p s.frequency i.frequency .off 0 kEff_off_ok
  rw [hv]; rfl

/-- the Snell inverse is a value over ℝ: its cost `|sin θe − n(θ) sin θ|` is a real number -/
theorem snellInternalB_ok (S : Setup ℝ) (b : Beam.Beam ℝ) (e : ℝ) : ∃ t, snellInternalB S b e = .ok t := by
  unfold snellInternalB Beam.snellInternal
  obtain ⟨x, hx, -⟩ := NM1D.run_spec
    (fun t => Beam.toCost (Beam.snellCost (principal S (Beam.vacuumWavelength b)) S.cTheta S.cPhi b.phi
      b.polarization e t)) e (e + (1.0 : ℝ)) 100 (0.0 : ℝ) Units.halfPi (1e-12 : ℝ)
    (fun _ _ _ => toCost_ne_nan _)
  refine ⟨Beam.signum e * x, ?_⟩
  simp only [hx, Outcome.map]

theorem setThetaExternalB_ok (S : Setup ℝ) (b : Beam.Beam ℝ) (e : ℝ) :
    ∃ t, setThetaExternalB S b e = .ok (Beam.setAngles b b.phi t) := by
  obtain ⟨t, ht⟩ := snellInternalB_ok S b (Transc.abs e)
  exact ⟨t, by simp [setThetaExternalB, ht, Outcome.map]⟩

theorem setAngles_frequency (b : Beam.Beam ℝ) (φ θ : ℝ) : (Beam.setAngles b φ θ).frequency = b.frequency := rfl

/-- the cost of `optimum_theta` is never NaN when `λp < λs` -/
theorem thetaCost_ne_nan (S : Setup ℝ) (s p : Beam.Beam ℝ) (θe θ : ℝ)
    (h : Beam.vacuumWavelength p < Beam.vacuumWavelength s) : thetaCost S s p θe θ ≠ NM1D.Cost.nan := by
  unfold thetaCost
  obtain ⟨t, ht⟩ := setThetaExternalB_ok { S with cTheta := θ } s θe
  have h' : Beam.vacuumWavelength p < Beam.vacuumWavelength (Beam.setAngles s s.phi t) := h
  obtain ⟨z, hz⟩ := dkzOptimum_ok { S with cTheta := θ } (Beam.setAngles s s.phi t) p .off 0 kEff_off_ok h'
  apply costOf_ok_ne_nan (v := Transc.abs z)
  simp only [ht, Outcome.bind, hz, Outcome.map]

theorem optimumThetaB_ok (S : Setup ℝ) (s p : Beam.Beam ℝ)
    (h : Beam.vacuumWavelength p < Beam.vacuumWavelength s) : ∃ θ, optimumThetaB S s p = .ok θ := by
  unfold optimumThetaB Auto.optimumTheta
  obtain ⟨x, hx, -⟩ := NM1D.run_spec (thetaCost S s p (thetaExternal S s)) (Transc.pi / (6.0 : ℝ))
    (Transc.pi / (6.0 : ℝ) + (1.0 : ℝ)) 1000 (0.0 : ℝ) (Transc.pi / (2.0 : ℝ)) (1e-6 : ℝ)
    (fun θ _ _ => thetaCost_ne_nan S s p _ θ h)
  exact ⟨x, hx⟩

set_option exponentiation.threshold 400 in
theorem minPositive_pos : (0 : ℝ) < Auto.minPositive := by
  unfold Auto.minPositive; norm_num

/-- `optimum_poling_period` does not panic when `λp < λs`: inside `[MIN_POSITIVE, L]` the trial
period is positive, so `k_eff` is a value and the cost is a real number -/
theorem np_optimumPolingPeriodB (S : Setup ℝ) (s p : Beam.Beam ℝ)
    (h : Beam.vacuumWavelength p < Beam.vacuumWavelength s) : NP (optimumPolingPeriodB S s p) := by
  unfold optimumPolingPeriodB
  apply np_bind (np_dkzOptimum_off S s p)
  intro z
  apply np_map
  unfold Auto.optimumPolingPeriod
  split
  · rfl
  · obtain ⟨x, hx, -⟩ := NM1D.run_spec
      (fun per => costOf ((dkzOptimum S s p (.on per (Auto.computeSign z))).map Transc.abs))
      (Transc.abs (DeltaK.twoPi / z)) (Transc.abs (DeltaK.twoPi / z) + (1e-6 : ℝ)) 1000 Auto.minPositive S.L
      (1e-12 : ℝ)
      (fun per hlo _ => by
        have hpos : (0.0 : ℝ) < per := by
          have := minPositive_pos; rw [lit_zero]; linarith
        obtain ⟨zz, hzz⟩ := dkzOptimum_ok S s p (.on per (Auto.computeSign z)) _
          (by simp only [DeltaK.kEff, if_pos hpos]; rfl) h
        apply costOf_ok_ne_nan (v := Transc.abs zz)
        simp only [hzz, Outcome.map])
    simp only [hx]
    split <;> rfl

/-! ### the guard of the configuration layer in terms of the beam layer's wavelengths -/

theorem vacuumWavelength_beamOfCfg (b : Cfg.Beam ℝ) :
    Beam.vacuumWavelength (beamOfCfg b) = b.wavelength := by
  simp [Beam.vacuumWavelength, beamOfCfg, Cfg.Beam.wavelength, Cfg.freqToWl, Cfg.twoPiC, Cfg.twoPi,
    Units.frequencyToVacuumWavelength, Units.frequencyToWavelength, Units.twoPiC, Units.twoPi,
    Units.cLight, lit_one]

theorem lt_of_not_lsLeLp {s p : Cfg.Beam ℝ} (h : Cfg.lsLeLp s p = false) :
    Beam.vacuumWavelength (beamOfCfg p) < Beam.vacuumWavelength (beamOfCfg s) := by
  rw [vacuumWavelength_beamOfCfg, vacuumWavelength_beamOfCfg]
  simpa [Cfg.lsLeLp] using h

/-- **none of the composed numeric sub-routines panics, on any input** (over ℝ) -/
theorem extNoPanic_composed : Cfg.ExtNoPanic (composedExt : Cfg.Ext ℝ) where
  snell := fun b a c => by
    obtain ⟨t, ht⟩ := snellInternalB_ok (carrier c) (beamOfCfg b) a
    show NP (snellInternalB _ _ _); rw [ht]; rfl
  signNeg := fun s p c => by
    show NP (if Cfg.lsLeLp s p then _ else _)
    split
    · rfl
    · exact np_map _ (np_dkzOptimum_off _ _ _)
  period := fun s p c => by
    show NP (if Cfg.lsLeLp s p then _ else _)
    split
    · rfl
    · rename_i hl
      exact np_optimumPolingPeriodB _ _ _ (lt_of_not_lsLeLp (by simpa using hl))
  theta := fun c s p => by
    show NP (if Cfg.lsLeLp s p then _ else _)
    split
    · rfl
    · rename_i hl
      obtain ⟨θ, hθ⟩ := optimumThetaB_ok (carrier c) (beamOfCfg s) (beamOfCfg p)
        (lt_of_not_lsLeLp (by simpa using hl))
      rw [hθ]; rfl
  idler := fun s p c pp => np_map _ (np_optimumIdlerB _ _ _ _)
  waistPos := fun _ _ _ => rfl

/-! ### costs over ℝ are finite values -/

theorem toCost_eq_fin (x : ℝ) : Beam.toCost x = NM1D.Cost.fin x := by
  unfold Beam.toCost Index.isFinite
  simp [lit_zero]

/-- the cost of `optimum_theta` is a real number when `λp < λs` -/
theorem thetaCost_fin (S : Setup ℝ) (s p : Beam.Beam ℝ) (θe θ : ℝ)
    (h : Beam.vacuumWavelength p < Beam.vacuumWavelength s) : ∃ v, thetaCost S s p θe θ = NM1D.Cost.fin v := by
  unfold thetaCost
  obtain ⟨t, ht⟩ := setThetaExternalB_ok { S with cTheta := θ } s θe
  have h' : Beam.vacuumWavelength p < Beam.vacuumWavelength (Beam.setAngles s s.phi t) := h
  obtain ⟨z, hz⟩ := dkzOptimum_ok { S with cTheta := θ } (Beam.setAngles s s.phi t) p .off 0 kEff_off_ok h'
  exact ⟨Transc.abs z, by simp only [ht, Outcome.bind, hz, Outcome.map, costOf, toCost_eq_fin]⟩

/-- unfolding `optimumPolingPeriodB` on `ok` -/
theorem optimumPolingPeriodB_ok {S : Setup ℝ} {s p : Beam.Beam ℝ} {v : ℝ}
    (h : optimumPolingPeriodB S s p = .ok v) :
    ∃ z r, dkzOptimum S s p .off = .ok z ∧
      Auto.optimumPolingPeriod z
        (fun neg per => costOf ((dkzOptimum S s p (.on per neg)).map Transc.abs)) S.L = .ok r ∧
      v = periodValue r := by
  unfold optimumPolingPeriodB at h
  rw [bind_eq_ok] at h
  obtain ⟨z, hz, h⟩ := h
  rw [map_eq_ok] at h
  obtain ⟨r, hr, rfl⟩ := h
  exact ⟨z, r, hz, hr, rfl⟩

/-! ### `asOptimum` is idempotent -/

/-- the fields the beam-level routines read -/
structure SameCore (T U : Setup ℝ) : Prop where
  hcrystal : T.crystal = U.crystal
  hcPhi : T.cPhi = U.cPhi
  hL : T.L = U.L
  hT : T.T = U.T
  hcp : T.counterProp = U.counterProp
  hpm : T.pm = U.pm

theorem thetaCost_congr {T U : Setup ℝ} (h : SameCore T U) (s p : Beam.Beam ℝ) (θe θ : ℝ) :
    thetaCost T s p θe θ = thetaCost U s p θe θ := by
  obtain ⟨h1, h2, h3, h4, h5, h6⟩ := h
  cases T; cases U
  simp only at h1 h2 h3 h4 h5 h6
  subst h1 h2 h3 h4 h5 h6
  rfl

theorem thetaExternal_collinear (S : Setup ℝ) (b : Beam.Beam ℝ) (h : b.theta = 0) : thetaExternal S b = 0 := by
  simp [thetaExternal, Beam.thetaExternal, Beam.snellExternal, h, Transc.sin, Transc.asin]

theorem optimumThetaB_collinear {T U : Setup ℝ} (h : SameCore T U) (s p : Beam.Beam ℝ) (hs : s.theta = 0) :
    optimumThetaB T s p = optimumThetaB U s p := by
  unfold optimumThetaB
  rw [thetaExternal_collinear T s hs, thetaExternal_collinear U s hs]
  congr 1
  funext θ
  exact thetaCost_congr h s p 0 θ


theorem resetSignalSpec_fw (T : Setup ℝ) (h : T.counterProp = false) :
    resetSignalSpec T = { T.sig with phi := (0.0 : ℝ) * Cfg.deg, theta := (0.0 : ℝ) * Cfg.deg } := by
  simp [resetSignalSpec, h]

theorem optimumPolingPeriodB_congr {T U : Setup ℝ} (h : SameCore T U) (hθ : T.cTheta = U.cTheta)
    (s p : Beam.Beam ℝ) : optimumPolingPeriodB T s p = optimumPolingPeriodB U s p := by
  obtain ⟨h1, h2, h3, h4, h5, h6⟩ := h
  cases T; cases U
  simp only at h1 h2 h3 h4 h5 h6 hθ
  subst h1 h2 h3 h4 h5 h6 hθ
  rfl

/-- the reset signal is collinear -/
theorem signalBeam_optReset_theta (S : Setup ℝ) (hfw : S.counterProp = false) :
    (signalBeam (optReset S)).theta = 0 := by
  simp only [optReset, signalBeam, resetSignalSpec_fw S hfw, Beam.new, lit_zero, zero_mul,
    Units.normalizeAngleSigned_zero]

theorem optFinish_idem (S2 o : Setup ℝ) (h : optFinish S2 = .ok o) : optFinish o = .ok o := by
  unfold optFinish at h
  rw [map_eq_ok] at h
  obtain ⟨i, hi, rfl⟩ := h
  unfold optFinish
  have : idlerBeam ({ ({ ({ S2 with idlerAuto := true } : Setup ℝ) with
      sig := { ({ S2 with idlerAuto := true } : Setup ℝ).sig with z0 := optimalWaistPosition { S2 with idlerAuto := true } (signalBeam { S2 with idlerAuto := true }) }
      idl := { ({ S2 with idlerAuto := true } : Setup ℝ).idl with z0 := optimalWaistPosition { S2 with idlerAuto := true } i } } : Setup ℝ) with idlerAuto := true } : Setup ℝ) = .ok i := hi
  simp only [this, Outcome.map]
  rfl


theorem optDecide_off (T : Setup ℝ) (hp : T.poling = .off) :
    optDecide T =
      if Beam.vacuumWavelength (signalBeam T) ≤ Beam.vacuumWavelength (pumpBeam T) then
        .panic "optimum_theta:unwrap"
      else (optimumThetaB T (signalBeam T) (pumpBeam T)).map fun θ => { T with cTheta := θ } := by
  unfold optDecide; simp only [hp]

theorem optDecide_on (T : Setup ℝ) (q : ℝ) (apod : Poling.Apod ℝ) (hp : T.poling = .on q apod) :
    optDecide T =
      if Beam.vacuumWavelength (signalBeam T) ≤ Beam.vacuumWavelength (pumpBeam T) then
        .panic "optimum_poling_period:unwrap"
      else (optimumPolingPeriodB T (signalBeam T) (pumpBeam T)).map fun per =>
        { T with poling := .on per apod } := by
  unfold optDecide; simp only [hp]

theorem spec_fix (b : BeamSpec ℝ) {x y : ℝ} (h1 : b.phi = x) (h2 : b.theta = y) :
    ({ b with phi := x, theta := y } : BeamSpec ℝ) = b := by
  cases b; simp only at h1 h2; subst h1 h2; rfl

theorem optReset_fix (T : Setup ℝ) (hcp : T.counterProp = false)
    (h1 : T.sig.phi = (0.0 : ℝ) * Cfg.deg) (h2 : T.sig.theta = (0.0 : ℝ) * Cfg.deg) : optReset T = T := by
  unfold optReset
  rw [resetSignalSpec_fw T hcp, spec_fix _ h1 h2]

theorem asOptimum_fix (O : Setup ℝ) (hR : optReset O = O) (hD : optDecide O = .ok O)
    (hF : optFinish O = .ok O) : asOptimum O = .ok O := by
  unfold asOptimum; rw [hR, hD]; exact hF

/-- `try_as_optimum` is idempotent on the composed model (forward propagation): the second pass
hands every routine the arguments of the first; the one argument that changes — the crystal angle
seen by `optimum_theta` — is not read, because the routine overwrites it before every use and the
external angle of the collinear reset signal is `asin(n · sin 0) = 0` for every crystal angle. -/
theorem asOptimum_idem (S o : Setup ℝ) (h : asOptimum S = .ok o) (hfw : S.counterProp = false) :
    asOptimum o = .ok o := by
  unfold asOptimum at h
  rw [bind_eq_ok] at h
  obtain ⟨S2, h2, h3⟩ := h
  have hs0 := signalBeam_optReset_theta S hfw
  have hfin := optFinish_idem S2 o h3
  have e1 := resetSignalSpec_fw S hfw
  unfold optFinish at h3
  rw [map_eq_ok] at h3
  obtain ⟨i, -, ho⟩ := h3
  cases hp : (optReset S).poling with
  | off =>
    rw [optDecide_off _ hp] at h2
    split at h2
    · cases h2
    · rename_i hg
      rw [map_eq_ok] at h2
      obtain ⟨θ, hθ, rfl⟩ := h2
      have hcp : o.counterProp = false := by rw [← ho]; exact hfw
      have h1 : o.sig.phi = (0.0 : ℝ) * Cfg.deg := by
        rw [← ho]; show (resetSignalSpec S).phi = _; rw [e1]
      have h2' : o.sig.theta = (0.0 : ℝ) * Cfg.deg := by
        rw [← ho]; show (resetSignalSpec S).theta = _; rw [e1]
      have hpo : o.poling = .off := by rw [← ho]; exact hp
      have hsb : signalBeam o = signalBeam (optReset S) := by rw [← ho]; rfl
      have hpb : pumpBeam o = pumpBeam (optReset S) := by rw [← ho]; rfl
      have hcore : SameCore o (optReset S) := by rw [← ho]; exact ⟨rfl, rfl, rfl, rfl, rfl, rfl⟩
      have hct : ({ o with cTheta := θ } : Setup ℝ) = o := by rw [← ho]
      apply asOptimum_fix o (optReset_fix o hcp h1 h2') _ hfin
      rw [optDecide_off o hpo, hsb, hpb, if_neg hg,
        (optimumThetaB_collinear hcore _ _ hs0).trans hθ]
      simp only [Outcome.map, hct]
  | on q apod =>
    rw [optDecide_on _ q apod hp] at h2
    split at h2
    · cases h2
    · rename_i hg
      rw [map_eq_ok] at h2
      obtain ⟨per, hper, rfl⟩ := h2
      have hcp : o.counterProp = false := by rw [← ho]; exact hfw
      have h1 : o.sig.phi = (0.0 : ℝ) * Cfg.deg := by
        rw [← ho]; show (resetSignalSpec S).phi = _; rw [e1]
      have h2' : o.sig.theta = (0.0 : ℝ) * Cfg.deg := by
        rw [← ho]; show (resetSignalSpec S).theta = _; rw [e1]
      have hpo : o.poling = .on per apod := by rw [← ho]
      have hsb : signalBeam o = signalBeam (optReset S) := by rw [← ho]; rfl
      have hpb : pumpBeam o = pumpBeam (optReset S) := by rw [← ho]; rfl
      have hcore : SameCore o (optReset S) := by rw [← ho]; exact ⟨rfl, rfl, rfl, rfl, rfl, rfl⟩
      have hcθ : o.cTheta = (optReset S).cTheta := by rw [← ho]
      have hct : ({ o with poling := .on per apod } : Setup ℝ) = o := by rw [← ho]
      apply asOptimum_fix o (optReset_fix o hcp h1 h2') _ hfin
      rw [optDecide_on o per apod hpo, hsb, hpb, if_neg hg,
        (optimumPolingPeriodB_congr hcore hcθ _ _).trans hper]
      simp only [Outcome.map, hct]

end Spdc.Compose
