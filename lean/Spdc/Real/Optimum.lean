import Spdc.Model.Optimum
import Spdc.Real.Inst
/-!
# Helper lemmas for C20 (`try_as_optimum`, normalised accessors) at the ℝ instance
-/
namespace Spdc.Optimum
open Spdc

/-! ## structural facts about `tryAsOptimum` (any scalar) -/
section struct0
variable {α A : Type}

theorem setAngles_setAngles (ext : Ext α A) (b : Beam α) (p t p' t' : α) :
    (b.setAngles ext p t).setAngles ext p' t' = b.setAngles ext p' t' := rfl

theorem setAngles_theta (ext : Ext α A) (b : Beam α) (p t : α) :
    (b.setAngles ext p t).theta = (ext.setAngles p t).2.1 := rfl

/-- everything `finishOptimum` leaves alone -/
theorem finishOptimum_ok {ext : Ext α A} {s o : Setup α A} {sig : Beam α} {cs : Crystal α} {pp : PP α A}
    (h : finishOptimum ext s sig cs pp = .ok o) :
    ∃ i0, ext.optimumIdler sig s.pump cs pp = .ok i0 ∧
      o = { s with signal := sig, idler := { i0 with wx := s.idler.wx, wy := s.idler.wy }, cs := cs, pp := pp,
                   zs := ext.optimalWaistPosition cs sig.freq sig.pol,
                   zi := ext.optimalWaistPosition cs i0.freq i0.pol } := by
  unfold finishOptimum at h
  cases hi : ext.optimumIdler sig s.pump cs pp with
  | ok i0 => rw [hi] at h; simp only [Outcome.bind, Outcome.ok.injEq] at h; exact ⟨i0, rfl, h.symm⟩
  | err e => rw [hi] at h; simp [Outcome.bind] at h
  | panic e => rw [hi] at h; simp [Outcome.bind] at h

end struct0

section struct
variable {α A : Type} [Neg α] [OfScientific α] [LT α] [DecidableLT α]

/-- the apodisation handed to `PeriodicPoling::new` is the one stored -/
theorem PP.new_apod (p : α) (a : A) : ∃ q n, (PP.new p a : PP α A) = .on q n a := by
  unfold PP.new; split
  · exact ⟨_, _, rfl⟩
  · exact ⟨_, _, rfl⟩

theorem tryAsOptimum_off (ext : Ext α A) (s : Setup α A) (h : s.pp = .off) :
    tryAsOptimum ext s =
      (ext.optimumTheta s.cs (resetSignal ext s) s.pump).bind fun θ =>
        finishOptimum ext s (resetSignal ext s) { s.cs with theta := θ } .off := by
  unfold tryAsOptimum; rw [h]

theorem tryAsOptimum_on (ext : Ext α A) (s : Setup α A) {p0 : α} {n0 : Bool} {a : A}
    (h : s.pp = .on p0 n0 a) :
    tryAsOptimum ext s =
      (ext.optimumPolingPeriod (resetSignal ext s) s.pump s.cs).bind fun p =>
        finishOptimum ext s (resetSignal ext s) s.cs (PP.new p a) := by
  unfold tryAsOptimum; rw [h]

omit [Neg α] in
/-- the reset signal of an already reset signal is itself, provided the two reset angles sit on the
right sides of 90° (only needed for counter-propagation) -/
theorem resetSignal_idem (ext : Ext α A) (s o : Setup α A)
    (hsig : o.signal = resetSignal ext s) (hcs : o.cs.counterProp = s.cs.counterProp)
    (hcp : s.cs.counterProp = true →
      (ext.setAngles (ext.deg (0.0 : α)) (ext.deg (0.0 : α))).2.1 < ext.deg (90.0 : α) ∧
      ¬ (ext.setAngles (ext.deg (0.0 : α)) (ext.deg (180.0 : α))).2.1 < ext.deg (90.0 : α)) :
    resetSignal ext o = o.signal := by
  unfold resetSignal at hsig ⊢
  rw [hcs]
  by_cases hc : s.cs.counterProp = true
  · obtain ⟨h0, h180⟩ := hcp hc
    simp only [hc, if_true] at hsig ⊢
    by_cases hlt : s.signal.theta < ext.deg (90.0 : α)
    · simp only [hlt, if_true] at hsig
      rw [hsig, setAngles_theta]; simp only [h0, if_true]; rfl
    · simp only [hlt, if_false] at hsig
      rw [hsig, setAngles_theta]; simp only [h180, if_false]; rfl
  · simp only [hc] at hsig ⊢
    rw [hsig]; rfl

end struct

/-! ## the zero test and field identities at ℝ -/

@[simp] theorem isZero_real (x : ℝ) : isZero x = true ↔ x = 0 := by
  simp [isZero, lit_zero]

theorem isZero_real_false (x : ℝ) : isZero x = false ↔ x ≠ 0 := by
  rw [← Bool.not_eq_true, isZero_real]

theorem cx_zero_iff (a : Cx ℝ) : (isZero a.re && isZero a.im) = true ↔ a.toC = 0 := by
  rw [Bool.and_eq_true, isZero_real, isZero_real]
  constructor
  · rintro ⟨h1, h2⟩; apply Complex.ext <;> simp [h1, h2]
  · intro h
    have h1 := congrArg Complex.re h
    have h2 := congrArg Complex.im h
    simpa using And.intro h1 h2

theorem transc_sqrt_real (x : ℝ) : (Transc.sqrt x : ℝ) = Real.sqrt x := rfl

/-! ## the accessors at ℝ -/
section acc
variable {A I : Type} (sx : SpecExt ℝ A I)

theorem refAmplitude_nonneg (o : Setup ℝ A) (integ : I) : 0 ≤ refAmplitude sx o integ := by
  unfold refAmplitude
  exact mul_nonneg (Real.sqrt_nonneg _) (by rw [Cx.abs_eq]; exact norm_nonneg _)

theorem refAmplitude_pos (o : Setup ℝ A) (integ : I)
    (ha : (sx.jsaRaw o.signal.freq o.idler.freq o integ).toC ≠ 0)
    (hn : 0 < sx.jsiNorm o.signal.freq o.idler.freq o) : 0 < refAmplitude sx o integ := by
  unfold refAmplitude
  exact mul_pos (Real.sqrt_pos.mpr hn) (by rw [Cx.abs_eq]; exact norm_pos_iff.mpr ha)

/-- `jsa` as a complex number: `√n · a` (also when `a = 0`) -/
theorem jsa_toC (js : JointSpectrum ℝ A I) (ws wi : ℝ) :
    (js.jsa sx ws wi).toC =
      (Real.sqrt (sx.jsiNorm ws wi js.spdc) : ℂ) * (sx.jsaRaw ws wi js.spdc js.integ).toC := by
  unfold JointSpectrum.jsa
  by_cases hz : (isZero (sx.jsaRaw ws wi js.spdc js.integ).re && isZero (sx.jsaRaw ws wi js.spdc js.integ).im) = true
  · simp only [hz, if_true]
    rw [(cx_zero_iff _).mp hz]; simp
  · simp only [hz]; simp [Transc.sqrt]

/-- `jsi = n · |a|²` (also when `a = 0`) -/
theorem jsi_eq (js : JointSpectrum ℝ A I) (ws wi : ℝ) :
    js.jsi sx ws wi =
      sx.jsiNorm ws wi js.spdc * Complex.normSq (sx.jsaRaw ws wi js.spdc js.integ).toC := by
  unfold JointSpectrum.jsi
  by_cases hz : (isZero (sx.jsaRaw ws wi js.spdc js.integ).re && isZero (sx.jsaRaw ws wi js.spdc js.integ).im) = true
  · simp only [hz, if_true]
    rw [(cx_zero_iff _).mp hz]; simp [lit_zero]
  · simp only [hz]; simp

/-- `jsi_singles = n_s · raw` (also when `raw = 0`) -/
theorem jsiSingles_eq (js : JointSpectrum ℝ A I) (ws wi : ℝ) :
    js.jsiSingles sx ws wi = sx.jsiSinglesNorm ws wi js.spdc * sx.jsiSinglesRaw ws wi js.spdc js.integ := by
  unfold JointSpectrum.jsiSingles
  by_cases hz : isZero (sx.jsiSinglesRaw ws wi js.spdc js.integ) = true
  · simp only [hz, if_true]; rw [(isZero_real _).mp hz]; simp [lit_zero]
  · simp only [hz]; simp

theorem jsiNormalized_eq_normSq (js : JointSpectrum ℝ A I) (ws wi : ℝ)
    (hn : 0 ≤ sx.jsiNorm ws wi js.spdc) :
    js.jsiNormalized sx ws wi = Complex.normSq (js.jsaNormalized sx ws wi).toC := by
  unfold JointSpectrum.jsiNormalized JointSpectrum.jsaNormalized
  rw [Cx.toC_divs, jsa_toC, jsi_eq, map_div₀, map_mul, Complex.normSq_ofReal, Complex.normSq_ofReal,
    Real.mul_self_sqrt hn]

theorem refAmplitude_eq_norm_jsa (o : Setup ℝ A) (integ : I)
    (_hn : 0 ≤ sx.jsiNorm o.signal.freq o.idler.freq o) :
    refAmplitude sx o integ =
      ‖((⟨o, integ, refAmplitude sx o integ, refSingles sx o integ⟩ : JointSpectrum ℝ A I).jsa sx
          o.signal.freq o.idler.freq).toC‖ := by
  rw [jsa_toC, norm_mul, Complex.norm_real, Real.norm_of_nonneg (Real.sqrt_nonneg _)]
  unfold refAmplitude
  rw [Cx.abs_eq]; rfl

theorem refAmplitude_sq_eq_jsi (o : Setup ℝ A) (integ : I)
    (hn : 0 ≤ sx.jsiNorm o.signal.freq o.idler.freq o) :
    (refAmplitude sx o integ) ^ 2 =
      (⟨o, integ, refAmplitude sx o integ, refSingles sx o integ⟩ : JointSpectrum ℝ A I).jsi sx
        o.signal.freq o.idler.freq := by
  rw [jsi_eq]
  unfold refAmplitude
  rw [Cx.abs_eq, mul_pow, transc_sqrt_real, Real.sq_sqrt hn, Complex.normSq_eq_norm_sq]

theorem refSingles_eq_jsiSingles (o : Setup ℝ A) (integ : I) :
    refSingles sx o integ =
      (⟨o, integ, refAmplitude sx o integ, refSingles sx o integ⟩ : JointSpectrum ℝ A I).jsiSingles sx
        o.signal.freq o.idler.freq := by
  rw [jsiSingles_eq]; rfl

theorem jsiValueNormalized_eq (integ : I) (c : ℝ) (st : Setup ℝ A) :
    jsiValueNormalized sx integ c st = jsiValue sx integ st / c := by
  unfold jsiValueNormalized jsiValue
  by_cases hz : isZero (sx.jsaRaw st.signal.freq st.idler.freq st integ).normSq = true
  · simp only [hz, if_true]; simp [lit_zero]
  · simp only [hz]; simp only [Bool.false_eq_true, if_false]; rw [mul_div_assoc]

theorem sweepRef_eq_sq (integ : I) (o : Setup ℝ A)
    (hn : 0 ≤ sx.jsiNorm o.signal.freq o.idler.freq o) :
    sweepRef sx integ o = (refAmplitude sx o integ) ^ 2 := by
  unfold sweepRef refAmplitude
  rw [Cx.abs_eq, mul_pow, transc_sqrt_real, Real.sq_sqrt hn, Cx.normSq_eq, Complex.normSq_eq_norm_sq]; ring

end acc

end Spdc.Optimum
