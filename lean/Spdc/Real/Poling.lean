import Spdc.Model.Poling
import Spdc.Real.Inst
import Mathlib.Analysis.SpecialFunctions.Trigonometric.Bounds
import Mathlib.Analysis.SpecialFunctions.Pow.Real
import Mathlib.Tactic.Ring
import Mathlib.Tactic.Linarith
import Mathlib.Tactic.FieldSimp
import Mathlib.Tactic.NormNum
import Mathlib.Tactic.Positivity
/-!
# Helper lemmas for C19 (apodization windows, poling domains) over ℝ
-/
namespace Spdc.Poling
open Spdc

/-- `f64 as usize` at ℝ: truncation of a non-negative number, `0` for negatives -/
noncomputable instance : AsUsize ℝ := ⟨fun x => ⌊x⌋.toNat⟩

theorem asUsize_real (x : ℝ) : (AsUsize.asUsize x : ℕ) = ⌊x⌋.toNat := rfl

theorem lit_21 : (21.0 : ℝ) = 21 := by norm_num
theorem lit_50 : (50.0 : ℝ) = 50 := by norm_num
theorem lit_25 : (25.0 : ℝ) = 25 := by norm_num
theorem lit_27 : (27.0 : ℝ) = 27 := by norm_num
theorem lit_23 : (23.0 : ℝ) = 23 := by norm_num

theorem twoPi_real : (twoPi : ℝ) = 2 * Real.pi := by
  simp [twoPi, lit_two, Transc.pi]

theorem sq_real (x : ℝ) : sq x = x ^ 2 := by simp [sq, pow_two]


/-- the window inside the admissible range is the raw formula -/
theorem window_in_range (w : Apod ℝ) (z len : ℝ) (hz : -1 ≤ z ∧ z ≤ 1) :
    window w z len = windowRaw w z len := by
  unfold window
  rw [if_pos]
  simpa [lit_one] using hz

theorem window_out_of_range (w : Apod ℝ) (z len : ℝ) (hz : z < -1 ∨ 1 < z) :
    (window w z len).isPanic = true := by
  unfold window
  rw [if_neg]
  · rfl
  · simp only [lit_one]; intro h; rcases hz with h' | h' <;> linarith [h.1, h.2]

/-- the six algebraic/trigonometric kinds at width parameter 1 as real functions -/
noncomputable def bartlett1 (z : ℝ) : ℝ := 1 - |z|
noncomputable def blackman1 (z : ℝ) : ℝ := 21 / 50 + 1 / 2 * Real.cos (Real.pi * z) + 2 / 25 * Real.cos (2 * Real.pi * z)
noncomputable def connes1 (z : ℝ) : ℝ := (1 - z ^ 2) ^ 2
noncomputable def cosine1 (z : ℝ) : ℝ := Real.cos (Real.pi / 2 * z)
noncomputable def hamming1 (z : ℝ) : ℝ := (27 + 23 * Real.cos (Real.pi * z)) / 50
noncomputable def welch1 (z : ℝ) : ℝ := 1 - z ^ 2

theorem windowRaw_bartlett1 (z len : ℝ) : windowRaw (.bartlett 1) z len = .ok (bartlett1 z) := by
  simp [windowRaw, bartlett1, lit_one, Transc.abs]
theorem windowRaw_blackman1 (z len : ℝ) : windowRaw (.blackman 1) z len = .ok (blackman1 z) := by
  simp [windowRaw, blackman1, lit_21, lit_50, lit_25, lit_two, lit_half, twoPi_real, Transc.cos, Transc.pi]
theorem windowRaw_connes1 (z len : ℝ) : windowRaw (.connes 1) z len = .ok (connes1 z) := by
  simp [windowRaw, connes1, lit_one, sq_real]
theorem windowRaw_cosine1 (z len : ℝ) : windowRaw (.cosine 1) z len = .ok (cosine1 z) := by
  simp only [windowRaw, cosine1, lit_half, Transc.cos, Transc.pi, div_one]
  congr 2; ring
theorem windowRaw_hamming1 (z len : ℝ) : windowRaw (.hamming 1) z len = .ok (hamming1 z) := by
  simp [windowRaw, hamming1, lit_27, lit_23, lit_50, Transc.cos, Transc.pi]
theorem windowRaw_welch1 (z len : ℝ) : windowRaw (.welch 1) z len = .ok (welch1 z) := by
  simp [windowRaw, welch1, lit_one, sq_real]

theorem bartlett1_even (z : ℝ) : bartlett1 (-z) = bartlett1 z := by simp [bartlett1]
theorem blackman1_even (z : ℝ) : blackman1 (-z) = blackman1 z := by simp [blackman1]
theorem connes1_even (z : ℝ) : connes1 (-z) = connes1 z := by simp [connes1]
theorem cosine1_even (z : ℝ) : cosine1 (-z) = cosine1 z := by simp [cosine1]
theorem hamming1_even (z : ℝ) : hamming1 (-z) = hamming1 z := by simp [hamming1]
theorem welch1_even (z : ℝ) : welch1 (-z) = welch1 z := by simp [welch1]

theorem bartlett1_zero : bartlett1 0 = 1 := by simp [bartlett1]
theorem blackman1_zero : blackman1 0 = 1 := by simp [blackman1]; norm_num
theorem connes1_zero : connes1 0 = 1 := by simp [connes1]
theorem cosine1_zero : cosine1 0 = 1 := by simp [cosine1]
theorem hamming1_zero : hamming1 0 = 1 := by simp [hamming1]; norm_num
theorem welch1_zero : welch1 0 = 1 := by simp [welch1]

theorem bartlett1_range {z : ℝ} (h : -1 ≤ z ∧ z ≤ 1) : 0 ≤ bartlett1 z ∧ bartlett1 z ≤ 1 := by
  have : |z| ≤ 1 := abs_le.mpr h
  constructor <;> simp only [bartlett1] <;> linarith [abs_nonneg z]

theorem blackman1_eq (z : ℝ) :
    blackman1 z = 17 / 50 + 1 / 2 * Real.cos (Real.pi * z) + 4 / 25 * Real.cos (Real.pi * z) ^ 2 := by
  have : Real.cos (2 * Real.pi * z) = 2 * Real.cos (Real.pi * z) ^ 2 - 1 := by
    rw [mul_assoc, Real.cos_two_mul]
  simp only [blackman1, this]; ring

theorem blackman1_range (z : ℝ) : 0 ≤ blackman1 z ∧ blackman1 z ≤ 1 := by
  rw [blackman1_eq]
  have h1 := Real.neg_one_le_cos (Real.pi * z)
  have h2 := Real.cos_le_one (Real.pi * z)
  constructor <;> nlinarith

theorem connes1_range {z : ℝ} (h : -1 ≤ z ∧ z ≤ 1) : 0 ≤ connes1 z ∧ connes1 z ≤ 1 := by
  have hz : z ^ 2 ≤ 1 := by nlinarith [h.1, h.2]
  have h0 : 0 ≤ z ^ 2 := sq_nonneg z
  simp only [connes1]
  constructor
  · positivity
  · nlinarith

theorem cosine1_range {z : ℝ} (h : -1 ≤ z ∧ z ≤ 1) : 0 ≤ cosine1 z ∧ cosine1 z ≤ 1 := by
  simp only [cosine1]
  refine ⟨Real.cos_nonneg_of_mem_Icc ⟨?_, ?_⟩, Real.cos_le_one _⟩ <;> nlinarith [Real.pi_pos, h.1, h.2]

theorem hamming1_range (z : ℝ) : 0 ≤ hamming1 z ∧ hamming1 z ≤ 1 := by
  have h1 := Real.neg_one_le_cos (Real.pi * z)
  have h2 := Real.cos_le_one (Real.pi * z)
  simp only [hamming1]
  constructor
  · apply div_nonneg <;> linarith
  · rw [div_le_one (by norm_num)]; linarith

theorem welch1_range {z : ℝ} (h : -1 ≤ z ∧ z ≤ 1) : 0 ≤ welch1 z ∧ welch1 z ≤ 1 := by
  have hz : z ^ 2 ≤ 1 := by nlinarith [h.1, h.2]
  have h0 : 0 ≤ z ^ 2 := sq_nonneg z
  simp only [welch1]
  constructor <;> linarith

/-- the Gaussian window as a real function of `z` (`u = fwhm / L`, relative FWHM) -/
noncomputable def gaussianW (fwhm len z : ℝ) : ℝ :=
  Real.exp (-(1 / 2) * (z / (2 * (fwhm / (2 * Real.sqrt (2 * Real.log 2))) / len)) ^ 2)

theorem windowRaw_gaussian (fwhm z len : ℝ) :
    windowRaw (.gaussian fwhm) z len = .ok (gaussianW fwhm len z) := by
  simp [windowRaw, gaussianW, fwhmToSigma, fwhmOverWaist, lit_two, lit_half, sq_real, Transc.exp,
    Transc.sqrt, Transc.ln]

theorem gaussianW_even (fwhm len z : ℝ) : gaussianW fwhm len (-z) = gaussianW fwhm len z := by
  simp [gaussianW, neg_div]

theorem gaussianW_zero (fwhm len : ℝ) : gaussianW fwhm len 0 = 1 := by simp [gaussianW]

theorem gaussianW_range (fwhm len z : ℝ) : 0 ≤ gaussianW fwhm len z ∧ gaussianW fwhm len z ≤ 1 := by
  refine ⟨(Real.exp_pos _).le, ?_⟩
  simp only [gaussianW]
  rw [Real.exp_le_one_iff]
  have := sq_nonneg (z / (2 * (fwhm / (2 * Real.sqrt (2 * Real.log 2))) / len))
  nlinarith

theorem gaussianW_half (fwhm len : ℝ) (hf : fwhm ≠ 0) (hl : len ≠ 0) :
    gaussianW fwhm len (fwhm / len) = 1 / 2 := by
  have hlog : 0 < Real.log 2 := Real.log_pos (by norm_num)
  have hs : 0 < Real.sqrt (2 * Real.log 2) := Real.sqrt_pos.mpr (by linarith)
  have hq : fwhm / len / (2 * (fwhm / (2 * Real.sqrt (2 * Real.log 2))) / len)
      = Real.sqrt (2 * Real.log 2) := by
    field_simp
  simp only [gaussianW, hq]
  rw [Real.sq_sqrt (by linarith)]
  have : -(1 / 2) * (2 * Real.log 2) = Real.log (1 / 2) := by
    rw [one_div, Real.log_inv]; ring
  rw [this, Real.exp_log (by norm_num)]

end Spdc.Poling
