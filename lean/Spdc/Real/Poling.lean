import Spdc.Model.Poling
import Spdc.Real.Inst
import Mathlib.Analysis.SpecialFunctions.Trigonometric.Bounds
import Mathlib.Analysis.SpecialFunctions.Pow.Real
import Mathlib.Tactic.Ring
import Mathlib.Tactic.Linarith
import Mathlib.Tactic.FieldSimp
import Mathlib.Tactic.NormNum
import Mathlib.Tactic.Positivity
/-!
# Helper lemmas for C19 (apodization windows, poling domains) over ℝ
-/
namespace Spdc.Poling
open Spdc

/-- `f64 as usize` at ℝ: truncation of a non-negative number, `0` for negatives -/
noncomputable instance : AsUsize ℝ := ⟨fun x => ⌊x⌋.toNat⟩

theorem asUsize_real (x : ℝ) : (AsUsize.asUsize x : ℕ) = ⌊x⌋.toNat := rfl

theorem lit_21 : (21.0 : ℝ) = 21 := by norm_num
theorem lit_50 : (50.0 : ℝ) = 50 := by norm_num
theorem lit_25 : (25.0 : ℝ) = 25 := by norm_num
theorem lit_27 : (27.0 : ℝ) = 27 := by norm_num
theorem lit_23 : (23.0 : ℝ) = 23 := by norm_num

theorem twoPi_real : (twoPi : ℝ) = 2 * Real.pi := by
  simp [twoPi, lit_two, Transc.pi]

theorem sq_real (x : ℝ) : sq x = x ^ 2 := by simp [sq, pow_two]


/-- the window inside the admissible range is the raw formula -/
theorem window_in_range (w : Apod ℝ) (z len : ℝ) (hz : -1 ≤ z ∧ z ≤ 1) :
    window w z len = windowRaw w z len := by
  unfold window
  rw [if_pos]
  simpa [lit_one] using hz

theorem window_out_of_range (w : Apod ℝ) (z len : ℝ) (hz : z < -1 ∨ 1 < z) :
    (window w z len).isPanic = true := by
  unfold window
  rw [if_neg]
  · rfl
  · simp only [lit_one]; intro h; rcases hz with h' | h' <;> linarith [h.1, h.2]

/-- the six algebraic/trigonometric kinds at width parameter 1 as real functions -/
noncomputable def bartlett1 (z : ℝ) : ℝ := 1 - |z|
noncomputable def blackman1 (z : ℝ) : ℝ := 21 / 50 + 1 / 2 * Real.cos (Real.pi * z) + 2 / 25 * Real.cos (2 * Real.pi * z)
noncomputable def connes1 (z : ℝ) : ℝ := (1 - z ^ 2) ^ 2
noncomputable def cosine1 (z : ℝ) : ℝ := Real.cos (Real.pi / 2 * z)
noncomputable def hamming1 (z : ℝ) : ℝ := (27 + 23 * Real.cos (Real.pi * z)) / 50
noncomputable def welch1 (z : ℝ) : ℝ := 1 - z ^ 2

theorem windowRaw_bartlett1 (z len : ℝ) : windowRaw (.bartlett 1) z len = .ok (bartlett1 z) := by
  simp [windowRaw, bartlett1, lit_one, Transc.abs]
theorem windowRaw_blackman1 (z len : ℝ) : windowRaw (.blackman 1) z len = .ok (blackman1 z) := by
  simp [windowRaw, blackman1, lit_21, lit_50, lit_25, lit_two, lit_half, twoPi_real, Transc.cos, Transc.pi]
theorem windowRaw_connes1 (z len : ℝ) : windowRaw (.connes 1) z len = .ok (connes1 z) := by
  simp [windowRaw, connes1, lit_one, sq_real]
theorem windowRaw_cosine1 (z len : ℝ) : windowRaw (.cosine 1) z len = .ok (cosine1 z) := by
  simp only [windowRaw, cosine1, lit_half, Transc.cos, Transc.pi, div_one]
  congr 2; ring
theorem windowRaw_hamming1 (z len : ℝ) : windowRaw (.hamming 1) z len = .ok (hamming1 z) := by
  simp [windowRaw, hamming1, lit_27, lit_23, lit_50, Transc.cos, Transc.pi]
theorem windowRaw_welch1 (z len : ℝ) : windowRaw (.welch 1) z len = .ok (welch1 z) := by
  simp [windowRaw, welch1, lit_one, sq_real]

theorem bartlett1_even (z : ℝ) : bartlett1 (-z) = bartlett1 z := by simp [bartlett1]
theorem blackman1_even (z : ℝ) : blackman1 (-z) = blackman1 z := by simp [blackman1]
theorem connes1_even (z : ℝ) : connes1 (-z) = connes1 z := by simp [connes1]
theorem cosine1_even (z : ℝ) : cosine1 (-z) = cosine1 z := by simp [cosine1]
theorem hamming1_even (z : ℝ) : hamming1 (-z) = hamming1 z := by simp [hamming1]
theorem welch1_even (z : ℝ) : welch1 (-z) = welch1 z := by simp [welch1]

theorem bartlett1_zero : bartlett1 0 = 1 := by simp [bartlett1]
theorem blackman1_zero : blackman1 0 = 1 := by simp [blackman1]; norm_num
theorem connes1_zero : connes1 0 = 1 := by simp [connes1]
theorem cosine1_zero : cosine1 0 = 1 := by simp [cosine1]
theorem hamming1_zero : hamming1 0 = 1 := by simp [hamming1]; norm_num
theorem welch1_zero : welch1 0 = 1 := by simp [welch1]

theorem bartlett1_range {z : ℝ} (h : -1 ≤ z ∧ z ≤ 1) : 0 ≤ bartlett1 z ∧ bartlett1 z ≤ 1 := by
  have : |z| ≤ 1 := abs_le.mpr h
  constructor <;> simp only [bartlett1] <;> linarith [abs_nonneg z]

theorem blackman1_eq (z : ℝ) :
    blackman1 z = 17 / 50 + 1 / 2 * Real.cos (Real.pi * z) + 4 / 25 * Real.cos (Real.pi * z) ^ 2 := by
  have : Real.cos (2 * Real.pi * z) = 2 * Real.cos (Real.pi * z) ^ 2 - 1 := by
    rw [mul_assoc, Real.cos_two_mul]
  simp only [blackman1, this]; ring

theorem blackman1_range (z : ℝ) : 0 ≤ blackman1 z ∧ blackman1 z ≤ 1 := by
  rw [blackman1_eq]
  have h1 := Real.neg_one_le_cos (Real.pi * z)
  have h2 := Real.cos_le_one (Real.pi * z)
  constructor <;> nlinarith

theorem connes1_range {z : ℝ} (h : -1 ≤ z ∧ z ≤ 1) : 0 ≤ connes1 z ∧ connes1 z ≤ 1 := by
  have hz : z ^ 2 ≤ 1 := by nlinarith [h.1, h.2]
  have h0 : 0 ≤ z ^ 2 := sq_nonneg z
  simp only [connes1]
  constructor
  · positivity
  · nlinarith

theorem cosine1_range {z : ℝ} (h : -1 ≤ z ∧ z ≤ 1) : 0 ≤ cosine1 z ∧ cosine1 z ≤ 1 := by
  simp only [cosine1]
  refine ⟨Real.cos_nonneg_of_mem_Icc ⟨?_, ?_⟩, Real.cos_le_one _⟩ <;> nlinarith [Real.pi_pos, h.1, h.2]

theorem hamming1_range (z : ℝ) : 0 ≤ hamming1 z ∧ hamming1 z ≤ 1 := by
  have h1 := Real.neg_one_le_cos (Real.pi * z)
  have h2 := Real.cos_le_one (Real.pi * z)
  simp only [hamming1]
  constructor
  · apply div_nonneg <;> linarith
  · rw [div_le_one (by norm_num)]; linarith

theorem welch1_range {z : ℝ} (h : -1 ≤ z ∧ z ≤ 1) : 0 ≤ welch1 z ∧ welch1 z ≤ 1 := by
  have hz : z ^ 2 ≤ 1 := by nlinarith [h.1, h.2]
  have h0 : 0 ≤ z ^ 2 := sq_nonneg z
  simp only [welch1]
  constructor <;> linarith

/-- the Gaussian window as a real function of `z` (`u = fwhm / L`, relative FWHM) -/
noncomputable def gaussianW (fwhm len z : ℝ) : ℝ :=
  Real.exp (-(1 / 2) * (z / (2 * (fwhm / (2 * Real.sqrt (2 * Real.log 2))) / len)) ^ 2)

theorem windowRaw_gaussian (fwhm z len : ℝ) :
    windowRaw (.gaussian fwhm) z len = .ok (gaussianW fwhm len z) := by
  simp [windowRaw, gaussianW, fwhmToSigma, fwhmOverWaist, lit_two, lit_half, sq_real, Transc.exp,
    Transc.sqrt, Transc.ln]

theorem gaussianW_even (fwhm len z : ℝ) : gaussianW fwhm len (-z) = gaussianW fwhm len z := by
  simp [gaussianW, neg_div]

theorem gaussianW_zero (fwhm len : ℝ) : gaussianW fwhm len 0 = 1 := by simp [gaussianW]

theorem gaussianW_range (fwhm len z : ℝ) : 0 ≤ gaussianW fwhm len z ∧ gaussianW fwhm len z ≤ 1 := by
  refine ⟨(Real.exp_pos _).le, ?_⟩
  simp only [gaussianW]
  rw [Real.exp_le_one_iff]
  have := sq_nonneg (z / (2 * (fwhm / (2 * Real.sqrt (2 * Real.log 2))) / len))
  nlinarith

theorem gaussianW_half (fwhm len : ℝ) (hf : fwhm ≠ 0) (hl : len ≠ 0) :
    gaussianW fwhm len (fwhm / len) = 1 / 2 := by
  have hlog : 0 < Real.log 2 := Real.log_pos (by norm_num)
  have hs : 0 < Real.sqrt (2 * Real.log 2) := Real.sqrt_pos.mpr (by linarith)
  have hq : fwhm / len / (2 * (fwhm / (2 * Real.sqrt (2 * Real.log 2))) / len)
      = Real.sqrt (2 * Real.log 2) := by
    field_simp
  simp only [gaussianW, hq]
  rw [Real.sq_sqrt (by linarith)]
  have : -(1 / 2) * (2 * Real.log 2) = Real.log (1 / 2) := by
    rw [one_div, Real.log_inv]; ring
  rw [this, Real.exp_log (by norm_num)]

/-- the interpolation index `i = ½(z+1)(n−1)` over ℝ -/
noncomputable def interpIndex (n : ℕ) (z : ℝ) : ℝ := 1 / 2 * (z + 1) * ((n - 1 : ℕ) : ℝ)

theorem interpolate_nil (z : ℝ) : interpolate ([] : List ℝ) z = .ok 1 := by
  simp [interpolate, lit_one]

theorem interpolate_eq (vs : List ℝ) (hn : vs.length ≠ 0) (z : ℝ) (b a : ℕ)
    (hb : ⌊interpIndex vs.length z⌋.toNat = b) (ha : ⌈interpIndex vs.length z⌉.toNat = a)
    (hb' : b < vs.length) (ha' : a < vs.length) :
    interpolate vs z = .ok (vs[b] * (1 - (interpIndex vs.length z - b)) + vs[a] * (interpIndex vs.length z - b)) := by
  unfold interpolate
  simp only [hn, if_false, lit_half, lit_one, Transc.ceil, Transc.floor, asUsize_real,
    Int.floor_intCast, Grid.lerp]
  have hi : (1 / 2 : ℝ) * (z + 1) * ((vs.length - 1 : ℕ) : ℝ) = interpIndex vs.length z := rfl
  rw [hi, hb, ha, List.getElem?_eq_getElem hb', List.getElem?_eq_getElem ha']

/-- position of the point a fraction `t` of the way from sample `j` to sample `j+1` -/
noncomputable def interpPos (n j : ℕ) (t : ℝ) : ℝ := -1 + 2 * ((j : ℝ) + t) / ((n - 1 : ℕ) : ℝ)

theorem interpIndex_pos (n j : ℕ) (t : ℝ) (hn : 2 ≤ n) : interpIndex n (interpPos n j t) = j + t := by
  have : ((n - 1 : ℕ) : ℝ) ≠ 0 := by
    have : n - 1 ≠ 0 := by omega
    exact_mod_cast this
  simp only [interpIndex, interpPos]; field_simp; ring

theorem interpPos_range (n j : ℕ) (t : ℝ) (hj : j + 1 < n) (ht : 0 ≤ t ∧ t ≤ 1) :
    -1 ≤ interpPos n j t ∧ interpPos n j t ≤ 1 := by
  have hpos : (0 : ℝ) < ((n - 1 : ℕ) : ℝ) := by
    have : 0 < n - 1 := by omega
    exact_mod_cast this
  have hle : (j : ℝ) + 1 ≤ ((n - 1 : ℕ) : ℝ) := by
    have : j + 1 ≤ n - 1 := by omega
    exact_mod_cast this
  have hj0 : (0 : ℝ) ≤ j := Nat.cast_nonneg j
  simp only [interpPos]
  constructor
  · have : 0 ≤ 2 * ((j : ℝ) + t) / ((n - 1 : ℕ) : ℝ) := by
      apply div_nonneg _ hpos.le; linarith [ht.1]
    linarith
  · have : 2 * ((j : ℝ) + t) / ((n - 1 : ℕ) : ℝ) ≤ 2 := by
      rw [div_le_iff₀ hpos]; linarith [ht.2]
    linarith

/-- between samples `j` and `j+1` the interpolated profile is the straight line through them -/
theorem interpolate_linear (vs : List ℝ) (j : ℕ) (hj : j + 1 < vs.length) (t : ℝ)
    (ht : 0 ≤ t ∧ t ≤ 1) :
    interpolate vs (interpPos vs.length j t) = .ok (vs[j] * (1 - t) + vs[j + 1] * t) := by
  have hn : vs.length ≠ 0 := by omega
  have hidx := interpIndex_pos vs.length j t (by omega)
  rcases eq_or_lt_of_le ht.1 with h0 | h0
  · -- t = 0 : both indices are j
    subst h0
    have hi : interpIndex vs.length (interpPos vs.length j 0) = (j : ℝ) := by rw [hidx]; ring
    rw [interpolate_eq vs hn _ j j (by rw [hi]; simp) (by rw [hi]; simp) (by omega) (by omega), hi]
    congr 1; ring
  rcases eq_or_lt_of_le ht.2 with h1 | h1
  · -- t = 1 : both indices are j+1
    subst h1
    have hi : interpIndex vs.length (interpPos vs.length j 1) = ((j + 1 : ℕ) : ℝ) := by
      rw [hidx]; push_cast; ring
    rw [interpolate_eq vs hn _ (j + 1) (j + 1) (by rw [hi]; simp) (by rw [hi]; simp) hj hj, hi]
    congr 1; push_cast; ring
  · -- 0 < t < 1 : floor j, ceil j+1
    have hfl : ⌊interpIndex vs.length (interpPos vs.length j t)⌋ = (j : ℤ) := by
      rw [hidx, Int.floor_eq_iff]; push_cast; constructor <;> linarith
    have hce : ⌈interpIndex vs.length (interpPos vs.length j t)⌉ = ((j + 1 : ℕ) : ℤ) := by
      rw [hidx, Int.ceil_eq_iff]; push_cast; constructor <;> linarith
    rw [interpolate_eq vs hn _ j (j + 1) (by rw [hfl]; simp) (by rw [hce]; simp) (by omega) hj, hidx]
    congr 1; ring

theorem interpolate_single (v z : ℝ) : interpolate [v] z = .ok v := by
  have : interpIndex 1 z = 0 := by simp [interpIndex]
  rw [interpolate_eq [v] (by simp) z 0 0 (by simp [this]) (by simp [this]) (by simp) (by simp)]
  simp [this]

/-- the narrower duty-cycle fraction `d = arccos(1 − 2a²) / 2π` -/
noncomputable def dutyX (a : ℝ) : ℝ := Real.arccos (1 - 2 * a ^ 2) / (2 * Real.pi)

theorem domainPair_real (a z : ℝ) :
    domainPair a z = if 0 < z then (1 - dutyX a, dutyX a) else (dutyX a, 1 - dutyX a) := by
  simp [domainPair, dutyX, lit_one, lit_two, lit_zero, sq_real, twoPi_real, Transc.acos]

theorem dutyX_nonneg (a : ℝ) : 0 ≤ dutyX a :=
  div_nonneg (Real.arccos_nonneg _) (by positivity)

theorem dutyX_le_half (a : ℝ) : dutyX a ≤ 1 / 2 := by
  unfold dutyX
  rw [div_le_iff₀ (by positivity)]
  linarith [Real.arccos_le_pi (1 - 2 * a ^ 2)]

theorem dutyX_one : dutyX 1 = 1 / 2 := by
  have : (1 : ℝ) - 2 * 1 ^ 2 = -1 := by norm_num
  unfold dutyX
  rw [this, Real.arccos_neg_one]
  field_simp

/-- `sin(π d) = |a|` for window values in `[−1, 1]` -/
theorem sin_pi_dutyX (a : ℝ) (ha : -1 ≤ a ∧ a ≤ 1) : Real.sin (Real.pi * dutyX a) = |a| := by
  have hc1 : -1 ≤ 1 - 2 * a ^ 2 := by nlinarith [ha.1, ha.2]
  have hc2 : 1 - 2 * a ^ 2 ≤ 1 := by nlinarith [sq_nonneg a]
  set θ := Real.arccos (1 - 2 * a ^ 2) with hθ
  have harg : Real.pi * dutyX a = θ / 2 := by
    unfold dutyX; rw [← hθ]; field_simp
  rw [harg]
  have h0 : 0 ≤ θ / 2 := by have := Real.arccos_nonneg (1 - 2 * a ^ 2); linarith
  have hpi : θ / 2 ≤ Real.pi := by have := Real.arccos_le_pi (1 - 2 * a ^ 2); linarith [Real.pi_pos]
  have hsin : 0 ≤ Real.sin (θ / 2) := Real.sin_nonneg_of_nonneg_of_le_pi h0 hpi
  have hsq : Real.sin (θ / 2) ^ 2 = a ^ 2 := by
    have h2 := Real.cos_two_mul (θ / 2)
    have h3 := Real.sin_sq_add_cos_sq (θ / 2)
    have h4 : Real.cos (2 * (θ / 2)) = 1 - 2 * a ^ 2 := by
      rw [show 2 * (θ / 2) = θ by ring, hθ, Real.cos_arccos hc1 hc2]
    nlinarith
  calc Real.sin (θ / 2) = |Real.sin (θ / 2)| := (abs_of_nonneg hsin).symm
    _ = |a| := by rw [← sq_eq_sq_iff_abs_eq_abs]; exact hsq

/-- all clauses about one entry of the domain list -/
theorem domainPair_props (a z : ℝ) (ha : -1 ≤ a ∧ a ≤ 1) :
    0 ≤ (domainPair a z).1 ∧ (domainPair a z).1 ≤ 1 ∧ 0 ≤ (domainPair a z).2 ∧ (domainPair a z).2 ≤ 1
      ∧ (domainPair a z).1 + (domainPair a z).2 = 1
      ∧ min (domainPair a z).1 (domainPair a z).2 = dutyX a
      ∧ Real.sin (Real.pi * dutyX a) = |a|
      ∧ (0 < z → (domainPair a z).2 = dutyX a) ∧ (¬ 0 < z → (domainPair a z).1 = dutyX a) := by
  have h0 := dutyX_nonneg a
  have h1 := dutyX_le_half a
  rw [domainPair_real]
  split_ifs with hz
  · refine ⟨by simp; linarith, by simp; linarith, h0, by simp; linarith, by simp, ?_, sin_pi_dutyX a ha,
      fun _ => rfl, fun h => absurd hz h⟩
    simp only; rw [min_eq_right]; linarith
  · refine ⟨h0, by simp; linarith, by simp; linarith, by simp; linarith, by simp, ?_, sin_pi_dutyX a ha,
      fun h => absurd h hz, fun _ => rfl⟩
    simp only; rw [min_eq_left]; linarith

/-- centre of domain `i` of `n` -/
theorem domainCentre_real (i n : ℕ) : (domainCentre i n : ℝ) = -1 + (2 * (i : ℝ) + 1) / n := by
  simp only [domainCentre, Grid.lerp, lit_one, lit_half]
  rcases Nat.eq_zero_or_pos n with h | h
  · subst h; simp
  · have : (n : ℝ) ≠ 0 := by positivity
    field_simp; ring

theorem domainCentre_range (i n : ℕ) (hi : i < n) :
    -1 < (domainCentre i n : ℝ) ∧ (domainCentre i n : ℝ) < 1 := by
  rw [domainCentre_real]
  have hn : (0 : ℝ) < n := by have : 0 < n := by omega
                              exact_mod_cast this
  have hin : (i : ℝ) + 1 ≤ n := by exact_mod_cast hi
  have hi0 : (0 : ℝ) ≤ i := Nat.cast_nonneg i
  constructor
  · have : 0 < (2 * (i : ℝ) + 1) / n := by positivity
    linarith
  · have : (2 * (i : ℝ) + 1) / n < 2 := by rw [div_lt_iff₀ hn]; linarith
    linarith

/-- the centres of domains `i` and `n−1−i` are mirror images -/
theorem domainCentre_mirror (i n : ℕ) (hi : i < n) :
    (domainCentre (n - 1 - i) n : ℝ) = -(domainCentre i n : ℝ) := by
  rw [domainCentre_real, domainCentre_real]
  have hn : (n : ℝ) ≠ 0 := by have : 0 < n := by omega
                              positivity
  have : ((n - 1 - i : ℕ) : ℝ) = (n : ℝ) - 1 - i := by
    rw [Nat.cast_sub (by omega), Nat.cast_sub (by omega)]; simp
  rw [this]; field_simp; ring

theorem numDomains_on (period : ℝ) (sign : Sign) (w : Apod ℝ) (len : ℝ) :
    (PP.on period sign w).numDomains len = ⌈len / period⌉.toNat := by
  simp [PP.numDomains, Transc.ceil, asUsize_real]

/-- inside `[−1, 1]` no window panics: the interpolation indices stay inside the sample list -/
theorem interpolate_ok (vs : List ℝ) (z : ℝ) (hz : -1 ≤ z ∧ z ≤ 1) : ∃ v, interpolate vs z = .ok v := by
  rcases Nat.eq_zero_or_pos vs.length with h0 | hpos
  · have : vs = [] := List.eq_nil_of_length_eq_zero h0
    subst this; exact ⟨1, interpolate_nil z⟩
  · have hn : vs.length ≠ 0 := by omega
    have hcast : ((vs.length - 1 : ℕ) : ℝ) = (vs.length : ℝ) - 1 := by
      rw [Nat.cast_sub (by omega)]; simp
    have hi0 : 0 ≤ interpIndex vs.length z := by
      unfold interpIndex
      have : (0 : ℝ) ≤ ((vs.length - 1 : ℕ) : ℝ) := Nat.cast_nonneg _
      have : 0 ≤ z + 1 := by linarith [hz.1]
      positivity
    have hi1 : interpIndex vs.length z ≤ ((vs.length - 1 : ℕ) : ℝ) := by
      unfold interpIndex
      have h1 : (0 : ℝ) ≤ ((vs.length - 1 : ℕ) : ℝ) := Nat.cast_nonneg _
      have h2 : 1 / 2 * (z + 1) ≤ 1 := by linarith [hz.2]
      calc 1 / 2 * (z + 1) * ((vs.length - 1 : ℕ) : ℝ) ≤ 1 * ((vs.length - 1 : ℕ) : ℝ) :=
            mul_le_mul_of_nonneg_right h2 h1
        _ = _ := one_mul _
    have hb : ⌊interpIndex vs.length z⌋.toNat < vs.length := by
      have h1 : ⌊interpIndex vs.length z⌋ ≤ ((vs.length - 1 : ℕ) : ℤ) := by
        rw [← Int.cast_le (R := ℝ)]
        exact (Int.floor_le _).trans (by simpa using hi1)
      have h2 : 0 ≤ ⌊interpIndex vs.length z⌋ := Int.floor_nonneg.mpr hi0
      omega
    have ha : ⌈interpIndex vs.length z⌉.toNat < vs.length := by
      have h1 : ⌈interpIndex vs.length z⌉ ≤ ((vs.length - 1 : ℕ) : ℤ) := by
        rw [Int.ceil_le]; simpa using hi1
      have h2 : 0 ≤ ⌈interpIndex vs.length z⌉ := Int.ceil_nonneg hi0
      omega
    exact ⟨_, interpolate_eq vs hn z _ _ rfl rfl hb ha⟩

theorem window_ok (w : Apod ℝ) (z len : ℝ) (hz : -1 ≤ z ∧ z ≤ 1) : ∃ v, window w z len = .ok v := by
  rw [window_in_range w z len hz]
  cases w with
  | interpolate vs => exact interpolate_ok vs z hz
  | off => exact ⟨_, rfl⟩
  | gaussian f => exact ⟨_, rfl⟩
  | bartlett a => exact ⟨_, rfl⟩
  | blackman a => exact ⟨_, rfl⟩
  | connes a => exact ⟨_, rfl⟩
  | cosine a => exact ⟨_, rfl⟩
  | hamming a => exact ⟨_, rfl⟩
  | welch a => exact ⟨_, rfl⟩

/-- the window value at the centre of domain `i` of `n` (total function: `0` stands for a panic,
which `window_ok` excludes) -/
noncomputable def centreValue (w : Apod ℝ) (len : ℝ) (i n : ℕ) : ℝ :=
  match window w (domainCentre i n) len with
  | .ok a => a
  | _ => 0

theorem window_centre (w : Apod ℝ) (len : ℝ) (i n : ℕ) (hi : i < n) :
    window w (domainCentre i n) len = .ok (centreValue w len i n) := by
  obtain ⟨h1, h2⟩ := domainCentre_range i n hi
  obtain ⟨v, hv⟩ := window_ok w (domainCentre i n) len ⟨h1.le, h2.le⟩
  simp [centreValue, hv]

theorem domains_foldr (w : Apod ℝ) (len : ℝ) (n : ℕ) (l : List ℕ) (hl : ∀ i ∈ l, i < n) :
    l.foldr (domainStep w len n) (Outcome.ok [])
      = Outcome.ok (l.map fun i => domainPair (centreValue w len i n) (domainCentre i n)) := by
  induction l with
  | nil => rfl
  | cons i l ih =>
    have hi : i < n := hl i (by simp)
    have ih' := ih (fun j hj => hl j (by simp [hj]))
    simp only [List.foldr_cons, List.map_cons]
    rw [ih']
    simp only [domainStep, window_centre w len i n hi]

/-- the domain list: `⌈L/Λ⌉` entries, entry `i` is `domainPair (a(z_i)) z_i` — never a panic -/
theorem polingDomains_on (period : ℝ) (sign : Sign) (w : Apod ℝ) (len : ℝ) :
    (PP.on period sign w).polingDomains len
      = .ok ((List.range ⌈len / period⌉.toNat).map fun i =>
          domainPair (centreValue w len i ⌈len / period⌉.toNat) (domainCentre i ⌈len / period⌉.toNat)) := by
  have := domains_foldr w len ⌈len / period⌉.toNat (List.range ⌈len / period⌉.toNat)
    (fun i hi => List.mem_range.mp hi)
  rw [← this]
  simp only [PP.polingDomains, numDomains_on]

/-! ### the period/apodization state machine -/

/-- stored magnitude is positive (the sign convention follows, see `sign_iff`) -/
def PP.Inv : PP ℝ → Prop
  | .off => True
  | .on period _ _ => 0 < period

theorem Sign.mul_pos_real (x : ℝ) : Sign.mul .pos x = x := by simp [Sign.mul, lit_one]
theorem Sign.mul_neg_real (x : ℝ) : Sign.mul .neg x = -x := by simp [Sign.mul, lit_one]

theorem new_on (p : ℝ) (w : Apod ℝ) :
    PP.new p w = .on (if 0 < p then p else -p) (if 0 < p then .pos else .neg) w := by
  simp [PP.new, lit_zero]

theorem new_signed (p : ℝ) (w : Apod ℝ) : (PP.new p w).signedPeriod? = some p := by
  rw [new_on]; unfold PP.signedPeriod?
  split_ifs with h
  · simp [Sign.mul_pos_real]
  · simp [Sign.mul_neg_real]

theorem new_inv (p : ℝ) (w : Apod ℝ) (hp : p ≠ 0) : (PP.new p w).Inv := by
  rw [new_on]; unfold PP.Inv
  split_ifs with h
  · exact h
  · have : p < 0 := lt_of_le_of_ne (not_lt.mp h) hp
    linarith

/-- for a positive stored magnitude: negative sign ⇔ negative signed period, and the signed period
has the stored magnitude as absolute value -/
theorem sign_iff (period : ℝ) (sign : Sign) (hp : 0 < period) :
    (sign = .neg ↔ sign.mul period < 0) ∧ |sign.mul period| = period := by
  cases sign
  · simp [Sign.mul_pos_real, abs_of_pos hp, hp.le]
  · simp [Sign.mul_neg_real, abs_of_pos hp, hp]

theorem withApodization_on (period : ℝ) (sign : Sign) (w0 w : Apod ℝ) (hp : 0 < period) :
    (PP.on period sign w0).withApodization w = .on period sign w := by
  show PP.new (sign.mul period) w = _
  rw [new_on]
  cases sign
  · simp [Sign.mul_pos_real, hp]
  · simp [Sign.mul_neg_real, not_lt.mpr hp.le]

theorem assignPeriod_on (period : ℝ) (sign : Sign) (w : Apod ℝ) (p : ℝ) :
    (PP.on period sign w).assignPeriod p = PP.new p w := by
  rw [new_on]
  simp only [PP.assignPeriod, Transc.abs, lit_zero]
  split_ifs with h
  · rw [abs_of_pos h]
  · rw [abs_of_nonpos (not_lt.mp h)]

/-- requested period of an operation, if it requests one -/
def Op.period? : Op ℝ → Option ℝ
  | .new p _ => some p
  | .withPeriod p => some p
  | .assignPeriod p => some p
  | _ => none

theorem step_inv (p : PP ℝ) (o : Op ℝ) (hp : p.Inv) (ho : ∀ q, o.period? = some q → q ≠ 0) :
    (p.step o).Inv := by
  cases o with
  | new q w => exact new_inv q w (ho q rfl)
  | withPeriod q =>
    cases p with
    | off => exact new_inv q _ (ho q rfl)
    | on per s w => exact new_inv q _ (ho q rfl)
  | assignPeriod q =>
    cases p with
    | off => trivial
    | on per s w => simp only [PP.step]; rw [assignPeriod_on]; exact new_inv q _ (ho q rfl)
  | setApodization w =>
    cases p with
    | off => trivial
    | on per s w0 => simp only [PP.step]; rw [withApodization_on per s w0 w hp]; exact hp
  | withApodization w =>
    cases p with
    | off => trivial
    | on per s w0 => simp only [PP.step]; rw [withApodization_on per s w0 w hp]; exact hp

theorem run_inv (ops : List (Op ℝ)) (p : PP ℝ) (hp : p.Inv)
    (ho : ∀ o ∈ ops, ∀ q, o.period? = some q → q ≠ 0) : (p.run ops).Inv := by
  induction ops generalizing p with
  | nil => exact hp
  | cons o ops ih =>
    simp only [PP.run, List.foldl_cons]
    exact ih (p.step o) (step_inv p o hp (ho o (by simp))) (fun o' ho' => ho o' (by simp [ho']))

theorem kEff_on (period : ℝ) (sign : Sign) (w : Apod ℝ) (hp : 0 < period) :
    (PP.on period sign w).kEff = .ok (2 * Real.pi / sign.mul period) := by
  simp [PP.kEff, lit_zero, hp, twoPi_real, lit_one]

end Spdc.Poling
