import Spdc.Model.Auto
import Spdc.Real.DeltaK
import Spdc.Real.NM1D
/-! # ℝ-side helper lemmas for `Model/Auto.lean` (C04) -/
namespace Spdc.Auto
end Spdc.Auto
