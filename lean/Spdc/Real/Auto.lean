import Spdc.Model.Auto
import Spdc.Real.DeltaK
import Spdc.Real.NM1D
import Mathlib.Analysis.Real.Pi.Bounds
/-!
# ℝ-side helper lemmas for `Model/Auto.lean` (C04)
-/
namespace Spdc.Auto
open Spdc.NM1D Spdc.DeltaK Real

set_option exponentiation.threshold 400 in
theorem minPositive_pos : (0 : ℝ) < minPositive := by
  unfold minPositive; norm_num

set_option exponentiation.threshold 400 in
theorem minPositive_le_micro : (minPositive : ℝ) ≤ 1e-6 := by
  unfold minPositive; norm_num

/-- unfolding of `optimum_poling_period` for `z ≠ 0` -/
theorem optimumPolingPeriod_of_ne {z : ℝ} (hz : z ≠ 0) (cost : Bool → ℝ → Cost ℝ) (L : ℝ) :
    optimumPolingPeriod z cost L =
      match NM1D.run (cost (computeSign z)) |2 * π / z| (|2 * π / z| + 1e-6) 1000 minPositive L 1e-12 with
      | .ok period =>
        if L * (1 - 1e-9) ≤ period ∨ L < period ∨ period < minPositive then
          .err "Could not determine poling period from specified values"
        else .ok (Period.finite (signMul (computeSign z) period))
      | .err e => .err e
      | .panic s => .panic s := by
  have h : ¬ (¬ (z < 0) ∧ ¬ (0 < z)) := by
    intro h; exact hz (le_antisymm (not_lt.mp h.2) (not_lt.mp h.1))
  simp only [optimumPolingPeriod, lit_zero, lit_one, h, if_false, twoPi_eq, tabs]
  cases NM1D.run (cost (computeSign z)) |2 * π / z| (|2 * π / z| + 1e-6) 1000 minPositive L 1e-12 <;> rfl

/-- an `Ok(Λ)` of `optimum_poling_period` comes from an optimiser result inside `[MIN_POSITIVE, L]` -/
theorem optimumPolingPeriod_ok {z : ℝ} {cost : Bool → ℝ → Cost ℝ} {L v : ℝ}
    (h : optimumPolingPeriod z cost L = .ok (Period.finite v)) :
    z ≠ 0 ∧ ∃ p, NM1D.run (cost (computeSign z)) |2 * π / z| (|2 * π / z| + 1e-6) 1000
        minPositive L 1e-12 = .ok p ∧ minPositive ≤ p ∧ p ≤ L ∧ p < L * (1 - 1e-9) ∧
        v = signMul (computeSign z) p := by
  by_cases hz : z = 0
  · subst hz
    simp [optimumPolingPeriod, lit_zero] at h
  · refine ⟨hz, ?_⟩
    rw [optimumPolingPeriod_of_ne hz] at h
    cases hr : NM1D.run (cost (computeSign z)) |2 * π / z| (|2 * π / z| + 1e-6) 1000
        minPositive L 1e-12 with
    | ok p =>
      rw [hr] at h
      simp only at h
      split_ifs at h with hc
      rw [not_or, not_or, not_le, not_lt, not_lt] at hc
      simp only [Outcome.ok.injEq, Period.finite.injEq] at h
      exact ⟨p, rfl, hc.2.2, hc.2.1, hc.1, h.symm⟩
    | err e => rw [hr] at h; simp at h
    | panic s => rw [hr] at h; simp at h

theorem computeSign_iff (z : ℝ) : computeSign z = true ↔ z < 0 := by
  simp [computeSign, lit_zero]

/-- the collinear period cost at the ℝ instance -/
theorem collinearCost_eq {z p : ℝ} (neg : Bool) (hp : 0 < p) :
    collinearCost z neg p = .fin |z - 2 * π / signMul neg p| := by
  simp [collinearCost, kEff_on neg hp, tabs]

end Spdc.Auto
