import Spdc.Model.ComposeGrid
import Spdc.Real.ComposeLemmas
import Spdc.Real.ComposeAutoLemmas
import Spdc.Real.Counts
import Spdc.Real.HomLemmas
/-!
# ℝ-side lemmas about part 3 of the composed model (`Spdc/Model/ComposeGrid.lean`)

How the grid-level composition reduces to the layer models applied to the composed point functions:
a spectrum object produced by `jointSpectrum` carries its setup and division count; once the
joint-spectrum view `jsetup S = ok J` and the Simpson rule exist, the composed `jsa` / `jsi` /
`jsi_singles` are TOTAL functions of the frequencies (`PM.jsa J …`), so every `*_range` is a plain
`List.map` in the row-major order of the grid and the HOM / Schmidt / counts functions are the layer
functions applied to the sampled arrays.  The composed-model theorems themselves are appended to
`Props/C08.lean`, `C09.lean`, `C10.lean`, `C11.lean`, `C14.lean`, `C20.lean`.
-/
namespace Spdc.Compose
open Spdc Spdc.Grid

/-! ### collecting outcomes -/

theorem collectOutcomes_ok {β γ : Type} (l : List γ) (f : γ → β) :
    Hom.collectOutcomes (l.map fun x => Outcome.ok (f x)) = .ok (l.map f) := by
  induction l with
  | nil => rfl
  | cons a t ih => simp only [List.map_cons, Hom.collectOutcomes, ih]

/-- a point function that succeeds on every listed pair maps to the list of its values, in order -/
theorem mapPoints_ok {β : Type} (F : ℝ → ℝ → Outcome β) (f : ℝ → ℝ → β) (pts : List (ℝ × ℝ))
    (h : ∀ p ∈ pts, F p.1 p.2 = .ok (f p.1 p.2)) :
    mapPoints F pts = .ok (pts.map fun p => f p.1 p.2) := by
  unfold mapPoints
  rw [← collectOutcomes_ok]
  congr 1
  exact List.map_congr_left h

theorem mapPoints_total {β : Type} (f : ℝ → ℝ → β) (pts : List (ℝ × ℝ)) :
    mapPoints (fun a b => Outcome.ok (f a b)) pts = .ok (pts.map fun p => f p.1 p.2) :=
  mapPoints_ok _ f pts (fun _ _ => rfl)

theorem collectOutcomes_map {β γ : Type} (c : β → γ) (l : List (Outcome β)) :
    Hom.collectOutcomes (l.map (Outcome.map c)) = (Hom.collectOutcomes l).map (List.map c) := by
  induction l with
  | nil => rfl
  | cons x t ih =>
    cases x with
    | ok v =>
      simp only [List.map_cons, Outcome.map, Hom.collectOutcomes]
      have ih' : Hom.collectOutcomes (List.map (Outcome.map c) t)
          = Outcome.map (List.map c) (Hom.collectOutcomes t) := ih
      simp only [Outcome.map] at ih'
      rw [ih']
      cases Hom.collectOutcomes t <;> rfl
    | err e => rfl
    | panic e => rfl

/-- mapping the values of a point function commutes with collecting -/
theorem mapPoints_map {β γ : Type} (F : ℝ → ℝ → Outcome β) (c : β → γ) (pts : List (ℝ × ℝ)) :
    mapPoints (fun a b => (F a b).map c) pts = (mapPoints F pts).map (List.map c) := by
  unfold mapPoints
  rw [← collectOutcomes_map, List.map_map]
  rfl

/-! ### the point functions are total once the view and the rule exist -/

theorem offSupport_jsaRaw_zero {S : Setup ℝ} {J : PM.JSetup ℝ} (hJ : jsetup S = .ok J)
    (nodes : List (ℝ × ℝ)) (scale ωs ωi : ℝ) (hoff : offSupport S ωs ωi = true) :
    PM.jsaRaw J nodes scale ωs ωi = Cx.zero := by
  obtain ⟨hw, hb, ht⟩ := jsetup_pump hJ
  unfold offSupport pumpAmplitude at hoff
  unfold PM.jsaRaw
  rw [hw, hb, ht]
  rw [Bool.or_eq_true, decide_eq_true_iff] at hoff
  rcases hoff with h | h
  · simp [h]
  · by_cases hi : PM.invalidFrequencies ωs ωi (omegaP S) = true
    · simp [hi]
    · simp [hi, h]

/-- `JointSpectrum::jsa` of the composed setup as a total function -/
theorem jsa_eq_of_ok {S : Setup ℝ} {J : PM.JSetup ℝ} (hJ : jsetup S = .ok J) {divs : Nat}
    {r : List (ℝ × ℝ) × ℝ} (hr : simpsonRule divs = .ok r) (ωs ωi : ℝ) :
    jsa S divs ωs ωi = .ok (PM.jsa J r.1 r.2 ωs ωi) := by
  unfold jsa
  split
  · rename_i hoff
    unfold PM.jsa PM.jsaOfRaw
    rw [offSupport_jsaRaw_zero hJ r.1 r.2 ωs ωi hoff]
    simp [PM.cxIsZero_zero]
  · rw [hJ, hr]; rfl

/-- `JointSpectrum::jsi` of the composed setup as a total function -/
theorem jsi_eq_of_ok {S : Setup ℝ} {J : PM.JSetup ℝ} (hJ : jsetup S = .ok J) {divs : Nat}
    {r : List (ℝ × ℝ) × ℝ} (hr : simpsonRule divs = .ok r) (ωs ωi : ℝ) :
    jsi S divs ωs ωi = .ok (PM.jsi J r.1 r.2 ωs ωi) := by
  unfold jsi
  split
  · rename_i hoff
    unfold PM.jsi PM.jsiOfRaw
    rw [offSupport_jsaRaw_zero hJ r.1 r.2 ωs ωi hoff]
    simp [PM.cxIsZero_zero]
  · rw [hJ, hr]; rfl

/-! ### the spectrum object -/

/-- what a successful `JointSpectrum::new` holds -/
theorem jointSpectrum_ok {S : Setup ℝ} {divs : Nat} {js : JS ℝ} (h : jointSpectrum S divs = .ok js) :
    js.S = S ∧ js.divs = divs ∧
      ∃ o, asOptimum S = .ok o ∧ centreValues o divs = .ok (js.jsaCenter, js.jsiSinglesCenter) := by
  unfold jointSpectrum at h
  cases ho : asOptimum S with
  | ok o =>
    rw [ho] at h
    simp only at h
    cases hc : centreValues o divs with
    | ok c =>
      rw [hc] at h
      simp only [Outcome.map] at h
      injection h with h
      subst h
      exact ⟨rfl, rfl, o, rfl, hc⟩
    | err e => rw [hc] at h; cases h
    | panic e => rw [hc] at h; cases h
  | err e => rw [ho] at h; cases h
  | panic e => rw [ho] at h; cases h

/-! ### ranges -/

theorem collect_eq (g : Steps2D ℝ) : g.collect = (List.range g.len).map g.value := rfl

theorem length_collect (g : Steps2D ℝ) : g.collect.length = g.x.n * g.y.n := by
  simp [Steps2D.collect, Steps2D.len]

/-- the amplitude array sampled by the HOM layer is the row-major map over the collected grid -/
theorem sampled_eq (J : ℝ → ℝ → Cx ℝ) (g : Steps2D ℝ) :
    Hom.sampled J g = (g.collect.map fun p => J p.1 p.2).toArray := by
  simp [Hom.sampled, Steps2D.collect, List.map_map, Function.comp_def]

theorem sampledSwapped_eq (J : ℝ → ℝ → Cx ℝ) (g : Steps2D ℝ) :
    Hom.sampledSwapped J g = (g.collect.map fun p => J p.2 p.1).toArray := by
  simp [Hom.sampledSwapped, Steps2D.collect, List.map_map, Function.comp_def]

/-- the composed `jsa_range` over a frequency space is the layer's `sampled` array of the total
amplitude function -/
theorem homArrays_eq {js : JS ℝ} {J : PM.JSetup ℝ} (hJ : jsetup js.S = .ok J)
    {r : List (ℝ × ℝ) × ℝ} (hr : simpsonRule js.divs = .ok r) (g : Steps2D ℝ) :
    homArrays js g = .ok (Hom.sampled (PM.jsa J r.1 r.2) g, Hom.sampledSwapped (PM.jsa J r.1 r.2) g) := by
  unfold homArrays
  rw [mapPoints_ok js.jsa (PM.jsa J r.1 r.2) g.collect (fun p _ => jsa_eq_of_ok hJ hr p.1 p.2)]
  simp only [Outcome.bind]
  rw [mapPoints_ok (fun ωs ωi => js.jsa ωi ωs) (fun a b => PM.jsa J r.1 r.2 b a) g.collect
    (fun p _ => jsa_eq_of_ok hJ hr p.2 p.1)]
  simp only [Outcome.map, sampled_eq, sampledSwapped_eq]

theorem getJsa_eq {js : JS ℝ} {J : PM.JSetup ℝ} (hJ : jsetup js.S = .ok J)
    {r : List (ℝ × ℝ) × ℝ} (hr : simpsonRule js.divs = .ok r) (x y : Steps ℝ) :
    getJsa js x y = .ok (Hom.sampled (PM.jsa J r.1 r.2) ⟨x, y⟩) := by
  unfold getJsa
  rw [mapPoints_ok js.jsa (PM.jsa J r.1 r.2) _ (fun p _ => jsa_eq_of_ok hJ hr p.1 p.2)]
  simp only [Outcome.map, sampled_eq]

/-- the eight grids of the composed two-source call are the layer's `twoSrcOf` of the total
amplitude functions -/
theorem twoSrc_eq {js1 js2 : JS ℝ} {J1 J2 : PM.JSetup ℝ} (h1 : jsetup js1.S = .ok J1)
    (h2 : jsetup js2.S = .ok J2) {q1 q2 : List (ℝ × ℝ) × ℝ} (hr1 : simpsonRule js1.divs = .ok q1)
    (hr2 : simpsonRule js2.divs = .ok q2) (r1 r2 : Steps2D ℝ) :
    twoSrc js1 js2 r1 r2 = .ok (Hom.twoSrcOf (PM.jsa J1 q1.1 q1.2) (PM.jsa J2 q2.1 q2.2) r1 r2) := by
  unfold twoSrc
  simp only [getJsa_eq h1 hr1, getJsa_eq h2 hr2, Outcome.bind, Outcome.map]
  rfl

/-! ### counts -/

theorem cellArea_ok (g : Steps2D ℝ) (hx : g.x.n ≠ 0) (hy : g.y.n ≠ 0) :
    cellArea g = .ok (Counts.cellArea g) := by
  simp [cellArea, divisionWidth, hx, hy, Outcome.bind, Outcome.map, Counts.cellArea]

/-- the correction factor reads neither the pump power nor `deff` -/
theorem countsCorrection_scaled (S : Setup ℝ) (a b : ℝ) :
    countsCorrection (S.scaled a b) = countsCorrection S := rfl

/-- the common body of the three rates is the layer's `counts` of the collected spectrum -/
theorem countsOf_eq (S : Setup ℝ) (g : Steps2D ℝ) (hx : g.x.n ≠ 0) (hy : g.y.n ≠ 0)
    (f : ℝ → ℝ → Outcome ℝ) :
    countsOf S g f = (countsCorrection S).bind fun corr =>
      (mapPoints f g.collect).map fun vals => Counts.counts corr g vals := by
  unfold countsOf
  rw [cellArea_ok g hx hy]
  rfl

/-- scaling every value of the spectrum by `c` scales the rate by `c` -/
theorem countsOf_map (S : Setup ℝ) (g : Steps2D ℝ) (f : ℝ → ℝ → Outcome ℝ) (c : ℝ) :
    countsOf S g (fun a b => (f a b).map fun x => c * x) = (countsOf S g f).map fun x => c * x := by
  unfold countsOf
  cases cellArea g with
  | ok dw2 =>
    cases countsCorrection S with
    | ok corr =>
      simp only [Outcome.bind]
      rw [mapPoints_map]
      cases mapPoints f g.collect with
      | ok vals =>
        simp only [Outcome.map]
        congr 1
        rw [sumList_eq, sumList_eq, List.map_map]
        have : (List.map ((fun v => v * dw2) ∘ fun x => c * x) vals)
            = List.map (fun v => c * (v * dw2)) vals := by
          apply List.map_congr_left; intro v _; simp only [Function.comp]; ring
        rw [this, List.sum_map_mul_left]
        ring
      | err e => rfl
      | panic e => rfl
    | err e => rfl
    | panic e => rfl
  | err e => rfl
  | panic e => rfl


/-! ### scaling of pump power and deff, pointwise -/

/-- composed `jsi` under `power × a`, `deff × b` (outcomes included) -/
theorem jsi_scaled (S : Setup ℝ) (a b : ℝ) (divs : Nat) (ωs ωi : ℝ) :
    jsi (S.scaled a b) divs ωs ωi = (jsi S divs ωs ωi).map fun x => a * b ^ 2 * x := by
  unfold jsi
  rw [offSupport_scaled, jsetup_scaled]
  split
  · simp [Outcome.map, lit_zero]
  · cases jsetup S with
    | ok J =>
      cases (simpsonRule divs : Outcome (List (ℝ × ℝ) × ℝ)) with
      | ok r =>
        simp only [Outcome.map, Outcome.bind, PM.jsi, PM.jsaRaw_scaled, PM.jsiOfRaw_scaled]
      | err e => rfl
      | panic e => rfl
    | err e => rfl
    | panic e => rfl

/-- composed `jsi_singles` under `power × a`, `deff × b` (outcomes included) -/
theorem jsiSingles_scaled (S : Setup ℝ) (a b : ℝ) (divs : Nat) (ωs ωi : ℝ) :
    jsiSingles (S.scaled a b) divs ωs ωi = (jsiSingles S divs ωs ωi).map fun x => a * b ^ 2 * x := by
  unfold jsiSingles
  rw [offSupport_scaled, jsetup_scaled]
  split
  · simp [Outcome.map, lit_zero]
  · cases jsetup S with
    | ok J =>
      cases (Quad.simpson2dDivs divs) with
      | ok d => simp only [Outcome.map, Outcome.bind, PM.jsiSingles_scaled]
      | err e => rfl
      | panic e => rfl
    | err e => rfl
    | panic e => rfl

theorem swap_scaled (S : Setup ℝ) (a b : ℝ) : (S.scaled a b).swap = S.swap.scaled a b := rfl


/-! ### the centre values -/

/-- the normalisation as `JointSpectrum::new` evaluates it agrees with the one of the view -/
theorem jsiNormalizationC_eq {S : Setup ℝ} {J : PM.JSetup ℝ} (hJ : jsetup S = .ok J) (ωs ωi : ℝ) :
    jsiNormalizationC S ωs ωi = .ok (PM.jsiNormalization J.normIn J.sig J.idl ωs ωi) := by
  obtain ⟨i, rho, ke, hi, -, -, rfl⟩ := jsetup_ok hJ
  unfold jsiNormalizationC
  rw [hi]
  rfl

/-- what a successful evaluation of the centre values consists of -/
theorem centreValues_ok {o : Setup ℝ} {divs : Nat} {c : ℝ × ℝ} (h : centreValues o divs = .ok c) :
    ∃ i n r, idlerBeam o = .ok i ∧
      jsiNormalizationC o (signalBeam o).frequency i.frequency = .ok n ∧
      jsaRaw o divs (signalBeam o).frequency i.frequency = .ok r ∧ c.1 = Real.sqrt n * r.abs := by
  unfold centreValues at h
  cases hi : idlerBeam o with
  | ok i =>
    rw [hi] at h
    simp only [Outcome.bind] at h
    cases hn : jsiNormalizationC o (signalBeam o).frequency i.frequency with
    | ok n =>
      rw [hn] at h
      simp only at h
      cases hr : jsaRaw o divs (signalBeam o).frequency i.frequency with
      | ok r =>
        rw [hr] at h
        simp only at h
        cases hns : jsiSinglesNormalizationC o (signalBeam o).frequency i.frequency with
        | ok ns =>
          rw [hns] at h
          simp only at h
          cases hrs : jsiSinglesRaw o divs (signalBeam o).frequency i.frequency with
          | ok rs =>
            rw [hrs] at h
            simp only [Outcome.map] at h
            injection h with h
            exact ⟨i, n, r, rfl, hn, hr, by rw [← h]; rfl⟩
          | err e => rw [hrs] at h; cases h
          | panic e => rw [hrs] at h; cases h
        | err e => rw [hns] at h; cases h
        | panic e => rw [hns] at h; cases h
      | err e => rw [hr] at h; cases h
      | panic e => rw [hr] at h; cases h
    | err e => rw [hn] at h; cases h
    | panic e => rw [hn] at h; cases h
  | err e => rw [hi] at h; cases h
  | panic e => rw [hi] at h; cases h

/-- a non-zero composed `jsa_raw` comes from the view and the rule -/
theorem jsaRaw_ne_zero {S : Setup ℝ} {divs : Nat} {ωs ωi : ℝ} {r : Cx ℝ}
    (h : jsaRaw S divs ωs ωi = .ok r) (hr : r ≠ Cx.zero) :
    ∃ J q, jsetup S = .ok J ∧ simpsonRule divs = .ok q ∧ r = PM.jsaRaw J q.1 q.2 ωs ωi := by
  unfold jsaRaw at h
  split at h
  · injection h with h; exact absurd h.symm hr
  · cases hJ : jsetup S with
    | ok J =>
      rw [hJ] at h
      simp only [Outcome.bind] at h
      cases hq : (simpsonRule divs : Outcome (List (ℝ × ℝ) × ℝ)) with
      | ok q =>
        rw [hq] at h
        simp only [Outcome.map] at h
        injection h with h
        exact ⟨J, q, rfl, rfl, h.symm⟩
      | err e => rw [hq] at h; cases h
      | panic e => rw [hq] at h; cases h
    | err e => rw [hJ] at h; cases h
    | panic e => rw [hJ] at h; cases h

/-! ### availability over ℝ (non-vacuity of the grid-level hypotheses) -/

/-- over ℝ the central difference never trips its two `assert!`s -/
theorem derivativeAt_ok (f : ℝ → ℝ) (x : ℝ) : ∃ d, Index.derivativeAt f x = .ok d := by
  unfold Index.derivativeAt
  simp [Index.isFinite, lit_zero]

theorem walkoff_ok (S : Setup ℝ) : ∃ ρ, walkoff S = .ok ρ := by
  unfold walkoff Index.walkoff
  obtain ⟨d, hd⟩ := derivativeAt_ok
    (fun t => Index.indexAlong (principal S (Beam.vacuumWavelength (pumpBeam S))) t S.cPhi
      (pumpBeam S).direction (pumpBeam S).polarization) S.cTheta
  simp only [hd, Outcome.map]
  exact ⟨_, rfl⟩

theorem kEff_off (S : Setup ℝ) (h : S.poling = .off) : kEff S = .ok 0 := by
  simp [kEff, pp, h, Poling.PP.kEff, lit_zero]

/-- an unpoled setup with an optimum idler has a joint-spectrum view -/
theorem jsetup_ok_unpoled (S : Setup ℝ) (h : S.poling = .off) (i : Beam.Beam ℝ) (hi : idlerBeam S = .ok i) :
    ∃ J, jsetup S = .ok J := by
  obtain ⟨ρ, hρ⟩ := walkoff_ok S
  exact ⟨_, by unfold jsetup; rw [hi, hρ, kEff_off S h]; rfl⟩

theorem jsaRaw_ok_unpoled (S : Setup ℝ) (h : S.poling = .off) (i : Beam.Beam ℝ) (hi : idlerBeam S = .ok i)
    (ωs ωi : ℝ) : ∃ r, jsaRaw S 50 ωs ωi = .ok r := by
  obtain ⟨J, hJ⟩ := jsetup_ok_unpoled S h i hi
  unfold jsaRaw
  split
  · exact ⟨_, rfl⟩
  · exact ⟨_, by rw [hJ]; rfl⟩

theorem jsiSinglesRaw_ok_unpoled (S : Setup ℝ) (h : S.poling = .off) (i : Beam.Beam ℝ) (hi : idlerBeam S = .ok i)
    (ωs ωi : ℝ) : ∃ r, jsiSinglesRaw S 50 ωs ωi = .ok r := by
  obtain ⟨J, hJ⟩ := jsetup_ok_unpoled S h i hi
  unfold jsiSinglesRaw
  split
  · exact ⟨_, rfl⟩
  · exact ⟨_, by rw [hJ]; rfl⟩

theorem centreValues_ok_unpoled (o : Setup ℝ) (h : o.poling = .off) (i : Beam.Beam ℝ) (hi : idlerBeam o = .ok i) :
    ∃ c, centreValues o 50 = .ok c := by
  obtain ⟨r, hr⟩ := jsaRaw_ok_unpoled o h i hi (signalBeam o).frequency i.frequency
  obtain ⟨rs, hrs⟩ := jsiSinglesRaw_ok_unpoled o h i hi (signalBeam o).frequency i.frequency
  unfold centreValues
  rw [hi]
  simp only [Outcome.bind, jsiNormalizationC, jsiSinglesNormalizationC, hi, Outcome.map, hr, hrs]
  exact ⟨_, rfl⟩

theorem autoIdler_ok (S : Setup ℝ)
    (hlam : Beam.vacuumWavelength (pumpBeam S) < Beam.vacuumWavelength (signalBeam S)) :
    ∃ i, autoIdler S = .ok i := by
  obtain ⟨o, ho⟩ := optimumIdler_ok_of_lt (i := idlerIn S) hlam
  exact ⟨_, by unfold autoIdler; rw [ho]; rfl⟩

/-- the composed `try_as_optimum` of an unpoled setup whose (reset) signal wavelength exceeds the pump
wavelength returns an unpoled optimum with an optimum idler -/
theorem asOptimum_ok_unpoled (S : Setup ℝ) (hp : S.poling = .off)
    (hlam : Beam.vacuumWavelength (pumpBeam (optReset S)) < Beam.vacuumWavelength (signalBeam (optReset S))) :
    ∃ o i, asOptimum S = .ok o ∧ o.poling = .off ∧ idlerBeam o = .ok i ∧ o.lamP = S.lamP ∧ o.sig.lam = S.sig.lam := by
  have hpT : (optReset S).poling = .off := hp
  obtain ⟨θ, hθ⟩ := optimumThetaB_ok (optReset S) (signalBeam (optReset S)) (pumpBeam (optReset S)) hlam
  have hD : optDecide (optReset S) = .ok { optReset S with cTheta := θ } := by
    rw [optDecide_off _ hpT, if_neg (not_le.mpr hlam), hθ]; rfl
  let S3 : Setup ℝ := { ({ optReset S with cTheta := θ } : Setup ℝ) with idlerAuto := true }
  obtain ⟨i, hi⟩ := autoIdler_ok S3 hlam
  let o : Setup ℝ := { S3 with
      sig := { S3.sig with z0 := optimalWaistPosition S3 (signalBeam S3) }
      idl := { S3.idl with z0 := optimalWaistPosition S3 i } }
  have hF : optFinish { optReset S with cTheta := θ } = .ok o := by
    have hi' : idlerBeam S3 = .ok i := by simp only [idlerBeam, S3, if_true]; exact hi
    show (idlerBeam S3).map _ = _
    rw [hi']
    rfl
  have hio : idlerBeam o = .ok i := by
    have : idlerBeam o = autoIdler S3 := rfl
    rw [this, hi]
  exact ⟨o, i, by unfold asOptimum; rw [hD]; exact hF, hp, hio, rfl, rfl⟩

theorem jointSpectrum_ok_unpoled (S : Setup ℝ) (hp : S.poling = .off)
    (hlam : Beam.vacuumWavelength (pumpBeam (optReset S)) < Beam.vacuumWavelength (signalBeam (optReset S))) :
    ∃ js, jointSpectrum S 50 = .ok js := by
  obtain ⟨o, i, ho, hpo, hi, -, -⟩ := asOptimum_ok_unpoled S hp hlam
  obtain ⟨c, hc⟩ := centreValues_ok_unpoled o hpo i hi
  exact ⟨⟨S, 50, c.1, c.2⟩, by unfold jointSpectrum; rw [ho]; simp only [hc, Outcome.map]⟩

/-- the wavelength hypothesis in primitive terms -/
theorem reset_wavelengths (S : Setup ℝ) (h0 : S.lamP ≠ 0) (h1 : S.sig.lam ≠ 0) (h : S.lamP < S.sig.lam) :
    Beam.vacuumWavelength (pumpBeam (optReset S)) < Beam.vacuumWavelength (signalBeam (optReset S)) := by
  have hp : Beam.vacuumWavelength (pumpBeam (optReset S)) = S.lamP := pump_wavelength (optReset S) h0
  have hs : Beam.vacuumWavelength (signalBeam (optReset S)) = S.sig.lam := signal_wavelength (optReset S) h1
  rw [hp, hs]; exact h

/-- **the hypotheses of the grid-level theorems are jointly satisfiable**: for every unpoled primitive
setup with an explicit idler and `0 ≠ λ_p < λ_s`, the spectrum object (Simpson-50), the joint-spectrum
view and the Simpson rule all exist over ℝ -/
theorem grid_hypotheses_satisfiable (S : Setup ℝ) (hp : S.poling = .off) (ha : S.idlerAuto = false)
    (h0 : S.lamP ≠ 0) (h1 : S.sig.lam ≠ 0) (h : S.lamP < S.sig.lam) :
    ∃ js J q, jointSpectrum S 50 = .ok js ∧ jsetup S = .ok J ∧
      (simpsonRule 50 : Outcome (List (ℝ × ℝ) × ℝ)) = .ok q := by
  obtain ⟨js, hjs⟩ := jointSpectrum_ok_unpoled S hp (reset_wavelengths S h0 h1 h)
  obtain ⟨J, hJ⟩ := jsetup_ok_unpoled S hp _ (idlerBeam_explicit S ha)
  exact ⟨js, J, _, hjs, hJ, rfl⟩

/-- a concrete unpoled primitive setup with an explicit idler (KTP type II, 775 → 1500 + 1603 nm) -/
def exGrid : Setup ℝ :=
  { crystal := .KTP, cTheta := 1.5, cPhi := 0, L := 0.01, T := 293, counterProp := false,
    pm := .t2_e_eo, lamP := 775e-9, wpx := 1e-4, wpy := 1e-4, bandwidth := 1e-9, power := 1,
    threshold := 0.01, deff := 1e-12,
    sig := ⟨1500e-9, 0.01, 0, 5e-5, 5e-5, -0.003⟩, idl := ⟨1603e-9, 0.011, 3, 6e-5, 6e-5, -0.002⟩,
    idlerAuto := false, poling := .off }

theorem exGrid_available : ∃ js J q, jointSpectrum exGrid 50 = .ok js ∧ jsetup exGrid = .ok J ∧
    (simpsonRule 50 : Outcome (List (ℝ × ℝ) × ℝ)) = .ok q :=
  grid_hypotheses_satisfiable exGrid rfl rfl (by norm_num [exGrid]) (by norm_num [exGrid])
    (by norm_num [exGrid])

/-- the exchanged setup (idler-singles route) has a spectrum object too -/
theorem exGrid_swap_available : ∃ sw, jointSpectrum exGrid.swap 50 = .ok sw := by
  obtain ⟨js, -, -, h, -, -⟩ := grid_hypotheses_satisfiable exGrid.swap rfl rfl
    (by norm_num [exGrid, Setup.swap]) (by norm_num [exGrid, Setup.swap]) (by norm_num [exGrid, Setup.swap])
  exact ⟨js, h⟩

/-- an optimum setup (fixed point of the composed `try_as_optimum`) with a spectrum object exists -/
theorem exGrid_optimum_available :
    ∃ (o : Setup ℝ) (js : JS ℝ), asOptimum o = .ok o ∧ jointSpectrum o 50 = .ok js := by
  obtain ⟨o, i, ho, hpo, -, hl, hs⟩ := asOptimum_ok_unpoled exGrid rfl
    (reset_wavelengths exGrid (by norm_num [exGrid]) (by norm_num [exGrid]) (by norm_num [exGrid]))
  have hfix := asOptimum_idem exGrid o ho rfl
  obtain ⟨js, hjs⟩ := jointSpectrum_ok_unpoled o hpo
    (reset_wavelengths o (by rw [hl]; norm_num [exGrid]) (by rw [hs]; norm_num [exGrid])
      (by rw [hl, hs]; norm_num [exGrid]))
  exact ⟨o, js, hfix, hjs⟩


end Spdc.Compose
