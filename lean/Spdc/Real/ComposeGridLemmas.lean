import Spdc.Model.ComposeGrid
import Spdc.Real.ComposeLemmas
import Spdc.Real.ComposeAutoLemmas
import Spdc.Real.Counts
import Spdc.Real.HomLemmas
/-!
# ℝ-side lemmas about part 3 of the composed model (`Spdc/Model/ComposeGrid.lean`)

How the grid-level composition reduces to the layer models applied to the composed point functions:
a spectrum object produced by `jointSpectrum` carries its setup and division count; once the
joint-spectrum view `jsetup S = ok J` and the Simpson rule exist, the composed `jsa` / `jsi` /
`jsi_singles` are TOTAL functions of the frequencies (`PM.jsa J …`), so every `*_range` is a plain
`List.map` in the row-major order of the grid and the HOM / Schmidt / counts functions are the layer
functions applied to the sampled arrays.  The composed-model theorems themselves are appended to
`Props/C08.lean`, `C09.lean`, `C10.lean`, `C11.lean`, `C14.lean`, `C20.lean`.
-/
namespace Spdc.Compose
open Spdc Spdc.Grid

/-! ### collecting outcomes -/

theorem collectOutcomes_ok {β γ : Type} (l : List γ) (f : γ → β) :
    Hom.collectOutcomes (l.map fun x => Outcome.ok (f x)) = .ok (l.map f) := by
  induction l with
  | nil => rfl
  | cons a t ih => simp only [List.map_cons, Hom.collectOutcomes, ih]

/-- a point function that succeeds on every listed pair maps to the list of its values, in order -/
theorem mapPoints_ok {β : Type} (F : ℝ → ℝ → Outcome β) (f : ℝ → ℝ → β) (pts : List (ℝ × ℝ))
    (h : ∀ p ∈ pts, F p.1 p.2 = .ok (f p.1 p.2)) :
    mapPoints F pts = .ok (pts.map fun p => f p.1 p.2) := by
  unfold mapPoints
  rw [← collectOutcomes_ok]
  congr 1
  exact List.map_congr_left h

theorem mapPoints_total {β : Type} (f : ℝ → ℝ → β) (pts : List (ℝ × ℝ)) :
    mapPoints (fun a b => Outcome.ok (f a b)) pts = .ok (pts.map fun p => f p.1 p.2) :=
  mapPoints_ok _ f pts (fun _ _ => rfl)

theorem collectOutcomes_map {β γ : Type} (c : β → γ) (l : List (Outcome β)) :
    Hom.collectOutcomes (l.map (Outcome.map c)) = (Hom.collectOutcomes l).map (List.map c) := by
  induction l with
  | nil => rfl
  | cons x t ih =>
    cases x with
    | ok v =>
      simp only [List.map_cons, Outcome.map, Hom.collectOutcomes]
      have ih' : Hom.collectOutcomes (List.map (Outcome.map c) t)
          = Outcome.map (List.map c) (Hom.collectOutcomes t) := ih
      simp only [Outcome.map] at ih'
      rw [ih']
      cases Hom.collectOutcomes t <;> rfl
    | err e => rfl
    | panic e => rfl

/-- mapping the values of a point function commutes with collecting -/
theorem mapPoints_map {β γ : Type} (F : ℝ → ℝ → Outcome β) (c : β → γ) (pts : List (ℝ × ℝ)) :
    mapPoints (fun a b => (F a b).map c) pts = (mapPoints F pts).map (List.map c) := by
  unfold mapPoints
  rw [← collectOutcomes_map, List.map_map]
  rfl

/-! ### the point functions are total once the view and the rule exist -/

theorem offSupport_jsaRaw_zero {S : Setup ℝ} {J : PM.JSetup ℝ} (hJ : jsetup S = .ok J)
    (nodes : List (ℝ × ℝ)) (scale ωs ωi : ℝ) (hoff : offSupport S ωs ωi = true) :
    PM.jsaRaw J nodes scale ωs ωi = Cx.zero := by
  obtain ⟨hw, hb, ht⟩ := jsetup_pump hJ
  unfold offSupport pumpAmplitude at hoff
  unfold PM.jsaRaw
  rw [hw, hb, ht]
  rw [Bool.or_eq_true, decide_eq_true_iff] at hoff
  rcases hoff with h | h
  · simp [h]
  · by_cases hi : PM.invalidFrequencies ωs ωi (omegaP S) = true
    · simp [hi]
    · simp [hi, h]

/-- `JointSpectrum::jsa` of the composed setup as a total function -/
theorem jsa_eq_of_ok {S : Setup ℝ} {J : PM.JSetup ℝ} (hJ : jsetup S = .ok J) {divs : Nat}
    {r : List (ℝ × ℝ) × ℝ} (hr : simpsonRule divs = .ok r) (ωs ωi : ℝ) :
    jsa S divs ωs ωi = .ok (PM.jsa J r.1 r.2 ωs ωi) := by
  unfold jsa
  split
  · rename_i hoff
    unfold PM.jsa PM.jsaOfRaw
    rw [offSupport_jsaRaw_zero hJ r.1 r.2 ωs ωi hoff]
    simp [PM.cxIsZero_zero]
  · rw [hJ, hr]; rfl

/-- `JointSpectrum::jsi` of the composed setup as a total function -/
theorem jsi_eq_of_ok {S : Setup ℝ} {J : PM.JSetup ℝ} (hJ : jsetup S = .ok J) {divs : Nat}
    {r : List (ℝ × ℝ) × ℝ} (hr : simpsonRule divs = .ok r) (ωs ωi : ℝ) :
    jsi S divs ωs ωi = .ok (PM.jsi J r.1 r.2 ωs ωi) := by
  unfold jsi
  split
  · rename_i hoff
    unfold PM.jsi PM.jsiOfRaw
    rw [offSupport_jsaRaw_zero hJ r.1 r.2 ωs ωi hoff]
    simp [PM.cxIsZero_zero]
  · rw [hJ, hr]; rfl

/-! ### the spectrum object -/

/-- what a successful `JointSpectrum::new` holds -/
theorem jointSpectrum_ok {S : Setup ℝ} {divs : Nat} {js : JS ℝ} (h : jointSpectrum S divs = .ok js) :
    js.S = S ∧ js.divs = divs ∧
      ∃ o, asOptimum S = .ok o ∧ centreValues o divs = .ok (js.jsaCenter, js.jsiSinglesCenter) := by
  unfold jointSpectrum at h
  cases ho : asOptimum S with
  | ok o =>
    rw [ho] at h
    simp only at h
    cases hc : centreValues o divs with
    | ok c =>
      rw [hc] at h
      simp only [Outcome.map] at h
      injection h with h
      subst h
      exact ⟨rfl, rfl, o, rfl, hc⟩
    | err e => rw [hc] at h; cases h
    | panic e => rw [hc] at h; cases h
  | err e => rw [ho] at h; cases h
  | panic e => rw [ho] at h; cases h

/-! ### ranges -/

theorem collect_eq (g : Steps2D ℝ) : g.collect = (List.range g.len).map g.value := rfl

theorem length_collect (g : Steps2D ℝ) : g.collect.length = g.x.n * g.y.n := by
  simp [Steps2D.collect, Steps2D.len]

/-- the amplitude array sampled by the HOM layer is the row-major map over the collected grid -/
theorem sampled_eq (J : ℝ → ℝ → Cx ℝ) (g : Steps2D ℝ) :
    Hom.sampled J g = (g.collect.map fun p => J p.1 p.2).toArray := by
  simp [Hom.sampled, Steps2D.collect, List.map_map, Function.comp_def]

theorem sampledSwapped_eq (J : ℝ → ℝ → Cx ℝ) (g : Steps2D ℝ) :
    Hom.sampledSwapped J g = (g.collect.map fun p => J p.2 p.1).toArray := by
  simp [Hom.sampledSwapped, Steps2D.collect, List.map_map, Function.comp_def]

/-- the composed `jsa_range` over a frequency space is the layer's `sampled` array of the total
amplitude function -/
theorem homArrays_eq {js : JS ℝ} {J : PM.JSetup ℝ} (hJ : jsetup js.S = .ok J)
    {r : List (ℝ × ℝ) × ℝ} (hr : simpsonRule js.divs = .ok r) (g : Steps2D ℝ) :
    homArrays js g = .ok (Hom.sampled (PM.jsa J r.1 r.2) g, Hom.sampledSwapped (PM.jsa J r.1 r.2) g) := by
  unfold homArrays
  rw [mapPoints_ok js.jsa (PM.jsa J r.1 r.2) g.collect (fun p _ => jsa_eq_of_ok hJ hr p.1 p.2)]
  simp only [Outcome.bind]
  rw [mapPoints_ok (fun ωs ωi => js.jsa ωi ωs) (fun a b => PM.jsa J r.1 r.2 b a) g.collect
    (fun p _ => jsa_eq_of_ok hJ hr p.2 p.1)]
  simp only [Outcome.map, sampled_eq, sampledSwapped_eq]

theorem getJsa_eq {js : JS ℝ} {J : PM.JSetup ℝ} (hJ : jsetup js.S = .ok J)
    {r : List (ℝ × ℝ) × ℝ} (hr : simpsonRule js.divs = .ok r) (x y : Steps ℝ) :
    getJsa js x y = .ok (Hom.sampled (PM.jsa J r.1 r.2) ⟨x, y⟩) := by
  unfold getJsa
  rw [mapPoints_ok js.jsa (PM.jsa J r.1 r.2) _ (fun p _ => jsa_eq_of_ok hJ hr p.1 p.2)]
  simp only [Outcome.map, sampled_eq]

/-- the eight grids of the composed two-source call are the layer's `twoSrcOf` of the total
amplitude functions -/
theorem twoSrc_eq {js1 js2 : JS ℝ} {J1 J2 : PM.JSetup ℝ} (h1 : jsetup js1.S = .ok J1)
    (h2 : jsetup js2.S = .ok J2) {q1 q2 : List (ℝ × ℝ) × ℝ} (hr1 : simpsonRule js1.divs = .ok q1)
    (hr2 : simpsonRule js2.divs = .ok q2) (r1 r2 : Steps2D ℝ) :
    twoSrc js1 js2 r1 r2 = .ok (Hom.twoSrcOf (PM.jsa J1 q1.1 q1.2) (PM.jsa J2 q2.1 q2.2) r1 r2) := by
  unfold twoSrc
  simp only [getJsa_eq h1 hr1, getJsa_eq h2 hr2, Outcome.bind, Outcome.map]
  rfl

/-! ### counts -/

theorem cellArea_ok (g : Steps2D ℝ) (hx : g.x.n ≠ 0) (hy : g.y.n ≠ 0) :
    cellArea g = .ok (Counts.cellArea g) := by
  simp [cellArea, divisionWidth, hx, hy, Outcome.bind, Outcome.map, Counts.cellArea]

/-- the correction factor reads neither the pump power nor `deff` -/
theorem countsCorrection_scaled (S : Setup ℝ) (a b : ℝ) :
    countsCorrection (S.scaled a b) = countsCorrection S := rfl

/-- the common body of the three rates is the layer's `counts` of the collected spectrum -/
theorem countsOf_eq (S : Setup ℝ) (g : Steps2D ℝ) (hx : g.x.n ≠ 0) (hy : g.y.n ≠ 0)
    (f : ℝ → ℝ → Outcome ℝ) :
    countsOf S g f = (countsCorrection S).bind fun corr =>
      (mapPoints f g.collect).map fun vals => Counts.counts corr g vals := by
  unfold countsOf
  rw [cellArea_ok g hx hy]
  rfl

/-- scaling every value of the spectrum by `c` scales the rate by `c` -/
theorem countsOf_map (S : Setup ℝ) (g : Steps2D ℝ) (f : ℝ → ℝ → Outcome ℝ) (c : ℝ) :
    countsOf S g (fun a b => (f a b).map fun x => c * x) = (countsOf S g f).map fun x => c * x := by
  unfold countsOf
  cases cellArea g with
  | ok dw2 =>
    cases countsCorrection S with
    | ok corr =>
      simp only [Outcome.bind]
      rw [mapPoints_map]
      cases mapPoints f g.collect with
      | ok vals =>
        simp only [Outcome.map]
        congr 1
        rw [sumList_eq, sumList_eq, List.map_map]
        have : (List.map ((fun v => v * dw2) ∘ fun x => c * x) vals)
            = List.map (fun v => c * (v * dw2)) vals := by
          apply List.map_congr_left; intro v _; simp only [Function.comp]; ring
        rw [this, List.sum_map_mul_left]
        ring
      | err e => rfl
      | panic e => rfl
    | err e => rfl
    | panic e => rfl
  | err e => rfl
  | panic e => rfl


/-! ### scaling of pump power and deff, pointwise -/

/-- composed `jsi` under `power × a`, `deff × b` (outcomes included) -/
theorem jsi_scaled (S : Setup ℝ) (a b : ℝ) (divs : Nat) (ωs ωi : ℝ) :
    jsi (S.scaled a b) divs ωs ωi = (jsi S divs ωs ωi).map fun x => a * b ^ 2 * x := by
  unfold jsi
  rw [offSupport_scaled, jsetup_scaled]
  split
  · simp [Outcome.map, lit_zero]
  · cases jsetup S with
    | ok J =>
      cases (simpsonRule divs : Outcome (List (ℝ × ℝ) × ℝ)) with
      | ok r =>
        simp only [Outcome.map, Outcome.bind, PM.jsi, PM.jsaRaw_scaled, PM.jsiOfRaw_scaled]
      | err e => rfl
      | panic e => rfl
    | err e => rfl
    | panic e => rfl

/-- composed `jsi_singles` under `power × a`, `deff × b` (outcomes included) -/
theorem jsiSingles_scaled (S : Setup ℝ) (a b : ℝ) (divs : Nat) (ωs ωi : ℝ) :
    jsiSingles (S.scaled a b) divs ωs ωi = (jsiSingles S divs ωs ωi).map fun x => a * b ^ 2 * x := by
  unfold jsiSingles
  rw [offSupport_scaled, jsetup_scaled]
  split
  · simp [Outcome.map, lit_zero]
  · cases jsetup S with
    | ok J =>
      cases (Quad.simpson2dDivs divs) with
      | ok d => simp only [Outcome.map, Outcome.bind, PM.jsiSingles_scaled]
      | err e => rfl
      | panic e => rfl
    | err e => rfl
    | panic e => rfl

theorem swap_scaled (S : Setup ℝ) (a b : ℝ) : (S.scaled a b).swap = S.swap.scaled a b := rfl


/-! ### the centre values -/

/-- the normalisation as `JointSpectrum::new` evaluates it agrees with the one of the view -/
theorem jsiNormalizationC_eq {S : Setup ℝ} {J : PM.JSetup ℝ} (hJ : jsetup S = .ok J) (ωs ωi : ℝ) :
    jsiNormalizationC S ωs ωi = .ok (PM.jsiNormalization J.normIn J.sig J.idl ωs ωi) := by
  obtain ⟨i, rho, ke, hi, -, -, rfl⟩ := jsetup_ok hJ
  unfold jsiNormalizationC
  rw [hi]
  rfl

/-- what a successful evaluation of the centre values consists of -/
theorem centreValues_ok {o : Setup ℝ} {divs : Nat} {c : ℝ × ℝ} (h : centreValues o divs = .ok c) :
    ∃ i n r, idlerBeam o = .ok i ∧
      jsiNormalizationC o (signalBeam o).frequency i.frequency = .ok n ∧
      jsaRaw o divs (signalBeam o).frequency i.frequency = .ok r ∧ c.1 = Real.sqrt n * r.abs := by
  unfold centreValues at h
  cases hi : idlerBeam o with
  | ok i =>
    rw [hi] at h
    simp only [Outcome.bind] at h
    cases hn : jsiNormalizationC o (signalBeam o).frequency i.frequency with
    | ok n =>
      rw [hn] at h
      simp only at h
      cases hr : jsaRaw o divs (signalBeam o).frequency i.frequency with
      | ok r =>
        rw [hr] at h
        simp only at h
        cases hns : jsiSinglesNormalizationC o (signalBeam o).frequency i.frequency with
        | ok ns =>
          rw [hns] at h
          simp only at h
          cases hrs : jsiSinglesRaw o divs (signalBeam o).frequency i.frequency with
          | ok rs =>
            rw [hrs] at h
            simp only [Outcome.map] at h
            injection h with h
            exact ⟨i, n, r, rfl, hn, hr, by rw [← h]; rfl⟩
          | err e => rw [hrs] at h; cases h
          | panic e => rw [hrs] at h; cases h
        | err e => rw [hns] at h; cases h
        | panic e => rw [hns] at h; cases h
      | err e => rw [hr] at h; cases h
      | panic e => rw [hr] at h; cases h
    | err e => rw [hn] at h; cases h
    | panic e => rw [hn] at h; cases h
  | err e => rw [hi] at h; cases h
  | panic e => rw [hi] at h; cases h

/-- a non-zero composed `jsa_raw` comes from the view and the rule -/
theorem jsaRaw_ne_zero {S : Setup ℝ} {divs : Nat} {ωs ωi : ℝ} {r : Cx ℝ}
    (h : jsaRaw S divs ωs ωi = .ok r) (hr : r ≠ Cx.zero) :
    ∃ J q, jsetup S = .ok J ∧ simpsonRule divs = .ok q ∧ r = PM.jsaRaw J q.1 q.2 ωs ωi := by
  unfold jsaRaw at h
  split at h
  · injection h with h; exact absurd h.symm hr
  · cases hJ : jsetup S with
    | ok J =>
      rw [hJ] at h
      simp only [Outcome.bind] at h
      cases hq : (simpsonRule divs : Outcome (List (ℝ × ℝ) × ℝ)) with
      | ok q =>
        rw [hq] at h
        simp only [Outcome.map] at h
        injection h with h
        exact ⟨J, q, rfl, rfl, h.symm⟩
      | err e => rw [hq] at h; cases h
      | panic e => rw [hq] at h; cases h
    | err e => rw [hJ] at h; cases h
    | panic e => rw [hJ] at h; cases h

end Spdc.Compose
